(** Soundness of the signal-disposition checker (Model/Signals.v): when [sig_ok] accepts the list of sites, then in
    every execution - the sites executed in any order, any number of times, before and after main()'s installation -
    SIGINT's disposition after the installation is main()'s handler, and a delivered SIGINT sets the flag. *)
From Coq Require Import List ZArith String Bool.
From Inovesa Require Import Model.Signals.
Import ListNotations.
Local Open Scope string_scope.

Lemma harmless_some s d : harmless s = true -> exists d', apply_site s (Some d) = Some d'.
Proof.
  unfold harmless, apply_site. destruct (classify s) as [sg d'|]; [|discriminate].
  intros _. destruct (String.eqb sg "SIGINT"); eauto.
Qed.

Lemma harmless_keeps s : harmless s = true ->
  apply_site s (Some (DHandler the_handler)) = Some (DHandler the_handler).
Proof.
  unfold harmless, apply_site. destruct (classify s) as [sg d'|]; [|discriminate].
  destruct (String.eqb sg "SIGINT"); [|reflexivity].
  destruct d' as [| |h]; try discriminate. intro H. apply String.eqb_eq in H. subst h. reflexivity.
Qed.

Lemma install_sets s d : is_install s = true -> apply_site s (Some d) = Some (DHandler the_handler).
Proof.
  unfold is_install, apply_site. destruct (classify s) as [sg d'|]; [|discriminate].
  destruct d' as [| |h]; try discriminate. intro H. apply andb_true_iff in H. destruct H as [H1 H2].
  rewrite H1. apply String.eqb_eq in H2. subst h. reflexivity.
Qed.

Lemma run_harmless_some tr : (forall s, In s tr -> harmless s = true) ->
  forall d, exists d', run_sites tr (Some d) = Some d'.
Proof.
  induction tr as [|s r IH]; intros H d; cbn [run_sites fold_left]; [eauto|].
  destruct (harmless_some s d (H s (or_introl eq_refl))) as [d1 E]. rewrite E.
  apply IH. intros x Hx. apply H. right. exact Hx.
Qed.

Lemma run_harmless_keeps tr : (forall s, In s tr -> harmless s = true) ->
  run_sites tr (Some (DHandler the_handler)) = Some (DHandler the_handler).
Proof.
  induction tr as [|s r IH]; intros H; cbn [run_sites fold_left]; [reflexivity|].
  rewrite (harmless_keeps s (H s (or_introl eq_refl))). apply IH. intros x Hx. apply H. right. exact Hx.
Qed.

Lemma run_sites_app a b st : run_sites (a ++ b) st = run_sites b (run_sites a st).
Proof. unfold run_sites. apply fold_left_app. Qed.

Section Sound.
  Variable sites : list sigsite.
  Variable first_point : Z.
  Variable body : list hstmt.
  Hypothesis Hok : sig_ok sites first_point body = true.

  Lemma ok_parts :
    (forall s, In s sites -> harmless s = true) /\
    (exists inst, In inst sites /\ installs_before first_point inst = true) /\
    body = [HSetAbortTrue].
  Proof.
    unfold sig_ok in Hok. apply andb_true_iff in Hok. destruct Hok as [H12 H3].
    apply andb_true_iff in H12. destruct H12 as [H1 H2].
    split; [|split].
    - apply forallb_forall. exact H1.
    - apply existsb_exists in H2. destruct H2 as [x [Hx Hi]]. exists x. split; assumption.
    - destruct body as [|[|t] [|b r]]; try discriminate H3; reflexivity.
  Qed.

  (** main() installs `Display::SIGINT_handler` for SIGINT in a top-level statement before its first hook point *)
  Theorem installed_before_first_point :
    exists inst i, In inst sites /\ is_install inst = true /\ s_where inst = SMainTop i /\ (i < first_point)%Z.
  Proof.
    destruct ok_parts as [_ [[inst [Hin Hb]] _]]. unfold installs_before in Hb.
    apply andb_true_iff in Hb. destruct Hb as [Hi Hw].
    destruct (s_where inst) as [i| |] eqn:E; try discriminate Hw.
    exists inst, i. repeat split; auto. apply Z.ltb_lt. exact Hw.
  Qed.

  (** whatever the program executed before the installation and whatever it executes afterwards (sites of the list, in any
      order and number): the disposition of SIGINT is main()'s handler *)
  Theorem disposition_fixed :
    forall inst, In inst sites -> is_install inst = true ->
    forall pre post d0, (forall s, In s pre -> In s sites) -> (forall s, In s post -> In s sites) ->
      run_sites (pre ++ inst :: post) (Some d0) = Some (DHandler the_handler).
  Proof.
    intros inst Hin Hi pre post d0 Hpre Hpost.
    destruct ok_parts as [Hh _].
    rewrite run_sites_app.
    destruct (run_harmless_some pre (fun s Hs => Hh s (Hpre s Hs)) d0) as [d1 E1]. rewrite E1.
    change (run_sites (inst :: post) (Some d1)) with (run_sites post (apply_site inst (Some d1))).
    rewrite (install_sets inst d1 Hi).
    apply run_harmless_keeps. intros s Hs. apply Hh, Hpost, Hs.
  Qed.

  (** ... and a SIGINT delivered then sets the flag and does nothing else: the transition of [Point] in Model/Driver.v *)
  Theorem delivery_sets_flag :
    forall inst, In inst sites -> is_install inst = true ->
    forall pre post d0 flag, (forall s, In s pre -> In s sites) -> (forall s, In s post -> In s sites) ->
      deliver (run_sites (pre ++ inst :: post) (Some d0)) body flag = Some (flag || true).
  Proof.
    intros inst Hin Hi pre post d0 flag Hpre Hpost.
    rewrite (disposition_fixed inst Hin Hi pre post d0 Hpre Hpost).
    destruct ok_parts as [_ [_ Hb]]. rewrite Hb. unfold deliver. rewrite String.eqb_refl.
    cbn. rewrite orb_true_r. reflexivity.
  Qed.
End Sound.
