(** * C01 "up to single-precision rounding": one kick of one row, in binary32.

    [row_exact] is the real-number mirror of [Model.Kick.row_out] (same unsigned range test, same source
    cell), [row_computed] says that every output cell of the row is the float accumulation of its
    in-range products with the STORED (float) weights, in any order, each operation rounded at most once
    (Proofs/StencilRoundP.v).  Under the hypotheses of the exact conservation theorem
    ([KickP.row_conserves]: stencil inside the table, support clear of the border under every shift)

      | Sum_y out(y) - Sum_i r(i) |  <=  ( Sum_j cw_k(w_j, wh_j) ) * Sum_i |r(i)|  +  n * A32 k,

    [cw_k (w, wh) = |wh - w| + ((1+u)^k - 1)(|w| + |wh - w|)], [k >= it] the number of accumulated products.
    With the weights of updateSM ([sm_row_rounding]): exact weights [coeffs it f], stored weights any
    [computed_weights it f] (Proofs/CoeffsRoundP.v), [f] the fractional part of the float [n/2 + offset]
    (hypothesis: that float is non-negative, i.e. the offset is not below -n/2), the factor is at most
    [Crow it * 2^-24] with Crow = 1.001, 3.2, 8.2, 12.6 for it = 1..4, for signed data.  For non-negative
    data [Sum |r| = Sum r].  The summation order inside a cell is immaterial (any order, fused or not);
    the row sums [Sum_y], [Sum_i] are exact real sums (the oracle of the harness adds in exact
    arithmetic). *)
From Coq Require Import Reals QArith Qreals Qcanon ZArith Lra Lia List Bool Psatz.
From Inovesa Require Import Base.FieldKit Base.RInst Base.Sums Base.Float32 Gen.Gen_Coeffs Gen.Gen_CoeffsFl
  Model.Kick Model.FExpr Proofs.WeightsP Proofs.KickP Proofs.RoundingP Proofs.FExprP Proofs.CoeffsRoundP
  Proofs.StencilRoundP.
Import ListNotations.
Local Open Scope R_scope.

Notation sumR := (@sumZ RF).
Ltac rfu := cbv [fadd fmul fsub fopp fdiv finv f0 f1 car RF] in *.

Ltac f2r := repeat match goal with |- context [@fsum RF ?l] => change (@fsum RF l) with (Rsum l) end.

(** ** real sums over integer ranges: order lemmas *)
Lemma sumR_le lo len (g h : Z -> R) :
  (forall i, (lo <= i < lo + Z.of_nat len)%Z -> g i <= h i) -> sumR lo len g <= sumR lo len h.
Proof.
  revert lo; induction len as [|k IH]; intros lo H; cbn [sumZ]; rfu; [lra|].
  pose proof (H lo ltac:(lia)). pose proof (IH (lo + 1)%Z ltac:(intros; apply H; lia)). rfu. lra.
Qed.

Lemma sumR_abs lo len (g : Z -> R) : Rabs (sumR lo len g) <= sumR lo len (fun i => Rabs (g i)).
Proof.
  revert lo; induction len as [|k IH]; intros lo; cbn [sumZ]; rfu; [rewrite Rabs_R0; lra|].
  eapply Rle_trans; [apply Rabs_triang|]. specialize (IH (lo + 1)%Z). rfu. lra.
Qed.

Lemma sumR_sub lo len (g h : Z -> R) : sumR lo len g - sumR lo len h = sumR lo len (fun i => g i - h i).
Proof.
  revert lo; induction len as [|k IH]; intros lo; cbn [sumZ]; rfu; [ring|].
  specialize (IH (lo + 1)%Z). rfu. rewrite <- IH. ring.
Qed.

Lemma sumR_plus lo len (g h : Z -> R) : sumR lo len (fun i => g i + h i) = sumR lo len g + sumR lo len h.
Proof. exact (sumZ_add RF lo len g h). Qed.

Lemma sumR_const lo len c : sumR lo len (fun _ => c) = INR len * c.
Proof.
  revert lo; induction len as [|k IH]; intros lo.
  - cbn. rfu. ring.
  - cbn [sumZ]. rewrite S_INR. specialize (IH (lo + 1)%Z). rfu. rewrite IH. ring.
Qed.

Lemma sumR_nonneg lo len (g : Z -> R) :
  (forall i, (lo <= i < lo + Z.of_nat len)%Z -> 0 <= g i) -> 0 <= sumR lo len g.
Proof.
  intros H. pose proof (sumR_le lo len (fun _ => 0) g H) as L. rewrite sumR_const in L. lra.
Qed.

(** rows (or columns) add up: per-row bounds give the bound for the whole bunch-major array *)
Lemma rows_add_up lo len (g h b : Z -> R) :
  (forall i, (lo <= i < lo + Z.of_nat len)%Z -> Rabs (g i - h i) <= b i) ->
  Rabs (sumR lo len g - sumR lo len h) <= sumR lo len b.
Proof.
  intros H. rewrite sumR_sub. eapply Rle_trans; [apply sumR_abs|]. apply sumR_le. exact H.
Qed.

(** a sum over the in-range stencil points as a sum over all of them *)
Lemma Rsum_filter_zrange (P : Z -> bool) (g : Z -> R) it :
  Rsum (map g (filter P (zrange it))) = sumR 0 (Z.to_nat it) (fun j => if P j then g j else 0).
Proof.
  rewrite (sumZ_fsum_map RF). unfold zrange.
  f2r. change (fun k : nat => (0 + Z.of_nat k)%Z) with Z.of_nat.
  generalize (map Z.of_nat (seq 0 (Z.to_nat it))). intros l.
  induction l as [|x l IH]; cbn [filter map Rsum]; [reflexivity|].
  destruct (P x); cbn [map Rsum]; rewrite IH; rfu; ring.
Qed.

(** ** the row operator over the reals *)
Definition ysrc (n idx y : Z) : Z := wrap32 (y + idx - n / 2).
Definition Jof (n it : Z) (idx : Z -> Z) (y : Z) : list Z :=
  filter (fun j => ysrc n (idx j) y <? n)%Z (zrange it).

Definition row_exact (n it : Z) (idx : Z -> Z) (w : Z -> R) (r : Z -> R) (y : Z) : R :=
  Rsum (map (fun j => r (ysrc n (idx j) y) * w j) (Jof n it idx y)).

Definition row_computed (n it : Z) (idx : Z -> Z) (wh : Z -> R) (r : Z -> R) (out : Z -> R) : Prop :=
  forall y, (0 <= y < n)%Z ->
    psum_opt (map (fun j => r (ysrc n (idx j) y) * wh j) (Jof n it idx y)) (out y).

(** the plain C++ loop (left to right from 0, round-to-nearest at every step; or every step fused)
    is a [row_computed] *)
Definition row_loop (fused : bool) (n it : Z) (idx : Z -> Z) (wh r : Z -> R) (y : Z) : R :=
  (if fused then acc_fma else acc_rn) (map (fun j => (r (ysrc n (idx j) y), wh j)) (Jof n it idx y)) 0.

Lemma row_loop_computed fused n it idx wh r : row_computed n it idx wh r (row_loop fused n it idx wh r).
Proof.
  intros y Hy. unfold row_loop.
  replace (map (fun j => r (ysrc n (idx j) y) * wh j) (Jof n it idx y))
    with (map (fun ab => fst ab * snd ab) (map (fun j => (r (ysrc n (idx j) y), wh j)) (Jof n it idx y)))
    by (rewrite map_map; reflexivity).
  destruct fused; [apply loop_fma_psum | apply loop_rn_psum].
Qed.

Lemma filter_len_le {A} (P : A -> bool) l : (length (filter P l) <= length l)%nat.
Proof. induction l as [|x l IH]; cbn [filter length]; [lia|]. destruct (P x); cbn [length]; lia. Qed.

Lemma Jof_length n it idx y : (0 <= it)%Z -> (length (Jof n it idx y) <= Z.to_nat it)%nat.
Proof.
  intros H. unfold Jof. eapply Nat.le_trans; [apply filter_len_le|].
  unfold zrange. rewrite map_length, seq_length. lia.
Qed.

Section RowR.
  Variables (n it : Z) (idx : Z -> Z) (r : Z -> R).
  Hypothesis Hn : (0 < n < 2 ^ 30)%Z.
  Hypothesis Hit : (0 <= it)%Z.
  Hypothesis Hidx : forall j, (0 <= j < it)%Z -> (0 <= idx j < n)%Z.

  Lemma row_terms (g : Z -> R) (c : Z -> R) y :
    (0 <= y < n)%Z ->
    Rsum (map (fun j => g (ysrc n (idx j) y) * c j) (Jof n it idx y)) =
    sumR 0 (Z.to_nat it) (fun j => term (K:=RF) n g (c j) (idx j - n / 2) y).
  Proof.
    intros Hy. unfold Jof. rewrite Rsum_filter_zrange. apply (sumZ_ext RF). intros j Hj.
    assert (Hj' : (0 <= j < it)%Z) by lia. specialize (Hidx j Hj').
    assert (Hh : (0 <= n / 2 <= n)%Z) by (split; [apply Z.div_pos; lia | apply Z.div_le_upper_bound; lia]).
    unfold term, ysrc. change (2 ^ 30)%Z with 1073741824%Z in Hn.
    rewrite in_grid_spec by (change (2 ^ 31)%Z with 2147483648%Z; lia).
    replace (y + (idx j - n / 2))%Z with (y + idx j - n / 2)%Z by lia.
    set (z := (y + idx j - n / 2)%Z).
    destruct (Z.leb_spec 0 z) as [P|N]; destruct (Z.ltb_spec z n) as [L|G]; cbn [andb]; try reflexivity.
    rewrite wrap32_small by (change (2 ^ 32)%Z with 4294967296%Z; lia). rfu. ring.
  Qed.

  Variables (a b : Z).
  Hypothesis Hsupp : supp (K:=RF) r a b.
  Hypothesis Hab : (0 <= a /\ a <= b /\ b <= n)%Z.
  Hypothesis Hshift : forall j, (0 <= j < it)%Z ->
      (0 <= a - (idx j - n / 2) /\ b - (idx j - n / 2) <= n)%Z.

  Lemma row_sum_terms (g : Z -> R) (c : Z -> R) :
    supp (K:=RF) g a b ->
    sumR 0 (Z.to_nat n) (fun y => Rsum (map (fun j => g (ysrc n (idx j) y) * c j) (Jof n it idx y))) =
    sumR 0 (Z.to_nat it) c * sumR 0 (Z.to_nat n) g.
  Proof.
    intros Hg.
    rewrite (sumZ_ext RF _ _ _ (fun y => sumR 0 (Z.to_nat it) (fun j => term (K:=RF) n g (c j) (idx j - n / 2) y)))
      by (intros y Hy; apply row_terms; lia).
    rewrite (sumZ_swap RF).
    rewrite (sumZ_ext RF _ _ _ (fun j => @fmul RF (sumR 0 (Z.to_nat n) g) (c j))).
    2:{ intros j Hj. assert (Hj' : (0 <= j < it)%Z) by lia. destruct (Hshift j Hj') as [S1 S2].
        etransitivity; [apply (term_sum RF n g (c j) (idx j - n / 2) a b); try lia; assumption|]. rfu. ring. }
    rewrite (sumZ_scale RF). rfu. ring.
  Qed.

  (** exact arithmetic, exact weights: the kick conserves the row sum (as [KickP.row_conserves]) *)
  Theorem rowR_conserves (w : Z -> R) :
    sumR 0 (Z.to_nat it) w = 1 ->
    sumR 0 (Z.to_nat n) (row_exact n it idx w r) = sumR 0 (Z.to_nat n) r.
  Proof.
    intros Hw. unfold row_exact. rewrite (row_sum_terms r w Hsupp), Hw. rfu. ring.
  Qed.

  (** binary32: stored weights [wh], accumulation of at most [k] products per cell *)
  Theorem rowR_rounding (w wh out : Z -> R) (k : nat) :
    sumR 0 (Z.to_nat it) w = 1 -> (Z.to_nat it <= k)%nat -> (1 <= k)%nat ->
    row_computed n it idx wh r out ->
    Rabs (sumR 0 (Z.to_nat n) out - sumR 0 (Z.to_nat n) r) <=
    sumR 0 (Z.to_nat it) (fun j => cw k (w j) (wh j)) * sumR 0 (Z.to_nat n) (fun i => Rabs (r i))
    + INR (Z.to_nat n) * A32 k.
  Proof.
    intros Hw Hk Hk1 Hc.
    rewrite <- (rowR_conserves w Hw), sumR_sub.
    eapply Rle_trans; [apply sumR_abs|].
    assert (Hs' : supp (K:=RF) (fun i => Rabs (r i)) a b).
    { intros i Hi. rewrite (Hsupp i Hi). change (@f0 RF) with 0. apply Rabs_R0. }
    rewrite <- (row_sum_terms (fun i => Rabs (r i)) (fun j => cw k (w j) (wh j)) Hs').
    rewrite <- sumR_const with (lo := 0%Z), <- sumR_plus.
    apply sumR_le. intros y Hy.
    assert (Hy' : (0 <= y < n)%Z) by lia.
    pose proof (cell_bound (Jof n it idx y) (fun j => r (ysrc n (idx j) y)) w wh (out y) k
                  ltac:(eapply Nat.le_trans; [apply Jof_length; exact Hit | exact Hk]) Hk1 (Hc y Hy')) as B.
    exact B.
  Qed.
End RowR.

(** ** the row written by updateSM *)
Definition qr (q : Qc) : R := Q2R (this q).

Definition nthR (l : list R) (j : Z) : R := nth (Z.to_nat j) l 0.

Definition row_okR (n it : Z) (o : Qc) (r : Z -> R) : Prop :=
  let jd := sp_int (poffs_split n o) in
  (0 <= jd - centre it /\ jd + (it - 1) - centre it < n /\
  exists a b, supp (K:=RF) r a b /\ 0 <= a /\ a <= b /\ b <= n /\
              0 <= a - (jd + (it - 1) - centre it - n / 2) /\ b - (jd - centre it - n / 2) <= n)%Z.

(** the fractional part of a non-negative rational lies in [0,1) *)
Lemma Qcfrac_range (p : Qc) : (0 <= p)%Qc -> 0 <= qr (Qcfrac p) < 1.
Proof.
  intros Hp. unfold qr, Qcfrac, Qctrunc.
  destruct p as [[nu de] Hc]. unfold Qcle in Hp. cbn [this] in *.
  assert (Hnu : (0 <= nu)%Z).
  { unfold Qle in Hp. cbn in Hp. lia. }
  cbn [Qnum Qden].
  assert (E : Q2R (this ({| this := nu # de; canon := Hc |} - Q2Qc (inject_Z (nu ÷ Z.pos de)))%Qc) =
              IZR nu / IZR (Z.pos de) - IZR (nu ÷ Z.pos de)).
  { unfold Qcminus, Qcplus, Qcopp. cbn [this Q2Qc].
    rewrite (Qeq_eqR _ _ (Qred_correct _)), Q2R_plus, (Qeq_eqR _ _ (Qred_correct _)), Q2R_opp,
      (Qeq_eqR _ _ (Qred_correct _)).
    unfold Q2R at 1. cbn [Qnum Qden]. unfold inject_Z, Q2R. cbn [Qnum Qden]. field.
    apply not_0_IZR. discriminate. }
  rewrite E. clear E.
  assert (D : 0 < IZR (Z.pos de)) by (apply IZR_lt; reflexivity).
  rewrite Z.quot_div_nonneg by lia.
  pose proof (Z.div_mod nu (Z.pos de) ltac:(discriminate)) as DM.
  pose proof (Z.mod_pos_bound nu (Z.pos de) ltac:(reflexivity)) as [M1 M2].
  assert (ER : IZR nu = IZR (Z.pos de) * IZR (nu / Z.pos de) + IZR (nu mod Z.pos de)).
  { rewrite <- mult_IZR, <- plus_IZR. f_equal. exact DM. }
  apply IZR_le in M1. apply IZR_lt in M2.
  replace (IZR nu / IZR (Z.pos de) - IZR (nu / Z.pos de)) with (IZR (nu mod Z.pos de) / IZR (Z.pos de))
    by (rewrite ER; field; lra).
  split.
  - apply Rmult_le_pos; [exact M1 | left; apply Rinv_0_lt_compat; exact D].
  - apply Rmult_lt_reg_r with (IZR (Z.pos de)); [exact D|].
    replace (IZR (nu mod Z.pos de) / IZR (Z.pos de) * IZR (Z.pos de)) with (IZR (nu mod Z.pos de)) by (field; lra).
    lra.
Qed.

Lemma sumR_nthR (l : list R) it : Z.of_nat (length l) = it -> sumR 0 (Z.to_nat it) (nthR l) = Rsum l.
Proof.
  intros <-. rewrite Nat2Z.id. rewrite (sumZ_fsum_map RF). f2r. rewrite map_map. f_equal.
  unfold nthR. rewrite (map_ext _ (fun k => nth k l 0)) by (intros k; rewrite Z.add_0_l, Nat2Z.id; reflexivity).
  clear. induction l as [|x l IH]; [reflexivity|].
  cbn [length seq map nth]. f_equal. rewrite <- seq_shift, map_map. exact IH.
Qed.

Lemma Forall2_len {A B} (P : A -> B -> Prop) l1 l2 : Forall2 P l1 l2 -> length l1 = length l2.
Proof. induction 1; cbn [length]; congruence. Qed.

Lemma Rsum_map_nonneg {A} (g : A -> R) l : (forall x, 0 <= g x) -> 0 <= Rsum (map g l).
Proof. intros H. induction l as [|x l IH]; cbn [map Rsum]; [lra|]. pose proof (H x). lra. Qed.

(** the constants: Crow it * 2^-24 bounds  Sum_j cw_it(w_j, wh_j)  *)
Definition CrowQ (it : Z) : Q :=
  if (it =? 1)%Z then 1001 # 1000 else if (it =? 2)%Z then 32 # 10 else if (it =? 3)%Z then 82 # 10 else 126 # 10.
Definition Crow (it : Z) : R := Q2R (CrowQ it).

Lemma Rsum_combine_cw (k : nat) (ws whs : list R) :
  length ws = length whs ->
  Rsum (map (fun p => cw k (snd p) (fst p)) (combine whs ws)) =
  Rsum (map (fun vw => Rabs (fst vw - snd vw)) (combine whs ws)) * (1 + g32 k) + g32 k * Rsum (map Rabs ws).
Proof.
  revert whs. induction ws as [|w ws IH]; intros [|wh whs] H; cbn [combine map Rsum length] in *; try ring; try discriminate.
  injection H as H. rewrite (IH whs H). cbn [fst snd]. unfold cw. ring.
Qed.

Lemma sumR_cw_lists (k : nat) (ws whs : list R) it :
  Z.of_nat (length ws) = it -> length ws = length whs ->
  sumR 0 (Z.to_nat it) (fun j => cw k (nthR ws j) (nthR whs j)) =
  Rsum (map (fun p => cw k (snd p) (fst p)) (combine whs ws)).
Proof.
  intros <- HL. rewrite Nat2Z.id. rewrite (sumZ_fsum_map RF). f2r. rewrite map_map.
  unfold nthR. rewrite (map_ext _ (fun i => cw k (nth i ws 0) (nth i whs 0)))
    by (intros i; rewrite Z.add_0_l, Nat2Z.id; reflexivity).
  revert whs HL. induction ws as [|w ws IH]; intros [|wh whs] HL; cbn [length] in HL; try discriminate; [reflexivity|].
  injection HL as HL. cbn [length seq map combine Rsum fst snd nth]. f_equal.
  rewrite <- seq_shift, map_map. apply IH. exact HL.
Qed.

Lemma crow_arith X Y g u B L c C :
  0 <= X <= B * u -> 0 <= Y <= L -> 0 <= g <= c * u -> 0 <= u -> 0 <= B -> 0 <= L -> 0 <= c ->
  B * (1 + c * u) + c * L <= C -> X * (1 + g) + g * Y <= C * u.
Proof.
  intros HX HY Hg Hu HB HL Hc HC.
  assert (A1 : X * (1 + g) <= B * u * (1 + c * u)) by (apply Rmult_le_compat; lra).
  assert (A2 : g * Y <= c * u * L) by (apply Rmult_le_compat; lra).
  assert (A3 : (B * (1 + c * u) + c * L) * u <= C * u) by (apply Rmult_le_compat_r; lra).
  nra.
Qed.

Theorem sm_row_rounding n it o (r out : Z -> R) (whs : list R) :
  valid_it it -> (0 < n < 2 ^ 30)%Z -> row_okR n it o r ->
  (0 <= rnd32 (Qcz (n / 2) + o))%Qc ->
  let f := qr (sp_frac (poffs_split n o)) in
  computed_weights it f whs ->
  row_computed n it (fun j => fst (sm_entry n it o j)) (nthR whs) r out ->
  Rabs (sumR 0 (Z.to_nat n) out - sumR 0 (Z.to_nat n) r) <=
  Crow it * u32 * sumR 0 (Z.to_nat n) (fun i => Rabs (r i)) + INR (Z.to_nat n) * A32 (Z.to_nat it).
Proof.
  intros Hv Hn (Hlo & Hhi & a & b & Hs & Ha & Hab & Hb & S1 & S2) Hp f Hw Hc.
  destruct (valid_it_range it Hv) as [Hi Hcen].
  assert (Hf : 0 <= f <= 1).
  { pose proof (Qcfrac_range _ Hp) as F. unfold f, poffs_split. cbn [sp_frac]. lra. }
  set (ws := coeffs (K:=RF) it f).
  assert (Lw : Z.of_nat (length ws) = it) by (apply (coeffs_length RF); exact Hv).
  assert (Lwh : length ws = length whs).
  { unfold ws. rewrite <- (trees_exact it f Hv), map_length. eapply Forall2_len. exact Hw. }
  assert (Sw : sumR 0 (Z.to_nat it) (nthR ws) = 1).
  { rewrite (sumR_nthR ws it Lw). exact (coeffs_unity RF it f Hv). }
  assert (K1 : (1 <= Z.to_nat it)%nat) by lia.
  pose proof (rowR_rounding n it (fun j => fst (sm_entry n it o j)) r Hn ltac:(lia)
                ltac:(intros j Hj; cbv beta; rewrite sm_entry_inrange by (assumption || lia); cbn [fst]; lia)
                a b Hs ltac:(lia)
                ltac:(intros j Hj; cbv beta; rewrite sm_entry_inrange by (assumption || lia); cbn [fst]; lia)
                (nthR ws) (nthR whs) out (Z.to_nat it) Sw (Nat.le_refl _) K1 Hc) as B.
  eapply Rle_trans; [exact B|]. apply Rplus_le_compat_r.
  apply Rmult_le_compat_r.
  { apply sumR_nonneg. intros; apply Rabs_pos. }
  rewrite (sumR_cw_lists _ ws whs it Lw Lwh), (Rsum_combine_cw _ ws whs Lwh).
  pose proof (weights_abs_error_sum it f whs Hv Hf Hw) as E1. fold ws in E1.
  pose proof (weights_abs_sum it f Hv Hf) as E2. fold ws in E2.
  assert (E0 : 0 <= Rsum (map (fun vw => Rabs (fst vw - snd vw)) (combine whs ws))).
  { apply Rsum_map_nonneg. intros x. apply Rabs_pos. }
  assert (E3 : 0 <= Rsum (map Rabs ws)).
  { apply Rsum_map_nonneg. intros x. apply Rabs_pos. }
  set (X := Rsum (map (fun vw => Rabs (fst vw - snd vw)) (combine whs ws))) in *.
  set (Y := Rsum (map Rabs ws)) in *.
  pose proof u32_pos as Up. pose proof u32_val as Uv.
  destruct Hv as [H|[H|[H|H]]]; subst it; unfold Crow, CrowQ, Bsum, Lsum in *; cbn [Z.eqb Pos.eqb] in *;
    change (Z.to_nat 1) with 1%nat; change (Z.to_nat 2) with 2%nat;
    change (Z.to_nat 3) with 3%nat; change (Z.to_nat 4) with 4%nat.
  - pose proof pow1u32_1 as G. fold (g32 1) in G. pose proof (g32_nonneg 1).
    replace (Q2R 0) with 0 in E1 by (unfold Q2R; cbn; lra).
    replace (Q2R 1) with 1 in E2 by (unfold Q2R; cbn; lra).
    replace (Q2R (1001 # 1000)) with (1001 / 1000) by (unfold Q2R; cbn; lra).
    apply (crow_arith X Y (g32 1) u32 0 1 1); lra.
  - pose proof pow1u32_2 as G. fold (g32 2) in G. pose proof (g32_nonneg 2).
    replace (Q2R (9 # 8)) with (9 / 8) in E1 by (unfold Q2R; cbn; lra).
    replace (Q2R (33 # 32)) with (33 / 32) in E2 by (unfold Q2R; cbn; lra).
    replace (Q2R (32 # 10)) with (32 / 10) by (unfold Q2R; cbn; lra).
    apply (crow_arith X Y (g32 2) u32 (9 / 8) (33 / 32) (2000001 / 1000000)); lra.
  - pose proof pow1u32_3 as G. fold (g32 3) in G. pose proof (g32_nonneg 3).
    replace (Q2R (17 # 4)) with (17 / 4) in E1 by (unfold Q2R; cbn; lra).
    replace (Q2R (21 # 16)) with (21 / 16) in E2 by (unfold Q2R; cbn; lra).
    replace (Q2R (82 # 10)) with (82 / 10) by (unfold Q2R; cbn; lra).
    apply (crow_arith X Y (g32 3) u32 (17 / 4) (21 / 16) (3000001 / 1000000)); lra.
  - pose proof pow1u32_4 as G. fold (g32 4) in G. pose proof (g32_nonneg 4).
    replace (Q2R (29 # 4)) with (29 / 4) in E1 by (unfold Q2R; cbn; lra).
    replace (Q2R (21 # 16)) with (21 / 16) in E2 by (unfold Q2R; cbn; lra).
    replace (Q2R (126 # 10)) with (126 / 10) by (unfold Q2R; cbn; lra).
    apply (crow_arith X Y (g32 4) u32 (29 / 4) (21 / 16) (4000001 / 1000000)); lra.
Qed.
