(** * The stable range of the explicit 3-point Fokker-Planck step (what "per-step decrement within the explicit
    scheme's stable range" in C04's quantifier means): the grid's highest mode r(j) = (-1)^j c is an eigenvector of
    every interior row with eigenvalue 1 + d - 4 f / delta^2 (d = e1 with damping, f = e1 with diffusion).
    It is not amplified iff 4 f <= (2 + d) delta^2, i.e. e1 <= delta^2/2 up to O(e1 delta^2); beyond that rounding
    noise grows by |1 + e1 - 4 e1/delta^2| per step until the array overflows, although the moment laws (which hold
    in exact arithmetic) are unaffected. *)
From Coq Require Import List ZArith Lia Bool Ring Field Reals Lra.
From Inovesa Require Import Base.FieldKit Base.RInst Base.Sums Gen.Gen_FPStencil Model.FokkerPlanck Proofs.FPGridP
  Proofs.FokkerPlanckP.
Import ListNotations.
Local Open Scope Z_scope.

Section Nyq.
  Variable K : Fld.
  Add Field KFny : (@Fth K).
  Local Open Scope F_scope.
  Variables (e1 delta : K) (p : Z -> K) (v n le m : Z).

  Definition nyq_lambda : K :=
    1 + opt (has_damp v) e1 - (two * two) * opt (has_diff v) e1 / (delta * delta).

  Theorem fp3_nyquist_mode (r : Z -> K) (c : K) (y : Z) :
    (n < 2 ^ 32)%Z -> (1 <= y < n - 1)%Z -> delta <> 0 ->
    r (y - 1)%Z = - c -> r y = c -> r (y + 1)%Z = - c ->
    fp_col_out 3 (H3 K e1 delta p v n le m) r y = nyq_lambda * c.
  Proof.
    intros Hn Hy Hd R0 R1 R2.
    unfold fp_col_out. rewrite (fsum_zrange K). change (Z.to_nat 3) with 3%nat. rewrite (sum3 K).
    change (0 + 1)%Z with 1%Z. change (0 + 2)%Z with 2%Z. cbv zeta. unfold H3. rewrite !(hinfo_at K) by lia.
    change (Z.to_nat 0) with 0%nat. change (Z.to_nat 1) with 1%nat. change (Z.to_nat 2) with 2%nat.
    unfold fp_row, fp3_first, fp3_last_off. change (3 =? 3)%Z with true. cbv iota.
    replace (y =? n - 1)%Z with false by (symmetry; apply Z.eqb_neq; lia).
    replace ((1 <=? y)%Z && (y <? n - 1)%Z)%bool with true
      by (symmetry; apply andb_true_iff; split; [apply Z.leb_le | apply Z.ltb_lt]; lia).
    unfold row3. cbn [nth fst snd]. rewrite u32_small by lia. rewrite R0, R1, R2.
    unfold nyq_lambda, opt, e1_2d, e1_d2, two. destruct (has_damp v), (has_diff v); field; repeat split; (exact Hd || fld_nz1 K).
  Qed.
End Nyq.
Arguments nyq_lambda {_}.

Local Open Scope R_scope.
(** full type over the reals (cells not wider than two natural units): the highest mode is damped or kept iff
    4 e1 <= (2 + e1) delta^2 *)
Theorem nyquist_stable_range (e1 delta : R) (v : Z) :
  has_damp v = true -> has_diff v = true -> 0 < e1 -> delta <> 0 -> delta * delta <= 4 ->
  (4 * e1 <= (2 + e1) * (delta * delta) -> Rabs (nyq_lambda (K:=RF) e1 delta v) <= 1) /\
  ((2 + e1) * (delta * delta) < 4 * e1 -> 1 < Rabs (nyq_lambda (K:=RF) e1 delta v)).
Proof.
  intros Hv Hf He Hd H4. unfold nyq_lambda. rewrite Hv, Hf.
  cbv [fadd fmul fsub fopp fdiv finv f0 f1 car RF two opt].
  assert (P : 0 < delta * delta) by (destruct (Rtotal_order delta 0) as [A|[A|A]]; [nra|contradiction|nra]).
  set (dd := delta * delta) in *.
  assert (E : 1 + e1 - (1 + 1) * (1 + 1) * e1 / dd = ((1 + e1) * dd - 4 * e1) / dd) by (field; lra).
  rewrite E. clear E. split; intros H.
  - apply Rabs_le. split.
    + apply (Rmult_le_reg_r dd); [exact P|]. replace (((1 + e1) * dd - 4 * e1) / dd * dd) with ((1 + e1) * dd - 4 * e1) by (field; lra). lra.
    + apply (Rmult_le_reg_r dd); [exact P|]. replace (((1 + e1) * dd - 4 * e1) / dd * dd) with ((1 + e1) * dd - 4 * e1) by (field; lra). nra.
  - assert (N : ((1 + e1) * dd - 4 * e1) / dd < - 1).
    { apply (Rmult_lt_reg_r dd); [exact P|]. replace (((1 + e1) * dd - 4 * e1) / dd * dd) with ((1 + e1) * dd - 4 * e1) by (field; lra). lra. }
    rewrite Rabs_left by lra. lra.
Qed.
