(** Theorems about the GENERATED impedance definitions (Gen/Gen_Imp.v, regenerated from src/Z on
    every run): for every field, every interpretation of the leaves and every sample count, the
    generated constructors are the documented vectors (Model/ImpedanceSpec.v) with the loops of
    Model/Impedance.v and the generated operator+= is [add_into].  (The generated factory branches on
    order tests, which have a meaning only in an ordered field: Proofs/ImpedanceGenRP.v.) *)
From Coq Require Import List ZArith Lia Bool ZifyBool Ring Field.
From Inovesa Require Import Base.FieldKit Model.Impedance Model.ImpKit Model.ImpedanceSpec
  Proofs.ImpedanceP Gen.Gen_Imp.
Import ListNotations.
Local Open Scope Z_scope.
Ltac Zify.zify_post_hook ::= Z.div_mod_to_equations.

(** ** the kit: push_back loops, resize, in-place loops *)
Section KitP.
  Variable C : Type.
  Variable c0 : C.
  Notation nthz := (nthz c0).

  Lemma seg_from0 hi (f : Z -> C) : seg 0 hi f = map f (zrange hi).
  Proof. unfold seg. rewrite Z.sub_0_r. apply map_ext. intros k. reflexivity. Qed.

  Lemma seg_const lo hi (z : C) : seg lo hi (fun _ => z) = fill (hi - lo) z.
  Proof.
    unfold seg, fill, zrange. rewrite map_map. generalize (Z.to_nat (hi - lo)) as k. intros k.
    generalize 0%nat as s. induction k as [|k IH]; intros s; cbn [seq map repeat]; [reflexivity|].
    rewrite IH. reflexivity.
  Qed.

  (** two push_back loops with the bounds of FreeSpaceCSR / ResistiveWall are [push_loop] *)
  Lemma segs_push_loop n lo1 hi1 lo2 hi2 (F G f : Z -> C) :
    lo1 = 0 -> hi1 = n / 2 + 1 -> lo2 = n / 2 + 1 -> hi2 = n ->
    (forall i, 0 <= i <= n / 2 -> F i = f i) -> (forall i, G i = c0) ->
    ([] ++ seg lo1 hi1 F) ++ seg lo2 hi2 G = push_loop c0 n f.
  Proof.
    intros -> -> -> -> HF HG. rewrite app_nil_l. unfold push_loop. f_equal.
    - rewrite seg_from0. apply map_ext_in. intros i Hi. apply zrange_in in Hi. apply HF. lia.
    - rewrite <- seg_const. unfold seg. apply map_ext. intros k. apply HG.
  Qed.

  Lemma resize_nil k (z : C) : resize [] k z = fill k z.
  Proof.
    unfold resize, zlen. cbn [length]. destruct (Z.leb_spec k (Z.of_nat 0)) as [L|G].
    - rewrite firstn_nil. unfold fill. replace (Z.to_nat k) with 0%nat by lia. reflexivity.
    - cbn [app]. f_equal. lia.
  Qed.

  Lemma resize_grow (l : list C) k z : zlen l <= k -> resize l k z = l ++ fill (k - zlen l) z.
  Proof.
    intros H. unfold resize. destruct (Z.leb_spec k (zlen l)) as [L|G]; [|reflexivity].
    assert (E : k = zlen l) by lia. subst k. rewrite Z.sub_diag. unfold fill. cbn [Z.to_nat repeat].
    rewrite app_nil_r. unfold zlen. rewrite Nat2Z.id. apply firstn_all.
  Qed.

  (** the two resizes of ConstImpedance are [const_vec] *)
  Lemma resizes_const_vec n k1 k2 (z w : C) :
    0 <= n -> k1 = n / 2 -> k2 = n -> w = c0 ->
    resize (resize [] k1 z) k2 w = const_vec c0 n z.
  Proof.
    intros Hn -> -> ->. rewrite resize_nil. rewrite resize_grow.
    - unfold const_vec. rewrite (zlen_fill C (fun a _ => a)) by lia. reflexivity.
    - rewrite (zlen_fill C (fun a _ => a)) by lia. lia.
  Qed.

  Lemma zlen_setz (d : list C) i v : zlen (setz d i v) = zlen d.
  Proof. unfold setz. destruct ((0 <=? i) && (i <? zlen d))%bool; [|reflexivity]. unfold zlen. rewrite (upd_length C). reflexivity. Qed.

  Lemma nthz_setz (d : list C) i v j : 0 <= j ->
    nthz (setz d i v) j = if ((j =? i) && (i <? zlen d))%bool then v else nthz d j.
  Proof.
    intros Hj. unfold setz. destruct (Z.leb_spec 0 i) as [Hi|Hi]; cbn [andb].
    - destruct (Z.ltb_spec i (zlen d)) as [L|G].
      + unfold Impedance.nthz. rewrite (nth_upd C). rewrite andb_true_r.
        destruct (Z.eqb_spec j i) as [->|NE].
        * rewrite Nat.eqb_refl. cbn [andb]. replace (Z.to_nat i <? length d)%nat with true; [reflexivity|].
          symmetry. apply Nat.ltb_lt. unfold zlen in L. lia.
        * replace (Z.to_nat j =? Z.to_nat i)%nat with false; [reflexivity|]. symmetry. apply Nat.eqb_neq. lia.
      + rewrite andb_false_r. reflexivity.
    - replace (j =? i) with false by lia. reflexivity.
  Qed.

  (** a counting loop that rewrites cell [i] from its own content, over distinct indices *)
  Lemma fold_setz_nth (g : Z -> C -> C) idx : forall (d : list C) j,
    NoDup idx -> 0 <= j < zlen d ->
    nthz (fold_left (fun acc i => setz acc i (g i (nthz acc i))) idx d) j =
    if existsb (Z.eqb j) idx then g j (nthz d j) else nthz d j.
  Proof.
    induction idx as [|a r IH]; intros d j Hnd Hj; cbn [fold_left existsb]; [reflexivity|].
    inversion Hnd as [|? ? Hna Hnd']; subst.
    rewrite IH; [|exact Hnd'|rewrite zlen_setz; exact Hj].
    rewrite !nthz_setz by lia.
    destruct (Z.eqb_spec j a) as [->|NE]; cbn [orb andb].
    - replace (a <? zlen d) with true by lia.
      destruct (existsb (Z.eqb a) r) eqn:Ex; [|reflexivity].
      exfalso. apply existsb_exists in Ex. destruct Ex as (b & Hb & Eb). apply Z.eqb_eq in Eb. subst b. contradiction.
    - reflexivity.
  Qed.

  Lemma fold_setz_len (g : Z -> C -> C) idx : forall (d : list C),
    zlen (fold_left (fun acc i => setz acc i (g i (nthz acc i))) idx d) = zlen d.
  Proof. induction idx as [|a r IH]; intros d; cbn [fold_left]; [reflexivity|]. rewrite IH. apply zlen_setz. Qed.

  Lemma list_eq_nthz (l m : list C) :
    zlen l = zlen m -> (forall i, 0 <= i < zlen l -> nthz l i = nthz m i) -> l = m.
  Proof.
    intros Hl H. apply (nth_ext l m c0 c0); [unfold zlen in Hl; lia|].
    intros k Hk. specialize (H (Z.of_nat k)). unfold Impedance.nthz, zlen in H. rewrite Nat2Z.id in H. apply H. lia.
  Qed.

  Lemma shift_idx_nodup lo m : NoDup (map (fun k => lo + k) (zrange m)).
  Proof.
    unfold zrange. rewrite map_map. apply FinFun.Injective_map_NoDup; [|apply seq_NoDup].
    intros a b H. lia.
  Qed.

  Lemma shift_idx_mem lo hi j :
    existsb (Z.eqb j) (map (fun k => lo + k) (zrange (hi - lo))) = ((lo <=? j) && (j <? hi))%bool.
  Proof.
    apply eq_true_iff_eq. rewrite existsb_exists. split.
    - intros (a & Ha & E). apply Z.eqb_eq in E. subst a. apply in_map_iff in Ha.
      destruct Ha as (k & <- & Hk). apply zrange_in in Hk. lia.
    - intros H. exists j. split; [|apply Z.eqb_refl]. apply in_map_iff. exists (j - lo). split; [lia|].
      apply zrange_in. lia.
  Qed.

  (** the in-place loop as a map over the cells *)
  Lemma for_upd_pointwise lo hi (g : Z -> C -> C) (d : list C) :
    for_upd lo hi (fun i acc => setz acc i (g i (nthz acc i))) d =
    map (fun i => if ((lo <=? i) && (i <? hi))%bool then g i (nthz d i) else nthz d i) (zrange (zlen d)).
  Proof.
    unfold for_upd. apply list_eq_nthz.
    - rewrite fold_setz_len. rewrite (zlen_map_zrange C (fun a _ => a)); [reflexivity|unfold zlen; lia].
    - intros i Hi. rewrite fold_setz_len in Hi.
      rewrite fold_setz_nth by (try apply shift_idx_nodup; exact Hi).
      rewrite shift_idx_mem. rewrite (nthz_map_zrange C c0 (fun a _ => a)) by exact Hi. reflexivity.
  Qed.

  (** the other way of writing the same vector: n equal samples, then a counting loop that
      assigns cell i (the idiom of ParallelPlatesCSR) *)
  Lemma for_upd_assign lo hi (F : Z -> C) (d : list C) :
    for_upd lo hi (fun i acc => setz acc i (F i)) d =
    map (fun i => if ((lo <=? i) && (i <? hi))%bool then F i else nthz d i) (zrange (zlen d)).
  Proof. exact (for_upd_pointwise lo hi (fun i _ => F i) d). Qed.

  Lemma assign_push_loop n m lo hi (z : C) (F f : Z -> C) :
    1 <= n -> m = n -> z = c0 -> lo = 0 -> hi = n / 2 + 1 ->
    (forall i, 0 <= i <= n / 2 -> F i = f i) ->
    for_upd lo hi (fun i acc => setz acc i (F i)) (fill m z) = push_loop c0 n f.
  Proof.
    intros Hn -> -> -> -> HF. rewrite for_upd_assign. rewrite (zlen_fill C (fun a _ => a)) by lia.
    apply list_eq_nthz.
    - rewrite (zlen_map_zrange C (fun a _ => a)) by lia. rewrite (push_loop_len C c0 (fun a _ => a)) by lia. reflexivity.
    - intros i Hi. rewrite (zlen_map_zrange C (fun a _ => a)) in Hi by lia.
      rewrite (nthz_map_zrange C c0 (fun a _ => a)) by exact Hi.
      destruct (Z.leb_spec 0 i); destruct (Z.ltb_spec i (n / 2 + 1)); cbn [andb]; try lia.
      + rewrite (push_loop_lo C c0 (fun a _ => a)) by lia. apply HF. lia.
      + rewrite (push_loop_hi C c0 (fun a _ => a)) by lia. apply (nthz_fill C c0 (fun a _ => a)). lia.
  Qed.

  Lemma assign_pp_vec n m lo hi (z : C) (F g : Z -> C) :
    0 <= n -> m = n -> z = c0 -> lo = 1 -> hi = n / 2 + 1 ->
    (forall i, 1 <= i <= n / 2 -> F i = g i) ->
    for_upd lo hi (fun i acc => setz acc i (F i)) (fill m z) = pp_vec c0 n g.
  Proof.
    intros Hn -> -> -> -> HF. rewrite for_upd_assign. rewrite (zlen_fill C (fun a _ => a)) by lia.
    apply list_eq_nthz.
    - rewrite (zlen_map_zrange C (fun a _ => a)) by lia. rewrite (pp_vec_len C c0 (fun a _ => a)) by lia. reflexivity.
    - intros i Hi. rewrite (zlen_map_zrange C (fun a _ => a)) in Hi by lia.
      rewrite (nthz_map_zrange C c0 (fun a _ => a)) by exact Hi. rewrite (pp_vec_nth C c0 (fun a _ => a)) by exact Hi.
      destruct (Z.leb_spec 1 i); destruct (Z.ltb_spec i (n / 2 + 1)); destruct (Z.leb_spec i (n / 2));
        cbn [andb]; try lia; first [apply HF; lia | apply (nthz_fill C c0 (fun a _ => a)); lia].
  Qed.
End KitP.

(** ** the generated definitions, for every field and every interpretation of the leaves *)

(** leaf applications of the two sides are made syntactically equal (arguments compared by
    [field]), then abstracted; what remains is a field identity.  [nz] closes the non-zero
    side conditions. *)
Ltac unify_leaf1 lf nz :=
  repeat match goal with
  | |- ?lhs = ?rhs =>
      match lhs with context [lf ?a] =>
        match rhs with context [lf ?a'] =>
          tryif constr_eq a a' then fail else (replace a with a' by (first [reflexivity | field; nz]))
        end
      end
  end.
Ltac unify_leaf2 lf nz :=
  repeat match goal with
  | |- ?lhs = ?rhs =>
      match lhs with context [lf ?a ?b] =>
        match rhs with context [lf ?a' ?b'] =>
          tryif (constr_eq a a'; constr_eq b b') then fail
          else (replace a with a' by (first [reflexivity | field; nz]);
                replace b with b' by (first [reflexivity | field; nz]))
        end
      end
  end.
Ltac abstract_leaf1 lf := repeat match goal with |- context [lf ?a] => generalize (lf a); intro end.
Ltac abstract_leaf2 lf := repeat match goal with |- context [lf ?a ?b] => generalize (lf a b); intro end.

Section GenP.
  Variable K : Fld.
  Variable E : Leaves K.
  Add Field KFg : (@Fth K).
  Local Open Scope F_scope.
  Notation C := (cpx K).
  Notation c0 := (@cpx0 K).

  Ltac nz := repeat split; first [assumption | fld_nz1 K].

  Ltac sample_eq :=
    unfold cmulr, cmull; cbn [fst snd];
    unify_leaf2 (l_pw E) nz; unify_leaf1 (l_sq E) nz; unify_leaf1 (l_lg E) nz;
    abstract_leaf2 (l_pw E); abstract_leaf1 (l_sq E); abstract_leaf1 (l_lg E); intros;
    first [reflexivity | f_equal; first [reflexivity | field; nz]].

  (** the generated vector is [push_loop] with the generated sample function, whichever of the two
      idioms (push_back loops / assignment into n zeros) the source uses; leaves the sample equation *)
  Ltac push_loop_shape :=
    first [ apply segs_push_loop; try lia; [|reflexivity]
          | apply assign_push_loop; try lia; [reflexivity|] ].

  (** *** Impedance(nfreqs, f_max) *)
  Theorem gen_zeros n : Impedance_zeros K E n = zero_vec c0 n.
  Proof. reflexivity. Qed.

  (** *** Impedance::operator+= *)
  Theorem gen_add_assign (l r : list C) : add_assign K E l r = add_into c0 (l_cadd E) l r.
  Proof.
    unfold add_assign. cbv zeta.
    rewrite (for_upd_pointwise C c0 _ _ (fun i x => l_cadd E x (nthz c0 r i))).
    unfold add_into. apply map_ext_in. intros i Hi. apply zrange_in in Hi.
    match goal with |- (if ?b then _ else _) = (if ?b' then _ else _) => replace b with b' by lia end.
    reflexivity.
  Qed.

  (** the loop of operator+= stays inside both vectors *)
  Theorem gen_add_assign_in_bounds (l r : list C) :
    (0 <= fst (add_assign_range K E l r) /\ snd (add_assign_range K E l r) <= zlen l
     /\ snd (add_assign_range K E l r) <= zlen r)%Z.
  Proof. unfold add_assign_range. cbv zeta. cbn [fst snd]. lia. Qed.

  (** *** FreeSpaceCSR *)
  Theorem gen_fs_vec n f_rev f_max :
    (1 <= n)%Z -> f_rev <> 0 -> @fz K (n - 1) <> 0 ->
    FreeSpaceCSR_ctor K E n f_rev f_max = sp_fs_vec E n f_rev f_max.
  Proof.
    intros Hn1 Hf Hn. unfold FreeSpaceCSR_ctor, FreeSpaceCSR_calc, sp_fs_vec. cbv zeta.
    push_loop_shape.
    intros i Hi. unfold sp_fs_sample, sp_fs_Z0, sp_delta, three. sample_eq.
  Qed.

  (** *** ResistiveWall *)
  Theorem gen_rw_vec n f0 f_max L s xi b :
    (1 <= n)%Z -> f0 <> 0 -> @fz K (n - 1) <> 0 -> s <> 0 -> b <> 0 -> l_pi E <> 0 -> l_c E <> 0 ->
    ResistiveWall_ctor K E n f0 f_max L s xi b = sp_rw_vec E n f0 f_max L s xi b.
  Proof.
    intros Hn1 Hf Hn Hs Hb Hpi Hc. unfold ResistiveWall_ctor, ResistiveWall_calc, sp_rw_vec. cbv zeta.
    push_loop_shape.
    intros i Hi. unfold sp_rw_sample, sp_rw_Z1, sp_delta, two. cbv zeta.
    rewrite (fz_sub K n 1) in *. change (@fz K 1) with (@f1 K) in *. sample_eq.
  Qed.

  (** *** ConstImpedance, CollimatorImpedance *)
  Theorem gen_const_vec n f_max z : (0 <= n)%Z -> ConstImpedance_ctor K E n f_max z = const_vec c0 n z.
  Proof.
    intros Hn. unfold ConstImpedance_ctor, ConstImpedance_calc. cbv zeta.
    apply resizes_const_vec; try lia; reflexivity.
  Qed.

  Theorem gen_coll_vec n f_max outer inner :
    (0 <= n)%Z -> inner <> 0 -> l_pi E <> 0 ->
    CollimatorImpedance_ctor K E n f_max outer inner = sp_coll_vec E n outer inner.
  Proof.
    intros Hn Hi Hpi. unfold CollimatorImpedance_ctor, sp_coll_vec. rewrite gen_const_vec by exact Hn.
    f_equal; first [reflexivity | unfold sp_coll_Z; sample_eq].
  Qed.

  (** *** ParallelPlatesCSR: only the loop that stores the samples is translated (the value is the
      leaf [l_PPs]): samples 1..n/2 of a vector of n zeros *)
  Theorem gen_pp_vec n f0 f_max g : (0 <= n)%Z ->
    ParallelPlatesCSR_ctor K E n f0 f_max g = sp_pp_vec E n f0 f_max g.
  Proof.
    intros Hn. unfold ParallelPlatesCSR_ctor, ParallelPlatesCSR_calc, sp_pp_vec. cbv zeta.
    apply assign_pp_vec; first [lia | reflexivity | (intros i _; reflexivity)].
  Qed.

  (** *** shape of the generated vectors, for every sample count n >= 1 (odd, even, small) and
      whatever the sample expressions are: exactly n samples, zero above n/2 (constant model:
      from n/2 on) *)
  Notation zero_above := (zero_above C c0).

  Theorem gen_shape n f_rev f_max f0 L s xi b z outer inner : (1 <= n)%Z ->
    (zlen (FreeSpaceCSR_ctor K E n f_rev f_max) = n /\ zero_above (FreeSpaceCSR_ctor K E n f_rev f_max) (n / 2)) /\
    (zlen (ResistiveWall_ctor K E n f0 f_max L s xi b) = n /\ zero_above (ResistiveWall_ctor K E n f0 f_max L s xi b) (n / 2)) /\
    (zlen (ConstImpedance_ctor K E n f_max z) = n /\ zero_above (ConstImpedance_ctor K E n f_max z) (n / 2 - 1) /\
     forall i, (0 <= i < n / 2)%Z -> nthz c0 (ConstImpedance_ctor K E n f_max z) i = z) /\
    (zlen (CollimatorImpedance_ctor K E n f_max outer inner) = n /\
     zero_above (CollimatorImpedance_ctor K E n f_max outer inner) (n / 2 - 1)) /\
    (zlen (Impedance_zeros K E n) = n /\ zero_above (Impedance_zeros K E n) (-1)) /\
    (zlen (ParallelPlatesCSR_ctor K E n f0 f_max b) = n /\ nthz c0 (ParallelPlatesCSR_ctor K E n f0 f_max b) 0 = c0 /\
     zero_above (ParallelPlatesCSR_ctor K E n f0 f_max b) (n / 2)).
  Proof.
    intros Hn. rewrite gen_pp_vec by lia. unfold sp_pp_vec.
    assert (Ffs : exists f, FreeSpaceCSR_ctor K E n f_rev f_max = push_loop c0 n f).
    { eexists. unfold FreeSpaceCSR_ctor, FreeSpaceCSR_calc. cbv zeta.
      push_loop_shape. intros i _. reflexivity. }
    assert (Frw : exists f, ResistiveWall_ctor K E n f0 f_max L s xi b = push_loop c0 n f).
    { eexists. unfold ResistiveWall_ctor, ResistiveWall_calc. cbv zeta.
      push_loop_shape. intros i _. reflexivity. }
    assert (Fco : exists w, CollimatorImpedance_ctor K E n f_max outer inner = const_vec c0 n w).
    { eexists. unfold CollimatorImpedance_ctor. apply gen_const_vec. lia. }
    destruct Ffs as (ffs & ->). destruct Frw as (frw & ->). destruct Fco as (w & ->).
    rewrite gen_const_vec by lia. rewrite gen_zeros.
    destruct (impedance_shape_all C c0 n ffs frw z Hn) as ((A1 & _ & A3) & _ & (C1 & C2 & C3) & (D1 & D2)).
    destruct (impedance_shape_all C c0 n frw (l_PPs E n f0 f_max b) w Hn) as ((B1 & _ & B3) & (P1 & P2 & _ & P4) & (W1 & _ & W3) & _).
    repeat split; assumption.
  Qed.

  (** *** the root laws over the generic field (DESIGN 3): with [cbrt^3 = id] resp.
      [sqrt^2 = id] at the arguments used, the cube of each free-space component is
      prefactor^3 times the harmonic, the square of the wall's real part is
      [Z0 mu_r f0/(s pi c) (L/2b)^2] times the harmonic, and its imaginary part is minus the
      real part.  (The correspondence's validators test exactly these identities on the
      implementation's samples, Model/ImpGenInst.v.) *)
  Theorem sp_fs_cube n f_rev f_max i :
    let x := @fz K i * sp_delta n f_rev f_max in
    let v := l_pw E x (1 / three) in
    let z := sp_fs_sample E n f_rev f_max i in
    v * v * v = x ->
    fst z * fst z * fst z = fst (@sp_fs_Z0 K) * fst (@sp_fs_Z0 K) * fst (@sp_fs_Z0 K) * x /\
    snd z * snd z * snd z = snd (@sp_fs_Z0 K) * snd (@sp_fs_Z0 K) * snd (@sp_fs_Z0 K) * x.
  Proof.
    cbv zeta. intros H. unfold sp_fs_sample, cmulr. cbn [fst snd].
    set (v := l_pw E _ _) in *. rewrite <- H. split; ring.
  Qed.

  Theorem sp_rw_square n f0 f_max L s xi b i :
    let x := @fz K i * sp_delta n f0 f_max in
    let a := l_Z0 E * (1 + xi) * f0 / s / l_pi E / l_c E in
    let z := sp_rw_sample E n f0 f_max L s xi b i in
    l_sq E a * l_sq E a = a -> l_sq E x * l_sq E x = x ->
    fst z * fst z = sp_rw_k E f0 L s xi b * x /\ snd z = - fst z.
  Proof.
    cbv zeta. intros Ha Hx. unfold sp_rw_sample, sp_rw_Z1, sp_rw_k. cbv zeta. cbn [fst snd].
    split; [|reflexivity].
    set (sa := l_sq E (l_Z0 E * (1 + xi) * f0 / s / l_pi E / l_c E)) in *.
    set (sx := l_sq E (@fz K i * sp_delta n f0 f_max)) in *.
    rewrite <- Ha, <- Hx. clearbody sa sx. unfold two. rewrite !(Field_theory.Fdiv_def (@Fth K)). ring.
  Qed.

End GenP.
