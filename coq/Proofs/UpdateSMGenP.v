(** * The GENERATED body of KickMap::updateSM (Gen/Gen_UpdateSM.v) is the kick model of Model/Kick.v.

    Gen_UpdateSM.v holds, regenerated from src/SM/KickMap.cpp on every run, the pieces of one iteration of the loop
    over [_offset] as the source has them: the float sum [poffs] (size halved in unsigned arithmetic, converted,
    added in binary32), the std::modf split, the guard, the float -> unsigned conversion and the condition it is
    executed under, the unsigned source index before its wrap-around, the range test, the entry written in each
    branch, the table slot, and the loops.  Each piece is proved equal to what [sm_entry] / [updateSM] do by
    [lia] / [ring] / case analysis - one small obligation per piece, so a changed centre [(it-1)/2], bound, fallback
    index or weight, guard, halving or slot breaks exactly one lemma - and then

      [usm_entry_model]   the generated entry function is [sm_entry]     (it = 1..4, 0 < n < 2^24, every offset),
      [usm_update_spec]   the generated loops write [updateSM] on [0, size*it) and nothing else.

    The bound n < 2^24 is where the generated text is more faithful than the hand model: the C++ converts the halved
    size, the size and 0 to float before adding / comparing, and these conversions are exact below 2^24 only.
    The corollaries restate the table theorems of C01 / C02 / C17 about the generated entry function and table. *)
From Coq Require Import List ZArith QArith Qcanon Lia Bool Ring Field ZifyBool.
From Inovesa Require Import Base.FieldKit Base.Sums Base.Float32 Gen.Gen_Coeffs Model.Kick Model.UsmOps
  Gen.Gen_UpdateSM Proofs.WeightsP Proofs.KickP Proofs.KickGridP Proofs.UsmOpsP.
Import ListNotations.
Local Open Scope Z_scope.

Ltac Zify.zify_post_hook ::= Z.to_euclidean_division_equations.
Ltac pw := change (2 ^ 24) with 16777216 in *; change (2 ^ 30) with 1073741824 in *;
           change (2 ^ 31) with 2147483648 in *; change (2 ^ 32) with 4294967296 in *;
           change (2 ^ 64) with 18446744073709551616 in *.

(** ** the pieces *)

(** constructor: SourceMap receives the interpolation type for both [_ip] and [_it] *)
Lemma usm_ip_model it : usm_ip_of it = it.
Proof. unfold usm_ip_of. lia. Qed.
Lemma usm_it_model it : usm_it_of it = it.
Proof. unfold usm_it_of. lia. Qed.

(** the loop runs over all of [_offset]; iteration i reads entry i *)
Lemma usm_gen_bound_model size it : usm_gen_bound size it it = size.
Proof. unfold usm_gen_bound. lia. Qed.
Lemma usm_gen_offset_model i : usm_gen_offset_index i = i.
Proof. unfold usm_gen_offset_index. lia. Qed.

(** [poffs]: the size is halved by INTEGER division, then converted (exactly) and added in binary32 *)
Lemma usm_poffs_model n o : 0 < n < 2 ^ 24 -> usm_poffs n o = rnd32 (Qcz (n / 2) + o)%Qc.
Proof.
  intros Hn. unfold usm_poffs. rewrite ?i2f32_small by (pw; lia).
  unfold f32add. f_equal; ring.
Qed.

Lemma usm_split_model n o : 0 < n < 2 ^ 24 ->
  usm_qpint n o = Qcz (sp_int (poffs_split n o)) /\ usm_xip n o = sp_frac (poffs_split n o).
Proof.
  intros Hn. unfold usm_qpint, usm_xip. rewrite usm_poffs_model by exact Hn. split; reflexivity.
Qed.

(** the guard is the two-sided test on the integer part *)
Lemma usm_guard_model n z : 0 < n < 2 ^ 24 -> usm_guard n (Qcz z) = ((0 <=? z) && (z <? n))%bool.
Proof.
  intros Hn. unfold usm_guard. rewrite ?i2f32_small by (pw; lia).
  rewrite ?fle_Qcz, ?flt_Qcz, ?feq_Qcz. first [reflexivity | lia].
Qed.

(** the conversion [jd = qp_int] yields the integer part and is defined on 0 <= value < 2^32 *)
Lemma usm_jd_model n z : 0 <= z < 2 ^ 32 -> usm_jd n (Qcz z) = z /\ usm_jd_defined n (Qcz z) = true.
Proof.
  intros Hz. unfold usm_jd, usm_jd_defined. rewrite f2u_val_Qcz, f2u_ok_Qcz by (pw; lia). split; [reflexivity | pw; lia].
Qed.

(** ... and it is executed inside the guard only: never outside its defined domain, for every offset *)
Lemma usm_conv_ok_model n o : 0 < n < 2 ^ 24 -> usm_conv_ok n o = true.
Proof.
  intros Hn. unfold usm_conv_ok. cbv zeta. destruct (usm_split_model n o Hn) as [Eq _]. rewrite Eq.
  rewrite usm_guard_model by exact Hn.
  destruct ((0 <=? sp_int (poffs_split n o)) && (sp_int (poffs_split n o) <? n))%bool eqn:G; [|reflexivity].
  apply usm_jd_model. pw. lia.
Qed.

(** the scratch array holds the generated coefficients of order [it] at the fractional part *)
Lemma usm_smc_model it f j : usm_smc it f j = nthQ (coeffs (K:=QcF) it f) j.
Proof. reflexivity. Qed.

(** the source index before wrap-around: centre (it-1)/2 *)
Lemma usm_j0_model n it jd j1 : valid_it it -> usm_j0 n it jd j1 = jd + j1 - centre it.
Proof.
  intros Hv. destruct (valid_it_range it Hv) as [Hi Hc]. unfold usm_j0, centre in *. lia.
Qed.
Lemma usm_j0_bits_model : usm_j0_bits = 32 \/ usm_j0_bits = 64.
Proof. unfold usm_j0_bits. lia. Qed.

(** the range test: strictly below the size *)
Lemma usm_j0_test_model n it j0 j1 : usm_j0_test n it j0 j1 = (j0 <? n).
Proof. unfold usm_j0_test. first [reflexivity | lia]. Qed.

(** the entry written when the test holds: (j0, smc[j1]); otherwise and outside the guard: (n/2, 0) *)
Lemma usm_in_model smc n it j0 j1 : 0 <= j0 < n -> n < 2 ^ 24 ->
  usm_in_index n it j0 j1 = j0 /\ usm_in_weight smc n it j0 j1 = smc j1.
Proof.
  intros Hj Hn. unfold usm_in_index, usm_in_weight. rewrite ?wrapu_small by (pw; lia). split; reflexivity.
Qed.
Lemma usm_out_model smc n it j0 j1 : usm_out_index n it j0 j1 = n / 2 /\ usm_out_weight smc n it j0 j1 = 0%Qc.
Proof. unfold usm_out_index, usm_out_weight. split; [lia | reflexivity]. Qed.
Lemma usm_off_model n it j1 : usm_off_index n it j1 = n / 2 /\ usm_off_weight n it j1 = 0%Qc.
Proof. unfold usm_off_index, usm_off_weight. split; [lia | reflexivity]. Qed.

(** both stencil loops run over the [it] stencil points; entry j1 of row i goes to slot i*it + j1 *)
Lemma usm_counts_model it : usm_in_count it it = it /\ usm_off_count it it = it.
Proof. unfold usm_in_count, usm_off_count. lia. Qed.
Lemma usm_slots_model it i j1 : usm_in_slot it it i j1 = i * it + j1 /\ usm_off_slot it it i j1 = i * it + j1.
Proof. unfold usm_in_slot, usm_off_slot. split; ring. Qed.
Lemma usm_slot_bits_model : usm_slot_bits = 32 \/ usm_slot_bits = 64.
Proof. unfold usm_slot_bits. lia. Qed.

(** ** the entry function *)

(** an unsigned range test at width 32 or 64 on a value that fits a signed 32-bit integer *)
Lemma wrap_test bits z n :
  bits = 32 \/ bits = 64 -> 0 < n <= 2 ^ 31 -> - 2 ^ 31 <= z < 2 ^ 31 ->
  (wrapu bits z <? n) = ((0 <=? z) && (z <? n))%bool /\
  (((0 <=? z) && (z <? n))%bool = true -> wrapu bits z = z).
Proof.
  intros [-> | ->] Hn Hz; unfold wrapu; pw.
  - change (2 ^ 32) with 4294967296. split; lia.
  - change (2 ^ 64) with 18446744073709551616. split; lia.
Qed.

Theorem usm_entry_model n it o j1 :
  valid_it it -> 0 < n < 2 ^ 24 -> 0 <= j1 < it -> usm_entry n it o j1 = sm_entry n it o j1.
Proof.
  intros Hv Hn Hj. destruct (valid_it_range it Hv) as [Hi Hc].
  unfold usm_entry, sm_entry. cbv zeta.
  destruct (usm_split_model n o Hn) as [Eq Ex]. rewrite Eq, Ex.
  set (jd := sp_int (poffs_split n o)). set (f := sp_frac (poffs_split n o)).
  rewrite usm_guard_model by exact Hn.
  destruct ((0 <=? jd) && (jd <? n))%bool eqn:G.
  - assert (Hjd : 0 <= jd < n) by lia.
    destruct (usm_jd_model n jd ltac:(pw; lia)) as [Ej _]. rewrite Ej.
    rewrite usm_j0_model by exact Hv. rewrite usm_j0_test_model.
    set (z := jd + j1 - centre it).
    assert (Hz : - 2 ^ 31 <= z < 2 ^ 31) by (unfold z; pw; lia).
    assert (Hn' : 0 < n <= 2 ^ 31) by (pw; lia).
    destruct (wrap_test usm_j0_bits z n usm_j0_bits_model Hn' Hz) as [Et Ev].
    destruct (wrap_test 32 z n (or_introl eq_refl) Hn' Hz) as [Et' Ev'].
    change (wrap32 z) with (wrapu 32 z). rewrite Et, Et'.
    destruct ((0 <=? z) && (z <? n))%bool eqn:T.
    + rewrite Ev, Ev' by reflexivity.
      destruct (usm_in_model (usm_smc it f) n it z j1 ltac:(lia) ltac:(lia)) as [E1 E2]. rewrite E1, E2.
      reflexivity.
    + destruct (usm_out_model (usm_smc it f) n it (wrapu usm_j0_bits z) j1) as [E1 E2]. rewrite E1, E2. reflexivity.
  - destruct (usm_off_model n it j1) as [E1 E2]. rewrite E1, E2. reflexivity.
Qed.

(** the conversion statement in the vocabulary of Model/Kick.v: whenever the generated guard lets the conversion
    happen, the converted float lies in the domain on which the pinned tree's unguarded conversion was defined *)
Corollary usm_conversion_defined n o : 0 < n < 2 ^ 24 ->
  usm_conv_ok n o = true /\
  (usm_guard n (usm_qpint n o) = true -> sm_defined_pinned n o = true).
Proof.
  intros Hn. split; [apply usm_conv_ok_model; exact Hn|].
  destruct (usm_split_model n o Hn) as [Eq _]. rewrite Eq, usm_guard_model by exact Hn.
  unfold sm_defined_pinned. cbv zeta. pw. lia.
Qed.

(** ** one row of the kick through the generated entries *)

Lemma row_out_ext_in n it (E E' : Z -> Z * Qc) r y :
  (forall j, 0 <= j < it -> E j = E' j) -> row_out n it E r y = row_out n it E' r y.
Proof.
  intros H. unfold row_out. f_equal. apply map_ext_in. intros j Hj.
  unfold zrange in Hj. apply in_map_iff in Hj. destruct Hj as (k & <- & Hk). apply in_seq in Hk.
  rewrite H by lia. reflexivity.
Qed.

Lemma gen_row_out n it o r y :
  valid_it it -> 0 < n < 2 ^ 24 ->
  row_out n it (usm_entry n it o) r y = row_out n it (sm_entry n it o) r y.
Proof. intros Hv Hn. apply row_out_ext_in. intros j Hj. apply usm_entry_model; assumption. Qed.

(** C01: the row kick through the generated entries conserves charge *)
Theorem gen_row_conserves n it o r :
  valid_it it -> 0 < n < 2 ^ 24 -> row_ok n it o r ->
  sumQ 0 (Z.to_nat n) (row_out n it (usm_entry n it o) r) = sumQ 0 (Z.to_nat n) r.
Proof.
  intros Hv Hn Hr.
  rewrite (sumZ_ext QcF _ _ _ (row_out n it (sm_entry n it o) r)) by (intros; apply gen_row_out; assumption).
  apply sm_row_conserves; try assumption. pw. lia.
Qed.

(** C02: whole-cell shifts through the generated entries are exact *)
Theorem gen_whole_shift_exact n it m (r : Z -> Qc) y :
  valid_it it -> 0 < n <= 4096 -> 0 <= n / 2 + m < n -> 0 <= y < n ->
  row_out n it (usm_entry n it (Qcz m)) r y =
  if ((0 <=? y + m) && (y + m <? n))%bool then r (y + m) else 0%Qc.
Proof.
  intros Hv Hn Hm Hy. rewrite gen_row_out by (try assumption; pw; lia).
  apply whole_shift_exact; assumption.
Qed.

(** C17: every generated entry names a cell of the grid row *)
Theorem gen_entry_in_bounds n it o j1 :
  valid_it it -> 0 < n < 2 ^ 24 -> 0 <= j1 < it -> 0 <= fst (usm_entry n it o j1) < n.
Proof.
  intros Hv Hn Hj. rewrite usm_entry_model by assumption.
  unfold sm_entry. cbv zeta.
  destruct ((0 <=? sp_int (poffs_split n o)) && (sp_int (poffs_split n o) <? n))%bool; [|cbn [fst]; lia].
  match goal with |- context [wrap32 ?z <? n] => destruct (wrap32 z <? n) eqn:E; [assert (0 <= wrap32 z) by (unfold wrap32; pw; lia)|] end;
    cbn [fst]; lia.
Qed.

(** ** the loops *)

Lemma zrange_snoc_usm m : zrange (Z.of_nat (S m)) = zrange (Z.of_nat m) ++ [Z.of_nat m].
Proof. unfold zrange. rewrite !Nat2Z.id, seq_S, map_app. reflexivity. Qed.

Lemma usm_inner (slot : Z -> Z) (val : Z -> Z * Qc) (base : Z) (m : nat) (h : Z -> Z * Qc) k :
  (forall j, 0 <= j < Z.of_nat m -> slot j = base + j) ->
  fold_left (fun h' j1 => usm_upd h' (slot j1) (val j1)) (zrange (Z.of_nat m)) h k =
  if ((0 <=? k - base) && (k - base <? Z.of_nat m))%bool then val (k - base) else h k.
Proof.
  induction m as [|m IH]; intros Hs.
  - cbn. destruct ((0 <=? k - base) && (k - base <? 0))%bool eqn:E; [lia | reflexivity].
  - rewrite zrange_snoc_usm, fold_left_app. cbn [fold_left]. unfold usm_upd at 1.
    rewrite Hs by lia.
    destruct (Z.eqb_spec k (base + Z.of_nat m)) as [->|Ne].
    + replace (base + Z.of_nat m - base) with (Z.of_nat m) by lia.
      destruct ((0 <=? Z.of_nat m) && (Z.of_nat m <? Z.of_nat (S m)))%bool eqn:E; [reflexivity | lia].
    + rewrite IH by (intros j Hj; apply Hs; lia).
      destruct ((0 <=? k - base) && (k - base <? Z.of_nat m))%bool eqn:E;
        destruct ((0 <=? k - base) && (k - base <? Z.of_nat (S m)))%bool eqn:E'; try reflexivity; lia.
Qed.

Lemma usm_inner_Z (slot : Z -> Z) (val : Z -> Z * Qc) (base cnt : Z) (h : Z -> Z * Qc) k :
  0 <= cnt -> (forall j, 0 <= j < cnt -> slot j = base + j) ->
  fold_left (fun h' j1 => usm_upd h' (slot j1) (val j1)) (zrange cnt) h k =
  if ((0 <=? k - base) && (k - base <? cnt))%bool then val (k - base) else h k.
Proof.
  intros Hc Hs. pose proof (usm_inner slot val base (Z.to_nat cnt) h k) as P.
  rewrite Z2Nat.id in P by exact Hc. apply P. exact Hs.
Qed.

(** one iteration of the loop over the offsets writes the [it] entries of row i, and only them *)
Lemma usm_row_spec n it i o (h : Z -> Z * Qc) k :
  valid_it it -> 0 < n < 2 ^ 24 -> 0 <= i -> (i + 1) * it <= 2 ^ 32 ->
  usm_row n (usm_ip_of it) (usm_it_of it) i o h k =
  if ((0 <=? k - i * it) && (k - i * it <? it))%bool then sm_entry n it o (k - i * it) else h k.
Proof.
  intros Hv Hn Hi Hb. destruct (valid_it_range it Hv) as [Hit Hc].
  unfold usm_row. rewrite usm_ip_model, usm_it_model.
  destruct (usm_counts_model it) as [C1 C2]. rewrite C1, C2.
  assert (S : forall j, 0 <= j < it ->
              wrapu usm_slot_bits (usm_in_slot it it i j) = i * it + j /\
              wrapu usm_slot_bits (usm_off_slot it it i j) = i * it + j).
  { intros j Hj. destruct (usm_slots_model it i j) as [S1 S2]. rewrite S1, S2.
    assert (0 <= i * it + j < 2 ^ 32) by (pw; nia).
    destruct usm_slot_bits_model as [-> | ->]; (split; apply wrapu_small; pw; lia). }
  assert (R : forall body, (forall j, 0 <= j < it -> body j = i * it + j) ->
     fold_left (fun h' j1 => usm_upd h' (body j1) (usm_entry n it o j1)) (zrange it) h k =
     if ((0 <=? k - i * it) && (k - i * it <? it))%bool then sm_entry n it o (k - i * it) else h k).
  { intros body Hbody. rewrite (usm_inner_Z body (usm_entry n it o) (i * it)) by (lia || exact Hbody).
    destruct ((0 <=? k - i * it) && (k - i * it <? it))%bool eqn:E; [|reflexivity].
    apply usm_entry_model; try assumption. lia. }
  destruct (usm_guard n (usm_qpint n o)).
  - apply (R (fun j1 => wrapu usm_slot_bits (usm_in_slot it it i j1))). intros j Hj. apply S. exact Hj.
  - apply (R (fun j1 => wrapu usm_slot_bits (usm_off_slot it it i j1))). intros j Hj. apply S. exact Hj.
Qed.

Lemma usm_outer n it offs (m : nat) (H : Z -> Z * Qc) k :
  valid_it it -> 0 < n < 2 ^ 24 -> Z.of_nat m * it <= 2 ^ 32 ->
  fold_left (fun h' i => usm_row n (usm_ip_of it) (usm_it_of it) i (offs (usm_gen_offset_index i)) h')
            (zrange (Z.of_nat m)) H k =
  if ((0 <=? k) && (k <? Z.of_nat m * it))%bool then updateSM n it offs k else H k.
Proof.
  intros Hv Hn. destruct (valid_it_range it Hv) as [Hit Hc]. induction m as [|m IH]; intros Hb.
  - cbn. destruct ((0 <=? k) && (k <? 0))%bool eqn:E; [lia | reflexivity].
  - rewrite zrange_snoc_usm, fold_left_app. cbn [fold_left].
    rewrite usm_row_spec by (try assumption; lia). rewrite usm_gen_offset_model.
    rewrite IH by lia.
    destruct ((0 <=? k - Z.of_nat m * it) && (k - Z.of_nat m * it <? it))%bool eqn:E.
    + assert (Hk : 0 <= k - Z.of_nat m * it < it) by lia.
      destruct ((0 <=? k) && (k <? Z.of_nat (S m) * it))%bool eqn:E'; [|lia].
      unfold updateSM. replace k with (Z.of_nat m * it + (k - Z.of_nat m * it)) at 2 3 by ring.
      rewrite div_lin, mod_lin by lia. reflexivity.
    + destruct ((0 <=? k) && (k <? Z.of_nat m * it))%bool eqn:E1;
        destruct ((0 <=? k) && (k <? Z.of_nat (S m) * it))%bool eqn:E2; try reflexivity; lia.
Qed.

(** the generated loops on an offset vector of [size] entries: [updateSM] on [0, size*it), the rest untouched *)
Theorem usm_update_spec n it size offs (H : Z -> Z * Qc) k :
  valid_it it -> 0 < n < 2 ^ 24 -> 0 <= size -> size * it <= 2 ^ 32 ->
  usm_update n (usm_ip_of it) (usm_it_of it) size offs H k =
  if ((0 <=? k) && (k <? size * it))%bool then updateSM n it offs k else H k.
Proof.
  intros Hv Hn Hs Hb. unfold usm_update.
  replace (usm_gen_bound size (usm_ip_of it) (usm_it_of it)) with (Z.of_nat (Z.to_nat size))
    by (rewrite usm_ip_model, usm_it_model, usm_gen_bound_model, Z2Nat.id by exact Hs; reflexivity).
  rewrite usm_outer by (try assumption; rewrite Z2Nat.id by exact Hs; exact Hb).
  rewrite Z2Nat.id by exact Hs. reflexivity.
Qed.

(** the table [_hinfo] after the generated updateSM ran on an offset vector of [size] entries (the constructor
    leaves the table unspecified: here all (0,0)) *)
Definition usm_gen_table (n it size : Z) (offs : Z -> Qc) : Z -> Z * Qc :=
  usm_update n (usm_ip_of it) (usm_it_of it) size offs (fun _ => (0, 0%Qc)).

Theorem usm_gen_table_spec n it size offs k :
  valid_it it -> 0 < n < 2 ^ 24 -> 0 <= size -> size * it <= 2 ^ 32 -> 0 <= k < size * it ->
  usm_gen_table n it size offs k = updateSM n it offs k.
Proof.
  intros Hv Hn Hs Hb Hk. unfold usm_gen_table. rewrite usm_update_spec by assumption.
  destruct ((0 <=? k) && (k <? size * it))%bool eqn:E; [reflexivity | lia].
Qed.

(** C17: the generated loops write inside the [size*it] entries of the table only, and every entry written names a
    cell of the grid row *)
Theorem usm_gen_table_in_bounds n it size offs (H : Z -> Z * Qc) k :
  valid_it it -> 0 < n < 2 ^ 24 -> 0 <= size -> size * it <= 2 ^ 32 ->
  (k < 0 \/ size * it <= k -> usm_update n (usm_ip_of it) (usm_it_of it) size offs H k = H k) /\
  (0 <= k < size * it -> 0 <= fst (usm_update n (usm_ip_of it) (usm_it_of it) size offs H k) < n).
Proof.
  intros Hv Hn Hs Hb. rewrite usm_update_spec by assumption. destruct (valid_it_range it Hv) as [Hit Hc]. split; intros Hk.
  - destruct ((0 <=? k) && (k <? size * it))%bool eqn:E; [lia | reflexivity].
  - destruct ((0 <=? k) && (k <? size * it))%bool eqn:E; [|lia].
    unfold updateSM. rewrite <- usm_entry_model; try assumption.
    + apply gen_entry_in_bounds; try assumption. apply Z.mod_pos_bound. lia.
    + apply Z.mod_pos_bound. lia.
Qed.

(** ** the whole grid through the generated table (C01) *)

Lemma cell_bounds n nb i : 0 < n -> 0 < nb -> 0 <= i < nb * n * n ->
  0 <= cell_b n i < nb /\ 0 <= cell_x n i < n /\ 0 <= cell_y n i < n.
Proof.
  intros Hn Hnb Hi. unfold cell_b, cell_x, cell_y. repeat split.
  - apply Z.div_pos; nia.
  - apply Z.div_lt_upper_bound; nia.
  - apply Z.mod_pos_bound; lia.
  - apply Z.mod_pos_bound; lia.
  - apply Z.mod_pos_bound; lia.
  - apply Z.mod_pos_bound; lia.
Qed.

Lemma apply_y_ext n nb it (H H' : Z -> Z * Qc) D i :
  0 < it -> 0 < n -> 0 < nb -> 0 <= i < nb * n * n ->
  (forall k, 0 <= k < nb * n * it -> H k = H' k) -> apply_y n nb it H D i = apply_y n nb it H' D i.
Proof.
  intros Hit Hn Hnb Hi HH. destruct (cell_bounds n nb i Hn Hnb Hi) as (Hb & Hx & Hy).
  unfold apply_y, apply_y_cell. apply row_out_ext_in. intros j Hj. apply HH. unfold hidx_y.
  generalize dependent (cell_b n i). generalize dependent (cell_x n i). intros x Hx b Hb.
  replace (Z.min b (nb - 1)) with b by lia.
  assert (b * n + x <= nb * n - 1) by nia. nia.
Qed.

Lemma apply_x_ext n nb it (H H' : Z -> Z * Qc) D i :
  0 < it -> 0 < n -> 0 < nb -> 0 <= i < nb * n * n ->
  (forall k, 0 <= k < nb * n * it -> H k = H' k) -> apply_x n nb it H D i = apply_x n nb it H' D i.
Proof.
  intros Hit Hn Hnb Hi HH. destruct (cell_bounds n nb i Hn Hnb Hi) as (Hb & Hx & Hy).
  unfold apply_x, apply_x_cell. apply row_out_ext_in. intros j Hj. apply HH. unfold hidx_x.
  generalize dependent (cell_y n i). intros y Hy.
  assert (y <= nb * n - 1) by nia. nia.
Qed.

Theorem gen_kick_y_conserves n nb it (offs D : Z -> Qc) :
  valid_it it -> 0 < n < 2 ^ 24 -> 0 < nb -> nb * n * it <= 2 ^ 32 ->
  (forall b x, 0 <= b < nb -> 0 <= x < n ->
     row_ok n it (offs (Z.min b (nb - 1) * n + x)) (rtrunc n (fun y => D (didx n b x y)))) ->
  sumQ 0 (Z.to_nat (nb * n * n)) (apply_y n nb it (usm_gen_table n it (nb * n) offs) D) =
  sumQ 0 (Z.to_nat (nb * n * n)) D.
Proof.
  intros Hv Hn Hnb Hb Hrow. destruct (valid_it_range it Hv) as [Hit Hc].
  rewrite (sumZ_ext QcF _ _ _ (apply_y n nb it (updateSM n it offs) D)).
  - apply kick_y_conserves; try assumption. pw. lia.
  - intros i Hi. rewrite Z2Nat.id in Hi by nia. apply apply_y_ext; try lia.
    intros k Hk. apply usm_gen_table_spec; try assumption; nia.
Qed.

Theorem gen_kick_x_conserves n nb it (offs D : Z -> Qc) :
  valid_it it -> 0 < n < 2 ^ 24 -> 0 < nb -> nb * n * it <= 2 ^ 32 ->
  (forall b y, 0 <= b < nb -> 0 <= y < n ->
     row_ok n it (offs y) (rtrunc n (fun x => D (didx n b x y)))) ->
  sumQ 0 (Z.to_nat (nb * n * n)) (apply_x n nb it (usm_gen_table n it (nb * n) offs) D) =
  sumQ 0 (Z.to_nat (nb * n * n)) D.
Proof.
  intros Hv Hn Hnb Hb Hrow. destruct (valid_it_range it Hv) as [Hit Hc].
  rewrite (sumZ_ext QcF _ _ _ (apply_x n nb it (updateSM n it offs) D)).
  - apply kick_x_conserves; try assumption. pw. lia.
  - intros i Hi. rewrite Z2Nat.id in Hi by nia. apply apply_x_ext; try lia.
    intros k Hk. apply usm_gen_table_spec; try assumption; nia.
Qed.
