(** * C04: iterating the 3-point Fokker-Planck step - energy moments of a column after k steps,
    closed form of the second moment, order statements over the reals, and the algebra of the
    second-moment recurrence of a full step (Model/Moments2.v). *)
From Coq Require Import List ZArith Lia Bool Ring Field.
From Inovesa Require Import Base.FieldKit Base.Sums Gen.Gen_FPStencil Model.FokkerPlanck Model.Moments2
  Proofs.FPGridP Proofs.FokkerPlanckP Proofs.FPMomentsP.
Import ListNotations.
Local Open Scope Z_scope.

Section Spread.
  Variable K : Fld.
  Add Field KFsp : (@Fth K).
  Local Open Scope F_scope.

  Variables (e1 delta : K) (p : Z -> K).
  Variables (v n lo_end m : Z).
  Notation H := (H3 K e1 delta p v n lo_end m).
  Notation S0' := (S0 K n). Notation S1' := (S1 K p n). Notation S2' := (S2 K p n).
  Let d : K := opt (has_damp v) e1.
  Let f : K := opt (has_diff v) e1.

  (** one application to a column; cells outside the array do not exist (read as zero) *)
  Definition fp3_next (r : Z -> K) : Z -> K :=
    fun y => if ((0 <=? y) && (y <? n))%Z then fp_col_out 3 H r y else 0.

  Fixpoint fp3_iter (k : nat) (r : Z -> K) : Z -> K :=
    match k with O => r | S j => fp3_iter j (fp3_next r) end.

  Lemma sum_next (g : Z -> K) (r : Z -> K) :
    sumZ 0 (Z.to_nat n) (fun y => g y * fp3_next r y) = sumZ 0 (Z.to_nat n) (fun y => g y * fp_col_out 3 H r y).
  Proof.
    apply sumZ_ext. intros y Hy. unfold fp3_next.
    replace (0 <=? y)%Z with true by (symmetry; apply Z.leb_le; lia).
    replace (y <? n)%Z with true by (symmetry; apply Z.ltb_lt; lia). reflexivity.
  Qed.

  Definition interior (r : Z -> K) : Prop := supp r 2 (n - 2).
  Definition hyp : Prop := (2 <= n < 2 ^ 32)%Z /\ uniform K delta p /\ delta <> 0.

  (** C04.1 for one step *)
  Lemma next_moments r : hyp -> interior r ->
    S0' (fp3_next r) = S0' r /\
    S1' (fp3_next r) = (1 - d) * S1' r /\
    S2' (fp3_next r) = (1 - two * d) * S2' r + (two * f - d * (delta * delta)) * S0' r.
  Proof.
    intros (Hn & Hax & Hd) Hs. repeat split.
    - unfold S0. transitivity (sumZ 0 (Z.to_nat n) (fp_col_out 3 H r)).
      + apply sumZ_ext. intros y Hy. unfold fp3_next.
        replace (0 <=? y)%Z with true by (symmetry; apply Z.leb_le; lia).
        replace (y <? n)%Z with true by (symmetry; apply Z.ltb_lt; lia). reflexivity.
      + apply fp3_moment0; assumption.
    - unfold S1. rewrite (sum_next p). apply (fp3_moment1 K e1 delta p v n lo_end m r); assumption.
    - unfold S2. rewrite (sum_next (fun y => p y * p y)).
      pose proof (fp3_moment2 K e1 delta p v n lo_end m r Hn Hs Hax Hd) as W. unfold S2, S0 in W.
      rewrite W. unfold S0, d, f, opt, two. destruct (has_damp v), (has_diff v); ring.
  Qed.

  Lemma next_supp r a b : hyp -> (1 <= a)%Z -> (b <= n - 1)%Z -> supp r a b -> supp (fp3_next r) (a - 1) (b + 1).
  Proof. intros (Hn & Hax & Hd) Ha Hb Hs. apply fp3_supp; assumption. Qed.

  (** the support hypothesis of k steps follows from an initial support k cells clear of rows 2, n-3 *)
  Lemma iter_interior k : hyp -> forall r a b, (2 + Z.of_nat k <= a)%Z -> (b <= n - 2 - Z.of_nat k)%Z -> supp r a b ->
    forall j, (j <= k)%nat -> interior (fp3_iter j r).
  Proof.
    intros Hh. induction k as [|k IH]; intros r a b Ha Hb Hs j Hj.
    - assert (j = 0)%nat by lia. subst j. cbn [fp3_iter]. intros i Hi. apply Hs. lia.
    - destruct j as [|j]; [cbn [fp3_iter]; intros i Hi; apply Hs; lia|].
      cbn [fp3_iter]. apply (IH (fp3_next r) (a - 1)%Z (b + 1)%Z); try lia.
      apply next_supp; try assumption; lia.
  Qed.

  Fixpoint kpow (x : K) (k : nat) : K := match k with O => 1 | S j => x * kpow x j end.
  Fixpoint knat (k : nat) : K := match k with O => 0 | S j => 1 + knat j end.

  (** C04.1 for k steps: charge constant, first moment decays by (1-e1) per step *)
  Lemma iter_moments01 k : hyp -> forall r, (forall j, (j < k)%nat -> interior (fp3_iter j r)) ->
    S0' (fp3_iter k r) = S0' r /\ S1' (fp3_iter k r) = kpow (1 - d) k * S1' r.
  Proof.
    intros Hh. induction k as [|k IH]; intros r Hs; cbn [fp3_iter kpow]; [split; ring|].
    assert (H0 : interior r) by (apply (Hs 0%nat); lia).
    destruct (next_moments r Hh H0) as (E0 & E1 & _).
    destruct (IH (fp3_next r)) as (F0 & F1); [intros j Hj; apply (Hs (S j)); lia|].
    rewrite F0, F1, E0, E1. split; ring.
  Qed.

  (** C04.2: closed form of the second moment with damping (full: sigma = 1 - delta^2/2, damping only:
      sigma = -delta^2/2): the distance to sigma*M0 shrinks by the factor (1-2e1) per step, whatever
      the shape of the distribution *)
  Definition sigma_inf : K := opt (has_diff v) 1 - delta * delta / two.

  Lemma spread_closed_form k : hyp -> has_damp v = true -> forall r,
    (forall j, (j < k)%nat -> interior (fp3_iter j r)) ->
    S2' (fp3_iter k r) - sigma_inf * S0' r = kpow (1 - two * e1) k * (S2' r - sigma_inf * S0' r).
  Proof.
    intros Hh Hv. induction k as [|k IH]; intros r Hs; cbn [fp3_iter kpow]; [ring|].
    assert (H0 : interior r) by (apply (Hs 0%nat); lia).
    destruct (next_moments r Hh H0) as (E0 & _ & E2).
    pose proof (IH (fp3_next r) (fun j Hj => Hs (S j) ltac:(lia))) as W. rewrite E0, E2 in W.
    assert (W' : S2' (fp3_iter k (fp3_next r)) = sigma_inf * S0' r +
                 kpow (1 - two * e1) k * ((1 - two * d) * S2' r + (two * f - d * (delta * delta)) * S0' r - sigma_inf * S0' r))
      by (rewrite <- W; ring).
    rewrite W'. unfold d, f, sigma_inf, opt, two. rewrite Hv. destruct (has_diff v); field; fld_nz K.
  Qed.

  (** without damping: linear growth (diffusion only) or no change (none) *)
  Lemma spread_no_damping k : hyp -> has_damp v = false -> forall r,
    (forall j, (j < k)%nat -> interior (fp3_iter j r)) ->
    S2' (fp3_iter k r) = S2' r + knat k * (two * f) * S0' r.
  Proof.
    intros Hh Hv. induction k as [|k IH]; intros r Hs; cbn [fp3_iter knat]; [ring|].
    assert (H0 : interior r) by (apply (Hs 0%nat); lia).
    destruct (next_moments r Hh H0) as (E0 & _ & E2).
    pose proof (IH (fp3_next r) (fun j Hj => Hs (S j) ltac:(lia))) as W. rewrite E0, E2 in W.
    rewrite W. unfold d, f, opt, two. rewrite Hv. ring.
  Qed.

  (** ** algebra of the second-moment recurrence of a full step *)
  Lemma J_kick_drift a t (mm : mom2 K) : sm_J a t (sm_drift a (sm_rf t mm)) = sm_J a t mm.
  Proof. unfold sm_J, sm_drift, sm_rf. cbn [muu muv mvv m0]. unfold two. ring. Qed.

  (** one full step: J changes by the damping and diffusion terms only *)
  Lemma J_step vv a t ee dd (mm : mom2 K) : dd <> 0 ->
    let m' := sm_drift a (sm_rf t mm) in
    sm_J a t (sm_step vv a t ee dd mm) =
    sm_J a t mm - opt (has_damp vv) ee * (a * t * muv m' + two * a * mvv m')
    + a * (two * opt (has_diff vv) ee / (dd * dd) - opt (has_damp vv) ee) * m0 mm.
  Proof.
    intros Hd m'. unfold sm_step. fold m'. rewrite <- (J_kick_drift a t mm). fold m'.
    replace (m0 mm) with (m0 m') by reflexivity.
    unfold sm_J, sm_fp. cbn [muu muv mvv m0]. unfold opt, two.
    destruct (has_damp vv), (has_diff vv); field; exact Hd.
  Qed.
End Spread.
