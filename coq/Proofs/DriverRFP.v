(** RF-modulation records of the main loop (C19, clause "exactly one record per executed step, none
    lost or duplicated across output flushes"), for every kernel record [K], every program accepted
    by the checkers below, every signal schedule.

    The driver model (Model/Driver.v) keeps the dynamic RF map's queue [mq] (precomputed modulation,
    front first), its past list [past], and writes [RRF past] records into the file:
      Apply MRF        (dynrf)   front of the queue -> _calcKick, -> end of the past list
      Append ARFKicks            getPastModulation(): the past list goes to /RFKicks/data and is cleared
    [rf_of file] is the concatenation of all flushed chunks = the rows of /RFKicks/data. *)
From Coq Require Import List ZArith Bool Lia.
From Inovesa Require Import Model.Driver Proofs.DriverP.
Import ListNotations.
Local Open Scope Z_scope.

(** * Checkers *)

Definition is_rf_apply (c : call) : bool := match c with Apply MRF => true | _ => false end.
Definition is_rf_flush (c : call) : bool := match c with Append ARFKicks => true | _ => false end.

(** no RF kick in a block *)
Fixpoint no_rf (b : blk) : bool :=
  match b with
  | Done => true
  | Seq c r => negb (is_rf_apply c) && no_rf r
  | Cond _ t e r => no_rf t && no_rf e && no_rf r
  end.

(** exactly one RF kick, at top level (not under a condition) *)
Fixpoint rf_once (b : blk) : bool :=
  match b with
  | Done => false
  | Seq c r => if is_rf_apply c then no_rf r else rf_once r
  | Cond _ t e r => no_rf t && no_rf e && rf_once r
  end.

(** [pe b e]: with a results file and a dynamic RF map (guards GHdf and GDynRF true, all other
    guards unknown), is the past list known to be empty after [b] when [e] says whether it is
    known to be empty before *)
Fixpoint pe (b : blk) (e : bool) : bool :=
  match b with
  | Done => e
  | Seq c r => pe r (if is_rf_flush c then true else if is_rf_apply c then false else e)
  | Cond g t el r =>
      match g with
      | GHdf | GDynRF => pe r (pe t e)
      | _ => pe r (pe t e && pe el e)
      end
  end.

(** the per-run obligation of C19's record clause: the RF map is applied exactly once per loop
    iteration and nowhere else; the final block ends with the past list flushed *)
Definition rf_checker (p : prog) : bool :=
  no_rf (p_pre p) && rf_once (p_body p) && no_rf (p_post p) && pe (p_post p) false.

Lemma tl_skipn {A} (l : list A) j : tl (skipn j l) = skipn (S j) l.
Proof. revert l. induction j; intros [|x l]; cbn; auto. apply IHj. Qed.
Lemma hd_skipn {A} (d : A) (l : list A) j : hd d (skipn j l) = nth j l d.
Proof. revert l. induction j; intros [|x l]; cbn; auto. Qed.

Section RF.
  Variable K : kern.
  Notation st := (st K).
  Notation Md := (tMd K).

  (** rows of /RFKicks/data: the flushed chunks in file order *)
  Fixpoint rf_of (l : list (rec K)) : list Md :=
    match l with
    | [] => []
    | r :: t => match rdata r with RRF x => x ++ rf_of t | _ => rf_of t end
    end.

  Lemma rf_of_app a b : rf_of (a ++ b) = rf_of a ++ rf_of b.
  Proof.
    induction a as [|r t IH]; cbn; auto. destruct (rdata r); auto. rewrite IH, app_assoc. reflexivity.
  Qed.

  (** everything the map was constructed with: written rows, then pending, then still queued *)
  Definition tot (s : st) : list Md := rf_of (file s) ++ past s ++ mq s.

  Lemma recs_no_rf cf a (s : st) : a <> ARFKicks -> rf_of (recs cf a s) = [].
  Proof.
    destruct a as [[| | |]| | | | |]; cbn; intros H; try reflexivity; try congruence.
    destruct ((0 <? h5save cf) && (onr s mod h5save cf =? 0)); reflexivity.
  Qed.

  (** ** one call *)
  Lemma tot_exec sig cf c (s : st) :
    (is_rf_apply c = true -> dynrf cf = true -> mq s <> []) -> tot (exec sig cf c s) = tot s.
  Proof.
    unfold tot. intros Hq.
    destruct c as [| | |ax| | | | |a|m|m| | |m| |l| |o]; try (destruct s; reflexivity);
      try (destruct ax; destruct s; reflexivity).
    - (* Append *)
      assert (E : forall u v, rf_of (file (set_uaf u (set_file (K:=K) v s))) = rf_of v /\
                              past (set_uaf u (set_file v s)) = past s /\ mq (set_uaf u (set_file v s)) = mq s)
        by (intros u v; destruct s; auto).
      destruct a as [[| | |]| | | | |];
        try (unfold exec; cbn [exec1];
             match goal with |- context [set_uaf ?u (set_file ?v s)] => destruct (E u v) as (E1 & E2 & E3) end;
             rewrite E1, E2, E3, rf_of_app, recs_no_rf by discriminate; rewrite app_nil_r; reflexivity).
      unfold exec; cbn [exec1]. destruct s; cbn.
      rewrite rf_of_app. cbn. rewrite !app_nil_r, <- app_assoc. reflexivity.
    - (* Apply *)
      destruct m; try (destruct s; reflexivity).
      unfold exec; cbn [exec1]. destruct (dynrf cf) eqn:Hd; [|destruct s; reflexivity].
      specialize (Hq eq_refl eq_refl). destruct s; cbn in *. destruct mq as [|e q]; [congruence|].
      cbn. rewrite <- !app_assoc. reflexivity.
  Qed.

  Lemma mq_exec sig cf c (s : st) :
    mq (exec sig cf c s) = if is_rf_apply c && dynrf cf then tl (mq s) else mq s.
  Proof.
    destruct c as [| | |ax| | | | |a|m|m| | |m| |l| |o]; try (destruct s; reflexivity);
      try (destruct ax; destruct s; reflexivity); try (destruct a; destruct s; reflexivity).
    destruct m; try (destruct s; reflexivity). unfold exec; cbn. destruct (dynrf cf); destruct s; reflexivity.
  Qed.

  Lemma rfo_exec sig cf c (s : st) :
    rfo (exec sig cf c s) = if is_rf_apply c && dynrf cf then k_rfCalc K (rfo s) (hd (k_md0 K) (mq s)) else rfo s.
  Proof.
    destruct c as [| | |ax| | | | |a|m|m| | |m| |l| |o]; try (destruct s; reflexivity);
      try (destruct ax; destruct s; reflexivity); try (destruct a; destruct s; reflexivity).
    destruct m; try (destruct s; reflexivity). unfold exec; cbn. destruct (dynrf cf); destruct s; reflexivity.
  Qed.

  Lemma past_exec sig cf c (s : st) :
    past (exec sig cf c s) =
      if is_rf_flush c then []
      else if is_rf_apply c && dynrf cf then past s ++ [hd (k_md0 K) (mq s)] else past s.
  Proof.
    destruct c as [| | |ax| | | | |a|m|m| | |m| |l| |o]; try (destruct s; reflexivity);
      try (destruct ax; destruct s; reflexivity); try (destruct a as [[| | |]| | | | |]; destruct s; reflexivity).
    destruct m; try (destruct s; reflexivity). unfold exec; cbn. destruct (dynrf cf); destruct s; reflexivity.
  Qed.

  (** ** blocks without an RF kick *)
  Lemma no_rf_blk sig cf b : no_rf b = true -> forall (s : st),
    tot (exec_blk sig cf b s) = tot s /\ mq (exec_blk sig cf b s) = mq s /\ rfo (exec_blk sig cf b s) = rfo s.
  Proof.
    induction b as [|c r IH|g t IHt e IHe r IHr]; cbn; intros Hn s; auto.
    - apply andb_true_iff in Hn. destruct Hn as [Hc Hr]. apply negb_true_iff in Hc.
      destruct (IH Hr (exec sig cf c s)) as (A & B & C). rewrite A, B, C.
      rewrite tot_exec, mq_exec, rfo_exec, Hc; auto; try (intros; congruence).
    - apply andb_true_iff in Hn. destruct Hn as [Hn Hr]. apply andb_true_iff in Hn. destruct Hn as [Ht He].
      destruct (gval cf s g).
      + destruct (IHr Hr (exec_blk sig cf t s)) as (A & B & C). destruct (IHt Ht s) as (A' & B' & C').
        rewrite A, B, C; auto.
      + destruct (IHr Hr (exec_blk sig cf e s)) as (A & B & C). destruct (IHe He s) as (A' & B' & C').
        rewrite A, B, C; auto.
  Qed.

  (** ** a block with exactly one RF kick (dynamic map): one queue entry consumed, used for the kick *)
  Lemma rf_once_blk sig cf b : rf_once b = true -> dynrf cf = true -> forall (s : st), mq s <> [] ->
    tot (exec_blk sig cf b s) = tot s /\ mq (exec_blk sig cf b s) = tl (mq s) /\
    rfo (exec_blk sig cf b s) = k_rfCalc K (rfo s) (hd (k_md0 K) (mq s)).
  Proof.
    intros Hb Hd. induction b as [|c r IH|g t IHt e IHe r IHr]; cbn in *; intros s Hq; try discriminate.
    - destruct (is_rf_apply c) eqn:Hc.
      + destruct (no_rf_blk sig cf r Hb (exec sig cf c s)) as (A & B & C). rewrite A, B, C.
        rewrite tot_exec, mq_exec, rfo_exec, Hc, Hd; auto.
      + assert (Hq' : mq (exec sig cf c s) <> []) by (rewrite mq_exec, Hc; exact Hq).
        destruct (IH Hb (exec sig cf c s) Hq') as (A & B & C). rewrite A, B, C.
        rewrite tot_exec, mq_exec, rfo_exec, Hc; auto; try (intros; congruence).
    - apply andb_true_iff in Hb. destruct Hb as [Hb Hr]. apply andb_true_iff in Hb. destruct Hb as [Ht He].
      destruct (gval cf s g).
      + destruct (no_rf_blk sig cf t Ht s) as (A' & B' & C').
        destruct (IHr Hr (exec_blk sig cf t s)) as (A & B & C); [rewrite B'; auto|]. rewrite A, B, C, A', B', C'. auto.
      + destruct (no_rf_blk sig cf e He s) as (A' & B' & C').
        destruct (IHr Hr (exec_blk sig cf e s)) as (A & B & C); [rewrite B'; auto|]. rewrite A, B, C, A', B', C'. auto.
  Qed.

  (** static RF map: the queue is never touched *)
  Lemma static_blk sig cf b : dynrf cf = false -> forall (s : st),
    tot (exec_blk sig cf b s) = tot s /\ mq (exec_blk sig cf b s) = mq s.
  Proof.
    intros Hd. induction b as [|c r IH|g t IHt e IHe r IHr]; cbn; intros s; auto.
    - destruct (IH (exec sig cf c s)) as (A & B). rewrite A, B, tot_exec, mq_exec, Hd, andb_false_r; auto.
      intros _ X; congruence.
    - destruct (gval cf s g).
      + destruct (IHr (exec_blk sig cf t s)) as (A & B). destruct (IHt s) as (A' & B'). rewrite A, B; auto.
      + destruct (IHr (exec_blk sig cf e s)) as (A & B). destruct (IHe s) as (A' & B'). rewrite A, B; auto.
  Qed.

  (** ** the final flush *)
  Lemma pe_sound sig cf b : hdf cf = true -> dynrf cf = true -> forall e (s : st),
    (e = true -> past s = []) -> pe b e = true -> past (exec_blk sig cf b s) = [].
  Proof.
    intros Hh Hd. induction b as [|c r IH|g t IHt el IHe r IHr]; cbn; intros e s He Hp.
    - auto.
    - eapply IH; [|exact Hp]. rewrite past_exec.
      destruct (is_rf_flush c); auto. destruct (is_rf_apply c); cbn; [discriminate|]. exact He.
    - destruct (match g with GHdf | GDynRF => true | _ => false end) eqn:Hg.
      + assert (Hv : gval cf s g = true) by (destruct g; try discriminate; cbn; auto).
        assert (Hp' : pe r (pe t e) = true) by (destruct g; try discriminate; exact Hp).
        rewrite Hv. eapply IHr; [|exact Hp']. intros Hb. eapply IHt; eauto.
      + assert (Hp' : pe r (pe t e && pe el e) = true) by (destruct g; try discriminate; exact Hp).
        eapply IHr; [|exact Hp']. intros Hb. apply andb_true_iff in Hb. destruct Hb.
        destruct (gval cf s g); [eapply IHt|eapply IHe]; eauto.
  Qed.

  (** ** the loop *)
  Lemma heads_rf sig cf p (s0 : st) : rf_checker p = true -> dynrf cf = true ->
    forall j, (j <= length (mq s0))%nat ->
      tot (heads K sig cf p s0 j) = tot s0 /\
      mq (heads K sig cf p s0 j) = skipn j (mq s0) /\
      (forall i, (i < j)%nat ->
         rfo (heads K sig cf p s0 (S i)) = k_rfCalc K (rfo (heads K sig cf p s0 i)) (nth i (mq s0) (k_md0 K))).
  Proof.
    unfold rf_checker. intros H Hd.
    apply andb_true_iff in H. destruct H as [H Hpe]. apply andb_true_iff in H. destruct H as [H Hpost].
    apply andb_true_iff in H. destruct H as [Hpre Hbody].
    induction j; intros Hj.
    - unfold heads. cbn [iter]. destruct (no_rf_blk sig cf (p_pre p) Hpre s0) as (A & B & C).
      split; [exact A|]. split; [exact B|]. intros i Hi; lia.
    - destruct IHj as (A & B & C); [lia|].
      assert (Hq : mq (heads K sig cf p s0 j) <> []).
      { rewrite B. intro X. apply (f_equal (@length _)) in X. rewrite skipn_length in X. cbn in X. lia. }
      unfold heads in *. rewrite iter_snoc.
      destruct (rf_once_blk sig cf (p_body p) Hbody Hd _ Hq) as (A' & B' & C').
      split; [rewrite A'; exact A|]. split.
      + rewrite B', B. apply tl_skipn.
      + intros i Hi. destruct (Nat.eq_dec i j) as [->|Hne].
        * rewrite iter_snoc, C', B. f_equal. apply hd_skipn.
        * apply C. lia.
  Qed.

  Lemma firstn_skipn_inv {A} (a : list A) (l : list A) j : a ++ skipn j l = l -> (j <= length l)%nat -> a = firstn j l.
  Proof.
    intros H Hj. rewrite <- (firstn_skipn j l) in H at 2. apply app_inv_tail in H. exact H.
  Qed.

  (** C19 (3) at every loop head: what has been written to /RFKicks/data so far, followed by what
      is pending in the map, is exactly the first j precomputed records - whatever the output
      cadence and whatever signals arrived *)
  Theorem heads_records sig cf p (s0 : st) : rf_checker p = true -> dynrf cf = true ->
    rf_of (file s0) = [] -> past s0 = [] ->
    forall j, (j <= length (mq s0))%nat ->
      rf_of (file (heads K sig cf p s0 j)) ++ past (heads K sig cf p s0 j) = firstn j (mq s0) /\
      mq (heads K sig cf p s0 j) = skipn j (mq s0).
  Proof.
    intros H Hd Hf Hp j Hj. destruct (heads_rf sig cf p s0 H Hd j Hj) as (A & B & _).
    split; [|exact B]. unfold tot in A. rewrite Hf, Hp, B in A. cbn in A.
    apply firstn_skipn_inv with (l := mq s0); auto. rewrite <- app_assoc. exact A.

  Qed.

  (** the kick of step i was computed from record i *)
  Theorem step_uses_its_record sig cf p (s0 : st) : rf_checker p = true -> dynrf cf = true ->
    forall i, (i < length (mq s0))%nat ->
      rfo (heads K sig cf p s0 (S i)) = k_rfCalc K (rfo (heads K sig cf p s0 i)) (nth i (mq s0) (k_md0 K)).
  Proof.
    intros H Hd i Hi. destruct (heads_rf sig cf p s0 H Hd (S i)) as (_ & _ & C); [lia|]. apply C. lia.
  Qed.

  (** C19 (3) for the whole run: for every number of steps, output cadence and signal schedule,
      with m the number of executed steps: /RFKicks/data holds exactly the records of steps
      0..m-1 in order, nothing is pending, the queue holds the rest *)
  Theorem run_records sig cf p (s0 : st) : rf_checker p = true -> hdf cf = true -> dynrf cf = true ->
    rf_of (file s0) = [] -> past s0 = [] -> (Z.to_nat (laststep cf) <= length (mq s0))%nat ->
    let m := steps_done K sig cf p s0 in
    rf_of (file (run sig cf p s0)) = firstn m (mq s0) /\
    past (run sig cf p s0) = [] /\
    mq (run sig cf p s0) = skipn m (mq s0).
  Proof.
    intros H Hh Hd Hf Hp Hl m.
    pose proof (loop_iter K sig cf (p_body p) (Z.to_nat (laststep cf)) (exec_blk sig cf (p_pre p) s0)) as L.
    cbv zeta in L. fold (steps_done K sig cf p s0) in L. fold m in L. destruct L as (Hm & E & _ & _).
    destruct (heads_rf sig cf p s0 H Hd m) as (A & B & _); [lia|].
    unfold rf_checker in H.
    apply andb_true_iff in H. destruct H as [H Hpe]. apply andb_true_iff in H. destruct H as [H Hpost].
    unfold run. rewrite E. fold (heads K sig cf p s0 m).
    destruct (no_rf_blk sig cf (p_post p) Hpost (heads K sig cf p s0 m)) as (A' & B' & _).
    assert (P : past (exec_blk sig cf (p_post p) (heads K sig cf p s0 m)) = []).
    { eapply pe_sound with (e := false); eauto. discriminate. }
    split; [|split; [exact P | rewrite B'; exact B]].
    rewrite A in A'. unfold tot in A'. rewrite P, B', B, Hf, Hp in A'. cbn in A'.
    apply firstn_skipn_inv with (l := mq s0); auto. lia.
  Qed.

  (** without a results file nothing is written and the records stay pending in the map *)
  Theorem run_records_nofile sig cf p (s0 : st) : rf_checker p = true -> dynrf cf = true ->
    (Z.to_nat (laststep cf) <= length (mq s0))%nat ->
    tot (run sig cf p s0) = tot s0.
  Proof.
    intros H Hd Hl.
    pose proof (loop_iter K sig cf (p_body p) (Z.to_nat (laststep cf)) (exec_blk sig cf (p_pre p) s0)) as L.
    cbv zeta in L. destruct L as (Hm & E & _ & _).
    destruct (heads_rf sig cf p s0 H Hd _ (Nat.le_trans _ _ _ Hm Hl)) as (A & _ & _).
    unfold rf_checker in H.
    apply andb_true_iff in H. destruct H as [H Hpe]. apply andb_true_iff in H. destruct H as [H Hpost].
    unfold run. rewrite E.
    destruct (no_rf_blk sig cf (p_post p) Hpost (iter sig cf (p_body p) (nsteps K sig cf (p_body p) (Z.to_nat (laststep cf)) (exec_blk sig cf (p_pre p) s0)) (exec_blk sig cf (p_pre p) s0))) as (A' & _ & _).
    rewrite A'. exact A.
  Qed.

  (** static RF map: no record is ever produced *)
  Theorem run_static sig cf p (s0 : st) : dynrf cf = false -> tot (run sig cf p s0) = tot s0.
  Proof.
    intros Hd. unfold run. destruct (static_blk sig cf (p_post p) Hd (loop sig cf (p_body p) (Z.to_nat (laststep cf)) (exec_blk sig cf (p_pre p) s0))) as (A & _).
    rewrite A. clear A.
    assert (L : forall n (s : st), tot (loop sig cf (p_body p) n s) = tot s).
    { induction n; intros s; cbn; auto. destruct (cont cf s); auto. rewrite IHn. apply static_blk; auto. }
    rewrite L. apply static_blk; auto.
  Qed.
End RF.
