(** Lemmas about the statement language of Model/EFieldProg.v: loops, point updates, pointwise equality
    of states; and the three SHAPE lemmas: a program of the shape padBunchProfiles / wakePotential /
    updateCSR have, with arbitrary index expressions that satisfy the stated equations, computes what the
    hand-written operations [do_pad] / [do_wake] / [do_csr] of Model/EField.v (fixed tree, [rz = true])
    compute.  Proofs/EFieldGenP.v applies them to the generated programs. *)
From Coq Require Import List ZArith Bool Lia.
From Inovesa Require Import Model.EField Model.EFieldProg Proofs.EFieldP.
Import ListNotations.
Local Open Scope Z_scope.

(** * loops *)
Lemma loopZ_rel {S1 S2 : Type} (R : S1 -> S2 -> Prop) m : forall k (f : Z -> S1 -> S1) (g : Z -> S2 -> S2) s1 s2,
  R s1 s2 -> (forall j a b, k <= j < k + Z.of_nat m -> R a b -> R (f j a) (g j b)) ->
  R (loopZ m k f s1) (loopZ m k g s2).
Proof.
  induction m as [|m IH]; intros k f g s1 s2 H0 Hs; simpl; [exact H0|].
  apply IH.
  - apply Hs; [lia|exact H0].
  - intros j a b Hj. apply Hs. lia.
Qed.

Lemma loopZ_inv {St : Type} (P : Z -> St -> Prop) m : forall k (f : Z -> St -> St) s,
  P k s -> (forall j a, k <= j < k + Z.of_nat m -> P j a -> P (j + 1) (f j a)) ->
  P (k + Z.of_nat m) (loopZ m k f s).
Proof.
  induction m as [|m IH]; intros k f s H0 Hs; simpl loopZ.
  - replace (k + Z.of_nat 0) with k by lia. exact H0.
  - replace (k + Z.of_nat (S m)) with (k + 1 + Z.of_nat m) by lia. apply IH.
    + apply Hs; [lia|exact H0].
    + intros j a Hj. apply Hs. lia.
Qed.

(** the counter loops of the hand model are [loopZ]s *)
Lemma csr_loop_loopZ {T C} (E : env T C) cut p k : forall b s,
  csr_loop E cut p k b s = loopZ k b (csr_body E cut p) s.
Proof. induction k as [|k IH]; intros b s; simpl; [reflexivity|apply IH]. Qed.

Lemma upd_same {A} (f : Z -> A) a x : upd f a x a = x.
Proof. unfold upd. rewrite store_in by lia. reflexivity. Qed.
Lemma upd_other {A} (f : Z -> A) a x i : i <> a -> upd f a x i = f i.
Proof. intros H. unfold upd. apply store_out. lia. Qed.

Lemma cells_succ k : 0 <= k -> cells (k + 1) = cells k ++ [k].
Proof.
  intros Hk. unfold cells. replace (Z.to_nat (k + 1)) with (S (Z.to_nat k)) by lia.
  rewrite seq_S, map_app. simpl. rewrite Z2Nat.id by lia. reflexivity.
Qed.
Lemma sample_succ {A} (f : Z -> A) k : 0 <= k -> sample f (k + 1) = sample f k ++ [f k].
Proof. intros Hk. unfold sample. rewrite cells_succ by exact Hk. rewrite map_app. reflexivity. Qed.
Lemma sample_zero {A} (f : Z -> A) : sample f 0 = [].
Proof. reflexivity. Qed.

(** * pointwise equality of states *)
Lemma steq_refl {T C} (s : state T C) : steq s s.
Proof. repeat split. Qed.
Lemma steq_sym {T C} (s1 s2 : state T C) : steq s1 s2 -> steq s2 s1.
Proof. intros (a & b & c & d & e & f & g). repeat split; intros i; symmetry; auto. Qed.
Lemma steq_trans {T C} (s1 s2 s3 : state T C) : steq s1 s2 -> steq s2 s3 -> steq s1 s3.
Proof.
  intros (a & b & c & d & e & f & g) (a' & b' & c' & d' & e' & f' & g').
  repeat split; intros i; etransitivity; eauto.
Qed.

Ltac steq_split := unfold steq; cbn [bp ff wl wp wake csr csri]; repeat split; intros ?i.
Ltac steq_destr H := destruct H as (?Hbp & ?Hff & ?Hwl & ?Hwp & ?Hwk & ?Hcs & ?Hci).

Lemma store_peq {A} (b1 b2 : Z -> A) a len (f g : Z -> A) i :
  b1 i = b2 i -> (a <= i < a + len -> f (i - a) = g (i - a)) -> store b1 a len f i = store b2 a len g i.
Proof.
  intros Hb Hf. unfold store. destruct (inr a len i) eqn:Hr; [|exact Hb].
  apply Hf. apply inr_true. exact Hr.
Qed.

Lemma upd_peq {A} (b1 b2 : Z -> A) a x y i : b1 i = b2 i -> x = y -> upd b1 a x i = upd b2 a y i.
Proof. intros Hb ->. unfold upd. apply store_peq; auto. Qed.

Lemma fwd_peq {T C} (E : env T C) b1 b2 f1 f2 :
  (forall i, b1 i = b2 i) -> (forall i, f1 i = f2 i) -> forall i, fwd E b1 f1 i = fwd E b2 f2 i.
Proof.
  intros Hb Hf i. unfold fwd. rewrite (sample_ext b1 b2 (nmax E)) by (intros; apply Hb).
  apply store_peq; auto.
Qed.

Section Cong.
  Context {T C : Type} (E : env T C).
  Variable kcsr : T -> Z -> Z -> C -> T.
  Variable padsem : (Z -> T) -> state T C -> state T C.
  Hypothesis padsem_cong : forall p s1 s2, steq s1 s2 -> steq (padsem p s1) (padsem p s2).

  Lemma exec0_cong p cut v c s1 s2 : steq s1 s2 -> steq (exec0 E kcsr padsem p cut v c s1) (exec0 E kcsr padsem p cut v c s2).
  Proof.
    intros H. destruct c; cbn [exec0]; try (apply padsem_cong; exact H); steq_destr H; steq_split; auto.
    - apply store_peq; auto.
    - apply store_peq; auto.
    - apply fwd_peq; auto.
    - rewrite (sample_ext (wl s1) (wl s2)) by (intros; apply Hwl). apply store_peq; auto.
    - rewrite (sample_ext (wl s1) (wl s2)) by (intros; apply Hwl). apply store_peq; auto.
    - apply upd_peq; [auto|]. rewrite Hff. reflexivity.
    - apply upd_peq; [auto|]. rewrite Hwp. reflexivity.
    - apply upd_peq; auto.
    - apply upd_peq; [auto|]. rewrite Hff. reflexivity.
    - apply upd_peq; [auto|]. rewrite Hci, Hcs. reflexivity.
  Qed.

  Lemma exec0s_cong p cut v l : forall s1 s2, steq s1 s2 -> steq (exec0s E kcsr padsem p cut v l s1) (exec0s E kcsr padsem p cut v l s2).
  Proof.
    induction l as [|c l IH]; intros s1 s2 H; cbn [exec0s fold_left]; [exact H|].
    apply IH. apply exec0_cong. exact H.
  Qed.

  Lemma exec1_cong p cut d v c s1 s2 : steq s1 s2 -> steq (exec1 E kcsr padsem p cut d v c s1) (exec1 E kcsr padsem p cut d v c s2).
  Proof.
    intros H. destruct c; cbn [exec1]; [apply exec0_cong; exact H|].
    apply loopZ_rel; [exact H|]. intros j a b _ Hab. apply exec0s_cong. exact Hab.
  Qed.

  Lemma exec1s_cong p cut d v l : forall s1 s2, steq s1 s2 -> steq (exec1s E kcsr padsem p cut d v l s1) (exec1s E kcsr padsem p cut d v l s2).
  Proof.
    induction l as [|c l IH]; intros s1 s2 H; cbn [exec1s fold_left]; [exact H|].
    apply IH. apply exec1_cong. exact H.
  Qed.

  Lemma exec2_cong p cut v c s1 s2 : steq s1 s2 -> steq (exec2 E kcsr padsem p cut v c s1) (exec2 E kcsr padsem p cut v c s2).
  Proof.
    intros H. destruct c; cbn [exec2]; [apply exec1_cong; exact H|].
    apply loopZ_rel; [exact H|]. intros j a b _ Hab. apply exec1s_cong. exact Hab.
  Qed.

  Lemma exec_cong p cut prog : forall s1 s2, steq s1 s2 -> steq (exec E kcsr padsem p cut prog s1) (exec E kcsr padsem p cut prog s2).
  Proof.
    unfold exec. induction prog as [|c l IH]; intros s1 s2 H; cbn [fold_left]; [exact H|].
    apply IH. apply exec2_cong. exact H.
  Qed.
End Cong.

Lemma exec_cons {T C} (E : env T C) kcsr padsem p cut c prog s :
  exec E kcsr padsem p cut (c :: prog) s = exec E kcsr padsem p cut prog (exec2 E kcsr padsem p cut v0 c s).
Proof. reflexivity. Qed.

(** what the caller observes respects pointwise equality *)
Lemma observe_steq {T C} (E : env T C) o s1 s2 : steq s1 s2 -> observe E o s1 = observe E o s2.
Proof.
  intros H. steq_destr H.
  destruct o; cbn [observe];
    rewrite ?(sample_ext (wake s1) (wake s2)), ?(sample_ext (wp s1) (wp s2)), ?(sample_ext (bp s1) (bp s2)),
      ?(sample_ext (csr s1) (csr s2)), ?(sample_ext (csri s1) (csri s2)) by (intros; auto); reflexivity.
Qed.

(** * a loop of point updates is a block store *)
Lemma loop_upd_store {A} (g : Z -> A) a m : forall k (w : Z -> A) i,
  loopZ m k (fun x w => upd w (a + x) (g x)) w i
  = if inr (a + k) (Z.of_nat m) i then g (i - a) else w i.
Proof.
  induction m as [|m IH]; intros k w i; simpl loopZ.
  - destruct (inr (a + k) (Z.of_nat 0) i) eqn:Hr; [|reflexivity]. inr_cases. lia.
  - rewrite IH. destruct (inr (a + (k + 1)) (Z.of_nat m) i) eqn:H1; destruct (inr (a + k) (Z.of_nat (S m)) i) eqn:H2;
      inr_cases; try reflexivity; try lia.
    + destruct (Z.eq_dec i (a + k)) as [->|Hne].
      * rewrite upd_same. f_equal. lia.
      * rewrite upd_other by exact Hne. lia.
    + rewrite upd_other by lia. reflexivity.
Qed.

Section Shapes.
  Context {T C : Type} (E : env T C).
  Variable kcsr : T -> Z -> Z -> C -> T.
  Notation N := (nmax E).
  Notation n := (nx E).
  Notation iv := (ixval E).

  Definition bucket_at (k : Z) : Z := nth (Z.to_nat k) (buckets E) 0.

  (** ** padBunchProfiles *)
  Lemma pad_loop_loopZ bks : forall b p buf (fb : Z -> Z),
    (forall j, (j < length bks)%nat -> fb (b + Z.of_nat j) = nth j bks 0) ->
    pad_loop E bks b p buf
    = loopZ (length bks) b (fun k w => store w (fb k * spc E) n (fun x => p (k * n + x))) buf.
  Proof.
    induction bks as [|bk r IH]; intros b p buf fb H; simpl; [reflexivity|].
    rewrite (IH (b + 1) p _ fb).
    - assert (Hb : fb b = bk). { pose proof (H 0%nat) as H0. simpl in H0. rewrite Z.add_0_r in H0. apply H0. lia. }
      rewrite Hb. reflexivity.
    - intros j Hj. replace (b + 1 + Z.of_nat j) with (b + Z.of_nat (S j)) by lia. apply (H (S j)). simpl. lia.
  Qed.

  Lemma pad_shape padsem cut a len bnd src ln dst p s :
    rz E = true ->
    iv v0 a = 0 -> iv v0 len = N -> iv v0 bnd = nbun E ->
    (forall k, 0 <= k < nbun E ->
       iv (vset v0 0 k) src = k * n /\ iv (vset v0 0 k) ln = n /\ iv (vset v0 0 k) dst = bucket_at k * spc E) ->
    steq (exec E kcsr padsem p cut [S1 (S0 (SClearBp a len)); S1 (SFor1 bnd [SCopyBp src ln dst])] s) (do_pad E p s).
  Proof.
    intros Hrz Ha Hlen Hbnd Hk.
    unfold exec. cbn [fold_left exec2 exec1 exec0]. rewrite Ha, Hlen, Hbnd.
    set (s1 := State (store (bp s) 0 N (fun _ => t0 E)) (ff s) (wl s) (wp s) (wake s) (csr s) (csri s)).
    unfold do_pad, pad_bp. rewrite (pad_loop_loopZ (buckets E) 0 p (clear E (bp s)) bucket_at).
    2:{ intros j Hj. unfold bucket_at. rewrite Z.add_0_l, Nat2Z.id. reflexivity. }
    unfold nbun. rewrite Nat2Z.id.
    apply (loopZ_rel (fun (a : state T C) (w : Z -> T) =>
             steq a (State w (ff s) (wl s) (wp s) (wake s) (csr s) (csri s)))).
    - unfold s1, clear. rewrite Hrz. apply steq_refl.
    - intros j st w Hj Hst. destruct (Hk j) as (H1 & H2 & H3); [unfold nbun; lia|].
      cbn [exec0s fold_left exec0]. rewrite H1, H2, H3. steq_destr Hst. cbn [bp ff wl wp wake csr csri] in *.
      steq_split; auto. apply store_peq; auto.
  Qed.

  (** ** wakePotential *)
  Lemma rb_loop_loopZ bks : forall b w buf (fb : Z -> Z),
    (forall j, (j < length bks)%nat -> fb (b + Z.of_nat j) = nth j bks 0) ->
    rb_loop E bks b w buf
    = loopZ (length bks) b (fun k u => store u (k * n) n (fun x => wscale E (w (fb k * spc E + x)))) buf.
  Proof.
    induction bks as [|bk r IH]; intros b w buf fb H; simpl; [reflexivity|].
    rewrite (IH (b + 1) w _ fb).
    - assert (Hb : fb b = bk). { pose proof (H 0%nat) as H0. simpl in H0. rewrite Z.add_0_r in H0. apply H0. lia. }
      rewrite Hb. reflexivity.
    - intros j Hj. replace (b + 1 + Z.of_nat j) with (b + Z.of_nat (S j)) by lia. apply (H (S j)). simpl. lia.
  Qed.

  (** the part of [do_wake] after the padding *)
  Definition wake_rest (t : state T C) : state T C :=
    let ff1 := fwd E (bp t) (ff t) in
    let wl1 := store (wl t) 0 (half E) (fun i => zmul E i (ff1 i)) in
    let inp := sample wl1 (half E + 1) in
    let wp1 := store (wp t) 0 N (nthZ (c2r E inp) (t0 E)) in
    let wl2 := store wl1 0 (half E + 1) (nthZ (clobber E inp) (c0 E)) in
    State (bp t) ff1 wl2 wp1 (rb_loop E (buckets E) 0 wp1 (wake t)) (csr t) (csri t).

  Lemma do_wake_rest p s : do_wake E p s = wake_rest (do_pad E p s).
  Proof. reflexivity. Qed.

  Lemma wake_shape padsem cut bl d zi fi b1 b2 r c src p s :
    (forall p s1 s2, steq s1 s2 -> steq (padsem p s1) (padsem p s2)) ->
    (forall p s, steq (padsem p s) (do_pad E p s)) ->
    iv v0 bl = half E ->
    (forall k, 0 <= k < half E -> iv (vset v0 0 k) d = k /\ iv (vset v0 0 k) zi = k /\ iv (vset v0 0 k) fi = k) ->
    iv v0 b1 = nbun E ->
    (forall k, 0 <= k < nbun E -> iv (vset v0 0 k) b2 = n) ->
    (forall k x, 0 <= k < nbun E -> 0 <= x < n ->
       iv (vset (vset v0 0 k) 1 x) r = k /\ iv (vset (vset v0 0 k) 1 x) c = x /\
       iv (vset (vset v0 0 k) 1 x) src = bucket_at k * spc E + x) ->
    steq (exec E kcsr padsem p cut
            [S1 (S0 SCallPad); S1 (S0 SFwd); S1 (SFor1 bl [SLoss d zi fi]); S1 (S0 SInv);
             SFor2 b1 [SFor1 b2 [SReadback r c src]]] s)
         (do_wake E p s).
  Proof.
    intros Hcong Hpad Hbl Hloss Hb1 Hb2 Hrb.
    rewrite do_wake_rest. rewrite exec_cons. cbn [exec2 exec1 exec0].
    eapply steq_trans; [apply exec_cong; [exact Hcong|apply Hpad]|].
    generalize (do_pad E p s). intros t. unfold exec.
    cbn [fold_left exec2 exec1 exec0]. rewrite Hbl, Hb1.
    (* forward transform *)
    set (ff1 := fwd E (bp t) (ff t)).
    set (t1 := State (bp t) ff1 (wl t) (wp t) (wake t) (csr t) (csri t)).
    (* loss loop *)
    set (wl1 := store (wl t) 0 (half E) (fun i => zmul E i (ff1 i))).
    assert (Hloop1 : steq (loopZ (Z.to_nat (half E)) 0 (fun k s0 => exec0s E kcsr padsem p cut (vset v0 0 k) [SLoss d zi fi] s0) t1)
                          (State (bp t) ff1 wl1 (wp t) (wake t) (csr t) (csri t))).
    { eapply steq_trans.
      - apply (loopZ_rel (fun (a : state T C) (w : Z -> C) => steq a (State (bp t) ff1 w (wp t) (wake t) (csr t) (csri t)))
                 (Z.to_nat (half E)) 0 _ (fun x w => upd w (0 + x) (zmul E x (ff1 x))) t1 (wl t)).
        + apply steq_refl.
        + intros j st w Hj Hst. destruct (Hloss j) as (H1 & H2 & H3); [lia|].
          cbn [exec0s fold_left exec0]. rewrite H1, H2, H3. steq_destr Hst. cbn [bp ff wl wp wake csr csri] in *.
          steq_split; auto. apply upd_peq; [auto|]. rewrite Hff. reflexivity.
      - steq_split; auto. rewrite loop_upd_store. unfold wl1, store.
        destruct (inr (0 + 0) (Z.of_nat (Z.to_nat (half E))) i) eqn:H1; destruct (inr 0 (half E) i) eqn:H2;
          inr_cases; try reflexivity; lia. }
    set (L1 := loopZ _ _ _ t1) in *.
    (* inverse transform *)
    set (inp := sample wl1 (half E + 1)).
    set (wp1 := store (wp t) 0 N (nthZ (c2r E inp) (t0 E))).
    set (wl2 := store wl1 0 (half E + 1) (nthZ (clobber E inp) (c0 E))).
    assert (Hinv : steq (State (bp L1) (ff L1) (store (wl L1) 0 (half E + 1) (nthZ (clobber E (sample (wl L1) (half E + 1))) (c0 E)))
                               (store (wp L1) 0 N (nthZ (c2r E (sample (wl L1) (half E + 1))) (t0 E))) (wake L1) (csr L1) (csri L1))
                        (State (bp t) ff1 wl2 wp1 (wake t) (csr t) (csri t))).
    { steq_destr Hloop1. cbn [bp ff wl wp wake csr csri] in *.
      assert (Hs : sample (wl L1) (half E + 1) = inp) by (apply sample_ext; intros; apply Hwl).
      rewrite Hs. steq_split; auto; apply store_peq; auto. }
    set (t3 := State (bp L1) _ _ _ _ _ _) in *.
    (* read-back *)
    unfold wake_rest. fold ff1. fold wl1. fold inp. fold wp1. fold wl2.
    rewrite (rb_loop_loopZ (buckets E) 0 wp1 (wake t) bucket_at).
    2:{ intros j Hj. unfold bucket_at. rewrite Z.add_0_l, Nat2Z.id. reflexivity. }
    unfold nbun. rewrite Nat2Z.id.
    apply (loopZ_rel (fun (a : state T C) (w : Z -> T) => steq a (State (bp t) ff1 wl2 wp1 w (csr t) (csri t)))).
    - exact Hinv.
    - intros k st w Hk Hst. cbn [exec1s fold_left exec1]. rewrite Hb2 by (unfold nbun; lia).
      eapply steq_trans.
      + apply (loopZ_rel (fun (a : state T C) (u : Z -> T) => steq a (State (bp t) ff1 wl2 wp1 u (csr t) (csri t)))
                 (Z.to_nat n) 0 _ (fun x u => upd u (k * n + x) (wscale E (wp1 (bucket_at k * spc E + x)))) st w).
        * exact Hst.
        * intros x a u Hx Ha. destruct (Hrb k x) as (H1 & H2 & H3); [unfold nbun; lia|lia|].
          cbn [exec0s fold_left exec0]. rewrite H1, H2, H3. steq_destr Ha. cbn [bp ff wl wp wake csr csri] in *.
          steq_split; auto. apply upd_peq; [auto|]. rewrite Hwp. reflexivity.
      + steq_split; auto. rewrite loop_upd_store. unfold store.
        destruct (inr (k * n + 0) (Z.of_nat (Z.to_nat n)) i) eqn:H1; destruct (inr (k * n) n i) eqn:H2;
          inr_cases; try reflexivity; lia.
  Qed.

  (** ** updateCSR *)
  Lemma csr_shape padsem cut bnd a len src ln dst z bi r c ax zi fi d r2 c2 p s :
    rz E = true -> 0 <= N ->
    (forall cut i x, kcsr cut i i x = csrcell E cut i x) ->
    iv v0 bnd = nbun E ->
    (forall k, 0 <= k < nbun E ->
       iv (vset v0 0 k) a = 0 /\ iv (vset v0 0 k) len = N /\
       iv (vset v0 0 k) src = k * n /\ iv (vset v0 0 k) ln = n /\ iv (vset v0 0 k) dst = 0 /\
       iv (vset v0 0 k) z = k /\ iv (vset v0 0 k) bi = N) ->
    (forall k i, 0 <= k < nbun E -> 0 <= i < N ->
       let v := vset (vset v0 0 k) 1 i in
       iv v r = k /\ iv v c = i /\ iv v ax = i /\ iv v zi = i /\ iv v fi = i /\ iv v d = k /\ iv v r2 = k /\ iv v c2 = i) ->
    steq (exec E kcsr padsem p cut
            [SFor2 bnd [S0 (SClearBp a len); S0 (SCopyBp src ln dst); S0 SFwd; S0 (SCsrZero z);
                        SFor1 bi [SCsrCell r c ax zi fi; SCsrAcc d r2 c2]]] s)
         (do_csr E cut p s).
  Proof.
    intros Hrz HN Hk Hbnd Hout Hin.
    unfold exec. cbn [fold_left exec2]. rewrite Hbnd.
    unfold do_csr. rewrite csr_loop_loopZ. unfold nbun. rewrite Nat2Z.id.
    apply (loopZ_rel steq); [apply steq_refl|].
    intros k s1 s2 Hkr H12. destruct (Hout k) as (Ha & Hlen & Hsrc & Hln & Hdst & Hz & Hbi); [unfold nbun; lia|].
    cbn [exec1s fold_left exec1 exec0]. rewrite Ha, Hlen, Hsrc, Hln, Hdst, Hz, Hbi.
    cbn [bp ff wl wp wake csr csri].
    steq_destr H12.
    set (bp1 := store (clear E (bp s2)) 0 n (fun x => p (k * n + x))).
    set (ff1 := fwd E bp1 (ff s2)).
    set (row := fun i => csrcell E cut i (ff1 i)).
    (* state before the inner loop *)
    set (u0 := State _ _ _ _ _ _ _).
    assert (Hu0 : steq u0 (State bp1 ff1 (wl s2) (wp s2) (wake s2) (csr s2) (upd (csri s2) k (t0 E)))).
    { unfold u0. steq_split; auto.
      - unfold bp1. apply store_peq; [|reflexivity]. unfold clear. rewrite Hrz. apply store_peq; auto.
      - unfold ff1. apply fwd_peq; [|auto]. intros j. unfold bp1. apply store_peq; [|reflexivity].
        unfold clear. rewrite Hrz. apply store_peq; auto.
      - apply upd_peq; auto. }
    (* invariant of the inner loop *)
    pose (P := fun (m : Z) (u : state T C) =>
      steq u (State bp1 ff1 (wl s2) (wp s2) (wake s2) (store (csr s2) (k * N) m row)
                    (upd (csri s2) k (fold_left (acc E) (sample row m) (t0 E))))).
    assert (HP : P (0 + Z.of_nat (Z.to_nat N))
                   (loopZ (Z.to_nat N) 0 (fun i u => exec0s E kcsr padsem p cut (vset (vset v0 0 k) 1 i) [SCsrCell r c ax zi fi; SCsrAcc d r2 c2] u) u0)).
    { apply (loopZ_inv P).
      - unfold P. eapply steq_trans; [exact Hu0|]. steq_split; auto.
        rewrite store_out by lia. reflexivity.
      - intros i u Hi Hu. unfold P in *.
        destruct (Hin k i) as (H1 & H2 & H3 & H4 & H5 & H6 & H7 & H8); [unfold nbun; lia|lia|].
        cbn [exec0s fold_left exec0]. cbn [bp ff wl wp wake csr csri]. rewrite H1, H2, H3, H4, H5, H6, H7, H8.
        rewrite upd_same. steq_destr Hu. cbn [bp ff wl wp wake csr csri] in *.
        steq_split; auto.
        + (* csr *) unfold upd, store.
          destruct (inr (k * N + i) 1 i0) eqn:Hr1; destruct (inr (k * N) (i + 1) i0) eqn:Hr2; inr_cases; try lia.
          * replace (i0 - k * N) with i by lia. unfold row. rewrite Hk, Hff0. reflexivity.
          * rewrite Hcs0. unfold store. destruct (inr (k * N) i i0) eqn:Hr3; inr_cases; [reflexivity|lia].
          * rewrite Hcs0. unfold store. destruct (inr (k * N) i i0) eqn:Hr3; inr_cases; [lia|reflexivity].
        + (* csri *) destruct (Z.eq_dec i0 k) as [->|Hne].
          * rewrite !upd_same. rewrite Hci0, upd_same. rewrite sample_succ by lia. rewrite fold_left_app. cbn [fold_left].
            f_equal. unfold row. rewrite Hk, Hff0. reflexivity.
          * rewrite !upd_other by exact Hne. rewrite Hci0. rewrite upd_other by exact Hne. reflexivity. }
    unfold P in HP. eapply steq_trans; [exact HP|].
    rewrite Z.add_0_l, Z2Nat.id by exact HN.
    unfold csr_body. fold bp1. fold ff1. fold row. steq_split; auto.
  Qed.
End Shapes.
