(** The generated pieces of makePSFromTXT (Gen_TxtReader) meet what the bounds theorem needs. *)
From Coq Require Import ZArith Bool Lia ZifyBool.
From Inovesa Require Import Model.TxtReader Proofs.TxtReaderP Gen.Gen_TxtReader.
Local Open Scope Z_scope.

Lemma gen_index_plain : index_plain txt_index.
Proof. intros x y. reflexivity. Qed.

(** every particle the generated reader deposits lands inside the 1 x n x n array: either the
    coordinate variables are unsigned and the guard bounds them from above (the code as it is), or
    the guard itself is two-sided *)
Lemma gen_deposit_in_bounds n vx vy i :
  deposit txt_x_kind txt_y_kind txt_guard txt_index n vx vy = Some i -> in_array 1 n i.
Proof.
  first
    [ apply deposit_unsigned_in_bounds;
      [ reflexivity | reflexivity
      | intros x y m; unfold txt_guard; lia
      | exact gen_index_plain ]
    | apply deposit_two_sided_in_bounds;
      [ intros x y m; unfold txt_guard; lia
      | exact gen_index_plain ] ].
Qed.

(** flat offset of the deposit inside the float array of n*n cells *)
Lemma gen_deposit_flat_in_bounds n vx vy b x y :
  0 < n ->
  deposit txt_x_kind txt_y_kind txt_guard txt_index n vx vy = Some (b, x, y) ->
  0 <= (b * n + x) * n + y < 1 * n * n.
Proof.
  intros Hn H. apply gen_deposit_in_bounds in H. cbn [in_array] in H. nia.
Qed.

(** what a signed coordinate variable would do under the same upper-bound-only guard *)
Lemma signed_variant_out_of_bounds :
  exists vx vy i, deposit CS64 CS64 (fun x y n => (x <? n) && (y <? n)) (fun x y => (0, x, y)) 32 vx vy = Some i
                  /\ ~ in_array 1 32 i.
Proof.
  exists (-1), 3, (0, -1, 3). split; [vm_compute; reflexivity|].
  cbn [in_array]. lia.
Qed.
