(** * The derived quantities of main(), as generated from the source (Gen/Gen_Scaling.v): identities the
    properties rely on (C03: angle; C04: e1; C10: time axis; C05/C06: dt, revolutionpart).

    Every statement is over an arbitrary field [K], an arbitrary interpretation [O] of the non-field operations
    (comparisons, sqrt, ...), arbitrary option values [L].  Conditions of the C++ appear as hypotheses on the
    abstract predicates, e.g. [o_lt O 0 (L O_getStepsPerTrev) = false] is "StepsPerRevolution > 0 does not hold".
    Arithmetic goals are closed by [field]/[ring], so re-associated or re-ordered products in main() do not matter. *)
From Coq Require Import List ZArith Bool Field.
From Inovesa Require Import Base.FieldKit Model.ScalingOps Model.RF Model.H5Units Proofs.RFP Gen.Gen_Scaling.
Import ListNotations.
Local Open Scope F_scope.

Section S.
  Variable K : Fld.
  Add Field KFs : (@Fth K).
  Variable O : Ops K.
  Variable L : leaf -> K.
  Variable B : bleaf -> bool.

  Notation steps := (gen_steps K O L B).
  Notation fs := (gen_fs K O L B).
  Notation angle := (gen_angle K O L B).

  Ltac open_gen :=
    unfold gen_angle, gen_steps, gen_fs, gen_slip, gen_e1, gen_dt, gen_revolutionpart, gen_rdtn_revolutionpart,
      gen_t_sync, gen_h5_time, gen_f_rev, gen_h5_f_rev, gen_dynrf_revolutionpart, gen_sinrf_revolutionpart in *;
    cbv zeta in *.

  (** C03: the angle handed to the RF maps (and slip[0]) times the number of steps per synchrotron period is 2 pi *)
  Lemma angle_times_steps : steps <> 0 -> angle * steps = L C_two_pi.
  Proof. intro H. open_gen. field. exact H. Qed.

  (** ... where, unless StepsPerRevolution is given, that number is StepsPerTs (at least 1) *)
  Lemma steps_is_StepsPerTs :
    o_lt O 0 (L O_getStepsPerTrev) = false -> o_lt O (L O_getStepsPerTsync) 1 = false ->
    steps = L O_getStepsPerTsync.
  Proof. intros H1 H2. open_gen. rewrite H1, H2. reflexivity. Qed.

  Lemma steps_clamped :
    o_lt O 0 (L O_getStepsPerTrev) = false -> o_lt O (L O_getStepsPerTsync) 1 = true -> steps = 1.
  Proof. intros H1 H2. open_gen. rewrite H1, H2. reflexivity. Qed.

  (** with StepsPerRevolution: steps per turn times turns per synchrotron period *)
  Lemma steps_from_StepsPerTrev :
    o_lt O 0 (L O_getStepsPerTrev) = true -> fs <> 0 ->
    steps = L O_getStepsPerTrev * gen_f_rev K O L B / fs.
  Proof. intros H1 H2. open_gen. rewrite H1. field. exact H2. Qed.

  Lemma angle_is_two_pi_over_StepsPerTs :
    o_lt O 0 (L O_getStepsPerTrev) = false -> o_lt O (L O_getStepsPerTsync) 1 = false ->
    L O_getStepsPerTsync <> 0 ->
    angle = L C_two_pi / L O_getStepsPerTsync /\ angle * L O_getStepsPerTsync = L C_two_pi.
  Proof.
    intros H1 H2 H3. pose proof (steps_is_StepsPerTs H1 H2) as E.
    assert (A : angle * steps = L C_two_pi) by (apply angle_times_steps; rewrite E; exact H3).
    rewrite E in A. split; [|exact A]. rewrite <- A. field. exact H3.
  Qed.

  (** the drift map's slip factors: the first is the same angle; the others are alpha1/alpha0, alpha2/alpha0 times it *)
  Lemma slip_first : nth 0 (gen_slip K O L B) 0 = angle.
  Proof. open_gen. cbn [nth]. first [reflexivity | field]. Qed.

  Lemma slip_length : length (gen_slip K O L B) = 3%nat.
  Proof. open_gen. reflexivity. Qed.

  Lemma list3_eq (a b c a' b' c' : K) : a = a' -> b = b' -> c = c' -> [a; b; c] = [a'; b'; c'].
  Proof. intros; subst; reflexivity. Qed.

  Lemma slip_alpha0_option :
    o_is0 O (L O_getSyncFreq) = true -> L O_getAlpha0 <> 0 ->
    gen_slip K O L B = [angle; L O_getAlpha1 / L O_getAlpha0 * angle; L O_getAlpha2 / L O_getAlpha0 * angle].
  Proof.
    intros H1 H2. open_gen. rewrite H1.
    apply list3_eq; first [reflexivity | field; exact H2].
  Qed.

  (** alpha1 = alpha2 = 0: the slip vector is [angle; 0; 0] whatever alpha0 is derived from *)
  Lemma slip_linear :
    L O_getAlpha1 = 0 -> L O_getAlpha2 = 0 -> gen_slip K O L B = [angle; 0; 0].
  Proof.
    intros H1 H2. open_gen. rewrite H1, H2.
    assert (Z : forall a b : K, 0 / a * b = 0) by (intros; rewrite (Fdiv_def (@Fth K)); ring).
    apply list3_eq; first [reflexivity | apply Z | field].
  Qed.

  (** ... so the drift offsets of Model/RF.v built from main()'s slip vector are a*(y - yc) with a = angle *)
  Lemma drift_of_main_is_linear (scale1 e0 : K) (n : Z) (mn mx : K) (y : Z) :
    L O_getAlpha1 = 0 -> L O_getAlpha2 = 0 ->
    drift_off (gen_slip K O L B) scale1 e0 (ruler_delta n mn mx) (ruler_at mn (ruler_delta n mn mx) y) =
    drift_off [angle; 0; 0] scale1 e0 (ruler_delta n mn mx) (ruler_at mn (ruler_delta n mn mx) y).
  Proof. intros H1 H2. rewrite (slip_linear H1 H2). reflexivity. Qed.

  Lemma main_slip :
    nth 0 (gen_slip K O L B) 0 = angle /\ length (gen_slip K O L B) = 3%nat /\
    (L O_getAlpha1 = 0 -> L O_getAlpha2 = 0 -> gen_slip K O L B = [angle; 0; 0]) /\
    (o_is0 O (L O_getSyncFreq) = true -> L O_getAlpha0 <> 0 ->
     gen_slip K O L B = [angle; L O_getAlpha1 / L O_getAlpha0 * angle; L O_getAlpha2 / L O_getAlpha0 * angle]).
  Proof.
    split; [apply slip_first|]. split; [apply slip_length|]. split; [apply slip_linear | apply slip_alpha0_option].
  Qed.

  Lemma main_drift_is_linear (scale1 e0 : K) (n : Z) (mn mx : K) (y : Z) :
    L O_getAlpha1 = 0 -> L O_getAlpha2 = 0 -> mn <> mx -> fz (K:=K) (n - 1) <> 0 -> e0 <> 0 ->
    drift_off (gen_slip K O L B) scale1 e0 (ruler_delta n mn mx) (ruler_at mn (ruler_delta n mn mx) y) =
    angle * (fz y - ruler_zerobin n mn mx).
  Proof.
    intros H1 H2 H3 H4 H5.
    rewrite (drift_of_main_is_linear scale1 e0 n mn mx y H1 H2).
    exact (drift_offsets_linear K angle scale1 e0 n mn mx (ruler_delta n mn mx) y H3 H4 H5 eq_refl).
  Qed.

  (** time step and revolution part (C05/C06 scaling, C10 units) *)
  Lemma dt_formula : fs <> 0 -> steps <> 0 -> gen_dt K O L B = 1 / (fs * steps).
  Proof. intros H1 H2. open_gen. field. split; assumption. Qed.

  Lemma revolutionpart_formula :
    gen_revolutionpart K O L B = gen_f_rev K O L B * gen_dt K O L B /\
    gen_rdtn_revolutionpart K O L B = gen_revolutionpart K O L B /\
    gen_dynrf_revolutionpart K O L B = gen_revolutionpart K O L B /\
    gen_sinrf_revolutionpart K O L B = gen_revolutionpart K O L B.
  Proof. unfold gen_dt. open_gen. repeat split; first [reflexivity | ring]. Qed.

  Lemma t_sync_formula : fs <> 0 -> gen_t_sync K O L B * fs = 1 /\ gen_h5_f_rev K O L B = gen_f_rev K O L B.
  Proof. intros H. open_gen. split; [field; exact H | reflexivity]. Qed.

  Lemma fs_is_SyncFreq : o_is0 O (L O_getSyncFreq) = false -> fs = L O_getSyncFreq.
  Proof. intros H. open_gen. rewrite H. reflexivity. Qed.

  (** one step advances the phase by 2 pi dt / t_sync: all four are what main() hands to its callees *)
  Lemma angle_dt_t_sync : fs <> 0 -> steps <> 0 -> angle * gen_t_sync K O L B = L C_two_pi * gen_dt K O L B.
  Proof. intros H1 H2. open_gen. field. split; assumption. Qed.

  (** C10: the time stored with a record is step/steps: in units of synchrotron periods *)
  Lemma h5_time_formula :
    steps <> 0 ->
    gen_h5_time K O L B * steps = L S_simulationstep /\
    gen_h5_time K O L B * L C_two_pi = L S_simulationstep * angle.
  Proof. intros H. open_gen. split; field; exact H. Qed.

  Lemma h5_unit_inputs :
    fs <> 0 -> steps <> 0 ->
    gen_t_sync K O L B = t_sync K fs /\ gen_h5_f_rev K O L B = gen_f_rev K O L B /\
    gen_dt K O L B = dt K fs steps /\
    gen_revolutionpart K O L B = revolutionpart K (gen_f_rev K O L B) fs steps /\
    gen_rdtn_revolutionpart K O L B = gen_revolutionpart K O L B.
  Proof.
    intros H1 H2. unfold t_sync, revolutionpart, dt.
    destruct revolutionpart_formula as [R1 [R2 _]]. rewrite R2, R1, (dt_formula H1 H2).
    repeat split; try reflexivity;
      first [ destruct (t_sync_formula H1) as [_ E]; exact E | open_gen; field; repeat split; assumption ].
  Qed.

  (** C04: the Fokker-Planck decrement.  t_damp is the DampingTime option when that is not negative. *)
  Lemma e1_formula :
    o_lt O (L O_getDampingTime) 0 = false -> o_lt O 0 (L O_getDampingTime) = true ->
    fs <> 0 -> steps <> 0 -> L O_getDampingTime <> 0 ->
    gen_e1 K O L B = two / (fs * L O_getDampingTime * steps).
  Proof.
    intros H1 H2 H3 H4 H5. open_gen. rewrite H1, H2. unfold two.
    field; repeat split; assumption.
  Qed.

  Lemma e1_off :
    o_lt O (L O_getDampingTime) 0 = false -> o_lt O 0 (L O_getDampingTime) = false -> gen_e1 K O L B = 0.
  Proof. intros H1 H2. open_gen. rewrite H1, H2. reflexivity. Qed.

  (** the statement of the property text, in the options: e1 = 2/(f_s * t_d * steps) *)
  Lemma e1_in_options :
    o_lt O (L O_getDampingTime) 0 = false -> o_lt O 0 (L O_getDampingTime) = true ->
    o_is0 O (L O_getSyncFreq) = false ->
    o_lt O 0 (L O_getStepsPerTrev) = false -> o_lt O (L O_getStepsPerTsync) 1 = false ->
    L O_getSyncFreq <> 0 -> L O_getStepsPerTsync <> 0 -> L O_getDampingTime <> 0 ->
    gen_e1 K O L B = two / (L O_getSyncFreq * L O_getDampingTime * L O_getStepsPerTsync).
  Proof.
    intros H1 H2 H3 H4 H5 H6 H7 H8.
    pose proof (fs_is_SyncFreq H3) as Ef. pose proof (steps_is_StepsPerTs H4 H5) as Es.
    assert (A : fs <> 0) by (rewrite Ef; exact H6). assert (A2 : steps <> 0) by (rewrite Es; exact H7).
    rewrite (e1_formula H1 H2 A A2 H8), Ef, Es. reflexivity.
  Qed.
End S.
