(** * C04: the grid model's second moments (exact rationals) read as real numbers: the embedding Qc -> R commutes
    with the recurrence, so the order statements of CoupledR.v (contraction, convergence) hold for the moments
    of the grid model itself, as long as the distribution stays inside. *)
From Coq Require Import List ZArith QArith Qcanon Reals Qreals Lra Lia.
From Inovesa Require Import Base.FieldKit Base.RInst Gen.Gen_FPStencil Model.Moments2 Model.Moments2Fix
  Proofs.WeightsP Proofs.RFGridP Proofs.StepMoments2P Proofs.CoupledP Proofs.CoupledR.
Local Open Scope R_scope.

Definition phi (q : Qc) : R := Q2R (this q).

Lemma phi_add a b : phi (a + b)%Qc = phi a + phi b.
Proof. unfold phi, Qcplus, Q2Qc; cbn [this]. rewrite (Qeq_eqR _ _ (Qred_correct _)). apply Q2R_plus. Qed.
Lemma phi_mul a b : phi (a * b)%Qc = phi a * phi b.
Proof. unfold phi, Qcmult, Q2Qc; cbn [this]. rewrite (Qeq_eqR _ _ (Qred_correct _)). apply Q2R_mult. Qed.
Lemma phi_opp a : phi (- a)%Qc = - phi a.
Proof. unfold phi, Qcopp, Q2Qc; cbn [this]. rewrite (Qeq_eqR _ _ (Qred_correct _)). apply Q2R_opp. Qed.
Lemma phi_sub a b : phi (a - b)%Qc = phi a - phi b.
Proof. unfold Qcminus. rewrite phi_add, phi_opp. reflexivity. Qed.
Lemma phi_0 : phi 0%Qc = 0. Proof. unfold phi. cbn. unfold Q2R. cbn. lra. Qed.
Lemma phi_1 : phi 1%Qc = 1. Proof. unfold phi. cbn. unfold Q2R. cbn. lra. Qed.
Lemma phi_nz a : a <> 0%Qc -> phi a <> 0.
Proof.
  intros H E. apply H. apply Qc_is_canon. change (this 0%Qc) with 0%Q.
  apply eqR_Qeq. unfold phi in E. rewrite E. unfold Q2R. cbn. lra.
Qed.
Lemma phi_inv a : a <> 0%Qc -> phi (/ a)%Qc = / phi a.
Proof.
  intros H. unfold phi, Qcinv, Q2Qc; cbn [this]. rewrite (Qeq_eqR _ _ (Qred_correct _)). apply Q2R_inv.
  intro E. apply H. apply Qc_is_canon. exact E.
Qed.
Lemma phi_div a b : b <> 0%Qc -> phi (a / b)%Qc = phi a / phi b.
Proof. intros H. unfold Qcdiv. rewrite phi_mul, phi_inv by exact H. reflexivity. Qed.

Lemma phi_le a b : (a <= b)%Qc -> phi a <= phi b.
Proof. intros H. unfold phi. apply Qle_Rle. exact H. Qed.
Lemma phi_lt a b : (a < b)%Qc -> phi a < phi b.
Proof. intros H. unfold phi. apply Qlt_Rlt. exact H. Qed.

Definition mapm (m : mom2 QcF) : mom2 RF := mkMom2 (K:=RF) (phi (muu m)) (phi (muv m)) (phi (mvv m)) (phi (m0 m)).

Ltac qunf := cbv [fadd fmul fsub fopp fdiv finv f0 f1 car QcF RF two opt] in *.

Lemma sm_step_phi v a t e d (m : mom2 QcF) : d <> 0%Qc ->
  mapm (sm_step (K:=QcF) v a t e d m) = sm_step (K:=RF) v (phi a) (phi t) (phi e) (phi d) (mapm m).
Proof.
  intros Hd. assert (Hdd : (d * d)%Qc <> 0%Qc) by (intro Z; apply Qcmult_integral in Z; destruct Z; contradiction).
  unfold sm_step, sm_fp, sm_drift, sm_rf, mapm. cbn [muu muv mvv m0].
  destruct (has_damp v), (has_diff v); qunf;
    repeat (rewrite ?phi_add, ?phi_sub, ?phi_mul, ?phi_opp, ?phi_0, ?phi_1, ?(phi_div _ _ Hdd)); reflexivity.
Qed.

Lemma sm_iter_phi k v a t e d (m : mom2 QcF) : d <> 0%Qc ->
  mapm (sm_iter (K:=QcF) k v a t e d m) = sm_iter (K:=RF) k v (phi a) (phi t) (phi e) (phi d) (mapm m).
Proof.
  intros Hd. revert m. induction k as [|k IH]; intros m; cbn [sm_iter]; [reflexivity|].
  rewrite IH, sm_step_phi by exact Hd. reflexivity.
Qed.

(** ** the grid model: k full steps contract the deviation of the bunch's second moments from the fixed point *)
Section GridR.
  Local Open Scope Z_scope.
  Variables (n nb it : Z).
  Hypothesis Hv : valid_it it.
  Hypothesis H3 : 3 <= it.
  Hypothesis Hn : 2 <= n < 2 ^ 30.
  Hypothesis Hnb : 0 < nb.
  Variables (xc yc t a : Qc).
  Variables (orf odr : Z -> Qc).
  Variables (e1 delta : Qc) (p : Z -> Qc) (v le m : Z).
  Hypothesis Hrf : forall b x, 0 <= b < nb -> 0 <= x < n ->
      eff_off n (orf (Z.min b (nb - 1) * n + x)) = (t * (xc - qz x))%Qc.
  Hypothesis Hdr : forall y, 0 <= y < n -> eff_off n (odr y) = (a * (qz y - yc))%Qc.
  Hypothesis Hp : forall j, p j = (delta * (qz j - yc))%Qc.
  Hypothesis Hd : delta <> 0%Qc.
  Hypothesis Hdamp : has_damp v = true.
  Hypothesis Hdom : dom_ud (phi a) (phi t) (phi e1).

  Notation Dk := (fun k D => iter_full n nb it orf odr e1 delta p v le m k D).
  Notation devR := (fun mm => dev (K:=RF) v (phi a) (phi t) (phi e1) (phi delta) mm).
  Notation NR := (Nm (K:=RF) (phi a) (phi t) (phi e1)).

  Theorem grid_deviation_contracts D b (k : nat) :
    0 <= b < nb -> (forall j, (j < k)%nat -> full_ok n nb it orf odr (Dk j D) b) ->
    (NR (devR (mapm (gm2 n xc yc (Dk k D) b)))
     <= (rho (K:=RF) (phi a) (phi t) (phi e1) * rho (K:=RF) (phi a) (phi t) (phi e1)) ^ k
        * NR (devR (mapm (gm2 n xc yc D b))))%R.
  Proof.
    cbv beta. intros Hb Hok. assert (H2 : 2 <= it) by lia.
    rewrite (iter_full_moments n nb it Hv H2 Hn Hnb xc yc t a orf odr e1 delta p v le m Hrf Hdr Hp Hd D b k H3 Hb Hok).
    rewrite sm_iter_phi by exact Hd.
    apply (deviation_contracts v (phi a) (phi t) (phi e1) (phi delta) Hdamp Hdom (phi_nz delta Hd) k).
  Qed.
End GridR.
