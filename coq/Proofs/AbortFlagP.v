(** Consequences of the checker of Model/AbortFlag.v, for every list it accepts. *)
From Coq Require Import List ZArith String Bool.
From Inovesa Require Import Model.AbortFlag.
Import ListNotations.
Local Open Scope string_scope.

Section A.
  Variables (sites : list asite) (refs : list (Z * bool * bool)).
  Hypothesis OK : abort_ok sites refs = true.

  Lemma all_sites_ok s : In s sites -> site_ok s = true.
  Proof.
    intros Hin. unfold abort_ok in OK.
    apply andb_true_iff in OK. destruct OK as [H _].
    apply andb_true_iff in H. destruct H as [H _].
    apply andb_true_iff in H. destruct H as [H _].
    rewrite forallb_forall in H. exact (H s Hin).
  Qed.

  (** the flag is read only by main(): its loop condition and an `if` after the loop *)
  Theorem reads_only_in_main s :
    In s sites -> a_kind s = KRead ->
    a_file s = main_file /\ (a_where s = WLoopCond \/ a_where s = WIfCond true).
  Proof.
    intros Hin Hk. pose proof (all_sites_ok s Hin) as H. unfold site_ok in H. rewrite Hk in H.
    apply andb_true_iff in H. destruct H as [Hf Hw].
    destruct (a_where s) as [|[|]| | | |] eqn:E; try discriminate Hw; unfold in_main in Hf; rewrite E in Hf; cbn in Hf;
      apply String.eqb_eq in Hf; (split; [exact Hf|tauto]).
  Qed.

  (** it is written only as `= true`, by the signal handler, by a catch block of main(), or by code of the graphical front end *)
  Theorem writes_only_set s :
    In s sites -> is_write (a_kind s) = true ->
    a_kind s = KWriteTrue /\ (a_where s = WSigHandler \/ a_where s = WCatch \/ gui_only s = true).
  Proof.
    intros Hin Hk. pose proof (all_sites_ok s Hin) as H. unfold site_ok in H.
    apply andb_true_iff in H. destruct H as [_ Hw].
    destruct (a_kind s); try discriminate Hk; try discriminate Hw.
    split; [reflexivity|]. destruct (a_where s); try (right; right; exact Hw); tauto.
  Qed.

  (** every definition of the flag initialises it with `false`, and there is one *)
  Theorem starts_false :
    (forall s b, In s sites -> a_kind s = KDef b -> b = true) /\ (exists s, In s sites /\ a_kind s = KDef true).
  Proof.
    split.
    - intros s b Hin Hk. pose proof (all_sites_ok s Hin) as H. unfold site_ok in H. rewrite Hk in H.
      apply andb_true_iff in H. tauto.
    - unfold abort_ok in OK. apply andb_true_iff in OK. destruct OK as [H _].
      apply andb_true_iff in H. destruct H as [_ H]. apply existsb_exists in H. destruct H as (s & Hin & Hs).
      exists s. split; [exact Hin|]. destruct (a_kind s) as [| |[|]| | | |]; try discriminate Hs. reflexivity.
  Qed.

  Theorem loop_reads_flag : exists s, In s sites /\ a_kind s = KRead /\ a_where s = WLoopCond.
  Proof.
    unfold abort_ok in OK. apply andb_true_iff in OK. destruct OK as [H _].
    apply andb_true_iff in H. destruct H as [H _].
    apply andb_true_iff in H. destruct H as [_ H]. apply existsb_exists in H. destruct H as (s & Hin & Hs).
    exists s. split; [exact Hin|]. unfold is_loop_read in Hs.
    destruct (a_kind s); try discriminate Hs. destruct (a_where s); try discriminate Hs. tauto.
  Qed.
End A.
