(** Per-run obligation of the append-overload checker (Model/H5Append.v) on the bodies generated from the sources of this
    run (Gen/Gen_H5Append.v), and what `_appendData` itself does to the extent (Gen/Gen_H5Index.v). *)
From Coq Require Import List ZArith String Bool.
From Inovesa Require Import Base.FieldKit Model.Records Model.H5Slab Model.H5Append Gen.Gen_H5Append Gen.Gen_H5Index Proofs.H5AppendP.
Import ListNotations.
Local Open Scope Z_scope.

Lemma main_appends_checked :
  appends_ok gen_body_ps gen_body_ef gen_body_wake gen_body_tracks gen_body_padded gen_body_rfkicks = true.
Proof. vm_compute. reflexivity. Qed.

(** one `_appendData(ds, data, size)` call: the extent handed to extend() and ds.dims afterwards are the old extent with
    [size] more records, the block written starts at the old end and holds [size] records; extend, getSpace, select, write
    in this order *)
Lemma append_data_grows_by_size (dims : list Z) (size : Z) :
  gen_ad_extent dims size = (hd 0 dims + size) :: tl dims /\
  gen_ad_dims_after dims size = (hd 0 dims + size) :: tl dims /\
  hd 0 (gen_ad_start dims size) = hd 0 dims /\
  hd 0 (gen_ad_count dims size) = size /\
  gen_ad_order_ok = true.
Proof. repeat split. Qed.
