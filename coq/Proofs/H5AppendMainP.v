(** Per-run obligation of the append-overload checker (Model/H5Append.v) on the bodies generated from the sources of this
    run (Gen/Gen_H5Append.v). *)
From Coq Require Import List ZArith String Bool.
From Inovesa Require Import Base.FieldKit Model.Records Model.H5Append Gen.Gen_H5Append Proofs.H5AppendP.
Import ListNotations.
Local Open Scope Z_scope.

Lemma main_appends_checked :
  appends_ok gen_body_ps gen_body_ef gen_body_wake gen_body_tracks gen_body_padded gen_body_rfkicks = true.
Proof. vm_compute. reflexivity. Qed.

(** the `_appendData` template is a straight line: extend once, then write once *)
Lemma main_appenddata_checked : appenddata_ok gen_appenddata_shape = true.
Proof. vm_compute. reflexivity. Qed.
