(** Statements of Props/Properties_C11.v assembled from RecordsP/RestartP. *)
From Coq Require Import List ZArith QArith Qcanon Bool Lia.
From Inovesa Require Import Base.FieldKit Model.Records Model.Restart Proofs.RecordsP Proofs.RestartP.
Import ListNotations.
Local Open Scope Z_scope.

Lemma read_back_exact_c11 :
  forall (A : Type) (d : A) (recs : list (list A)) n step,
    0 < n -> recs <> [] -> (forall x, In x recs -> Z.of_nat (length x) = n * n) ->
    let len := Z.of_nat (length recs) in
    read_ps d (@PSset A [len; 1; n; n] (concat recs)) step
    = Some (n, nth (Z.to_nat (use_step len step)) recs []).
Proof. intros A. exact (@read_back A). Qed.

Lemma chosen_record_c11 :
  forall len step, 0 < len < 2 ^ 63 ->
    (use_step len (-1) = len - 1) /\
    (0 <= step < len -> use_step len step = step) /\
    (- len <= step < 0 -> use_step len step = len + step).
Proof.
  intros len step H. assert (2 ^ 63 + 2 ^ 63 = 2 ^ 64) by reflexivity. repeat split.
  - apply use_step_default. lia.
  - intros Hs. apply use_step_nonneg; lia.
  - intros Hs. apply use_step_negative; lia.
Qed.

Lemma unusable_start_refused_c11 :
  forall (A : Type) (d : A) (f : startfile A) step, unusable f -> read_ps d f step = None.
Proof. intros A. exact (@unusable_refused A). Qed.

Lemma accepted_start_c11 :
  forall (A : Type) (d : A) (f : startfile A) step n (g : list A), read_ps d f step = Some (n, g) ->
    exists dims data, f = @PSset A dims data /\ 0 < n /\ Z.of_nat (length g) = n * n /\
      (dims = [hd 0 dims; n; nth 2 dims 0] \/ dims = [hd 0 dims; 1; n; nth 3 dims 0]).
Proof. intros A. exact (@accepted_is_single_bunch A). Qed.

Section Kernels.
  Variables G P F : Type.
  Variable projX : G -> P.
  Variable integ : P -> F.
  Variable normW : F -> G -> G.
  Variable maps : P -> G -> G.

  Lemma caches_refreshed_c11 : forall r (s : pst G P F),
    let s' := prepare G P F projX integ normW r s in
    xproj _ _ _ s' = projX (grid _ _ _ s') /\ fill _ _ _ s' = integ (projX (grid _ _ _ s')).
  Proof. intros r s. exact (prepare_inv G P F projX integ normW r s). Qed.

  Lemma start_state_c11 : forall r g p0 f0,
    grid _ _ _ (prepare G P F projX integ normW r (loaded G P F g p0 f0))
    = if 0 <=? r then snorm G F normW f0 g else g.
  Proof. exact (start_state G P F projX integ normW). Qed.

  Lemma continuation_equiv_c11 : forall r n1 n2 (s0 : pst G P F) p0 f0,
    0 <= n1 -> 0 <= n2 ->
    r < 0 \/
    (0 < r /\ (r | n1) /\
     (forall g, norm G P F projX integ normW (norm G P F projX integ normW g) = norm G P F projX integ normW g) /\
     (forall g, norm G P F projX integ normW (snorm G F normW f0 g) = norm G P F projX integ normW g) /\
     (forall g x, maps (projX (snorm G F normW f0 g)) x = maps (projX g) x) /\
     (forall g x, maps (projX (norm G P F projX integ normW g)) x = maps (projX g) x)) ->
    continued G P F projX integ normW maps r n1 n2 s0 p0 f0
    = single G P F projX integ normW maps r (n1 + n2) s0.
  Proof.
    intros r n1 n2 s0 p0 f0 H1 H2 [Hr | [Hr [Hd [Hi [Hs [Hw1 Hw2]]]]]].
    - apply continuation_noren; assumption.
    - apply continuation_renorm; assumption.
  Qed.

  Lemma continuation_renorm0_c11 : forall n1 n2 (s0 : pst G P F) p0 f0, 0 <= n1 -> 0 <= n2 ->
    let gK := grid _ _ _ (run_from G P F projX integ normW maps 0 n1 s0) in
    let fresh g := mkPst G P F g (projX g) (integ (projX g)) in
    single G P F projX integ normW maps 0 (n1 + n2) s0
      = grid _ _ _ (iter G P F projX integ normW maps 0 (Z.to_nat n2) 0 (fresh gK)) /\
    continued G P F projX integ normW maps 0 n1 n2 s0 p0 f0
      = grid _ _ _ (iter G P F projX integ normW maps 0 (Z.to_nat n2) 0 (fresh (snorm G F normW f0 gK))) /\
    (snorm G F normW f0 gK = gK ->
     continued G P F projX integ normW maps 0 n1 n2 s0 p0 f0 = single G P F projX integ normW maps 0 (n1 + n2) s0).
  Proof.
    intros n1 n2 s0 p0 f0 H1 H2 gK fresh.
    destruct (continuation_renorm0 G P F projX integ normW maps n1 n2 s0 p0 f0 H1 H2) as [A B].
    split; [exact A|]. split; [exact B|]. intros E.
    apply continuation_renorm0_fix; assumption.
  Qed.
End Kernels.

(** the divisibility hypothesis is needed: a lossy map (halves the charge each step), exact
    normalisation to 1, renormalize = 2, split after 1 step, 2 more steps *)
Definition toy_maps (p g : Qc) : Qc := (g / Q2Qc 2)%Qc.
Definition toy_normW (f g : Qc) : Qc := (g / f)%Qc.
Lemma continuation_nondividing_refuted_c11 :
  exists r n1 n2 (s0 : pst Qc Qc Qc) p0 f0,
    0 < r /\ ~ (r | n1) /\
    continued Qc Qc Qc (fun g => g) (fun p => p) toy_normW toy_maps r n1 n2 s0 p0 f0
    <> single Qc Qc Qc (fun g => g) (fun p => p) toy_normW toy_maps r (n1 + n2) s0.
Proof.
  exists 2, 1, 2, (mkPst Qc Qc Qc (Q2Qc 1) (Q2Qc 1) (Q2Qc 1)), (Q2Qc 1), (Q2Qc 1).
  split; [lia|]. split.
  - intros [q Hq]. lia.
  - vm_compute. intros H. discriminate H.
Qed.
