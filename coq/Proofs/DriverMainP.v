(** Per-run obligations: the boolean checkers of Proofs/DriverP.v evaluated on the program
    generated from src/main.cpp (proof by reflection; re-checked whenever main() changes). *)
From Coq Require Import List ZArith Bool.
From Inovesa Require Import Model.Driver Model.Setup Gen.Gen_MainLoop Proofs.DriverP Proofs.DriverRFP Proofs.DriverFreeP Proofs.SetupP.
Import ListNotations.

Lemma main_cadence_checked : cadence_checker main_prog = true.
Proof. vm_compute. reflexivity. Qed.

Lemma main_renorm_checked : renorm_checker main_prog = true.
Proof. vm_compute. reflexivity. Qed.

Definition main_out_block : blk :=
  match out_block_of main_body with Some b => b | None => Done end.

Lemma main_out_block_found : out_block_of (p_body main_prog) = Some main_out_block.
Proof. vm_compute. reflexivity. Qed.

Lemma main_out_block_obs : obs_blk main_out_block = true.
Proof. vm_compute. reflexivity. Qed.


Lemma main_abort_checked : abort_checker main_prog = true.
Proof. vm_compute. reflexivity. Qed.

Lemma main_step_checked : step_checker main_prog = true.
Proof. vm_compute. reflexivity. Qed.

Lemma main_records_checked : records_checker main_prog = true.
Proof. vm_compute. reflexivity. Qed.

Definition main_split := match split_out main_body with Some x => x | None => (Done, Done, Done, Done) end.
Lemma main_split_found : split_out (p_body main_prog) = Some main_split.
Proof. vm_compute. reflexivity. Qed.

(** C19: the RF map is applied exactly once per loop iteration, at top level, and nowhere else;
    the final block (with a results file and a dynamic map) ends with the past list flushed *)
Lemma main_rf_checked : rf_checker main_prog = true.
Proof. vm_compute. reflexivity. Qed.

(** the `delete` statements: nothing is freed before the final block, and in the final block no
    call goes through an object after its `delete` *)
Lemma main_free_checked : free_checker main_prog = true.
Proof. vm_compute. reflexivity. Qed.

(** the set-up skeleton: no condition reads the flag, the only driver calls are hook points and
    the initial renormalisation, `Display::abort = true` only in an exception handler *)
Lemma main_setup_checked : su_ok main_setup = true.
Proof. vm_compute. reflexivity. Qed.

(** every `return` of the set-up returns EXIT_SUCCESS or EXIT_FAILURE *)
Lemma main_setup_returns : forallb (fun z => (z =? 0)%Z || (z =? 1)%Z) (returns main_setup) = true.
Proof. vm_compute. reflexivity. Qed.
