(** * The string branch of save() as generated (Gen_Options.gen_string_line) against boost's config-file
      reader (Model/CfgText.v).  C13. *)
From Coq Require Import List Ascii String Bool.
From Inovesa Require Import Model.OptionsTypes Model.CfgText Proofs.CfgTextP Gen.Gen_Options.
Import ListNotations.

(** the generated chain is `ofs << it->first << '=' << val << std::endl` *)
Lemma gen_string_line_plain : gen_string_line = plain_string_line.
Proof. reflexivity. Qed.

(** every string option of the generated table has a name a line can start with *)
Definition string_names_ok (T : list opt) : bool :=
  forallb (fun o => match o_ty o with TString => name_ok (text_of_string (o_name o)) | _ => true end) T.

Lemma gen_string_names_ok : string_names_ok gen_table = true.
Proof. vm_compute. reflexivity. Qed.

Lemma string_names_ok_sound T : string_names_ok T = true ->
  forall o, In o T -> o_ty o = TString -> name_ok (text_of_string (o_name o)) = true.
Proof.
  unfold string_names_ok. intros H o Ho Ht. rewrite forallb_forall in H. specialize (H o Ho). rewrite Ht in H. exact H.
Qed.

Theorem saved_string_line_reread_thm :
  (forall o, In o gen_table -> o_ty o = TString -> name_ok (text_of_string (o_name o)) = true) /\
  (forall n v, name_ok n = true -> cfg_representable v = true ->
     read_text (write_pieces gen_string_line n v) = [LOption n v] /\ reread gen_string_line n v = Some [(n, v)]).
Proof.
  split; [exact (string_names_ok_sound gen_table gen_string_names_ok)|].
  intros n v Hn Hv. rewrite gen_string_line_plain. exact (plain_line_reread n v Hn Hv).
Qed.

(** values a line cannot hold come back changed: a '#' starts a comment, white space at either end is trimmed,
    a line feed starts another line (which the reader takes for another option, or refuses) *)
Local Open Scope string_scope.
Definition T (s : string) : text := text_of_string s.

(** witnesses with control characters (Props files do not import Ascii): "t<TAB>", "a.h5<LF>GridSize=7", "a.h5<LF>x" *)
Definition w_tab : string := String "t" (String "009" EmptyString).
Definition w_lf_option : string := "a.h5" ++ String "010" "GridSize=7".
Definition w_lf_junk : string := "a.h5" ++ String "010" "x".

Theorem saved_string_roundtrip_refuted_thm :
  reread gen_string_line (T "output") (T "run#3.h5") = Some [(T "output", T "run")] /\
  reread gen_string_line (T "output") (T " a.h5") = Some [(T "output", T "a.h5")] /\
  reread gen_string_line (T "tracking") (T w_tab) = Some [(T "tracking", T "t")] /\
  reread gen_string_line (T "output") (T w_lf_option) = Some [(T "output", T "a.h5"); (T "GridSize", T "7")] /\
  reread gen_string_line (T "output") (T w_lf_junk) = None.
Proof. vm_compute. repeat split; reflexivity. Qed.

(** what is NOT lost: inner blanks and tabs, quotes, backslashes, '=', the empty string *)
Example representable_examples :
  forallb (fun s => cfg_representable (T s))
          ["scan 01/run.h5"; "a = b"; """q"""; "back\slash"; ""; "x" ++ String "009" "y"; "a  b   c"] = true /\
  forallb (fun s => negb (cfg_representable (T s))) ["run#3"; " x"; "x "; String "009" "x"; "x" ++ String "010" ""] = true.
Proof. vm_compute. split; reflexivity. Qed.
