(** * Proofs about the text of a configuration file (Model/CfgText.v): a string value that a line can hold
      (no '#', no line feed, no white space at either end) written as `name=value<LF>` is read back as
      exactly (name, value) by boost's config-file reader.  C13. *)
From Coq Require Import List Ascii String Bool Arith Lia.
From Inovesa Require Import Model.CfgText.
Import ListNotations.
Local Open Scope char_scope.

Lemma name_char_plain c : name_char c = true ->
  is_ws c = false /\ is_hash c = false /\ is_eq c = false /\ is_nl c = false /\ Ascii.eqb c "[" = false.
Proof.
  destruct c as [[] [] [] [] [] [] [] []]; vm_compute; intro H; try discriminate H; repeat split; reflexivity.
Qed.

Lemma cut_at_none p l : forallb (fun c => negb (p c)) l = true -> cut_at p l = l.
Proof.
  induction l as [|c r IH]; cbn; [reflexivity|]. intro H. apply andb_true_iff in H. destruct H as [Hc Hr].
  destruct (p c); [discriminate Hc|]. rewrite IH by exact Hr. reflexivity.
Qed.

Lemma cut_after_app p n e v : forallb (fun c => negb (p c)) n = true -> p e = true ->
  cut_at p (n ++ e :: v) = n /\ after p (n ++ e :: v) = Some v.
Proof.
  induction n as [|c r IH]; cbn; intros Hn He.
  - rewrite He. split; reflexivity.
  - apply andb_true_iff in Hn. destruct Hn as [Hc Hr]. destruct (p c); [discriminate Hc|].
    destruct (IH Hr He) as [A B]. rewrite A, B. split; reflexivity.
Qed.

Lemma getlines_one l : forall cur r, forallb (fun c => negb (is_nl c)) l = true ->
  getlines (l ++ nl :: r) cur = (rev cur ++ l) :: getlines r [].
Proof.
  induction l as [|c t IH]; cbn [app getlines]; intros cur r H.
  - replace (is_nl nl) with true by reflexivity. rewrite app_nil_r. reflexivity.
  - cbn in H. apply andb_true_iff in H. destruct H as [Hc Ht]. destruct (is_nl c); [discriminate Hc|].
    rewrite IH by exact Ht. cbn [rev]. rewrite <- app_assoc. reflexivity.
Qed.

Lemma drop_ws_edge s : edge_ok s = true -> drop_ws s = s.
Proof. destruct s as [|c r]; cbn; [reflexivity|]. destruct (is_ws c); [discriminate|reflexivity]. Qed.

Lemma trim_ws_id s : edge_ok s = true -> edge_ok (rev s) = true -> trim_ws s = s.
Proof. intros A B. unfold trim_ws. rewrite (drop_ws_edge s A), (drop_ws_edge (rev s) B). apply rev_involutive. Qed.

Lemma forallb_app_true {A} (f : A -> bool) l1 l2 : forallb f (l1 ++ l2) = true <-> forallb f l1 = true /\ forallb f l2 = true.
Proof. rewrite forallb_app. apply andb_true_iff. Qed.

Lemma name_ok_facts n : name_ok n = true ->
  n <> [] /\ forallb name_char n = true /\ edge_ok n = true /\ edge_ok (rev n) = true.
Proof.
  unfold name_ok. destruct n as [|c r]; [discriminate|]. intro H. split; [discriminate|]. split; [exact H|].
  split.
  - cbn. cbn in H. apply andb_true_iff in H. destruct H as [Hc _]. destruct (name_char_plain c Hc) as [W _]. rewrite W. reflexivity.
  - assert (R : forallb name_char (rev (c :: r)) = true).
    { apply forallb_forall. intros x Hx. apply in_rev in Hx. rewrite forallb_forall in H. exact (H x Hx). }
    destruct (rev (c :: r)) as [|d t]; [reflexivity|]. cbn. cbn in R. apply andb_true_iff in R. destruct R as [Hd _].
    destruct (name_char_plain d Hd) as [W _]. rewrite W. reflexivity.
Qed.

Lemma forallb_weaken {A} (f g : A -> bool) l : (forall x, f x = true -> g x = true) -> forallb f l = true -> forallb g l = true.
Proof. intros I H. apply forallb_forall. intros x Hx. apply I. rewrite forallb_forall in H. exact (H x Hx). Qed.

Theorem plain_line_reread n v : name_ok n = true -> cfg_representable v = true ->
  read_text (write_pieces plain_string_line n v) = [LOption n v] /\
  reread plain_string_line n v = Some [(n, v)].
Proof.
  intros Hn Hv.
  destruct (name_ok_facts n Hn) as [Nne [Nch [Ne1 Ne2]]].
  unfold cfg_representable in Hv. apply andb_true_iff in Hv. destruct Hv as [Hv Ve2]. apply andb_true_iff in Hv. destruct Hv as [Vch Ve1].
  assert (Vnohash : forallb (fun c => negb (is_hash c)) v = true).
  { revert Vch. apply forallb_weaken. intros x H. apply andb_true_iff in H. exact (proj1 H). }
  assert (Vnonl : forallb (fun c => negb (is_nl c)) v = true).
  { revert Vch. apply forallb_weaken. intros x H. apply andb_true_iff in H. exact (proj2 H). }
  assert (Nnohash : forallb (fun c => negb (is_hash c)) n = true).
  { revert Nch. apply forallb_weaken. intros x H. destruct (name_char_plain x H) as [_ [A _]]. rewrite A. reflexivity. }
  assert (Nnonl : forallb (fun c => negb (is_nl c)) n = true).
  { revert Nch. apply forallb_weaken. intros x H. destruct (name_char_plain x H) as [_ [_ [_ [A _]]]]. rewrite A. reflexivity. }
  assert (Nnoeq : forallb (fun c => negb (is_eq c)) n = true).
  { revert Nch. apply forallb_weaken. intros x H. destruct (name_char_plain x H) as [_ [_ [A _]]]. rewrite A. reflexivity. }
  set (ln := n ++ "=" :: v).
  assert (W : write_pieces plain_string_line n v = ln ++ nl :: []).
  { unfold write_pieces, plain_string_line, ln. cbn [flat_map]. rewrite app_nil_r. rewrite <- app_assoc. cbn [app]. reflexivity. }
  assert (G : getlines (write_pieces plain_string_line n v) [] = [ln]).
  { rewrite W. rewrite getlines_one.
    - reflexivity.
    - unfold ln. apply forallb_app_true. split; [exact Nnonl|]. cbn [forallb]. rewrite Vnonl. reflexivity. }
  assert (R : read_line ln = LOption n v).
  { unfold read_line.
    assert (C : cut_at is_hash ln = ln).
    { apply cut_at_none. unfold ln. apply forallb_app_true. split; [exact Nnohash|]. cbn [forallb]. rewrite Vnohash. reflexivity. }
    rewrite C.
    assert (T : trim_ws ln = ln).
    { apply trim_ws_id.
      - unfold ln. destruct n as [|c r]; [congruence|]. exact Ne1.
      - unfold ln. rewrite rev_app_distr. cbn [rev]. rewrite <- app_assoc. cbn [app].
        destruct (rev v) as [|d t] eqn:Ev; [reflexivity|]. cbn [app]. exact Ve2. }
    rewrite T.
    destruct n as [|c r] eqn:En; [congruence|].
    assert (Hc : name_char c = true) by (cbn in Nch; apply andb_true_iff in Nch; exact (proj1 Nch)).
    destruct (name_char_plain c Hc) as [_ [_ [_ [_ B]]]].
    unfold ln. cbn [app]. rewrite B. cbn [andb].
    change (c :: r ++ "=" :: v) with ((c :: r) ++ "=" :: v).
    destruct (cut_after_app is_eq (c :: r) "=" v Nnoeq eq_refl) as [X Y].
    rewrite Y, X. rewrite (trim_ws_id (c :: r) Ne1 Ne2). rewrite (trim_ws_id v Ve1 Ve2). reflexivity. }
  unfold reread, read_text. rewrite G. cbn [map]. rewrite R. split; reflexivity.
Qed.
