(** * The generated RotationMap definitions (Gen/Gen_Rotation.v): what genHInfo writes, where; the generated
      map equals the hand-written model (Model/Rotation.v); weights, zero angle, index range, clamp.

    Part 1 works over a generic field and arbitrary rounding / split functions: the write logs of the generated
    loops are resolved (last write wins) for the four interpolation orders by computation, the C++ unsigned
    arithmetic is brought to the model's form by the idempotence of [wrap32]. *)
From Coq Require Import List ZArith QArith Qcanon Lia Bool Ring Field ZifyBool.
From Inovesa Require Import Base.FieldKit Base.Float32 Gen.Gen_Coeffs Model.Kick Model.RotX Model.Rotation
  Gen.Gen_Rotation Model.RotationGen Proofs.WeightsP Proofs.RotationP.
Import ListNotations.
Local Open Scope Z_scope.

(** ** unsigned arithmetic *)
Lemma rg_wrap32_small z : 0 <= z < 2 ^ 32 -> wrap32 z = z.
Proof. intros H. unfold wrap32. apply Z.mod_small. exact H. Qed.
Lemma rg_wrap32_idem z : wrap32 (wrap32 z) = wrap32 z.
Proof. unfold wrap32. apply Z.mod_mod. discriminate. Qed.
Lemma rg_wrap32_add_l a b : wrap32 (wrap32 a + b) = wrap32 (a + b).
Proof. unfold wrap32. apply Zplus_mod_idemp_l. Qed.
Lemma rg_wrap32_add_r a b : wrap32 (a + wrap32 b) = wrap32 (a + b).
Proof. unfold wrap32. apply Zplus_mod_idemp_r. Qed.
Lemma rg_wrap32_sub_l a b : wrap32 (wrap32 a - b) = wrap32 (a - b).
Proof. unfold wrap32. apply Zminus_mod_idemp_l. Qed.
Lemma rg_wrap32_sub_r a b : wrap32 (a - wrap32 b) = wrap32 (a - b).
Proof. unfold wrap32. apply Zminus_mod_idemp_r. Qed.
Lemma rg_wrap32_mul_l a b : wrap32 (wrap32 a * b) = wrap32 (a * b).
Proof. unfold wrap32. apply Zmult_mod_idemp_l. Qed.
Lemma rg_wrap32_mul_r a b : wrap32 (a * wrap32 b) = wrap32 (a * b).
Proof. unfold wrap32. apply Zmult_mod_idemp_r. Qed.
Lemma rg_wrap32_range z : 0 <= wrap32 z < 2 ^ 32.
Proof. unfold wrap32. apply Z.mod_pos_bound. reflexivity. Qed.

Ltac wrap_norm :=
  repeat first [ rewrite rg_wrap32_add_l | rewrite rg_wrap32_add_r | rewrite rg_wrap32_sub_l | rewrite rg_wrap32_sub_r
               | rewrite rg_wrap32_mul_l | rewrite rg_wrap32_mul_r | rewrite rg_wrap32_idem ].

Lemma rg_centre it : valid_it it -> Z.quot (it - 1) 2 = centre it.
Proof. intros [H|[H|[H|H]]]; subst; reflexivity. Qed.

(** stencil origin as coded -> as in the model *)
Lemma rg_origin it x i : valid_it it ->
  wrap32 (wrap32 (x + i) - wrap32 (Z.quot (it - 1) 2)) = wrap32 (x + i - centre it).
Proof. intros H. rewrite (rg_centre it H). wrap_norm. reflexivity. Qed.

(** ** write logs *)
Lemma rg_lookup_notin {A} (l : list (Z * A)) k acc :
  ~ In k (map fst l) -> fold_left (fun a e => if fst e =? k then Some (snd e) else a) l acc = acc.
Proof.
  revert acc. induction l as [|e l IH]; intros acc H; cbn [fold_left]; [reflexivity|].
  cbn [map In] in H. destruct (Z.eqb_spec (fst e) k) as [E|E]; [exfalso; apply H; left; exact E|].
  apply IH. intro Hi. apply H. right. exact Hi.
Qed.
Lemma rg_lookup_none {A} (l : list (Z * A)) k : ~ In k (map fst l) -> rx_lookup l k = None.
Proof. apply rg_lookup_notin. Qed.

(** closed lookups are computed *)
Ltac lookups :=
  repeat match goal with
         | |- context [rx_lookup ?l ?k] =>
           let v := eval vm_compute in (rx_lookup l k) in change (rx_lookup l k) with v
         end.

Lemma rg_cases1 i : 0 <= i < 1 -> i = 0. Proof. lia. Qed.
Lemma rg_cases2 i : 0 <= i < 2 -> i = 0 \/ i = 1. Proof. lia. Qed.
Lemma rg_cases3 i : 0 <= i < 3 -> i = 0 \/ i = 1 \/ i = 2. Proof. lia. Qed.
Lemma rg_cases4 i : 0 <= i < 4 -> i = 0 \/ i = 1 \/ i = 2 \/ i = 3. Proof. lia. Qed.
Ltac split_idx H :=
  first [ apply rg_cases1 in H | apply rg_cases2 in H | apply rg_cases3 in H | apply rg_cases4 in H ];
  repeat match type of H with _ \/ _ => destruct H as [H|H] end; subst.

  Lemma rg_then_slots_outside it k : valid_it it -> ~ (0 <= k < it * it) ->
    rx_lookup (gen_rot_then_slots it (it * it)) k = None.
  Proof.
    intros Hv Hk. apply rg_lookup_none.
    destruct Hv as [Hv|[Hv|[Hv|Hv]]]; subst it;
      match goal with |- ~ In _ ?l => let v := eval vm_compute in l in change l with v end;
      cbn [In]; lia.
  Qed.

  Lemma rg_else_slots it k : valid_it it ->
    rx_lookup (gen_rot_else_slots it (it * it)) k = if (0 <=? k) && (k <? it * it) then Some k else None.
  Proof.
    intros Hv.
    destruct ((0 <=? k) && (k <? it * it)) eqn:E.
    - assert (Hk : 0 <= k < it * it) by lia. clear E.
      destruct Hv as [Hv|[Hv|[Hv|Hv]]]; subst it.
      + assert (k = 0) by lia. subst. reflexivity.
      + assert (H : k = 0 \/ k = 1 \/ k = 2 \/ k = 3) by lia.
        repeat destruct H as [H|H]; subst; reflexivity.
      + assert (H : k = 0 \/ k = 1 \/ k = 2 \/ k = 3 \/ k = 4 \/ k = 5 \/ k = 6 \/ k = 7 \/ k = 8) by lia.
        repeat destruct H as [H|H]; subst; reflexivity.
      + assert (H : k = 0 \/ k = 1 \/ k = 2 \/ k = 3 \/ k = 4 \/ k = 5 \/ k = 6 \/ k = 7 \/ k = 8 \/ k = 9 \/ k = 10
                    \/ k = 11 \/ k = 12 \/ k = 13 \/ k = 14 \/ k = 15) by lia.
        repeat destruct H as [H|H]; subst; reflexivity.
    - apply rg_lookup_none.
      destruct Hv as [Hv|[Hv|[Hv|Hv]]]; subst it;
        match goal with |- ~ In _ ?l => let v := eval vm_compute in l in change l with v end;
        cbn [In]; lia.
  Qed.

  Lemma rg_split_slot it k : valid_it it -> 0 <= k < it * it ->
    k = (k / it) * it + k mod it /\ 0 <= k / it < it /\ 0 <= k mod it < it.
  Proof.
    intros Hv Hk. assert (0 < it) by (destruct Hv as [Hv|[Hv|[Hv|Hv]]]; lia).
    pose proof (Z.div_mod k it ltac:(lia)). pose proof (Z.mod_pos_bound k it ltac:(lia)).
    split; [lia|]. split; [|lia]. split; [apply Z.div_pos; lia|apply Z.div_lt_upper_bound; lia].
  Qed.

Section GenRowK.
  Variable K : Fld.
  Add Field KFrow : (@Fth K).
  Variables rd rw : K -> K.
  Variable ipart : K -> Z.
  Variable fpart : K -> K.
  Local Open Scope F_scope.
  Local Open Scope Z_scope.

  (** entry (i1, j1) of the stencil of a grid point whose split gave origin (x1, y1) and fractions (xf, yf):
      the x-weight i1 belongs to the x-offset i1 (no transposition) *)
  Definition rg_entry (xs ys it x1 y1 : Z) (xf yf : K) (i1 j1 : Z) : Z * K :=
    let i0 := wrap32 (x1 + i1 - centre it) in
    let j0 := wrap32 (y1 + j1 - centre it) in
    if (i0 <? xs) && (j0 <? ys)
    then (wrap32 (i0 * ys + j0), rw (rx_nth (coeffs it xf) i1 * rx_nth (coeffs it yf) j1)%F)
    else (0, 0%F).

  Variables (xs ys it : Z) (cos_dt sin_dt : K) (at0 at1 : Z -> K) (d0 d1 z0 z1 : K) (x0 y0 : Z).
  Let c1 := gen_rot_c1 K rd cos_dt sin_dt at0 at1 d0 d1 z0 z1 x0 y0.
  Let c2 := gen_rot_c2 K rd cos_dt sin_dt at0 at1 d0 d1 z0 z1 x0 y0.
  Let x1 := rx_f2u (ipart c1).
  Let y1 := rx_f2u (ipart c2).
  Let G := gen_rot_genHInfo K rd rw ipart fpart xs ys it (it * it) cos_dt sin_dt at0 at1 d0 d1 z0 z1 x0 y0.

  Lemma rg_genHInfo_then old i1 j1 :
    valid_it it -> (x1 <? xs) && (y1 <? ys) = true -> 0 <= i1 < it -> 0 <= j1 < it ->
    G old (i1 * it + j1) = rg_entry xs ys it x1 y1 (fpart c1) (fpart c2) i1 j1.
  Proof.
    intros Hv Hg Hi Hj. unfold G, gen_rot_genHInfo. fold c1 c2. fold x1 y1. rewrite Hg.
    unfold rg_entry.
    destruct Hv as [Hv|[Hv|[Hv|Hv]]]; subst it; split_idx Hi; split_idx Hj;
      lookups; cbv beta iota zeta; lookups; cbv beta iota zeta;
      rewrite !rg_origin by (unfold valid_it; tauto); wrap_norm;
      (* the product of the two weights may be written in either order *)
      first [ reflexivity
            | match goal with |- (if ?c then _ else _) = _ => destruct c; [f_equal; f_equal; ring|reflexivity] end ].
  Qed.



  Lemma rg_genHInfo_else old k :
    valid_it it -> (x1 <? xs) && (y1 <? ys) = false -> 0 <= k < it * it -> G old k = (0, 0%F).
  Proof.
    intros Hv Hg Hk. unfold G, gen_rot_genHInfo. fold c1 c2. fold x1 y1. rewrite Hg.
    rewrite (rg_else_slots it k Hv). replace ((0 <=? k) && (k <? it * it)) with true by lia. reflexivity.
  Qed.

  Lemma rg_genHInfo_outside old k : valid_it it -> ~ (0 <= k < it * it) -> G old k = old k.
  Proof.
    intros Hv Hk. unfold G, gen_rot_genHInfo. fold c1 c2. fold x1 y1.
    destruct ((x1 <? xs) && (y1 <? ys)).
    - cbv zeta. rewrite (rg_then_slots_outside it k Hv Hk). reflexivity.
    - rewrite (rg_else_slots it k Hv). replace ((0 <=? k) && (k <? it * it)) with false by lia. reflexivity.
  Qed.


  (** the row of a grid point: independent of what the table held before *)
  Definition rg_row (k : Z) : Z * K :=
    if (x1 <? xs) && (y1 <? ys) then rg_entry xs ys it x1 y1 (fpart c1) (fpart c2) (k / it) (k mod it) else (0, 0%F).

  Lemma rg_genHInfo_row old k : valid_it it -> 0 <= k < it * it -> G old k = rg_row k.
  Proof.
    intros Hv Hk. unfold rg_row. destruct ((x1 <? xs) && (y1 <? ys)) eqn:Hg.
    - destruct (rg_split_slot it k Hv Hk) as [E [Hi Hj]]. rewrite E at 1. apply rg_genHInfo_then; assumption.
    - apply rg_genHInfo_else; assumption.
  Qed.
End GenRowK.

(** ** Part 2: the generated genHInfo with the model's arithmetic is the hand-written [rot_entries] *)
Lemma rg_nth_grid {A} (f : Z -> Z -> A) d it i j :
  valid_it it -> 0 <= i < it -> 0 <= j < it ->
  nth (Z.to_nat (i * it + j)) (flat_map (fun i1 => map (fun j1 => f i1 j1) (zrange it)) (zrange it)) d = f i j.
Proof.
  intros Hv Hi Hj. destruct Hv as [Hv|[Hv|[Hv|Hv]]]; subst it; split_idx Hi; split_idx Hj; reflexivity.
Qed.

Lemma rg_nth_const {A} (c d : A) n k : nth k (map (fun _ : Z => c) (zrange n)) d = c \/ nth k (map (fun _ : Z => c) (zrange n)) d = d.
Proof.
  destruct (nth_in_or_default k (map (fun _ : Z => c) (zrange n)) d) as [H|H]; [left|right; exact H].
  apply in_map_iff in H. destruct H as [x [E _]]. symmetry. exact E.
Qed.

Lemma rot_entries_length xs ys it P q p : valid_it it -> length (rot_entries xs ys it P q p) = Z.to_nat (it * it).
Proof.
  intros Hv. unfold rot_entries. destruct ((Qctrunc (rot_x P q p) <? xs) && (Qctrunc (rot_y P q p) <? ys)).
  - destruct Hv as [Hv|[Hv|[Hv|Hv]]]; subst it; reflexivity.
  - rewrite map_length. unfold zrange. rewrite map_length, seq_length. reflexivity.
Qed.

Lemma rg_abs_range tx ty :
  (0 <=? tx) && (tx <? 2 ^ 32) && ((0 <=? ty) && (ty <? 2 ^ 32)) = true -> 0 <= tx < 2 ^ 32 /\ 0 <= ty < 2 ^ 32.
Proof. lia. Qed.
Lemma rot_defined_range P q p :
  rot_defined P q p = true -> 0 <= Qctrunc (rot_x P q p) < 2 ^ 32 /\ 0 <= Qctrunc (rot_y P q p) < 2 ^ 32.
Proof. unfold rot_defined. apply rg_abs_range. Qed.

(** two binary32 expressions are the same float when they differ only in the order of the operands of commutative
    operations (every operation is rounded on its own: nothing is re-associated) *)
Ltac rg_feq :=
  first [ match goal with |- ?a = ?b => constr_eq a b; reflexivity end     (* syntactic identity only: never let the unifier evaluate rnd32 *)
        | match goal with
          | |- rnd32 _ = rnd32 _ => apply f_equal; rg_feq
          | |- Qcplus ?a ?b = Qcplus _ _ =>
            first [ apply f_equal2; rg_feq | rewrite (Qcplus_comm a b); apply f_equal2; rg_feq ]
          | |- Qcmult ?a ?b = Qcmult _ _ =>
            first [ apply f_equal2; rg_feq | rewrite (Qcmult_comm a b); apply f_equal2; rg_feq ]
          | |- Qcminus _ _ = Qcminus _ _ => apply f_equal2; rg_feq
          | |- Qcdiv _ _ = Qcdiv _ _ => apply f_equal2; rg_feq
          end ].
Ltac rg_float_eq :=
  unfold gen_rot_c1, gen_rot_c2, rot_x, rot_y, fmulr, faddr, fsubr, fdivr;
  change (@fmul QcF) with Qcmult; change (@fadd QcF) with Qcplus; change (@fsub QcF) with Qcminus; change (@fdiv QcF) with Qcdiv;
  rg_feq.

Section GenIsModel.
  Variables (xs ys it : Z) (P : rot_par) (ax ay : Z -> Qc) (x0 y0 : Z).
  Hypothesis Hv : valid_it it.
  Hypothesis Hsz : 0 < xs /\ 0 < ys /\ xs * ys <= 2 ^ 32.
  Hypothesis Hdef : rot_defined P (ax x0) (ay y0) = true.

  Lemma rg_c1_is_rot_x : gen_rot_c1 QcF rnd32 (rp_cos P) (rp_sin P) ax ay (rp_d0 P) (rp_d1 P) (rp_z0 P) (rp_z1 P) x0 y0
                         = rot_x P (ax x0) (ay y0).
  Proof. rg_float_eq. Qed.
  Lemma rg_c2_is_rot_y : gen_rot_c2 QcF rnd32 (rp_cos P) (rp_sin P) ax ay (rp_d0 P) (rp_d1 P) (rp_z0 P) (rp_z1 P) x0 y0
                         = rot_y P (ax x0) (ay y0).
  Proof. rg_float_eq. Qed.

  Lemma rg_entry_is_model (X Y : Qc) k :
    0 <= Qctrunc X < 2 ^ 32 -> 0 <= Qctrunc Y < 2 ^ 32 -> 0 <= k < it * it ->
    (if (rx_f2u (Qctrunc X) <? xs) && (rx_f2u (Qctrunc Y) <? ys)
     then rg_entry QcF rg_id xs ys it (rx_f2u (Qctrunc X)) (rx_f2u (Qctrunc Y)) (Qcfrac X) (Qcfrac Y) (k / it) (k mod it)
     else (0, 0%Qc)) =
    nth (Z.to_nat k)
      (let x1 := Qctrunc X in let y1 := Qctrunc Y in let xf := Qcfrac X in let yf := Qcfrac Y in
       if (x1 <? xs) && (y1 <? ys) then
         let wq := coeffs (K:=QcF) it xf in
         let wp := coeffs (K:=QcF) it yf in
         flat_map (fun i1 =>
           map (fun j1 =>
             let i0 := wrap32 (x1 + i1 - centre it) in
             let j0 := wrap32 (y1 + j1 - centre it) in
             if (i0 <? xs) && (j0 <? ys)
             then (i0 * ys + j0, (nthQ wq i1 * nthQ wp j1)%Qc)
             else (0, 0%Qc)) (zrange it)) (zrange it)
       else map (fun _ => (0, 0%Qc)) (zrange (it * it))) (0, 0%Qc).
  Proof.
    intros HX HY Hk. cbv zeta.
    assert (EX : rx_f2u (Qctrunc X) = Qctrunc X) by (unfold rx_f2u; apply rg_wrap32_small; lia).
    assert (EY : rx_f2u (Qctrunc Y) = Qctrunc Y) by (unfold rx_f2u; apply rg_wrap32_small; lia).
    rewrite EX, EY. clear EX EY.
    generalize dependent (Qctrunc X). intros tx HX. generalize dependent (Qctrunc Y). intros ty HY.
    generalize (Qcfrac X) as xf, (Qcfrac Y) as yf. intros xf yf.
    destruct ((tx <? xs) && (ty <? ys)) eqn:Hg.
    - destruct (rg_split_slot it k Hv Hk) as [E [Hi Hj]].
      rewrite E at 3.
      rewrite (rg_nth_grid _ _ it (k / it) (k mod it) Hv Hi Hj).
      unfold rg_entry. cbv zeta.
      pose proof (rg_wrap32_range (tx + k / it - centre it)) as H. pose proof (rg_wrap32_range (ty + k mod it - centre it)) as H0.
      generalize dependent (wrap32 (tx + k / it - centre it)). intros i0 H.
      generalize dependent (wrap32 (ty + k mod it - centre it)). intros j0 H0.
      destruct ((i0 <? xs) && (j0 <? ys)) eqn:Hr; [|reflexivity].
      assert (Hm : i0 * ys <= (xs - 1) * ys) by (apply Z.mul_le_mono_nonneg_r; lia).
      assert (Hn : 0 <= i0 * ys) by (apply Z.mul_nonneg_nonneg; lia).
      rewrite rg_wrap32_small by lia.
      reflexivity.
    - destruct (rg_nth_const (0, 0%Qc) (0, 0%Qc) (it * it) (Z.to_nat k)) as [E|E]; rewrite E; reflexivity.
  Qed.

  (** entry k of the block genHInfo(x0, y0, .) writes = entry k of the hand-written row of the point (ax x0, ay y0) *)
  Theorem rg_generated_is_model old k : 0 <= k < it * it ->
    rg_G xs ys it (it * it) P ax ay x0 y0 old k = nth (Z.to_nat k) (rot_entries xs ys it P (ax x0) (ay y0)) (0, 0%Qc).
  Proof.
    intros Hk. unfold rg_G. rewrite (rg_genHInfo_row QcF rnd32 rg_id Qctrunc Qcfrac) by assumption.
    unfold rg_row. rewrite rg_c1_is_rot_x, rg_c2_is_rot_y.
    destruct (rot_defined_range P (ax x0) (ay y0) Hdef) as [HX HY].
    unfold rot_entries.
    exact (rg_entry_is_model (rot_x P (ax x0) (ay y0)) (rot_y P (ax x0) (ay y0)) k HX HY Hk).
  Qed.
End GenIsModel.

(** ** Part 3: what the generated row holds - over every field, every rounding of the coordinates, every split *)
Lemma rg_list_of_length {A} (l : list A) it : valid_it it -> Z.of_nat (length l) = it ->
  (it = 1 /\ exists a, l = [a]) \/ (it = 2 /\ exists a b, l = [a; b]) \/ (it = 3 /\ exists a b c, l = [a; b; c]) \/
  (it = 4 /\ exists a b c d, l = [a; b; c; d]).
Proof.
  intros Hv Hl.
  destruct l as [|a [|b [|c [|d [|e l]]]]]; cbn [length] in Hl; destruct Hv as [Hv|[Hv|[Hv|Hv]]]; subst it; try lia.
  - left. split; [reflexivity|]. eexists. reflexivity.
  - right. left. split; [reflexivity|]. do 2 eexists. reflexivity.
  - right. right. left. split; [reflexivity|]. do 3 eexists. reflexivity.
  - right. right. right. split; [reflexivity|]. do 4 eexists. reflexivity.
Qed.

Section GenRowFacts.
  Variable K : Fld.
  Add Field KFg : (@Fth K).
  Variable rd : K -> K.
  Variable ipart : K -> Z.
  Variable fpart : K -> K.
  Local Open Scope F_scope.
  Local Open Scope Z_scope.
  Let idK : K -> K := fun x => x.

  Variables (xs ys it : Z) (x1 y1 : Z) (xf yf : K).
  Hypothesis Hv : valid_it it.

  (** every stencil point of the grid point inside the grid *)
  Definition rg_interior : Prop :=
    forall i1 j1, 0 <= i1 < it -> 0 <= j1 < it ->
      (wrap32 (x1 + i1 - centre it) <? xs) && (wrap32 (y1 + j1 - centre it) <? ys) = true.

  Lemma rg_entry_interior i1 j1 : rg_interior -> 0 <= i1 < it -> 0 <= j1 < it ->
    rg_entry K idK xs ys it x1 y1 xf yf i1 j1 =
    (wrap32 (wrap32 (x1 + i1 - centre it) * ys + wrap32 (y1 + j1 - centre it)),
     (rx_nth (coeffs it xf) i1 * rx_nth (coeffs it yf) j1)%F).
  Proof. intros Hin Hi Hj. unfold rg_entry. cbv zeta. rewrite (Hin i1 j1 Hi Hj). reflexivity. Qed.

  (** slot i1*it+j1 carries the weight icq[i1]*icp[j1]: the weights of the row, in slot order, are the tensor
      product (x weights) x (y weights) of the hand-written model *)
  Lemma rg_weights_tensor : rg_interior ->
    map (fun k => snd (rg_entry K idK xs ys it x1 y1 xf yf (k / it) (k mod it))) (zrange (it * it)) = rot_weights it xf yf.
  Proof.
    intros Hin.
    assert (E : forall k, 0 <= k < it * it ->
              snd (rg_entry K idK xs ys it x1 y1 xf yf (k / it) (k mod it)) =
              (rx_nth (coeffs it xf) (k / it) * rx_nth (coeffs it yf) (k mod it))%F).
    { intros k Hk. destruct (rg_split_slot it k Hv Hk) as [_ [Hi Hj]]. rewrite (rg_entry_interior _ _ Hin Hi Hj). reflexivity. }
    rewrite (map_ext_in _ (fun k => (rx_nth (coeffs it xf) (k / it) * rx_nth (coeffs it yf) (k mod it))%F)).
    2:{ intros k Hk. apply E. unfold zrange in Hk. apply in_map_iff in Hk. destruct Hk as [n [En Hn]]. apply in_seq in Hn. lia. }
    unfold rot_weights. clear E.
    pose proof (coeffs_length K it xf Hv) as Lx. pose proof (coeffs_length K it yf Hv) as Ly.
    revert Lx Ly. generalize (coeffs it xf), (coeffs it yf). intros a b Lx Ly.
    destruct (rg_list_of_length a it Hv Lx) as [[Ei Ha]|[[Ei Ha]|[[Ei Ha]|[Ei Ha]]]];
      destruct (rg_list_of_length b it Hv Ly) as [[Ej Hb]|[[Ej Hb]|[[Ej Hb]|[Ej Hb]]]]; try lia;
      repeat match goal with H : exists _, _ |- _ => destruct H end; subst a b; rewrite Ei; reflexivity.
  Qed.

  Theorem rg_weights_unity : rg_interior ->
    fsum (map (fun k => snd (rg_entry K idK xs ys it x1 y1 xf yf (k / it) (k mod it))) (zrange (it * it))) = 1%F.
  Proof. intros Hin. rewrite (rg_weights_tensor Hin). apply rot_weights_unity. exact Hv. Qed.

  Theorem rg_poly_reproduction (k l : nat) (X Y : K) : rg_interior -> Z.of_nat k < it -> Z.of_nat l < it ->
    fdot (map (fun s => snd (rg_entry K idK xs ys it x1 y1 xf yf (s / it) (s mod it))) (zrange (it * it)))
         (tensor (nodes K it X k) (nodes K it Y l)) = (fpow (X + xf) k * fpow (Y + yf) l)%F.
  Proof. intros Hin Hk Hl. rewrite (rg_weights_tensor Hin). apply rot_poly_reproduction; assumption. Qed.

  (** every index of the row addresses the xs*ys grid (the fallback entry is index 0): C17 flavour *)
  Theorem rg_entry_in_bounds (rw : K -> K) i1 j1 : 0 < xs -> 0 < ys ->
    0 <= fst (rg_entry K rw xs ys it x1 y1 xf yf i1 j1) < xs * ys.
  Proof.
    intros Hx Hy. unfold rg_entry. cbv zeta.
    pose proof (rg_wrap32_range (x1 + i1 - centre it)) as Hi. pose proof (rg_wrap32_range (y1 + j1 - centre it)) as Hj.
    generalize dependent (wrap32 (x1 + i1 - centre it)). intros i0 Hi.
    generalize dependent (wrap32 (y1 + j1 - centre it)). intros j0 Hj.
    destruct ((i0 <? xs) && (j0 <? ys)) eqn:Hr; cbn [fst]; [|nia].
    assert (Hm : i0 * ys <= (xs - 1) * ys) by (apply Z.mul_le_mono_nonneg_r; lia).
    assert (Hn : 0 <= i0 * ys) by (apply Z.mul_nonneg_nonneg; lia).
    pose proof (rg_wrap32_range (i0 * ys + j0)).
    assert (wrap32 (i0 * ys + j0) <= i0 * ys + j0) by (unfold wrap32; apply Z.mod_le; lia).
    lia.
  Qed.
End GenRowFacts.

(** ** zero angle: the map is the identity (exact arithmetic, axes of the generated Ruler) *)
From Inovesa Require Import Gen.Gen_Ruler.

Section ZeroAngle.
  Variable K : Fld.
  Add Field KFz : (@Fth K).
  Variable ipart : K -> Z.
  Variable fpart : K -> K.
  Local Open Scope F_scope.
  Local Open Scope Z_scope.
  Let idK : K -> K := fun x => x.
  (** the split of a float that holds an integer *)
  Hypothesis Hip : forall z, ipart (fz z) = z.
  Hypothesis Hfp : forall z, fpart (fz z) = 0%F.

  Lemma rg_trig_zero (cosf sinf : K -> K) : cosf 0%F = 1%F -> sinf 0%F = 0%F ->
    gen_rot_ctor_cos_dt K cosf 0%F = 1%F /\ gen_rot_ctor_sin_dt K sinf 0%F = 0%F.
  Proof.
    intros Hc Hs. unfold gen_rot_ctor_cos_dt, gen_rot_ctor_sin_dt.
    assert (E : (- (@f0 K))%F = @f0 K) by ring. rewrite E. split; assumption.
  Qed.

  Lemma rg_c1_zero (at0 at1 : Z -> K) d0 d1 z0 z1 x0 y0 :
    gen_rot_c1 K idK 1%F 0%F at0 at1 d0 d1 z0 z1 x0 y0 = (at0 x0 / d0 + z0)%F.
  Proof.
    unfold gen_rot_c1, idK. cbv beta. rewrite !(Fdiv_def (@Fth K)). ring.
  Qed.
  Lemma rg_c2_zero (at0 at1 : Z -> K) d0 d1 z0 z1 x0 y0 :
    gen_rot_c2 K idK 1%F 0%F at0 at1 d0 d1 z0 z1 x0 y0 = (at1 y0 / d1 + z1)%F.
  Proof.
    unfold gen_rot_c2, idK. cbv beta. rewrite !(Fdiv_def (@Fth K)). ring.
  Qed.

  (** the generated Ruler: at(i) / delta + zerobin = i *)
  Lemma rg_ruler_cell (steps mn mx : K) (i : K) : (mx - mn)%F <> 0%F -> (steps - 1)%F <> 0%F ->
    (gen_ruler_at K mn (gen_ruler_delta K steps mn mx) i / gen_ruler_delta K steps mn mx + gen_ruler_zerobin K steps mn mx)%F = i.
  Proof.
    intros H1 H2. unfold gen_ruler_at, gen_ruler_delta, gen_ruler_zerobin. field.
    repeat split; try assumption; try (fld_nz K).
    intro H. apply H1. assert (E : (mx - mn)%F = (- (mn - mx))%F) by ring. rewrite E, H. ring.
  Qed.

  Lemma rg_fsum_single (l : list Z) (f : Z -> K) kc :
    NoDup l -> In kc l -> (forall k, In k l -> k <> kc -> f k = 0%F) -> fsum (map f l) = f kc.
  Proof.
    induction l as [|a l IH]; intros Hn Hi Hz; [destruct Hi|].
    inversion Hn as [|a' l' Ha Hl]; subst. cbn [map fsum].
    destruct (Z.eq_dec a kc) as [E|E].
    - subst a. assert (Z0 : fsum (map f l) = 0%F).
      { clear IH Hi Hn Hl. induction l as [|b l IH]; [reflexivity|]. cbn [map fsum].
        rewrite IH. + rewrite (Hz b). * ring. * right; left; reflexivity. * intro Eb. apply Ha. left. exact Eb.
        + intro Hb. apply Ha. right. exact Hb.
        + intros k Hk. apply Hz. destruct Hk as [Hk|Hk]; [left; exact Hk|right; right; exact Hk]. }
      rewrite Z0. ring.
    - rewrite (Hz a (or_introl eq_refl) E). rewrite IH.
      + ring. + exact Hl. + destruct Hi as [Hi|Hi]; [contradiction|exact Hi].
      + intros k Hk. apply Hz. right. exact Hk.
  Qed.

  Lemma rg_zrange_nodup n : NoDup (zrange n).
  Proof.
    unfold zrange. generalize 0%nat. induction (Z.to_nat n) as [|m IH]; intros s; cbn [seq map]; constructor.
    - intro H. apply in_map_iff in H. destruct H as [x [E Hx]]. apply in_seq in Hx. lia.
    - apply IH.
  Qed.

  Lemma rg_unit_offcentre it i1 j1 : valid_it it -> 0 <= i1 < it -> 0 <= j1 < it -> (i1 <> centre it \/ j1 <> centre it) ->
    (rx_nth (coeffs it (@f0 K)) i1 * rx_nth (coeffs it (@f0 K)) j1)%F = 0%F.
  Proof.
    intros Hv Hi Hj Hc. rewrite (coeffs_at_zero K it Hv).
    destruct Hv as [Hv|[Hv|[Hv|Hv]]]; subst it; split_idx Hi; split_idx Hj; unfold centre in Hc; cbn in Hc;
      try (exfalso; lia); unfold unit_at, rx_nth, centre; rewrite ?zrange1, ?zrange2, ?zrange3, ?zrange4; cbn;
      change (Pos.to_nat 1) with 1%nat; change (Pos.to_nat 2) with 2%nat; change (Pos.to_nat 3) with 3%nat; cbn; ring.
  Qed.
  Lemma rg_unit_centre it : valid_it it ->
    (rx_nth (coeffs it (@f0 K)) (centre it) * rx_nth (coeffs it (@f0 K)) (centre it))%F = 1%F.
  Proof.
    intros Hv. rewrite (coeffs_at_zero K it Hv).
    destruct Hv as [Hv|[Hv|[Hv|Hv]]]; subst it; unfold unit_at, rx_nth, centre;
      rewrite ?zrange1, ?zrange2, ?zrange3, ?zrange4; cbn;
      change (Pos.to_nat 1) with 1%nat; change (Pos.to_nat 2) with 2%nat; change (Pos.to_nat 3) with 3%nat; cbn; ring.
  Qed.

  (** RotationMap with cos = 1, sin = 0 on axes for which at(i)/delta + zerobin = i: the row of grid point (x0, y0), applied
      to any data, returns the data at (x0, y0) *)
  Theorem rg_zero_angle_identity xs ys it (at0 at1 : Z -> K) d0 d1 z0 z1 x0 y0 (old : Z -> Z * K) (D : Z -> K) :
    valid_it it -> 0 <= x0 < xs -> 0 <= y0 < ys -> xs * ys <= 2 ^ 32 ->
    (at0 x0 / d0 + z0)%F = fz x0 -> (at1 y0 / d1 + z1)%F = fz y0 ->
    fsum (map (fun k => let e := gen_rot_genHInfo K idK idK ipart fpart xs ys it (it * it) 1%F 0%F at0 at1 d0 d1 z0 z1 x0 y0 old k in
                        (D (fst e) * snd e)%F) (zrange (it * it))) = D (x0 * ys + y0).
  Proof.
    intros Hv Hx Hy Hs Ex Ey.
    assert (Hxs : 0 <= x0 < 2 ^ 32) by nia. assert (Hys : 0 <= y0 < 2 ^ 32) by nia.
    set (kc := centre it * it + centre it).
    assert (Hc : 0 <= centre it < it) by (destruct Hv as [H|[H|[H|H]]]; subst it; unfold centre; cbn; lia).
    assert (Hkc : 0 <= kc < it * it) by (unfold kc; nia).
    assert (Row : forall k, 0 <= k < it * it ->
       gen_rot_genHInfo K idK idK ipart fpart xs ys it (it * it) 1%F 0%F at0 at1 d0 d1 z0 z1 x0 y0 old k =
       rg_entry K idK xs ys it x0 y0 0%F 0%F (k / it) (k mod it)).
    { intros k Hk. rewrite (rg_genHInfo_row K idK idK ipart fpart) by assumption. unfold rg_row.
      rewrite rg_c1_zero, rg_c2_zero, Ex, Ey, !Hip, !Hfp. unfold rx_f2u. rewrite !rg_wrap32_small by assumption.
      replace ((x0 <? xs) && (y0 <? ys)) with true by lia. reflexivity. }
    rewrite (map_ext_in _ (fun k => let e := rg_entry K idK xs ys it x0 y0 0%F 0%F (k / it) (k mod it) in (D (fst e) * snd e)%F)).
    2:{ intros k Hk. cbv zeta. rewrite Row; [reflexivity|]. unfold zrange in Hk. apply in_map_iff in Hk.
        destruct Hk as [n [En Hn]]. apply in_seq in Hn. lia. }
    rewrite (rg_fsum_single _ _ kc).
    - cbv zeta. unfold kc. 
      assert (Ed : (centre it * it + centre it) / it = centre it) by (rewrite Z.div_add_l by lia; rewrite Z.div_small by lia; lia).
      assert (Em : (centre it * it + centre it) mod it = centre it) by (rewrite Z.add_comm, Z.mod_add by lia; apply Z.mod_small; lia).
      rewrite Ed, Em. unfold rg_entry. cbv zeta.
      replace (x0 + centre it - centre it) with x0 by lia. replace (y0 + centre it - centre it) with y0 by lia.
      rewrite !rg_wrap32_small by assumption. replace ((x0 <? xs) && (y0 <? ys)) with true by lia.
      cbn [fst snd]. unfold idK. rewrite (rg_unit_centre it Hv). rewrite rg_wrap32_small by nia. ring.
    - apply rg_zrange_nodup.
    - unfold zrange. apply in_map_iff. exists (Z.to_nat kc). split; [lia|]. apply in_seq. lia.
    - intros k Hk Hne. cbv zeta.
      assert (Hkr : 0 <= k < it * it).
      { unfold zrange in Hk. apply in_map_iff in Hk. destruct Hk as [n [En Hn]]. apply in_seq in Hn. lia. }
      destruct (rg_split_slot it k Hv Hkr) as [E [Hi Hj]].
      assert (Hoff : k / it <> centre it \/ k mod it <> centre it).
      { destruct (Z.eq_dec (k / it) (centre it)) as [A|A]; [|left; exact A].
        destruct (Z.eq_dec (k mod it) (centre it)) as [B|B]; [|right; exact B].
        exfalso. apply Hne. unfold kc. rewrite <- A at 1. rewrite <- B. exact E. }
      unfold rg_entry. cbv zeta.
      destruct ((wrap32 (x0 + k / it - centre it) <? xs) && (wrap32 (y0 + k mod it - centre it) <? ys)); cbn [fst snd].
      + unfold idK. rewrite (rg_unit_offcentre it _ _ Hv Hi Hj Hoff). ring.
      + ring.
  Qed.
End ZeroAngle.

(** ** the saturation: std::max / std::min on rationals *)
Lemma rx_ltb_lt a b : rx_ltb a b = true <-> (a < b)%Qc.
Proof.
  unfold rx_ltb, Qclt. rewrite negb_true_iff. split.
  - intros H. apply Qnot_le_lt. intro L. apply Qle_bool_iff in L. congruence.
  - intros H. destruct (Qle_bool (this b) (this a)) eqn:E; [|reflexivity].
    apply Qle_bool_iff in E. exfalso. exact (Qlt_not_le _ _ H E).
Qed.
Lemma rx_ltb_ge a b : rx_ltb a b = false <-> (b <= a)%Qc.
Proof.
  unfold rx_ltb, Qcle. rewrite negb_false_iff. apply Qle_bool_iff.
Qed.

Lemma rx_max_l a b : (a <= rx_max a b)%Qc.
Proof. unfold rx_max. destruct (rx_ltb a b) eqn:E; [apply Qclt_le_weak, rx_ltb_lt, E|apply Qcle_refl]. Qed.
Lemma rx_max_r a b : (b <= rx_max a b)%Qc.
Proof. unfold rx_max. destruct (rx_ltb a b) eqn:E; [apply Qcle_refl|apply rx_ltb_ge, E]. Qed.
Lemma rx_max_lub a b c : (a <= c)%Qc -> (b <= c)%Qc -> (rx_max a b <= c)%Qc.
Proof. intros. unfold rx_max. destruct (rx_ltb a b); assumption. Qed.
Lemma rx_min_l a b : (rx_min a b <= a)%Qc.
Proof. unfold rx_min. destruct (rx_ltb b a) eqn:E; [apply Qclt_le_weak, rx_ltb_lt, E|apply Qcle_refl]. Qed.
Lemma rx_min_r a b : (rx_min a b <= b)%Qc.
Proof. unfold rx_min. destruct (rx_ltb b a) eqn:E; [apply Qcle_refl|apply rx_ltb_ge, E]. Qed.
Lemma rx_min_glb a b c : (c <= a)%Qc -> (c <= b)%Qc -> (c <= rx_min a b)%Qc.
Proof. intros. unfold rx_min. destruct (rx_ltb b a); assumption. Qed.

Lemma rx_fold_max_ge l : forall init, (init <= fold_left rx_max l init)%Qc /\ (forall s, In s l -> (s <= fold_left rx_max l init)%Qc).
Proof.
  induction l as [|x l IH]; intros init; cbn [fold_left].
  - split; [apply Qcle_refl|intros s []].
  - destruct (IH (rx_max init x)) as [A B]. split.
    + eapply Qcle_trans; [apply rx_max_l|exact A].
    + intros s [E|Hs]; [subst; eapply Qcle_trans; [apply rx_max_r|exact A]|apply B, Hs].
Qed.
Lemma rx_fold_max_le l : forall init c, (init <= c)%Qc -> (forall s, In s l -> (s <= c)%Qc) -> (fold_left rx_max l init <= c)%Qc.
Proof.
  induction l as [|x l IH]; intros init c Hi Hl; cbn [fold_left]; [exact Hi|].
  apply IH; [apply rx_max_lub; [exact Hi|apply Hl; left; reflexivity]|intros s Hs; apply Hl; right; exact Hs].
Qed.
Lemma rx_fold_min_le l : forall init, (fold_left rx_min l init <= init)%Qc /\ (forall s, In s l -> (fold_left rx_min l init <= s)%Qc).
Proof.
  induction l as [|x l IH]; intros init; cbn [fold_left].
  - split; [apply Qcle_refl|intros s []].
  - destruct (IH (rx_min init x)) as [A B]. split.
    + eapply Qcle_trans; [exact A|apply rx_min_l].
    + intros s [E|Hs]; [subst; eapply Qcle_trans; [exact A|apply rx_min_r]|apply B, Hs].
Qed.
Lemma rx_fold_min_ge l : forall init c, (c <= init)%Qc -> (forall s, In s l -> (c <= s)%Qc) -> (c <= fold_left rx_min l init)%Qc.
Proof.
  induction l as [|x l IH]; intros init c Hi Hl; cbn [fold_left]; [exact Hi|].
  apply IH; [apply rx_min_glb; [exact Hi|apply Hl; left; reflexivity]|intros s Hs; apply Hl; right; exact Hs].
Qed.

(** the clamped value lies between the lower and the upper limit the code computes ... *)
Theorem rot_clamp_limits it E D v :
  let smp := rot_centre_samples it E D in
  (fold_left rx_min smp rx_flt_max <= rot_clamp it E D v <= fold_left rx_max smp rx_flt_min)%Qc.
Proof.
  cbv zeta. unfold rot_clamp. set (smp := rot_centre_samples it E D).
  set (ceil := fold_left rx_max smp rx_flt_min). set (flor := fold_left rx_min smp rx_flt_max).
  assert (Hfc : (flor <= ceil)%Qc).
  { unfold rot_centre_samples, rot_centre_slots in smp. cbn [map] in smp.
    match goal with smp := ?s :: _ |- _ =>
      apply Qcle_trans with s; [apply (rx_fold_min_le smp rx_flt_max); left; reflexivity
                               |apply (rx_fold_max_ge smp rx_flt_min); left; reflexivity] end. }
  split; [apply rx_max_r|].
  apply rx_max_lub; [apply rx_min_l|exact Hfc].
Qed.

(** ... which is "between the smallest and the largest of the four centre samples" as soon as one sample reaches
    numeric_limits::min() = 2^-126 and none exceeds numeric_limits::max() *)
Theorem rot_clamp_between it E D v lo hi :
  (forall s, In s (rot_centre_samples it E D) -> (lo <= s <= hi)%Qc) ->
  (exists s, In s (rot_centre_samples it E D) /\ (rx_flt_min <= s)%Qc) ->
  (forall s, In s (rot_centre_samples it E D) -> (s <= rx_flt_max)%Qc) ->
  (lo <= rot_clamp it E D v <= hi)%Qc.
Proof.
  intros Hb [s0 [Hs0 Hm]] HM. destruct (rot_clamp_limits it E D v) as [A B]. split.
  - eapply Qcle_trans; [|exact A]. apply rx_fold_min_ge.
    + eapply Qcle_trans; [apply (Hb s0 Hs0)|apply HM, Hs0].
    + intros s Hs. apply (Hb s Hs).
  - eapply Qcle_trans; [exact B|]. apply rx_fold_max_le.
    + eapply Qcle_trans; [exact Hm|apply (Hb s0 Hs0)].
    + intros s Hs. apply (Hb s Hs).
Qed.

(** without the first side condition the statement fails: four centre samples equal to zero and an interpolated
    value of one give 2^-126, above every sample (the upper limit starts from numeric_limits<float>::min()) *)
Theorem rot_clamp_between_samples_refuted :
  exists (E : list (Z * Qc)) (D : Z -> Qc) (v : Qc),
    (forall s, In s (rot_centre_samples 4 E D) -> s = 0%Qc) /\ rot_clamp 4 E D v = rx_flt_min /\ (0 < rx_flt_min)%Qc.
Proof.
  exists (map (fun _ => (0, 0%Qc)) (zrange 16)), (fun _ => 0%Qc), 1%Qc. split; [|split].
  - intros s Hs. unfold rot_centre_samples in Hs. apply in_map_iff in Hs. destruct Hs as [x [E _]]. symmetry. exact E.
  - vm_compute. reflexivity.
  - vm_compute. reflexivity.
Qed.

(** ** apply: the generated cell bodies are the hand-written [rot_apply_cell] / [rot_clamp] *)
Lemma rg_fold_ext {A} (f g : A -> Z -> A) l a : (forall x j, In j l -> f x j = g x j) -> fold_left f l a = fold_left g l a.
Proof.
  revert a. induction l as [|j l IH]; intros a H; cbn [fold_left]; [reflexivity|].
  rewrite (H a j (or_introl eq_refl)). apply IH. intros x k Hk. apply H. right. exact Hk.
Qed.
Lemma rg_fold_sum (t : Z -> Qc) l acc : fold_left (fun a j => (a + t j)%Qc) l acc = (acc + qsum (map t l))%Qc.
Proof.
  revert acc. induction l as [|j l IH]; intros acc; cbn [fold_left map]; unfold qsum in *; cbn [fsum].
  - change (@f0 QcF) with 0%Qc. ring.
  - rewrite IH. change (@fadd QcF (t j) (@fsum QcF (map t l))) with (t j + @fsum QcF (map t l))%Qc. ring.
Qed.
Lemma rg_map_nth {A B} (f : A -> B) (E : list A) d :
  map (fun j => f (nth (Z.to_nat j) E d)) (zrange (Z.of_nat (length E))) = map f E.
Proof.
  apply nth_ext with (d := f d) (d' := f d).
  - rewrite !map_length. unfold zrange. rewrite map_length, seq_length. lia.
  - intros n Hn. rewrite map_length in Hn. unfold zrange in *. rewrite map_length, seq_length in Hn.
    rewrite (map_nth f E d n).
    rewrite (nth_indep _ (f d) (f (nth (Z.to_nat 0) E d))) by (rewrite !map_length, seq_length; exact Hn).
    rewrite (map_nth (fun j => f (nth (Z.to_nat j) E d)) (map Z.of_nat (seq 0 (Z.to_nat (Z.of_nat (length E))))) 0 n).
    rewrite (nth_indep _ 0 (Z.of_nat 0)) by (rewrite map_length, seq_length; exact Hn).
    rewrite map_nth, seq_nth by exact Hn. cbn [plus]. rewrite Nat2Z.id. reflexivity.
Qed.

Lemma rg_accumulate (H : Z -> Z * Qc) (D : Z -> Qc) (E : list (Z * Qc)) ip base :
  length E = Z.to_nat ip -> 0 <= ip ->
  (forall j, 0 <= j < ip -> H (base j) = nth (Z.to_nat j) E (0, 0%Qc)) ->
  fold_left (fun a j => rg_id (a + rg_id (D (fst (H (base j))) * snd (H (base j))))%Qc) (zrange ip) 0%Qc = rot_apply_cell E D.
Proof.
  intros HL Hip Hrow.
  rewrite (rg_fold_ext _ (fun a j => (a + (fun j => D (fst (nth (Z.to_nat j) E (0%Z, 0%Qc))) * snd (nth (Z.to_nat j) E (0%Z, 0%Qc)))%Qc j)%Qc)).
  2:{ intros x j Hj. unfold zrange in Hj. apply in_map_iff in Hj. destruct Hj as [n [En Hn]]. apply in_seq in Hn.
      unfold rg_id. rewrite Hrow by lia. reflexivity. }
  rewrite rg_fold_sum. unfold rot_apply_cell.
  replace ip with (Z.of_nat (length E)) by lia.
  rewrite (rg_map_nth (fun h => (D (fst h) * snd h)%Qc) E (0, 0%Qc)). ring.
Qed.

Theorem rg_fly_cell_is_model xs ys it clamp (G : Z -> Z -> (Z -> Z * Qc) -> Z -> Z * Qc) hinfo D (E : list (Z * Qc)) q p :
  length E = Z.to_nat (it * it) -> 0 <= it * it -> 0 <= q * ys + p < 2 ^ 32 ->
  (forall old j, 0 <= j < it * it -> G q p old j = nth (Z.to_nat j) E (0, 0%Qc)) ->
  gen_rot_fly_cell rg_id xs ys it (it * it) clamp G hinfo D q p = (q * ys + p, rot_apply_cell E D).
Proof.
  intros HL Hip Hc Hrow. unfold gen_rot_fly_cell. cbv zeta.
  f_equal; [wrap_norm; apply rg_wrap32_small; exact Hc|].
  apply (rg_accumulate (fun s => G q p (fun k => hinfo (0 + k)) (s - 0)) D E (it * it) (fun j => j) HL Hip).
  intros j Hj. rewrite Z.sub_0_r. apply Hrow. exact Hj.
Qed.

Lemma rg_clamp_slot i x y : 0 <= i -> (i + 1) * 16 <= 2 ^ 32 -> 0 <= x * 4 + y < 16 -> 0 <= x -> 0 <= y ->
  wrap32 (wrap32 (wrap32 (i * 16) + wrap32 (x * 4)) + y) = i * 16 + (x * 4 + y).
Proof.
  intros. rewrite (rg_wrap32_small (i * 16)) by lia. rewrite (rg_wrap32_small (x * 4)) by lia.
  rewrite (rg_wrap32_small (i * 16 + x * 4)) by lia. rewrite rg_wrap32_small by lia. lia.
Qed.

Theorem rg_table_cell_is_model xs ys it clamp (H : Z -> Z * Qc) (D : Z -> Qc) (E : list (Z * Qc)) i :
  valid_it it -> length E = Z.to_nat (it * it) -> 0 <= i -> (i + 1) * (it * it) <= 2 ^ 32 -> (clamp = true -> it = 4) ->
  (forall j, 0 <= j < it * it -> H (i * (it * it) + j) = nth (Z.to_nat j) E (0, 0%Qc)) ->
  gen_rot_table_cell rg_id xs ys it (it * it) clamp H D i = (i, rot_apply_cell_clamped it clamp E D).
Proof.
  intros Hv HL Hi Hb Hcl Hrow.
  assert (Hip : 0 < it * it) by (destruct Hv as [A|[A|[A|A]]]; subst it; lia).
  assert (Acc : fold_left (fun a j => rg_id (a + rg_id (D (fst (H (wrap32 (wrap32 (i * (it * it)) + j)%Z))) *
                                                        snd (H (wrap32 (wrap32 (i * (it * it)) + j)%Z))))%Qc) (zrange (it * it)) 0%Qc
                = rot_apply_cell E D).
  { rewrite (rg_fold_ext _ (fun a j => rg_id (a + rg_id (D (fst (H (i * (it * it) + j)%Z)) * snd (H (i * (it * it) + j)%Z)))%Qc)).
    - apply (rg_accumulate H D E (it * it) (fun j => i * (it * it) + j) HL); [lia|exact Hrow].
    - intros x j Hj. unfold zrange in Hj. apply in_map_iff in Hj. destruct Hj as [n [En Hn]]. apply in_seq in Hn.
      wrap_norm. rewrite rg_wrap32_small by nia. reflexivity. }
  unfold gen_rot_table_cell, rot_apply_cell_clamped. destruct clamp.
  - rewrite (Hcl eq_refl) in *. clear Hcl Hv.
    cbv zeta. change (4 * 4) with 16 in *. rewrite Acc.
    change (rx_span 1 (2 + 1 - 1)) with [1; 2]. cbn [fold_left].
    rewrite !rg_clamp_slot by lia.
    rewrite !Hrow by lia.
    unfold rot_clamp, rot_centre_samples, rot_centre_slots. cbn [map fold_left]. reflexivity.
  - cbv zeta. rewrite Acc. reflexivity.
Qed.

(** ** the constructors: members, refusals, and the table after the genHInfo calls of the constructor body *)
Lemma rg_in_zrange n j : In j (zrange n) <-> 0 <= j < n.
Proof.
  unfold zrange. rewrite in_map_iff. split.
  - intros [k [E H]]. apply in_seq in H. lia.
  - intros H. exists (Z.to_nat j). split; [lia|]. apply in_seq. lia.
Qed.

Lemma rg_members_ok a : valid_it (ra_it a) ->
  rg_xs a = ra_xs a /\ rg_ys a = ra_ys a /\ rg_it a = ra_it a /\ rg_ip a = ra_it a * ra_it a /\
  rg_rms a = ra_rotmapsize a /\ rg_clamp a = ra_clamp a.
Proof.
  intros Hv. repeat split.
  unfold rg_ip, gen_rot_ctor_ip. destruct Hv as [H|[H|[H|H]]]; rewrite H; reflexivity.
Qed.

(** a map that was constructed with clamping is cubic and has a precomputed table *)
Lemma rg_clamp_only_cubic_table a : rg_throws a = false -> ra_clamp a = true -> ra_it a = 4 /\ 0 < ra_rotmapsize a.
Proof. unfold rg_throws, gen_rot_ctor_throws. intros H C. rewrite C in H. lia. Qed.

Lemma rg_hinfo_size a : 0 <= ra_rotmapsize a -> 0 <= ra_it a -> ra_rotmapsize a * ra_it a * ra_it a < 2 ^ 64 ->
  gen_rot_ctor_hinfo_size (ra_xs a) (ra_ys a) (ra_it a) (ra_rotmapsize a) = Z.max (ra_rotmapsize a * (ra_it a * ra_it a)) 16.
Proof.
  intros H1 H2 H3. unfold gen_rot_ctor_hinfo_size, rx_wrap64.
  assert (0 <= ra_rotmapsize a * ra_it a) by (apply Z.mul_nonneg_nonneg; lia).
  assert (ra_rotmapsize a * ra_it a <= ra_rotmapsize a * ra_it a * ra_it a \/ ra_it a = 0) by nia.
  rewrite (Z.mod_small (ra_rotmapsize a * ra_it a)) by nia.
  rewrite Z.mod_small by nia. f_equal. ring.
Qed.

Lemma rg_fold_blocks (W : Z -> Z -> (Z -> Z * Qc) -> Z -> Z * Qc) ip (calls : list (Z * (Z * Z))) H0 :
  0 < ip ->
  (forall q p old k, ~ (0 <= k < ip) -> W q p old k = old k) ->
  (forall q p old old' k, 0 <= k < ip -> W q p old k = W q p old' k) ->
  (forall c c', In c calls -> In c' calls -> c = c' \/ fst c + ip <= fst c' \/ fst c' + ip <= fst c) ->
  forall c k, In c calls -> 0 <= k < ip ->
    fold_left (rg_call W) calls H0 (fst c + k) = W (fst (snd c)) (snd (snd c)) rg_zero k.
Proof.
  intros Hip Hout Hind. induction calls as [|c' calls IH] using rev_ind; intros Hpw c k Hc Hk; [destruct Hc|].
  rewrite fold_left_app. cbn [fold_left]. unfold rg_call at 1.
  destruct (Hpw c c') as [E|Hd].
  - exact Hc.
  - apply in_or_app. right. left. reflexivity.
  - subst c'. replace (fst c + k - fst c) with k by lia. apply Hind. exact Hk.
  - assert (Hc' : In c calls).
    { apply in_app_or in Hc. destruct Hc as [Hc|[Hc|[]]]; [exact Hc|]. subst c'. exfalso. lia. }
    rewrite Hout by lia. replace (fst c' + (fst c + k - fst c')) with (fst c + k) by lia.
    apply IH; [|exact Hc'|exact Hk].
    intros d d' Hd1 Hd2. apply Hpw; apply in_or_app; left; assumption.
Qed.

Section CtorTable.
  Variables (a : rg_args) (P : rot_par) (ax ay : Z -> Qc).
  Hypothesis Hv : valid_it (ra_it a).
  Hypothesis Hsz : 0 <= ra_xs a /\ 0 <= ra_ys a /\ ra_xs a * ra_ys a * (ra_it a * ra_it a) <= 2 ^ 32.
  Hypothesis Hfill : ra_rotmapsize a <> 0.

  Lemma rg_ctor_base q p : 0 <= q < ra_xs a -> 0 <= p < ra_ys a ->
    wrap32 (wrap32 (wrap32 (q * ra_ys a) + p) * (ra_it a * ra_it a)) = (q * ra_ys a + p) * (ra_it a * ra_it a).
  Proof.
    intros Hq Hp. wrap_norm.
    assert (0 < ra_it a * ra_it a) by (destruct Hv as [H|[H|[H|H]]]; rewrite H; lia).
    assert (q * ra_ys a + p < ra_xs a * ra_ys a) by nia.
    assert (0 <= q * ra_ys a + p) by nia.
    apply rg_wrap32_small. nia.
  Qed.

  (** what the table holds after the constructor, on the range the genHInfo calls cover, whatever it held before *)
  Theorem rg_ctor_table H0 s : 0 <= s < ra_xs a * ra_ys a * (ra_it a * ra_it a) ->
    rg_ctor_hinfo a P ax ay H0 s = rg_table a P ax ay s.
  Proof.
    intros Hs. destruct (rg_members_ok a Hv) as [Exs [Eys [Eit [Eip [Erms Ecl]]]]].
    unfold rg_ctor_hinfo, rg_table. rewrite Exs, Eys, Eit, Eip, Erms.
    unfold gen_rot_ctor_nofill. destruct (Z.eqb_spec (ra_rotmapsize a) 0) as [E|_]; [contradiction|].
    set (ip := ra_it a * ra_it a) in *.
    assert (Hip : 0 < ip) by (unfold ip; destruct Hv as [H|[H|[H|H]]]; rewrite H; lia).
    set (c := s / ip). set (k := s mod ip).
    assert (Hk : 0 <= k < ip) by (apply Z.mod_pos_bound; lia).
    assert (Hc : 0 <= c < ra_xs a * ra_ys a).
    { split; [apply Z.div_pos; lia|apply Z.div_lt_upper_bound; lia]. }
    assert (Hys : 0 < ra_ys a) by nia.
    set (q := c / ra_ys a). set (p := c mod ra_ys a).
    assert (Hp : 0 <= p < ra_ys a) by (apply Z.mod_pos_bound; lia).
    assert (Hq : 0 <= q < ra_xs a).
    { split; [apply Z.div_pos; lia|apply Z.div_lt_upper_bound; lia]. }
    assert (Es : s = (q * ra_ys a + p) * ip + k).
    { unfold q, p, k. rewrite (Z.mul_comm (c / ra_ys a)), <- (Z.div_mod c (ra_ys a)) by lia.
      unfold c. rewrite (Z.mul_comm (s / ip)), <- (Z.div_mod s ip) by lia. reflexivity. }
    rewrite Es at 1. clear Es Hc. clearbody q p k. clear c.
    refine (rg_fold_blocks (rg_G (ra_xs a) (ra_ys a) (ra_it a) ip P ax ay) ip _ H0 Hip _ _ _ ((q * ra_ys a + p) * ip, (q, p)) k _ Hk).
    - intros q' p' old k' Hk'. unfold rg_G. subst ip.
      apply (rg_genHInfo_outside QcF rnd32 rg_id Qctrunc Qcfrac (ra_xs a) (ra_ys a) (ra_it a)); assumption.
    - intros q' p' old old' k' Hk'. unfold rg_G. subst ip.
      rewrite !(rg_genHInfo_row QcF rnd32 rg_id Qctrunc Qcfrac (ra_xs a) (ra_ys a) (ra_it a)) by assumption. reflexivity.
    - intros d d' Hd Hd'. unfold gen_rot_ctor_calls in Hd, Hd'.
      apply in_flat_map in Hd. destruct Hd as [q1 [Hq1 Hd]]. apply in_map_iff in Hd. destruct Hd as [p1 [Ed Hp1]].
      apply in_flat_map in Hd'. destruct Hd' as [q2 [Hq2 Hd']]. apply in_map_iff in Hd'. destruct Hd' as [p2 [Ed' Hp2]].
      apply rg_in_zrange in Hq1, Hp1, Hq2, Hp2. subst d d'. cbn [fst].
      fold ip. unfold ip. rewrite !rg_ctor_base by assumption. fold ip. clearbody ip.
      destruct (Z.eq_dec q1 q2) as [Eq|Nq]; [destruct (Z.eq_dec p1 p2) as [Ep|Np]|].
      + left. subst q2 p2. reflexivity.
      + right. subst q2. assert (p1 < p2 \/ p2 < p1) as [L|L] by lia; [left|right]; nia.
      + right. assert (q1 < q2 \/ q2 < q1) as [L|L] by lia; [left|right].
        * assert ((q1 + 1) * ra_ys a <= q2 * ra_ys a) by (apply Z.mul_le_mono_nonneg_r; lia). nia.
        * assert ((q2 + 1) * ra_ys a <= q1 * ra_ys a) by (apply Z.mul_le_mono_nonneg_r; lia). nia.
    - unfold gen_rot_ctor_calls. apply in_flat_map. exists q. split; [apply rg_in_zrange; exact Hq|].
      apply in_map_iff. exists p. split; [|apply rg_in_zrange; exact Hp].
      f_equal. fold ip. unfold ip. rewrite rg_ctor_base by assumption. reflexivity.
  Qed.
End CtorTable.

(** ** the whole map: constructor + apply of the generated definitions = the hand-written model, cell by cell *)
Section WholeMap.
  Variables (a : rg_args) (P : rot_par) (ax ay : Z -> Qc) (H0 : Z -> Z * Qc) (D : Z -> Qc).
  Hypothesis Hv : valid_it (ra_it a).
  Hypothesis Hsz : 0 < ra_xs a /\ 0 < ra_ys a /\ ra_xs a * ra_ys a * (ra_it a * ra_it a) <= 2 ^ 32.
  Hypothesis Hdef : forall q p, 0 <= q < ra_xs a -> 0 <= p < ra_ys a -> rot_defined P (ax q) (ay p) = true.
  Hypothesis Hok : rg_throws a = false.

  Let xs := ra_xs a. Let ys := ra_ys a. Let it := ra_it a.
  Let row (q p : Z) := rot_entries xs ys it P (ax q) (ay p).

  Lemma rg_sizes32 : xs * ys <= 2 ^ 32.
  Proof.
    unfold xs, ys. assert (1 <= ra_it a * ra_it a) by (destruct Hv as [H|[H|[H|H]]]; rewrite H; lia).
    destruct Hsz as [A [B C]]. assert (0 < ra_xs a * ra_ys a) by (apply Z.mul_pos_pos; lia).
    assert (ra_xs a * ra_ys a * 1 <= ra_xs a * ra_ys a * (ra_it a * ra_it a)) by (apply Z.mul_le_mono_nonneg_l; lia). lia.
  Qed.

  (** precomputed table (rotmapsize = xs*ys): cell i of data_out gets the (clamped) interpolation over the row of grid point
      (i / ys, i mod ys) - the row the constructor wrote for that very point *)
  Theorem rg_table_map_is_model : ra_rotmapsize a = xs * ys ->
    rg_apply_writes a P ax ay (rg_ctor_hinfo a P ax ay H0) D =
    map (fun i => (i, rot_apply_cell_clamped it (ra_clamp a) (row (i / ys) (i mod ys)) D)) (zrange (xs * ys)).
  Proof.
    intros Hr. destruct (rg_members_ok a Hv) as [Exs [Eys [Eit [Eip [Erms Ecl]]]]].
    assert (Hip : 0 < it * it) by (unfold it; destruct Hv as [H|[H|[H|H]]]; rewrite H; lia).
    assert (Hne : ra_rotmapsize a <> 0).
    { rewrite Hr. unfold xs, ys. assert (0 < ra_xs a * ra_ys a) by (apply Z.mul_pos_pos; lia). lia. }
    unfold rg_apply_writes. rewrite Exs, Eys, Eit, Eip, Erms, Ecl.
    unfold gen_rot_apply_onthefly. destruct (Z.eqb_spec (ra_rotmapsize a) 0) as [E|_]; [contradiction|].
    unfold gen_rot_table_cells. rewrite Hr. fold xs ys it.
    apply map_ext_in. intros i Hi. apply rg_in_zrange in Hi.
    assert (Hq : 0 <= i / ys < xs).
    { split; [apply Z.div_pos; unfold ys; lia|apply Z.div_lt_upper_bound; unfold ys; lia]. }
    assert (Hp : 0 <= i mod ys < ys) by (apply Z.mod_pos_bound; unfold ys; lia).
    unfold row. apply rg_table_cell_is_model.
    - exact Hv.
    - exact (rot_entries_length xs ys it P (ax (i / ys)) (ay (i mod ys)) Hv).
    - lia.
    - apply Z.le_trans with (xs * ys * (it * it)); [apply Z.mul_le_mono_nonneg_r; lia|unfold xs, ys, it; lia].
    - intros Hc. apply (rg_clamp_only_cubic_table a Hok Hc).
    - intros j Hj.
      assert (Hin : 0 <= i * (it * it) + j < ra_xs a * ra_ys a * (ra_it a * ra_it a)).
      { fold xs ys it. assert ((i + 1) * (it * it) <= xs * ys * (it * it)) by (apply Z.mul_le_mono_nonneg_r; lia).
        assert (0 <= i * (it * it)) by (apply Z.mul_nonneg_nonneg; lia). lia. }
      rewrite (rg_ctor_table a P ax ay Hv) by (try exact Hin; try exact Hne; unfold xs, ys, it in *; lia).
      unfold rg_table. rewrite Exs, Eys, Eit, Eip. fold xs ys it.
      replace ((i * (it * it) + j) / (it * it)) with i
        by (rewrite Z.div_add_l by lia; rewrite Z.div_small by lia; lia).
      replace ((i * (it * it) + j) mod (it * it)) with j
        by (rewrite Z.add_comm, Z.mod_add by lia; symmetry; apply Z.mod_small; lia).
      apply (rg_generated_is_model xs ys it P ax ay (i / ys) (i mod ys) Hv).
      + pose proof rg_sizes32. unfold xs, ys in *. lia.
      + apply Hdef; assumption.
      + exact Hj.
  Qed.

  (** on-the-fly map (rotmapsize = 0): the cells in the order of the two loops *)
  Theorem rg_fly_map_is_model H : ra_rotmapsize a = 0 ->
    rg_apply_writes a P ax ay H D =
    map (fun qp => (fst qp * ys + snd qp, rot_apply_cell (row (fst qp) (snd qp)) D))
        (flat_map (fun q => map (fun p => (q, p)) (zrange ys)) (zrange xs)).
  Proof.
    intros Hr. destruct (rg_members_ok a Hv) as [Exs [Eys [Eit [Eip [Erms Ecl]]]]].
    assert (Hip : 0 < it * it) by (unfold it; destruct Hv as [H1|[H1|[H1|H1]]]; rewrite H1; lia).
    unfold rg_apply_writes. rewrite Exs, Eys, Eit, Eip, Erms, Ecl, Hr. cbn [gen_rot_apply_onthefly Z.eqb].
    unfold gen_rot_fly_cells. fold xs ys it.
    apply map_ext_in. intros [q p] Hqp. cbn [fst snd].
    apply in_flat_map in Hqp. destruct Hqp as [q' [Hq Hqp]]. apply in_map_iff in Hqp. destruct Hqp as [p' [E Hp]].
    injection E as E1 E2. subst q' p'. apply rg_in_zrange in Hq, Hp.
    pose proof rg_sizes32 as S32.
    unfold row. apply rg_fly_cell_is_model.
    - exact (rot_entries_length xs ys it P (ax q) (ay p) Hv).
    - lia.
    - assert (q * ys <= (xs - 1) * ys) by (apply Z.mul_le_mono_nonneg_r; lia).
      assert (0 <= q * ys) by (apply Z.mul_nonneg_nonneg; lia). lia.
    - intros old j Hj. apply (rg_generated_is_model xs ys it P ax ay q p Hv).
      + unfold xs, ys in *. lia.
      + apply Hdef; assumption.
      + exact Hj.
  Qed.
End WholeMap.

(** ** statements directly about the generated genHInfo (any field, any rounding of the coordinates, any split) *)
Section GeneratedFacts.
  Variable K : Fld.
  Variable rd : K -> K.
  Variable ipart : K -> Z.
  Variable fpart : K -> K.
  Local Open Scope F_scope.
  Local Open Scope Z_scope.
  Let idK : K -> K := fun x => x.

  Variables (xs ys it : Z) (cos_dt sin_dt : K) (at0 at1 : Z -> K) (d0 d1 z0 z1 : K) (x0 y0 : Z) (old : Z -> Z * K).
  Let c1 := gen_rot_c1 K rd cos_dt sin_dt at0 at1 d0 d1 z0 z1 x0 y0.
  Let c2 := gen_rot_c2 K rd cos_dt sin_dt at0 at1 d0 d1 z0 z1 x0 y0.
  Let x1 := rx_f2u (ipart c1).
  Let y1 := rx_f2u (ipart c2).

  Lemma rg_generated_row_weights (rw : K -> K) k : valid_it it -> 0 <= k < it * it -> (x1 <? xs) && (y1 <? ys) = true ->
    gen_rot_genHInfo K rd rw ipart fpart xs ys it (it * it) cos_dt sin_dt at0 at1 d0 d1 z0 z1 x0 y0 old k =
    rg_entry K rw xs ys it x1 y1 (fpart c1) (fpart c2) (k / it) (k mod it).
  Proof.
    intros Hv Hk Hg. rewrite (rg_genHInfo_row K rd rw ipart fpart) by assumption.
    unfold rg_row. fold c1 c2. fold x1 y1. rewrite Hg. reflexivity.
  Qed.

  Lemma rg_map_row (rw : K -> K) {B} (f : Z * K -> B) : valid_it it -> (x1 <? xs) && (y1 <? ys) = true ->
    map (fun k => f (gen_rot_genHInfo K rd rw ipart fpart xs ys it (it * it) cos_dt sin_dt at0 at1 d0 d1 z0 z1 x0 y0 old k)) (zrange (it * it)) =
    map (fun k => f (rg_entry K rw xs ys it x1 y1 (fpart c1) (fpart c2) (k / it) (k mod it))) (zrange (it * it)).
  Proof.
    intros Hv Hg. apply map_ext_in. intros k Hk. apply rg_in_zrange in Hk. rewrite rg_generated_row_weights by assumption. reflexivity.
  Qed.

  (** the weights genHInfo writes for a grid point whose stencil lies inside the grid sum to one *)
  Theorem rg_generated_weights_unity : valid_it it -> (x1 <? xs) && (y1 <? ys) = true -> rg_interior xs ys it x1 y1 ->
    fsum (map (fun k => snd (gen_rot_genHInfo K rd idK ipart fpart xs ys it (it * it) cos_dt sin_dt at0 at1 d0 d1 z0 z1 x0 y0 old k))
              (zrange (it * it))) = 1%F.
  Proof.
    intros Hv Hg Hin. rewrite (rg_map_row idK snd Hv Hg). apply rg_weights_unity; assumption.
  Qed.

  (** ... and reproduce every monomial x^k y^l, k, l below the order: slot i1*it+j1 (source cell (x1+i1-c, y1+j1-c))
      carries the x-weight i1 times the y-weight j1 *)
  Theorem rg_generated_poly_reproduction (k l : nat) (X Y : K) :
    valid_it it -> (x1 <? xs) && (y1 <? ys) = true -> rg_interior xs ys it x1 y1 -> Z.of_nat k < it -> Z.of_nat l < it ->
    fdot (map (fun s => snd (gen_rot_genHInfo K rd idK ipart fpart xs ys it (it * it) cos_dt sin_dt at0 at1 d0 d1 z0 z1 x0 y0 old s))
              (zrange (it * it)))
         (tensor (nodes K it X k) (nodes K it Y l)) = (fpow (X + fpart c1) k * fpow (Y + fpart c2) l)%F.
  Proof.
    intros Hv Hg Hin Hk Hl. rewrite (rg_map_row idK snd Hv Hg). apply rg_poly_reproduction; assumption.
  Qed.

  (** every index genHInfo writes addresses the xs*ys grid *)
  Theorem rg_generated_in_bounds (rw : K -> K) k : valid_it it -> 0 < xs -> 0 < ys -> 0 <= k < it * it ->
    0 <= fst (gen_rot_genHInfo K rd rw ipart fpart xs ys it (it * it) cos_dt sin_dt at0 at1 d0 d1 z0 z1 x0 y0 old k) < xs * ys.
  Proof.
    intros Hv Hx Hy Hk. rewrite (rg_genHInfo_row K rd rw ipart fpart) by assumption. unfold rg_row.
    destruct ((rx_f2u (ipart (gen_rot_c1 K rd cos_dt sin_dt at0 at1 d0 d1 z0 z1 x0 y0)) <? xs) &&
              (rx_f2u (ipart (gen_rot_c2 K rd cos_dt sin_dt at0 at1 d0 d1 z0 z1 x0 y0)) <? ys)).
    - apply rg_entry_in_bounds; assumption.
    - cbn [fst]. split; [lia|apply Z.mul_pos_pos; assumption].
  Qed.
End GeneratedFacts.

(** the local arrays of genHInfo are used inside their allocations (it = 1..4, _ip = it*it) *)
Lemma rg_Forall_bool {A} (P : A -> Prop) (b : A -> bool) l : (forall x, b x = true -> P x) -> forallb b l = true -> Forall P l.
Proof.
  intros Hb H. apply Forall_forall. intros x Hx. apply Hb. rewrite forallb_forall in H. apply H. exact Hx.
Qed.

Theorem rg_locals_in_bounds it : valid_it it ->
  Forall (fun e => 0 <= fst e < gen_rot_smc_size it (it * it)) (gen_rot_smc_slots it (it * it)) /\
  Forall (fun e => snd e <= fst e) (gen_rot_coeff_sizes it (it * it)) /\
  Forall (fun i => 0 <= gen_rot_ph_row it (it * it) i /\ gen_rot_ph_row it (it * it) i + it <= snd (gen_rot_ph_sizes it (it * it)))
         (gen_rot_ph_rows it (it * it)) /\
  Z.of_nat (length (gen_rot_ph_rows it (it * it))) <= fst (gen_rot_ph_sizes it (it * it)).
Proof.
  intros Hv. split; [|split; [|split]].
  - apply (rg_Forall_bool _ (fun e => (0 <=? fst e) && (fst e <? gen_rot_smc_size it (it * it)))); [intros x Hx; lia|].
    destruct Hv as [H|[H|[H|H]]]; subst it; vm_compute; reflexivity.
  - apply (rg_Forall_bool _ (fun e => snd e <=? fst e)); [intros x Hx; lia|].
    destruct Hv as [H|[H|[H|H]]]; subst it; vm_compute; reflexivity.
  - apply (rg_Forall_bool _ (fun i => (0 <=? gen_rot_ph_row it (it * it) i) &&
                                      (gen_rot_ph_row it (it * it) i + it <=? snd (gen_rot_ph_sizes it (it * it))))); [intros x Hx; lia|].
    destruct Hv as [H|[H|[H|H]]]; subst it; vm_compute; reflexivity.
  - destruct Hv as [H|[H|[H|H]]]; subst it; vm_compute; intro; discriminate.
Qed.

(** observation (API level; RotationMap is not used by main()): the constructor fills xs*ys blocks whatever rotmapsize is,
    the allocation holds max(rotmapsize*it*it, 16) entries.  With the documented value rotmapsize = xs*ys/2 the last block
    ends beyond the allocation (8 x 8, linear interpolation: 256 entries written into 128) *)
Lemma rg_ctor_half_table_overruns :
  let a := {| ra_xs := 8; ra_ys := 8; ra_it := 2; ra_rotmapsize := 32; ra_clamp := false |} in
  rg_throws a = false /\
  exists c, In c (gen_rot_ctor_calls (rg_xs a) (rg_ys a) (rg_it a) (rg_ip a) (ra_xs a) (ra_ys a)) /\
            gen_rot_ctor_hinfo_size (ra_xs a) (ra_ys a) (ra_it a) (ra_rotmapsize a) < fst c + rg_ip a.
Proof.
  cbv zeta. split; [reflexivity|]. exists (252, (7, 7)). split; [vm_compute; tauto|vm_compute; reflexivity].
Qed.
