(** * The generated RotationMap definitions (Gen/Gen_Rotation.v): what genHInfo writes, where; the generated
      map equals the hand-written model (Model/Rotation.v); weights, zero angle, index range, clamp.

    Part 1 works over a generic field and arbitrary rounding / split functions: the write logs of the generated
    loops are resolved (last write wins) for the four interpolation orders by computation, the C++ unsigned
    arithmetic is brought to the model's form by the idempotence of [wrap32]. *)
From Coq Require Import List ZArith QArith Qcanon Lia Bool Ring Field ZifyBool.
From Inovesa Require Import Base.FieldKit Base.Float32 Gen.Gen_Coeffs Model.Kick Model.RotX Model.Rotation
  Gen.Gen_Rotation Model.RotationGen Proofs.WeightsP Proofs.RotationP.
Import ListNotations.
Local Open Scope Z_scope.

(** ** unsigned arithmetic *)
Lemma rg_wrap32_small z : 0 <= z < 2 ^ 32 -> wrap32 z = z.
Proof. intros H. unfold wrap32. apply Z.mod_small. exact H. Qed.
Lemma rg_wrap32_idem z : wrap32 (wrap32 z) = wrap32 z.
Proof. unfold wrap32. apply Z.mod_mod. discriminate. Qed.
Lemma rg_wrap32_add_l a b : wrap32 (wrap32 a + b) = wrap32 (a + b).
Proof. unfold wrap32. apply Zplus_mod_idemp_l. Qed.
Lemma rg_wrap32_add_r a b : wrap32 (a + wrap32 b) = wrap32 (a + b).
Proof. unfold wrap32. apply Zplus_mod_idemp_r. Qed.
Lemma rg_wrap32_sub_l a b : wrap32 (wrap32 a - b) = wrap32 (a - b).
Proof. unfold wrap32. apply Zminus_mod_idemp_l. Qed.
Lemma rg_wrap32_sub_r a b : wrap32 (a - wrap32 b) = wrap32 (a - b).
Proof. unfold wrap32. apply Zminus_mod_idemp_r. Qed.
Lemma rg_wrap32_mul_l a b : wrap32 (wrap32 a * b) = wrap32 (a * b).
Proof. unfold wrap32. apply Zmult_mod_idemp_l. Qed.
Lemma rg_wrap32_mul_r a b : wrap32 (a * wrap32 b) = wrap32 (a * b).
Proof. unfold wrap32. apply Zmult_mod_idemp_r. Qed.
Lemma rg_wrap32_range z : 0 <= wrap32 z < 2 ^ 32.
Proof. unfold wrap32. apply Z.mod_pos_bound. reflexivity. Qed.

Ltac wrap_norm :=
  repeat first [ rewrite rg_wrap32_add_l | rewrite rg_wrap32_add_r | rewrite rg_wrap32_sub_l | rewrite rg_wrap32_sub_r
               | rewrite rg_wrap32_mul_l | rewrite rg_wrap32_mul_r | rewrite rg_wrap32_idem ].

Lemma rg_centre it : valid_it it -> Z.quot (it - 1) 2 = centre it.
Proof. intros [H|[H|[H|H]]]; subst; reflexivity. Qed.

(** stencil origin as coded -> as in the model *)
Lemma rg_origin it x i : valid_it it ->
  wrap32 (wrap32 (x + i) - wrap32 (Z.quot (it - 1) 2)) = wrap32 (x + i - centre it).
Proof. intros H. rewrite (rg_centre it H). wrap_norm. reflexivity. Qed.

(** ** write logs *)
Lemma rg_lookup_notin {A} (l : list (Z * A)) k acc :
  ~ In k (map fst l) -> fold_left (fun a e => if fst e =? k then Some (snd e) else a) l acc = acc.
Proof.
  revert acc. induction l as [|e l IH]; intros acc H; cbn [fold_left]; [reflexivity|].
  cbn [map In] in H. destruct (Z.eqb_spec (fst e) k) as [E|E]; [exfalso; apply H; left; exact E|].
  apply IH. intro Hi. apply H. right. exact Hi.
Qed.
Lemma rg_lookup_none {A} (l : list (Z * A)) k : ~ In k (map fst l) -> rx_lookup l k = None.
Proof. apply rg_lookup_notin. Qed.

(** closed lookups are computed *)
Ltac lookups :=
  repeat match goal with
         | |- context [rx_lookup ?l ?k] =>
           let v := eval vm_compute in (rx_lookup l k) in change (rx_lookup l k) with v
         end.

Lemma rg_cases1 i : 0 <= i < 1 -> i = 0. Proof. lia. Qed.
Lemma rg_cases2 i : 0 <= i < 2 -> i = 0 \/ i = 1. Proof. lia. Qed.
Lemma rg_cases3 i : 0 <= i < 3 -> i = 0 \/ i = 1 \/ i = 2. Proof. lia. Qed.
Lemma rg_cases4 i : 0 <= i < 4 -> i = 0 \/ i = 1 \/ i = 2 \/ i = 3. Proof. lia. Qed.
Ltac split_idx H :=
  first [ apply rg_cases1 in H | apply rg_cases2 in H | apply rg_cases3 in H | apply rg_cases4 in H ];
  repeat match type of H with _ \/ _ => destruct H as [H|H] end; subst.

  Lemma rg_then_slots_outside it k : valid_it it -> ~ (0 <= k < it * it) ->
    rx_lookup (gen_rot_then_slots it (it * it)) k = None.
  Proof.
    intros Hv Hk. apply rg_lookup_none.
    destruct Hv as [Hv|[Hv|[Hv|Hv]]]; subst it;
      match goal with |- ~ In _ ?l => let v := eval vm_compute in l in change l with v end;
      cbn [In]; lia.
  Qed.

  Lemma rg_else_slots it k : valid_it it ->
    rx_lookup (gen_rot_else_slots it (it * it)) k = if (0 <=? k) && (k <? it * it) then Some k else None.
  Proof.
    intros Hv.
    destruct ((0 <=? k) && (k <? it * it)) eqn:E.
    - assert (Hk : 0 <= k < it * it) by lia. clear E.
      destruct Hv as [Hv|[Hv|[Hv|Hv]]]; subst it.
      + assert (k = 0) by lia. subst. reflexivity.
      + assert (H : k = 0 \/ k = 1 \/ k = 2 \/ k = 3) by lia.
        repeat destruct H as [H|H]; subst; reflexivity.
      + assert (H : k = 0 \/ k = 1 \/ k = 2 \/ k = 3 \/ k = 4 \/ k = 5 \/ k = 6 \/ k = 7 \/ k = 8) by lia.
        repeat destruct H as [H|H]; subst; reflexivity.
      + assert (H : k = 0 \/ k = 1 \/ k = 2 \/ k = 3 \/ k = 4 \/ k = 5 \/ k = 6 \/ k = 7 \/ k = 8 \/ k = 9 \/ k = 10
                    \/ k = 11 \/ k = 12 \/ k = 13 \/ k = 14 \/ k = 15) by lia.
        repeat destruct H as [H|H]; subst; reflexivity.
    - apply rg_lookup_none.
      destruct Hv as [Hv|[Hv|[Hv|Hv]]]; subst it;
        match goal with |- ~ In _ ?l => let v := eval vm_compute in l in change l with v end;
        cbn [In]; lia.
  Qed.

  Lemma rg_split_slot it k : valid_it it -> 0 <= k < it * it ->
    k = (k / it) * it + k mod it /\ 0 <= k / it < it /\ 0 <= k mod it < it.
  Proof.
    intros Hv Hk. assert (0 < it) by (destruct Hv as [Hv|[Hv|[Hv|Hv]]]; lia).
    pose proof (Z.div_mod k it ltac:(lia)). pose proof (Z.mod_pos_bound k it ltac:(lia)).
    split; [lia|]. split; [|lia]. split; [apply Z.div_pos; lia|apply Z.div_lt_upper_bound; lia].
  Qed.

Section GenRowK.
  Variable K : Fld.
  Variables rd rw : K -> K.
  Variable ipart : K -> Z.
  Variable fpart : K -> K.
  Local Open Scope F_scope.
  Local Open Scope Z_scope.

  (** entry (i1, j1) of the stencil of a grid point whose split gave origin (x1, y1) and fractions (xf, yf):
      the x-weight i1 belongs to the x-offset i1 (no transposition) *)
  Definition rg_entry (xs ys it x1 y1 : Z) (xf yf : K) (i1 j1 : Z) : Z * K :=
    let i0 := wrap32 (x1 + i1 - centre it) in
    let j0 := wrap32 (y1 + j1 - centre it) in
    if (i0 <? xs) && (j0 <? ys)
    then (wrap32 (i0 * ys + j0), rw (rx_nth (coeffs it xf) i1 * rx_nth (coeffs it yf) j1)%F)
    else (0, 0%F).

  Variables (xs ys it : Z) (cos_dt sin_dt : K) (at0 at1 : Z -> K) (d0 d1 z0 z1 : K) (x0 y0 : Z).
  Let c1 := gen_rot_c1 K rd cos_dt sin_dt at0 at1 d0 d1 z0 z1 x0 y0.
  Let c2 := gen_rot_c2 K rd cos_dt sin_dt at0 at1 d0 d1 z0 z1 x0 y0.
  Let x1 := rx_f2u (ipart c1).
  Let y1 := rx_f2u (ipart c2).
  Let G := gen_rot_genHInfo K rd rw ipart fpart xs ys it (it * it) cos_dt sin_dt at0 at1 d0 d1 z0 z1 x0 y0.

  Lemma rg_genHInfo_then old i1 j1 :
    valid_it it -> (x1 <? xs) && (y1 <? ys) = true -> 0 <= i1 < it -> 0 <= j1 < it ->
    G old (i1 * it + j1) = rg_entry xs ys it x1 y1 (fpart c1) (fpart c2) i1 j1.
  Proof.
    intros Hv Hg Hi Hj. unfold G, gen_rot_genHInfo. fold c1 c2. fold x1 y1. rewrite Hg.
    unfold rg_entry.
    destruct Hv as [Hv|[Hv|[Hv|Hv]]]; subst it; split_idx Hi; split_idx Hj;
      lookups; cbv beta iota zeta; lookups; cbv beta iota zeta;
      rewrite !rg_origin by (unfold valid_it; tauto); wrap_norm; reflexivity.
  Qed.



  Lemma rg_genHInfo_else old k :
    valid_it it -> (x1 <? xs) && (y1 <? ys) = false -> 0 <= k < it * it -> G old k = (0, 0%F).
  Proof.
    intros Hv Hg Hk. unfold G, gen_rot_genHInfo. fold c1 c2. fold x1 y1. rewrite Hg.
    rewrite (rg_else_slots it k Hv). replace ((0 <=? k) && (k <? it * it)) with true by lia. reflexivity.
  Qed.

  Lemma rg_genHInfo_outside old k : valid_it it -> ~ (0 <= k < it * it) -> G old k = old k.
  Proof.
    intros Hv Hk. unfold G, gen_rot_genHInfo. fold c1 c2. fold x1 y1.
    destruct ((x1 <? xs) && (y1 <? ys)).
    - cbv zeta. rewrite (rg_then_slots_outside it k Hv Hk). reflexivity.
    - rewrite (rg_else_slots it k Hv). replace ((0 <=? k) && (k <? it * it)) with false by lia. reflexivity.
  Qed.


  (** the row of a grid point: independent of what the table held before *)
  Definition rg_row (k : Z) : Z * K :=
    if (x1 <? xs) && (y1 <? ys) then rg_entry xs ys it x1 y1 (fpart c1) (fpart c2) (k / it) (k mod it) else (0, 0%F).

  Lemma rg_genHInfo_row old k : valid_it it -> 0 <= k < it * it -> G old k = rg_row k.
  Proof.
    intros Hv Hk. unfold rg_row. destruct ((x1 <? xs) && (y1 <? ys)) eqn:Hg.
    - destruct (rg_split_slot it k Hv Hk) as [E [Hi Hj]]. rewrite E at 1. apply rg_genHInfo_then; assumption.
    - apply rg_genHInfo_else; assumption.
  Qed.
End GenRowK.

(** ** Part 2: the generated genHInfo with the model's arithmetic is the hand-written [rot_entries] *)
Lemma rg_nth_grid {A} (f : Z -> Z -> A) d it i j :
  valid_it it -> 0 <= i < it -> 0 <= j < it ->
  nth (Z.to_nat (i * it + j)) (flat_map (fun i1 => map (fun j1 => f i1 j1) (zrange it)) (zrange it)) d = f i j.
Proof.
  intros Hv Hi Hj. destruct Hv as [Hv|[Hv|[Hv|Hv]]]; subst it; split_idx Hi; split_idx Hj; reflexivity.
Qed.

Lemma rg_nth_const {A} (c d : A) n k : nth k (map (fun _ : Z => c) (zrange n)) d = c \/ nth k (map (fun _ : Z => c) (zrange n)) d = d.
Proof.
  destruct (nth_in_or_default k (map (fun _ : Z => c) (zrange n)) d) as [H|H]; [left|right; exact H].
  apply in_map_iff in H. destruct H as [x [E _]]. symmetry. exact E.
Qed.

Lemma rot_entries_length xs ys it P q p : valid_it it -> length (rot_entries xs ys it P q p) = Z.to_nat (it * it).
Proof.
  intros Hv. unfold rot_entries. destruct ((Qctrunc (rot_x P q p) <? xs) && (Qctrunc (rot_y P q p) <? ys)).
  - destruct Hv as [Hv|[Hv|[Hv|Hv]]]; subst it; reflexivity.
  - rewrite map_length. unfold zrange. rewrite map_length, seq_length. reflexivity.
Qed.

Lemma rg_abs_range tx ty :
  (0 <=? tx) && (tx <? 2 ^ 32) && ((0 <=? ty) && (ty <? 2 ^ 32)) = true -> 0 <= tx < 2 ^ 32 /\ 0 <= ty < 2 ^ 32.
Proof. lia. Qed.
Lemma rot_defined_range P q p :
  rot_defined P q p = true -> 0 <= Qctrunc (rot_x P q p) < 2 ^ 32 /\ 0 <= Qctrunc (rot_y P q p) < 2 ^ 32.
Proof. unfold rot_defined. apply rg_abs_range. Qed.

Section GenIsModel.
  Variables (xs ys it : Z) (P : rot_par) (ax ay : Z -> Qc) (x0 y0 : Z).
  Hypothesis Hv : valid_it it.
  Hypothesis Hsz : 0 < xs /\ 0 < ys /\ xs * ys <= 2 ^ 32.
  Hypothesis Hdef : rot_defined P (ax x0) (ay y0) = true.

  Lemma rg_c1_is_rot_x : gen_rot_c1 QcF rnd32 (rp_cos P) (rp_sin P) ax ay (rp_d0 P) (rp_d1 P) (rp_z0 P) (rp_z1 P) x0 y0
                         = rot_x P (ax x0) (ay y0).
  Proof. reflexivity. Qed.
  Lemma rg_c2_is_rot_y : gen_rot_c2 QcF rnd32 (rp_cos P) (rp_sin P) ax ay (rp_d0 P) (rp_d1 P) (rp_z0 P) (rp_z1 P) x0 y0
                         = rot_y P (ax x0) (ay y0).
  Proof. reflexivity. Qed.

  Lemma rg_entry_is_model (X Y : Qc) k :
    0 <= Qctrunc X < 2 ^ 32 -> 0 <= Qctrunc Y < 2 ^ 32 -> 0 <= k < it * it ->
    (if (rx_f2u (Qctrunc X) <? xs) && (rx_f2u (Qctrunc Y) <? ys)
     then rg_entry QcF rg_id xs ys it (rx_f2u (Qctrunc X)) (rx_f2u (Qctrunc Y)) (Qcfrac X) (Qcfrac Y) (k / it) (k mod it)
     else (0, 0%Qc)) =
    nth (Z.to_nat k)
      (let x1 := Qctrunc X in let y1 := Qctrunc Y in let xf := Qcfrac X in let yf := Qcfrac Y in
       if (x1 <? xs) && (y1 <? ys) then
         let wq := coeffs (K:=QcF) it xf in
         let wp := coeffs (K:=QcF) it yf in
         flat_map (fun i1 =>
           map (fun j1 =>
             let i0 := wrap32 (x1 + i1 - centre it) in
             let j0 := wrap32 (y1 + j1 - centre it) in
             if (i0 <? xs) && (j0 <? ys)
             then (i0 * ys + j0, (nthQ wq i1 * nthQ wp j1)%Qc)
             else (0, 0%Qc)) (zrange it)) (zrange it)
       else map (fun _ => (0, 0%Qc)) (zrange (it * it))) (0, 0%Qc).
  Proof.
    intros HX HY Hk. cbv zeta.
    assert (EX : rx_f2u (Qctrunc X) = Qctrunc X) by (unfold rx_f2u; apply rg_wrap32_small; lia).
    assert (EY : rx_f2u (Qctrunc Y) = Qctrunc Y) by (unfold rx_f2u; apply rg_wrap32_small; lia).
    rewrite EX, EY. clear EX EY.
    generalize dependent (Qctrunc X). intros tx HX. generalize dependent (Qctrunc Y). intros ty HY.
    generalize (Qcfrac X) as xf, (Qcfrac Y) as yf. intros xf yf.
    destruct ((tx <? xs) && (ty <? ys)) eqn:Hg.
    - destruct (rg_split_slot it k Hv Hk) as [E [Hi Hj]].
      rewrite E at 3.
      rewrite (rg_nth_grid _ _ it (k / it) (k mod it) Hv Hi Hj).
      unfold rg_entry. cbv zeta.
      pose proof (rg_wrap32_range (tx + k / it - centre it)) as H. pose proof (rg_wrap32_range (ty + k mod it - centre it)) as H0.
      generalize dependent (wrap32 (tx + k / it - centre it)). intros i0 H.
      generalize dependent (wrap32 (ty + k mod it - centre it)). intros j0 H0.
      destruct ((i0 <? xs) && (j0 <? ys)) eqn:Hr; [|reflexivity].
      assert (Hm : i0 * ys <= (xs - 1) * ys) by (apply Z.mul_le_mono_nonneg_r; lia).
      assert (Hn : 0 <= i0 * ys) by (apply Z.mul_nonneg_nonneg; lia).
      rewrite rg_wrap32_small by lia.
      reflexivity.
    - destruct (rg_nth_const (0, 0%Qc) (0, 0%Qc) (it * it) (Z.to_nat k)) as [E|E]; rewrite E; reflexivity.
  Qed.

  (** entry k of the block genHInfo(x0, y0, .) writes = entry k of the hand-written row of the point (ax x0, ay y0) *)
  Theorem rg_generated_is_model old k : 0 <= k < it * it ->
    rg_G xs ys it (it * it) P ax ay x0 y0 old k = nth (Z.to_nat k) (rot_entries xs ys it P (ax x0) (ay y0)) (0, 0%Qc).
  Proof.
    intros Hk. unfold rg_G. rewrite (rg_genHInfo_row QcF rnd32 rg_id Qctrunc Qcfrac) by assumption.
    unfold rg_row. rewrite rg_c1_is_rot_x, rg_c2_is_rot_y.
    destruct (rot_defined_range P (ax x0) (ay y0) Hdef) as [HX HY].
    unfold rot_entries.
    exact (rg_entry_is_model (rot_x P (ax x0) (ay y0)) (rot_y P (ax x0) (ay y0)) k HX HY Hk).
  Qed.
End GenIsModel.
