(** * Kick maps on the whole bunch-major grid: conservation, bunch independence, whole shifts. *)
From Coq Require Import List ZArith QArith Qcanon Lia Bool Ring Field.
From Inovesa Require Import Base.FieldKit Base.Sums Base.Float32 Gen.Gen_Coeffs Model.Kick
  Proofs.WeightsP Proofs.KickP.
Import ListNotations.
Local Open Scope Z_scope.

(** ** decoding a flat index *)

Lemma div_lin q m k : 0 <= k < m -> (q * m + k) / m = q.
Proof. intros H. symmetry. apply (Z.div_unique_pos _ _ q k); lia. Qed.
Lemma mod_lin q m k : 0 <= k < m -> (q * m + k) mod m = k.
Proof. intros H. symmetry. apply (Z.mod_unique_pos _ _ q k); lia. Qed.

Lemma cell_decode n b x y :
  0 < n -> 0 <= b -> 0 <= x < n -> 0 <= y < n ->
  let i := (b * n + x) * n + y in
  cell_b n i = b /\ cell_x n i = x /\ cell_y n i = y.
Proof.
  intros Hn Hb Hx Hy i. unfold cell_b, cell_x, cell_y, i.
  assert (E1 : ((b * n + x) * n + y) / n = b * n + x).
  { rewrite Z.add_comm, Z.div_add by lia. rewrite Z.div_small by lia. lia. }
  assert (E2 : ((b * n + x) * n + y) mod n = y).
  { rewrite Z.add_comm, Z.mod_add by lia. apply Z.mod_small; lia. }
  assert (E3 : ((b * n + x) * n + y) / (n * n) = b).
  { rewrite <- Z.div_div by lia. rewrite E1.
    rewrite Z.add_comm, Z.div_add by lia. rewrite Z.div_small by lia. lia. }
  rewrite E1, E2, E3. repeat split.
  rewrite Z.add_comm, Z.mod_add by lia. apply Z.mod_small; lia.
Qed.

Lemma didx_flat n b x y : didx n b x y = (b * n + x) * n + y.
Proof. unfold didx. ring. Qed.

(** sum over the flat grid = triple sum *)
Lemma sum_grid (n nb : Z) (g : Z -> Qc) :
  0 <= n -> 0 <= nb ->
  sumQ 0 (Z.to_nat (nb * n * n)) g =
  sumQ 0 (Z.to_nat nb) (fun b => sumQ 0 (Z.to_nat n) (fun x => sumQ 0 (Z.to_nat n)
     (fun y => g ((b * n + x) * n + y)))).
Proof.
  intros Hn Hb.
  replace (Z.to_nat (nb * n * n)) with ((Z.to_nat nb * Z.to_nat n) * Z.to_nat n)%nat by nia.
  rewrite sumQ_flatten, sumQ_flatten.
  apply (sumZ_ext QcF). intros b Hb'. apply (sumZ_ext QcF). intros x Hx. apply (sumZ_ext QcF).
  intros y Hy. f_equal. rewrite !Z2Nat.id by lia. ring.
Qed.

(** ** charge conservation of a kick along y (RF kick, wake kick) *)

Theorem kick_y_conserves n nb it (offs D : Z -> Qc) :
  valid_it it -> 0 < n < 2 ^ 30 -> 0 < nb ->
  (forall b x, 0 <= b < nb -> 0 <= x < n ->
     row_ok n it (offs (Z.min b (nb - 1) * n + x)) (rtrunc n (fun y => D (didx n b x y)))) ->
  sumQ 0 (Z.to_nat (nb * n * n)) (apply_y n nb it (updateSM n it offs) D) =
  sumQ 0 (Z.to_nat (nb * n * n)) D.
Proof.
  intros Hv Hn Hnb Hrow. destruct (valid_it_range it Hv) as [Hi Hc].
  rewrite !sum_grid by lia.
  apply (sumZ_ext QcF). intros b Hb. apply (sumZ_ext QcF). intros x Hx.
  rewrite Z2Nat.id in Hb, Hx by lia.
  rewrite (sumZ_ext QcF _ _ _ (row_out n it (sm_entry n it (offs (Z.min b (nb - 1) * n + x)))
                                  (fun ys => D (didx n b x ys)))).
  - rewrite sm_row_conserves_trunc by (auto; apply Hrow; lia).
    apply (sumZ_ext QcF). intros y Hy. rewrite didx_flat. reflexivity.
  - intros y Hy. rewrite Z2Nat.id in Hy by lia.
    unfold apply_y. destruct (cell_decode n b x y) as (-> & -> & ->); try lia.
    unfold apply_y_cell, row_out. f_equal. apply map_ext_in. intros j Hj.
    unfold zrange in Hj. apply in_map_iff in Hj. destruct Hj as (k & <- & Hk). apply in_seq in Hk.
    unfold updateSM, hidx_y.
    rewrite (div_lin (Z.min b (nb - 1) * n + x) it (Z.of_nat k)) by lia.
    rewrite (mod_lin (Z.min b (nb - 1) * n + x) it (Z.of_nat k)) by lia.
    reflexivity.
Qed.

(** ** charge conservation of a kick along x (drift) *)

Theorem kick_x_conserves n nb it (offs D : Z -> Qc) :
  valid_it it -> 0 < n < 2 ^ 30 -> 0 < nb ->
  (forall b y, 0 <= b < nb -> 0 <= y < n ->
     row_ok n it (offs y) (rtrunc n (fun x => D (didx n b x y)))) ->
  sumQ 0 (Z.to_nat (nb * n * n)) (apply_x n nb it (updateSM n it offs) D) =
  sumQ 0 (Z.to_nat (nb * n * n)) D.
Proof.
  intros Hv Hn Hnb Hrow. destruct (valid_it_range it Hv) as [Hi Hc].
  rewrite !sum_grid by lia.
  apply (sumZ_ext QcF). intros b Hb. rewrite Z2Nat.id in Hb by lia.
  rewrite (sumZ_swap QcF), (sumZ_swap QcF 0 (Z.to_nat n) 0 (Z.to_nat n) (fun x y => D _)).
  apply (sumZ_ext QcF). intros y Hy. rewrite Z2Nat.id in Hy by lia.
  rewrite (sumZ_ext QcF _ _ _ (row_out n it (sm_entry n it (offs y)) (fun xs => D (didx n b xs y)))).
  - rewrite sm_row_conserves_trunc by (auto; apply Hrow; lia).
    apply (sumZ_ext QcF). intros x Hx. rewrite didx_flat. reflexivity.
  - intros x Hx. rewrite Z2Nat.id in Hx by lia.
    unfold apply_x. destruct (cell_decode n b x y) as (-> & -> & ->); try lia.
    unfold apply_x_cell, row_out. f_equal. apply map_ext_in. intros j Hj.
    unfold zrange in Hj. apply in_map_iff in Hj. destruct Hj as (k & <- & Hk). apply in_seq in Hk.
    unfold updateSM, hidx_x.
    rewrite (div_lin y it (Z.of_nat k)) by lia.
    rewrite (mod_lin y it (Z.of_nat k)) by lia.
    reflexivity.
Qed.

(** ** bunch independence (C08): a slice of the multi-bunch kick is the single-bunch kick
    of that slice with that bunch's block of the offset vector *)

Theorem apply_y_slice n nb it (offs D : Z -> Qc) b x y :
  valid_it it -> 0 < n -> 0 < nb -> 0 <= b < nb -> 0 <= x < n -> 0 <= y < n ->
  apply_y n nb it (updateSM n it offs) D (didx n b x y) =
  apply_y n 1 it (updateSM n it (fun i => offs (b * n + i))) (fun i => D (b * n * n + i))
          (didx n 0 x y).
Proof.
  intros Hv Hn Hnb Hb Hx Hy. destruct (valid_it_range it Hv) as [Hi Hc].
  unfold apply_y. rewrite !didx_flat.
  destruct (cell_decode n b x y) as (-> & -> & ->); try lia.
  destruct (cell_decode n 0 x y) as (-> & -> & ->); try lia.
  unfold apply_y_cell, row_out. f_equal. apply map_ext_in. intros j Hj.
  unfold zrange in Hj. apply in_map_iff in Hj. destruct Hj as (k & <- & Hk). apply in_seq in Hk.
  unfold updateSM, hidx_y.
  replace (Z.min b (nb - 1)) with b by lia. replace (Z.min 0 (1 - 1)) with 0 by lia.
  rewrite (div_lin (b * n + x) it (Z.of_nat k)) by lia.
  rewrite (mod_lin (b * n + x) it (Z.of_nat k)) by lia.
  rewrite (div_lin (0 * n + x) it (Z.of_nat k)) by lia.
  rewrite (mod_lin (0 * n + x) it (Z.of_nat k)) by lia.
  cbv zeta. replace (b * n + (0 * n + x)) with (b * n + x) by ring.
  set (ys := wrap32 _). replace (b * n * n + didx n 0 x ys) with (didx n b x ys) by (unfold didx; ring).
  reflexivity.
Qed.

Theorem apply_x_slice n nb it (offs D : Z -> Qc) b x y :
  valid_it it -> 0 < n -> 0 < nb -> 0 <= b < nb -> 0 <= x < n -> 0 <= y < n ->
  apply_x n nb it (updateSM n it offs) D (didx n b x y) =
  apply_x n 1 it (updateSM n it offs) (fun i => D (b * n * n + i)) (didx n 0 x y).
Proof.
  intros Hv Hn Hnb Hb Hx Hy.
  unfold apply_x. rewrite !didx_flat.
  destruct (cell_decode n b x y) as (-> & -> & ->); try lia.
  destruct (cell_decode n 0 x y) as (-> & -> & ->); try lia.
  unfold apply_x_cell, row_out. f_equal. apply map_ext_in. intros j Hj.
  unfold hidx_x. cbv zeta.
  set (xs := wrap32 _). replace (b * n * n + didx n 0 xs y) with (didx n b xs y) by (unfold didx; ring).
  reflexivity.
Qed.

(** ** whole-cell shifts (C02): for an integer offset that fits the grid the kick returns the
    input moved by that many cells, for *all* data, zeros flowing in from outside.
    The float rounding of [n/2 + m] is the identity on small integers: shown by an
    exhaustive sweep of [0, 4096) inside the kernel, hence the bound [n <= 4096]. *)

Lemma Qcz_add a b : (Qcz a + Qcz b)%Qc = Qcz (a + b).
Proof.
  apply Qc_is_canon. unfold Qcz, Qcplus, Q2Qc; cbn [this]. rewrite !Qred_correct.
  unfold Qeq, Qplus, inject_Z; cbn. lia.
Qed.

Definition int_split_ok (k : Z) : bool :=
  let p := rnd32 (Qcz k) in
  (Qc_eq_bool p (Qcz k) && (Qctrunc p =? k) && Qc_eq_bool (Qcfrac p) 0%Qc)%bool.

Lemma int_split_sweep : forallb int_split_ok (zrange 4096) = true.
Proof. vm_compute. reflexivity. Qed.

Lemma int_split k : 0 <= k < 4096 ->
  Qctrunc (rnd32 (Qcz k)) = k /\ Qcfrac (rnd32 (Qcz k)) = 0%Qc.
Proof.
  intros Hk. pose proof int_split_sweep as S. rewrite forallb_forall in S.
  assert (I : In k (zrange 4096)).
  { unfold zrange. apply in_map_iff. exists (Z.to_nat k). split; [lia|]. apply in_seq. lia. }
  specialize (S k I). unfold int_split_ok in S.
  apply andb_true_iff in S. destruct S as [S S3]. apply andb_true_iff in S. destruct S as [S1 S2].
  split; [apply Z.eqb_eq; exact S2 | apply Qc_eq_bool_correct; exact S3].
Qed.

Lemma poffs_split_int n m :
  0 < n <= 4096 -> 0 <= n / 2 + m < n ->
  sp_int (poffs_split n (Qcz m)) = n / 2 + m /\ sp_frac (poffs_split n (Qcz m)) = 0%Qc.
Proof.
  intros Hn Hm. unfold poffs_split; cbn [sp_int sp_frac]. rewrite Qcz_add. apply int_split. lia.
Qed.

Lemma qsum_single (g : Z -> Qc) it c :
  0 <= c < it -> (forall j, 0 <= j < it -> j <> c -> g j = 0%Qc) ->
  qsum (map g (zrange it)) = g c.
Proof.
  intros Hc Hz. rewrite qsum_zrange.
  replace (Z.to_nat it) with (Z.to_nat c + (1 + Z.to_nat (it - c - 1)))%nat by lia.
  rewrite !sumZ_app. cbn [sumZ].
  rewrite (sumZ_zero QcF 0) by (intros i Hi; apply Hz; lia).
  rewrite (sumZ_zero QcF (0 + Z.of_nat (Z.to_nat c) + Z.of_nat 1)) by (intros i Hi; apply Hz; lia).
  replace (0 + Z.of_nat (Z.to_nat c)) with c by lia. qc_unf; ring.
Qed.

Lemma nthQ_unit_at it j :
  valid_it it -> 0 <= j < it ->
  nthQ (unit_at (K:=QcF) it) j = if j =? centre it then 1%Qc else 0%Qc.
Proof.
  intros Hv Hj.
  assert (C : j = 0 \/ j = 1 \/ j = 2 \/ j = 3) by (destruct Hv as [H|[H|[H|H]]]; lia).
  destruct Hv as [H|[H|[H|H]]]; subst it; destruct C as [C|[C|[C|C]]]; subst j; try lia; reflexivity.
Qed.

Theorem whole_shift_exact n it m (r : Z -> Qc) y :
  valid_it it -> 0 < n <= 4096 -> 0 <= n / 2 + m < n -> 0 <= y < n ->
  row_out n it (sm_entry n it (Qcz m)) r y =
  if ((0 <=? y + m) && (y + m <? n))%bool then r (y + m) else 0%Qc.
Proof.
  intros Hv Hn Hm Hy. destruct (valid_it_range it Hv) as [Hi Hc].
  destruct (poffs_split_int n m Hn Hm) as [Ei Ef].
  assert (Hh : 0 <= n / 2 <= n) by (split; [apply Z.div_pos; lia | apply Z.div_le_upper_bound; lia]).
  (* the weights are the unit vector at the stencil centre *)
  assert (W : forall j, 0 <= j < it ->
              snd (sm_entry n it (Qcz m) j) = if (j =? centre it) then snd (sm_entry n it (Qcz m) j) else 0%Qc).
  { intros j Hj. destruct (Z.eqb_spec j (centre it)) as [E|E]; [reflexivity|].
    unfold sm_entry. rewrite Ei, Ef.
    destruct ((0 <=? n / 2 + m) && (n / 2 + m <? n))%bool; [|reflexivity].
    destruct (wrap32 (n / 2 + m + j - centre it) <? n); [|reflexivity]. cbn [snd].
    replace (coeffs (K:=QcF) it 0%Qc) with (unit_at (K:=QcF) it)
      by (symmetry; exact (coeffs_at_zero QcF it Hv)).
    rewrite nthQ_unit_at by assumption. apply Z.eqb_neq in E. rewrite E. reflexivity. }
  unfold row_out.
  rewrite (qsum_single _ it (centre it)); try lia.
  - unfold sm_entry. rewrite Ei, Ef. 
    assert (E0 : (0 <=? n / 2 + m) = true) by (apply Z.leb_le; lia).
    assert (E1 : (n / 2 + m <? n) = true) by (apply Z.ltb_lt; lia). rewrite E0, E1. cbn [andb].
    replace (n / 2 + m + centre it - centre it) with (n / 2 + m) by lia.
    rewrite (wrap32_small (n / 2 + m)) by (change (2 ^ 32) with 4294967296; lia). rewrite E1. cbn [fst snd].
    replace (y + (n / 2 + m) - n / 2) with (y + m) by lia.
    rewrite in_grid_spec by (change (2 ^ 31) with 2147483648; lia).
    destruct (Z.leb_spec 0 (y + m)) as [P|N]; destruct (Z.ltb_spec (y + m) n) as [L|G]; cbn [andb];
      try reflexivity.
    rewrite wrap32_small by (change (2 ^ 32) with 4294967296; lia).
    replace (coeffs (K:=QcF) it 0%Qc) with (unit_at (K:=QcF) it)
      by (symmetry; exact (coeffs_at_zero QcF it Hv)).
    rewrite nthQ_unit_at by (assumption || lia). rewrite Z.eqb_refl. apply Qcmult_1_r.
  - intros j Hj Hne. cbv zeta. rewrite (W j Hj).
    apply Z.eqb_neq in Hne. rewrite Hne.
    destruct (wrap32 _ <? n); [apply Qcmult_0_r | reflexivity].
Qed.
