(** Tactics shared by the proofs about Gen/Gen_Scaling.v (no lemmas: a statement that fails for one property must
    not take another property's file down with it). *)
From Coq Require Import List ZArith Bool Field.
From Inovesa Require Import Base.FieldKit Model.ScalingOps Gen.Gen_Scaling.

(** unfold every generated definition and its let-bindings *)
Ltac open_gen :=
  unfold gen_angle, gen_slip, gen_e1, gen_dt, gen_revolutionpart, gen_rdtn_revolutionpart,
    gen_t_sync, gen_h5_time, gen_f_rev, gen_h5_f_rev, gen_dynrf_revolutionpart, gen_sinrf_revolutionpart,
    gen_sinrf_V_RF, gen_sinrf_f_RF, gen_sinrf_V0, gen_linrf_f_RF, gen_drift_E0, gen_E0, gen_sigma_delta,
    gen_fmax, gen_R_bend in *;
  cbv zeta in *.

(** decide the conditionals of the goal with the hypotheses [_ = true] / [_ = false] of the context *)
Ltac use_guards :=
  repeat match goal with
         | H : ?c = true |- context [if ?c then _ else _] => rewrite H
         | H : ?c = false |- context [if ?c then _ else _] => rewrite H
         end.

(** field identity whose side conditions are hypotheses *)
Ltac field_hyps := first [ reflexivity | field; repeat split; assumption ].
