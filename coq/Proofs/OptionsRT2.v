(** C13, second wave: the two run-time hypotheses of [roundtrip_thm] are theorems.
    (1) every entry of the variables map of a state that [parse] returns is well formed for its option
        ([vm_ok]: a scalar holds exactly one well-formed token, a vector at least one, all well formed) -
        in particular typed entries are never empty;
    (2) re-reading the file that [save] writes does not fail ([reload_runs]): it contains only names the
        file parser knows, one line per scalar, and tokens that are well formed for their option.
    Both need a law about the glue (ostream << / lexical_cast), stated explicitly as [reparse_lawb]: the
    tokens that save() writes *without a well-formed input token standing behind them* - a default of the
    table, the implicit `true` of a switch, the literal 0 of the alpha0 rule - are read back as values of
    the option's type.  For tokens that were read, save writes the token itself ([fmt_reparse]: with
    max_digits10 digits the text denotes the value it was made from - the model's token identity). *)
From Coq Require Import List String ZArith Bool Lia.
From Inovesa Require Import Model.OptionsTypes Model.Options Proofs.OptionsP Proofs.OptionsThm Proofs.OptionsRT.
Import ListNotations.
Local Open Scope list_scope.

Section RT2.
  Variable T : list opt.
  Variable wf : cty -> tok -> bool.
  Variable W : wrules.
  Variable zerotok : tok -> bool.
  Variable round6 : cty -> tok -> tok.
  Notation find_opt := (find_opt T).
  Notation sopt := (save_opt W zerotok round6).

  (* ---------------------------------------------------------------------------------------- *)
  (** * the law about formatting and re-reading *)
  Definition reparse_lawb : bool :=
    forallb (fun o =>
               match o_defcli o with Some d => wf (o_ty o) d | None => true end
               && match o_deffile o with Some d => wf (o_ty o) d | None => true end
               && (negb (o_implicit o) || wf (o_ty o) tok_true)
               && (negb (String.eqb (o_name o) (w_alpha_name W)) || wf (o_ty o) tok_zero)) T.

  Lemma law_facts : reparse_lawb = true -> forall o, In o T ->
    (forall incli d, def_of incli o = Some d -> wf (o_ty o) d = true)
    /\ (o_implicit o = true -> wf (o_ty o) tok_true = true)
    /\ (o_name o = w_alpha_name W -> wf (o_ty o) tok_zero = true).
  Proof.
    unfold reparse_lawb. intros L o Io. rewrite forallb_forall in L. specialize (L o Io).
    apply andb_prop in L as [L L4]. apply andb_prop in L as [L L3]. apply andb_prop in L as [L1 L2].
    repeat split.
    - intros [|] d D; cbn [def_of] in D; rewrite D in *; assumption.
    - intro I. rewrite I in L3. exact L3.
    - intro E. rewrite E, String.eqb_refl in L4. exact L4.
  Qed.

  (** what is written for a token that was read is the token (the text written with max_digits10 digits
      denotes the value it was made from) *)
  Lemma fmt_reparse ty t : w_precise W = true -> fmtv W round6 ty t = t.
  Proof. unfold fmtv. now intros ->. Qed.

  (* ---------------------------------------------------------------------------------------- *)
  (** * well-formed entries *)
  Definition vals_ok (o : opt) (v : list tok) : bool :=
    match o_ty o with
    | TVecFloat => match v with [] => false | _ => forallb (wf TVecFloat) v end
    | TFlag => true
    | ty => match v with [t] => wf ty t | _ => false end
    end.
  Definition entry_ok (n : string) (e : entry) : Prop := exists o, find_opt n = Some o /\ vals_ok o (fst e) = true.
  Definition vm_ok (vm : vmap) : Prop := forall n e, vm n = Some e -> entry_ok n e.

  Lemma vals_ok_ty o1 o2 v : o_ty o1 = o_ty o2 -> vals_ok o1 v = vals_ok o2 v.
  Proof. unfold vals_ok. now intros ->. Qed.

  Lemma vals_ok_facts o v : typed o = true -> vals_ok o v = true ->
    (forall t, In t v -> wf (o_ty o) t = true) /\ v <> [] /\ (o_ty o <> TVecFloat -> exists t, v = [t]).
  Proof.
    unfold typed, vals_ok. intros Ty H.
    destruct (o_ty o) eqn:E; try discriminate;
      try (destruct v as [|t [|t2 r]]; try discriminate;
           repeat split; [intros t' [<-|[]]; exact H | discriminate | intros _; now exists t]).
    destruct v as [|t r]; [discriminate|]. repeat split; [|discriminate|congruence].
    intros t' I. rewrite forallb_forall in H. auto.
  Qed.

  Lemma sem_parse_scalar o incli t :
    typed o = true -> o_ty o <> TVecFloat -> wf (o_ty o) t = true -> sem_parse wf o incli None [t] = Some [t].
  Proof.
    unfold typed, sem_parse. intros Ty NV Wt.
    destruct (o_ty o); try discriminate; try congruence; now rewrite Wt.
  Qed.

  Lemma sem_parse_vec o incli cur t :
    o_ty o = TVecFloat -> wf TVecFloat t = true ->
    sem_parse wf o incli cur [t] = Some (match cur with Some v => v ++ [t] | None => [t] end).
  Proof. unfold sem_parse. intros -> Wt. cbn [forallb]. now rewrite Wt. Qed.

  Lemma sem_parse_ok o incli cur toks v :
    (o_implicit o = true -> wf (o_ty o) tok_true = true) ->
    (forall c, cur = Some c -> vals_ok o c = true) ->
    sem_parse wf o incli cur toks = Some v -> vals_ok o v = true.
  Proof.
    unfold sem_parse, vals_ok. intros Im Hc.
    destruct (o_ty o) eqn:E;
      try (destruct cur as [c|]; [discriminate|]; destruct toks as [|t [|t2 r]]; try discriminate;
           [ destruct (incli && o_implicit o) eqn:A; [|discriminate]; apply andb_prop in A as [_ A];
             intro H; injection H as <-; exact (Im A)
           | destruct (wf _ t) eqn:Wt; [|discriminate]; intro H; injection H as <-; exact Wt ]).
    - (* vector *)
      destruct toks as [|t r]; [discriminate|].
      destruct (forallb (wf TVecFloat) (t :: r)) eqn:F; [|discriminate].
      intro H. injection H as <-. destruct cur as [c|].
      + specialize (Hc c eq_refl). destruct c as [|c0 c']; [discriminate|].
        change ((c0 :: c') ++ t :: r) with (c0 :: (c' ++ t :: r)).
        change (forallb (wf TVecFloat) (c0 :: c' ++ t :: r)) with (forallb (wf TVecFloat) ((c0 :: c') ++ t :: r)).
        rewrite forallb_app, Hc, F. reflexivity.
      + exact F.
    - (* flag *) reflexivity.
  Qed.

  Hypothesis LAW : reparse_lawb = true.

  Lemma store_items_ok incli fin items : forall vm vm',
    vm_ok vm -> store_items T wf incli fin items vm = Some vm' -> vm_ok vm'.
  Proof.
    induction items as [|[m toks] r IH]; intros vm vm' OK H.
    - cbn in H. now injection H as <-.
    - cbn [store_items] in H. destruct (fin m); [eapply IH; eauto|].
      destruct (find_opt m) as [o|] eqn:Fo; [|discriminate].
      destruct (sem_parse wf o incli (expl (vm m)) toks) as [v|] eqn:Sp; [|discriminate].
      eapply IH; [|exact H]. intros n e Hn. unfold upd in Hn. destruct (String.eqb n m) eqn:E.
      + apply String.eqb_eq in E. subst n. injection Hn as <-. exists o. split; [assumption|]. cbn [fst].
        destruct (find_opt_name T m o Fo) as [_ Io].
        eapply sem_parse_ok; [apply (law_facts LAW o Io) | | exact Sp].
        intros c Hc. destruct (vm m) as [[c' [|]]|] eqn:Vm; cbn [expl] in Hc; try discriminate.
        injection Hc as ->. destruct (OK m _ Vm) as (o' & Fo' & V'). rewrite Fo in Fo'. injection Fo' as <-. exact V'.
      + now apply OK.
  Qed.

  Lemma add_defaults_ok incli vm : vm_ok vm -> vm_ok (add_defaults T incli vm).
  Proof.
    intros OK n e H. unfold add_defaults in H. destruct (vm n) as [e'|] eqn:V.
    - injection H as <-. now apply OK.
    - destruct (find_opt n) as [o|] eqn:Fo; [|discriminate].
      destruct (in_grp incli o); [|discriminate].
      destruct (def_of incli o) as [d|] eqn:D; [|discriminate]. cbn in H. injection H as <-.
      exists o. split; [exact Fo|]. cbn [fst].
      destruct (find_opt_name T n o Fo) as [_ Io].
      pose proof (proj1 (law_facts LAW o Io) incli d D) as Wd.
      unfold vals_ok. destruct (o_ty o); cbn [forallb]; rewrite ?Wd; reflexivity.
  Qed.

  Lemma fold_alias_ok vm ac : alias_ok T ac = true -> vm_ok vm -> vm_ok (fold_alias vm ac).
  Proof.
    destruct ac as [a c]. intros A OK. unfold alias_ok in A. cbn [fst snd] in A.
    destruct (find_opt a) as [oa|] eqn:Fa; [|discriminate].
    destruct (find_opt c) as [oc|] eqn:Fc; [|discriminate].
    repeat (apply andb_prop in A as [A ?]).
    assert (TY : o_ty oa = o_ty oc) by (now apply cty_eqb_eq).
    unfold fold_alias. destruct (vm a) as [[v d]|] eqn:Va; [|assumption].
    intros n e Hn. unfold upd at 1 in Hn. destruct (String.eqb n a); [discriminate|].
    destruct (vm c) as [[v1 [|]]|] eqn:Vc; try (now apply OK).
    unfold upd in Hn. destruct (String.eqb n c) eqn:E; [|now apply OK].
    apply String.eqb_eq in E. subst n. injection Hn as <-. exists oc. split; [assumption|]. cbn [fst].
    destruct (OK a _ Va) as (o' & Fo' & V'). rewrite Fa in Fo'. injection Fo' as <-. cbn [fst] in V'.
    now rewrite <- (vals_ok_ty oa oc v TY).
  Qed.

  Lemma fold_aliases_ok al : (forall ac, In ac al -> alias_ok T ac = true) ->
    forall vm, vm_ok vm -> vm_ok (fold_left fold_alias al vm).
  Proof.
    induction al as [|ac r IH]; intros A vm OK; [assumption|]. cbn [fold_left].
    apply IH; [intros; apply A; cbn; auto|]. apply fold_alias_ok; [apply A; cbn; auto | assumption].
  Qed.

  (** ** every state that parse returns has a well-formed variables map *)
  Theorem parse_vm_ok P cli fs dflt s :
    checker T P = true -> parse T wf P cli fs dflt = Run s -> vm_ok (s_vm s).
  Proof.
    intros CK H. destruct (checker_facts T P CK) as (al & SH & ND & NDal & ALok & CANok & _).
    destruct (prog_shape_some _ _ SH) as [PC PF].
    rewrite (parse_unfold T wf P cli fs dflt CK) in H.
    destruct (resolve_all T cli) as [items|]; [|discriminate].
    rewrite PC in H. cbn [exec_list exec st0 s_fin s_vm s_vars] in H.
    destruct (store_items T wf true (fun _ => false) items (fun _ => None)) as [vmA|] eqn:SA; [|discriminate].
    assert (OK1 : vm_ok (add_defaults T true vmA)).
    { apply add_defaults_ok. eapply store_items_ok; [|exact SA]. intros n e X. discriminate. }
    destruct (existsb _ (p_flags P)); [discriminate|].
    destruct (cfg_source _ _ _ _) as [[| |ci] b].
    - destruct b; [discriminate|]. injection H as <-. exact OK1.
    - injection H as <-. exact OK1.
    - destruct (forallb (known_file T) ci); [|discriminate].
      rewrite PF in H. cbn [exec_list exec s_fin s_vm s_vars] in H.
      destruct (store_items T wf false _ ci _) as [vmB|] eqn:SB; [|discriminate].
      injection H as <-. cbn [s_vm]. apply fold_aliases_ok; [assumption|].
      apply add_defaults_ok. eapply store_items_ok; [|exact SB]. exact OK1.
  Qed.

  (** H0 of [roundtrip_thm]: a typed entry holds at least one token *)
  Corollary typed_entries_nonempty P cli fs dflt s o v d :
    checker T P = true -> parse T wf P cli fs dflt = Run s ->
    In o T -> typed o = true -> s_vm s (o_name o) = Some (v, d) -> v <> [].
  Proof.
    intros CK H Io To V. destruct (checker_facts T P CK) as (al & SH & ND & _).
    destruct (parse_vm_ok P cli fs dflt s CK H _ _ V) as (o' & Fo & VO).
    rewrite (find_opt_unique T o ND Io) in Fo. injection Fo as <-. cbn [fst] in VO.
    now destruct (vals_ok_facts o v To VO) as (_ & NE & _).
  Qed.

  (* ---------------------------------------------------------------------------------------- *)
  (** * the saved file is accepted *)
  Definition may_write (o : opt) : bool :=
    negb (mem (o_name o) (w_skip W)) && (String.eqb (o_name o) (w_alpha_name W) || saved_kind W o).

  (** second checker of the writer rules: the config option takes a file name (a string); it is not an
      information switch; whatever save() may write belongs to the config-file description and is typed *)
  Definition checker13b (P : prog) : bool :=
    match find_opt (p_cfgopt P) with Some oc => cty_eqb (o_ty oc) TString | None => false end
    && negb (mem (p_cfgopt P) (p_flags P))
    && forallb (fun o => negb (may_write o) || (o_file o && typed o)) T.

  Lemma save_opt_form s o v d :
    s_vm s (o_name o) = Some (v, d) -> w_precise W = true ->
    sopt s o = if mem (o_name o) (w_skip W) then []
               else if String.eqb (o_name o) (w_alpha_name W)
                       && Bool.eqb (var_is_zero zerotok (s_vars s) (w_alpha_var W)) (w_alpha_when_zero W)
                    then [(o_name o, tok_zero)]
                    else if saved_kind W o then map (fun t => (o_name o, t)) v else [].
  Proof.
    intros V PR. unfold save_opt, saved_kind, fmtv. rewrite V, PR.
    destruct (mem (o_name o) (w_skip W)); [reflexivity|].
    destruct (_ && _); [reflexivity|].
    destruct (o_ty o); try reflexivity; try (destruct (existsb _ _); reflexivity).
    now destruct (mem (o_name o) (w_comment W)).
  Qed.

  Lemma save_opt_written s o : sopt s o <> [] -> may_write o = true.
  Proof.
    unfold save_opt, may_write, saved_kind. destruct (s_vm s (o_name o)) as [[v d]|]; [|congruence].
    destruct (mem (o_name o) (w_skip W)); [congruence|]. cbn [negb andb].
    destruct (String.eqb (o_name o) (w_alpha_name W)); [reflexivity|]. cbn [andb orb].
    destruct (o_ty o); try congruence; try (destruct (existsb _ _); congruence).
    destruct (mem (o_name o) (w_comment W)); [congruence|reflexivity].
  Qed.

  (** the lines written for one option: its name, tokens well formed for its type, one line if scalar *)
  Lemma save_opt_block s o :
    vm_ok (s_vm s) -> w_precise W = true -> NoDup (map o_name T) -> In o T -> typed o = true ->
    (forall l, In l (sopt s o) -> fst l = o_name o /\ wf (o_ty o) (snd l) = true)
    /\ (o_ty o <> TVecFloat -> (List.length (sopt s o) <= 1)%nat).
  Proof.
    intros OK PR ND Io To. destruct (s_vm s (o_name o)) as [[v d]|] eqn:V.
    2:{ unfold save_opt. rewrite V. split; [intros l []|intros _; cbn; lia]. }
    rewrite (save_opt_form s o v d V PR).
    destruct (mem (o_name o) (w_skip W)); [split; [intros l []|intros _; cbn; lia]|].
    destruct (_ && _) eqn:AL.
    - apply andb_prop in AL as [AL _]. apply String.eqb_eq in AL.
      split; [|intros _; cbn; lia]. intros l [<-|[]]. cbn [fst snd]. split; [reflexivity|].
      apply (law_facts LAW o Io). exact AL.
    - destruct (saved_kind W o); [|split; [intros l []|intros _; cbn; lia]].
      destruct (OK _ _ V) as (o' & Fo & VO). rewrite (find_opt_unique T o ND Io) in Fo. injection Fo as <-.
      cbn [fst] in VO. destruct (vals_ok_facts o v To VO) as (WF & _ & SC). split.
      + intros l Hl. apply in_map_iff in Hl as (t & <- & It). cbn [fst snd]. auto.
      + intro NV. destruct (SC NV) as (t & ->). cbn. lia.
  Qed.

  Lemma existsb_false_In {A} (g : A -> bool) l : existsb g l = false -> forall x, In x l -> g x = false.
  Proof.
    intros E x I. apply not_true_is_false. intro X.
    assert (Z : existsb g l = true) by (apply existsb_exists; eauto). congruence.
  Qed.

  Lemma store_items_app incli fin l1 : forall l2 vm,
    store_items T wf incli fin (l1 ++ l2) vm =
    match store_items T wf incli fin l1 vm with Some vm1 => store_items T wf incli fin l2 vm1 | None => None end.
  Proof.
    induction l1 as [|[m t] r IH]; intros l2 vm; [reflexivity|]. cbn [app store_items].
    destruct (fin m); [apply IH|]. destruct (find_opt m); [|reflexivity].
    destruct (sem_parse _ _ _ _ _); [apply IH|reflexivity].
  Qed.

  (** the block of lines of one option is stored; only that option's entry changes *)
  Lemma store_block fin o : find_opt (o_name o) = Some o -> typed o = true ->
    forall (ls : list (string * tok)) vm,
      (forall l, In l ls -> fst l = o_name o /\ wf (o_ty o) (snd l) = true) ->
      fin (o_name o) = true \/ (o_ty o <> TVecFloat -> (List.length ls <= 1)%nat /\ expl (vm (o_name o)) = None) ->
      exists vm', store_items T wf false fin (map to_item ls) vm = Some vm' /\ (forall n, n <> o_name o -> vm' n = vm n).
  Proof.
    intros Fo To. induction ls as [|a r IH]; intros vm WF C; [exists vm; split; reflexivity|].
    cbn [map store_items to_item]. destruct (WF a (or_introl eq_refl)) as [Na Wa]. rewrite Na.
    assert (WFr : forall l, In l r -> fst l = o_name o /\ wf (o_ty o) (snd l) = true) by (intros; apply WF; cbn; auto).
    destruct (fin (o_name o)) eqn:F.
    - apply IH; [assumption | now left].
    - destruct C as [C|C]; [discriminate|]. rewrite Fo.
      destruct (cty_eqb (o_ty o) TVecFloat) eqn:EV.
      + apply cty_eqb_eq in EV. rewrite (sem_parse_vec o false _ (snd a) EV) by (now rewrite <- EV).
        edestruct (IH (upd vm (o_name o) (Some (match expl (vm (o_name o)) with Some v => v ++ [snd a] | None => [snd a] end, false))) WFr)
          as (vm' & S & K).
        { right. intro X. congruence. }
        exists vm'. split; [exact S|]. intros n Hn. rewrite (K n Hn). now apply upd_other.
      + assert (NV : o_ty o <> TVecFloat) by (intro X; rewrite X in EV; discriminate).
        destruct (C NV) as [Len Ex]. rewrite Ex, (sem_parse_scalar o false (snd a) To NV Wa).
        destruct r as [|b r']; [|cbn in Len; lia]. cbn [map store_items].
        eexists. split; [reflexivity|]. intros n Hn. now apply upd_other.
  Qed.

  Lemma store_table fin s :
    vm_ok (s_vm s) -> w_precise W = true -> NoDup (map o_name T) ->
    (forall o, In o T -> may_write o = true -> typed o = true) ->
    forall L vm, (forall o, In o L -> In o T) -> NoDup (map o_name L) ->
      (forall o, In o L -> fin (o_name o) = true \/ expl (vm (o_name o)) = None) ->
      exists vm', store_items T wf false fin (map to_item (flat_map (sopt s) L)) vm = Some vm'.
  Proof.
    intros OK PR ND TY. induction L as [|a r IH]; intros vm Sub NDL C; [exists vm; reflexivity|].
    cbn [flat_map]. rewrite map_app, store_items_app.
    cbn [map] in NDL. inversion NDL as [|? ? Hn NDr]; subst.
    assert (Ia : In a T) by (apply Sub; cbn; auto).
    assert (B : exists vm1, store_items T wf false fin (map to_item (sopt s a)) vm = Some vm1
                            /\ (forall n, n <> o_name a -> vm1 n = vm n)).
    { destruct (sopt s a) as [|l0 ls0] eqn:SA; [exists vm; split; reflexivity|]. rewrite <- SA.
      assert (Ta : typed a = true) by (apply TY; [assumption|]; apply (save_opt_written s); rewrite SA; discriminate).
      destruct (save_opt_block s a OK PR ND Ia Ta) as [B1 B2].
      apply (store_block fin a (find_opt_unique T a ND Ia) Ta); [exact B1|].
      destruct (C a (or_introl eq_refl)) as [F|E]; [now left|right]. intro NV. split; [auto|assumption]. }
    destruct B as (vm1 & S1 & K1). rewrite S1. apply IH; [intros; apply Sub; cbn; auto | assumption |].
    intros o Io. rewrite K1; [apply C; cbn; auto|].
    intro E. apply Hn. rewrite <- E. now apply in_map.
  Qed.

  (** ** `inovesa --config <saved file>` runs *)
  Theorem reload_runs_gen P cli fs dflt s ftok oc :
    checker T P = true ->
    find_opt (p_cfgopt P) = Some oc -> o_cli oc = true -> w_precise W = true -> checker13b P = true ->
    parse T wf P cli fs dflt = Run s -> wf TString ftok = true ->
    exists s', reload T wf W zerotok round6 P s ftok = Run s'.
  Proof.
    intros CK Fc Cc PR C13b H Wf.
    pose proof (parse_vm_ok P cli fs dflt s CK H) as OK.
    destruct (checker_facts T P CK) as (al & SH & ND & NDal & ALok & CANok & _).
    destruct (prog_shape_some _ _ SH) as [PC PF].
    unfold checker13b in C13b. rewrite Fc in C13b.
    apply andb_prop in C13b as [C13b MW]. apply andb_prop in C13b as [TS NF].
    apply cty_eqb_eq in TS. apply negb_true_iff in NF. rewrite forallb_forall in MW.
    assert (MW' : forall o, In o T -> may_write o = true -> o_file o = true /\ typed o = true).
    { intros o Io M. specialize (MW o Io). rewrite M in MW. cbn in MW. now apply andb_prop in MW. }
    (* the information switches have no entry unless given: from the original run *)
    assert (FL : forall f, In f (p_flags P) -> dentry T true f = None).
    { rewrite (parse_unfold T wf P cli fs dflt CK) in H.
      destruct (resolve_all T cli) as [items|]; [|discriminate].
      rewrite PC in H. cbn [exec_list exec st0 s_fin s_vm s_vars] in H.
      destruct (store_items T wf true (fun _ => false) items (fun _ => None)) as [vmA|]; [|discriminate].
      destruct (existsb _ (p_flags P)) eqn:E; [discriminate|].
      intros f If. pose proof (existsb_false_In _ _ E f If) as X. cbn [s_vm] in X.
      rewrite add_defaults_form in X. destruct (vmA f); [discriminate|]. now destruct (dentry T true f). }
    (* the reload *)
    unfold reload. rewrite (parse_unfold T wf P _ _ _ CK).
    cbn [resolve_all]. rewrite (resolve_exact T _ _ Fc Cc).
    rewrite PC. cbn [exec_list exec st0 s_fin s_vm s_vars store_items]. rewrite Fc. cbn [expl].
    assert (Toc : typed oc = true) by (unfold typed; now rewrite TS).
    assert (NVoc : o_ty oc <> TVecFloat) by (rewrite TS; discriminate).
    rewrite (sem_parse_scalar oc true ftok Toc NVoc) by (now rewrite TS).
    set (vmA' := upd (fun _ : string => @None entry) (p_cfgopt P) (Some ([ftok], false))).
    cbn [exec_list exec s_fin s_vm s_vars].
    assert (E1 : existsb (fun f => match add_defaults T true vmA' f with Some _ => true | None => false end) (p_flags P) = false).
    { apply not_true_is_false. intro X. apply existsb_exists in X as (f & If & Y).
      rewrite add_defaults_form in Y. unfold vmA' in Y. rewrite upd_other in Y.
      - now rewrite (FL f If) in Y.
      - intro; subst f. apply mem_false in NF. contradiction. }
    rewrite E1. unfold cfg_source. cbn [s_vm]. rewrite add_defaults_form. unfold vmA' at 1. rewrite upd_same.
    assert (KF : forallb (known_file T) (saved_items T W zerotok round6 s) = true).
    { apply forallb_forall. intros it Hit. unfold saved_items, save in Hit.
      apply in_map_iff in Hit as (l & <- & Hl). apply in_flat_map in Hl as (o & Io & Hl).
      unfold known_file. cbn [fst]. rewrite (save_opt_names _ _ _ _ _ _ Hl), (find_opt_unique T o ND Io).
      apply (MW' o Io). apply (save_opt_written s). intro X. rewrite X in Hl. contradiction. }
    rewrite KF, PF. cbn [exec_list exec s_fin s_vm s_vars].
    unfold saved_items, save. change (map (fun l : string * tok => (fst l, [snd l]))) with (map to_item).
    match goal with |- context [store_items T wf false ?f _ ?v] =>
      edestruct (store_table f s OK PR ND (fun o Io M => proj2 (MW' o Io M)) T v) as (vmB & SB) end.
    - auto.
    - exact ND.
    - intros o Io. destruct (String.eqb (o_name o) (p_cfgopt P)) eqn:E.
      + left. cbn [map fst mem existsb orb]. unfold mem. cbn [existsb]. now rewrite E.
      + right. rewrite add_defaults_form. unfold vmA'. rewrite upd_other by (now apply String.eqb_neq).
        unfold dentry. destruct (find_opt (o_name o)) as [o'|]; [|reflexivity].
        destruct (in_grp true o'); [|reflexivity]. now destruct (def_of true o').
    - rewrite SB. eexists. reflexivity.
  Qed.

  Theorem reload_runs P ex cli fs dflt s ftok :
    checker T P = true -> checker13 T W P ex = true -> checker13b P = true ->
    parse T wf P cli fs dflt = Run s -> wf TString ftok = true ->
    exists s', reload T wf W zerotok round6 P s ftok = Run s'.
  Proof.
    intros CK C13 C13b H Wf. unfold checker13 in C13.
    apply andb_prop in C13 as [C13 _]. apply andb_prop in C13 as [C13 _].
    apply andb_prop in C13 as [C13 PR]. apply andb_prop in C13 as [C13 _].
    destruct (find_opt (p_cfgopt P)) as [oc|] eqn:Fc; [|discriminate].
    exact (reload_runs_gen P cli fs dflt s ftok oc CK Fc C13 PR C13b H Wf).
  Qed.

  (* ---------------------------------------------------------------------------------------- *)
  (** * the alpha0 rule in terms of the invocation *)
  (** the value in force, according to the invocation, of a current option denotes zero *)
  Definition zero_in_force (P : prog) (items ci : list item) (ofs : opt) : bool :=
    match spec_value T (prog_aliases P) items ci ofs with Some [t] => zerotok t | _ => false end.

  Lemma var_is_zero_spec P cli fs dflt s items ofs :
    checker T P = true -> parse T wf P cli fs dflt = Run s -> resolve_all T cli = Some items ->
    In ofs T -> is_canon ofs = true -> typed ofs = true ->
    var_is_zero zerotok (s_vars s) (o_var ofs) = zero_in_force P items (loaded T P items fs dflt) ofs.
  Proof.
    intros CK H RA Io Co To. destruct (precedence_thm T wf P cli fs dflt s CK H) as (items' & RA' & PV).
    rewrite RA in RA'. injection RA' as <-. unfold var_is_zero, zero_in_force. now rewrite (PV ofs Io Co To).
  Qed.

  (** ** C13.1 without the run-time hypotheses *)
  Theorem roundtrip_full P ex cli fs dflt s ftok items :
    checker T P = true -> checker13 T W P ex = true -> checker13b P = true ->
    parse T wf P cli fs dflt = Run s -> resolve_all T cli = Some items -> wf TString ftok = true ->
    exists s', reload T wf W zerotok round6 P s ftok = Run s' /\
      forall o, In o T -> is_canon o = true -> typed o = true -> mem (o_name o) ex = false ->
        (o_name o <> w_alpha_name W
         \/ exists ofs, In ofs T /\ is_canon ofs = true /\ typed ofs = true /\ o_var ofs = w_alpha_var W
                        /\ Bool.eqb (zero_in_force P items (loaded T P items fs dflt) ofs) (w_alpha_when_zero W) = false) ->
        s_vars s' (o_var o) = s_vars s (o_var o).
  Proof.
    intros CK C13 C13b H RA Wf.
    destruct (reload_runs P ex cli fs dflt s ftok CK C13 C13b H Wf) as (s' & R).
    exists s'. split; [exact R|]. intros o Io Co To Ex AL.
    apply (roundtrip_thm T wf W zerotok round6 P ex cli fs dflt s ftok s' CK C13 H R o Io Co To Ex).
    - destruct AL as [NA|(ofs & Iofs & Cofs & Tofs & Vofs & Z)].
      + apply String.eqb_neq in NA. now rewrite NA.
      + rewrite <- Vofs, (var_is_zero_spec P cli fs dflt s items ofs CK H RA Iofs Cofs Tofs), Z. apply andb_false_r.
    - intros v d V. exact (typed_entries_nonempty P cli fs dflt s o v d CK H Io To V).
  Qed.

  (** "no synchrotron frequency given": the option is neither on the command line nor in the file (under
      either name) and its default denotes zero *)
  Lemma not_given_zero P items ci ofs d :
    occurs (o_name ofs) items = false -> occurs (o_name ofs) ci = false ->
    (forall a, alias_of (prog_aliases P) (o_name ofs) = Some a -> occurs a ci = false) ->
    o_defcli ofs = Some d -> zerotok d = true ->
    zero_in_force P items ci ofs = true.
  Proof.
    intros O1 O2 OA D Z. unfold zero_in_force, spec_value. rewrite O1, O2.
    destruct (alias_of (prog_aliases P) (o_name ofs)) as [a|] eqn:AO.
    - rewrite (OA a eq_refl). unfold dflt_tokens. now rewrite D.
    - unfold dflt_tokens. now rewrite D.
  Qed.

  (** ** the same with the alpha0 hypothesis spelled out for the current polarity of the rule: the option is
      not alpha0, or no synchrotron frequency was given (and its default denotes zero) *)
  Theorem roundtrip_no_fs P ex cli fs dflt s ftok items :
    checker T P = true -> checker13 T W P ex = true -> checker13b P = true -> w_alpha_when_zero W = false ->
    parse T wf P cli fs dflt = Run s -> resolve_all T cli = Some items -> wf TString ftok = true ->
    exists s', reload T wf W zerotok round6 P s ftok = Run s' /\
      forall o, In o T -> is_canon o = true -> typed o = true -> mem (o_name o) ex = false ->
        (o_name o <> w_alpha_name W
         \/ exists ofs d, In ofs T /\ is_canon ofs = true /\ typed ofs = true /\ o_var ofs = w_alpha_var W
                          /\ occurs (o_name ofs) items = false
                          /\ occurs (o_name ofs) (loaded T P items fs dflt) = false
                          /\ (forall a, alias_of (prog_aliases P) (o_name ofs) = Some a -> occurs a (loaded T P items fs dflt) = false)
                          /\ o_defcli ofs = Some d /\ zerotok d = true) ->
        s_vars s' (o_var o) = s_vars s (o_var o).
  Proof.
    intros CK C13 C13b WZ H RA Wf.
    destruct (roundtrip_full P ex cli fs dflt s ftok items CK C13 C13b H RA Wf) as (s' & R & EQ).
    exists s'. split; [exact R|]. intros o Io Co To Ex AL. apply (EQ o Io Co To Ex).
    destruct AL as [NA|(ofs & d & Iofs & Cofs & Tofs & Vofs & O1 & O2 & OA & D & Z)]; [now left|right].
    exists ofs. repeat split; try assumption.
    now rewrite (not_given_zero P items _ ofs d O1 O2 OA D Z), WZ.
  Qed.
End RT2.
