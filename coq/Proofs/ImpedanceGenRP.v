(** The generated impedance definitions (Gen/Gen_Imp.v) in the real instance: the leaves are
    [std::pow := rpow] (zero at zero), [sqrt], [ln], [Rabs], [PI], the order of R.  The generated
    vectors ARE the analytic vectors of Model/ImpedanceR.v (so the laws of Proofs/ImpedanceRP.v
    are statements about the generated code), the generated factory's result is passive on the
    whole documented domain (any sign of the gap), and the phase of the generated samples is
    +pi/6 (free space) resp. -pi/4 (resistive wall) at every positive frequency. *)
From Coq Require Import Reals Lra Lia List ZArith Psatz Bool.
From Interval Require Import Tactic.
From Inovesa Require Import Base.FieldKit Base.RInst Model.Impedance Model.ImpedanceR Model.ImpKit
  Model.ImpedanceSpec Proofs.ImpedanceP Proofs.ImpedanceRP Proofs.ImpedanceGenP Gen.Gen_Imp.
Import ListNotations.
Local Open Scope R_scope.

Definition Rltb (a b : R) : bool := if Rlt_dec a b then true else false.
Definition Rleb (a b : R) : bool := if Rle_dec a b then true else false.
Definition Reqb (a b : R) : bool := if Req_EM_T a b then true else false.

(** the real interpretation of the leaves; [c], [Z0] and the parallel-plates constructor stay
    parameters *)
Definition ER (c Z0 : R) (PP : Z -> R -> R -> R -> Z -> creal) : Leaves RF :=
  mkLeaves RF rpow sqrt ln Rabs PI c Z0 Rltb Rleb Reqb cr_add PP.

Lemma fposR p : @fpos RF p = IZR (Zpos p).
Proof.
  induction p as [q IH|q IH|]; cbn [fpos].
  - rewrite Pos2Z.inj_xI, plus_IZR, mult_IZR, <- IH. unfold two, fadd, fmul, f1, RF; cbn. lra.
  - rewrite Pos2Z.inj_xO, mult_IZR, <- IH. unfold two, fadd, fmul, f1, RF; cbn. lra.
  - reflexivity.
Qed.
Lemma fzR z : @fz RF z = IZR z.
Proof.
  destruct z; cbn [fz]; [reflexivity|apply fposR|].
  rewrite fposR. unfold fopp, RF; cbn. rewrite <- opp_IZR. reflexivity.
Qed.

Lemma push_loop_ext (C : Type) (c0 : C) n (f g : Z -> C) :
  (forall i, (0 <= i <= n / 2)%Z -> f i = g i) -> push_loop c0 n f = push_loop c0 n g.
Proof.
  intros H. unfold push_loop. f_equal. apply map_ext_in. intros i Hi. apply zrange_in in Hi. apply H. lia.
Qed.

Section R.
  Variables c Z0 : R.
  Variable PP : Z -> R -> R -> R -> Z -> creal.
  Notation E := (ER c Z0 PP).

  Lemma IZR_pred_nz n : (2 <= n)%Z -> IZR (n - 1) <> 0.
  Proof. intros H. apply not_0_IZR. lia. Qed.

  (** *** the generated vectors are the analytic vectors of Model/ImpedanceR.v *)
  Theorem gen_fs_R n f_rev f_max : (2 <= n)%Z -> f_rev <> 0 ->
    FreeSpaceCSR_ctor RF E n f_rev f_max = fs_vec n (f_max / f_rev / IZR (n - 1)).
  Proof.
    intros Hn Hf. rewrite (gen_fs_vec RF E); [|lia|exact Hf|rewrite fzR; apply IZR_pred_nz; exact Hn].
    unfold sp_fs_vec, fs_vec. apply push_loop_ext. intros i _.
    unfold sp_fs_sample, sp_fs_Z0, sp_delta, fs_sample, cmulr, cbrt, fs_re, fs_im, three. cbn [fst snd].
    rewrite !fzR. change (l_pw E) with rpow.
    replace (@fdiv RF f1 (@fadd RF f1 (@fadd RF f1 f1))) with (/ 3) by (unfold fdiv, fadd, f1, RF; cbn; lra).
    reflexivity.
  Qed.

  Theorem gen_rw_R n f0 f_max L s xi b : (2 <= n)%Z -> f0 <> 0 -> s <> 0 -> b <> 0 -> c <> 0 ->
    ResistiveWall_ctor RF E n f0 f_max L s xi b =
    rw_vec n (rw_Z1 Z0 (1 + xi) f0 s c L b) (f_max / f0 / IZR (n - 1)).
  Proof.
    intros Hn Hf Hs Hb Hc.
    rewrite (gen_rw_vec RF E); try assumption;
      [|lia|rewrite fzR; apply IZR_pred_nz; exact Hn|exact PI_neq0].
    unfold sp_rw_vec, rw_vec. apply push_loop_ext. intros i _.
    unfold sp_rw_sample, sp_rw_Z1, sp_delta, rw_sample, rw_Z1, two. cbv zeta.
    rewrite !fzR. reflexivity.
  Qed.

  Theorem gen_coll_R n f_max ro ri : (0 <= n)%Z -> ri <> 0 ->
    CollimatorImpedance_ctor RF E n f_max ro ri = coll_vec n Z0 ro ri.
  Proof.
    intros Hn Hi. rewrite (gen_coll_vec RF E); [reflexivity|exact Hn|exact Hi|exact PI_neq0].
  Qed.

  (** *** the generated factory.  Its conditions are order tests on reals; they are EVALUATED (by
      [lra]) in every sign case of the gap, the conductivity, the susceptibility and the collimator
      radius, on the generated side and on the specification side alike - so any equivalent way of
      writing the conditions, the radius [|gap/2|] or the constructor arguments proves the same
      theorem.  Result: nothing when no switch is on, else the pointwise sum (order: CSR, wall,
      collimator, file) of exactly the selected contributions with the documented arguments. *)
  Lemma Rltb_t a b : a < b -> Rltb a b = true.
  Proof. intros H. unfold Rltb. destruct (Rlt_dec a b); [reflexivity|contradiction]. Qed.
  Lemma Rltb_f a b : ~ a < b -> Rltb a b = false.
  Proof. intros H. unfold Rltb. destruct (Rlt_dec a b); [contradiction|reflexivity]. Qed.
  Lemma Rleb_t a b : a <= b -> Rleb a b = true.
  Proof. intros H. unfold Rleb. destruct (Rle_dec a b); [reflexivity|contradiction]. Qed.
  Lemma Rleb_f a b : ~ a <= b -> Rleb a b = false.
  Proof. intros H. unfold Rleb. destruct (Rle_dec a b); [contradiction|reflexivity]. Qed.
  Lemma Reqb_t a b : a = b -> Reqb a b = true.
  Proof. intros H. unfold Reqb. destruct (Req_EM_T a b); [reflexivity|contradiction]. Qed.
  Lemma Reqb_f a b : a <> b -> Reqb a b = false.
  Proof. intros H. unfold Reqb. destruct (Req_EM_T a b); [contradiction|reflexivity]. Qed.
  Lemma Rltb_true a b : Rltb a b = true -> a < b.
  Proof. unfold Rltb. destruct (Rlt_dec a b); [trivial|discriminate]. Qed.
  Lemma Reqb_false a b : Reqb a b = false -> a <> b.
  Proof. unfold Reqb. destruct (Req_EM_T a b); [discriminate|trivial]. Qed.

  Ltac ord := first [assumption | lra].
  Ltac abs_cases :=
    repeat match goal with
    | |- context [Rabs ?x] =>
        first [rewrite (Rabs_left x) in * by ord | rewrite (Rabs_right x) in * by ord]
    | H : context [Rabs ?x] |- _ =>
        first [rewrite (Rabs_left x) in * by ord | rewrite (Rabs_right x) in * by ord]
    end.
  Ltac eval_tests :=
    repeat match goal with
    | |- context [Rltb ?a ?b] => first [rewrite (Rltb_t a b) by ord | rewrite (Rltb_f a b) by ord]
    | |- context [Rleb ?a ?b] => first [rewrite (Rleb_t a b) by ord | rewrite (Rleb_f a b) by ord]
    | |- context [Reqb ?a ?b] => first [rewrite (Reqb_t a b) by ord | rewrite (Reqb_f a b) by ord]
    end.
  Ltac args_eq_R :=
    lazymatch goal with
    | |- @eq R _ _ => first [reflexivity | lra | field; repeat split; ord]
    | |- _ => first [reflexivity | progress f_equal; args_eq_R]
    end.

  Ltac finish_case Hn :=
    abs_cases; eval_tests;
    cbn [andb orb negb app deref_add file_given file_data fst snd];
    rewrite ?(gen_add_assign RF E);
    rewrite ?(add_into_sum (cpx RF) cpx0 (l_cadd E)) by exact Hn; cbn [app];
    args_eq_R.

  Section Factory.
    Variable PPc : Z -> R -> R -> R -> list creal.
    Variable FSc : Z -> R -> R -> list creal.
    Variable RWc : Z -> R -> R -> R -> R -> R -> R -> list creal.
    Variable COLLc : Z -> R -> R -> R -> list creal.

    Theorem gen_factory_with_R n fmax R_bend frev gap use_csr s xi rc file :
      (0 <= n)%Z -> R_bend <> 0 -> frev <> 0 ->
      makeImpedance_with RF E PPc FSc RWc COLLc n fmax R_bend frev gap use_csr s xi rc file =
      sp_factory_with E PPc FSc RWc COLLc n fmax R_bend frev gap use_csr s xi rc file.
    Proof.
      intros Hn HR Hf. pose proof PI_RGT_0 as Hpi.
      unfold makeImpedance_with, sp_factory_with, g_any_selected, g_parts, g_sel_pp, g_sel_fs, g_sel_csr,
        g_sel_rw, g_sel_coll, sp_radius, sp_f0, two.
      cbv zeta. rewrite (gen_zeros RF E), (zero_vec_sum (cpx RF) cpx0 (l_cadd E) n).
      change (l_ltb E) with Rltb. change (l_leb E) with Rleb. change (l_eqb E) with Reqb.
      change (l_ab E) with Rabs. change (l_c E) with c. change (l_pi E) with PI.
      change (@fadd RF) with Rplus. change (@fmul RF) with Rmult. change (@fsub RF) with Rminus.
      change (@fopp RF) with Ropp. change (@fdiv RF) with Rdiv. change (@f0 RF) with 0. change (@f1 RF) with 1.
      destruct (Rtotal_order gap 0) as [Hg|[Hg|Hg]];
        [ | destruct use_csr; destruct file as [d|]; finish_case Hn | ];
        destruct (Rlt_dec 0 s) as [Hs|Hs]; destruct (Rle_dec (- (1)) xi) as [Hx|Hx];
        destruct (Rlt_dec 0 rc) as [Hc0|Hc0]; destruct (Rlt_dec rc (Rabs (gap / (1 + 1)))) as [Hc1|Hc1];
        destruct use_csr; destruct file as [d|]; finish_case Hn.
    Qed.
  End Factory.

  Theorem gen_factory_R n fmax R_bend frev gap use_csr s xi rc file :
    (0 <= n)%Z -> R_bend <> 0 -> frev <> 0 ->
    makeImpedance RF E n fmax R_bend frev gap use_csr s xi rc file =
    sp_factory_with E (ParallelPlatesCSR_ctor RF E) (FreeSpaceCSR_ctor RF E) (ResistiveWall_ctor RF E) (CollimatorImpedance_ctor RF E)
                    n fmax R_bend frev gap use_csr s xi rc file.
  Proof. intros. unfold makeImpedance. apply gen_factory_with_R; assumption. Qed.

  (** what the switches of the specification mean over the reals *)
  Lemma Rleb_true a b : Rleb a b = true -> a <= b.
  Proof. unfold Rleb. destruct (Rle_dec a b); [trivial|discriminate]. Qed.

  Theorem switch_meaning gap use_csr s xi rc :
    (g_sel_pp E gap use_csr = true <-> 0 < gap /\ use_csr = true) /\
    (g_sel_fs E gap use_csr = true <-> gap < 0 /\ use_csr = true) /\
    (g_sel_rw E gap s xi = true <-> gap <> 0 /\ 0 < s /\ - (1) <= xi) /\
    (g_sel_coll E gap rc = true <-> gap <> 0 /\ 0 < rc /\ rc < Rabs gap / 2).
  Proof.
    unfold g_sel_pp, g_sel_fs, g_sel_csr, g_sel_rw, g_sel_coll, sp_radius, two.
    change (l_ltb E) with Rltb. change (l_leb E) with Rleb. change (l_eqb E) with Reqb. change (l_ab E) with Rabs.
    change (@fadd RF) with Rplus. change (@fopp RF) with Ropp. change (@fdiv RF) with Rdiv.
    change (@f0 RF) with 0. change (@f1 RF) with 1.
    assert (A : Rabs (gap / (1 + 1)) = Rabs gap / 2).
    { unfold Rdiv. rewrite Rabs_mult. f_equal. rewrite Rabs_right; lra. }
    rewrite A.
    rewrite !andb_true_iff, !negb_true_iff.
    split; [|split; [|split]]; (split; [intros H|intros H]).
    - destruct H as [[G U] P]. apply Rltb_true in P. tauto.
    - destruct H as [P U]. rewrite (Reqb_f gap 0) by lra. rewrite (Rltb_t 0 gap) by lra. tauto.
    - destruct H as [[G U] P]. apply Reqb_false in G. unfold Rltb in P.
      destruct (Rlt_dec 0 gap); [discriminate|]. split; [lra|exact U].
    - destruct H as [P U]. rewrite (Reqb_f gap 0) by lra. rewrite (Rltb_f 0 gap) by lra. tauto.
    - destruct H as [G [P Q]]. apply Reqb_false in G. apply Rltb_true in P. apply Rleb_true in Q. tauto.
    - destruct H as [G [P Q]]. rewrite (Reqb_f gap 0) by lra. rewrite (Rltb_t 0 s) by lra.
      rewrite (Rleb_t (- (1)) xi) by lra. tauto.
    - destruct H as [G [P Q]]. apply Reqb_false in G. apply Rltb_true in P, Q. tauto.
    - destruct H as [G [P Q]]. rewrite (Reqb_f gap 0) by lra. rewrite (Rltb_t 0 rc) by lra.
      rewrite (Rltb_t rc (Rabs gap / 2)) by lra. tauto.
  Qed.

  (** *** passivity of the generated factory on the documented domain: any non-zero gap (negative:
      free space; positive: parallel plates), any combination of switches.  What selects a
      contribution also puts its parameters into the range where its resistance is non-negative:
      the wall needs [s > 0] and gets the radius [|gap/2| > 0] and the length [c/frev >= 0]; the
      collimator needs [0 < r_coll < |gap/2|], which makes [ln(|gap/2|/r_coll)] positive. *)
  Theorem gen_factory_passive n fmax R_bend frev gap use_csr s xi rc file v :
    (2 <= n)%Z -> 0 < c -> 0 < Z0 -> R_bend <> 0 -> 0 < frev ->
    (forall a b g i, (1 <= i <= n / 2)%Z -> passive (PP n a b g i)) ->
    (forall d, file = Some d -> Forall passive d) ->
    makeImpedance RF E n fmax R_bend frev gap use_csr s xi rc file = Some v -> Forall passive v.
  Proof.
    intros Hn Hc HZ HR Hf Hpp Hfile Ev.
    rewrite gen_factory_R in Ev; [|lia|exact HR|apply Rgt_not_eq; exact Hf].
    unfold sp_factory_with in Ev. destruct (g_any_selected E gap use_csr s xi rc file); [|discriminate].
    injection Ev as <-.
    apply (pointwise_sum_P creal cr0 cr_add passive passive0 passive_add).
    unfold g_parts. repeat (apply Forall_app; split).
    - destruct (g_sel_pp E gap use_csr); constructor; [|constructor].
      rewrite (gen_pp_vec RF E) by lia. unfold sp_pp_vec.
      apply (pp_vec_P creal cr0 cr_add passive passive0 passive_add). intros i Hi. apply Hpp. exact Hi.
    - destruct (g_sel_fs E gap use_csr); constructor; [|constructor].
      rewrite gen_fs_R; [apply fs_vec_passive|exact Hn|].
      change (sp_f0 E R_bend) with (c / ((1 + 1) * PI * R_bend)).
      pose proof PI_RGT_0 as Hpi.
      assert (D : (1 + 1) * PI * R_bend <> 0) by (apply Rmult_integral_contrapositive_currified; [lra|exact HR]).
      unfold Rdiv. apply Rmult_integral_contrapositive_currified; [lra|apply Rinv_neq_0_compat; exact D].
    - destruct (g_sel_rw E gap s xi) eqn:Sel; constructor; [|constructor].
      unfold g_sel_rw in Sel. apply andb_true_iff in Sel. destruct Sel as [Sg Sw].
      apply andb_true_iff in Sw. destruct Sw as [Ss _].
      apply negb_true_iff in Sg. apply Reqb_false in Sg. apply Rltb_true in Ss.
      change (@f0 RF) with 0 in Sg, Ss.
      match goal with |- context [ResistiveWall_ctor RF E n frev fmax ?L s xi ?b] => set (bb := b); set (LL := L) end.
      assert (Hb : 0 < bb).
      { unfold bb, sp_radius. change (l_ab E) with Rabs. apply Rabs_pos_lt. intro H.
        change (gap / (1 + 1) = 0) in H. apply Sg. lra. }
      assert (HL : 0 <= LL).
      { unfold LL. change (0 <= c / frev). apply Rlt_le. apply Rdiv_lt_0_compat; assumption. }
      rewrite gen_rw_R; [|exact Hn|lra|lra|lra|lra].
      apply rw_vec_passive. apply rw_Z1_nonneg; assumption.
    - destruct (g_sel_coll E gap rc) eqn:Sel; constructor; [|constructor].
      unfold g_sel_coll in Sel. apply andb_true_iff in Sel. destruct Sel as [_ Sw].
      apply andb_true_iff in Sw. destruct Sw as [S0 S1]. apply Rltb_true in S0, S1.
      change (@f0 RF) with 0 in S0.
      rewrite gen_coll_R; [|lia|lra]. apply coll_vec_passive; assumption.
    - destruct file as [d|]; constructor; [apply Hfile; reflexivity|constructor].
  Qed.
End R.

(** ** closed forms and phases of the generated samples (through [gen_fs_R], [gen_rw_R]) *)

(** resistive wall, the documented form: (1 - i) L/(2b) sqrt(Z0 mu_r f/(pi s c)), f = f0 x *)
Lemma rw_closed_form Z0 mu_r f0 s c L b x :
  0 <= x -> 0 <= Z0 * mu_r * f0 / s / PI / c -> b <> 0 -> s <> 0 -> c <> 0 ->
  rw_sample (rw_Z1 Z0 mu_r f0 s c L b) x =
  (L / (2 * b) * sqrt (Z0 * mu_r * (f0 * x) / (PI * s * c)),
   - (L / (2 * b) * sqrt (Z0 * mu_r * (f0 * x) / (PI * s * c)))).
Proof.
  intros Hx Hk Hb Hs Hc. unfold rw_sample, rw_Z1.
  assert (E : sqrt (Z0 * mu_r * (f0 * x) / (PI * s * c)) = sqrt (Z0 * mu_r * f0 / s / PI / c) * sqrt x).
  { rewrite <- sqrt_mult by assumption. f_equal. field. repeat split; try assumption. exact PI_neq0. }
  rewrite E. f_equal; [|f_equal]; field; exact Hb.
Qed.

(** phase: the wall's sample is Z1 sqrt(x) (1 - i): argument -pi/4 at every positive frequency *)
Lemma rw_phase Z1 x : 0 < Z1 -> 0 < x ->
  0 < fst (rw_sample Z1 x) /\ atan (snd (rw_sample Z1 x) / fst (rw_sample Z1 x)) = - (PI / 4).
Proof.
  intros HZ Hx. unfold rw_sample. cbn [fst snd].
  assert (P : 0 < Z1 * sqrt x) by (apply Rmult_lt_0_compat; [exact HZ|apply sqrt_lt_R0; exact Hx]).
  split; [exact P|].
  pose proof (sqrt_lt_R0 x Hx) as Sx.
  replace (- (Z1 * sqrt x) / (Z1 * sqrt x)) with (- (1)) by (field; split; lra).
  rewrite atan_opp, atan_1. reflexivity.
Qed.

(** phase: free space, (306.3 + 176.9 i) x^(1/3): positive real part and the constant ratio
    Im/Re = 176.9/306.3 at every positive frequency, i.e. the argument is atan(176.9/306.3), which
    [fs_arg] encloses as pi/6 + [1.4e-4, 1.5e-4] *)
Lemma fs_phase x : 0 < x ->
  0 < fst (fs_sample x) /\ snd (fs_sample x) / fst (fs_sample x) = fs_im / fs_re.
Proof.
  intros Hx. unfold fs_sample. cbn [fst snd]. pose proof (cbrt_pos x Hx) as P.
  assert (R0 : 0 < fs_re) by (unfold fs_re; lra).
  split; [apply Rmult_lt_0_compat; assumption|]. field. lra.
Qed.

(** the documented prefactor of the free-space impedance (Murphy et al., Eq. 6.18):
    Z0 Gamma(2/3)/3^(1/3) (sqrt 3 + i)/2 with Z0 = 376.730313461 Ohm.  The code's literals
    (306.3, 176.9) are this number to four significant digits.  Gamma(2/3) = 1.3541179... has no
    counterpart in the libraries available here and enters as an enclosed parameter. *)
Lemma fs_prefactor_documented G :
  135411 / 100000 <= G <= 135412 / 100000 ->
  Rabs (fs_re - 376730313461 / 1000000000 * G / exp (ln 3 / 3) * (sqrt 3 / 2)) <= 5 / 100 /\
  Rabs (fs_im - 376730313461 / 1000000000 * G / exp (ln 3 / 3) * (1 / 2)) <= 5 / 100.
Proof.
  intros HG. unfold fs_re, fs_im. split; interval with (i_prec 60).
Qed.

Lemma cbrt3_is_exp : exp (ln 3 / 3) = cbrt 3.
Proof.
  unfold cbrt, rpow. destruct (Rle_dec 3 0); [lra|]. unfold Rpower. f_equal. field.
Qed.
