(** * Bounds: proofs about the size and index arithmetic of Model/Bounds.v (C17). *)
From Coq Require Import List ZArith QArith Qcanon Qround Lia Bool Lqa Psatz ZifyBool.
From Inovesa Require Import Base.FieldKit Base.Float32 Model.Kick Model.Bounds Proofs.KickP.
Import ListNotations.
Local Open Scope Z_scope.

(** ** helpers: ranges *)
Lemma in_zrange n j : In j (zrange n) <-> 0 <= j < n.
Proof.
  unfold zrange. rewrite in_map_iff. split.
  - intros [k [E H]]. apply in_seq in H. lia.
  - intros H. exists (Z.to_nat j). split; [lia|]. apply in_seq. lia.
Qed.

Lemma in_zseq lo len j : In j (zseq lo len) <-> lo <= j < lo + len.
Proof.
  unfold zseq. rewrite in_map_iff. split.
  - intros [k [E H]]. apply in_zrange in H. lia.
  - intros H. exists (j - lo). split; [lia|]. apply in_zrange. lia.
Qed.

Lemma wrap32_range z : 0 <= wrap32 z < 2 ^ 32.
Proof. unfold wrap32. apply Z.mod_pos_bound. reflexivity. Qed.

(** ** helpers: exact rationals *)
Lemma this_Qcz z : (this (Qcz z) == inject_Z z)%Q.
Proof. unfold Qcz. cbn [this Q2Qc]. apply Qred_correct. Qed.

Lemma this_mult a b : (this (a * b)%Qc == this a * this b)%Q.
Proof. unfold Qcmult. cbn [this Q2Qc]. apply Qred_correct. Qed.

Lemma this_plus a b : (this (a + b)%Qc == this a + this b)%Q.
Proof. unfold Qcplus. cbn [this Q2Qc]. apply Qred_correct. Qed.

Lemma Qcceil_ge q : (this q <= inject_Z (Qcceil q))%Q.
Proof. unfold Qcceil. apply Qle_ceiling. Qed.

Lemma Qcceil_le_int q m : (this q <= inject_Z m)%Q -> Qcceil q <= m.
Proof.
  intros H. unfold Qcceil. rewrite <- (Qceiling_Z m). apply Qceiling_resp_le. exact H.
Qed.

Lemma Qcround_le q : (0 <= this q)%Q -> (inject_Z (Qcround q) <= this q + (1 # 2))%Q.
Proof.
  intros H. unfold Qcround. destruct (Qle_bool 0 (this q)) eqn:E.
  - apply Qfloor_le.
  - exfalso. apply Qle_bool_iff in H. congruence.
Qed.

Lemma Qcround_nonneg q : (0 <= this q)%Q -> 0 <= Qcround q.
Proof.
  intros H. unfold Qcround. destruct (Qle_bool 0 (this q)) eqn:E.
  - rewrite <- (Qfloor_Z 0). apply Qfloor_resp_le. change (inject_Z 0) with 0%Q. lra.
  - exfalso. apply Qle_bool_iff in H. congruence.
Qed.

(** ** float -> unsigned *)
Lemma f2u_val bits q z : f2u bits q = Val z <-> z = Qctrunc q /\ 0 <= z < 2 ^ bits.
Proof.
  unfold f2u. destruct ((0 <=? Qctrunc q) && (Qctrunc q <? 2 ^ bits)) eqn:E.
  - split; [intros H; injection H as <-; lia | intros [-> _]; reflexivity].
  - split; [discriminate | intros [-> H]; lia].
Qed.

Lemma f2u_ub bits q : f2u bits q = UB <-> Qctrunc q < 0 \/ 2 ^ bits <= Qctrunc q.
Proof.
  unfold f2u. destruct ((0 <=? Qctrunc q) && (Qctrunc q <? 2 ^ bits)) eqn:E.
  - split; [discriminate | lia].
  - split; [lia | reflexivity].
Qed.

(** truncation toward zero is non-negative exactly above -1, and below an integer bound
    exactly when the value is *)
Lemma Qctrunc_nonneg q : 0 <= Qctrunc q <-> (- (1) < this q)%Q.
Proof.
  unfold Qctrunc. destruct (this q) as [a d]. unfold Qlt. cbn [Qnum Qden Qopp].
  pose proof (Pos2Z.is_pos d) as Hd. generalize dependent (Z.pos d). intros D Hd.
  split; intros H; Z.to_euclidean_division_equations; nia.
Qed.

Lemma Qctrunc_lt q m : 0 < m -> (Qctrunc q < m <-> (this q < inject_Z m)%Q).
Proof.
  intros Hm. unfold Qctrunc. destruct (this q) as [a d]. unfold Qlt. cbn [Qnum Qden inject_Z].
  pose proof (Pos2Z.is_pos d) as Hd. generalize dependent (Z.pos d). intros D Hd.
  split; intros H; Z.to_euclidean_division_equations; nia.
Qed.

(** the conversion is defined exactly on the open interval (-1, 2^bits) *)
Lemma f2u_defined_iff bits q : 0 <= bits ->
  (f2u bits q <> UB <-> (- (1) < this q)%Q /\ (this q < inject_Z (2 ^ bits))%Q).
Proof.
  intros Hb. assert (P : 0 < 2 ^ bits) by (apply Z.pow_pos_nonneg; lia).
  rewrite <- Qctrunc_nonneg, <- (Qctrunc_lt q (2 ^ bits) P).
  split.
  - intros H. destruct (f2u bits q) eqn:E; [|congruence]. apply f2u_val in E. lia.
  - intros H E. apply f2u_ub in E. lia.
Qed.

(** KickMap::updateSM's conversion [jd = qp_int] is the one Model/Kick.v calls [sm_defined_pinned] *)
Lemma sm_defined_f2u n o :
  sm_defined_pinned n o = true <-> f2u 32 (rnd32 (Qcz (n / 2) + o)%Qc) <> UB.
Proof.
  unfold sm_defined_pinned, poffs_split. cbn [sp_int]. split.
  - intros H E. apply f2u_ub in E. lia.
  - intros H. destruct (f2u 32 _) eqn:E; [|congruence]. apply f2u_val in E. lia.
Qed.

(** ** padding: main's sizes against padBunchProfiles' writes *)
Lemma pad_start_small sp b : 0 <= b -> 0 <= sp -> b * sp < 2 ^ 32 -> pad_start sp b = b * sp.
Proof. intros. unfold pad_start, w64. apply Z.mod_small. change (2 ^ 64) with 18446744073709551616. change (2 ^ 32) with 4294967296 in *. nia. Qed.

(** exact condition: every cell written for bucket [b] lies inside a buffer of [nm] cells
    iff the last one does *)
Lemma pad_in_bounds_exact n nm sp b :
  0 < n -> (pad_last n sp b <? nm = true <-> forall x, 0 <= x < n -> 0 <= pad_index sp b x < nm).
Proof.
  intros Hn. unfold pad_last, pad_index. pose proof (Z.mod_pos_bound (b * sp) (2 ^ 64) ltac:(reflexivity)) as W. unfold pad_start, w64.
  split.
  - intros H x Hx. lia.
  - intros H. specialize (H (n - 1) ltac:(lia)). lia.
Qed.

Lemma inj_nonneg z : 0 <= z -> (0 <= inject_Z z)%Q.
Proof. intros H. change 0%Q with (inject_Z 0). rewrite <- Zle_Qle. exact H. Qed.

(** the arithmetic core.  s1 = the double GridSize*spacing_ps, s2 = the double
    (GridSize*nbuckets)*spacing_ps: sp = round(s1), nm >= ceil(s2).  The two products need
    only agree to within one cell (nb*s1 - 1 < s2; in exact arithmetic s2 = nb*s1). *)
Lemma pad_core (n nb : Z) (s1 s2 : Qc) (nm : Z) :
  0 < n -> 1 <= nb ->
  (inject_Z n + inject_Z (nb - 1) * (1 # 2) <= this s1)%Q ->
  (inject_Z nb * this s1 - 1 < this s2)%Q ->
  Qcceil s2 <= nm ->
  (nb - 1) * Qcround s1 + n <= nm.
Proof.
  intros Hn Hnb Hs H12 Hnm.
  assert (S0 : (0 <= this s1)%Q).
  { assert (0 <= inject_Z n)%Q by (apply inj_nonneg; lia).
    assert (0 <= inject_Z (nb - 1))%Q by (apply inj_nonneg; lia).
    revert Hs H H0. generalize (inject_Z n) (inject_Z (nb - 1)) (this s1). intros; lra. }
  pose proof (Qcround_le s1 S0) as HR.
  pose proof (Qcround_nonneg s1 S0) as R0.
  pose proof (Qcceil_ge s2) as HC.
  enough (E : (inject_Z ((nb - 1) * Qcround s1 + n) - 1 < inject_Z (Qcceil s2))%Q).
  { assert (E' : (inject_Z ((nb - 1) * Qcround s1 + n - 1) < inject_Z (Qcceil s2))%Q).
    { unfold Z.sub at 1. rewrite inject_Z_plus. exact E. }
    rewrite <- Zlt_Qlt in E'. lia. }
  rewrite inject_Z_plus, inject_Z_mult.
  assert (B0 : (0 <= inject_Z (nb - 1))%Q) by (apply inj_nonneg; lia).
  assert (EN : (inject_Z nb == inject_Z (nb - 1) + 1)%Q).
  { replace nb with ((nb - 1) + 1) at 1 by lia. rewrite inject_Z_plus. reflexivity. }
  rewrite EN in H12.
  set (R := inject_Z (Qcround s1)) in *. set (B := inject_Z (nb - 1)) in *.
  set (N := inject_Z n) in *. set (C := inject_Z (Qcceil _)) in *. set (S := this s1) in *.
  set (S2 := this s2) in *.
  clearbody R B N C S S2. nra.
Qed.

(** every filled bucket number lies in [0, nbuckets) *)
Lemma bucket_numbers_from_range total i filled b :
  0 <= i -> i + Z.of_nat (length filled) <= total ->
  In b (bucket_numbers_from total i filled) -> 0 <= b < total - i.
Proof.
  revert i. induction filled as [|f r IH]; intros i Hi Hl H; cbn [bucket_numbers_from] in H; [contradiction|].
  cbn [length] in Hl. apply in_app_or in H. destruct H as [H|H].
  - destruct f; cbn in H; [destruct H as [<-|[]]; lia | contradiction].
  - specialize (IH (i + 1) ltac:(lia) ltac:(lia) H). lia.
Qed.

Lemma bucket_numbers_range filled b :
  In b (bucket_numbers filled) -> 0 <= b < Z.of_nat (length filled).
Proof.
  intros H. unfold bucket_numbers in H.
  pose proof (bucket_numbers_from_range (Z.of_nat (length filled)) 0 filled b ltac:(lia) ltac:(lia) H). lia.
Qed.

(** pad_in_bounds: with sp = round(s1) and a buffer of at least ceil(s2) cells, either the
    spacing leaves half a cell per bucket of room (s1 >= n + (nb-1)/2) or the buffer has the
    slack (e.g. from rounding up to a power of two): then every write of padBunchProfiles
    and every read-back of wakePotential is inside the buffer *)
Lemma pad_in_bounds_l (n nb : Z) (s1 s2 : Qc) (nm b x : Z) :
  0 < n -> 1 <= nb -> (0 <= this s1)%Q ->
  (inject_Z nb * this s1 - 1 < this s2)%Q ->
  Qcceil s2 <= nm ->
  nb * Qcround s1 < 2 ^ 32 ->
  ((inject_Z n + inject_Z (nb - 1) * (1 # 2) <= this s1)%Q \/ (nb - 1) * Qcround s1 + n <= nm) ->
  0 <= b < nb -> 0 <= x < n ->
  0 <= pad_index (Qcround s1) b x < nm.
Proof.
  intros Hn Hnb S0 H12 Hnm Hw Hc Hb Hx.
  pose proof (Qcround_nonneg s1 S0) as R0.
  assert (L : (nb - 1) * Qcround s1 + n <= nm).
  { destruct Hc as [Hc|Hc]; [apply (pad_core n nb s1 s2); assumption | exact Hc]. }
  unfold pad_index. rewrite pad_start_small by nia. nia.
Qed.

(** ** KickMap: table entries and source cells *)
Lemma sm_entry_index_range n it o j1 : 0 < n -> 0 <= fst (sm_entry n it o j1) < n.
Proof.
  intros Hn. unfold sm_entry.
  destruct ((0 <=? sp_int (poffs_split n o)) && (sp_int (poffs_split n o) <? n))%bool; [|cbn [fst]; Z.to_euclidean_division_equations; lia].
  match goal with |- context [wrap32 ?z <? n] => pose proof (wrap32_range z) as W; destruct (wrap32 z <? n) eqn:E end.
  - cbn [fst]. lia.
  - cbn [fst]. Z.to_euclidean_division_equations; lia.
Qed.

Lemma kick_table_in_bounds_l n it o j1 : 0 < n -> 0 <= fst (sm_entry_g n it o j1) < n.
Proof.
  intros Hn. unfold sm_entry_g. destruct (sm_in_range n o).
  - apply sm_entry_index_range. exact Hn.
  - cbn [fst]. Z.to_euclidean_division_equations; lia.
Qed.

Lemma kick_table_pinned_in_bounds n it o j1 i w :
  0 < n -> sm_entry_c n it o j1 = Some (i, w) -> 0 <= i < n.
Proof.
  intros Hn H. unfold sm_entry_c in H. destruct (sm_defined_pinned n o); [|discriminate].
  injection H as H. pose proof (sm_entry_index_range n it o j1 Hn) as R. rewrite H in R. exact R.
Qed.

(** the conversion is only made inside the range test, where it is defined *)
Lemma sm_in_range_defined n o : 0 < n <= 2 ^ 32 -> sm_in_range n o = true -> sm_defined_pinned n o = true.
Proof. unfold sm_in_range, sm_defined_pinned. intros Hn H. lia. Qed.

(** inside the range the fixed code is the model of Model/Kick.v *)
Lemma sm_entry_g_eq n it o j1 : sm_in_range n o = true -> sm_entry_g n it o j1 = sm_entry n it o j1.
Proof. intros H. unfold sm_entry_g. rewrite H. reflexivity. Qed.

(** outside it (where the pinned tree was undefined or took the else branch) nothing is read *)
Lemma sm_entry_g_outside n it o j1 : sm_in_range n o = false -> sm_entry_g n it o j1 = (n / 2, 0%Qc).
Proof. intros H. unfold sm_entry_g. rewrite H. reflexivity. Qed.

(** flat position of a table entry inside the n*nb*it entries KickMap allocates *)
Lemma kick_hidx_in_bounds n nb it b x j :
  0 < n -> 0 < nb -> 0 < it -> 0 <= b -> 0 <= x < n -> 0 <= j < it ->
  0 <= hidx_y n nb it b x j < n * nb * it /\ 0 <= hidx_x n nb it b x j < n * nb * it.
Proof.
  intros Hn Hnb Hit Hb Hx Hj. unfold hidx_y, hidx_x.
  set (m := Z.min b (nb - 1)). assert (Hm : 0 <= m <= nb - 1) by (unfold m; lia). clearbody m.
  assert (A : 0 <= m * n + x <= nb * n - 1) by nia.
  assert (B : (m * n + x) * it <= (nb * n - 1) * it) by (apply Z.mul_le_mono_nonneg_r; lia).
  assert (C : x * it <= (n - 1) * it) by (apply Z.mul_le_mono_nonneg_r; lia).
  assert (D : n * it <= n * nb * it) by nia.
  split; nia.
Qed.

(** the unsigned wrap-around test of KickMap::apply is the two-sided range test *)
Lemma kick_src_spec n t h :
  0 < n <= 2 ^ 30 -> 0 <= t < n -> 0 <= h < n ->
  kick_src n t h = if (0 <=? t + h - n / 2) && (t + h - n / 2 <? n) then Some (t + h - n / 2) else None.
Proof.
  intros Hn Ht Hh. unfold kick_src. change (2 ^ 30) with 1073741824 in Hn.
  rewrite in_grid_spec by (change (2 ^ 31) with 2147483648; Z.to_euclidean_division_equations; lia).
  destruct ((0 <=? t + h - n / 2) && (t + h - n / 2 <? n)) eqn:E; [|reflexivity].
  rewrite wrap32_small; [reflexivity|]. change (2 ^ 32) with 4294967296. lia.
Qed.

Lemma kick_reads_in_bounds_l n nb b x y h i :
  0 < n <= 2 ^ 30 -> 0 <= b < nb -> 0 <= x < n -> 0 <= y < n -> 0 <= h < n ->
  (kick_read_y n b x y h = Some i \/ kick_read_x n b x y h = Some i) ->
  0 <= i < nb * n * n.
Proof.
  intros Hn Hb Hx Hy Hh H. unfold kick_read_y, kick_read_x in H.
  rewrite !kick_src_spec in H by assumption.
  destruct H as [H|H];
    match type of H with context [if ?c then _ else _] => destruct c eqn:E end; cbn [option_map] in H;
    try discriminate; injection H as <-; unfold didx; nia.
Qed.

(** ** Impedance::operator+= *)
Lemma impedance_sum_in_bounds_l lhs_n rhs_n i :
  In i (imp_sum_reads lhs_n rhs_n) -> 0 <= i < rhs_n /\ 0 <= i < lhs_n.
Proof. intros Hi. apply in_zrange in Hi. lia. Qed.

Lemma impedance_sum_pinned_in_bounds lhs_n rhs_n i :
  lhs_n <= rhs_n -> In i (imp_sum_reads_pinned lhs_n) -> 0 <= i < rhs_n.
Proof. intros H Hi. apply in_zrange in Hi. lia. Qed.

(** ** HDF5File::appendTracks *)
Lemma track_ok_iff n x : 0 < n <= 2 ^ 32 -> (track_ok n x = true <-> 0 <= Qctrunc x < n).
Proof.
  intros Hn. unfold track_ok, track_index. destruct (f2u 32 x) eqn:E.
  - apply f2u_val in E. lia.
  - apply f2u_ub in E. lia.
Qed.

Lemma tracks_index_in_bounds_l n x :
  0 < n <= 2 ^ 32 -> (- (1) < this x)%Q -> (this x < inject_Z n)%Q ->
  exists i, track_index x = Val i /\ 0 <= i < n.
Proof.
  intros Hn H1 H2. apply Qctrunc_nonneg in H1. apply (Qctrunc_lt x n ltac:(lia)) in H2.
  exists (Qctrunc x). split; [|lia]. unfold track_index. apply f2u_val. lia.
Qed.

(** ** Fokker-Planck constructor *)
Lemma forallb_flat_map {A B} (f : A -> list B) (p : B -> bool) l :
  forallb p (flat_map f l) = forallb (fun a => forallb p (f a)) l.
Proof. induction l as [|a r IH]; cbn [flat_map forallb]; [reflexivity|]. rewrite forallb_app, IH. reflexivity. Qed.

Lemma hrow4_ok n j a b c d :
  4 <= n <= 2 ^ 30 -> 0 <= j < n ->
  0 <= a < n -> 0 <= b < n -> 0 <= c < n -> 0 <= d < n ->
  forallb (ev_ok n 4) (hrow 4 j [a; b; c; d]) = true.
Proof.
  intros Hn Hj Ha Hb Hc Hd. change (2 ^ 30) with 1073741824 in Hn. unfold hrow.
  replace (zrange 4) with [0; 1; 2; 3] by reflexivity.
  cbn [combine map fst snd forallb ev_ok]. unfold fp_table_len.
  rewrite !wrap32_small by (change (2 ^ 32) with 4294967296; lia). lia.
Qed.

Lemma hrow3_ok n j a b c :
  3 <= n <= 2 ^ 30 -> 0 <= j < n ->
  0 <= a < n -> 0 <= b < n -> 0 <= c < n ->
  forallb (ev_ok n 3) (hrow 3 j [a; b; c]) = true.
Proof.
  intros Hn Hj Ha Hb Hc. change (2 ^ 30) with 1073741824 in Hn. unfold hrow.
  replace (zrange 3) with [0; 1; 2] by reflexivity.
  cbn [combine map fst snd forallb ev_ok]. unfold fp_table_len.
  rewrite !wrap32_small by (change (2 ^ 32) with 4294967296; lia). lia.
Qed.

Lemma zero_row4 j : zero_row 4 j = hrow 4 j [0; 0; 0; 0].
Proof. reflexivity. Qed.
Lemma zero_row3 j : zero_row 3 j = hrow 3 j [0; 0; 0].
Proof. reflexivity. Qed.

(** cubic stencil: in bounds when the zero-energy bin is at least one cell inside at the
    bottom and two cells inside at the top *)
Lemma fp_table_in_bounds_l n zb damping :
  4 <= n <= 2 ^ 30 -> 1 <= Qctrunc zb -> (this zb <= inject_Z (n - 2))%Q ->
  exists evs, fp_events n 4 zb damping = Some evs /\ forallb (ev_ok n 4) evs = true.
Proof.
  intros Hn Ht Hz. pose proof Hn as Hn'. change (2 ^ 30) with 1073741824 in Hn'.
  assert (Tn : Qctrunc zb < n - 1).
  { apply Qctrunc_lt; [lia|]. eapply Qle_lt_trans; [exact Hz|]. rewrite <- Zlt_Qlt. lia. }
  assert (Cn : Qcceil zb <= n - 2) by (apply Qcceil_le_int; exact Hz).
  unfold fp_events. change (4 =? 3) with false. cbv iota.
  assert (F : f2u 32 zb = Val (Qctrunc zb)).
  { apply f2u_val. split; [reflexivity|]. change (2 ^ 32) with 4294967296. lia. }
  rewrite F. eexists. split; [reflexivity|].
  rewrite !wrap32_small by (change (2 ^ 32) with 4294967296; lia).
  rewrite !forallb_app, !forallb_flat_map, !zero_row4.
  apply andb_true_intro; split; [|apply andb_true_intro; split; [|apply andb_true_intro; split;
    [|apply andb_true_intro; split; [|apply andb_true_intro; split]]]].
  - apply hrow4_ok; lia.
  - apply hrow4_ok; lia.
  - apply forallb_forall. intros j Hj. apply in_zseq in Hj. unfold loop_len_q in Hj.
    cbn [forallb ev_ok]. apply andb_true_intro. split; [lia|]. apply hrow4_ok; lia.
  - apply forallb_forall. intros j Hj. apply in_zseq in Hj.
    cbn [forallb ev_ok]. apply andb_true_intro. split; [lia|]. apply hrow4_ok; lia.
  - apply hrow4_ok; lia.
  - apply hrow4_ok; lia.
Qed.

(** three-point stencil: in bounds for every zero bin (its loops do not depend on it) *)
Lemma fp_table_two_sided_in_bounds n zb damping :
  3 <= n <= 2 ^ 30 ->
  exists evs, fp_events n 3 zb damping = Some evs /\ forallb (ev_ok n 3) evs = true.
Proof.
  intros Hn. pose proof Hn as Hn'. change (2 ^ 30) with 1073741824 in Hn'.
  unfold fp_events. change (3 =? 3) with true. cbv iota. eexists. split; [reflexivity|].
  rewrite !wrap32_small by (change (2 ^ 32) with 4294967296; lia).
  rewrite !forallb_app, !forallb_flat_map, !zero_row3.
  apply andb_true_intro; split; [|apply andb_true_intro; split].
  - apply hrow3_ok; lia.
  - apply forallb_forall. intros j Hj. apply in_zseq in Hj. rewrite forallb_app.
    apply andb_true_intro. split; [apply hrow3_ok; lia|]. destruct damping; cbn [forallb ev_ok]; lia.
  - apply hrow3_ok; lia.
Qed.

(** ** upper_power_of_two: the shift-or cascade fills every bit below the highest set bit *)
Fixpoint orr (x i : Z) (m : nat) : bool :=
  match m with O => false | S k => Z.testbit x i || orr x (i + 1) k end.

Lemma orr_app x i a b : orr x i (a + b) = orr x i a || orr x (i + Z.of_nat a) b.
Proof.
  revert i; induction a as [|a IH]; intros i; cbn [orr Nat.add].
  - rewrite Z.add_0_r. reflexivity.
  - rewrite IH, orb_assoc. replace (i + Z.of_nat (S a)) with (i + 1 + Z.of_nat a) by lia. reflexivity.
Qed.

Lemma orr_true x i m k : (k < m)%nat -> Z.testbit x (i + Z.of_nat k) = true -> orr x i m = true.
Proof.
  revert i k; induction m as [|m IH]; intros i k Hk Hb; [lia|]. cbn [orr].
  destruct k as [|k].
  - rewrite Z.add_0_r in Hb. rewrite Hb. reflexivity.
  - rewrite (IH (i + 1) k); [apply orb_true_r | lia |]. replace (i + 1 + Z.of_nat k) with (i + Z.of_nat (S k)) by lia. exact Hb.
Qed.

Lemma orr_false x i m : (forall k, (k < m)%nat -> Z.testbit x (i + Z.of_nat k) = false) -> orr x i m = false.
Proof.
  revert i; induction m as [|m IH]; intros i H; [reflexivity|]. cbn [orr].
  pose proof (H 0%nat ltac:(lia)) as H0. change (Z.of_nat 0) with 0 in H0. rewrite Z.add_0_r in H0.
  rewrite H0. cbn [orb].
  apply IH. intros k Hk. replace (i + 1 + Z.of_nat k) with (i + Z.of_nat (S k)) by lia. apply H. lia.
Qed.

Lemma smear_step_bits x y m :
  (forall i, 0 <= i -> Z.testbit y i = orr x i m) ->
  forall i, 0 <= i -> Z.testbit (smear_step (Z.of_nat m) y) i = orr x i (m + m).
Proof.
  intros H i Hi. unfold smear_step. rewrite Z.lor_spec, Z.shiftr_spec by lia.
  rewrite !H by lia. rewrite orr_app. reflexivity.
Qed.

Lemma smear_bits x i : 0 <= i -> Z.testbit (smear x) i = orr x i 64.
Proof.
  unfold smear.
  assert (H1 : forall i, 0 <= i -> Z.testbit x i = orr x i 1) by (intros; cbn [orr]; rewrite orb_false_r; reflexivity).
  pose proof (smear_step_bits x _ 1 H1) as H2.
  pose proof (smear_step_bits x _ 2 H2) as H4.
  pose proof (smear_step_bits x _ 4 H4) as H8.
  pose proof (smear_step_bits x _ 8 H8) as H16.
  pose proof (smear_step_bits x _ 16 H16) as H32.
  pose proof (smear_step_bits x _ 32 H32) as H64.
  exact (H64 i).
Qed.

Lemma smear_spec x : 0 < x < 2 ^ 64 -> smear x = 2 ^ (Z.log2 x + 1) - 1.
Proof.
  intros Hx. pose proof (Z.log2_nonneg x) as L0.
  assert (L63 : Z.log2 x < 64) by (apply Z.log2_lt_pow2; lia).
  replace (2 ^ (Z.log2 x + 1) - 1) with (Z.ones (Z.log2 x + 1)) by (rewrite Z.ones_equiv; lia).
  apply Z.bits_inj'. intros i Hi. rewrite smear_bits by exact Hi.
  destruct (Z_le_gt_dec i (Z.log2 x)) as [Le|Gt].
  - rewrite Z.ones_spec_low by lia.
    apply (orr_true x i 64 (Z.to_nat (Z.log2 x - i))); [lia|].
    replace (i + Z.of_nat (Z.to_nat (Z.log2 x - i))) with (Z.log2 x) by lia.
    apply Z.bit_log2. lia.
  - rewrite Z.ones_spec_high by lia.
    apply orr_false. intros k Hk. apply Z.bits_above_log2; lia.
Qed.

Lemma upper_power_of_two_spec_l v :
  1 <= v <= 2 ^ 63 -> upper_power_of_two v = 2 ^ Z.log2_up v.
Proof.
  intros Hv. unfold upper_power_of_two, w64.
  destruct (Z.eq_dec v 1) as [->|N1]; [reflexivity|].
  assert (X : 0 < v - 1 < 2 ^ 63) by lia.
  assert (P63 : 2 ^ 63 < 2 ^ 64) by reflexivity.
  rewrite (Z.mod_small (v - 1)) by lia.
  rewrite smear_spec by lia.
  assert (L : Z.log2 (v - 1) < 63) by (apply Z.log2_lt_pow2; lia).
  pose proof (Z.log2_nonneg (v - 1)) as L0.
  replace (2 ^ (Z.log2 (v - 1) + 1) - 1 + 1) with (2 ^ (Z.log2 (v - 1) + 1)) by lia.
  assert (E : Z.log2_up v = Z.log2 (v - 1) + 1).
  { unfold Z.log2_up. destruct (1 ?= v) eqn:C; try (apply Z.compare_eq in C || apply Z.compare_gt_iff in C; lia).
    rewrite <- Z.sub_1_r. lia. }
  rewrite E. apply Z.mod_small. split; [apply Z.pow_nonneg; lia|].
  apply Z.pow_lt_mono_r; lia.
Qed.

(** consequences used for the padded sizes: never smaller than the argument, less than twice it *)
Lemma upper_power_of_two_ge v : 1 <= v <= 2 ^ 63 -> v <= upper_power_of_two v < 2 * v.
Proof.
  intros Hv. rewrite upper_power_of_two_spec_l by exact Hv.
  destruct (Z.eq_dec v 1) as [->|N1]; [cbn; lia|].
  pose proof (Z.log2_up_spec v ltac:(lia)) as S.
  assert (E : 2 ^ Z.log2_up v = 2 * 2 ^ Z.pred (Z.log2_up v)).
  { rewrite <- Z.pow_succ_r by (pose proof (Z.log2_up_pos v ltac:(lia)); lia). f_equal. lia. }
  lia.
Qed.

(** outside its domain the function wraps to 0 *)
Lemma upper_power_of_two_wraps : upper_power_of_two 0 = 0 /\ upper_power_of_two (2 ^ 63 + 1) = 0.
Proof. split; vm_compute; reflexivity. Qed.

(** ** the tree after the fixes 899923d (padded length) and de00324 (guard in main) *)
Lemma Qctrunc_Qcz z : Qctrunc (Qcz z) = z.
Proof.
  unfold Qctrunc. pose proof (this_Qcz z) as E. destruct (this (Qcz z)) as [a d].
  unfold Qeq in E. cbn [Qnum Qden inject_Z] in *. rewrite Z.mul_1_r in E. subst a.
  apply Z.quot_mul. discriminate.
Qed.

Lemma f2u_Qcz bits z v : f2u bits (Qcz z) = Val v -> v = z /\ 0 <= z < 2 ^ bits.
Proof. intros H. apply f2u_val in H. rewrite Qctrunc_Qcz in H. destruct H as [-> H]. split; [reflexivity | exact H]. Qed.

Lemma pad_start_small64 sp b : 0 <= b < 2 ^ 32 -> 0 <= sp < 2 ^ 32 -> pad_start sp b = b * sp.
Proof.
  intros Hb Hs. unfold pad_start, w64. apply Z.mod_small.
  change (2 ^ 64) with 18446744073709551616. change (2 ^ 32) with 4294967296 in *. nia.
Qed.

(** with the fixed sizing every touched cell is inside the wake buffers, for every spacing:
    no side condition on s is left *)
Lemma pad_in_bounds_fixed_l n nb sps padding roundp sp nm b x :
  0 < n < 2 ^ 32 -> 1 < nb < 2 ^ 32 ->
  spacing_bins (main_sizes n nb sps padding roundp) = Val sp ->
  wake_nmax nb (main_sizes n nb sps padding roundp) = Val nm ->
  Qcceil (spaced_prod n nb sps) <= 2 ^ 63 -> (nb - 1) * sp + n <= 2 ^ 63 ->
  0 <= b < nb -> 0 <= x < n ->
  0 <= pad_index sp b x < nm.
Proof.
  intros Hn Hnb Hsp Hnm Hc Hf Hb Hx.
  unfold wake_nmax in Hnm. replace (1 <? nb) with true in Hnm by lia.
  unfold main_sizes in Hsp, Hnm. cbn [spacing_bins spaced_bins] in Hsp, Hnm.
  rewrite Hsp in Hnm. cbn [conv_bind] in Hnm.
  apply f2u_Qcz in Hsp. destruct Hsp as [Esp Hs]. rewrite <- Esp in Hs.
  destruct (f2u 64 (Qcz (Qcceil (spaced_prod n nb sps)))) as [c|] eqn:E;
    [|destruct roundp; cbn in Hnm; discriminate].
  apply f2u_Qcz in E. destruct E as [-> Hc0]. cbn [conv_bind] in Hnm.
  assert (F : spaced_floor n nb sp = (nb - 1) * sp + n).
  { unfold spaced_floor, w64. rewrite wrap32_small by lia. apply Z.mod_small.
    change (2 ^ 64) with 18446744073709551616. change (2 ^ 32) with 4294967296 in *. nia. }
  rewrite F in Hnm.
  set (v := Z.max (Qcceil (spaced_prod n nb sps)) ((nb - 1) * sp + n)) in Hnm.
  assert (V : (nb - 1) * sp + n <= v <= 2 ^ 63) by (unfold v; lia).
  assert (N : (nb - 1) * sp + n <= nm).
  { destruct roundp; cbn [round_up conv_bind] in Hnm; injection Hnm as <-; [|lia].
    pose proof (upper_power_of_two_ge v ltac:(nia)). lia. }
  unfold pad_index. rewrite pad_start_small64 by lia. nia.
Qed.

Lemma fp_guard_spec n zb : fp_guard n zb = true -> 1 <= Qctrunc zb /\ (this zb <= inject_Z (n - 2))%Q.
Proof.
  unfold fp_guard. intros H. apply andb_true_iff in H. destruct H as [H1 H2].
  apply Qle_bool_iff in H1. apply Qle_bool_iff in H2. split; [|exact H2].
  destruct (Z_lt_le_dec (Qctrunc zb) 1) as [L|G]; [|exact G].
  apply (Qctrunc_lt zb 1 ltac:(lia)) in L. exfalso. apply (Qlt_not_le _ _ L). exact H1.
Qed.

(** whatever grid shift the program accepts, the cubic constructor stays in bounds *)
Lemma fp_guarded_in_bounds n zb damping :
  4 <= n <= 2 ^ 24 -> fp_guard n zb = true ->
  exists evs, fp_events n 4 zb damping = Some evs /\ forallb (ev_ok n 4) evs = true.
Proof.
  intros Hn G. apply fp_guard_spec in G. destruct G as [G1 G2].
  apply fp_table_in_bounds_l; try assumption. change (2 ^ 24) with 16777216 in Hn. change (2 ^ 30) with 1073741824. lia.
Qed.
