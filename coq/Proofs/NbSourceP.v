(** * C17: every index into ElectricField::_bucket is inside it, on every start-up path main() goes on from. *)
From Coq Require Import List ZArith Bool String Lia.
From Inovesa Require Import Model.NbSourceTypes Gen.Gen_NbSource Gen.Gen_H5Index Model.NbSource.
Import ListNotations.
Local Open Scope Z_scope.

Lemma bucket_loop_length size filling : forall i,
  List.length (bucket_loop size i filling) = List.length (filter gen_filled filling).
Proof.
  induction filling as [|c r IH]; intro i; cbn [bucket_loop filter]; [reflexivity|].
  destruct (gen_filled c); cbn [List.length]; rewrite IH; reflexivity.
Qed.

Lemma bucketnumbers_length filling : Z.of_nat (List.length (bucketnumbers filling)) = nbunches filling.
Proof. unfold bucketnumbers, nbunches. rewrite bucket_loop_length. reflexivity. Qed.

(** the bucket numbers are numbers of buckets of the pattern (what padBunchProfiles multiplies the spacing with) *)
Lemma bucket_loop_range size filling : forall i, 0 <= i -> i + Z.of_nat (List.length filling) <= size ->
  forall b, In b (bucket_loop size i filling) -> 0 <= b < size.
Proof.
  induction filling as [|c r IH]; intros i Hi Hs b Hb; cbn [bucket_loop] in Hb; [contradiction|].
  cbn [List.length] in Hs. rewrite Nat2Z.inj_succ in Hs.
  destruct (gen_filled c).
  - destruct Hb as [E|Hb].
    + subst b. unfold gen_bucket_entry. lia.
    + apply (IH (i + 1)); [lia|lia|exact Hb].
  - apply (IH (i + 1)); [lia|lia|exact Hb].
Qed.

Lemma bucketnumbers_range filling b : In b (bucketnumbers filling) -> 0 <= b < Z.of_nat (List.length filling).
Proof. unfold bucketnumbers. apply bucket_loop_range; lia. Qed.

(** readPhaseSpace sizes the phase space with ONE bunch, whatever the file holds *)
Lemma h5_nb_one dims step gridsize nb : h5_nb dims step gridsize = Some nb -> nb = 1.
Proof.
  unfold h5_nb. destruct (List.length dims) as [|[|[|[|[|n]]]]] eqn:L; try discriminate.
  - unfold gen_r3_setsize, gen_setsize. destruct (gen_accept _ _); [|discriminate].
    destruct (gen_main_refuses_gridsize _ _); [discriminate|]. intro H. injection H as H. lia.
  - unfold gen_r4_setsize, gen_setsize. destruct (gen_accept _ _); [|discriminate].
    destruct (gen_main_refuses_gridsize _ _); [discriminate|]. intro H. injection H as H. lia.
Qed.

(** ... and therefore refuses a results file that holds several bunches (its data do not fit a one-bunch grid) *)
Lemma h5_multibunch_refused dims step gridsize :
  List.length dims = 4%nat -> 2 <= nth 1 dims 0 -> 0 < nth 2 dims 0 -> h5_nb dims step gridsize = None.
Proof.
  intros L Hb Hx. unfold h5_nb. rewrite L. unfold gen_r4_setsize, gen_r4_count, gen_setsize, gen_accept, product. cbn [fold_right].
  set (x := nth 2 dims 0) in *. set (nbf := nth 1 dims 0) in *.
  assert (E : (x * x * 1 =? 1 * (nbf * (x * (x * 1)))) = false).
  { apply Z.eqb_neq. nia. }
  rewrite E. reflexivity.
Qed.

Lemma gen_min_bunches_one : gen_min_bunches = 1.
Proof. reflexivity. Qed.

Lemma sites_all_ok nb len : nb <= len -> forallb (site_ok nb len) gen_bucket_sites = true.
Proof.
  intro H. apply forallb_forall. intros s _. unfold site_ok. destruct (snd s); [apply Z.leb_le; exact H|reflexivity].
Qed.

Theorem bucket_index_in_bounds_thm :
  fields_get_bucketnumbers = true /\
  (forall filling b, In b (bucketnumbers filling) -> 0 <= b < Z.of_nat (List.length filling)) /\
  forall (s : start) (gridsize : Z) (filling : list Z) (nb : Z),
    start_nb s gridsize filling = Some nb ->
    nb <= Z.of_nat (List.length (bucketnumbers filling)) /\
    forallb (site_ok nb (Z.of_nat (List.length (bucketnumbers filling)))) gen_bucket_sites = true /\
    forall b, 0 <= b < nb -> (Z.to_nat b < List.length (bucketnumbers filling))%nat.
Proof.
  split; [vm_compute; reflexivity|]. split; [exact bucketnumbers_range|].
  intros s gridsize filling nb H.
  assert (LE : nb <= Z.of_nat (List.length (bucketnumbers filling))).
  { unfold start_nb, start_nb_with in H. rewrite gen_min_bunches_one in H.
    destruct (nbunches filling <? 1) eqn:G; [discriminate|]. apply Z.ltb_ge in G.
    rewrite bucketnumbers_length.
    destruct s as [|dims step|].
    - injection H as H. unfold gen_nb_nofile in H. lia.
    - unfold gen_h5_exception_quits in H. apply h5_nb_one in H. lia.
    - injection H as H. unfold gen_nb_txt in H. lia. }
  split; [exact LE|]. split; [exact (sites_all_ok nb _ LE)|].
  intros b Hb. lia.
Qed.

Theorem multibunch_startfile_refused_thm :
  forall dims step gridsize filling, List.length dims = 4%nat -> 2 <= nth 1 dims 0 -> 0 < nth 2 dims 0 ->
    start_nb (H5File dims step) gridsize filling = None.
Proof.
  intros dims step gridsize filling L Hb Hx. unfold start_nb, start_nb_with.
  destruct (nbunches filling <? gen_min_bunches); [reflexivity|].
  unfold gen_h5_exception_quits. exact (h5_multibunch_refused dims step gridsize L Hb Hx).
Qed.

(** without the guard on the number of filled buckets (the pinned main()): a filling pattern without any filled bucket
    and a single-bunch start file reach the field objects with nb = 1 and an EMPTY bucket list - `_bucket[0]` is read
    past its end (witness: one bucket that is not filled - `-I 0 -i start.h5`, grid 32; the witness current is -1 so that it is
    unfilled also for a test written `>= 0`) *)
Theorem bucket_index_pinned_refuted_thm :
  exists filling dims step gridsize nb,
    start_nb_with 0 (H5File dims step) gridsize filling = Some nb /\
    bucketnumbers filling = [] /\ 0 < nb.
Proof. exists [-1], [3; 1; 32; 32], (-1), 32, 1. vm_compute. repeat split; reflexivity. Qed.
