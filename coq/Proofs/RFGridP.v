(** * First-moment transport of the kick maps and the centroid map on the grid (C03).

    Row level: for a stencil of at least two points the first moment of a row moves exactly by
    the displacement ([poly_reproduction] with k <= 1 and the re-indexing lemma
    [term_sum_weighted]).  Grid level: the RF kick (along y) followed by the drift (along x) maps
    the raw first moments about the zero bins by [cstep t a], for every bunch of a bunch-major
    grid, every data (signed included), grid size and position of the zero bins. *)
From Coq Require Import List ZArith QArith Qcanon Lia Bool Ring Field.
From Inovesa Require Import Base.FieldKit Base.Sums Base.Float32 Gen.Gen_Coeffs Model.Kick Model.RF
  Proofs.WeightsP Proofs.KickP Proofs.KickGridP Proofs.RFP.
Import ListNotations.
Local Open Scope Z_scope.

Notation qz := (@fz QcF).

(** ** integers in Qc *)
Lemma qz_pos p : @fpos QcF p = Qcz (Zpos p).
Proof.
  induction p as [q IH|q IH|]; cbn [fpos].
  - rewrite IH. unfold two. qc_unf.
    replace (Z.pos q~1) with (1 + (Z.pos q + Z.pos q)) by lia. rewrite <- !Qcz_add.
    change (Qcz 1) with 1%Qc. ring.
  - rewrite IH. unfold two. qc_unf.
    replace (Z.pos q~0) with (Z.pos q + Z.pos q) by lia. rewrite <- !Qcz_add. ring.
  - reflexivity.
Qed.

Lemma qz_Qcz z : qz z = Qcz z.
Proof.
  destruct z as [|p|p]; cbn [fz]; [reflexivity | apply qz_pos |].
  rewrite qz_pos. qc_unf.
  assert (E : (Qcz (Z.neg p) + Qcz (Z.pos p))%Qc = 0%Qc) by (rewrite Qcz_add; replace (Z.neg p + Z.pos p) with 0 by lia; reflexivity).
  transitivity ((Qcz (Z.neg p) + Qcz (Z.pos p)) - Qcz (Z.pos p))%Qc; [rewrite E; ring | ring].
Qed.

(** the displacement the table row really encodes: integer part - n/2 + fraction of the float
    sum n/2 + o; equal to o whenever that float sum is exact *)
Definition eff_off (n : Z) (o : Qc) : Qc :=
  (qz (sp_int (poffs_split n o) - n / 2) + sp_frac (poffs_split n o))%Qc.

Lemma eff_off_exact n o :
  rnd32 (Qcz (n / 2) + o)%Qc = (Qcz (n / 2) + o)%Qc -> eff_off n o = o.
Proof.
  intros E. unfold eff_off, poffs_split; cbn [sp_int sp_frac]. rewrite E.
  set (p := (Qcz (n / 2) + o)%Qc). unfold Qcfrac.
  rewrite (fz_sub QcF), !qz_Qcz. subst p. unfold Qcz. qc_unf. ring.
Qed.

(** ** weights of a table row as sums over the stencil index *)
Lemma fdot_nthQ (l : list Qc) (g : Z -> Qc) it :
  Z.of_nat (length l) = it ->
  fdot (K:=QcF) l (map g (zrange it)) = sumQ 0 (Z.to_nat it) (fun j => (nthQ l j * g j)%Qc).
Proof.
  intros <-. unfold zrange. rewrite Nat2Z.id.
  assert (G : forall s, fdot (K:=QcF) l (map g (map Z.of_nat (seq s (length l)))) =
                        sumQ (Z.of_nat s) (length l) (fun j => (nth (Z.to_nat j - s) l 0%Qc * g j)%Qc)).
  { induction l as [|x l IH]; intros s; cbn [length seq map fdot sumZ]; [reflexivity|].
    rewrite IH. rewrite Nat2Z.id, Nat.sub_diag. cbn [nth]. qc_unf. f_equal.
    replace (Z.of_nat s + 1) with (Z.of_nat (S s)) by lia.
    apply (sumZ_ext QcF). intros j Hj.
    replace (Z.to_nat j - s)%nat with (S (Z.to_nat j - S s)) by lia. reflexivity. }
  rewrite (G O). apply (sumZ_ext QcF). intros j Hj. unfold nthQ. rewrite Nat.sub_0_r. reflexivity.
Qed.

Lemma weights_sum1 it f : valid_it it ->
  sumQ 0 (Z.to_nat it) (fun j => nthQ (coeffs (K:=QcF) it f) j) = 1%Qc.
Proof.
  intros Hv. rewrite <- qsum_zrange, nthQ_sum by (apply (coeffs_length QcF); exact Hv).
  exact (coeffs_unity QcF it f Hv).
Qed.

Lemma weights_first it f : valid_it it -> 2 <= it ->
  sumQ 0 (Z.to_nat it) (fun j => (nthQ (coeffs (K:=QcF) it f) j * qz (j - centre it))%Qc) = f.
Proof.
  intros Hv H2. rewrite <- fdot_nthQ by (apply (coeffs_length QcF); exact Hv).
  exact (coeffs_first_moment QcF it f Hv H2).
Qed.

(** ** one row: first moment *)
Section RowMoment.
  Variables (n it : Z) (E : Z -> Z * Qc) (r : Z -> Qc).
  Hypothesis Hn : 0 < n < 2 ^ 30.
  Hypothesis Hit : 0 <= it.
  Hypothesis Hidx : forall j, 0 <= j < it -> 0 <= fst (E j) < n.
  Variables (a b : Z).
  Hypothesis Hsupp : suppQ r a b.
  Hypothesis Hab : 0 <= a /\ a <= b /\ b <= n.
  Hypothesis Hshift : forall j, 0 <= j < it ->
      0 <= a - (fst (E j) - n / 2) /\ b - (fst (E j) - n / 2) <= n.

  Lemma row_first_moment_terms :
    sumQ 0 (Z.to_nat n) (fun y => (qz y * row_out n it E r y)%Qc) =
    sumQ 0 (Z.to_nat it) (fun j => (snd (E j) *
        sumQ 0 (Z.to_nat n) (fun u => (qz (u - (fst (E j) - n / 2)) * r u)%Qc))%Qc).
  Proof.
    rewrite (sumZ_ext QcF _ _ _ (fun y => sumQ 0 (Z.to_nat it)
               (fun j => @fmul QcF (qz y) (termQ n r (snd (E j)) (fst (E j) - n / 2) y)))).
    2:{ intros y Hy. rewrite (row_out_terms n it E r) by (assumption || lia).
        rewrite (sumZ_scale QcF). reflexivity. }
    rewrite sumZ_swap. apply (sumZ_ext QcF). intros j Hj.
    assert (Hj' : 0 <= j < it) by lia. destruct (Hshift j Hj') as [S1 S2].
    apply (term_sum_weighted QcF n r (snd (E j)) (fst (E j) - n / 2) a b (fun y => qz y)); lia || assumption.
  Qed.
End RowMoment.

(** first moment of the row written by the model's updateSM: it moves by exactly [eff_off] *)
Theorem sm_row_first_moment n it o r :
  valid_it it -> 2 <= it -> 0 < n < 2 ^ 30 -> row_ok n it o r ->
  sumQ 0 (Z.to_nat n) (fun y => (qz y * row_out n it (sm_entry n it o) r y)%Qc) =
  sumQ 0 (Z.to_nat n) (fun u => ((qz u - eff_off n o) * r u)%Qc).
Proof.
  intros Hv H2 Hn (Hlo & Hhi & a & b & Hs & Ha & Hab & Hb & S1 & S2).
  destruct (valid_it_range it Hv) as [Hi Hc].
  set (s := poffs_split n o) in *. set (jd := sp_int s) in *.
  assert (Hidx : forall j, 0 <= j < it -> 0 <= fst (sm_entry n it o j) < n).
  { intros j Hj. rewrite sm_entry_inrange by (assumption || (fold s; fold jd; lia)). cbn [fst]. fold s; fold jd. lia. }
  assert (Hsh : forall j, 0 <= j < it ->
            0 <= a - (fst (sm_entry n it o j) - n / 2) /\ b - (fst (sm_entry n it o j) - n / 2) <= n).
  { intros j Hj. rewrite sm_entry_inrange by (assumption || (fold s; fold jd; lia)). cbn [fst]. fold s; fold jd. lia. }
  rewrite (row_first_moment_terms n it (sm_entry n it o) r Hn Hidx a b Hs ltac:(lia) Hsh).
  set (ws := coeffs (K:=QcF) it (sp_frac s)).
  rewrite (sumZ_ext QcF _ _ _ (fun j => sumQ 0 (Z.to_nat n)
     (fun u => @fmul QcF (r u) (@fsub QcF (@fmul QcF (nthQ ws j) (@fsub QcF (qz u) (qz (jd - n / 2))))
                                           (@fmul QcF (nthQ ws j) (qz (j - centre it))))))).
  2:{ intros j Hj. rewrite sm_entry_inrange by (assumption || fold s; fold jd; lia). cbn [fst snd]. fold s; fold jd; fold ws.
      rewrite <- (sumZ_scale QcF). apply (sumZ_ext QcF). intros u Hu.
      replace (u - (jd + j - centre it - n / 2)) with (u - (jd - n / 2) - (j - centre it)) by lia.
      rewrite !(fz_sub QcF). qc_unf. ring. }
  rewrite sumZ_swap. apply (sumZ_ext QcF). intros u Hu.
  rewrite (sumZ_scale QcF).
  rewrite (sumZ_ext QcF _ _ _ (fun j => @fadd QcF
      (@fmul QcF (@fsub QcF (qz u) (qz (jd - n / 2))) (nthQ ws j))
      (@fmul QcF (@fopp QcF 1%Qc) ((nthQ ws j * qz (j - centre it))%Qc))))
    by (intros j Hj; qc_unf; ring).
  rewrite (sumZ_add QcF), !(sumZ_scale QcF).
  unfold ws. rewrite weights_sum1, weights_first by assumption.
  unfold eff_off. fold s; fold jd. qc_unf. ring.
Qed.

(** ** rows and columns of one bunch of the bunch-major grid, clipped to [0,n) *)
Definition clip (n : Z) (r : Z -> Qc) (i : Z) : Qc :=
  if ((0 <=? i) && (i <? n))%bool then r i else 0%Qc.
Definition rowY (n : Z) (D : Z -> Qc) (b x : Z) : Z -> Qc := clip n (fun y => D (didx n b x y)).
Definition colX (n : Z) (D : Z -> Qc) (b y : Z) : Z -> Qc := clip n (fun x => D (didx n b x y)).

Lemma clip_in n r i : 0 <= i < n -> clip n r i = r i.
Proof.
  intros H. unfold clip.
  replace ((0 <=? i) && (i <? n))%bool with true; [reflexivity|].
  symmetry; apply andb_true_iff; split; [apply Z.leb_le | apply Z.ltb_lt]; lia.
Qed.

Lemma row_out_clip n it E r y : 0 < n -> row_out n it E (clip n r) y = row_out n it E r y.
Proof.
  intros Hn. unfold row_out. f_equal. apply map_ext. intros j. cbv zeta.
  set (ys := wrap32 _). destruct (Z.ltb_spec ys n) as [L|G]; [|reflexivity].
  assert (0 <= ys) by (unfold ys, wrap32; apply Z.mod_pos_bound; reflexivity).
  rewrite clip_in by lia. reflexivity.
Qed.

Lemma apply_y_row n nb it offs D b x y :
  valid_it it -> 0 < n -> 0 < nb -> 0 <= b < nb -> 0 <= x < n -> 0 <= y < n ->
  apply_y n nb it (updateSM n it offs) D (didx n b x y) =
  row_out n it (sm_entry n it (offs (Z.min b (nb - 1) * n + x))) (rowY n D b x) y.
Proof.
  intros Hv Hn Hnb Hb Hx Hy. destruct (valid_it_range it Hv) as [Hi Hc].
  unfold rowY. rewrite row_out_clip by lia.
  unfold apply_y. rewrite didx_flat. destruct (cell_decode n b x y) as (-> & -> & ->); try lia.
  unfold apply_y_cell, row_out. f_equal. apply map_ext_in. intros j Hj.
  unfold zrange in Hj. apply in_map_iff in Hj. destruct Hj as (k & <- & Hk). apply in_seq in Hk.
  unfold updateSM, hidx_y.
  rewrite (div_lin (Z.min b (nb - 1) * n + x) it (Z.of_nat k)) by lia.
  rewrite (mod_lin (Z.min b (nb - 1) * n + x) it (Z.of_nat k)) by lia.
  reflexivity.
Qed.

Lemma apply_x_row n nb it offs D b x y :
  valid_it it -> 0 < n -> 0 < nb -> 0 <= b < nb -> 0 <= x < n -> 0 <= y < n ->
  apply_x n nb it (updateSM n it offs) D (didx n b x y) =
  row_out n it (sm_entry n it (offs y)) (colX n D b y) x.
Proof.
  intros Hv Hn Hnb Hb Hx Hy. destruct (valid_it_range it Hv) as [Hi Hc].
  unfold colX. rewrite row_out_clip by lia.
  unfold apply_x. rewrite didx_flat. destruct (cell_decode n b x y) as (-> & -> & ->); try lia.
  unfold apply_x_cell, row_out. f_equal. apply map_ext_in. intros j Hj.
  unfold zrange in Hj. apply in_map_iff in Hj. destruct Hj as (k & <- & Hk). apply in_seq in Hk.
  unfold updateSM, hidx_x.
  rewrite (div_lin y it (Z.of_nat k)) by lia.
  rewrite (mod_lin y it (Z.of_nat k)) by lia.
  reflexivity.
Qed.

Lemma sum_clip n (w : Z -> Qc) r :
  0 <= n -> sumQ 0 (Z.to_nat n) (fun i => (w i * clip n r i)%Qc) = sumQ 0 (Z.to_nat n) (fun i => (w i * r i)%Qc).
Proof. intros Hn. apply (sumZ_ext QcF). intros i Hi. rewrite clip_in by lia. reflexivity. Qed.

Lemma sum_clip1 n r :
  0 <= n -> sumQ 0 (Z.to_nat n) (clip n r) = sumQ 0 (Z.to_nat n) r.
Proof. intros Hn. apply (sumZ_ext QcF). intros i Hi. rewrite clip_in by lia. reflexivity. Qed.

(** ** raw moments of bunch [b]: total, and first moments about the zero bins (xc, yc) *)
Definition M0 (n : Z) (G : Z -> Qc) (b : Z) : Qc :=
  sumQ 0 (Z.to_nat n) (fun x => sumQ 0 (Z.to_nat n) (fun y => G (didx n b x y))).
Definition MU (n : Z) (xc : Qc) (G : Z -> Qc) (b : Z) : Qc :=
  sumQ 0 (Z.to_nat n) (fun x => sumQ 0 (Z.to_nat n) (fun y => ((qz x - xc) * G (didx n b x y))%Qc)).
Definition MV (n : Z) (yc : Qc) (G : Z -> Qc) (b : Z) : Qc :=
  sumQ 0 (Z.to_nat n) (fun x => sumQ 0 (Z.to_nat n) (fun y => ((qz y - yc) * G (didx n b x y))%Qc)).

Lemma M0_swap n G b :
  M0 n G b = sumQ 0 (Z.to_nat n) (fun y => sumQ 0 (Z.to_nat n) (fun x => G (didx n b x y))).
Proof. unfold M0. apply (sumZ_swap QcF). Qed.
Lemma MU_swap n xc G b :
  MU n xc G b = sumQ 0 (Z.to_nat n) (fun y => sumQ 0 (Z.to_nat n) (fun x => ((qz x - xc) * G (didx n b x y))%Qc)).
Proof. unfold MU. apply (sumZ_swap QcF 0 (Z.to_nat n) 0 (Z.to_nat n) (fun x y => ((qz x - xc) * G (didx n b x y))%Qc)). Qed.
Lemma MV_swap n yc G b :
  MV n yc G b = sumQ 0 (Z.to_nat n) (fun y => sumQ 0 (Z.to_nat n) (fun x => ((qz y - yc) * G (didx n b x y))%Qc)).
Proof. unfold MV. apply (sumZ_swap QcF 0 (Z.to_nat n) 0 (Z.to_nat n) (fun x y => ((qz y - yc) * G (didx n b x y))%Qc)). Qed.

(** the rows of bunch [b] satisfy the hypotheses of the row theorems for a kick along y *)
Definition rows_ok_y (n nb it : Z) (offs D : Z -> Qc) (b : Z) : Prop :=
  forall x, 0 <= x < n -> row_ok n it (offs (Z.min b (nb - 1) * n + x)) (rowY n D b x).
Definition cols_ok_x (n it : Z) (offs D : Z -> Qc) (b : Z) : Prop :=
  forall y, 0 <= y < n -> row_ok n it (offs y) (colX n D b y).

Section GridKicks.
  Variables (n nb it : Z).
  Hypothesis Hv : valid_it it.
  Hypothesis H2 : 2 <= it.
  Hypothesis Hn : 0 < n < 2 ^ 30.
  Hypothesis Hnb : 0 < nb.
  Variables (xc yc : Qc).

  (** *** kick along y (RF kick): per row *)
  Lemma kick_y_rows (offs D : Z -> Qc) b x :
    0 <= b < nb -> 0 <= x < n -> rows_ok_y n nb it offs D b ->
    let D' := apply_y n nb it (updateSM n it offs) D in
    let oe := eff_off n (offs (Z.min b (nb - 1) * n + x)) in
    sumQ 0 (Z.to_nat n) (fun y => D' (didx n b x y)) = sumQ 0 (Z.to_nat n) (fun y => D (didx n b x y)) /\
    sumQ 0 (Z.to_nat n) (fun y => (qz y * D' (didx n b x y))%Qc) =
    sumQ 0 (Z.to_nat n) (fun y => ((qz y - oe) * D (didx n b x y))%Qc).
  Proof.
    intros Hb Hx Hok D' oe. specialize (Hok x Hx). split.
    - rewrite (sumZ_ext QcF _ _ _ (row_out n it (sm_entry n it (offs (Z.min b (nb - 1) * n + x))) (rowY n D b x))).
      2:{ intros y Hy. unfold D'. apply apply_y_row; lia || assumption. }
      rewrite sm_row_conserves by assumption. unfold rowY. apply sum_clip1. lia.
    - rewrite (sumZ_ext QcF _ _ _ (fun y => (qz y *
          row_out n it (sm_entry n it (offs (Z.min b (nb - 1) * n + x)%Z)) (rowY n D b x) y)%Qc)).
      2:{ intros y Hy. unfold D'. rewrite apply_y_row by (lia || assumption). reflexivity. }
      rewrite sm_row_first_moment by assumption. fold oe. unfold rowY.
      apply (sum_clip n (fun y => (qz y - oe)%Qc)). lia.
  Qed.

  (** *** kick along x (drift): per column *)
  Lemma kick_x_cols (offs D : Z -> Qc) b y :
    0 <= b < nb -> 0 <= y < n -> cols_ok_x n it offs D b ->
    let D' := apply_x n nb it (updateSM n it offs) D in
    let oe := eff_off n (offs y) in
    sumQ 0 (Z.to_nat n) (fun x => D' (didx n b x y)) = sumQ 0 (Z.to_nat n) (fun x => D (didx n b x y)) /\
    sumQ 0 (Z.to_nat n) (fun x => (qz x * D' (didx n b x y))%Qc) =
    sumQ 0 (Z.to_nat n) (fun x => ((qz x - oe) * D (didx n b x y))%Qc).
  Proof.
    intros Hb Hy Hok D' oe. specialize (Hok y Hy). split.
    - rewrite (sumZ_ext QcF _ _ _ (row_out n it (sm_entry n it (offs y)) (colX n D b y))).
      2:{ intros x Hx. unfold D'. apply apply_x_row; lia || assumption. }
      rewrite sm_row_conserves by assumption. unfold colX. apply sum_clip1. lia.
    - rewrite (sumZ_ext QcF _ _ _ (fun x => (qz x * row_out n it (sm_entry n it (offs y)) (colX n D b y) x)%Qc)).
      2:{ intros x Hx. unfold D'. rewrite apply_x_row by (lia || assumption). reflexivity. }
      rewrite sm_row_first_moment by assumption. fold oe. unfold colX.
      apply (sum_clip n (fun x => (qz x - oe)%Qc)). lia.
  Qed.

  (** *** the RF kick: o_x = t*(xc - x) moves (U, V) to (U, V + t*U), for every bunch *)
  Theorem rf_kick_moments (offs D : Z -> Qc) (t : Qc) b :
    0 <= b < nb -> rows_ok_y n nb it offs D b ->
    (forall x, 0 <= x < n -> eff_off n (offs (Z.min b (nb - 1) * n + x)) = (t * (xc - qz x))%Qc) ->
    let D' := apply_y n nb it (updateSM n it offs) D in
    M0 n D' b = M0 n D b /\ MU n xc D' b = MU n xc D b /\
    MV n yc D' b = (MV n yc D b + t * MU n xc D b)%Qc.
  Proof.
    intros Hb Hok Hoff D'.
    assert (R : forall x, 0 <= x < n ->
      sumQ 0 (Z.to_nat n) (fun y => D' (didx n b x y)) = sumQ 0 (Z.to_nat n) (fun y => D (didx n b x y)) /\
      sumQ 0 (Z.to_nat n) (fun y => (qz y * D' (didx n b x y))%Qc) =
      sumQ 0 (Z.to_nat n) (fun y => ((qz y - t * (xc - qz x)) * D (didx n b x y))%Qc)).
    { intros x Hx. destruct (kick_y_rows offs D b x Hb Hx Hok) as [A B]. rewrite Hoff in B by assumption.
      split; assumption. }
    repeat split.
    - unfold M0. apply (sumZ_ext QcF). intros x Hx. apply R. lia.
    - unfold MU. apply (sumZ_ext QcF). intros x Hx.
      change (sumQ 0 (Z.to_nat n) (fun y => @fmul QcF (qz x - xc)%Qc (D' (didx n b x y))) =
              sumQ 0 (Z.to_nat n) (fun y => @fmul QcF (qz x - xc)%Qc (D (didx n b x y)))).
      rewrite !(sumZ_scale QcF). f_equal. apply R. lia.
    - unfold MV, MU.
      rewrite <- (sumZ_scale QcF), <- (sumZ_add QcF). apply (sumZ_ext QcF). intros x Hx.
      assert (Hx' : 0 <= x < n) by lia. destruct (R x Hx') as [A B].
      rewrite (sumZ_ext QcF _ _ _ (fun y => @fadd QcF (qz y * D' (didx n b x y))%Qc
                 (@fmul QcF (- yc)%Qc (D' (didx n b x y))))) by (intros; qc_unf; ring).
      rewrite (sumZ_add QcF), (sumZ_scale QcF), A, B.
      rewrite <- (sumZ_scale QcF), <- (sumZ_scale QcF), <- !(sumZ_add QcF).
      apply (sumZ_ext QcF). intros y Hy. qc_unf. ring.
  Qed.

  (** *** the drift: o_y = a*(y - yc) moves (U, V) to (U - a*V, V), for every bunch *)
  Theorem drift_kick_moments (offs D : Z -> Qc) (a : Qc) b :
    0 <= b < nb -> cols_ok_x n it offs D b ->
    (forall y, 0 <= y < n -> eff_off n (offs y) = (a * (qz y - yc))%Qc) ->
    let D' := apply_x n nb it (updateSM n it offs) D in
    M0 n D' b = M0 n D b /\ MU n xc D' b = (MU n xc D b - a * MV n yc D b)%Qc /\
    MV n yc D' b = MV n yc D b.
  Proof.
    intros Hb Hok Hoff D'.
    assert (R : forall y, 0 <= y < n ->
      sumQ 0 (Z.to_nat n) (fun x => D' (didx n b x y)) = sumQ 0 (Z.to_nat n) (fun x => D (didx n b x y)) /\
      sumQ 0 (Z.to_nat n) (fun x => (qz x * D' (didx n b x y))%Qc) =
      sumQ 0 (Z.to_nat n) (fun x => ((qz x - a * (qz y - yc)) * D (didx n b x y))%Qc)).
    { intros y Hy. destruct (kick_x_cols offs D b y Hb Hy Hok) as [A B]. rewrite Hoff in B by assumption.
      split; assumption. }
    rewrite !M0_swap, !MU_swap, !MV_swap.
    repeat split.
    - apply (sumZ_ext QcF). intros y Hy. apply R. lia.
    - rewrite <- (sumZ_scale QcF).
      rewrite (sumZ_ext QcF _ _ _ (fun y => @fadd QcF
           (sumQ 0 (Z.to_nat n) (fun x => ((qz x - xc) * D (didx n b x y))%Qc))
           (@fmul QcF (- (1))%Qc (@fmul QcF a (sumQ 0 (Z.to_nat n) (fun x => ((qz y - yc) * D (didx n b x y))%Qc)))))).
      { rewrite (sumZ_add QcF), (sumZ_scale QcF). qc_unf. ring. }
      intros y Hy. assert (Hy' : 0 <= y < n) by lia. destruct (R y Hy') as [A B].
      rewrite (sumZ_ext QcF _ _ _ (fun x => @fadd QcF (qz x * D' (didx n b x y))%Qc
                 (@fmul QcF (- xc)%Qc (D' (didx n b x y))))) by (intros; qc_unf; ring).
      rewrite (sumZ_add QcF), (sumZ_scale QcF), A, B.
      rewrite <- !(sumZ_scale QcF), <- !(sumZ_add QcF).
      apply (sumZ_ext QcF). intros x Hx. qc_unf. ring.
    - apply (sumZ_ext QcF). intros y Hy.
      change (sumQ 0 (Z.to_nat n) (fun x => @fmul QcF (qz y - yc)%Qc (D' (didx n b x y))) =
              sumQ 0 (Z.to_nat n) (fun x => @fmul QcF (qz y - yc)%Qc (D (didx n b x y)))).
      rewrite !(sumZ_scale QcF). f_equal. apply R. lia.
  Qed.
End GridKicks.

(** ** one full step (RF kick, then drift) and the orbit, on the grid *)
Section Step.
  Variables (n nb it : Z).
  Hypothesis Hv : valid_it it.
  Hypothesis H2 : 2 <= it.
  Hypothesis Hn : 0 < n < 2 ^ 30.
  Hypothesis Hnb : 0 < nb.
  Variables (xc yc t a : Qc).
  (** the offset vectors of the two maps *)
  Variables (orf odr : Z -> Qc).

  Definition rf_apply (D : Z -> Qc) : Z -> Qc := apply_y n nb it (updateSM n it orf) D.
  Definition rf_drift_step (D : Z -> Qc) : Z -> Qc := apply_x n nb it (updateSM n it odr) (rf_apply D).
  Fixpoint iter_step (k : nat) (D : Z -> Qc) : Z -> Qc :=
    match k with O => D | S m => rf_drift_step (iter_step m D) end.

  (** "the distribution stays inside": every row under the RF kick and every column of the
      intermediate grid under the drift keeps stencil and support clear of the border *)
  Definition step_ok (D : Z -> Qc) (b : Z) : Prop :=
    rows_ok_y n nb it orf D b /\ cols_ok_x n it odr (rf_apply D) b.

  (** the offsets encode o_x = t*(xc - x) (every bunch's block) and o_y = a*(y - yc) *)
  Hypothesis Hrf : forall b x, 0 <= b < nb -> 0 <= x < n ->
      eff_off n (orf (Z.min b (nb - 1) * n + x)) = (t * (xc - qz x))%Qc.
  Hypothesis Hdr : forall y, 0 <= y < n -> eff_off n (odr y) = (a * (qz y - yc))%Qc.

  Definition raw_c (D : Z -> Qc) (b : Z) : Qc * Qc := (MU n xc D b, MV n yc D b).

  Theorem centroid_step_grid D b :
    0 <= b < nb -> step_ok D b ->
    M0 n (rf_drift_step D) b = M0 n D b /\
    raw_c (rf_drift_step D) b = cstep (K:=QcF) t a (raw_c D b).
  Proof.
    intros Hb [Ok1 Ok2].
    destruct (rf_kick_moments n nb it Hv H2 Hn Hnb xc yc orf D t b Hb Ok1 (fun x Hx => Hrf b x Hb Hx))
      as (A0 & AU & AV).
    destruct (drift_kick_moments n nb it Hv H2 Hn Hnb xc yc odr (rf_apply D) a b Hb Ok2 Hdr)
      as (B0 & BU & BV).
    fold (rf_apply D) in A0, AU, AV. fold (rf_drift_step D) in B0, BU, BV.
    split; [rewrite B0; exact A0|].
    unfold raw_c, cstep, drift_step, rf_step. cbn [fst snd].
    rewrite BU, BV, AU, AV. reflexivity.
  Qed.

  Theorem centroid_orbit_grid D b (k : nat) :
    0 <= b < nb -> (forall j, (j < k)%nat -> step_ok (iter_step j D) b) ->
    M0 n (iter_step k D) b = M0 n D b /\
    raw_c (iter_step k D) b = orbit (K:=QcF) t a (raw_c D b) k.
  Proof.
    intros Hb. induction k as [|k IH]; intros Hok; cbn [iter_step orbit]; [split; reflexivity|].
    destruct IH as [I0 IC]; [intros j Hj; apply Hok; lia|].
    destruct (centroid_step_grid (iter_step k D) b Hb (Hok k ltac:(lia))) as [S0 SC].
    split; [rewrite S0; exact I0 | rewrite SC, IC; reflexivity].
  Qed.

  (** the centre of charge itself (raw moments divided by the charge), for signed data with
      non-zero total charge *)
  Definition centre_of_charge (D : Z -> Qc) (b : Z) : Qc * Qc :=
    (MU n xc D b / M0 n D b, MV n yc D b / M0 n D b)%Qc.

  Theorem centroid_step D b :
    0 <= b < nb -> step_ok D b -> M0 n D b <> 0%Qc ->
    centre_of_charge (rf_drift_step D) b = mat_apply (K:=QcF) (Mstep (K:=QcF) t a) (centre_of_charge D b).
  Proof.
    intros Hb Hok Hq. destruct (centroid_step_grid D b Hb Hok) as [S0 SC].
    unfold centre_of_charge. rewrite S0.
    unfold raw_c in SC. injection SC as EU EV. rewrite EU, EV.
    unfold mat_apply, Mstep. cbn [fst snd]. qc_unf. f_equal; field; exact Hq.
  Qed.

  Theorem centroid_orbit D b (k : nat) :
    0 <= b < nb -> (forall j, (j < k)%nat -> step_ok (iter_step j D) b) -> M0 n D b <> 0%Qc ->
    centre_of_charge (iter_step k D) b = mat_orbit (K:=QcF) (Mstep (K:=QcF) t a) (centre_of_charge D b) k.
  Proof.
    intros Hb. induction k as [|k IH]; intros Hok Hq; cbn [iter_step mat_orbit]; [reflexivity|].
    rewrite <- IH by (auto; intros j Hj; apply Hok; lia).
    apply centroid_step; [assumption | apply Hok; lia |].
    destruct (centroid_orbit_grid D b k Hb) as [I0 _]; [intros j Hj; apply Hok; lia|]. rewrite I0. exact Hq.
  Qed.
End Step.

(** ** C08, RF/drift part on the grid: slice b of the multi-bunch RF kick (offset vector built
    by the model of RFKickMap::_calcKick: the field in every bunch's block) is the single-bunch
    RF kick of that slice with the same field; likewise for the drift *)
Lemma row_out_ext n it E r r' y :
  0 < n -> (forall i, 0 <= i < n -> r i = r' i) -> row_out n it E r y = row_out n it E r' y.
Proof.
  intros Hn Hr. rewrite <- (row_out_clip n it E r), <- (row_out_clip n it E r') by exact Hn.
  unfold row_out. f_equal. apply map_ext. intros j. cbv zeta.
  set (ys := wrap32 _). destruct (Z.ltb_spec ys n) as [L|G]; [|reflexivity].
  assert (0 <= ys) by (unfold ys, wrap32; apply Z.mod_pos_bound; reflexivity).
  rewrite !clip_in by lia. rewrite Hr by lia. reflexivity.
Qed.

Theorem rf_kick_slice n nb it (f : Z -> Qc) (D : Z -> Qc) b x y :
  valid_it it -> 0 < n -> 0 < nb -> 0 <= b < nb -> 0 <= x < n -> 0 <= y < n ->
  apply_y n nb it (updateSM n it (rf_offsets (K:=QcF) n f)) D (didx n b x y) =
  apply_y n 1 it (updateSM n it (rf_offsets (K:=QcF) n f)) (fun i => D (b * n * n + i)) (didx n 0 x y).
Proof.
  intros Hv Hn Hnb Hb Hx Hy.
  rewrite !apply_y_row by (assumption || lia).
  destruct (C08_rf_offsets_all_bunches QcF n nb f b x Hb Hx) as [_ E]. rewrite E.
  apply row_out_ext; [exact Hn|]. intros i Hi. unfold rowY. rewrite !clip_in by lia.
  f_equal. unfold didx. ring.
Qed.

Theorem drift_kick_slice n nb it (f : Z -> Qc) (D : Z -> Qc) b x y :
  valid_it it -> 0 < n -> 0 < nb -> 0 <= b < nb -> 0 <= x < n -> 0 <= y < n ->
  apply_x n nb it (updateSM n it (drift_offsets (K:=QcF) n f)) D (didx n b x y) =
  apply_x n 1 it (updateSM n it (drift_offsets (K:=QcF) n f)) (fun i => D (b * n * n + i)) (didx n 0 x y).
Proof. intros. apply apply_x_slice; assumption. Qed.
