(** * C04: the Fokker-Planck decrement main() hands to FokkerPlanckMap (Gen/Gen_Scaling.v: [gen_e1]), stated in the
    options themselves, branch by branch (see Proofs/ScalingAngleP.v for the conventions). *)
From Coq Require Import List ZArith Bool Field.
From Inovesa Require Import Base.FieldKit Model.ScalingOps Gen.Gen_Scaling Proofs.ScalingTac.
Import ListNotations.
Local Open Scope F_scope.

Section S.
  Variable K : Fld.
  Add Field KFe : (@Fth K).
  Variable O : Ops K.
  Variable L : leaf -> K.
  Variable B : bleaf -> bool.

  (** DampingTime > 0, synchrotron frequency given, StepsPerTs >= 1, StepsPerRevolution not given:
      e1 = 2/(SynchrotronFrequency * DampingTime * StepsPerTs) *)
  Lemma e1_in_options :
    o_lt O (L O_getDampingTime) 0 = false -> o_lt O 0 (L O_getDampingTime) = true ->
    o_is0 O (L O_getSyncFreq) = false ->
    o_lt O 0 (L O_getStepsPerTrev) = false -> o_lt O (L O_getStepsPerTsync) 1 = false ->
    L O_getSyncFreq <> 0 -> L O_getStepsPerTsync <> 0 -> L O_getDampingTime <> 0 ->
    gen_e1 K O L B = two / (L O_getSyncFreq * L O_getDampingTime * L O_getStepsPerTsync).
  Proof. intros. open_gen. use_guards. unfold two. field_hyps. Qed.

  (** the same with StepsPerRevolution steps per turn: steps per synchrotron period = StepsPerRevolution*f_rev/f_s, hence
      e1 = 2/(DampingTime * StepsPerRevolution * f_rev) *)
  Lemma e1_with_StepsPerRevolution :
    o_lt O (L O_getDampingTime) 0 = false -> o_lt O 0 (L O_getDampingTime) = true ->
    o_is0 O (L O_getSyncFreq) = false -> o_lt O 0 (L O_getStepsPerTrev) = true ->
    L O_getSyncFreq <> 0 -> L O_getStepsPerTrev <> 0 -> L O_getRevolutionFrequency <> 0 -> L O_getDampingTime <> 0 ->
    gen_e1 K O L B = two / (L O_getSyncFreq * L O_getDampingTime * (L O_getStepsPerTrev * L O_getRevolutionFrequency / L O_getSyncFreq)) /\
    gen_e1 K O L B = two / (L O_getDampingTime * L O_getStepsPerTrev * L O_getRevolutionFrequency).
  Proof. intros. open_gen. use_guards. unfold two. split; field_hyps. Qed.

  (** synchrotron frequency not given: f_s = f_rev sqrt(alpha0 h V_eff/(2 pi E0)) with V_eff the effective voltage main()
      also hands to the sinusoidal RF maps ([gen_sinrf_V_RF]) *)
  Lemma e1_with_alpha0 :
    o_lt O (L O_getDampingTime) 0 = false -> o_lt O 0 (L O_getDampingTime) = true ->
    o_is0 O (L O_getSyncFreq) = true ->
    o_lt O 0 (L O_getStepsPerTrev) = false -> o_lt O (L O_getStepsPerTsync) 1 = false ->
    let fs := L O_getRevolutionFrequency *
              o_sqrt O (L O_getAlpha0 * L O_getHarmonicNumber * gen_sinrf_V_RF K O L B / (L C_two_pi * L O_getBeamEnergy)) in
    fs <> 0 -> L O_getStepsPerTsync <> 0 -> L O_getDampingTime <> 0 ->
    gen_e1 K O L B = two / (fs * L O_getDampingTime * L O_getStepsPerTsync).
  Proof. cbv zeta. intros. open_gen. use_guards. unfold two. field_hyps. Qed.

  (** DampingTime = 0 switches the Fokker-Planck term off (main() then builds the Identity map) *)
  Lemma e1_off :
    o_lt O (L O_getDampingTime) 0 = false -> o_lt O 0 (L O_getDampingTime) = false -> gen_e1 K O L B = 0.
  Proof. intros. open_gen. use_guards. reflexivity. Qed.
End S.
