(** * C12 (family st3drv, seed C12-J): nothing in the repository changes the floating-point environment, hence the
    arithmetic of a run does not depend on WHEN observer blocks execute.

    [fpenv_sites_empty] is the per-run obligation over the generated list (Gen/Gen_FPEnv.v); [run_cadence_independent]
    is the reason it matters: if the observer block leaves the environment alone, the value after n steps is the same for
    every cadence - and ([run_depends_on_cadence_example]) a block that changes it makes "never" differ from "always". *)
From Coq Require Import List ZArith String Bool.
From Inovesa Require Import Model.FPEnv Gen.Gen_FPEnv.
Import ListNotations.

Lemma fpenv_sites_empty : fpenv_sites = [].
Proof. reflexivity. Qed.

Lemma fpenv_is_fixed : fpenv_fixed fpenv_sites = true /\ (0 < fpenv_files_scanned)%Z.
Proof. split; reflexivity. Qed.

Section Runs.
  Variables (Env Val : Type).
  Variable eval : Env -> Val -> Val.

  (** observer blocks that leave the environment alone: every cadence computes the same value *)
  Theorem run_cadence_independent (o1 o2 : nat -> bool) :
    forall n k e x, run Env Val eval (fun e => e) o1 n k e x = run Env Val eval (fun e => e) o2 n k e x.
  Proof.
    induction n as [|n IH]; intros k e x; cbn [run]; [reflexivity|].
    destruct (o1 k), (o2 k); apply IH.
  Qed.
End Runs.

(** a block that changes the environment: environment = "flush tiny values", one step halves; the run that never observes
    keeps 1/4, the run that observes at step 0 flushes it *)
Example run_depends_on_cadence_example :
  let eval := fun (ftz : bool) (x : Z) => if ftz then (if (Z.abs (x / 2) <? 2)%Z then 0%Z else (x / 2)%Z) else (x / 2)%Z in
  run bool Z eval (fun _ => true) (fun _ => false) 2 0 false 4%Z = 1%Z /\
  run bool Z eval (fun _ => true) (fun k => Nat.eqb k 0) 2 0 false 4%Z = 0%Z.
Proof. vm_compute. split; reflexivity. Qed.
