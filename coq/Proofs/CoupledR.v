(** * C04: order statements for the coupled second-moment recurrence over the real numbers.
    (1) one-step contraction of the deviation from the fixed point in the norm N of Model/Moments2Fix.v,
        with the explicit factor rho = (1-e) + e^2 g1 g2 / ((1-e) DG), for every underdamped setting (DG > 0);
    (2) on the underdamped domain (0 < e <= 1/10, e <= a <= t, a t <= 1): DG > 0 and rho <= 1 - 4e/5;
    (3) geometric convergence of the iterates to the fixed point, component by component;
    (4) the fixed point in natural units is 1 within delta^2/2 + e/2 + a^2;
    (5) J = t Muu + a t Muv + a Mvv: constant / strictly increasing / strictly decreasing per step. *)
From Coq Require Import Reals Lra Psatz ZArith Lia.
From Inovesa Require Import Base.FieldKit Base.RInst Gen.Gen_FPStencil Model.Moments2 Model.Moments2Fix
  Proofs.CoupledP.
Local Open Scope R_scope.

(* real-number reading of the generic operations, leaving the generic definitions (g1, NN, ...) folded *)
Ltac runf :=
  unfold four, opt in *; unfold two in *;
  change (@fadd RF) with Rplus in *; change (@fmul RF) with Rmult in *; change (@fsub RF) with Rminus in *;
  change (@fopp RF) with Ropp in *; change (@fdiv RF) with Rdiv in *; change (@finv RF) with Rinv in *;
  change (@f0 RF) with 0 in *; change (@f1 RF) with 1 in *; change (car RF) with R in *.
Ltac unfN := unfold NN, q22, trG, DG, g1, g12, g2, Pk, Qk, Rk, rho in *.

(** ** sum-of-squares consequences *)
Section NormR.
  Variables (a t e : R).
  Notation G1 := (g1 (K:=RF) t e). Notation G12 := (g12 (K:=RF) a t e). Notation G2 := (g2 (K:=RF) a).
  Notation DGr := (DG (K:=RF) a t e).
  Notation N := (NN (K:=RF) a t e). Notation Q22 := (q22 (K:=RF) a t e).

  Lemma sq_nonneg (x : R) : 0 <= x * x. Proof. nra. Qed.
  Lemma sq_zero (c x : R) : 0 < c -> c * (x * x) <= 0 -> x = 0.
  Proof.
    intros Hc H. pose proof (sq_nonneg x) as P.
    assert (E : x * x = 0).
    { apply Rle_antisym; [|exact P]. destruct (Rle_or_lt (x * x) 0) as [L|L]; [exact L|exfalso].
      pose proof (Rmult_lt_0_compat _ _ Hc L). lra. }
    destruct (Rmult_integral _ _ E); assumption.
  Qed.

  Lemma N_bound_z x y z : 0 < DGr -> DGr * DGr * (z * z) <= G1 * G1 * N x y z.
  Proof.
    intros HD. pose proof (N_sos1 RF a t e x y z) as S. runf. rewrite S.
    pose proof (sq_nonneg (G1 * G1 * x + (1 + 1) * G1 * G12 * y + G12 * G12 * z)).
    pose proof (sq_nonneg (G1 * y + G12 * z)).
    assert (0 <= (1 + 1) * DGr * ((G1 * y + G12 * z) * (G1 * y + G12 * z))) by (apply Rmult_le_pos; [lra|assumption]).
    lra.
  Qed.

  Lemma N_bound_q x y z : 0 < DGr -> Q22 x y z * Q22 x y z <= G2 * G2 * N x y z.
  Proof.
    intros HD. pose proof (N_sos2 RF a t e x y z) as S. runf. rewrite S.
    pose proof (sq_nonneg x).
    pose proof (sq_nonneg (G2 * y + G12 * x)).
    assert (0 <= DGr * DGr * (x * x)) by (apply Rmult_le_pos; [apply sq_nonneg|assumption]).
    assert (0 <= (1 + 1) * DGr * ((G2 * y + G12 * x) * (G2 * y + G12 * x))) by (apply Rmult_le_pos; [lra|assumption]).
    lra.
  Qed.

  Lemma N_bound_x x y z : 0 < DGr -> DGr * DGr * (x * x) <= G2 * G2 * N x y z.
  Proof.
    intros HD. pose proof (N_sos2 RF a t e x y z) as S. runf. rewrite S.
    pose proof (sq_nonneg (Q22 x y z)).
    pose proof (sq_nonneg (G2 * y + G12 * x)).
    assert (0 <= (1 + 1) * DGr * ((G2 * y + G12 * x) * (G2 * y + G12 * x))) by (apply Rmult_le_pos; [lra|assumption]).
    lra.
  Qed.

  Lemma N_bound_y x y z : 0 < DGr -> 0 < G1 ->
    (1 + 1) * DGr * ((G1 * y + G12 * z) * (G1 * y + G12 * z)) <= G1 * G1 * N x y z.
  Proof.
    intros HD Hg. pose proof (N_sos1 RF a t e x y z) as S. runf. rewrite S.
    pose proof (sq_nonneg (G1 * G1 * x + (1 + 1) * G1 * G12 * y + G12 * G12 * z)).
    assert (0 <= DGr * DGr * (z * z)) by (apply Rmult_le_pos; [apply sq_nonneg|apply sq_nonneg]).
    lra.
  Qed.

  Lemma N_nonneg x y z : 0 < DGr -> 0 < G1 -> 0 <= N x y z.
  Proof.
    intros HD Hg. pose proof (N_bound_z x y z HD) as B.
    assert (P : 0 <= DGr * DGr * (z * z)) by (apply Rmult_le_pos; apply sq_nonneg).
    assert (Q : 0 < G1 * G1) by (apply Rmult_lt_0_compat; assumption).
    destruct (Rle_or_lt 0 (N x y z)) as [L|L]; [exact L|].
    exfalso. assert (G1 * G1 * N x y z < 0) by nra. lra.
  Qed.

  (** N vanishes only at zero: it is a norm squared *)
  Lemma N_zero x y z : 0 < DGr -> 0 < G1 -> N x y z = 0 -> x = 0 /\ y = 0 /\ z = 0.
  Proof.
    intros HD Hg HN.
    pose proof (N_bound_z x y z HD) as Bz. pose proof (N_bound_y x y z HD Hg) as By.
    pose proof (N_sos1 RF a t e x y z) as S. runf. rewrite HN in *.
    assert (Zz : z = 0).
    { apply (sq_zero (DGr * DGr)); [apply Rmult_lt_0_compat; assumption | lra]. }
    subst z.
    assert (Zy : y = 0).
    { apply (sq_zero ((1 + 1) * DGr * (G1 * G1))).
      { apply Rmult_lt_0_compat; [apply Rmult_lt_0_compat; [lra|exact HD] | apply Rmult_lt_0_compat; exact Hg]. }
      replace ((1 + 1) * DGr * (G1 * G1) * (y * y)) with ((1 + 1) * DGr * ((G1 * y + G12 * 0) * (G1 * y + G12 * 0))) by ring.
      lra. }
    subst y.
    assert (Zx : x = 0).
    { assert (G11 : 0 < G1 * G1) by (apply Rmult_lt_0_compat; exact Hg).
      apply (sq_zero ((G1 * G1) * (G1 * G1))); [apply Rmult_lt_0_compat; exact G11|].
      replace (G1 * G1 * (G1 * G1) * (x * x))
        with ((G1 * G1 * x + (1 + 1) * G1 * G12 * 0 + G12 * G12 * 0) * (G1 * G1 * x + (1 + 1) * G1 * G12 * 0 + G12 * G12 * 0)) by ring.
      assert (0 <= (1 + 1) * DGr * ((G1 * 0 + G12 * 0) * (G1 * 0 + G12 * 0))) by (apply Rmult_le_pos; [lra|apply sq_nonneg]).
      lra. }
    auto.
  Qed.

  (** product of two bounded quantities *)
  Lemma prod_bound (A q U V : R) : 0 <= U -> 0 <= V -> A * A <= U * U -> q * q <= V * V -> - (U * V) <= A * q.
  Proof.
    intros HU HV HA Hq.
    destruct (Rle_or_lt (- (U * V)) (A * q)) as [L|L]; [exact L|exfalso].
    assert (P : 0 <= U * V) by (apply Rmult_le_pos; assumption).
    assert (S1 : (U * V) * (U * V) < (A * q) * (A * q)) by nra.
    assert (S2 : (A * q) * (A * q) <= (U * U) * (V * V)).
    { replace ((A * q) * (A * q)) with ((A * A) * (q * q)) by ring.
      apply Rmult_le_compat; try apply sq_nonneg; assumption. }
    nra.
  Qed.

  (** ** one step contracts N by rho^2 *)
  Theorem contraction_poly x y z :
    0 < e < 1 -> 0 < a -> 0 < t -> 0 < DGr ->
    let s := (1 - e) * (1 - e) in
    let w := s * DGr in
    w * w * N (Pk (K:=RF) a t x y z) ((1 - e) * Qk (K:=RF) a t x y z) ((1 - (1 + 1) * e) * Rk (K:=RF) t x y z)
    <= (w + e * e * (G1 * G2)) * (w + e * e * (G1 * G2)) * (s * N x y z).
  Proof.
    intros He Ha Ht HD s w.
    pose proof (N_sym2 RF a t e x y z) as E1. pose proof (N_out RF a t e x y z) as E2. cbv zeta in E2. runf.
    set (X1 := Pk (K:=RF) a t x y z) in *. set (X2 := (1 - e) * Qk (K:=RF) a t x y z) in *.
    set (Rr := Rk (K:=RF) t x y z) in *. set (X3 := (1 - e) * (1 - e) * Rr) in *.
    fold s in E1. rewrite E2. rewrite <- E1.
    set (NX := N X1 X2 X3) in *. set (q := Q22 X1 X2 X3) in *.
    assert (Hg1 : 0 < G1) by (unfold g1; runf; apply Rmult_lt_0_compat; lra).
    assert (Hg2 : 0 < G2) by (unfold g2; exact Ha).
    assert (Hs : 0 < s) by (unfold s; apply Rmult_lt_0_compat; lra).
    assert (Hw : 0 < w) by (unfold w; apply Rmult_lt_0_compat; assumption).
    assert (HNX : 0 <= NX) by (apply N_nonneg; assumption).
    pose proof (N_bound_z X1 X2 X3 HD) as B1. fold NX in B1.
    pose proof (N_bound_q X1 X2 X3 HD) as B2. fold NX q in B2.
    set (A := w * Rr).
    assert (F1 : A * A <= G1 * G1 * NX).
    { unfold A, w. replace (s * DGr * Rr * (s * DGr * Rr)) with (DGr * DGr * (X3 * X3)) by (unfold X3, s; ring). exact B1. }
    (* - A q <= g1 g2 NX, sqrt-free: compare squares *)
    assert (F3 : - (G1 * G2 * NX) <= A * q).
    { destruct (Rle_or_lt (- (G1 * G2 * NX)) (A * q)) as [L|L]; [exact L|exfalso].
      assert (P : 0 <= G1 * G2 * NX) by (apply Rmult_le_pos; [apply Rmult_le_pos; lra|exact HNX]).
      assert (S1 : (G1 * G2 * NX) * (G1 * G2 * NX) < (A * q) * (A * q)) by nra.
      assert (S2 : (A * q) * (A * q) <= (G1 * G1 * NX) * (G2 * G2 * NX)).
      { replace ((A * q) * (A * q)) with ((A * A) * (q * q)) by ring.
        apply Rmult_le_compat; try apply sq_nonneg; assumption. }
      nra. }
    (* the polynomial inequality *)
    replace (w * w * (NX - (1 + 1) * (e * e) * Rr * q + e * e * (e * e) * (Rr * Rr) * (G2 * G2)))
      with (w * w * NX - (1 + 1) * (e * e) * w * (A * q) + (e * e) * (e * e) * (G2 * G2) * (A * A)) by (unfold A; ring).
    replace ((w + e * e * (G1 * G2)) * (w + e * e * (G1 * G2)) * NX)
      with (w * w * NX + (1 + 1) * (e * e) * w * (G1 * G2 * NX) + (e * e) * (e * e) * (G2 * G2) * (G1 * G1 * NX)) by ring.
    assert (Pe : 0 < e * e) by (apply Rmult_lt_0_compat; lra).
    assert (T1 : - ((1 + 1) * (e * e) * w * (A * q)) <= (1 + 1) * (e * e) * w * (G1 * G2 * NX)).
    { assert (0 < (1 + 1) * (e * e) * w) by (repeat apply Rmult_lt_0_compat; lra). nra. }
    assert (T2 : (e * e) * (e * e) * (G2 * G2) * (A * A) <= (e * e) * (e * e) * (G2 * G2) * (G1 * G1 * NX)).
    { apply Rmult_le_compat_l; [|exact F1]. repeat apply Rmult_le_pos; lra. }
    lra.
  Qed.

  Theorem contraction_step x y z :
    0 < e < 1 -> 0 < a -> 0 < t -> 0 < DGr ->
    N (Pk (K:=RF) a t x y z) ((1 - e) * Qk (K:=RF) a t x y z) ((1 - (1 + 1) * e) * Rk (K:=RF) t x y z)
    <= rho (K:=RF) a t e * rho (K:=RF) a t e * N x y z.
  Proof.
    intros He Ha Ht HD. pose proof (contraction_poly x y z He Ha Ht HD) as P. cbv zeta in P.
    set (s := (1 - e) * (1 - e)) in *. set (w := s * DGr) in *.
    assert (Hs : 0 < s) by (unfold s; apply Rmult_lt_0_compat; lra).
    assert (Hw : 0 < w) by (unfold w; apply Rmult_lt_0_compat; assumption).
    assert (E : rho (K:=RF) a t e * rho (K:=RF) a t e =
                (w + e * e * (G1 * G2)) * (w + e * e * (G1 * G2)) * s / (w * w)).
    { unfold rho, w, s. runf. field. split; lra. }
    rewrite E. set (L := N _ _ _) in *.
    apply (Rmult_le_reg_l (w * w)); [apply Rmult_lt_0_compat; assumption|].
    replace (w * w * ((w + e * e * (G1 * G2)) * (w + e * e * (G1 * G2)) * s / (w * w) * N x y z))
      with ((w + e * e * (G1 * G2)) * (w + e * e * (G1 * G2)) * (s * N x y z)) by (field; lra).
    exact P.
  Qed.
End NormR.

(** ** the documented domain: underdamped, DG > 0 and rho <= 1 - 4e/5 *)
Definition dom_ud (a t e : R) : Prop := 0 < e <= 1 / 10 /\ e <= a /\ a <= t /\ a * t <= 1.

Lemma dom_DG a t e : dom_ud a t e -> 13 / 20 * (a * t) <= DG (K:=RF) a t e /\ 0 < DG (K:=RF) a t e.
Proof.
  intros (He & Hea & Hat & Hu). unfold DG, g1, g12, g2. runf.
  assert (Pa : 0 < a) by lra. assert (Pt : 0 < t) by lra.
  assert (Pu : 0 < a * t) by (apply Rmult_lt_0_compat; assumption).
  assert (Sq : (a * t - e) * (a * t - e) <= a * t).
  { destruct (Rle_or_lt e (a * t)) as [L|L].
    - assert (0 <= a * t - e <= a * t) by lra. assert ((a * t - e) * (a * t - e) <= (a * t) * (a * t)) by nra. nra.
    - assert (0 <= e - a * t <= e) by lra. assert ((e - a * t) * (e - a * t) <= e * e) by nra.
      assert (e * e <= a * a) by nra. assert (a * a <= a * t) by nra. nra. }
  assert (B : 13 / 20 * (a * t) <= (1 - e) * t * a - (a * t - e) / (1 + 1) * ((a * t - e) / (1 + 1))).
  { replace ((a * t - e) / (1 + 1) * ((a * t - e) / (1 + 1))) with ((a * t - e) * (a * t - e) / 4) by field.
    assert (E : (1 - e) * t * a = (1 - e) * (a * t)) by ring. rewrite E. nra. }
  split; [exact B|]. lra.
Qed.

Lemma dom_rho a t e : dom_ud a t e -> 0 < rho (K:=RF) a t e <= 1 - 4 / 5 * e.
Proof.
  intros Hd. destruct (dom_DG a t e Hd) as [B P]. destruct Hd as (He & Hea & Hat & Hu).
  assert (Pa : 0 < a) by lra. assert (Pt : 0 < t) by lra.
  assert (Pu : 0 < a * t) by (apply Rmult_lt_0_compat; assumption).
  unfold rho. set (D := DG (K:=RF) a t e) in *. unfold g1, g2. runf.
  assert (E : e * e * ((1 - e) * t * a) / ((1 - e) * D) = e * e * (a * t) / D) by (field; lra).
  rewrite E.
  assert (Q : 0 <= e * e * (a * t) / D).
  { apply Rmult_le_pos; [|left; apply Rinv_0_lt_compat; exact P]. apply Rmult_le_pos; [nra|lra]. }
  assert (U : e * e * (a * t) / D <= e / 5).
  { apply (Rmult_le_reg_r D); [exact P|]. replace (e * e * (a * t) / D * D) with (e * e * (a * t)) by (field; lra).
    assert (e * (a * t) <= D / 5) by nra. nra. }
  lra.
Qed.

(** ** iterates: the deviation from the fixed point shrinks geometrically *)
Section Iter.
  Variables (v : Z) (a t e delta : R).
  Hypothesis Hv : has_damp v = true.
  Hypothesis Hdom : dom_ud a t e.
  Hypothesis Hdl : delta <> 0.

  Notation Nmr := (Nm (K:=RF) a t e).
  Notation step := (sm_step (K:=RF) v a t e delta).
  Notation iter := (fun k => sm_iter (K:=RF) k v a t e delta).
  Notation devr := (dev (K:=RF) v a t e delta).
  Notation rh := (rho (K:=RF) a t e).

  Lemma dom_basic : 0 < e < 1 /\ 0 < a /\ 0 < t /\ t <> 0 /\ e <> 0 /\ a <> 0 /\ four (K:=RF) - a * t <> 0.
  Proof. destruct Hdom as (He & Hea & Hat & Hu). runf. repeat split; lra. Qed.

  Lemma step_contracts (m : mom2 RF) : m0 m = 0 -> Nmr (step m) <= rh * rh * Nmr m.
  Proof.
    intros Hz. destruct dom_basic as (He & Ha & Ht & _). destruct (dom_DG a t e Hdom) as [_ HD].
    rewrite (step_zero_charge RF a t e v delta m Hv Hz Hdl). unfold Nm. cbn [muu muv mvv].
    pose proof (contraction_step a t e (muu m) (muv m) (mvv m) He Ha Ht HD) as C. runf. exact C.
  Qed.

  Lemma iter_contracts k (m : mom2 RF) : m0 m = 0 -> Nmr (iter k m) <= (rh * rh) ^ k * Nmr m.
  Proof.
    revert m. induction k as [|k IH]; intros m Hz; cbn [sm_iter pow]; [lra|].
    assert (Hz' : m0 (step m) = 0) by (rewrite (sm_step_m0 RF); exact Hz).
    pose proof (IH (step m) Hz') as I. pose proof (step_contracts m Hz) as S.
    assert (P : 0 <= (rh * rh) ^ k) by (apply pow_le; apply sq_nonneg).
    apply (Rle_trans _ _ _ I).
    replace (rh * rh * (rh * rh) ^ k * Nmr m) with ((rh * rh) ^ k * (rh * rh * Nmr m)) by ring.
    apply Rmult_le_compat_l; [exact P|exact S].
  Qed.

  (** (iv) from every start: N(m_k - mfix) <= rho^(2k) N(m_0 - mfix), rho <= 1 - 4e/5 *)
  Theorem deviation_contracts k (m : mom2 RF) :
    Nmr (devr (iter k m)) <= (rh * rh) ^ k * Nmr (devr m) /\ 0 < rh <= 1 - 4 / 5 * e.
  Proof.
    destruct dom_basic as (_ & _ & _ & Ht & He & Ha & H4).
    split; [|apply dom_rho; exact Hdom].
    rewrite (dev_iter RF v a t e delta Hv Ht He H4 Hdl k m).
    apply iter_contracts. apply (dev_m0 RF).
  Qed.

  Lemma N_dev_nonneg m : 0 <= Nmr (devr m).
  Proof.
    destruct dom_basic as (He & Ha & Ht & _). destruct (dom_DG a t e Hdom) as [_ HD].
    apply N_nonneg; [exact HD|]. unfold g1. runf. apply Rmult_lt_0_compat; lra.
  Qed.

  (** the components: every second moment converges to its fixed-point value *)
  Theorem components_bounded (m : mom2 RF) :
    let D := DG (K:=RF) a t e in
    D * D * (mvv (devr m) * mvv (devr m)) <= g1 (K:=RF) t e * g1 (K:=RF) t e * Nmr (devr m) /\
    D * D * (muu (devr m) * muu (devr m)) <= g2 (K:=RF) a * g2 (K:=RF) a * Nmr (devr m) /\
    0 < D.
  Proof.
    cbv zeta. destruct (dom_DG a t e Hdom) as [_ HD]. unfold Nm.
    split; [apply N_bound_z; exact HD|]. split; [apply N_bound_x; exact HD|exact HD].
  Qed.

  Theorem converges_to_fixed_point (m : mom2 RF) :
    forall eps, 0 < eps -> exists K0 : nat, forall k, (k >= K0)%nat ->
      Nmr (devr (iter k m)) <= eps /\
      Rabs (mvv (iter k m) - m0 m * fix_vv (K:=RF) v a t e delta) * DG (K:=RF) a t e
        <= g1 (K:=RF) t e * sqrt eps /\
      Rabs (muu (iter k m) - m0 m * fix_uu (K:=RF) v a t e delta) * DG (K:=RF) a t e
        <= g2 (K:=RF) a * sqrt eps.
  Proof.
    intros eps Heps.
    destruct (dom_rho a t e Hdom) as [R0 R1]. destruct Hdom as (He & Hea & Hat & Hu).
    assert (Rr : 0 <= rh * rh < 1) by (split; nra).
    pose proof (N_dev_nonneg m) as N0.
    destruct (pow_lt_1_zero (rh * rh)) with (y := eps / (Nmr (devr m) + 1)) as [K0 HK].
    { rewrite Rabs_pos_eq; lra. }
    { apply Rdiv_lt_0_compat; lra. }
    exists K0. intros k Hk.
    destruct (deviation_contracts k m) as [C _].
    assert (Pk' : Rabs ((rh * rh) ^ k) < eps / (Nmr (devr m) + 1)) by (apply HK; exact Hk).
    rewrite Rabs_pos_eq in Pk' by (apply pow_le; lra).
    assert (B : Nmr (devr (iter k m)) <= eps).
    { apply (Rle_trans _ _ _ C).
      apply (Rle_trans _ (eps / (Nmr (devr m) + 1) * Nmr (devr m))).
      - apply Rmult_le_compat_r; [exact N0|lra].
      - unfold Rdiv. rewrite Rmult_assoc.
        rewrite <- (Rmult_1_r eps) at 2. apply Rmult_le_compat_l; [lra|].
        apply (Rmult_le_reg_l (Nmr (devr m) + 1)); [lra|].
        rewrite <- Rmult_assoc, Rinv_r by lra. lra. }
    split; [exact B|].
    destruct (components_bounded (iter k m)) as (Bz & Bx & HD). cbv zeta in Bz, Bx.
    assert (Hg1 : 0 < g1 (K:=RF) t e) by (unfold g1; runf; apply Rmult_lt_0_compat; lra).
    assert (Hg2 : 0 < g2 (K:=RF) a) by (unfold g2; lra).
    assert (Em : m0 (iter k m) = m0 m) by (apply (sm_iter_m0 RF)).
    assert (Ez : mvv (devr (iter k m)) = mvv (iter k m) - m0 m * fix_vv (K:=RF) v a t e delta).
    { unfold dev, msub, sm_fix. cbn [mvv m0]. rewrite Em. runf. reflexivity. }
    assert (Ex : muu (devr (iter k m)) = muu (iter k m) - m0 m * fix_uu (K:=RF) v a t e delta).
    { unfold dev, msub, sm_fix. cbn [muu m0]. rewrite Em. runf. reflexivity. }
    rewrite Ez in Bz. rewrite Ex in Bx.
    assert (Sq : forall (A c : R), 0 < c -> DG (K:=RF) a t e * DG (K:=RF) a t e * (A * A) <= c * c * Nmr (devr (iter k m)) ->
                   Rabs A * DG (K:=RF) a t e <= c * sqrt eps).
    { intros A c Hc HA.
      apply Rsqr_incr_0_var; [|apply Rmult_le_pos; [lra|apply sqrt_pos]].
      unfold Rsqr.
      replace (Rabs A * DG (K:=RF) a t e * (Rabs A * DG (K:=RF) a t e))
        with (DG (K:=RF) a t e * DG (K:=RF) a t e * (Rabs A * Rabs A)) by ring.
      replace (Rabs A * Rabs A) with (A * A) by (fold (Rsqr (Rabs A)); rewrite <- Rsqr_abs; reflexivity).
      replace (c * sqrt eps * (c * sqrt eps)) with (c * c * (sqrt eps * sqrt eps)) by ring.
      rewrite sqrt_sqrt by lra.
      apply (Rle_trans _ _ _ HA). apply Rmult_le_compat_l; [apply sq_nonneg|exact B]. }
    split; [apply Sq; assumption | apply Sq; assumption].
  Qed.
End Iter.

(** ** (iii) the fixed point in natural units, full type: 1 up to the discretisation error *)
Definition dom_doc (a t e delta : R) : Prop :=
  0 < a <= 1 / 10 /\ a <= t <= a + a * a * a /\ 0 < e <= 1 / 10 /\ 0 < delta <= 1 / 2.

Section FixBounds.
  Variables (v : Z) (a t e delta : R).
  Hypothesis Hv : has_damp v = true.
  Hypothesis Hf : has_diff v = true.
  Hypothesis Hdom : dom_doc a t e delta.

  Definition spread_p2 : R := delta * delta * fix_vv (K:=RF) v a t e delta.
  Definition spread_q2 : R := delta * delta * fix_uu (K:=RF) v a t e delta.

  Lemma spread_forms :
    spread_p2 = (2 - delta * delta) * (2 - e * a * t) / (4 - a * t) /\
    spread_q2 = a * (2 - delta * delta) * (2 - e) / (t * (4 - a * t)).
  Proof.
    destruct Hdom as (Ha & Ht & He & Hd).
    assert (U : a * t <= 1 / 50) by nra.
    assert (N1 : t <> 0) by lra. assert (N2 : e <> 0) by lra. assert (N3 : delta <> 0) by lra.
    assert (N4 : four (K:=RF) - a * t <> 0) by (runf; lra).
    destruct (fix_natural_units RF v a t e delta N1 N2 N4 N3 Hf) as [E1 E2].
    unfold spread_p2, spread_q2. runf. rewrite E1, E2. split; field; repeat split; lra.
  Qed.

  Lemma div_le (n d c : R) : 0 < d -> n <= c * d -> n / d <= c.
  Proof. intros Hd H. apply (Rmult_le_reg_r d); [exact Hd|]. replace (n / d * d) with n by (field; lra). exact H. Qed.
  Lemma div_ge (n d c : R) : 0 < d -> c * d <= n -> c <= n / d.
  Proof. intros Hd H. apply (Rmult_le_reg_r d); [exact Hd|]. replace (n / d * d) with n by (field; lra). exact H. Qed.

  Theorem fixed_point_unit_width :
    1 - delta * delta / 2 <= spread_p2 <= 1 + a * a /\
    1 - delta * delta / 2 - e / 2 - a * a <= spread_q2 <= 1 + a * a.
  Proof.
    destruct spread_forms as [E1 E2]. rewrite E1, E2. clear E1 E2.
    destruct Hdom as (Ha & Ht & He & Hd).
    assert (Pu : 0 < a * t) by nra.
    assert (U : a * t <= 101 / 100 * (a * a)) by nra.
    assert (U2 : a * a <= 1 / 100) by nra.
    assert (D4 : 0 < 4 - a * t) by nra.
    assert (Dt : 0 < t * (4 - a * t)) by (apply Rmult_lt_0_compat; lra).
    assert (Pd : 0 < delta * delta <= 1 / 4) by nra.
    set (u := a * t) in *. set (dd := delta * delta) in *. set (aa := a * a) in *.
    assert (Eu : 0 <= e * u <= u / 10) by nra.
    repeat split.
    - apply div_ge; [exact D4|].
      replace ((2 - dd) * (2 - e * a * t)) with ((2 - dd) * (2 - e * u)) by (unfold u; ring). nra.
    - apply div_le; [exact D4|].
      replace ((2 - dd) * (2 - e * a * t)) with ((2 - dd) * (2 - e * u)) by (unfold u; ring).
      assert ((2 - dd) * (2 - e * u) <= 4) by nra. nra.
    - apply div_ge; [exact Dt|].
      (* t (4 - u) (1 - dd/2 - e/2 - aa) <= a (2-dd)(2-e) ; t <= a (1 + aa) *)
      assert (T : t <= a * (1 + aa)) by lra.
      assert (L0 : 0 <= 1 - dd / 2 - e / 2 - aa) by nra.
      set (L := 1 - dd / 2 - e / 2 - aa) in *.
      assert (Pt : 0 < t) by lra.
      assert (B1 : t * (4 - u) <= a * (1 + aa) * 4).
      { apply (Rle_trans _ (t * 4)); [apply Rmult_le_compat_l; lra|]. apply Rmult_le_compat_r; lra. }
      assert (B2 : L * (t * (4 - u)) <= L * (a * (1 + aa) * 4)) by (apply Rmult_le_compat_l; assumption).
      assert (K1 : L * (1 + aa) <= (1 - dd / 2) * (1 - e / 2)).
      { unfold L. set (A := dd / 2). set (B := e / 2).
        assert (PA : 0 <= A) by (unfold A; lra). assert (PB : 0 <= B) by (unfold B; lra).
        assert (Q1 : 0 <= aa * (A + B + aa)) by (apply Rmult_le_pos; lra).
        assert (Q2 : 0 <= A * B) by (apply Rmult_le_pos; assumption).
        replace ((1 - A - B - aa) * (1 + aa)) with (1 - A - B - aa * (A + B + aa)) by ring.
        replace ((1 - A) * (1 - B)) with (1 - A - B + A * B) by ring. lra. }
      assert (B3 : L * (a * (1 + aa) * 4) <= a * (2 - dd) * (2 - e)).
      { replace (L * (a * (1 + aa) * 4)) with (a * 4 * (L * (1 + aa))) by ring.
        replace (a * (2 - dd) * (2 - e)) with (a * 4 * ((1 - dd / 2) * (1 - e / 2))) by field.
        apply Rmult_le_compat_l; [lra|exact K1]. }
      lra.
    - apply div_le; [exact Dt|].
      assert (K0 : (2 - dd) * (2 - e) <= 2 * 2) by (apply Rmult_le_compat; lra).
      assert (K1 : a * (2 - dd) * (2 - e) <= a * 4).
      { rewrite Rmult_assoc. apply Rmult_le_compat_l; lra. }
      assert (Paa : 0 <= aa) by (unfold aa; apply sq_nonneg).
      assert (K3 : u * (1 + aa) <= 4 * aa).
      { apply (Rle_trans _ (101 / 100 * aa * (1 + aa))); [apply Rmult_le_compat_r; lra|].
        apply (Rle_trans _ (101 / 100 * aa * (101 / 100))).
        - apply Rmult_le_compat_l; [|lra]. apply Rmult_le_pos; lra.
        - lra. }
      assert (K4 : 4 <= (1 + aa) * (4 - u)).
      { replace ((1 + aa) * (4 - u)) with (4 + (4 * aa - u * (1 + aa))) by ring. lra. }
      assert (K5 : a * (4 - u) <= t * (4 - u)) by (apply Rmult_le_compat_r; lra).
      assert (K2 : a * 4 <= (1 + aa) * (t * (4 - u))).
      { apply (Rle_trans _ (a * ((1 + aa) * (4 - u)))); [apply Rmult_le_compat_l; lra|].
        replace (a * ((1 + aa) * (4 - u))) with ((1 + aa) * (a * (4 - u))) by ring.
        apply Rmult_le_compat_l; lra. }
      lra.
  Qed.

  (** with the damping decrement below the phase advance (damping time above 1/pi synchrotron periods):
      both equilibrium spreads are 1 within delta^2 + a *)
  Corollary fixed_point_within_discretisation : e <= a ->
    Rabs (spread_p2 - 1) <= delta * delta + a /\ Rabs (spread_q2 - 1) <= delta * delta + a.
  Proof.
    intros Hea. destruct fixed_point_unit_width as [[P1 P2] [Q1 Q2]].
    destruct Hdom as (Ha & Ht & He & Hd).
    assert (a * a <= a / 10) by nra. assert (0 <= delta * delta) by nra.
    split; apply Rabs_le; lra.
  Qed.
End FixBounds.

(** ** (3) J per step: neither / diffusion only / damping only *)
Section JR.
  Variables (v : Z) (a t e delta : R).
  Hypothesis Hd : delta <> 0.

  Lemma J_step_R (m : mom2 RF) :
    let m' := sm_drift (K:=RF) a (sm_rf (K:=RF) t m) in
    sm_J (K:=RF) a t (sm_step (K:=RF) v a t e delta m) =
    sm_J (K:=RF) a t m - opt (K:=RF) (has_damp v) e * (a * t * muv m' + 2 * a * mvv m')
    + a * (2 * opt (K:=RF) (has_diff v) e / (delta * delta) - opt (K:=RF) (has_damp v) e) * m0 m.
  Proof.
    cbv zeta. unfold sm_step, sm_J, sm_fp, sm_drift, sm_rf. cbn [muu muv mvv m0].
    destruct (has_damp v), (has_diff v); runf; field; exact Hd.
  Qed.

  Theorem J_neither (m : mom2 RF) : has_damp v = false -> has_diff v = false ->
    sm_J (K:=RF) a t (sm_step (K:=RF) v a t e delta m) = sm_J (K:=RF) a t m.
  Proof. intros H1 H2. rewrite J_step_R. rewrite H1, H2. runf. field. exact Hd. Qed.

  Theorem J_diffusion_only_increases (m : mom2 RF) : has_damp v = false -> has_diff v = true ->
    0 < a -> 0 < e -> 0 < m0 m ->
    sm_J (K:=RF) a t m < sm_J (K:=RF) a t (sm_step (K:=RF) v a t e delta m).
  Proof.
    intros H1 H2 Ha He Hm. rewrite J_step_R. rewrite H1, H2. runf.
    assert (P : 0 < delta * delta) by (destruct (Rtotal_order delta 0) as [A|[A|A]]; [nra|contradiction|nra]).
    assert (Q : 0 < a * (2 * e / (delta * delta) - 0) * m0 m).
    { apply Rmult_lt_0_compat; [|exact Hm]. apply Rmult_lt_0_compat; [exact Ha|].
      unfold Rdiv. rewrite Rminus_0_r. apply Rmult_lt_0_compat; [lra|apply Rinv_0_lt_compat; exact P]. }
    lra.
  Qed.

  (** damping only: strictly down for every genuine bunch: after the drift, Cauchy-Schwarz (non-negative data)
      and an energy moment that is not absurdly small against the position moment (t^2 Muu <= 4 Mvv) *)
  Theorem J_damping_only_decreases (m : mom2 RF) : has_damp v = true -> has_diff v = false ->
    0 < a -> 0 < t -> 0 < e -> 0 < m0 m ->
    let m' := sm_drift (K:=RF) a (sm_rf (K:=RF) t m) in
    0 <= muu m' -> 0 <= mvv m' -> muv m' * muv m' <= muu m' * mvv m' -> t * t * muu m' <= 4 * mvv m' ->
    sm_J (K:=RF) a t (sm_step (K:=RF) v a t e delta m) < sm_J (K:=RF) a t m.
  Proof.
    intros H1 H2 Ha Ht He Hm m' Hu Hvv Hcs Hmm. rewrite J_step_R. fold m'. rewrite H1, H2. runf.
    set (U := muu m') in *. set (W := muv m') in *. set (V := mvv m') in *.
    replace (m0 m) with (m0 m') in * by reflexivity. set (Z := m0 m') in *.
    (* t W + 2 V >= 0 *)
    assert (S : 0 <= t * W + 2 * V).
    { destruct (Rle_or_lt 0 (t * W + 2 * V)) as [L|L]; [exact L|exfalso].
      assert (A1 : 2 * V < - (t * W)) by lra.
      assert (A2 : (2 * V) * (2 * V) < (t * W) * (t * W)) by nra.
      assert (A3 : (t * W) * (t * W) <= t * t * (U * V)) by nra.
      assert (A4 : t * t * (U * V) <= 4 * V * V) by nra.
      nra. }
    assert (P1 : 0 <= e * (a * t * W + 2 * a * V)).
    { replace (a * t * W + 2 * a * V) with (a * (t * W + 2 * V)) by ring.
      apply Rmult_le_pos; [lra|apply Rmult_le_pos; lra]. }
    assert (P2 : 0 < a * e * Z) by (repeat apply Rmult_lt_0_compat; assumption).
    replace (a * (2 * 0 / (delta * delta) - e) * Z) with (- (a * e * Z)) by (field; exact Hd).
    lra.
  Qed.

  (** J follows the two spreads: |J - (t Muu + a Mvv)| <= sqrt(a t)/2 (t Muu + a Mvv) for Cauchy-Schwarz moments *)
  Theorem J_sandwich (m : mom2 RF) : 0 < a -> 0 < t ->
    0 <= muu m -> 0 <= mvv m -> muv m * muv m <= muu m * mvv m ->
    let S := t * muu m + a * mvv m in
    4 * ((sm_J (K:=RF) a t m - S) * (sm_J (K:=RF) a t m - S)) <= a * t * (S * S).
  Proof.
    intros Ha Ht Hu Hvv Hcs S. pose proof (J_gap RF a t m) as G. runf. fold S in G. rewrite G.
    set (U := muu m) in *. set (W := muv m) in *. set (V := mvv m) in *.
    assert (A : (a * t * W) * (a * t * W) <= a * t * (a * t * (U * V))).
    { replace ((a * t * W) * (a * t * W)) with (a * t * (a * t * (W * W))) by ring.
      apply Rmult_le_compat_l; [nra|]. apply Rmult_le_compat_l; [nra|exact Hcs]. }
    assert (B : 4 * (t * U * (a * V)) <= S * S).
    { pose proof (sq_nonneg (t * U - a * V)) as Q.
      replace (S * S) with ((t * U - a * V) * (t * U - a * V) + 4 * (t * U * (a * V))) by (unfold S; ring). lra. }
    assert (C : 0 < a * t) by nra.
    replace (a * t * (a * t * (U * V))) with (a * t * (t * U * (a * V))) in A by ring.
    assert (E : a * t * (4 * (t * U * (a * V))) <= a * t * (S * S)) by (apply Rmult_le_compat_l; lra).
    lra.
  Qed.
End JR.

(** the two parameter domains are inhabited: 63 steps per synchrotron period, e1 = 0.03, delta = 7/32 *)
Lemma dom_example :
  dom_doc (1 / 10) (1003 / 10000) (3 / 100) (7 / 32) /\ dom_ud (1 / 10) (1003 / 10000) (3 / 100).
Proof. unfold dom_doc, dom_ud. lra. Qed.
