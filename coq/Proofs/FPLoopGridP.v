(** * Charge conservation (C01) of the Fokker-Planck step stated for the loop nest the source has now
    (Gen/Gen_FPLoop.v through Model/FPLoop.v) instead of the index function [fp_apply], and a computed instance of
    the nest. *)
From Coq Require Import List ZArith QArith Qcanon Lia.
From Inovesa Require Import Base.FieldKit Base.Sums Base.Float32 Gen.Gen_FPStencil Gen.Gen_FPLoop Model.FokkerPlanck Model.FPLoop
  Proofs.FPGridP Proofs.FokkerPlanckP Proofs.FPLoopP.
Import ListNotations.
Local Open Scope Z_scope.

Theorem fp3_loops_conserve_grid :
  forall (K : Fld) (e1 delta : K) (p : Z -> K) (v n le m xs nb : Z) (D out0 : Z -> K),
    2 <= n < 2 ^ 32 -> 0 < xs -> 0 <= nb -> uniform K delta p -> delta <> f0 ->
    (forall c, 0 <= c < nb * xs -> supp (colclip K n (fun s => D (c * n + s))) 2 (n - 2)) ->
    sumZ 0 (Z.to_nat (nb * xs * n)) (fp_apply_loops nb xs n 3 (H3 K e1 delta p v n le m) D out0) =
    sumZ 0 (Z.to_nat (nb * xs * n)) D.
Proof.
  intros K e1 delta p v n le m xs nb D out0 Hn Hxs Hnb Hu Hd Hs.
  rewrite <- (fp3_conserves_grid_cols K e1 delta p v n le m xs nb D Hn Hxs Hnb Hu Hd Hs).
  apply sumZ_ext. intros i Hi.
  assert (0 <= nb * xs * n) by (apply Z.mul_nonneg_nonneg; [apply Z.mul_nonneg_nonneg|]; lia).
  apply fp_apply_loops_is_fp_apply; lia.
Qed.

(** a computed instance: two bunches of two columns of three rows, one stencil point per row that reads the row
    itself with weight 2: the nest doubles all twelve cells (no column skipped) and leaves cell 12 alone *)
Example fp_apply_loops_instance :
  map (fp_apply_loops (K:=QcF) 2 2 3 1 (fun k => (k, Qcz 2)) (fun i => Qcz (i + 1)) (fun _ => Qcz 7)) (zrange 13) =
  map Qcz [2; 4; 6; 8; 10; 12; 14; 16; 18; 20; 22; 24; 7].
Proof. vm_compute. reflexivity. Qed.

(** the grid Fokker-Planck step of the full-step theorems of C04 ([fp_grid] of Proofs/StepMoments2P.v: [fp_apply] with
    the 3-point table on an n x n grid of nb bunches) is what the loop nest leaves in the output array *)
From Inovesa Require Import Proofs.StepMoments2P.
Theorem fp_grid_is_loop_nest :
  forall n nb (e1 delta : Qc) (p : Z -> Qc) (v le m : Z) (D out0 : Z -> Qc) i,
    0 < n -> 0 <= nb -> 0 <= i < nb * n * n ->
    fp_grid n e1 delta p v le m D i = fp_apply_loops (K:=QcF) nb n n 3 (H3 QcF e1 delta p v n le m) D out0 i.
Proof.
  intros n nb e1 delta p v le m D out0 i Hn Hnb Hi. unfold fp_grid.
  symmetry. exact (fp_apply_loops_is_fp_apply QcF nb n n 3 (H3 QcF e1 delta p v n le m) D out0 i Hn Hn Hnb Hi).
Qed.
