(** A model witness for the open finding C12 `initial-ps-record`: in the generated main() the phase-space record of
    t = 0 that `--SavePhaseSpace 0` writes in the prologue ("phase space (if not saved anyways)") and the one a run that
    saves phase spaces writes in the first loop iteration are records of DIFFERENT states whenever the loop
    renormalises at step 0 (`renormalize > 0`) and the start distribution does not hold unit charge.
    Instance: every carrier an integer, the projection / integral of a grid is the grid's number itself,
    normalisation divides by the measured charge; start state: charge 6 on the grid, cached integral 1 (stale, as
    after loading a file: the set-up's normalize() then leaves the grid alone). *)
From Coq Require Import List ZArith Bool.
From Inovesa Require Import Model.Driver Gen.Gen_MainLoop Proofs.DriverP.
Import ListNotations.
Local Open Scope Z_scope.

Definition numK : kern :=
  mkkern Z Z Z unit unit unit unit unit unit Z unit unit
    (fun g => g) (fun _ => tt) (fun p => p) (fun g f => g / f) (fun _ _ => tt) (fun _ _ => tt)
    (fun _ _ => tt) (fun _ _ => tt) (fun _ _ => tt) (fun _ g => g) (fun g => g)
    (fun _ _ => tt) (fun _ g => g) (fun g => g) (fun g => g) (fun _ _ _ _ _ _ => (tt, tt)) 0.

Definition ps0_start : st numK :=
  mkst (K:=numK) 0 0 6 6 6 0 1 tt tt tt tt tt tt tt [] [] tt tt false 0 [] [] None [] [] false.

(** the phase-space records of a file that carry the step number [j] *)
Fixpoint ps_rows_at (j : Z) (l : list (rec numK)) : list Z :=
  match l with
  | [] => []
  | r :: t => match rdata r with
              | RPS g => if rstep r =? j then g :: ps_rows_at j t else ps_rows_at j t
              | _ => ps_rows_at j t
              end
  end.

Definition ps0_cfg (h5 : Z) : cfg := mkcfg 2 1 h5 1 true false false.

Lemma initial_ps_record_differs :
  shared (ps0_cfg 0) (ps0_cfg 1) /\
  ps_rows_at 0 (file (run nosig (ps0_cfg 0) main_prog ps0_start)) = [6] /\
  ps_rows_at 0 (file (run nosig (ps0_cfg 1) main_prog ps0_start)) = [1] /\
  g1 (run nosig (ps0_cfg 0) main_prog ps0_start) = g1 (run nosig (ps0_cfg 1) main_prog ps0_start).
Proof. split; [unfold shared; cbn; tauto|]. vm_compute. repeat split; reflexivity. Qed.

Lemma initial_ps_record_refuted :
  exists (K : kern) (c1 c2 : cfg) (s : st K) (rows : Z -> list (rec K) -> list (tG K)),
    shared c1 c2 /\ rows 0 (file (run nosig c1 main_prog s)) <> rows 0 (file (run nosig c2 main_prog s)) /\
    rows 0 (file (run nosig c1 main_prog s)) <> [] /\ rows 0 (file (run nosig c2 main_prog s)) <> [].
Proof.
  exists numK, (ps0_cfg 0), (ps0_cfg 1), ps0_start, ps_rows_at.
  destruct initial_ps_record_differs as (S & A & B & _). rewrite A, B. repeat split; auto; discriminate.
Qed.
