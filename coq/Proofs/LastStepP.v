(** * The number of steps of a run: [laststep = ceil(steps*rotations*(1.0-1e-12))] (main.cpp, after the repair
    "fix: the number of steps of a run no longer depends on rounding noise of steps*rotations").

    Model: [Records.laststep steps rot = Qcceil (rnd53 (rnd53 (steps*rot) * laststep_guard))], every product one binary64
    multiplication.  [rnd53] is Flocq's binary64 round-to-nearest-even (Proofs/Float64P.v), so in the normal range it has
    relative error <= 2^-53 ([relative_error_N_FLT]).  Hence the value under the ceiling lies in
      [x * (1 - 1.1e-12), x * (1 - 0.9e-12)]       for the exact product x = steps*rot >= 2^-1020,
    which is what all statements below need:
    - a run length typed as the decimal value of k/N (parsed to the nearest double) takes exactly k steps, so the step
      counts of the legs of a split run add up ([laststep_on_step_grid], [laststep_additive]);
    - a product that exceeds a whole number m by at least 2e-12 (relative) is rounded up to m+1: the guard only removes
      rounding noise ([laststep_fractional_rounds_up]); any positive run length below one step takes one step;
    - the pinned line (float narrowing, no guard) and the unguarded double product are not additive (computed witnesses).
    Tie: [Gen/Gen_LastStep.v] (translate/laststep2coq.py) is the bound of main()'s loop test as the source computes it;
    it is [f2u 32] of [Records.laststep] of the generated [gen_steps] and the option NRotations ([gen_laststep_is_model]).
    Axioms: the standard library's real numbers (through Float64P / Flocq). *)
From Coq Require Import List ZArith QArith Qcanon Qround Qreals Reals Lra Lia Bool.
From Flocq Require Import Core Relative.
From Inovesa Require Import Base.FieldKit Base.Float32 Model.Kick Model.Bounds Model.ScalingOps Model.Records Model.Restart
  Proofs.Float32P Proofs.BoundsP Proofs.Float64P Proofs.C11P.
From Inovesa Require Gen.Gen_LastStep.
Local Open Scope R_scope.

(** ** Qc values as reals *)
Definition QR (q : Qc) : R := Q2R (this q).

Lemma QR_Q2Qc q : QR (Q2Qc q) = Q2R q.
Proof. unfold QR. cbn [this Q2Qc]. apply Qeq_eqR. apply Qred_correct. Qed.
Lemma QR_mult a b : QR (a * b)%Qc = QR a * QR b.
Proof. unfold Qcmult. rewrite QR_Q2Qc. apply Q2R_mult. Qed.
Lemma QR_Qcz z : QR (Qcz z) = IZR z.
Proof. unfold Qcz. rewrite QR_Q2Qc. apply Q2R_inject_Z. Qed.
Lemma QR_div a b : QR b <> 0 -> QR (a / b)%Qc = QR a / QR b.
Proof.
  intros Hb. unfold Qcdiv. rewrite QR_mult. unfold Qcinv. rewrite QR_Q2Qc. rewrite Q2R_inv; [reflexivity|].
  intro E. apply Hb. unfold QR. rewrite (Qeq_eqR _ _ E). unfold Q2R. cbn. lra.
Qed.
Lemma QR_plus a b : QR (a + b)%Qc = QR a + QR b.
Proof. unfold Qcplus. rewrite QR_Q2Qc. apply Q2R_plus. Qed.
Lemma QR_le a b : (a <= b)%Qc -> QR a <= QR b.
Proof. intros H. apply Qle_Rle. exact H. Qed.

(** [Records.Qcceil] is the ceiling: the integer m with m-1 < q <= m *)
Lemma Qcceil_records_bounds q : Records.Qcceil q = Bounds.Qcceil q.
Proof. unfold Records.Qcceil, Bounds.Qcceil, Qceiling, Qfloor, Qopp. destruct (this q). reflexivity. Qed.

Lemma Qcceil_R (q : Qc) (m : Z) : IZR m - 1 < QR q <= IZR m -> Records.Qcceil q = m.
Proof.
  intros [Hlo Hhi]. rewrite Qcceil_records_bounds.
  assert (U : (Bounds.Qcceil q <= m)%Z).
  { apply Qcceil_le_int. apply Rle_Qle. rewrite Q2R_inject_Z. exact Hhi. }
  assert (V : (m - 1 < Bounds.Qcceil q)%Z).
  { pose proof (Qcceil_ge q) as G. apply Qle_Rle in G. rewrite Q2R_inject_Z in G. fold (QR q) in G.
    apply lt_IZR. rewrite minus_IZR. lra. }
  lia.
Qed.

(** ** one binary64 rounding: relative error 2^-53 in the normal range *)
Definition u53 : R := / 9007199254740992.
Definition Lnorm : R := bpow radix2 (-1022).

Lemma Lnorm_pos : 0 < Lnorm.
Proof. apply bpow_gt_0. Qed.

Lemma half_ulp_u53 : / 2 * bpow radix2 (- (53) + 1) = u53.
Proof.
  unfold u53. change (- (53) + 1)%Z with (-52)%Z. unfold bpow.
  replace (Z.pow_pos radix2 52) with 4503599627370496%Z by (vm_compute; reflexivity).
  lra.
Qed.

Lemma rnd53_rel (q : Qc) : Lnorm <= QR q -> QR q * (1 - u53) <= QR (rnd53 q) <= QR q * (1 + u53).
Proof.
  intros H. pose proof Lnorm_pos as LP.
  assert (Rq : QR (rnd53 q) = round64 (QR q)) by (unfold QR; apply rnd53_correct). rewrite Rq.
  assert (P : 0 < QR q) by lra.
  pose proof (relative_error_N_FLT radix2 (-1074) 53 eq_refl (fun x => negb (Z.even x)) (QR q)) as E.
  rewrite (Rabs_pos_eq (QR q)) in E by lra.
  specialize (E H). rewrite half_ulp_u53 in E. apply Rabs_le_inv in E. lra.
Qed.

(** ** the guard constant: 1 - 9007 * 2^-53, between 1 - 1e-12 and 1 - 0.9999e-12 *)
Lemma guard_value : this laststep_guard = (9007199254731985 # 9007199254740992)%Q.
Proof. vm_compute. reflexivity. Qed.

Lemma guard_bounds : 1 - 1 / 1000000000000 <= QR laststep_guard <= 1 - 9999 / 10000000000000000.
Proof. unfold QR. rewrite guard_value. unfold Q2R. cbn [Qnum Qden]. lra. Qed.

(** ** the value under the ceiling *)
Definition c_lo : R := 1 - 11 / 10000000000000.
Definition c_hi : R := 1 - 9 / 10000000000000.

Lemma laststep_chain (a : Qc) :
  4 * Lnorm <= QR a ->
  QR a * c_lo <= QR (rnd53 (rnd53 a * laststep_guard)%Qc) <= QR a * c_hi.
Proof.
  intros Ha. pose proof Lnorm_pos as LP. pose proof guard_bounds as [Gl Gh].
  set (x := QR a) in *. set (g := QR laststep_guard) in *.
  pose proof (rnd53_rel a ltac:(fold x; lra)) as [P1 P2]. fold x in P1, P2.
  set (p := QR (rnd53 a)) in *.
  assert (U : 0 < u53 < / 1000000000000000) by (unfold u53; lra).
  assert (Pp : 2 * Lnorm <= p).
  { assert (x * (1 / 2) <= x * (1 - u53)) by (apply Rmult_le_compat_l; lra). lra. }
  assert (Z1 : p * (1 - 1 / 1000000000000) <= p * g) by (apply Rmult_le_compat_l; lra).
  assert (Z2 : p * g <= p * (1 - 9999 / 10000000000000000)) by (apply Rmult_le_compat_l; lra).
  assert (Hz : Lnorm <= QR (rnd53 a * laststep_guard)%Qc).
  { rewrite QR_mult. fold p g. lra. }
  pose proof (rnd53_rel (rnd53 a * laststep_guard)%Qc Hz) as [Y1 Y2].
  rewrite QR_mult in Y1, Y2. fold p g in Y1, Y2.
  set (y := QR (rnd53 (rnd53 a * laststep_guard)%Qc)) in *. set (z := p * g) in *.
  (* everything is linear in x, p, z, y once u53 is a number; chain the constant factors *)
  assert (A1 : x * ((1 - u53) * (1 - 1 / 1000000000000)) <= z).
  { replace (x * ((1 - u53) * (1 - 1 / 1000000000000))) with ((x * (1 - u53)) * (1 - 1 / 1000000000000)) by ring.
    apply Rle_trans with (p * (1 - 1 / 1000000000000)); [apply Rmult_le_compat_r; lra | exact Z1]. }
  assert (A2 : z <= x * ((1 + u53) * (1 - 9999 / 10000000000000000))).
  { replace (x * ((1 + u53) * (1 - 9999 / 10000000000000000))) with ((x * (1 + u53)) * (1 - 9999 / 10000000000000000)) by ring.
    apply Rle_trans with (p * (1 - 9999 / 10000000000000000)); [exact Z2 | apply Rmult_le_compat_r; lra]. }
  assert (Zp : 0 <= z) by lra.
  assert (B1 : x * ((1 - u53) * (1 - 1 / 1000000000000) * (1 - u53)) <= y).
  { apply Rle_trans with (z * (1 - u53)); [|exact Y1].
    replace (x * ((1 - u53) * (1 - 1 / 1000000000000) * (1 - u53))) with (x * ((1 - u53) * (1 - 1 / 1000000000000)) * (1 - u53)) by ring.
    apply Rmult_le_compat_r; lra. }
  assert (B2 : y <= x * ((1 + u53) * (1 - 9999 / 10000000000000000) * (1 + u53))).
  { apply Rle_trans with (z * (1 + u53)); [exact Y2|].
    replace (x * ((1 + u53) * (1 - 9999 / 10000000000000000) * (1 + u53))) with (x * ((1 + u53) * (1 - 9999 / 10000000000000000)) * (1 + u53)) by ring.
    apply Rmult_le_compat_r; lra. }
  assert (C1 : c_lo <= (1 - u53) * (1 - 1 / 1000000000000) * (1 - u53)) by (unfold c_lo, u53; lra).
  assert (C2 : (1 + u53) * (1 - 9999 / 10000000000000000) * (1 + u53) <= c_hi) by (unfold c_hi, u53; lra).
  assert (Xp : 0 <= x) by lra.
  split.
  - apply Rle_trans with (x * ((1 - u53) * (1 - 1 / 1000000000000) * (1 - u53))); [apply Rmult_le_compat_l; assumption | exact B1].
  - apply Rle_trans with (x * ((1 + u53) * (1 - 9999 / 10000000000000000) * (1 + u53))); [exact B2 | apply Rmult_le_compat_l; assumption].
Qed.

(** ** 1. run lengths on the step grid *)
Lemma Lnorm_small : Lnorm <= / 1073741824 /\ 4 * Lnorm <= / 2.
Proof.
  assert (A : Lnorm <= bpow radix2 (-32)) by (apply bpow_le; lia).
  assert (B : bpow radix2 (-32) = / 4294967296).
  { unfold bpow. replace (Z.pow_pos radix2 32) with 4294967296%Z by (vm_compute; reflexivity). reflexivity. }
  rewrite B in A. lra.
Qed.

Lemma rnd53_zero : rnd53 0%Qc = 0%Qc.
Proof. apply Qc_is_canon. vm_compute. reflexivity. Qed.

Lemma Qcceil_zero : Records.Qcceil 0%Qc = 0%Z.
Proof. reflexivity. Qed.

Lemma laststep_zero_rot steps : laststep steps 0%Qc = 0%Z.
Proof.
  unfold laststep. replace (steps * 0)%Qc with 0%Qc by ring. rewrite rnd53_zero.
  replace (0 * laststep_guard)%Qc with 0%Qc by ring. rewrite rnd53_zero. reflexivity.
Qed.

(** the decimal value of k/N, parsed to the nearest double *)
Definition grid_time (N k : Z) : Qc := rnd53 (Qcz k / Qcz N)%Qc.

Theorem laststep_on_step_grid (N k : Z) :
  (1 <= N <= 2 ^ 30)%Z -> (0 <= k <= 2 ^ 30)%Z -> laststep (Qcz N) (grid_time N k) = k.
Proof.
  intros HN Hk. change (2 ^ 30)%Z with 1073741824%Z in *. unfold grid_time.
  destruct (Z.eq_dec k 0) as [->|K0].
  { replace (Qcz 0 / Qcz N)%Qc with 0%Qc by (change (Qcz 0) with 0%Qc; unfold Qcdiv; ring).
    rewrite rnd53_zero. apply laststep_zero_rot. }
  pose proof Lnorm_pos as LP. pose proof Lnorm_small as [LS1 LS2].
  assert (RN : 1 <= IZR N <= 1073741824) by (split; apply IZR_le; lia).
  assert (RK : 1 <= IZR k <= 1073741824) by (split; apply IZR_le; lia).
  set (NN := IZR N) in *. set (kk := IZR k) in *.
  assert (Q0 : QR (Qcz k / Qcz N)%Qc = kk / NN).
  { rewrite QR_div by (rewrite QR_Qcz; fold NN; lra). rewrite !QR_Qcz. reflexivity. }
  assert (Qlo : / 1073741824 <= kk / NN).
  { unfold Rdiv. apply Rle_trans with (1 * / NN).
    - rewrite Rmult_1_l. apply Rinv_le_contravar; lra.
    - apply Rmult_le_compat_r; [|lra]. apply Rlt_le, Rinv_0_lt_compat. lra. }
  pose proof (rnd53_rel (Qcz k / Qcz N)%Qc ltac:(rewrite Q0; lra)) as [T1 T2]. rewrite Q0 in T1, T2.
  set (t := QR (rnd53 (Qcz k / Qcz N)%Qc)) in *.
  assert (U : 0 < u53 < / 1000000000000000) by (unfold u53; lra).
  (* x = N * t lies within k (1 -+ u) *)
  assert (X1 : kk * (1 - u53) <= NN * t).
  { replace (kk * (1 - u53)) with (NN * (kk / NN * (1 - u53))) by (field; lra). apply Rmult_le_compat_l; lra. }
  assert (X2 : NN * t <= kk * (1 + u53)).
  { replace (kk * (1 + u53)) with (NN * (kk / NN * (1 + u53))) by (field; lra). apply Rmult_le_compat_l; lra. }
  assert (XA : QR (Qcz N * rnd53 (Qcz k / Qcz N))%Qc = NN * t) by (rewrite QR_mult, QR_Qcz; reflexivity).
  pose proof (laststep_chain (Qcz N * rnd53 (Qcz k / Qcz N))%Qc) as CH. rewrite XA in CH.
  assert (XH : / 2 <= NN * t) by (unfold u53 in X1; lra).
  specialize (CH ltac:(lra)). destruct CH as [Y1 Y2].
  unfold laststep. apply Qcceil_R.
  set (y := QR (rnd53 (rnd53 (Qcz N * rnd53 (Qcz k / Qcz N)) * laststep_guard)%Qc)) in *.
  set (x := NN * t) in *. fold kk. unfold c_lo in Y1. unfold c_hi in Y2. unfold u53 in *.
  split; lra.
Qed.

Corollary laststep_additive (N k1 k2 : Z) :
  (1 <= N <= 2 ^ 30)%Z -> (0 <= k1)%Z -> (0 <= k2)%Z -> (k1 + k2 <= 2 ^ 30)%Z ->
  (laststep (Qcz N) (grid_time N k1) + laststep (Qcz N) (grid_time N k2) = laststep (Qcz N) (grid_time N (k1 + k2)))%Z.
Proof. intros HN H1 H2 H3. rewrite !laststep_on_step_grid by lia. reflexivity. Qed.

(** the continuation theorem (C11P.continuation_equiv_c11) with the step counts main() derives from run lengths typed
    as k1/N, k2/N and (k1+k2)/N: its "n1 + n2 steps" IS the step count of the uninterrupted run *)
Corollary continuation_on_step_grid :
  forall (G P F : Type) (projX : G -> P) (integ : P -> F) (normW : F -> G -> G) (maps : P -> G -> G)
         r (N k1 k2 : Z) (s0 : pst G P F) p0 f0,
    (1 <= N <= 2 ^ 30)%Z -> (0 <= k1)%Z -> (0 <= k2)%Z -> (k1 + k2 <= 2 ^ 30)%Z ->
    (r < 0)%Z \/
    ((0 < r)%Z /\ (r | laststep (Qcz N) (grid_time N k1))%Z /\
     (forall g, norm G P F projX integ normW (norm G P F projX integ normW g) = norm G P F projX integ normW g) /\
     (forall g, norm G P F projX integ normW (snorm G F normW f0 g) = norm G P F projX integ normW g) /\
     (forall g x, maps (projX (snorm G F normW f0 g)) x = maps (projX g) x) /\
     (forall g x, maps (projX (norm G P F projX integ normW g)) x = maps (projX g) x)) ->
    continued G P F projX integ normW maps r (laststep (Qcz N) (grid_time N k1)) (laststep (Qcz N) (grid_time N k2)) s0 p0 f0
    = single G P F projX integ normW maps r (laststep (Qcz N) (grid_time N (k1 + k2))) s0.
Proof.
  intros G P F projX integ normW maps r N k1 k2 s0 p0 f0 HN H1 H2 H3 Hr.
  rewrite <- (laststep_additive N k1 k2 HN H1 H2 H3).
  rewrite !laststep_on_step_grid in * by lia.
  apply continuation_equiv_c11; assumption.
Qed.

(** ** 2. the guard removes rounding noise only: a product at least 2e-12 (relative) above a whole number m >= 1 and at
    most m+1 gives m+1 steps *)
Definition frac_margin : Qc := Q2Qc (2 # 1000000000000).

Theorem laststep_fractional_rounds_up (steps rot : Qc) (m : Z) :
  (1 <= m)%Z -> (Qcz m * (1 + frac_margin) <= steps * rot)%Qc -> (steps * rot <= Qcz (m + 1))%Qc ->
  laststep steps rot = (m + 1)%Z.
Proof.
  intros Hm Hlo Hhi. apply QR_le in Hlo, Hhi.
  rewrite QR_mult, QR_plus, QR_Qcz in Hlo. rewrite QR_Qcz, plus_IZR in Hhi.
  assert (FM : QR frac_margin = 2 / 1000000000000) by (unfold frac_margin; rewrite QR_Q2Qc; unfold Q2R; cbn [Qnum Qden]; lra).
  assert (O1 : QR 1%Qc = 1) by (unfold QR, Q2R; cbn; lra).
  rewrite FM, O1 in Hlo.
  assert (RM : 1 <= IZR m) by (apply IZR_le; lia).
  set (mm := IZR m) in *. set (x := QR (steps * rot)%Qc) in *.
  pose proof Lnorm_pos as LP. pose proof Lnorm_small as [LS1 LS2].
  pose proof (laststep_chain (steps * rot)%Qc) as CH. fold x in CH. specialize (CH ltac:(lra)). destruct CH as [Y1 Y2].
  unfold laststep. apply Qcceil_R. rewrite plus_IZR. fold mm.
  set (y := QR (rnd53 (rnd53 (steps * rot) * laststep_guard)%Qc)) in *.
  unfold c_lo in Y1. unfold c_hi in Y2. split; lra.
Qed.

(** ... and every positive run length of at most one step (not a subnormal number of steps) takes one step *)
Definition tiny : Qc := Q2Qc (1 # 2 ^ 1000).

Theorem laststep_first_step (steps rot : Qc) :
  (tiny <= steps * rot)%Qc -> (steps * rot <= 1)%Qc -> laststep steps rot = 1%Z.
Proof.
  intros Hlo Hhi. apply QR_le in Hlo, Hhi.
  assert (O1 : QR 1%Qc = 1) by (unfold QR, Q2R; cbn; lra). rewrite O1 in Hhi.
  assert (T : QR tiny = bpow radix2 (-1000)).
  { unfold tiny. rewrite QR_Q2Qc. unfold Q2R. cbn [Qnum Qden]. rewrite Rmult_1_l. unfold bpow.
    replace (Z.pow_pos radix2 1000) with (Z.pos (2 ^ 1000)) by (vm_compute; reflexivity). reflexivity. }
  rewrite T in Hlo.
  assert (L4 : 4 * Lnorm <= bpow radix2 (-1000)).
  { change 4 with (bpow radix2 2). unfold Lnorm. rewrite <- bpow_plus. apply bpow_le. lia. }
  pose proof Lnorm_pos as LP.
  set (x := QR (steps * rot)%Qc) in *.
  pose proof (laststep_chain (steps * rot)%Qc) as CH. fold x in CH. specialize (CH ltac:(lra)). destruct CH as [Y1 Y2].
  unfold laststep. apply Qcceil_R.
  set (y := QR (rnd53 (rnd53 (steps * rot) * laststep_guard)%Qc)) in *.
  assert (XP : 0 < x) by lra.
  assert (0 < x * c_lo) by (apply Rmult_lt_0_compat; [exact XP | unfold c_lo; lra]).
  unfold c_hi in Y2. split; lra.
Qed.

(** ** 3. the lines this replaces are not additive (computed) *)
Lemma laststep_pinned_not_additive :
  laststep_pinned (Qcz 100) (rnd32 (Q2Qc (3 # 10))) = 31%Z /\ laststep_pinned (Qcz 100) (rnd32 (Q2Qc (6 # 10))) = 61%Z /\
  (laststep_pinned (Qcz 100) (rnd32 (Q2Qc (3 # 10))) + laststep_pinned (Qcz 100) (rnd32 (Q2Qc (3 # 10)))
   <> laststep_pinned (Qcz 100) (rnd32 (Q2Qc (6 # 10))))%Z.
Proof. vm_compute. repeat split; discriminate. Qed.

(** doubles without the guard factor: 100 * 0.07 = 7.000000000000001 *)
Definition laststep_unguarded (steps rot : Qc) : Z := Records.Qcceil (rnd53 (steps * rot)%Qc).
Lemma laststep_unguarded_not_additive :
  laststep_unguarded (Qcz 100) (grid_time 100 7) = 8%Z /\ laststep_unguarded (Qcz 100) (grid_time 100 14) = 15%Z /\
  (laststep_unguarded (Qcz 100) (grid_time 100 7) + laststep_unguarded (Qcz 100) (grid_time 100 7)
   <> laststep_unguarded (Qcz 100) (grid_time 100 14))%Z.
Proof. vm_compute. repeat split; discriminate. Qed.

(** ** 4. the line as the source has it: [Gen_LastStep.gen_laststep] (bound of main()'s loop test = `steps` argument of
    both DynamicRFKickMap constructions) and [Gen_LastStep.gen_steps] (denominator of the time axis values) *)
Local Open Scope Z_scope.

Lemma conv_bind_val c : conv_bind c (fun v => Val v) = c.
Proof. destruct c; reflexivity. Qed.

(** equal up to commuted / re-associated exact sub-expressions under the same rounding operations *)
Ltac same_up_to_ring := try reflexivity; first [ ring | progress f_equal; same_up_to_ring ].

Lemma laststep_bounds_form steps rot :
  laststep steps rot = Bounds.Qcceil (rnd53 (rnd53 (steps * rot) * laststep_guard)%Qc).
Proof. unfold laststep. apply Qcceil_records_bounds. Qed.

(** the generated bound is the unsigned conversion of [Records.laststep] of the generated steps-per-period and the
    option NRotations (a double, not narrowed): same products, same guard constant, same ceiling *)
Theorem gen_laststep_is_model LZ LQ LB :
  Gen_LastStep.gen_laststep LZ LQ LB =
  f2u 32 (Qcz (laststep (Gen_LastStep.gen_steps LZ LQ LB) (LQ Gen_LastStep.O_getNRotations))).
Proof.
  rewrite laststep_bounds_form. unfold Gen_LastStep.gen_laststep, Gen_LastStep.gen_steps.
  rewrite conv_bind_val.
  match goal with |- context [rnd53 (Qcz 1 - ?c)%Qc] =>
    replace (rnd53 (Qcz 1 - c)%Qc) with laststep_guard by (apply Qc_is_canon; vm_compute; reflexivity) end.
  timeout 60 same_up_to_ring.
Qed.

(** the loop counts from 0 *)
Lemma gen_loop_start_zero : Gen_LastStep.gen_loop_start = 0.
Proof. reflexivity. Qed.

(** without StepsPerRevolution the steps per synchrotron period are max(StepsPerTs, 1), an integer *)
Lemma gen_steps_default LZ LQ LB :
  (LQ Gen_LastStep.O_getStepsPerTrev <= 0)%Qc ->
  Gen_LastStep.gen_steps LZ LQ LB = Qcz (Z.max (LZ Gen_LastStep.O_getStepsPerTsync) 1).
Proof.
  intros H. unfold Gen_LastStep.gen_steps.
  assert (E : qlt (Qcz 0) (LQ Gen_LastStep.O_getStepsPerTrev) = false).
  { unfold qlt. apply negb_false_iff. apply Qle_bool_iff. exact H. }
  rewrite E. try reflexivity; f_equal; lia.
Qed.

Lemma f2u32_Qcz k : 0 <= k < 2 ^ 32 -> f2u 32 (Qcz k) = Val k.
Proof. intros H. apply f2u_val. rewrite Qctrunc_Qcz. split; [reflexivity | exact H]. Qed.

(** the statements of part 1 and 2 for the generated expression *)
Theorem gen_laststep_on_step_grid LZ LQ LB (N k : Z) :
  (LQ Gen_LastStep.O_getStepsPerTrev <= 0)%Qc -> N = Z.max (LZ Gen_LastStep.O_getStepsPerTsync) 1 -> N <= 2 ^ 30 ->
  0 <= k <= 2 ^ 30 -> LQ Gen_LastStep.O_getNRotations = grid_time N k ->
  Gen_LastStep.gen_laststep LZ LQ LB = Val k.
Proof.
  intros H0 HN HN2 Hk HT. rewrite gen_laststep_is_model, (gen_steps_default _ _ _ H0), <- HN, HT.
  rewrite laststep_on_step_grid by lia. apply f2u32_Qcz.
  change (2 ^ 30) with 1073741824 in Hk. change (2 ^ 32) with 4294967296. lia.
Qed.

Theorem gen_laststep_fractional_rounds_up LZ LQ LB (m : Z) :
  1 <= m < 2 ^ 32 - 1 ->
  (Qcz m * (1 + frac_margin) <= Gen_LastStep.gen_steps LZ LQ LB * LQ Gen_LastStep.O_getNRotations)%Qc ->
  (Gen_LastStep.gen_steps LZ LQ LB * LQ Gen_LastStep.O_getNRotations <= Qcz (m + 1))%Qc ->
  Gen_LastStep.gen_laststep LZ LQ LB = Val (m + 1).
Proof.
  intros Hm H1 H2. rewrite gen_laststep_is_model. rewrite (laststep_fractional_rounds_up _ _ m) by (lia || assumption).
  apply f2u32_Qcz. lia.
Qed.
