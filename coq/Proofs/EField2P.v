(** Lemmas about Model/EField2.v: getters are pure, an interleaved history on two objects projects to
    the two single-object histories, history independence for the extended operation set. *)
From Coq Require Import List ZArith Bool Lia.
From Inovesa Require Import Model.EField Model.EField2 Proofs.EFieldP.
Import ListNotations.
Local Open Scope Z_scope.

Section One.
  Context {T C : Type} (E : env T C).

  Lemma xrun_calls h : forall s, xrun E h s = run E (calls h) s.
  Proof.
    induction h as [|x h IH]; intros s; [reflexivity|].
    destruct x as [o|g]; cbn [xrun fold_left calls xstep run].
    - apply IH.
    - apply IH.
  Qed.

  Lemma calls_app (h1 h2 : list (xop T)) : calls (h1 ++ h2) = calls h1 ++ calls h2.
  Proof.
    induction h1 as [|x h IH]; [reflexivity|]. destruct x as [o|g]; cbn [app calls]; rewrite IH; reflexivity.
  Qed.

  (** getters change nothing, wherever they are inserted *)
  Theorem getters_pure h s : xrun E h s = xrun E (map XCall (calls h)) s.
  Proof.
    rewrite !xrun_calls. f_equal. induction h as [|x h IH]; [reflexivity|].
    destruct x as [o|g]; cbn [calls map]; [f_equal|]; exact IH.
  Qed.

  (** the buffers [observe o] lists are the ones the getters of [o] return *)
  Lemma observe_gread o g s1 s2 :
    observe E o s1 = observe E o s2 -> reads_of o g = true -> gread E g s1 = gread E g s2.
  Proof.
    intros H Hr. destruct o as [p|p|cut p]; destruct g; cbn [reads_of] in Hr; try discriminate Hr;
      cbn [observe gread] in *; injection H; intros; assumption.
  Qed.

  Fixpoint only_getters (h : list (xop T)) : bool :=
    match h with [] => true | XCall _ :: _ => false | XGet _ :: r => only_getters r end.

  Lemma only_getters_calls h : only_getters h = true -> calls h = [].
  Proof.
    induction h as [|x h IH]; [reflexivity|]. destruct x as [o|g]; cbn [only_getters calls]; [discriminate|exact IH].
  Qed.

  (** single object, extended operation set: after any history of calls and getters, the call [o]
      followed by any number of getters: every getter of [o] returns what it returns on a fresh object *)
  Theorem xhistory_independence (HZ : rz E = true) (HB : hypB E) (HN : 0 <= nmax E) h o gs g :
    only_getters gs = true -> reads_of o g = true ->
    gread E g (xrun E (h ++ XCall o :: gs) (fresh E)) = gread E g (step E o (fresh E)).
  Proof.
    intros Hg Hr. apply (observe_gread o); [|exact Hr].
    rewrite xrun_calls, calls_app. cbn [calls]. rewrite (only_getters_calls gs Hg).
    apply (history_independence E HZ HB HN (calls h) o).
  Qed.
End One.

Section Two.
  Context {T C : Type} (E1 E2 : env T C).

  Lemma run2_proj w h : forall s,
    sel w (run2 E1 E2 h s) = xrun (envof E1 E2 w) (proj w h) (sel w s).
  Proof.
    induction h as [|[w' x] h IH]; intros s; [reflexivity|].
    cbn [run2 fold_left]. fold (run2 E1 E2 h (step2 E1 E2 (w', x) s)). rewrite IH.
    destruct w, w'; cbn [proj isobj step2 fst snd sel envof xrun fold_left]; reflexivity.
  Qed.

  Lemma proj_app w h1 h2 : proj (T:=T) w (h1 ++ h2) = proj w h1 ++ proj w h2.
  Proof.
    induction h1 as [|[w' x] h IH]; [reflexivity|]. cbn [app proj]. destruct (isobj w w'); rewrite IH; reflexivity.
  Qed.

  (** a call on one object leaves the other object's state as it is *)
  Theorem other_object_untouched w w' x s : isobj w w' = false ->
    sel w (step2 E1 E2 (w', x) s) = sel w s.
  Proof. destruct w, w'; cbn; intros H; try discriminate H; reflexivity. Qed.

  (** after the call [o] on object [w], the rest of the interleaved history makes no call on [w]
      (getters on [w] and anything on the other object are allowed) *)
  Definition quiet (w : who) (h : list (who * xop T)) : bool := only_getters (proj w h).

  (** two objects sharing the process: for every interleaving of calls and getters on both, the getters
      of the last call on an object return what they return on a freshly constructed object *)
  Theorem history_independence2 w
    (HZ : rz (envof E1 E2 w) = true) (HB : hypB (envof E1 E2 w)) (HN : 0 <= nmax (envof E1 E2 w)) h o h' g :
    quiet w h' = true -> reads_of o g = true ->
    gread (envof E1 E2 w) g (sel w (run2 E1 E2 (h ++ (w, XCall o) :: h') (fresh2 E1 E2)))
    = gread (envof E1 E2 w) g (step (envof E1 E2 w) o (fresh (envof E1 E2 w))).
  Proof.
    intros Hq Hr. rewrite run2_proj, proj_app.
    assert (Hp : proj w ((w, XCall o) :: h') = XCall o :: proj w h').
    { cbn [proj]. destruct w; reflexivity. }
    rewrite Hp.
    assert (Hs : sel w (fresh2 E1 E2) = fresh (envof E1 E2 w)) by (destruct w; reflexivity).
    rewrite Hs. apply xhistory_independence; assumption.
  Qed.

  (** ... in the form of [observe]: the three result lists of the call itself *)
  Theorem history_independence2_observe w
    (HZ : rz (envof E1 E2 w) = true) (HB : hypB (envof E1 E2 w)) (HN : 0 <= nmax (envof E1 E2 w)) h o :
    observe (envof E1 E2 w) o (sel w (run2 E1 E2 (h ++ [(w, XCall o)]) (fresh2 E1 E2)))
    = observe (envof E1 E2 w) o (run (envof E1 E2 w) [o] (fresh (envof E1 E2 w))).
  Proof.
    rewrite run2_proj, proj_app.
    assert (Hp : proj w [(w, XCall o)] = [XCall o]) by (destruct w; reflexivity).
    rewrite Hp.
    assert (Hs : sel w (fresh2 E1 E2) = fresh (envof E1 E2 w)) by (destruct w; reflexivity).
    rewrite Hs, xrun_calls, calls_app. cbn [calls].
    apply history_independence; assumption.
  Qed.
End Two.

(** computed instance: two objects of different lengths (the program's radiation and wake fields), an
    interleaved history with getters *)
Definition E2_rdtn := toyE 2 8 0 [1; 0] true idc.
Definition E2_wake := toyE 2 16 3 [1; 0] true idc.
Definition p2 : Z -> Z := lfun 0 [1; 2; 3; 4].
Definition q2 : Z -> Z := lfun 0 [5; 0; 7; 1].
Definition h2_example : list (who * xop Z) :=
  [(Obj2, XCall (Wake q2)); (Obj1, XCall (CSR 0 q2)); (Obj2, XGet GWake); (Obj1, XCall (Pad p2));
   (Obj2, XCall (CSR 3 p2)); (Obj1, XGet GPower)].

Lemma two_objects_example :
  gread E2_rdtn GPower (sel Obj1 (run2 E2_rdtn E2_wake (h2_example ++ (Obj1, XCall (CSR 0 p2)) :: [(Obj2, XCall (Wake q2)); (Obj1, XGet GSpectrum)]) (fresh2 E2_rdtn E2_wake)))
  = gread E2_rdtn GPower (step E2_rdtn (CSR 0 p2) (fresh E2_rdtn))
  /\ quiet Obj1 [(Obj2, XCall (Wake q2)); (Obj1, XGet (T:=Z) GSpectrum)] = true.
Proof. split; vm_compute; reflexivity. Qed.
