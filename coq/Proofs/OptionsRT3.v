(** C13, family opts2: [save_reload_roundtrip] - the round trip with the token-oracle law as the only hypothesis
    that is not a checker.

    One checker of the writer rules, [checker13s], replaces the pair [checker13]/[checker13b] of the earlier waves:
    - it demands what [checker13b] demanded (the config option takes a string and is no information switch; every
      name save() may write is in the config-file description and typed: "every written name is accepted by the
      config-file parser"),
    - it no longer demands that the legacy names are in save()'s skip list: for a parse program accepted by
      [checker] a legacy name never has an entry in the variables map of a state that parse() returns
      ([alias_not_in_vm]: the command line does not know the name, and the folding loop erases it after the file),
      so those entries of the skip list are dead code and removing them is a harmless change.
    [checker13_13b_13s]: whatever the old pair accepted the new checker accepts. *)
From Coq Require Import List String ZArith Bool Lia.
From Inovesa Require Import Model.OptionsTypes Model.Options Proofs.OptionsP Proofs.OptionsThm Proofs.OptionsRT Proofs.OptionsRT2.
Import ListNotations.
Local Open Scope list_scope.

Section RT3.
  Variable T : list opt.
  Variable wf : cty -> tok -> bool.
  Variable W : wrules.
  Variable zerotok : tok -> bool.
  Variable round6 : cty -> tok -> tok.
  Notation find_opt := (find_opt T).

  (** a legacy name has no entry in the variables map of a state that parse() returns *)
  Lemma alias_not_in_vm P cli fs dflt s a c :
    checker T P = true -> parse T wf P cli fs dflt = Run s -> In (a, c) (prog_aliases P) -> s_vm s a = None.
  Proof.
    intros CK H I. destruct (checker_facts T P CK) as (al & SH & ND & NDal & ALok & CANok & _).
    destruct (prog_shape_some _ _ SH) as [PC PF].
    assert (PA : prog_aliases P = al) by (unfold prog_aliases; now rewrite PF). rewrite PA in I.
    rewrite (parse_unfold T wf P cli fs dflt CK) in H. destruct (resolve_all T cli) as [items|] eqn:RA; [|discriminate].
    pose proof (resolve_all_cli T cli items RA) as CLI.
    rewrite PC in H. cbn [exec_list exec st0 s_fin s_vm s_vars] in H.
    destruct (store_items T wf true (fun _ => false) items (fun _ => None)) as [vmA|] eqn:SA; [|discriminate].
    destruct (existsb _ (p_flags P)); [discriminate|].
    pose proof (proj1 (vm1_alias T wf al ND ALok items vmA CLI SA a c I)) as V1.
    destruct (cfg_source _ _ _ _) as [[| |ci] b].
    - destruct b; [discriminate|]. injection H as <-. exact V1.
    - injection H as <-. exact V1.
    - destruct (forallb (known_file T) ci); [|discriminate].
      rewrite PF in H. cbn [exec_list exec s_fin s_vm s_vars] in H.
      destruct (store_items T wf false _ ci _) as [vmB|]; [|discriminate].
      injection H as <-. cbn [s_vm]. apply fold_alias_fst.
      + change a with (fst (a, c)). now apply in_map.
      + now destruct (al_disjoint al NDal a c I).
  Qed.

  (** the checker of the writer rules *)
  Definition checker13s (P : prog) (exempt : list string) : bool :=
    match find_opt (p_cfgopt P) with Some oc => o_cli oc | None => false end
    && w_precise W
    && forallb (fun o => negb (is_canon o && typed o) || mem (o_name o) exempt
                         || (negb (mem (o_name o) (w_skip W)) && saved_kind W o)) T
    && mem (p_cfgopt P) exempt
    && checker13b T W P.

  Lemma checker13_13b_13s P ex : checker13 T W P ex = true -> checker13b T W P = true -> checker13s P ex = true.
  Proof.
    unfold checker13, checker13s. intros C B. rewrite B.
    apply andb_prop in C as [C MX]. apply andb_prop in C as [C FA].
    apply andb_prop in C as [C PR]. apply andb_prop in C as [C _].
    now rewrite C, PR, FA, MX.
  Qed.

  (** * C13.1: the saved file is accepted and gives every member its value back *)
  Theorem save_reload_roundtrip_thm P ex :
    checker T P = true -> checker13s P ex = true -> reparse_lawb T wf W = true ->
    forall cli fs dflt s ftok, parse T wf P cli fs dflt = Run s -> wf TString ftok = true ->
    exists s', reload T wf W zerotok round6 P s ftok = Run s' /\
      forall o, In o T -> is_canon o = true -> typed o = true -> mem (o_name o) ex = false ->
        (String.eqb (o_name o) (w_alpha_name W)
         && Bool.eqb (var_is_zero zerotok (s_vars s) (w_alpha_var W)) (w_alpha_when_zero W)) = false ->
        s_vars s' (o_var o) = s_vars s (o_var o).
  Proof.
    intros CK C13 LAW cli fs dflt s ftok H Wf. unfold checker13s in C13.
    apply andb_prop in C13 as [C13 C13b]. apply andb_prop in C13 as [C13 MX].
    apply andb_prop in C13 as [C13 FA]. apply andb_prop in C13 as [Cc PR].
    destruct (find_opt (p_cfgopt P)) as [oc|] eqn:Fc; [|discriminate].
    destruct (reload_runs_gen T wf W zerotok round6 LAW P cli fs dflt s ftok oc CK Fc Cc PR C13b H Wf) as (s' & R).
    exists s'. split; [exact R|]. intros o Io Co To Ex AL.
    rewrite forallb_forall in FA. pose proof (FA o Io) as K. rewrite Co, To, Ex in K. cbn in K.
    apply andb_prop in K as [K1 K2]. apply negb_true_iff in K1.
    apply (roundtrip_partial_thm T wf W zerotok round6 P cli fs dflt s ftok s' oc CK Fc Cc); try assumption.
    - intros a c I. right. exact (alias_not_in_vm P cli fs dflt s a c CK H I).
    - intro E. rewrite E in Ex. congruence.
    - intros v d V. exact (typed_entries_nonempty T wf W LAW P cli fs dflt s o v d CK H Io To V).
  Qed.
End RT3.

(* ============================================================================================== *)
(** * the saved file re-read together with extra command-line options

    `inovesa <extra options> --config <saved>`: if the extra options alone are an acceptable command line that names no
    config file, the invocation runs; an option among the extra ones takes its command-line value, every other current
    typed option outside [exempt] has the member value of the original invocation (C13 composed with C20's precedence). *)
Lemma resolve_all_app T l1 l2 :
  resolve_all T (l1 ++ l2) =
  match resolve_all T l1, resolve_all T l2 with Some a, Some b => Some (a ++ b) | _, _ => None end.
Proof.
  induction l1 as [|[c t] r IH]; cbn [app resolve_all].
  - now destruct (resolve_all T l2).
  - rewrite IH. destruct (resolve T c); [|reflexivity]. destruct (resolve_all T r); [|reflexivity].
    now destruct (resolve_all T l2).
Qed.

Lemma occurs_app n (l1 l2 : list item) : occurs n (l1 ++ l2) = occurs n l1 || occurs n l2.
Proof. unfold occurs. apply existsb_app. Qed.

Lemma collect_app T incli n (l1 l2 : list item) :
  collect T incli n (l1 ++ l2) = collect T incli n l1 ++ collect T incli n l2.
Proof. unfold collect. destruct (find_opt T n); [apply flat_map_app | reflexivity]. Qed.

Section Override.
  Variable T : list opt.
  Variable wf : cty -> tok -> bool.
  Variable W : wrules.
  Variable zerotok : tok -> bool.
  Variable round6 : cty -> tok -> tok.
  Notation find_opt := (find_opt T).
  Hypothesis LAW : reparse_lawb T wf W = true.

  Definition reload_with (P : prog) (s : st) (ftok : tok) (cli2 : list cliitem) : outcome :=
    parse T wf P (cli2 ++ [(Long (p_cfgopt P), [ftok])]) (fun _ => FFile (saved_items T W zerotok round6 s)) FNoFile.

  (** what "the extra options alone run, without any config file" says about them *)
  Lemma extra_cli_facts P cli2 s2 oc :
    checker T P = true -> find_opt (p_cfgopt P) = Some oc -> o_ty oc = TString ->
    parse T wf P cli2 (fun _ => FNoFile) FNoFile = Run s2 ->
    exists items2 vmA2,
      resolve_all T cli2 = Some items2
      /\ store_items T wf true (fun _ => false) items2 (fun _ => None) = Some vmA2
      /\ existsb (fun f => match add_defaults T true vmA2 f with Some _ => true | None => false end) (p_flags P) = false
      /\ occurs (p_cfgopt P) items2 = false.
  Proof.
    intros CK Fc TS H. destruct (checker_facts T P CK) as (al & SH & ND & _).
    destruct (prog_shape_some _ _ SH) as [PC PF].
    rewrite (parse_unfold T wf P cli2 _ _ CK) in H.
    destruct (resolve_all T cli2) as [items2|] eqn:RA; [|discriminate].
    rewrite PC in H. cbn [exec_list exec st0 s_fin s_vm s_vars] in H.
    destruct (store_items T wf true (fun _ => false) items2 (fun _ => None)) as [vmA2|] eqn:SA; [|discriminate].
    destruct (existsb _ (p_flags P)) eqn:FL; [discriminate|].
    exists items2, vmA2. repeat split; try assumption.
    destruct (occurs (p_cfgopt P) items2) eqn:O; [|reflexivity]. exfalso.
    rewrite (source_eq T wf P items2 vmA2 _ _ SA) in H. unfold source, cfg_given in H. rewrite O in H.
    assert (OK : vm_ok T wf (add_defaults T true vmA2)).
    { apply (add_defaults_ok T wf W LAW). eapply (store_items_ok T wf W LAW); [|exact SA]. intros n e X. discriminate. }
    pose proof (phase1_form T wf _ _ SA (p_cfgopt P)) as V. rewrite O in V.
    destruct (OK _ _ V) as (o' & Fo & VO). rewrite Fc in Fo. injection Fo as <-. cbn [fst] in VO.
    unfold vals_ok in VO. rewrite TS in VO.
    destruct (collect T true (p_cfgopt P) items2) as [|t [|t2 r]]; try discriminate.
  Qed.

  Theorem reload_override_runs P cli fs dflt s ftok cli2 s2 oc :
    checker T P = true ->
    find_opt (p_cfgopt P) = Some oc -> o_cli oc = true -> w_precise W = true -> checker13b T W P = true ->
    parse T wf P cli fs dflt = Run s -> wf TString ftok = true ->
    parse T wf P cli2 (fun _ => FNoFile) FNoFile = Run s2 ->
    exists s', reload_with P s ftok cli2 = Run s'.
  Proof.
    intros CK Fc Cc PR C13b H Wf H2.
    pose proof (parse_vm_ok T wf W LAW P cli fs dflt s CK H) as OK.
    destruct (checker_facts T P CK) as (al & SH & ND & NDal & ALok & CANok & _).
    destruct (prog_shape_some _ _ SH) as [PC PF].
    unfold checker13b in C13b. rewrite Fc in C13b.
    apply andb_prop in C13b as [C13b MW]. apply andb_prop in C13b as [TS NF].
    apply cty_eqb_eq in TS. apply negb_true_iff in NF. rewrite forallb_forall in MW.
    assert (MW' : forall o, In o T -> may_write W o = true -> o_file o = true /\ typed o = true).
    { intros o Io M. specialize (MW o Io). rewrite M in MW. cbn in MW. now apply andb_prop in MW. }
    destruct (extra_cli_facts P cli2 s2 oc CK Fc TS H2) as (items2 & vmA2 & RA2 & SA2 & FL2 & OC2).
    unfold reload_with. rewrite (parse_unfold T wf P _ _ _ CK).
    rewrite resolve_all_app, RA2. cbn [resolve_all]. rewrite (resolve_exact T _ _ Fc Cc).
    rewrite PC. cbn [exec_list exec st0 s_fin s_vm s_vars].
    rewrite (store_items_app T wf), SA2. cbn [store_items]. rewrite Fc.
    assert (V0 : vmA2 (p_cfgopt P) = None).
    { rewrite (store_items_spec T wf _ _ _ _ _ SA2). cbn [orb]. now rewrite OC2. }
    rewrite V0. cbn [expl].
    assert (Toc : typed oc = true) by (unfold typed; now rewrite TS).
    assert (NVoc : o_ty oc <> TVecFloat) by (rewrite TS; discriminate).
    rewrite (sem_parse_scalar wf oc true ftok Toc NVoc) by (now rewrite TS).
    set (vmA' := upd vmA2 (p_cfgopt P) (Some ([ftok], false))).
    cbn [exec_list exec s_fin s_vm s_vars].
    assert (E1 : existsb (fun f => match add_defaults T true vmA' f with Some _ => true | None => false end) (p_flags P) = false).
    { apply not_true_is_false. intro X. apply existsb_exists in X as (f & If & Y).
      assert (Nf : f <> p_cfgopt P) by (intro; subst f; apply mem_false in NF; contradiction).
      rewrite add_defaults_form in Y. unfold vmA' in Y. rewrite upd_other in Y by assumption.
      pose proof (existsb_false_In _ _ FL2 f If) as Z. cbn beta in Z. rewrite add_defaults_form in Z.
      destruct (vmA2 f); [discriminate|]. now rewrite Z in Y. }
    rewrite E1. unfold cfg_source. cbn [s_vm]. rewrite add_defaults_form. unfold vmA' at 1. rewrite upd_same.
    assert (KF : forallb (known_file T) (saved_items T W zerotok round6 s) = true).
    { apply forallb_forall. intros it Hit. unfold saved_items, save in Hit.
      apply in_map_iff in Hit as (l & <- & Hl). apply in_flat_map in Hl as (o & Io & Hl).
      unfold known_file. cbn [fst]. rewrite (save_opt_names _ _ _ _ _ _ Hl), (find_opt_unique T o ND Io).
      apply (MW' o Io). apply (save_opt_written W zerotok round6 s). intro X. rewrite X in Hl. contradiction. }
    rewrite KF, PF. cbn [exec_list exec s_fin s_vm s_vars].
    unfold saved_items, save. change (map (fun l : string * tok => (fst l, [snd l]))) with (map to_item).
    match goal with |- context [store_items T wf false ?f _ ?v] =>
      edestruct (store_table T wf W zerotok round6 LAW f s OK PR ND (fun o Io M => proj2 (MW' o Io M)) T v) as (vmB & SB) end.
    - auto.
    - exact ND.
    - intros o Io. cbn [orb]. rewrite mem_occurs, occurs_app. cbn [occurs existsb fst]. rewrite orb_false_r.
      destruct (occurs (o_name o) items2) eqn:O2; [now left|].
      destruct (String.eqb (p_cfgopt P) (o_name o)) eqn:E; [left; apply orb_true_r|right].
      rewrite add_defaults_form. unfold vmA'. rewrite upd_other.
      2:{ intro X. rewrite X, String.eqb_refl in E. discriminate. }
      rewrite (store_items_spec T wf _ _ _ _ _ SA2). cbn [orb]. rewrite O2. cbn [negb].
      unfold dentry. destruct (find_opt (o_name o)) as [o'|]; [|reflexivity].
      destruct (in_grp true o'); [|reflexivity]. now destruct (def_of true o').
    - rewrite SB. eexists. reflexivity.
  Qed.

  (** ** C13.1 with extra command-line options on the re-reading invocation *)
  Theorem roundtrip_override P ex :
    checker T P = true -> checker13s T W P ex = true ->
    forall cli fs dflt s ftok cli2 s2,
    parse T wf P cli fs dflt = Run s -> wf TString ftok = true ->
    parse T wf P cli2 (fun _ => FNoFile) FNoFile = Run s2 ->
    exists s' items2, reload_with P s ftok cli2 = Run s' /\ resolve_all T cli2 = Some items2 /\
      forall o, In o T -> is_canon o = true -> typed o = true -> mem (o_name o) ex = false ->
        (occurs (o_name o) items2 = true -> s_vars s' (o_var o) = s_vars s2 (o_var o))
        /\ (occurs (o_name o) items2 = false ->
            (String.eqb (o_name o) (w_alpha_name W)
             && Bool.eqb (var_is_zero zerotok (s_vars s) (w_alpha_var W)) (w_alpha_when_zero W)) = false ->
            s_vars s' (o_var o) = s_vars s (o_var o)).
  Proof.
    intros CK C13 cli fs dflt s ftok cli2 s2 H Wf H2. unfold checker13s in C13.
    apply andb_prop in C13 as [C13 C13b]. apply andb_prop in C13 as [C13 MX].
    apply andb_prop in C13 as [C13 FA]. apply andb_prop in C13 as [Cc PR].
    destruct (find_opt (p_cfgopt P)) as [oc|] eqn:Fc; [|discriminate].
    destruct (reload_override_runs P cli fs dflt s ftok cli2 s2 oc CK Fc Cc PR C13b H Wf H2) as (s' & R).
    assert (TS : o_ty oc = TString).
    { unfold checker13b in C13b. rewrite Fc in C13b. apply andb_prop in C13b as [C13b _].
      apply andb_prop in C13b as [TS _]. now apply cty_eqb_eq. }
    destruct (extra_cli_facts P cli2 s2 oc CK Fc TS H2) as (items2 & vmA2 & RA2 & SA2 & FL2 & OC2).
    exists s', items2. split; [exact R|]. split; [exact RA2|].
    intros o Io Co To Ex.
    assert (Nc : o_name o <> p_cfgopt P) by (intro E; rewrite E in Ex; congruence).
    assert (Ec : String.eqb (p_cfgopt P) (o_name o) = false) by (apply String.eqb_neq; congruence).
    unfold reload_with in R.
    destruct (precedence_thm T wf P _ _ _ s' CK R) as (items' & RA' & PV').
    rewrite resolve_all_app, RA2 in RA'. cbn [resolve_all] in RA'. rewrite (resolve_exact T _ _ Fc Cc) in RA'.
    injection RA' as <-.
    destruct (precedence_thm T wf P _ _ _ s2 CK H2) as (items2' & RA2' & PV2).
    rewrite RA2 in RA2'. injection RA2' as <-.
    match type of PV' with context [loaded T P ?l _ _] =>
      assert (Oapp : occurs (o_name o) l = occurs (o_name o) items2) end.
    { rewrite occurs_app. cbn [occurs existsb fst]. now rewrite Ec, orb_false_r. }
    split.
    - intro O2. rewrite (PV' o Io Co To), (PV2 o Io Co To). unfold spec_value. cbv zeta. rewrite Oapp, O2.
      f_equal. rewrite collect_app, (collect_cons T), Ec. cbn [app].
      unfold collect. destruct (find_opt (o_name o)); cbn [flat_map]; now rewrite app_nil_r.
    - intros O2 AL. rewrite (PV' o Io Co To).
      match goal with |- context [loaded ?a ?b ?c ?d ?e] =>
        replace (loaded a b c d e) with (saved_items T W zerotok round6 s) end.
      2:{ unfold loaded, source, cfg_given. rewrite occurs_app. cbn [occurs existsb fst]. rewrite String.eqb_refl, orb_true_r.
          rewrite collect_app, (collect_not_occurs T _ _ _ OC2). cbn [app].
          unfold collect. rewrite Fc. cbn [flat_map fst snd]. rewrite String.eqb_refl, app_nil_r.
          unfold ntoks. rewrite TS. reflexivity. }
      rewrite forallb_forall in FA. pose proof (FA o Io) as K. rewrite Co, To, Ex in K. cbn in K.
      apply andb_prop in K as [K1 K2]. apply negb_true_iff in K1.
      apply (spec_on_saved T wf W zerotok round6 P cli fs dflt s _ CK); try assumption.
      + intros a c I. right. exact (alias_not_in_vm T wf P cli fs dflt s a c CK H I).
      + intros v d V. exact (typed_entries_nonempty T wf W LAW P cli fs dflt s o v d CK H Io To V).
      + now rewrite Oapp.
  Qed.
End Override.
