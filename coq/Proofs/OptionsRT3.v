(** C13, family opts2: [save_reload_roundtrip] - the round trip with the token-oracle law as the only hypothesis
    that is not a checker.

    One checker of the writer rules, [checker13s], replaces the pair [checker13]/[checker13b] of the earlier waves:
    - it demands what [checker13b] demanded (the config option takes a string and is no information switch; every
      name save() may write is in the config-file description and typed: "every written name is accepted by the
      config-file parser"),
    - it no longer demands that the legacy names are in save()'s skip list: for a parse program accepted by
      [checker] a legacy name never has an entry in the variables map of a state that parse() returns
      ([alias_not_in_vm]: the command line does not know the name, and the folding loop erases it after the file),
      so those entries of the skip list are dead code and removing them is a harmless change.
    [checker13_13b_13s]: whatever the old pair accepted the new checker accepts. *)
From Coq Require Import List String ZArith Bool Lia.
From Inovesa Require Import Model.OptionsTypes Model.Options Proofs.OptionsP Proofs.OptionsThm Proofs.OptionsRT Proofs.OptionsRT2.
Import ListNotations.
Local Open Scope list_scope.

Section RT3.
  Variable T : list opt.
  Variable wf : cty -> tok -> bool.
  Variable W : wrules.
  Variable zerotok : tok -> bool.
  Variable round6 : cty -> tok -> tok.
  Notation find_opt := (find_opt T).

  (** a legacy name has no entry in the variables map of a state that parse() returns *)
  Lemma alias_not_in_vm P cli fs dflt s a c :
    checker T P = true -> parse T wf P cli fs dflt = Run s -> In (a, c) (prog_aliases P) -> s_vm s a = None.
  Proof.
    intros CK H I. destruct (checker_facts T P CK) as (al & SH & ND & NDal & ALok & CANok & _).
    destruct (prog_shape_some _ _ SH) as [PC PF].
    assert (PA : prog_aliases P = al) by (unfold prog_aliases; now rewrite PF). rewrite PA in I.
    rewrite (parse_unfold T wf P cli fs dflt CK) in H. destruct (resolve_all T cli) as [items|] eqn:RA; [|discriminate].
    pose proof (resolve_all_cli T cli items RA) as CLI.
    rewrite PC in H. cbn [exec_list exec st0 s_fin s_vm s_vars] in H.
    destruct (store_items T wf true (fun _ => false) items (fun _ => None)) as [vmA|] eqn:SA; [|discriminate].
    destruct (existsb _ (p_flags P)); [discriminate|].
    pose proof (proj1 (vm1_alias T wf al ND ALok items vmA CLI SA a c I)) as V1.
    destruct (cfg_source _ _ _ _) as [[| |ci] b].
    - destruct b; [discriminate|]. injection H as <-. exact V1.
    - injection H as <-. exact V1.
    - destruct (forallb (known_file T) ci); [|discriminate].
      rewrite PF in H. cbn [exec_list exec s_fin s_vm s_vars] in H.
      destruct (store_items T wf false _ ci _) as [vmB|]; [|discriminate].
      injection H as <-. cbn [s_vm]. apply fold_alias_fst.
      + change a with (fst (a, c)). now apply in_map.
      + now destruct (al_disjoint al NDal a c I).
  Qed.

  (** the checker of the writer rules *)
  Definition checker13s (P : prog) (exempt : list string) : bool :=
    match find_opt (p_cfgopt P) with Some oc => o_cli oc | None => false end
    && w_precise W
    && forallb (fun o => negb (is_canon o && typed o) || mem (o_name o) exempt
                         || (negb (mem (o_name o) (w_skip W)) && saved_kind W o)) T
    && mem (p_cfgopt P) exempt
    && checker13b T W P.

  Lemma checker13_13b_13s P ex : checker13 T W P ex = true -> checker13b T W P = true -> checker13s P ex = true.
  Proof.
    unfold checker13, checker13s. intros C B. rewrite B.
    apply andb_prop in C as [C MX]. apply andb_prop in C as [C FA].
    apply andb_prop in C as [C PR]. apply andb_prop in C as [C _].
    now rewrite C, PR, FA, MX.
  Qed.

  (** * C13.1: the saved file is accepted and gives every member its value back *)
  Theorem save_reload_roundtrip_thm P ex :
    checker T P = true -> checker13s P ex = true -> reparse_lawb T wf W = true ->
    forall cli fs dflt s ftok, parse T wf P cli fs dflt = Run s -> wf TString ftok = true ->
    exists s', reload T wf W zerotok round6 P s ftok = Run s' /\
      forall o, In o T -> is_canon o = true -> typed o = true -> mem (o_name o) ex = false ->
        (String.eqb (o_name o) (w_alpha_name W)
         && Bool.eqb (var_is_zero zerotok (s_vars s) (w_alpha_var W)) (w_alpha_when_zero W)) = false ->
        s_vars s' (o_var o) = s_vars s (o_var o).
  Proof.
    intros CK C13 LAW cli fs dflt s ftok H Wf. unfold checker13s in C13.
    apply andb_prop in C13 as [C13 C13b]. apply andb_prop in C13 as [C13 MX].
    apply andb_prop in C13 as [C13 FA]. apply andb_prop in C13 as [Cc PR].
    destruct (find_opt (p_cfgopt P)) as [oc|] eqn:Fc; [|discriminate].
    destruct (reload_runs_gen T wf W zerotok round6 LAW P cli fs dflt s ftok oc CK Fc Cc PR C13b H Wf) as (s' & R).
    exists s'. split; [exact R|]. intros o Io Co To Ex AL.
    rewrite forallb_forall in FA. pose proof (FA o Io) as K. rewrite Co, To, Ex in K. cbn in K.
    apply andb_prop in K as [K1 K2]. apply negb_true_iff in K1.
    apply (roundtrip_partial_thm T wf W zerotok round6 P cli fs dflt s ftok s' oc CK Fc Cc); try assumption.
    - intros a c I. right. exact (alias_not_in_vm P cli fs dflt s a c CK H I).
    - intro E. rewrite E in Ex. congruence.
    - intros v d V. exact (typed_entries_nonempty T wf W LAW P cli fs dflt s o v d CK H Io To V).
  Qed.
End RT3.
