(** Lemmas about Model/DynRF.v (DESIGN 5/C19 (2)-(4)): the modulation queue invariant under
    arbitrary interleavings of apply and flush, absence of queue underflow, zero amplitudes
    give the static map, pure sinusoidal modulation. *)
From Coq Require Import List ZArith String Bool Arith Lia Ring Field.
From Inovesa Require Import Base.FieldKit Model.Ctors Gen.Gen_Ctors Model.DynRF.
Import ListNotations.

(** generic list facts *)
Lemma firstn_length_app {A} (l1 l2 : list A) : firstn (List.length l1) (l1 ++ l2) = l1.
Proof. rewrite firstn_app, firstn_all, Nat.sub_diag, firstn_O, app_nil_r. reflexivity. Qed.

Lemma skipn_length_app {A} (l1 l2 : list A) : skipn (List.length l1) (l1 ++ l2) = l2.
Proof. rewrite skipn_app, skipn_all, Nat.sub_diag. reflexivity. Qed.

Lemma map_const_seq {A} (f : nat -> A) (c : A) a n :
  (forall i, f i = c) -> map f (seq a n) = repeat c n.
Proof. intros H. revert a. induction n as [|n IH]; intros a; cbn; [reflexivity|]. rewrite H, IH. reflexivity. Qed.

Lemma nth_error_map_seq {A} (f : nat -> A) k n :
  (k < n)%nat -> nth_error (map f (seq 0 n)) k = Some (f k).
Proof.
  intros H. rewrite (nth_error_nth' _ (f 0%nat)) by (rewrite map_length, seq_length; exact H).
  rewrite map_nth, seq_nth by exact H. reflexivity.
Qed.

Lemma nth_error_firstn_lt {A} (l : list A) : forall n j,
  (j < n)%nat -> nth_error (firstn n l) j = nth_error l j.
Proof.
  induction l as [|x r IH]; intros n j H; [rewrite firstn_nil; reflexivity|].
  destruct n as [|n]; [lia|]. destruct j as [|j]; [reflexivity|]. cbn. apply IH. lia.
Qed.

Section DynRFP.
  Variable K : Fld.
  Add Field KF_dynrf : (@Fth K).
  Variable sin : K -> K.
  Local Open Scope F_scope.
  Variable G : Type.
  Variable kickmap : list K -> G -> G.

  Notation st := (@DynRF.st K G).
  Notation exec := (@DynRF.exec K sin G kickmap).
  Notation run := (@DynRF.run K sin G kickmap).
  Notation init := (@DynRF.init K sin G).
  Notation static_run := (@DynRF.static_run K sin G kickmap).
  Notation calc_kick := (@DynRF.calc_kick K sin).
  Notation static_offsets := (@DynRF.static_offsets K sin).
  Notation calc_modulation := (@DynRF.calc_modulation K sin).

  Definition xlen (m : rfmap K) : nat := List.length (zrange (xsize m)).
  Definition ck (m : rfmap K) (e : modn K) : list K := calc_kick m (fst e) (snd e).

  Lemma calc_kick_length m p a : List.length (calc_kick m p a) = xlen m.
  Proof. unfold DynRF.calc_kick, xlen. apply map_length. Qed.

  Lemma write_prefix_idem (p z : list K) : write_prefix p (write_prefix p z) = write_prefix p z.
  Proof. unfold write_prefix. rewrite skipn_length_app. reflexivity. Qed.

  Lemma firstn_write_prefix (p z : list K) : firstn (List.length p) (write_prefix p z) = p.
  Proof. unfold write_prefix. apply firstn_length_app. Qed.

  Lemma skipn_write_prefix (p z : list K) : skipn (List.length p) (write_prefix p z) = skipn (List.length p) z.
  Proof. unfold write_prefix. apply skipn_length_app. Qed.

  Lemma calc_modulation_length sync d noise steps :
    List.length (calc_modulation sync d noise steps) = steps.
  Proof. unfold DynRF.calc_modulation. rewrite map_length, seq_length. reflexivity. Qed.

  (** ** the schedule *)
  Lemma count_apply_cons_apply r : count_apply (Apply :: r) = S (count_apply r).
  Proof. reflexivity. Qed.
  Lemma count_apply_cons_flush r : count_apply (Flush :: r) = count_apply r.
  Proof. reflexivity. Qed.
  Lemma count_apply_app a b : count_apply (a ++ b) = (count_apply a + count_apply b)%nat.
  Proof. unfold count_apply. rewrite filter_app, app_length. reflexivity. Qed.

  Lemma count_apply_step outstep k : count_apply (step_ops outstep k) = 1%nat.
  Proof. unfold step_ops. destruct (_ && _)%bool; reflexivity. Qed.

  Lemma count_apply_steps outstep a n : count_apply (flat_map (step_ops outstep) (seq a n)) = n.
  Proof.
    revert a. induction n as [|n IH]; intros a; cbn [seq flat_map]; [reflexivity|].
    rewrite count_apply_app, count_apply_step, IH. reflexivity.
  Qed.

  Lemma count_apply_main outstep n : count_apply (main_ops outstep n) = n.
  Proof. unfold main_ops. rewrite count_apply_app, count_apply_steps. cbn. lia. Qed.

  (** ** once the undefined behaviour has happened nothing is claimed any more *)
  Lemma run_ub_frozen m ops (s : st) : ub s = true -> run m ops s = s.
  Proof.
    intros H. induction ops as [|o r IH]; [reflexivity|].
    cbn [DynRF.run fold_left]. unfold DynRF.exec at 2. rewrite H. exact IH.
  Qed.

  Lemma run_cons m o r (s : st) : run m (o :: r) s = run m r (exec m o s).
  Proof. reflexivity. Qed.

  Lemma run_app m a b (s : st) : run m (a ++ b) s = run m b (run m a s).
  Proof. unfold DynRF.run. apply fold_left_app. Qed.

  (** ** no underflow while the applies do not outnumber the queue *)
  Lemma run_no_ub m ops : forall s : st,
    ub s = false -> (count_apply ops <= List.length (queue s))%nat -> ub (run m ops s) = false.
  Proof.
    induction ops as [|o r IH]; intros s Hub Hc; [exact Hub|].
    rewrite run_cons. apply IH.
    - unfold DynRF.exec. rewrite Hub. destruct o; [|reflexivity].
      destruct (queue s); [cbn in Hc; lia|reflexivity].
    - unfold DynRF.exec. rewrite Hub. destruct o.
      + rewrite count_apply_cons_apply in Hc. destruct (queue s) as [|e q]; cbn in *; lia.
      + rewrite count_apply_cons_flush in Hc. exact Hc.
  Qed.

  (** ** the record invariant *)
  Definition Inv (m : rfmap K) (q0 : list (modn K)) (s : st) : Prop :=
    ub s = false ->
    (List.concat (flushed s) ++ past s) ++ queue s = q0 /\
    used s = List.concat (flushed s) ++ past s /\
    map (firstn (xlen m)) (kicks s) = map (ck m) (used s).

  Lemma exec_inv m q0 o (s : st) : Inv m q0 s -> Inv m q0 (exec m o s).
  Proof.
    unfold Inv. intros H. unfold DynRF.exec. destruct (ub s) eqn:Hub; [intros X; cbn in X; congruence|].
    destruct (H eq_refl) as [H1 [H2 H3]]. destruct o.
    - destruct (queue s) as [|e q] eqn:Q; cbn [ub]; [discriminate|]. intros _.
      cbn [flushed past queue used kicks]. split; [|split].
      + rewrite <- H1. rewrite !app_assoc_reverse. reflexivity.
      + rewrite H2. rewrite app_assoc. reflexivity.
      + rewrite !map_app, H3. cbn [map]. f_equal. f_equal. unfold ck.
        rewrite <- (calc_kick_length m (fst e) (snd e)). apply firstn_write_prefix.
    - cbn [ub flushed past queue used kicks]. intros _. split; [|split].
      + rewrite List.concat_app. cbn [List.concat]. rewrite !app_nil_r. exact H1.
      + rewrite List.concat_app. cbn [List.concat]. rewrite !app_nil_r. exact H2.
      + exact H3.
  Qed.

  Lemma run_inv m q0 ops : forall s : st, Inv m q0 s -> Inv m q0 (run m ops s).
  Proof.
    induction ops as [|o r IH]; intros s H; [exact H|].
    rewrite run_cons. apply IH. apply exec_inv. exact H.
  Qed.

  Lemma init_inv m len q0 g : Inv m q0 (init m len q0 g).
  Proof. unfold Inv, DynRF.init. cbn. auto. Qed.

  Lemma run_used_length m ops : forall s : st,
    ub (run m ops s) = false ->
    List.length (used (run m ops s)) = (List.length (used s) + count_apply ops)%nat.
  Proof.
    induction ops as [|o r IH]; intros s H; [cbn; lia|].
    rewrite run_cons in *. destruct (ub (exec m o s)) eqn:E.
    - rewrite run_ub_frozen in H by exact E. congruence.
    - rewrite IH by exact H. revert E. unfold DynRF.exec. destruct (ub s) eqn:Hub; [congruence|].
      destruct o.
      + destruct (queue s); cbn [ub used]; [discriminate|]. intros _.
        rewrite app_length, count_apply_cons_apply. cbn. lia.
      + intros _. cbn [used]. rewrite count_apply_cons_flush. lia.
  Qed.

  (** ** DESIGN 5/C19 (3) *)
  Theorem modulation_records m len q0 g ops :
    (count_apply ops <= List.length q0)%nat ->
    let s := run m ops (init m len q0 g) in
    let k := count_apply ops in
    ub s = false /\
    List.concat (flushed s) ++ past s = firstn k q0 /\
    queue s = skipn k q0 /\
    used s = firstn k q0 /\
    map (firstn (xlen m)) (kicks s) = map (ck m) (firstn k q0).
  Proof.
    intros Hc s k.
    assert (Hub : ub s = false) by (apply run_no_ub; [reflexivity|exact Hc]).
    destruct (run_inv m q0 ops _ (init_inv m len q0 g) Hub) as [H1 [H2 H3]].
    fold s in H1, H2, H3.
    assert (Hl : List.length (used s) = k).
    { unfold s. rewrite run_used_length by exact Hub. reflexivity. }
    rewrite <- H2 in H1.
    assert (Hu : used s = firstn k q0).
    { rewrite <- Hl, <- H1. symmetry. apply firstn_length_app. }
    split; [exact Hub|]. split; [rewrite <- H2; exact Hu|]. split.
    - rewrite <- Hl. transitivity (skipn (List.length (used s)) (used s ++ queue s));
        [symmetry; apply skipn_length_app|rewrite H1; reflexivity].
    - split; [exact Hu|]. rewrite <- Hu. exact H3.
  Qed.

  (** the kick of step j (0-based) of any schedule was computed from m_j *)
  Corollary kick_of_step_uses_its_record m len q0 g ops j e :
    (count_apply ops <= List.length q0)%nat -> (j < count_apply ops)%nat ->
    nth_error q0 j = Some e ->
    let s := run m ops (init m len q0 g) in
    nth_error (used s) j = Some e /\
    option_map (firstn (xlen m)) (nth_error (kicks s) j) = Some (calc_kick m (fst e) (snd e)).
  Proof.
    intros Hc Hj He s.
    destruct (modulation_records m len q0 g ops Hc) as [_ [_ [_ [Hu Hk]]]]. fold s in Hu, Hk.
    assert (Hf : nth_error (firstn (count_apply ops) q0) j = Some e).
    { rewrite nth_error_firstn_lt by exact Hj. exact He. }
    split; [rewrite Hu; exact Hf|].
    rewrite <- nth_error_map, Hk, nth_error_map, Hf. reflexivity.
  Qed.

  Theorem queue_never_underflows m len sync d noise steps g ops :
    (count_apply ops <= steps)%nat ->
    ub (run m ops (init m len (calc_modulation sync d noise steps) g)) = false.
  Proof.
    intros H. apply run_no_ub; [reflexivity|]. cbn [DynRF.init queue].
    rewrite calc_modulation_length. exact H.
  Qed.

  (** the schedule of main(): whatever the output cadence and wherever the loop stops
      (n executed steps, n <= laststep = queue length), the flushed chunks together are exactly
      the first n records, nothing stays pending, nothing underflows *)
  Theorem main_records m len q0 g outstep n :
    (n <= List.length q0)%nat ->
    let s := run m (main_ops outstep n) (init m len q0 g) in
    ub s = false /\ List.concat (flushed s) = firstn n q0 /\ past s = [] /\ queue s = skipn n q0.
  Proof.
    intros Hn s.
    assert (Hc : (count_apply (main_ops outstep n) <= List.length q0)%nat) by (rewrite count_apply_main; exact Hn).
    destruct (modulation_records m len q0 g _ Hc) as [Hub [H1 [H2 _]]].
    fold s in Hub, H1, H2. rewrite count_apply_main in H1, H2.
    assert (Hp : past s = []).
    { revert Hub. unfold s, main_ops. rewrite run_app.
      generalize (run m (flat_map (step_ops outstep) (seq 0 n)) (init m len q0 g)). intros t.
      cbn [DynRF.run fold_left]. unfold DynRF.exec. destruct (ub t) eqn:E; [|reflexivity].
      intros X. congruence. }
    rewrite Hp, app_nil_r in H1. auto.
  Qed.

  (** ** DESIGN 5/C19 (2): zero amplitudes *)
  Lemma zero_modulation sync d noise steps :
    phasenoise d = 0 -> amplnoise d = 0 -> modampl d = 0 ->
    calc_modulation sync d noise steps = repeat (sync, 1) steps.
  Proof.
    intros H1 H2 H3. unfold DynRF.calc_modulation. apply map_const_seq. intros i.
    unfold mod_entry. rewrite H1, H2, H3. f_equal; ring.
  Qed.

  Lemma zero_run m len sync1 ops : forall (s : st) j,
    sync1 = (syncphase m, 1) ->
    ub s = false -> offs s = static_offsets m len ->
    Forall (fun o => o = static_offsets m len) (kicks s) ->
    queue s = repeat sync1 j -> (count_apply ops <= j)%nat ->
    let s' := run m ops s in
    ub s' = false /\ offs s' = static_offsets m len /\
    Forall (fun o => o = static_offsets m len) (kicks s') /\
    grid s' = static_run m len ops (grid s).
  Proof.
    induction ops as [|o r IH]; intros s j Hs Hub Ho Hk Hq Hc; [cbn; auto|].
    rewrite run_cons. cbn zeta.
    assert (E : exec m o s =
                match o with
                | Apply => mkSt (static_offsets m len) (repeat sync1 (pred j)) (past s ++ [sync1])
                                (kickmap (static_offsets m len) (grid s)) (flushed s)
                                (kicks s ++ [static_offsets m len]) (used s ++ [sync1]) false
                | Flush => mkSt (offs s) (queue s) [] (grid s) (flushed s ++ [past s]) (kicks s) (used s) false
                end).
    { unfold DynRF.exec. rewrite Hub. destruct o; [|reflexivity].
      rewrite count_apply_cons_apply in Hc. destruct j as [|j]; [lia|].
      rewrite Hq. cbn [repeat pred]. rewrite Hs. cbn [fst snd]. rewrite Ho.
      unfold DynRF.static_offsets. rewrite write_prefix_idem. reflexivity. }
    rewrite E. destruct o.
    - rewrite count_apply_cons_apply in Hc.
      specialize (IH (mkSt (static_offsets m len) (repeat sync1 (pred j)) (past s ++ [sync1])
                           (kickmap (static_offsets m len) (grid s)) (flushed s)
                           (kicks s ++ [static_offsets m len]) (used s ++ [sync1]) false) (pred j) Hs).
      cbn [ub offs kicks queue grid] in IH.
      apply IH; auto; [|lia]. apply Forall_app. split; [exact Hk|]. constructor; auto.
    - rewrite count_apply_cons_flush in Hc.
      specialize (IH (mkSt (offs s) (queue s) [] (grid s) (flushed s ++ [past s]) (kicks s) (used s) false) j Hs).
      cbn [ub offs kicks queue grid] in IH. apply IH; auto.
  Qed.

  Theorem zero_amplitude_is_static m len d noise steps g ops :
    phasenoise d = 0 -> amplnoise d = 0 -> modampl d = 0 ->
    (count_apply ops <= steps)%nat ->
    let s := run m ops (init m len (calc_modulation (syncphase m) d noise steps) g) in
    ub s = false /\
    offs s = static_offsets m len /\
    Forall (fun o => o = static_offsets m len) (kicks s) /\
    grid s = static_run m len ops g.
  Proof.
    intros H1 H2 H3 Hc. rewrite (zero_modulation _ _ _ _ H1 H2 H3).
    exact (zero_run m len (syncphase m, 1) ops (init m len (repeat (syncphase m, 1) steps) g) steps
                    eq_refl eq_refl eq_refl (Forall_nil _) eq_refl Hc).
  Qed.

  (** ** DESIGN 5/C19 (4): pure sinusoidal modulation *)
  Theorem sinusoidal_modulation sync d noise steps k :
    phasenoise d = 0 -> amplnoise d = 0 -> (k < steps)%nat ->
    nth_error (calc_modulation sync d noise steps) k =
    Some (sync + modampl d * sin (modtimedelta d * fz (Z.of_nat k)), 1).
  Proof.
    intros H1 H2 Hk. unfold DynRF.calc_modulation. rewrite nth_error_map_seq by exact Hk.
    unfold mod_entry. rewrite H1, H2. f_equal. f_equal; ring.
  Qed.

  (** ** the members from the constructor arguments (generated initialisers) *)
  Variable fsqrt : K -> K.
  Variable two_pi : K.

  Lemma zero_div (x : K) : 0 / x = 0.
  Proof. rewrite (Fdiv_def (@Fth K)). ring. Qed.

  (* closes goals about the generated initialisers up to ring identities, so that harmless
     rewrites of the C++ arithmetic (commuted factors, x*(1/y) for x/y) do not break the proofs *)
  Ltac gen_arith H1 H2 H3 :=
    unfold dyncfg_linear, dyncfg_sinusoidal,
      dyn_linear_phasenoise, dyn_linear_amplnoise, dyn_linear_modampl, dyn_linear_modtimedelta,
      dyn_sinusoidal_phasenoise, dyn_sinusoidal_amplnoise, dyn_sinusoidal_modampl, dyn_sinusoidal_modtimedelta;
    cbn [phasenoise amplnoise modampl modtimedelta];
    rewrite ?H1, ?H2, ?H3; rewrite ?(Fdiv_def (@Fth K)); ring.

  Lemma dyncfg_zero_linear (env : string -> K) :
    env "phasespread"%string = 0 -> env "amplspread"%string = 0 -> env "modampl"%string = 0 ->
    let d := dyncfg_linear K fsqrt two_pi env in
    phasenoise d = 0 /\ amplnoise d = 0 /\ modampl d = 0.
  Proof. intros H1 H2 H3. cbn zeta. repeat split; gen_arith H1 H2 H3. Qed.

  Lemma dyncfg_zero_sinusoidal (env : string -> K) :
    env "phasespread"%string = 0 -> env "amplspread"%string = 0 -> env "modampl"%string = 0 ->
    let d := dyncfg_sinusoidal K fsqrt two_pi env in
    phasenoise d = 0 /\ amplnoise d = 0 /\ modampl d = 0.
  Proof. intros H1 H2 H3. cbn zeta. repeat split; gen_arith H1 H2 H3. Qed.

  (** zero spreads and zero modulation amplitude *as constructor arguments* *)
  Theorem zero_arguments_are_static (lin : bool) m len (env : string -> K) noise steps g ops :
    env "phasespread"%string = 0 -> env "amplspread"%string = 0 -> env "modampl"%string = 0 ->
    (count_apply ops <= steps)%nat ->
    let d := if lin then dyncfg_linear K fsqrt two_pi env else dyncfg_sinusoidal K fsqrt two_pi env in
    let s := run m ops (init m len (calc_modulation (syncphase m) d noise steps) g) in
    ub s = false /\
    offs s = static_offsets m len /\
    Forall (fun o => o = static_offsets m len) (kicks s) /\
    grid s = static_run m len ops g.
  Proof.
    intros H1 H2 H3 Hc. destruct lin.
    - destruct (dyncfg_zero_linear env H1 H2 H3) as [A [B C]]. apply zero_amplitude_is_static; auto.
    - destruct (dyncfg_zero_sinusoidal env H1 H2 H3) as [A [B C]]. apply zero_amplitude_is_static; auto.
  Qed.

  (** pure sinusoidal modulation in terms of the constructor arguments: amplitude `modampl`,
      phase advance per step `two_pi * modtimeincrement` *)
  Theorem sinusoidal_modulation_args (lin : bool) sync (env : string -> K) noise steps k :
    env "phasespread"%string = 0 -> env "amplspread"%string = 0 -> (k < steps)%nat ->
    let d := if lin then dyncfg_linear K fsqrt two_pi env else dyncfg_sinusoidal K fsqrt two_pi env in
    nth_error (calc_modulation sync d noise steps) k =
    Some (sync + env "modampl"%string * sin (two_pi * env "modtimeincrement"%string * fz (Z.of_nat k)), 1).
  Proof.
    intros H1 H2 Hk d.
    assert (Hp : phasenoise d = 0) by (unfold d; destruct lin; gen_arith H1 H2 H1).
    assert (Ha : amplnoise d = 0) by (unfold d; destruct lin; gen_arith H1 H2 H1).
    assert (Hm : modampl d = env "modampl"%string) by (unfold d; destruct lin; gen_arith H1 H2 H1).
    assert (Ht : modtimedelta d * fz (Z.of_nat k) = two_pi * env "modtimeincrement"%string * fz (Z.of_nat k))
      by (unfold d; destruct lin; gen_arith H1 H2 H1).
    rewrite (sinusoidal_modulation sync d noise steps k Hp Ha Hk), Hm, Ht. reflexivity.
  Qed.
End DynRFP.
