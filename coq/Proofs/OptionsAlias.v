(** C20, second wave: the designed two-parse form of "legacy names act exactly like the current names".
    [rename_items al ci] is the config file [ci] with every legacy name replaced by its current name.
    For every table/program accepted by the checker: if both the invocation with the original file(s)
    and the invocation with the renamed file(s) run, every member bound to a current option holds the
    same tokens - provided no option is given under both its legacy and its current name in the file
    that is loaded (the statement is about a file that uses the legacy name *instead of* the current one;
    with both, the current name wins in the original and the renamed file repeats a scalar). *)
From Coq Require Import List String ZArith Bool.
From Inovesa Require Import Model.OptionsTypes Model.Options Proofs.OptionsP Proofs.OptionsThm.
Import ListNotations.
Local Open Scope list_scope.

Definition rename1 (al : list (string * string)) (n : string) : string :=
  match find (fun ac => String.eqb (fst ac) n) al with Some ac => snd ac | None => n end.
Definition rename_items (al : list (string * string)) (ci : list item) : list item :=
  map (fun it => (rename1 al (fst it), snd it)) ci.
Definition rename_fsent (al : list (string * string)) (f : fsent) : fsent :=
  match f with FFile ci => FFile (rename_items al ci) | x => x end.

Lemma NoDup_app_l {A} (l1 l2 : list A) : NoDup (l1 ++ l2) -> NoDup l1.
Proof.
  induction l1 as [|a r IH]; intro N; [constructor|]. cbn in N. inversion N as [|? ? Hn N']; subst.
  constructor; [|auto]. intro X. apply Hn. apply in_or_app. auto.
Qed.

Lemma NoDup_app_r {A} (l1 l2 : list A) : NoDup (l1 ++ l2) -> NoDup l2.
Proof. induction l1 as [|a r IH]; intro N; [assumption|]. cbn in N. inversion N; auto. Qed.

Lemma orb_swap4 a b c d : (a || b) || (c || d) = (a || c) || (b || d).
Proof. destruct a, b, c, d; reflexivity. Qed.

Section Rename.
  Variable al : list (string * string).
  Hypothesis NDal : NoDup (map fst al ++ map snd al).

  Lemma fst_unique a c c' : In (a, c) al -> In (a, c') al -> c = c'.
  Proof.
    pose proof (NoDup_app_l _ _ NDal) as N. clear NDal. induction al as [|[a1 c1] r IH]; intros I1 I2; [contradiction|].
    cbn in N. inversion N as [|? ? Hn N']; subst. destruct I1 as [E1|I1]; destruct I2 as [E2|I2].
    - congruence.
    - injection E1 as -> ->. exfalso. apply Hn. change a with (fst (a, c')). now apply in_map.
    - injection E2 as -> ->. exfalso. apply Hn. change a with (fst (a, c)). now apply in_map.
    - auto.
  Qed.

  Lemma snd_unique a a' c : In (a, c) al -> In (a', c) al -> a = a'.
  Proof.
    pose proof (NoDup_app_r _ _ NDal) as N. clear NDal. induction al as [|[a1 c1] r IH]; intros I1 I2; [contradiction|].
    cbn in N. inversion N as [|? ? Hn N']; subst. destruct I1 as [E1|I1]; destruct I2 as [E2|I2].
    - congruence.
    - injection E1 as -> ->. exfalso. apply Hn. change c with (snd (a', c)). now apply in_map.
    - injection E2 as -> ->. exfalso. apply Hn. change c with (snd (a, c)). now apply in_map.
    - auto.
  Qed.

  Lemma rename1_cases n :
    (rename1 al n = n /\ ~ In n (map fst al)) \/ In (n, rename1 al n) al.
  Proof.
    unfold rename1. destruct (find _ al) as [[a c]|] eqn:F.
    - right. apply find_some in F as [F1 F2]. cbn in F2. apply String.eqb_eq in F2. now subst.
    - left. split; [reflexivity|]. intro X. apply in_map_iff in X as ([a c] & E & I). cbn in E. subst a.
      pose proof (find_none _ _ F _ I) as Z. cbn in Z. now rewrite String.eqb_refl in Z.
  Qed.

  Lemma rename1_alias a c : In (a, c) al -> rename1 al a = c.
  Proof.
    intro I. destruct (rename1_cases a) as [[_ N]|I'].
    - exfalso. apply N. change a with (fst (a, c)). now apply in_map.
    - eapply fst_unique; eauto.
  Qed.

  Lemma rename1_other n : ~ In n (map fst al) -> rename1 al n = n.
  Proof.
    intro N. destruct (rename1_cases n) as [[E _]|I]; [assumption|].
    exfalso. apply N. change n with (fst (n, rename1 al n)). now apply in_map.
  Qed.

  (** names that become the current name [c] of the pair (a, c) *)
  Lemma rename1_eqb_alias a c m : In (a, c) al ->
    String.eqb (rename1 al m) c = String.eqb m c || String.eqb m a.
  Proof.
    intro I. destruct (al_disjoint al NDal a c I) as [_ Nc].
    destruct (String.eqb m c) eqn:E1.
    - apply String.eqb_eq in E1. subst m. rewrite (rename1_other c Nc). apply String.eqb_refl.
    - destruct (String.eqb m a) eqn:E2.
      + apply String.eqb_eq in E2. subst m. rewrite (rename1_alias a c I). apply String.eqb_refl.
      + cbn. apply String.eqb_neq. intro X. destruct (rename1_cases m) as [[E _]|I'].
        * rewrite E in X. subst m. now rewrite String.eqb_refl in E1.
        * rewrite X in I'. rewrite (snd_unique m a c I' I) in E2. now rewrite String.eqb_refl in E2.
  Qed.

  (** a name that is neither a legacy name nor the target of one is the image of itself only *)
  Lemma rename1_eqb_plain c m : ~ In c (map fst al) -> ~ In c (map snd al) ->
    String.eqb (rename1 al m) c = String.eqb m c.
  Proof.
    intros Nf Ns. destruct (String.eqb m c) eqn:E1.
    - apply String.eqb_eq in E1. subst m. rewrite (rename1_other c Nf). apply String.eqb_refl.
    - apply String.eqb_neq. intro X. destruct (rename1_cases m) as [[E _]|I'].
      + rewrite E in X. subst m. now rewrite String.eqb_refl in E1.
      + rewrite X in I'. apply Ns. change c with (snd (m, c)). now apply in_map.
  Qed.

  (** no line of the renamed file carries a legacy name *)
  Lemma rename1_not_alias a c m : In (a, c) al -> String.eqb (rename1 al m) a = false.
  Proof.
    intro I. destruct (al_disjoint al NDal a c I) as [Na _].
    apply String.eqb_neq. intro X. destruct (rename1_cases m) as [[E N]|I'].
    - rewrite E in X. subst m. apply N. change a with (fst (a, c)). now apply in_map.
    - rewrite X in I'. apply Na. change a with (snd (m, a)). now apply in_map.
  Qed.
End Rename.

Section AliasEq.
  Variable T : list opt.
  Variable wf : cty -> tok -> bool.
  Notation find_opt := (find_opt T).

  Definition raw (n : string) (ci : list item) : list tok :=
    flat_map (fun it : item => if String.eqb (fst it) n then snd it else []) ci.

  Lemma collect_raw n o ci : find_opt n = Some o -> collect T false n ci = raw n ci.
  Proof. exact (collect_file_raw T n o ci). Qed.

  Lemma occurs_false_eqb n (ci : list item) : occurs n ci = false -> forall it, In it ci -> String.eqb (fst it) n = false.
  Proof.
    intros O it I. apply not_true_is_false. intro X.
    assert (Z : occurs n ci = true) by (unfold occurs; apply existsb_exists; eauto).
    congruence.
  Qed.

  Section WithAl.
    Variable al : list (string * string).
    Hypothesis NDal : NoDup (map fst al ++ map snd al).

    Lemma occurs_rename_alias a c ci : In (a, c) al ->
      occurs c (rename_items al ci) = occurs c ci || occurs a ci.
    Proof.
      intro I. unfold occurs, rename_items. induction ci as [|it r IH]; [reflexivity|].
      cbn [map existsb fst]. rewrite IH, (rename1_eqb_alias al NDal a c (fst it) I).
      apply orb_swap4.
    Qed.

    Lemma raw_rename_alias a c ci : In (a, c) al ->
      raw c (rename_items al ci)
      = flat_map (fun it : item => if String.eqb (fst it) c || String.eqb (fst it) a then snd it else []) ci.
    Proof.
      intro I. unfold raw, rename_items. induction ci as [|it r IH]; [reflexivity|].
      cbn [map flat_map fst snd]. now rewrite IH, (rename1_eqb_alias al NDal a c (fst it) I).
    Qed.

    Lemma occurs_rename_legacy a c ci : In (a, c) al -> occurs a (rename_items al ci) = false.
    Proof.
      intro I. unfold occurs, rename_items. induction ci as [|it r IH]; [reflexivity|].
      cbn [map existsb fst]. now rewrite IH, (rename1_not_alias al NDal a c (fst it) I).
    Qed.

    Lemma occurs_rename_plain c ci : ~ In c (map fst al) -> ~ In c (map snd al) ->
      occurs c (rename_items al ci) = occurs c ci.
    Proof.
      intros Nf Ns. unfold occurs, rename_items. induction ci as [|it r IH]; [reflexivity|].
      cbn [map existsb fst]. now rewrite IH, (rename1_eqb_plain al c (fst it) Nf Ns).
    Qed.

    Lemma raw_rename_plain c ci : ~ In c (map fst al) -> ~ In c (map snd al) ->
      raw c (rename_items al ci) = raw c ci.
    Proof.
      intros Nf Ns. unfold raw, rename_items. induction ci as [|it r IH]; [reflexivity|].
      cbn [map flat_map fst snd]. now rewrite IH, (rename1_eqb_plain al c (fst it) Nf Ns).
    Qed.

    Lemma flat_map_ext_in {A B} (f g : A -> list B) l : (forall x, In x l -> f x = g x) -> flat_map f l = flat_map g l.
    Proof.
      induction l as [|a r IH]; intro H; [reflexivity|]. cbn. rewrite (H a (or_introl eq_refl)), IH; [reflexivity|].
      intros; apply H; cbn; auto.
    Qed.

    Hypothesis ND : NoDup (map o_name T).
    Hypothesis ALok : forall ac, In ac al -> alias_ok T ac = true.
    Hypothesis CANok : forall o, In o T -> canon_ok T al o = true.

    (** the specification does not see the renaming *)
    Lemma spec_rename items ci o :
      In o T -> is_canon o = true -> typed o = true ->
      (forall a c, In (a, c) al -> occurs a ci = true -> occurs c ci = false) ->
      spec_value T al items (rename_items al ci) o = spec_value T al items ci o.
    Proof.
      intros Io Co To NB. destruct (canon_facts T al CANok o Io Co To) as (_ & _ & _ & NF).
      pose proof (find_opt_unique T o ND Io) as Fo.
      unfold spec_value. cbv zeta. destruct (occurs (o_name o) items); [reflexivity|].
      rewrite !(collect_raw (o_name o) o _ Fo).
      destruct (alias_of al (o_name o)) as [a|] eqn:AO.
      - apply alias_of_in in AO.
        pose proof (ALok _ AO) as A. unfold alias_ok in A. cbn [fst snd] in A.
        destruct (find_opt a) as [oa|] eqn:Fa; [|discriminate]. clear A.
        rewrite (occurs_rename_alias a (o_name o) ci AO), (occurs_rename_legacy a (o_name o) ci AO),
          (raw_rename_alias a (o_name o) ci AO).
        destruct (occurs (o_name o) ci) eqn:Oc; cbn [orb].
        + (* current name in the file: then the legacy name is not *)
          assert (Oa : occurs a ci = false).
          { destruct (occurs a ci) eqn:Oa; [|reflexivity]. rewrite (NB a (o_name o) AO Oa) in Oc. discriminate. }
          f_equal. apply flat_map_ext_in. intros it I. rewrite (occurs_false_eqb a ci Oa it I). now rewrite orb_false_r.
        + destruct (occurs a ci) eqn:Oa; [|reflexivity].
          rewrite (collect_raw a oa _ Fa). f_equal. apply flat_map_ext_in. intros it I.
          now rewrite (occurs_false_eqb (o_name o) ci Oc it I).
      - apply alias_of_none in AO.
        now rewrite (occurs_rename_plain (o_name o) ci NF AO), (raw_rename_plain (o_name o) ci NF AO).
    Qed.
  End WithAl.

  Lemma loaded_rename P items fs fs' dflt dflt' :
    (forall t, fs' t = rename_fsent (prog_aliases P) (fs t)) -> dflt' = rename_fsent (prog_aliases P) dflt ->
    loaded T P items fs' dflt' = rename_items (prog_aliases P) (loaded T P items fs dflt).
  Proof.
    intros Hfs ->. unfold loaded, source. destruct (cfg_given T P items) as [[|t [|]]|]; cbn [fst];
      try (now destruct dflt). rewrite Hfs. now destruct (fs t).
  Qed.

  (** * C20.2 a config file with legacy names == the same file with the current names *)
  Theorem alias_equiv_thm P cli fs fs' dflt dflt' s s' :
    checker T P = true ->
    (forall t, fs' t = rename_fsent (prog_aliases P) (fs t)) -> dflt' = rename_fsent (prog_aliases P) dflt ->
    parse T wf P cli fs dflt = Run s -> parse T wf P cli fs' dflt' = Run s' ->
    (forall items a c, resolve_all T cli = Some items -> In (a, c) (prog_aliases P) ->
       occurs a (loaded T P items fs dflt) = true -> occurs c (loaded T P items fs dflt) = false) ->
    forall o, In o T -> is_canon o = true -> typed o = true ->
      s_vars s' (o_var o) = s_vars s (o_var o).
  Proof.
    intros CK Hfs Hd H H' NB o Io Co To.
    destruct (precedence_thm T wf P cli fs dflt s CK H) as (items & RA & PV).
    destruct (precedence_thm T wf P cli fs' dflt' s' CK H') as (items' & RA' & PV').
    rewrite RA in RA'. injection RA' as <-.
    rewrite (PV o Io Co To), (PV' o Io Co To), (loaded_rename P items fs fs' dflt dflt' Hfs Hd).
    destruct (checker_facts T P CK) as (al & SH & ND & NDal & ALok & CANok & _).
    destruct (prog_shape_some _ _ SH) as [PC PF].
    assert (PA : prog_aliases P = al) by (unfold prog_aliases; now rewrite PF).
    rewrite PA in *.
    apply (spec_rename al NDal ND ALok CANok items _ o Io Co To).
    intros a c I. exact (NB items a c RA I).
  Qed.
End AliasEq.
