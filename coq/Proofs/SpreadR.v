(** * C04: order statements for the 3-point Fokker-Planck step over the real numbers
    (instance [RF] of the generic theorems of SpreadP.v; every float is a real). *)
From Coq Require Import Reals Lra Psatz ZArith Lia.
From Inovesa Require Import Base.FieldKit Base.RInst Base.Sums Gen.Gen_FPStencil Model.FokkerPlanck
  Proofs.FPGridP Proofs.FokkerPlanckP Proofs.FPMomentsP Proofs.SpreadP.
Local Open Scope R_scope.

Ltac runf := cbv [fadd fmul fsub fopp fdiv finv f0 f1 car RF two opt] in *.

Section R.
  Variables (e1 delta : R) (p : Z -> R) (v n le m : Z).
  Notation S0r := (S0 RF n). Notation S2r := (S2 RF p n).
  Notation next := (fp3_next RF e1 delta p v n le m).
  Notation iter := (fp3_iter RF e1 delta p v n le m).
  Notation hypR := (hyp RF delta p n).
  Notation interiorR := (interior RF n).
  Notation sig := (sigma_inf RF delta v).

  Lemma kpow_pow x k : kpow RF x k = x ^ k.
  Proof. induction k as [|k IH]; cbn [kpow pow]; runf; [reflexivity|rewrite IH; reflexivity]. Qed.

  (** distance of the second energy moment to its equilibrium value sigma_inf * M0 *)
  Definition dist (r : Z -> R) : R := S2r r - sig * S0r r.

  Lemma dist_step r : hypR -> interiorR r -> has_damp v = true -> dist (next r) = (1 - 2 * e1) * dist r.
  Proof.
    intros Hh Hs Hv.
    pose proof (spread_closed_form RF e1 delta p v n le m 1 Hh Hv r) as W.
    cbn [fp3_iter kpow] in W. unfold dist.
    assert (E0 : S0r (next r) = S0r r) by (apply (next_moments RF e1 delta p v n le m r Hh Hs)).
    specialize (W (fun j Hj => ltac:(assert (j = 0)%nat by lia; subst j; exact Hs))).
    runf. rewrite E0. lra.
  Qed.

  (** damping and diffusion: monotone approach from either side, never overshooting, for 0 < e1 < 1/2 *)
  Lemma full_monotone r : hypR -> interiorR r -> has_damp v = true -> 0 < e1 < 1 / 2 ->
    (0 < dist r -> 0 < dist (next r) < dist r) /\
    (dist r < 0 -> dist r < dist (next r) < 0) /\
    (dist r = 0 -> dist (next r) = 0).
  Proof. intros Hh Hs Hv He. rewrite (dist_step r Hh Hs Hv). repeat split; intros; nra. Qed.

  (** geometric convergence, uniformly in the initial distribution *)
  Lemma full_converges : hypR -> has_damp v = true -> 0 < e1 < 1 / 2 ->
    forall eps, 0 < eps -> exists N : nat, forall k r, (k >= N)%nat ->
      (forall j, (j < k)%nat -> interiorR (iter j r)) ->
      Rabs (dist (iter k r)) <= eps * Rabs (dist r).
  Proof.
    intros Hh Hv He eps Heps.
    destruct (pow_lt_1_zero (1 - 2 * e1)) with (y := eps) as [N HN]; [rewrite Rabs_pos_eq; lra|exact Heps|].
    exists N. intros k r Hk Hs.
    pose proof (spread_closed_form RF e1 delta p v n le m k Hh Hv r Hs) as W.
    assert (E0 : S0r (iter k r) = S0r r) by (apply (iter_moments01 RF e1 delta p v n le m k Hh r Hs)).
    unfold dist. rewrite E0. rewrite kpow_pow in W. runf. rewrite W. rewrite Rabs_mult.
    apply Rmult_le_compat_r; [apply Rabs_pos|]. left. apply HN. exact Hk.
  Qed.

  (** damping only: the second moment strictly decreases (positive charge, non-negative second moment) *)
  Lemma damping_only_decreases r : hypR -> interiorR r -> has_damp v = true -> has_diff v = false ->
    0 < e1 -> 0 < S0r r -> 0 <= S2r r -> S2r (next r) < S2r r.
  Proof.
    intros Hh Hs Hv Hf He H0 H2.
    destruct (next_moments RF e1 delta p v n le m r Hh Hs) as (_ & _ & E2).
    rewrite Hv, Hf in E2. destruct Hh as (_ & _ & Hd). runf. rewrite E2.
    assert (P0 : 0 < delta * delta) by (destruct (Rtotal_order delta 0) as [A|[A|A]]; [nra|contradiction|nra]).
    assert (P1 : 0 < e1 * (delta * delta)) by (apply Rmult_lt_0_compat; assumption).
    pose proof (Rmult_lt_0_compat _ _ P1 H0) as P2.
    pose proof (Rmult_le_pos _ _ (Rlt_le _ _ He) H2) as P3.
    lra.
  Qed.

  (** diffusion only: strictly increases *)
  Lemma diffusion_only_increases r : hypR -> interiorR r -> has_damp v = false -> has_diff v = true ->
    0 < e1 -> 0 < S0r r -> S2r r < S2r (next r).
  Proof.
    intros Hh Hs Hv Hf He H0.
    destruct (next_moments RF e1 delta p v n le m r Hh Hs) as (_ & _ & E2).
    rewrite Hv, Hf in E2. runf. rewrite E2. nra.
  Qed.
End R.
