(** * C06 / C07 / C18 for the programs generated from the current source.

    Composition of the three ties:
    generated program  =  hand model of the operations        (Proofs/EFieldGenP.v, every [env])
    hand model at the DFT instance  =  function-level model   (Proofs/EFieldDFTP.v)
    function-level model: convolution / Parseval / signs       (Proofs/DFTP.v, DFTThm.v, CSRP.v)
    A field object is described by a record [fobj] (sizes, bucket list, twiddle table, impedance,
    constants); [run_gen P h] runs a whole history of wakePotential / padBunchProfiles / updateCSR
    calls through the generated programs on a fresh object. *)
From Coq Require Import List ZArith Bool Lia Ring Field QArith Qcanon Reals Lra.
From Inovesa Require Import Base.FieldKit Base.Sums Base.RInst Model.DFT Model.EField Model.EFieldProg Gen.Gen_EField
  Proofs.DFTP Proofs.CSRP Proofs.DFTThm Proofs.EFieldP Proofs.EFieldProgP Proofs.EFieldGenP Proofs.EFieldDFTP.
Import ListNotations.
Local Open Scope Z_scope.

(** the model's rule for the cutoff: the factor is applied iff cutoff_frequency > 0 (zero and negative
    values mean "disabled") *)
Definition cut_active (c : comparison) : bool := match c with Gt => true | _ => false end.

Theorem gen_csr_cut_on_is_model : forall c, gen_csr_cut_on c = cut_active c.
Proof. intros c. destruct c; reflexivity. Qed.

Record fobj (K : Fld) := Fobj {
  oN : Z; ocs : Z -> K; osn : Z -> K;          (* _nmax and the twiddle table of that length *)
  on : Z; ospc : Z; obks : list Z;             (* PhaseSpace::nx, _spacing_bins, _bucket *)
  oZ : Z -> cplx K; oscale : K;                (* impedance, _wakescaling *)
  odq2 : K; odf : K; ohertz : K; ofax : Z -> K;  (* _formfactorrenorm, _axis_freq.delta(), .scale("Hertz"), _axis_freq[i] *)
  oexp : K -> K; osgn : K -> comparison;       (* std::exp; the sign of a cutoff frequency *)
  oclob : list (cplx K) -> list (cplx K) }.    (* what FFTW's c2r leaves in its input *)
Arguments oN {K}. Arguments ocs {K}. Arguments osn {K}. Arguments on {K}. Arguments ospc {K}. Arguments obks {K}.
Arguments oZ {K}. Arguments oscale {K}. Arguments odq2 {K}. Arguments odf {K}. Arguments ohertz {K}.
Arguments ofax {K}. Arguments oexp {K}. Arguments osgn {K}. Arguments oclob {K}.

Section Tie.
  Variable K : Fld.
  Add Field KFt : (@Fth K).
  Variable P : fobj K.

  Definition E_of : env K (cplx K) :=
    E_dft K (oN P) (ocs P) (osn P) (on P) (ospc P) (obks P) (oZ P) (oscale P) (odq2 P) (odf P) (ohertz P)
          (ofax P) (oexp P) (osgn P) (oclob P).
  Definition kcsr_gen : K -> Z -> Z -> cplx K -> K :=
    dft_kcsr K (oZ P) (odq2 P) (ohertz P) (ofax P) (oexp P) (osgn P).

  (** a history run through the generated programs on a fresh object *)
  Definition run_gen (h : list (op K)) : state K (cplx K) :=
    prog_run E_of kcsr_gen gen_pad_prog gen_wake_prog gen_csr_prog h (fresh E_of).

  Definition train (p : Z -> K) : list (Z * (Z -> K)) := bunches K (on P) (obks P) p.
  Definition alone (p : Z -> K) (b : Z) : Z -> K := CsrBuf K (oN P) (on P) p b.
  Definition cutopt (cut : K) : option (Z -> K) := cut_opt K (ohertz P) (ofax P) (oexp P) (osgn P) cut.

  Hypothesis N2 : 2 <= oN P.
  Hypothesis HB : hypB E_of.
  (** the sign function is a sign function: "greater than zero" is not zero *)
  Hypothesis sgn_gt : forall c : K, osgn P c = Gt -> c <> f0.

  Let HN : 0 <= oN P. Proof. lia. Qed.
  Let Hrz : rz E_of = true. Proof. reflexivity. Qed.
  Let HNe : 0 <= nmax E_of. Proof. exact HN. Qed.

  Lemma cut_on_nz cut : gen_csr_cut_on (osgn P cut) = true -> cut <> f0.
  Proof.
    rewrite gen_csr_cut_on_is_model. intros H. apply sgn_gt. destruct (osgn P cut); try discriminate H. reflexivity.
  Qed.

  Lemma run_gen_steq h : steq (run_gen h) (run E_of h (fresh E_of)).
  Proof.
    unfold run_gen. apply gen_run_is_model; try assumption.
    - intros cut i x. apply dft_kcsr_diag.
    - apply steq_refl.
  Qed.

  Lemma run_inv h : Inv E_of (run E_of h (fresh E_of)).
  Proof. apply inv_run; [exact HB|exact HNe|apply inv_fresh]. Qed.

  Lemma run_snoc h o : run E_of (h ++ [o]) (fresh E_of) = step E_of o (run E_of h (fresh E_of)).
  Proof. unfold run. rewrite fold_left_app. reflexivity. Qed.

  (** ** C06: after ANY history the wake of bunch b at cell x is the model's [wake_model] of the
      current padded train ... *)
  Theorem gen_wake_is_wake_model h p (b : nat) x :
    (b < length (obks P))%nat -> 0 <= x < on P -> 0 <= nth b (obks P) 0 * ospc P + x < oN P ->
    exists stale, fresh_top K (oN P) stale /\
      wake (run_gen (h ++ [Wake p])) (Z.of_nat b * on P + x)
      = wake_model (oN P) (ocs P) (osn P) (on P) (ospc P) (oZ P) stale (fun _ => f0) (train p) (oscale P)
                   (nth b (obks P) 0) x.
  Proof.
    intros Hb Hx Hin. exists (wl (run E_of h (fresh E_of))). split.
    - destruct (run_inv h) as (_ & H & _). exact H.
    - pose proof (run_gen_steq (h ++ [Wake p])) as (_ & _ & _ & _ & Hw & _). rewrite Hw. rewrite run_snoc.
      cbn [step]. unfold E_of; apply dft_wake_cell; try assumption; exact cut_on_nz.
  Qed.

  (** ... hence the convolution of the bunch profiles with the kernel made of the lower half of the impedance *)
  Theorem gen_wake_is_convolution (L : twiddle_laws K (ocs P) (osn P)) h p (b : nat) x :
    (b < length (obks P))%nat -> 0 <= x < on P -> 0 <= nth b (obks P) 0 * ospc P + x < oN P ->
    disjoint_wins (on P) (ospc P) (train p) -> in_buffer K (oN P) (on P) (ospc P) (train p) ->
    wake (run_gen (h ++ [Wake p])) (Z.of_nat b * on P + x)
    = (oscale P * fsum (map (fun b' => sumZ 0%Z (Z.to_nat (on P))
          (fun x' => snd b' x' * kernel K (oN P) (ocs P) (osn P) (oZ P) ((nth b (obks P) 0%Z - fst b') * ospc P + x - x')%Z))
          (train p)))%F.
  Proof.
    intros Hb Hx Hin Hd Hbuf. destruct (gen_wake_is_wake_model h p b x Hb Hx Hin) as (stale & Hst & ->).
    apply t_wake_model_train; try assumption. lia.
  Qed.

  (** the padded buffer after wakePotential() is the zero-padded train, whatever came before *)
  Theorem gen_wake_padded_train h p u : 0 <= u < oN P ->
    bp (run_gen (h ++ [Wake p])) u = padded (oN P) (on P) (ospc P) (train p) (fun _ => f0) u.
  Proof.
    intros Hu. pose proof (run_gen_steq (h ++ [Wake p])) as (Hbp & _). rewrite Hbp, run_snoc. cbn [step].
    unfold E_of; apply dft_wake_bp; try assumption; exact cut_on_nz.
  Qed.

  (** ** C07 for several bunches on one object: after ANY history, row b of the spectrum and entry b of
      the power are those of bunch b ALONE (the buffer is cleared before each bunch is copied) *)
  Theorem gen_csr_row h cut p (b : nat) i : (b < length (obks P))%nat -> 0 <= i < oN P ->
    csr (run_gen (h ++ [CSR cut p])) (Z.of_nat b * oN P + i)
    = csr_spectrum (oN P) (ocs P) (osn P) (odq2 P) (cutopt cut) (oZ P) (alone p (Z.of_nat b)) i.
  Proof.
    intros Hb Hi. pose proof (run_gen_steq (h ++ [CSR cut p])) as (_ & _ & _ & _ & _ & Hc & _). rewrite Hc, run_snoc.
    cbn [step]. destruct (run_inv h) as (Hup & _).
    unfold E_of; apply dft_csr_row; try assumption; exact cut_on_nz.
  Qed.

  Theorem gen_csr_power h cut p (b : nat) : (b < length (obks P))%nat ->
    csri (run_gen (h ++ [CSR cut p])) (Z.of_nat b)
    = csr_power (oN P) (ocs P) (osn P) (odf P) (odq2 P) (cutopt cut) (oZ P) (alone p (Z.of_nat b)).
  Proof.
    intros Hb. pose proof (run_gen_steq (h ++ [CSR cut p])) as (_ & _ & _ & _ & _ & _ & Hc). rewrite Hc, run_snoc.
    cbn [step]. destruct (run_inv h) as (Hup & _).
    unfold E_of; apply dft_csr_power; try assumption; exact cut_on_nz.
  Qed.

  (** power entry b = delta_f * sum of the bunch's OWN spectrum row (no carry-over between bunches) *)
  Theorem gen_csr_power_is_row_sum h cut p (b : nat) : (b < length (obks P))%nat ->
    csri (run_gen (h ++ [CSR cut p])) (Z.of_nat b)
    = sumZ 0 (Z.to_nat (oN P)) (fun i => (odf P * csr (run_gen (h ++ [CSR cut p])) (Z.of_nat b * oN P + i)%Z)%F).
  Proof.
    intros Hb. rewrite gen_csr_power by exact Hb. unfold csr_power, nN. apply sumZ_ext. intros i Hi.
    rewrite gen_csr_row by (try exact Hb; lia). reflexivity.
  Qed.

  (** Parseval per bunch, cutoff not active: exactly the zero-frequency term and the top cell are exempt *)
  Theorem gen_csr_parseval_per_bunch (L : twiddle_laws K (ocs P) (osn P)) h cut p (b : nat) stale :
    (b < length (obks P))%nat -> cut_active (osgn P cut) = false ->
    fresh_top K (oN P) stale -> odf P <> f0 -> odq2 P <> f0 ->
    (csri (run_gen (h ++ [CSR cut p])) (Z.of_nat b) / (odf P * odq2 P)
     - wake_loss K (oN P) (ocs P) (osn P) (oZ P) stale (alone p (Z.of_nat b)) / two
     = fst (oZ P 0%Z) * cnorm (formfactor (oN P) (ocs P) (osn P) (alone p (Z.of_nat b)) 0%Z) / two
       + fst (oZ P (oN P / 2)%Z) * cnorm (formfactor (oN P) (ocs P) (osn P) (alone p (Z.of_nat b)) (oN P / 2)%Z))%F.
  Proof.
    intros Hb Hoff Hst Hdf Hdq. rewrite gen_csr_power by exact Hb.
    unfold cutopt, cut_opt. rewrite gen_csr_cut_on_is_model, Hoff.
    apply t_csr_equals_wake_loss; assumption.
  Qed.
End Tie.

(** ** signs per bunch, at the two ordered instances *)
Theorem gen_csr_nonneg_Qc (P : fobj QcF) :
  2 <= oN P -> hypB (E_of QcF P) -> (forall c : QcF, osgn P c = Gt -> c <> 0%Qc) ->
  nnQc (odf P) -> nnQc (odq2 P) -> passive QcF nnQc (oN P) (oZ P) ->
  forall h cut p (b : nat), (b < length (obks P))%nat ->
    cut_nn QcF nnQc (cutopt QcF P cut) ->
    (forall i, 0 <= i < oN P -> nnQc (csr (run_gen QcF P (h ++ [CSR cut p])) (Z.of_nat b * oN P + i)))
    /\ nnQc (csri (run_gen QcF P (h ++ [CSR cut p])) (Z.of_nat b)).
Proof.
  intros N2 HB Hs Hdf Hdq Hz h cut p b Hb Hc. split.
  - intros i Hi. rewrite gen_csr_row by assumption. apply csr_spectrum_nonneg_Qc; try assumption. apply Hz. exact Hi.
  - rewrite gen_csr_power by assumption. apply csr_power_nonneg_Qc; assumption.
Qed.

(** over the reals with [exp]: the cutoff factor the generated kernel applies is non-negative by itself *)
Definition sgnR (c : R) : comparison :=
  match total_order_T c 0 with inleft (left _) => Lt | inleft (right _) => Eq | inright _ => Gt end.
Lemma sgnR_gt (c : RF) : sgnR c = Gt -> c <> 0%R.
Proof. unfold sgnR. destruct (total_order_T c 0) as [[H|H]|H]; intros E; try discriminate E. intros E0. rewrite E0 in H. lra. Qed.
Lemma sgnR_pos (c : R) : (0 < c)%R -> sgnR c = Gt.
Proof. unfold sgnR. intros Hc. destruct (total_order_T c 0) as [[H|H]|H]; try reflexivity; exfalso; lra. Qed.
Lemma sgnR_nonpos (c : R) : (c <= 0)%R -> cut_active (sgnR c) = false.
Proof. unfold sgnR. intros Hc. destruct (total_order_T c 0) as [[H|H]|H]; try reflexivity. exfalso; lra. Qed.

Theorem gen_csr_nonneg_R (P : fobj RF) :
  oexp P = exp -> osgn P = sgnR ->
  2 <= oN P -> hypB (E_of RF P) ->
  nnR (odf P) -> nnR (odq2 P) -> passive RF nnR (oN P) (oZ P) ->
  forall h cut p (b : nat), (b < length (obks P))%nat ->
    (forall i, 0 <= i < oN P -> nnR (csr (run_gen RF P (h ++ [CSR cut p])) (Z.of_nat b * oN P + i)))
    /\ nnR (csri (run_gen RF P (h ++ [CSR cut p])) (Z.of_nat b)).
Proof.
  intros He Hsg N2 HB Hdf Hdq Hz h cut p b Hb.
  assert (Hs : forall c : RF, osgn P c = Gt -> c <> 0%R) by (rewrite Hsg; exact sgnR_gt).
  assert (Hc : cut_nn RF nnR (cutopt RF P cut)).
  { unfold cutopt, cut_opt. destruct (gen_csr_cut_on (osgn P cut)); [|exact I].
    intros i. unfold cut_g, nnR. rewrite He.
    exact (proj1 (cutoff_factor_range (ohertz P * ofax P i / cut)%F)). }
  split.
  - intros i Hi. rewrite gen_csr_row by assumption. apply csr_spectrum_nonneg_R; try assumption. apply Hz. exact Hi.
  - rewrite gen_csr_power by assumption. apply csr_power_nonneg_R; assumption.
Qed.

(** with the cutoff active (cutoff_frequency > 0) each bunch's power is smaller and still non-negative *)
Theorem gen_csr_cutoff_smaller_R (P : fobj RF) :
  oexp P = exp -> osgn P = sgnR ->
  2 <= oN P -> hypB (E_of RF P) ->
  nnR (odf P) -> nnR (odq2 P) -> passive RF nnR (oN P) (oZ P) ->
  forall h h' cut cut0 p (b : nat), (b < length (obks P))%nat ->
    (0 < cut)%R -> (cut0 <= 0)%R ->
    (0 <= csri (run_gen RF P (h ++ [CSR cut p])) (Z.of_nat b)
       <= csri (run_gen RF P (h' ++ [CSR cut0 p])) (Z.of_nat b))%R.
Proof.
  intros He Hsg N2 HB Hdf Hdq Hz h h' cut cut0 p b Hb Hpos Hneg.
  assert (Hs : forall c : RF, osgn P c = Gt -> c <> 0%R) by (rewrite Hsg; exact sgnR_gt).
  rewrite !gen_csr_power by assumption.
  unfold cutopt, cut_opt. rewrite Hsg.
  rewrite (gen_csr_cut_on_is_model (sgnR cut)), (gen_csr_cut_on_is_model (sgnR cut0)).
  rewrite (sgnR_pos cut Hpos), (sgnR_nonpos cut0 Hneg). cbn [cut_active].
  apply csr_cutoff_smaller_R; try assumption.
  intros i. unfold cut_g. rewrite He.
  destruct (cutoff_factor_range (ohertz P * ofax P i / cut)%F) as [A B]. split; [exact A|]. apply Rlt_le. exact B.
Qed.
