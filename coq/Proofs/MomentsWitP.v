(** * Computed witnesses (executable instance) for the refuted / limiting statements of C09. *)
From Coq Require Import List ZArith Lia Bool QArith Qcanon.
From Inovesa Require Import Base.FieldKit Base.Sums Model.Moments Proofs.MomentsP.
Import ListNotations.
Local Open Scope Z_scope.

Definition zq (z : Z) : Qc := Q2Qc (inject_Z z).
Definition qq (a : Z) (b : positive) : Qc := Q2Qc (a # b).

(** 3x3 grid, one bunch, spacing 3 on both axes (weights 1,4,1), axes -3,0,3 *)
Definition wg : geom QcF := geomQ 3 1 (zq (-3)) (zq 3) (zq (-3)) (zq 3) [zq 1].
(** the same cells and the same energy axis, but position spacing 6 *)
Definition wg2 : geom QcF := geomQ 3 1 (zq (-6)) (zq 6) (zq (-3)) (zq 3) [zq 1].
Definition wdA : Z -> Z -> Z -> Qc := dataQ 3 (map zq [1;2;3; 0;1;0; 2;0;1]).
Definition wdB : Z -> Z -> Z -> Qc := dataQ 3 (map zq [0;0;5; 0;0;0; 0;0;0]).

(** pinned operator= (swap of the data only): the target keeps the projections of its old
    contents; with the refresh of the fix commit it reports the source's *)
Lemma assign_pinned_witness :
  let a := construct QcF wg wdA in let b := construct QcF wg wdB in
  this (sprojx (assign_pinned QcF wg wg b a) 0 0) = (5 # 1)%Q /\
  this (sprojx a 0 0) = (12 # 1)%Q /\
  this (sprojx (assign QcF wg wg b a) 0 0) = (12 # 1)%Q.
Proof. vm_compute. repeat split. Qed.

(** assignment to an object of another geometry: same data, other projections *)
Lemma assign_other_geometry_witness :
  let a := construct QcF wg wdA in let b := construct QcF wg2 wdB in
  this (sdata (assign QcF wg2 wg b a) 0 0 1) = this (sdata a 0 0 1) /\
  this (sprojx (assign QcF wg2 wg b a) 0 0) = (24 # 1)%Q /\ this (sprojx a 0 0) = (12 # 1)%Q.
Proof. vm_compute. repeat split. Qed.

(** the weights of both integrations come from axis 0: same cells, same energy axis, doubled
    position spacing -> the reported mean energy halves *)
Lemma energy_mean_spacing_witness :
  let m g := this (smom (variance QcF posQc g 1 (construct QcF g wdA)) 1 0 0) in
  m wg = (9 # 31)%Q /\ m wg2 = (9 # 62)%Q.
Proof. vm_compute. repeat split. Qed.

(** the mean is a rectangle sum divided by the Simpson charge: a one-cell profile moved by one
    cell does not move its reported mean by one cell (5x5, spacing 3, cells x=1 and x=2) *)
Definition wg5 : geom QcF := geomQ 5 1 (zq (-6)) (zq 3) (zq (-6)) (zq 3) [zq 1].
Definition spike (x0 : Z) : Z -> Z -> Z -> Qc :=
  fun b x y => if ((x =? x0) && (y =? 2))%bool then zq 1 else zq 0.
Lemma translation_spike_witness :
  let m x0 := this (smom (variance QcF posQc wg5 0 (construct QcF wg5 (spike x0))) 0 0 0) in
  m 1 = (-9 # 4)%Q /\ m 2 = (0 # 1)%Q /\ this (gqp QcF wg5 0 1) = (-3 # 1)%Q.
Proof. vm_compute. repeat split. Qed.

(** copying an object whose caches are stale (normalize not followed by a refresh): the copy
    reports the refreshed values, the original still the old ones *)
Lemma copy_of_stale_witness :
  let s := normalize QcF posQc wg (construct QcF wg wdA) in
  this (sfill s 0) = (31 # 1)%Q /\ this (sfill (copy QcF wg s) 0) = (1 # 1)%Q.
Proof. vm_compute. repeat split. Qed.

(** ** packaged statements used by Props/Properties_C09.v *)
Local Open Scope Z_scope.
Lemma moments_translation_partial_pk :
  forall (K : Fld) (n : Z) (delta qmin : K) (r : Z -> K) (a b m : Z) (c mean : K),
    supp r a b -> 0 <= a -> b <= n -> a <= b -> 0 <= a + m -> b + m <= n ->
    c <> f0 -> c = (delta * sumn K n r)%F ->
    let q := fun i => (qmin + fz i * delta)%F in
    first_moment K n delta q (fun i => r (i - m)%Z) c = (first_moment K n delta q r c + fz m * delta)%F /\
    second_central_moment K n delta q (fun i => r (i - m)%Z) c (mean + fz m * delta)%F =
    second_central_moment K n delta q r c mean.
Proof.
  intros K n delta qmin r a b m c mean Hs Ha Hb Hab Ham Hbm Hc Hr q. split.
  - exact (translation_mean K n delta qmin r a b m Hs Ha Hb Hab Ham Hbm c Hc Hr).
  - exact (translation_variance K n delta qmin r a b m Hs Ha Hb Hab Ham Hbm c mean Hc).
Qed.

Lemma moments_translation_refuted_pk :
  exists (g : geom QcF) (D D' : Z -> Z -> Z -> Qc),
    (forall b x y, D' b x y = D b (x - 1) y) /\
    let m E := smom (variance QcF posQc g 0 (construct QcF g E)) 0 0 0 in
    this (m D') <> this (m D + gd0 g)%Qc.
Proof.
  exists wg5, (spike 1), (fun b x y => spike 1 b (x - 1) y). split; [reflexivity|].
  cbv zeta. intro H. vm_compute in H. discriminate H.
Qed.

Lemma moments_scale_invariant_pk :
  forall (K : Fld) (n : Z) (delta : K) (q r : Z -> K) (c mean k : K),
    c <> f0 -> k <> f0 ->
    first_moment K n delta q (fun i => k * r i)%F (k * c)%F = first_moment K n delta q r c /\
    second_central_moment K n delta q (fun i => k * r i)%F (k * c)%F mean =
    second_central_moment K n delta q r c mean.
Proof.
  intros K n delta q r c mean k Hc Hk. split.
  - exact (scale_first_moment K n delta q r c k Hc Hk).
  - exact (scale_second_moment K n delta q r c mean k Hc Hk).
Qed.

Lemma assign_pinned_refuted_pk :
  exists (g : geom QcF) (this other : state QcF),
    fresh QcF g other /\ sprojx (assign_pinned QcF g g this other) 0 0 <> sprojx other 0 0.
Proof.
  exists wg, (construct QcF wg wdB), (construct QcF wg wdA). split; [apply construct_fresh|].
  intro H. vm_compute in H. discriminate H.
Qed.

Lemma assign_other_geometry_refuted_pk :
  exists (g g' : geom QcF) (this other : state QcF),
    gn g' = gn g /\ gnb g' = gnb g /\ fresh QcF g' other /\
    sprojx (assign QcF g g' this other) 0 0 <> sprojx other 0 0.
Proof.
  exists wg2, wg, (construct QcF wg2 wdB), (construct QcF wg wdA).
  split; [reflexivity|]. split; [reflexivity|]. split; [apply construct_fresh|].
  intro H. vm_compute in H. discriminate H.
Qed.

Lemma energy_mean_axis0_spacing_refuted_pk :
  exists (g g' : geom QcF) (D : Z -> Z -> Z -> Qc),
    gmin1 g = gmin1 g' /\ gd1 g = gd1 g' /\ gn g = gn g' /\
    smom (variance QcF posQc g 1 (construct QcF g D)) 1 0 0 <>
    smom (variance QcF posQc g' 1 (construct QcF g' D)) 1 0 0.
Proof.
  exists wg, wg2, wdA. repeat split. intro H. vm_compute in H. discriminate H.
Qed.
