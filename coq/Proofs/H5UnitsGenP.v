(** The transcribed unit expressions (Model/H5Units.v) equal the expressions regenerated from the
    C++ on every run (Gen/Gen_H5Units.v), as field identities: harmless rewrites of the source are
    absorbed, a changed factor is not. *)
From Coq Require Import List ZArith Ring Field.
From Inovesa Require Import Base.FieldKit Model.H5Units Gen.Gen_H5Units.
Local Open Scope F_scope.

Section GenTie.
  Variable K : Fld.
  Add Field KFg : (@Fth K).
  Variables (c E0 sE H frev Veff fs steps Ib deltaE ohm : K).
  Hypothesis (c_nz : c <> 0) (E0_nz : E0 <> 0) (sE_nz : sE <> 0) (H_nz : H <> 0) (frev_nz : frev <> 0)
             (Veff_nz : Veff <> 0) (fs_nz : fs <> 0) (steps_nz : steps <> 0).

  Ltac unf := unfold a_Watt, a_WattPerHertz, a_Volt, a_Hertz, a_Coulomb, a_Ampere, a_Turn, a_Second_t,
    a_Second_z, a_ElectronVolt, a_Meter, bl, dE, Qb, revolutionpart, dt, t_sync,
    gen_Second_z, gen_Turn, gen_Hertz, gen_Volt, gen_WattPerHertz, gen_Watt, two.

  Lemma units_match_source :
    a_Second_z K c E0 sE H frev Veff fs = gen_Second_z K (a_Meter K c E0 sE H frev Veff fs) c /\
    a_Turn K frev fs = gen_Turn K (t_sync K fs) frev /\
    a_Hertz K c E0 sE H frev Veff fs = gen_Hertz K (a_Meter K c E0 sE H frev Veff fs) c /\
    a_Volt K E0 sE frev fs steps deltaE
      = gen_Volt K deltaE (a_ElectronVolt K E0 sE) (revolutionpart K frev fs steps) /\
    a_WattPerHertz K frev Ib ohm = gen_WattPerHertz K ohm Ib frev /\
    a_Watt K c E0 sE H frev Veff fs Ib ohm = gen_Watt K ohm Ib frev (a_Hertz K c E0 sE H frev Veff fs).
  Proof. unf. repeat split; field; repeat split; assumption. Qed.
End GenTie.
