(** * C01 "up to single-precision rounding": the Fokker-Planck stencil operator in binary32.

    [FokkerPlanckMap::apply] computes, per output row [y] of an energy column, the float accumulation of the
    [ip] products [data_in[offs+h.index] * h.weight] of the table row ([value = 0; value += ...]).
    For ANY table [H] of exact (real) weights, any stored float weights [wh] at the same indices, any
    computed column [out] ([col_computed]: every cell a [psum_opt] of its products, i.e. any order, every
    rounding optional - fused or not):

       | Sum_y out(y) - Sum_y (H r)(y) |  <=  Sum_y Sum_j |r(idx(y,j))| * cw_ip(w(y,j), wh(y,j))  +  n * A32 ip
                                           =   Sum_k |r(k)| * colw(idx, cw)(k)                     +  n * A32 ip

    ([col_rounding], [col_rounding_transposed]); [cw] as in Proofs/StencilRoundP.v.  With the exact
    conservation theorem of the 3-point table of the model ([fp3_moment0], every field, hence the reals)
    this is the conservation of an interior-supported column up to the stated rounding term
    ([fp3_rounding]).  The bound is a-posteriori in the stored weights: it holds for whatever floats the
    constructor produced; how far those are from the exact weights of the model is measured by the
    correspondence check, not proved here. *)
From Coq Require Import Reals ZArith Lra Lia List Bool Psatz.
From Inovesa Require Import Base.FieldKit Base.RInst Base.Sums Gen.Gen_FPStencil Model.FokkerPlanck
  Proofs.FPGridP Proofs.FokkerPlanckP Proofs.RoundingP Proofs.StencilRoundP Proofs.KickRoundP.
Import ListNotations.
Local Open Scope R_scope.

Definition col_computed (n ip : Z) (idx : Z -> Z) (wh : Z -> R) (r out : Z -> R) : Prop :=
  forall y, (0 <= y < n)%Z ->
    psum_opt (map (fun j => r (idx (y * ip + j)%Z) * wh (y * ip + j)%Z) (zrange ip)) (out y).

(** the loop of [FokkerPlanckMap::apply] (left to right from 0; round-to-nearest at every step, or every step
    fused) is a [col_computed] *)
Definition col_loop (fused : bool) (ip : Z) (idx : Z -> Z) (wh r : Z -> R) (y : Z) : R :=
  (if fused then acc_fma else acc_rn) (map (fun j => (r (idx (y * ip + j)%Z), wh (y * ip + j)%Z)) (zrange ip)) 0.

Lemma col_loop_computed fused n ip idx wh r : col_computed n ip idx wh r (col_loop fused ip idx wh r).
Proof.
  intros y Hy. unfold col_loop.
  replace (map (fun j => r (idx (y * ip + j)%Z) * wh (y * ip + j)%Z) (zrange ip))
    with (map (fun ab => fst ab * snd ab) (map (fun j => (r (idx (y * ip + j)%Z), wh (y * ip + j)%Z)) (zrange ip)))
    by (rewrite map_map; reflexivity).
  destruct fused; [apply loop_fma_psum | apply loop_rn_psum].
Qed.

(** the table of rounding factors at the indices of [H] *)
Definition cw_table (ip : Z) (H : Z -> Z * R) (wh : Z -> R) (k : Z) : Z * R :=
  (fst (H k), cw (Z.to_nat ip) (snd (H k)) (wh k)).

Lemma zrange_length ip : length (zrange ip) = Z.to_nat ip.
Proof. unfold zrange. rewrite map_length, seq_length. reflexivity. Qed.

Lemma fp_col_out_Rsum ip (H : Z -> Z * R) (r : Z -> R) y :
  fp_col_out (K:=RF) ip H r y = Rsum (map (fun j => r (fst (H (y * ip + j)%Z)) * snd (H (y * ip + j)%Z)) (zrange ip)).
Proof. reflexivity. Qed.

Theorem col_rounding n ip (H : Z -> Z * R) (wh r out : Z -> R) :
  (1 <= ip)%Z ->
  col_computed n ip (fun k => fst (H k)) wh r out ->
  Rabs (sumR 0 (Z.to_nat n) out - sumR 0 (Z.to_nat n) (fp_col_out (K:=RF) ip H r)) <=
  sumR 0 (Z.to_nat n) (fp_col_out (K:=RF) ip (cw_table ip H wh) (fun i => Rabs (r i)))
  + INR (Z.to_nat n) * A32 (Z.to_nat ip).
Proof.
  intros Hip Hc. rewrite sumR_sub. eapply Rle_trans; [apply sumR_abs|].
  rewrite <- sumR_const with (lo := 0%Z), <- sumR_plus. apply sumR_le. intros y Hy.
  rewrite !fp_col_out_Rsum. unfold cw_table. cbn [fst snd].
  apply (cell_bound (zrange ip) (fun j => r (fst (H (y * ip + j)%Z))) (fun j => snd (H (y * ip + j)%Z))
           (fun j => wh (y * ip + j)%Z) (out y) (Z.to_nat ip)).
  - rewrite zrange_length. lia.
  - lia.
  - apply Hc. lia.
Qed.

Theorem col_rounding_transposed n ip (H : Z -> Z * R) (wh r out : Z -> R) :
  (1 <= ip)%Z -> (0 <= n)%Z ->
  (forall y j, (0 <= y < n)%Z -> (0 <= j < ip)%Z -> (0 <= fst (H (y * ip + j)%Z) < n)%Z) ->
  col_computed n ip (fun k => fst (H k)) wh r out ->
  Rabs (sumR 0 (Z.to_nat n) out - sumR 0 (Z.to_nat n) (fp_col_out (K:=RF) ip H r)) <=
  sumR 0 (Z.to_nat n) (fun k => Rabs (r k) * colw RF ip (cw_table ip H wh) (fun _ => 1) n k)
  + INR (Z.to_nat n) * A32 (Z.to_nat ip).
Proof.
  intros Hip Hn Hidx Hc. eapply Rle_trans; [exact (col_rounding n ip H wh r out Hip Hc)|].
  apply Rplus_le_compat_r. right.
  etransitivity;
    [|apply (col_transpose RF ip (cw_table ip H wh) (fun i => Rabs (r i)) (fun _ => 1) n Hn ltac:(lia));
      intros y j Hy Hj; unfold cw_table; cbn [fst]; apply Hidx; assumption].
  apply (sumZ_ext RF). intros y Hy. exact (eq_sym (Rmult_1_l _)).
Qed.

(** the 3-point operator of the model over the reals *)
Theorem fp3_rounding (e1 delta : R) (p : Z -> R) (v n le m : Z) (wh r out : Z -> R) :
  (2 <= n < 2 ^ 32)%Z -> supp (K:=RF) r 2 (n - 2) -> uniform RF delta p -> delta <> 0 ->
  let H := H3 RF e1 delta p v n le m in
  col_computed n 3 (fun k => fst (H k)) wh r out ->
  Rabs (sumR 0 (Z.to_nat n) out - sumR 0 (Z.to_nat n) r) <=
  sumR 0 (Z.to_nat n) (fun k => Rabs (r k) * colw RF 3 (cw_table 3 H wh) (fun _ => 1) n k)
  + INR (Z.to_nat n) * A32 3.
Proof.
  intros Hn Hs Hax Hd H Hc.
  pose proof (fp3_moment0 RF e1 delta p v n le m r Hn Hs Hax Hd) as M. unfold S0 in M.
  fold H in M. rewrite <- M.
  apply (col_rounding_transposed n 3 H wh r out); try lia; try assumption.
  intros y j Hy Hj. unfold H. apply (H3_index_range RF e1 delta p v n le m y j); lia.
Qed.

(** uniform form: if every column sum of the factor table is at most [C], the defect is at most
    [C * Sum |r| + n * A32 3] *)
Corollary fp3_rounding_uniform (e1 delta : R) (p : Z -> R) (v n le m : Z) (wh r out : Z -> R) (C : R) :
  (2 <= n < 2 ^ 32)%Z -> supp (K:=RF) r 2 (n - 2) -> uniform RF delta p -> delta <> 0 ->
  let H := H3 RF e1 delta p v n le m in
  col_computed n 3 (fun k => fst (H k)) wh r out ->
  (forall k, (0 <= k < n)%Z -> colw RF 3 (cw_table 3 H wh) (fun _ => 1) n k <= C) ->
  Rabs (sumR 0 (Z.to_nat n) out - sumR 0 (Z.to_nat n) r) <=
  C * sumR 0 (Z.to_nat n) (fun k => Rabs (r k)) + INR (Z.to_nat n) * A32 3.
Proof.
  intros Hn Hs Hax Hd H Hc HC.
  eapply Rle_trans; [apply (fp3_rounding e1 delta p v n le m wh r out); assumption|].
  apply Rplus_le_compat_r. fold H.
  rewrite <- (sumZ_scale RF). apply sumR_le. intros k Hk.
  pose proof (HC k ltac:(lia)). pose proof (Rabs_pos (r k)). rfu. nra.
Qed.

(** ** a non-uniform energy axis (the float axis of the implementation: p(j+1) - p(j) = delta only up to rounding)

    The column sum of the exact 3-point table is 1 + e1 (1 - (p(k+1) - p(k-1)) / (2 delta)) with damping and 1
    without, for ANY axis: the diffusion weights cancel identically, the damping weights up to the
    non-uniformity of the axis. *)
Definition axis_defect (e1 delta : R) (p : Z -> R) (v k : Z) : R :=
  opt (K:=RF) (has_damp v) (e1 * (1 - (p (k + 1)%Z - p (k - 1)%Z) / (2 * delta))).

Lemma cw3_general (e1 delta : R) (p : Z -> R) (v k : Z) :
  delta <> 0 -> cw3 RF e1 delta p v (fun _ => 1) k = 1 + axis_defect e1 delta p v k.
Proof.
  intros Hd. unfold axis_defect, cw3, w3, row3. cbn [nth snd].
  unfold opt, e1_2d, e1_d2. destruct (has_damp v), (has_diff v); rfu; field; exact Hd.
Qed.

Theorem fp3_rounding_axis (e1 delta : R) (p : Z -> R) (v n le m : Z) (wh r out : Z -> R) :
  (2 <= n < 2 ^ 32)%Z -> supp (K:=RF) r 2 (n - 2) -> delta <> 0 ->
  let H := H3 RF e1 delta p v n le m in
  col_computed n 3 (fun k => fst (H k)) wh r out ->
  Rabs (sumR 0 (Z.to_nat n) out - sumR 0 (Z.to_nat n) r) <=
  sumR 0 (Z.to_nat n) (fun k => Rabs (r k) *
     (Rabs (axis_defect e1 delta p v k) + colw RF 3 (cw_table 3 H wh) (fun _ => 1) n k))
  + INR (Z.to_nat n) * A32 3.
Proof.
  intros Hn Hs Hd H Hc.
  pose proof (col_rounding_transposed n 3 H wh r out ltac:(lia) ltac:(lia)
                ltac:(intros y j Hy Hj; unfold H; apply (H3_index_range RF e1 delta p v n le m y j); lia) Hc) as B.
  pose proof (fp3_weighted RF e1 delta p v n le m r (fun _ => 1) Hn Hs) as Wt. fold H in Wt.
  assert (E : sumR 0 (Z.to_nat n) (fp_col_out (K:=RF) 3 H r) - sumR 0 (Z.to_nat n) r =
              sumR 0 (Z.to_nat n) (fun k => r k * axis_defect e1 delta p v k)).
  { assert (W2 : sumR 0 (Z.to_nat n) (fp_col_out (K:=RF) 3 H r) =
                 sumR 0 (Z.to_nat n) (fun k => r k * cw3 RF e1 delta p v (fun _ => 1) k)).
    { etransitivity; [|exact Wt]. apply (sumZ_ext RF). intros y Hy. exact (eq_sym (Rmult_1_l _)). }
    rewrite W2, sumR_sub. apply (sumZ_ext RF). intros k Hk. rewrite cw3_general by exact Hd.
      change (r k * (1 + axis_defect e1 delta p v k) - r k = r k * axis_defect e1 delta p v k). ring. }
  replace (sumR 0 (Z.to_nat n) out - sumR 0 (Z.to_nat n) r)
    with ((sumR 0 (Z.to_nat n) out - sumR 0 (Z.to_nat n) (fp_col_out (K:=RF) 3 H r)) +
          (sumR 0 (Z.to_nat n) (fp_col_out (K:=RF) 3 H r) - sumR 0 (Z.to_nat n) r)) by ring.
  eapply Rle_trans; [apply Rabs_triang|]. rewrite E.
  assert (A : Rabs (sumR 0 (Z.to_nat n) (fun k => r k * axis_defect e1 delta p v k)) <=
              sumR 0 (Z.to_nat n) (fun k => Rabs (r k) * Rabs (axis_defect e1 delta p v k))).
  { eapply Rle_trans; [apply sumR_abs|]. apply sumR_le. intros k Hk. rewrite Rabs_mult. lra. }
  assert (S : sumR 0 (Z.to_nat n) (fun k => Rabs (r k) *
                 (Rabs (axis_defect e1 delta p v k) + colw RF 3 (cw_table 3 H wh) (fun _ => 1) n k)) =
              sumR 0 (Z.to_nat n) (fun k => Rabs (r k) * Rabs (axis_defect e1 delta p v k)) +
              sumR 0 (Z.to_nat n) (fun k => Rabs (r k) * colw RF 3 (cw_table 3 H wh) (fun _ => 1) n k)).
  { rewrite <- sumR_plus. apply (sumZ_ext RF). intros k Hk. rfu. ring. }
  rewrite S. change (Z.to_nat 3) with 3%nat in B. lra.
Qed.
