(** * C06 with a MUTABLE impedance (round st3weak, seed C06-J).

    [ElectricField] holds its impedance through a shared pointer; the object behind it may be changed
    by whoever holds the other end (Impedance::operator+=, assignment) between two calls.  The history
    theorems of Proofs/EFieldTieP.v speak of histories of Wake / Pad / CSR operations on ONE object
    record (fixed [oZ]).  Here a history is a list of SEGMENTS (impedance table in force, operations run
    while it is in force), run through the GENERATED programs of the current source; the statement:
    whatever the segments before, the wake potential the generated wakePotential() leaves is the
    convolution of the CURRENT profiles with the kernel of the table in force AT THAT CALL.
    Reason: the invariant of histories ([Inv]: upper half of the form factor, cell N/2 of the loss
    spectrum, padded wake outside the buffer) does not mention the impedance, and the generated
    wakePotential() reads the cells of the impedance afresh in every call ([dft_wake_cell] holds from any state). *)
From Coq Require Import List ZArith Bool Lia Ring Field.
From Inovesa Require Import Base.FieldKit Base.Sums Model.DFT Model.EField Model.EFieldProg Gen.Gen_EField
  Proofs.DFTP Proofs.CSRP Proofs.DFTThm Proofs.EFieldP Proofs.EFieldProgP Proofs.EFieldGenP Proofs.EFieldDFTP
  Proofs.EFieldTieP.
Import ListNotations.
Local Open Scope Z_scope.

Section ZHist.
  Variable K : Fld.
  Add Field KFz : (@Fth K).
  Variable P : fobj K.

  (** the same field object with another table behind the impedance pointer *)
  Definition withZ (Zi : Z -> cplx K) : fobj K :=
    Fobj K (oN P) (ocs P) (osn P) (on P) (ospc P) (obks P) Zi (oscale P) (odq2 P) (odf P) (ohertz P)
         (ofax P) (oexp P) (osgn P) (oclob P).

  Definition seg : Type := ((Z -> cplx K) * list (op K))%type.

  (** segments through the generated programs / through the hand model *)
  Fixpoint run_segs_gen (segs : list seg) (s : state K (cplx K)) : state K (cplx K) :=
    match segs with
    | [] => s
    | (Zi, h) :: r =>
        run_segs_gen r (prog_run (E_of K (withZ Zi)) (kcsr_gen K (withZ Zi)) gen_pad_prog gen_wake_prog gen_csr_prog h s)
    end.
  Fixpoint run_segs (segs : list seg) (s : state K (cplx K)) : state K (cplx K) :=
    match segs with
    | [] => s
    | (Zi, h) :: r => run_segs r (run (E_of K (withZ Zi)) h s)
    end.

  Hypothesis N2 : 2 <= oN P.
  Hypothesis HB : hypB (E_of K P).
  Hypothesis sgn_gt : forall c : K, osgn P c = Gt -> c <> f0.

  Lemma segs_steq segs : forall s1 s2, steq s1 s2 -> steq (run_segs_gen segs s1) (run_segs segs s2).
  Proof.
    induction segs as [|[Zi h] r IH]; intros s1 s2 H; cbn [run_segs_gen run_segs]; [exact H|].
    apply IH. apply gen_run_is_model; try assumption; try reflexivity.
    cbn. lia.
  Qed.

  (** the invariant does not see the impedance *)
  Lemma inv_withZ Zi s : Inv (E_of K (withZ Zi)) s <-> Inv (E_of K P) s.
  Proof. split; intros H; exact H. Qed.

  Lemma hypB_withZ Zi : hypB (E_of K (withZ Zi)).
  Proof. exact HB. Qed.

  Lemma segs_inv segs : forall s, Inv (E_of K P) s -> Inv (E_of K P) (run_segs segs s).
  Proof.
    induction segs as [|[Zi h] r IH]; intros s H; cbn [run_segs]; [exact H|].
    apply IH. change (Inv (E_of K (withZ Zi)) (run (E_of K (withZ Zi)) h s)).
    apply inv_run; [apply hypB_withZ|cbn; lia|exact H].
  Qed.

  Lemma run_segs_snoc segs Zi h o : forall s,
    run_segs (segs ++ [(Zi, h ++ [o])]) s = step (E_of K (withZ Zi)) o (run (E_of K (withZ Zi)) h (run_segs segs s)).
  Proof.
    induction segs as [|[Z1 h1] r IH]; intros s; cbn [app run_segs].
    - unfold run. rewrite fold_left_app. reflexivity.
    - apply IH.
  Qed.

  Lemma cut_on_nz_z cut : gen_csr_cut_on (osgn P cut) = true -> cut <> f0.
  Proof.
    rewrite gen_csr_cut_on_is_model. intros H. apply sgn_gt. destruct (osgn P cut); try discriminate H. reflexivity.
  Qed.

  (** ** the wake after segments with other impedance tables: [wake_model] with the table in force at the call *)
  Theorem gen_wake_mutable_impedance_model segs Zi h p (b : nat) x :
    (b < length (obks P))%nat -> 0 <= x < on P -> 0 <= nth b (obks P) 0 * ospc P + x < oN P ->
    exists stale, fresh_top K (oN P) stale /\
      wake (run_segs_gen (segs ++ [(Zi, h ++ [Wake p])]) (fresh (E_of K P))) (Z.of_nat b * on P + x)
      = wake_model (oN P) (ocs P) (osn P) (on P) (ospc P) Zi stale (fun _ => f0) (train K P p) (oscale P)
                   (nth b (obks P) 0) x.
  Proof.
    intros Hb Hx Hin.
    set (s0 := run (E_of K (withZ Zi)) h (run_segs segs (fresh (E_of K P)))).
    assert (Hinv : Inv (E_of K P) s0).
    { unfold s0. change (Inv (E_of K (withZ Zi)) (run (E_of K (withZ Zi)) h (run_segs segs (fresh (E_of K P))))).
      apply inv_run; [apply hypB_withZ|cbn; lia|]. apply segs_inv. apply inv_fresh. }
    exists (wl s0). split.
    - destruct Hinv as (_ & H & _). exact H.
    - pose proof (segs_steq (segs ++ [(Zi, h ++ [Wake p])]) (fresh (E_of K P)) (fresh (E_of K P)) (steq_refl _))
        as (_ & _ & _ & _ & Hw & _).
      rewrite Hw.
      rewrite run_segs_snoc. fold s0. cbn [step].
      change (on P) with (on (withZ Zi)). unfold E_of. cbn [oN ocs osn on ospc obks oZ oscale odq2 odf ohertz ofax oexp osgn oclob withZ].
      apply dft_wake_cell; try assumption; try lia. exact cut_on_nz_z.
  Qed.

  (** ... hence the convolution with the kernel of the table in force at the call *)
  Theorem gen_wake_mutable_impedance_is_convolution (L : twiddle_laws K (ocs P) (osn P)) segs Zi h p (b : nat) x :
    (b < length (obks P))%nat -> 0 <= x < on P -> 0 <= nth b (obks P) 0 * ospc P + x < oN P ->
    disjoint_wins (on P) (ospc P) (train K P p) -> in_buffer K (oN P) (on P) (ospc P) (train K P p) ->
    wake (run_segs_gen (segs ++ [(Zi, h ++ [Wake p])]) (fresh (E_of K P))) (Z.of_nat b * on P + x)
    = (oscale P * fsum (map (fun b' => sumZ 0%Z (Z.to_nat (on P))
          (fun x' => snd b' x' * kernel K (oN P) (ocs P) (osn P) Zi ((nth b (obks P) 0%Z - fst b') * ospc P + x - x')%Z))
          (train K P p)))%F.
  Proof.
    intros Hb Hx Hin Hd Hbuf. destruct (gen_wake_mutable_impedance_model segs Zi h p b x Hb Hx Hin) as (stale & Hst & ->).
    apply t_wake_model_train; try assumption. lia.
  Qed.
End ZHist.
