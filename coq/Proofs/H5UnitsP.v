(** Field identities between the attribute expressions and the formulas in terms of the
    machine parameters (DESIGN 5/C10.6). *)
From Coq Require Import List ZArith Ring Field.
From Inovesa Require Import Base.FieldKit Model.H5Units.
Local Open Scope F_scope.

Section UnitsP.
  Variable K : Fld.
  Add Field KFu : (@Fth K).
  Variables (c E0 sE H frev Veff fs steps Ib deltaE ohm : K).
  Hypothesis (c_nz : c <> 0) (E0_nz : E0 <> 0) (sE_nz : sE <> 0) (H_nz : H <> 0) (frev_nz : frev <> 0)
             (Veff_nz : Veff <> 0) (fs_nz : fs <> 0) (steps_nz : steps <> 0).

  Notation Meter := (a_Meter K c E0 sE H frev Veff fs).
  Notation Second_z := (a_Second_z K c E0 sE H frev Veff fs).
  Notation eV := (a_ElectronVolt K E0 sE).
  Notation Second_t := (a_Second_t K fs).
  Notation Turn := (a_Turn K frev fs).
  Notation Ampere := (a_Ampere K Ib).
  Notation Coulomb := (a_Coulomb K frev Ib).
  Notation Hertz := (a_Hertz K c E0 sE H frev Veff fs).
  Notation Volt := (a_Volt K E0 sE frev fs steps deltaE).
  Notation WattPerHertz := (a_WattPerHertz K frev Ib ohm).
  Notation Watt := (a_Watt K c E0 sE H frev Veff fs Ib ohm).

  Ltac unf := unfold a_Watt, a_WattPerHertz, a_Volt, a_Hertz, a_Coulomb, a_Ampere, a_Turn, a_Second_t,
    a_Second_z, a_ElectronVolt, a_Meter, bl, dE, Qb, revolutionpart, dt, t_sync.

  (** metres: the natural bunch length c*sigma_delta*alpha0/(2 pi f_s), given the code's relation
      between f_s and alpha0 (main.cpp 232-238), [tpi] standing for 2 pi *)
  Lemma meter_is_natural_bunch_length (alpha0 tpi : K) :
    tpi <> 0 -> alpha0 <> 0 ->
    fs * fs = frev * frev * (alpha0 * H * Veff / (tpi * E0)) ->
    Meter = c * sE * alpha0 / (tpi * fs).
  Proof.
    intros Hp Ha Hfs. unf.
    assert (E : alpha0 = fs * fs * tpi * E0 / (frev * frev * H * Veff)).
    { rewrite Hfs. field. repeat split; assumption. }
    rewrite E. field. repeat split; assumption.
  Qed.

  Lemma meter_formula : Meter = c * sE * E0 * fs / (H * frev * frev * Veff).
  Proof. unf. field. repeat split; assumption. Qed.
  Lemma second_z_formula : Second_z * c = Meter.
  Proof. unf. field. repeat split; assumption. Qed.
  Lemma electronvolt_formula : eV = sE * E0.
  Proof. reflexivity. Qed.
  Lemma second_t_formula : Second_t * fs = 1.
  Proof. unf. field. assumption. Qed.
  Lemma turn_formula : Turn = frev / fs /\ Turn = Second_t * frev.
  Proof. unf. split; field; assumption. Qed.
  Lemma ampere_coulomb : Ampere = Ib /\ Coulomb * frev = Ampere.
  Proof. unf. split; [reflexivity|]. field. assumption. Qed.
  Lemma hertz_formula : Hertz * Meter = c.
  Proof. unf. field. repeat split; assumption. Qed.
  Lemma volt_formula : Volt = deltaE * sE * E0 * fs * steps / frev /\ Volt * Turn = deltaE * eV * steps.
  Proof. unf. split; field; repeat split; assumption. Qed.
  Lemma watt_formula :
    WattPerHertz = two * ohm * Ib * Ib / frev /\ Watt = WattPerHertz * Hertz /\
    Watt * Meter * frev = two * ohm * Ib * Ib * c.
  Proof. unf. repeat split; try reflexivity. field. repeat split; assumption. Qed.
End UnitsP.
