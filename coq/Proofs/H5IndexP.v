(** * The file-layer model (Model/Records.v) is the index arithmetic the source has NOW.

    [Gen/Gen_H5Index.v] is regenerated from src/IO/HDF5File.cpp (and PhaseSpace::setSize, main()) on every
    run.  Here the generated pieces are assembled with what the HDF5 library does with them
    (Model/H5Slab.v) and proved equal to the hand-written model:
    - C10: the vectors [_appendData] hands to the library make the call an append of one record
      ([append_data]); every dataset's initial extents are the model's [file_inner]; the order of
      the [_appendData] calls of the append overloads is the model's [append_ps], [append_ef], ...;
      every dataset is appended from the member the property says it describes;
    - C11: the reader assembled from the generated record selection, hyperslab vectors, setSize
      arguments and acceptance test is [read_ps]; main()'s grid-size test refuses exactly the
      start distributions of another size.
    A changed offset, extent, dimension index, modulus, comparison or call order changes the
    generated definitions and a lemma below no longer checks. *)
From Coq Require Import List ZArith Bool Lia.
From Inovesa Require Import Base.FieldKit Model.Records Model.H5Slab Gen.Gen_H5Index Proofs.RecordsP Proofs.H5SlabP.
Import ListNotations.
Local Open Scope Z_scope.

(** ** C10: _appendData *)
Section Append.
  Context {A : Type}.

  (** one [_appendData(ds, src, size)] on a dataset of extents [n0 :: inner] holding [file] *)
  Definition gen_append_call (fill : A) (dims : list Z) (size : Z) (src file : list A) : list A :=
    h5_append fill (gen_ad_extent dims size) (gen_ad_start dims size) (gen_ad_count dims size) src file.

  Theorem gen_append_call_appends (fill : A) inner n0 size (file src : list A) :
    Forall (fun d => 0 <= d) inner -> 0 <= n0 -> 0 <= size ->
    Z.of_nat (length file) = n0 * prodZ inner -> size * prodZ inner <= Z.of_nat (length src) ->
    gen_append_call fill (n0 :: inner) size src file = file ++ firstn (Z.to_nat (size * prodZ inner)) src /\
    gen_ad_dims_after (n0 :: inner) size = (n0 + size) :: inner /\
    gen_ad_mem (n0 :: inner) size = gen_ad_count (n0 :: inner) size /\
    gen_ad_order_ok = true.
  Proof.
    intros Hi Hn Hs Hf Hsrc. unfold gen_append_call, gen_ad_extent, gen_ad_start, gen_ad_count, gen_ad_dims_after, gen_ad_mem.
    cbn [hd tl]. repeat split.
    apply h5_append_first_dim; assumption.
  Qed.

  (** with the default [size = 1]: the model's [append_data] *)
  Theorem gen_append_call_is_append_data (fill : A) inner n0 (file src : list A) :
    Forall (fun d => 0 <= d) inner -> 0 <= n0 ->
    Z.of_nat (length file) = n0 * prodZ inner -> prodZ inner <= Z.of_nat (length src) ->
    gen_append_call fill (n0 :: inner) 1 src file = append_data inner file src.
  Proof.
    intros Hi Hn Hf Hsrc.
    destruct (gen_append_call_appends fill inner n0 1 file src Hi Hn ltac:(lia) Hf ltac:(lia)) as [E _].
    rewrite E. unfold append_data. rewrite Z.mul_1_l. reflexivity.
  Qed.

  (** one record appended to dataset [d] of a file with sizes [z] that holds [r] records *)
  Theorem gen_append_record (fill : A) z d r (file src : list A) :
    0 <= s_nb z -> 0 <= s_n z -> 0 <= s_nmax z -> 0 <= s_imp z -> 0 <= s_np z -> 0 <= r ->
    Z.of_nat (length file) = r * prodZ (file_inner z d) -> prodZ (file_inner z d) <= Z.of_nat (length src) ->
    let dims := r :: tl (gen_ds_dims true true (s_nb z) (s_n z) (s_n z) (s_nmax z) (s_imp z) (s_np z) d) in
    gen_append_call fill dims 1 src file = append_data (file_inner z d) file src /\
    gen_ad_dims_after dims 1 = (r + 1) :: file_inner z d /\
    gen_ad_mem dims 1 = gen_ad_count dims 1 /\ gen_ad_order_ok = true.
  Proof.
    intros Hnb Hn Hm Hi Hp Hr Hf Hs dims.
    assert (E : dims = r :: file_inner z d) by (unfold dims; destruct d; reflexivity).
    rewrite E.
    assert (Hin : Forall (fun x => 0 <= x) (file_inner z d)).
    { destruct d; cbn [file_inner]; repeat constructor; try assumption; try lia;
        apply Z.div_pos; lia. }
    destruct (gen_append_call_appends fill (file_inner z d) r 1 file src Hin Hr ltac:(lia) Hf ltac:(lia)) as (_ & B & C & D).
    split; [apply gen_append_call_is_append_data; assumption|]. split; [exact B|]. split; [exact C|exact D].
  Qed.
End Append.

(** ** C10: datasets, call orders, sources *)
Lemma gen_ds_dims_is_model z d :
  gen_ds_dims true true (s_nb z) (s_n z) (s_n z) (s_nmax z) (s_imp z) (s_np z) d = 0 :: file_inner z d.
Proof. destruct d; reflexivity. Qed.

Definition ds_of (l : list (dset * psrc * Z)) (k : Z) : log := map (fun e => (fst (fst e), k)) l.

Lemma gen_append_orders_are_model k :
  (forall a, append_ps a k = ds_of (gen_append_ps a) k) /\
  append_ef k = ds_of (gen_append_ef true) k /\
  append_wake k = ds_of gen_append_wake k /\
  append_tracks k = ds_of gen_append_tracks k /\
  append_padded k = ds_of gen_append_padded k.
Proof. repeat split. intros a. destruct a; reflexivity. Qed.

Definition all_append_tables : list (dset * psrc * Z) :=
  gen_append_ps AtAll ++ gen_append_ps AtDefaults ++ gen_append_ps AtPhaseSpace ++
  gen_append_ef true ++ gen_append_ef false ++ gen_append_wake ++ gen_append_tracks ++ gen_append_padded.

Definition source_ok (e : dset * psrc * Z) : bool :=
  psrc_eqb (snd (fst e)) (expected_source (fst (fst e))) && (snd e =? 1).

Lemma psrc_eqb_eq a b : psrc_eqb a b = true -> a = b.
Proof.
  destruct a, b; cbn [psrc_eqb]; intros H; try discriminate H; try reflexivity.
  - apply Z.eqb_eq in H. subst. reflexivity.
  - apply Z.eqb_eq in H. subst. reflexivity.
  - apply andb_true_iff in H. destruct H as [H1 H2]. apply Z.eqb_eq in H1, H2. subst. reflexivity.
Qed.

(** every dataset is appended from the member the property says it describes, one record per call,
    and every growing dataset of the model is appended by some overload *)
Lemma gen_sources_are_expected :
  (forall d s n, In (d, s, n) all_append_tables -> s = expected_source d /\ n = 1) /\
  (forall d, In d all_dsets -> exists s n, In (d, s, n) all_append_tables).
Proof.
  split.
  - assert (H : forallb source_ok all_append_tables = true) by (vm_compute; reflexivity).
    intros d s n Hin. rewrite forallb_forall in H. specialize (H _ Hin). unfold source_ok in H. cbn [fst snd] in H.
    apply andb_true_iff in H. destruct H as [H1 H2]. split; [apply psrc_eqb_eq; exact H1 | apply Z.eqb_eq; exact H2].
  - assert (H : forallb (fun d => existsb (fun e => dset_eqb (fst (fst e)) d) all_append_tables) all_dsets = true)
      by (vm_compute; reflexivity).
    intros d Hd. rewrite forallb_forall in H. specialize (H d Hd). apply existsb_exists in H.
    destruct H as [[[d' s] n] [Hin He]]. cbn [fst] in He. unfold dset_eqb in He. apply Z.eqb_eq in He.
    assert (d' = d) by (destruct d', d; cbn in He; try reflexivity; discriminate He). subst d'.
    exists s, n. exact Hin.
Qed.

(** ** C11: readPhaseSpace assembled from the generated pieces *)
Section Read.
  Context {A : Type}.

  Definition gen_read_case (d : A) (dims : list Z) (data : list A)
             (start count mem : list Z) (ss : Z * Z) : option (Z * list A) :=
    let '(nx, ny, nb, nxyb) := gen_setsize (fst ss) (snd ss) in
    if (0 <? nth 0 dims 0)                  (* `% ps_dims[0]` is defined *)
       && (0 <? nx)                         (* a phase space of no cells is not constructed *)
       && slab_fits dims start count        (* the library refuses a selection outside the extent *)
       && list_eqb mem count                (* memory space of the selection's shape *)
       && gen_accept nxyb (slab_npoints count)
    then Some (nx, slab_read d dims start count data) else None.

  Definition gen_read_ps (d : A) (f : startfile A) (step : Z) : option (Z * list A) :=
    match f with
    | PSset dims data =>
        let u := gen_use_step dims step in
        match length dims with
        | 3%nat => gen_read_case d dims data (gen_r3_start dims u) (gen_r3_count dims u) (gen_r3_mem dims u) (gen_r3_setsize dims u)
        | 4%nat => gen_read_case d dims data (gen_r4_start dims u) (gen_r4_count dims u) (gen_r4_mem dims u) (gen_r4_setsize dims u)
        | _ => None                         (* the rank switch has no other case *)
        end
    | _ => None
    end.

  (** extents are hsize_t values *)
  Definition hsize_dims (f : startfile A) : Prop :=
    match f with PSset dims _ => Forall (fun x => 0 <= x < 2 ^ 64) dims | _ => True end.

  Lemma gen_use_step_is_model dims step :
    gen_use_step dims step = use_step (nth 0 dims 0) step.
  Proof.
    unfold gen_use_step, use_step. rewrite ?Zplus_mod_idemp_l, ?Zplus_mod_idemp_r.
    match goal with |- (?a mod _) mod _ = (?b mod _) mod _ => replace a with b by lia end. reflexivity.
  Qed.

  Lemma use_step_range len step : 0 < len -> 0 <= use_step len step < len.
  Proof. intros H. unfold use_step. apply Z.mod_pos_bound. exact H. Qed.

  Lemma list_eqb_refl l : list_eqb l l = true.
  Proof. induction l as [|x l IH]; [reflexivity|]. cbn [list_eqb]. rewrite Z.eqb_refl, IH. reflexivity. Qed.

  Ltac bool_to_prop :=
    repeat match goal with
    | H : (_ && _)%bool = true |- _ => apply andb_true_iff in H; destruct H
    | H : (_ <? _) = true |- _ => apply Z.ltb_lt in H
    | H : (_ <=? _) = true |- _ => apply Z.leb_le in H
    | H : (_ =? _) = true |- _ => apply Z.eqb_eq in H
    end.

  Theorem gen_read_ps_is_model (d : A) (f : startfile A) step :
    hsize_dims f -> gen_read_ps d f step = read_ps d f step.
  Proof.
    destruct f as [| | |dims data]; try reflexivity.
    intros Hh. cbn [hsize_dims] in Hh. unfold gen_read_ps. rewrite gen_use_step_is_model.
    destruct dims as [|len [|d1 [|d2 [|d3 [|d4 rest]]]]]; try reflexivity.
    - (* rank 3 *)
      cbn [length nth]. unfold gen_read_case, gen_r3_start, gen_r3_count, gen_r3_mem, gen_r3_setsize, gen_setsize, gen_accept.
      cbn [fst snd nth read_ps]. rewrite ?negb_involutive.
      inversion Hh as [|? ? Hl Hh1]; subst. inversion Hh1 as [|? ? H1 Hh2]; subst. inversion Hh2 as [|? ? H2 _]; subst.
      destruct ((0 <? len) && (0 <? d1) && (d1 <=? d2))%bool eqn:E.
      + bool_to_prop. pose proof (use_step_range len step ltac:(lia)) as Hu.
        rewrite (Z.mod_small (use_step len step)) by lia.
        rewrite list_eqb_refl. rewrite slab_read_rank3.
        replace ((0 <? len) && (0 <? d1) && slab_fits [len; d1; d2] [use_step len step; 0; 0] [1; d1; d1] && true
                 && (d1 * d1 * 1 =? slab_npoints [1; d1; d1]))%bool with true; [reflexivity|].
        symmetry. unfold slab_npoints. cbn [slab_fits prodZ fold_right].
        repeat (apply andb_true_iff; split); try reflexivity;
          try (apply Z.ltb_lt; lia); try (apply Z.leb_le; lia); try (apply Z.eqb_eq; lia).
      + match goal with |- (if ?c then _ else _) = None => destruct c eqn:E2; [|reflexivity] end.
        exfalso. bool_to_prop. cbn [slab_fits] in *. bool_to_prop.
        assert ((0 <? len) && (0 <? d1) && (d1 <=? d2) = true)%bool; [|congruence].
        repeat (apply andb_true_iff; split); try (apply Z.ltb_lt; lia); apply Z.leb_le; lia.
    - (* rank 4 *)
      cbn [length nth]. unfold gen_read_case, gen_r4_start, gen_r4_count, gen_r4_mem, gen_r4_setsize, gen_setsize, gen_accept.
      cbn [fst snd nth read_ps]. rewrite ?negb_involutive.
      inversion Hh as [|? ? Hl Hh1]; subst. inversion Hh1 as [|? ? H1 Hh2]; subst. inversion Hh2 as [|? ? H2 Hh3]; subst.
      inversion Hh3 as [|? ? H3 _]; subst.
      destruct ((0 <? len) && (0 <? d2) && (d2 <=? d3) && (d1 * d2 * d2 =? d2 * d2))%bool eqn:E.
      + bool_to_prop. pose proof (use_step_range len step ltac:(lia)) as Hu.
        rewrite (Z.mod_small (use_step len step)) by lia.
        rewrite list_eqb_refl. rewrite slab_read_rank4.
        replace ((0 <? len) && (0 <? d2) && slab_fits [len; d1; d2; d3] [use_step len step; 0; 0; 0] [1; d1; d2; d2] && true
                 && (d2 * d2 * 1 =? slab_npoints [1; d1; d2; d2]))%bool with true; [reflexivity|].
        symmetry. unfold slab_npoints. cbn [slab_fits prodZ fold_right].
        repeat (apply andb_true_iff; split); try reflexivity;
          try (apply Z.ltb_lt; lia); try (apply Z.leb_le; lia); try (apply Z.eqb_eq; lia).
      + match goal with |- (if ?c then _ else _) = None => destruct c eqn:E2; [|reflexivity] end.
        exfalso. bool_to_prop. cbn [slab_fits] in *. unfold slab_npoints in *. cbn [prodZ fold_right] in *. bool_to_prop.
        assert ((0 <? len) && (0 <? d2) && (d2 <=? d3) && (d1 * d2 * d2 =? d2 * d2) = true)%bool; [|congruence].
        repeat (apply andb_true_iff; split); try (apply Z.ltb_lt; lia); try (apply Z.leb_le; lia); apply Z.eqb_eq; lia.
  Qed.

  (** the chosen record, stated on the generated selection *)
  Theorem gen_chosen_record dims step : let len := nth 0 dims 0 in 0 < len < 2 ^ 63 ->
    gen_use_step dims (-1) = len - 1 /\
    (0 <= step < len -> gen_use_step dims step = step) /\
    (- len <= step < 0 -> gen_use_step dims step = len + step).
  Proof.
    intros len H. rewrite !gen_use_step_is_model. fold len.
    assert (2 ^ 63 + 2 ^ 63 = 2 ^ 64) by reflexivity. repeat split.
    - apply use_step_default. lia.
    - intros Hs. apply use_step_nonneg; lia.
    - intros Hs. apply use_step_negative; lia.
  Qed.

  Theorem gen_read_back_exact (d : A) (recs : list (list A)) n step :
    0 < n < 2 ^ 64 -> recs <> [] -> (forall x, In x recs -> Z.of_nat (length x) = n * n) ->
    let len := Z.of_nat (length recs) in len < 2 ^ 64 ->
    gen_read_ps d (@PSset A [len; 1; n; n] (concat recs)) step
    = Some (n, nth (Z.to_nat (use_step len step)) recs []).
  Proof.
    intros Hn Hr Hl len Hlen. rewrite gen_read_ps_is_model.
    - apply read_back; [lia|assumption|assumption].
    - cbn [hsize_dims]. repeat constructor; try lia.
  Qed.

  Theorem gen_unusable_refused (d : A) (f : startfile A) step :
    hsize_dims f -> unusable f -> gen_read_ps d f step = None.
  Proof. intros Hh Hu. rewrite gen_read_ps_is_model by exact Hh. apply unusable_refused. exact Hu. Qed.

  (** main(): a start distribution is used iff the reader accepted it and its grid size is GridSize *)
  Theorem gen_gridsize_refusal gridsize (r : option (Z * list A)) g :
    start_from_h5 gen_main_refuses_gridsize gridsize r = Some g <-> r = Some (gridsize, g).
  Proof.
    unfold start_from_h5, gen_main_refuses_gridsize. rewrite ?negb_involutive. destruct r as [[n g']|].
    - destruct (n =? gridsize) eqn:E; cbn [negb].
      + apply Z.eqb_eq in E. subst. split; intros H; inversion H; reflexivity.
      + apply Z.eqb_neq in E. split; intros H; [discriminate H|]. inversion H. congruence.
    - split; intros H; discriminate H.
  Qed.
End Read.
