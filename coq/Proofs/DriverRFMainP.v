(** C19's record clause for the program generated from main() (Gen/Gen_MainLoop.v): the general
    theorems of Proofs/DriverRFP.v with the per-run checker obligation discharged, and the
    instance in which the RF table is `_offset` and the per-step computation is `_calcKick`. *)
From Coq Require Import List ZArith Bool Lia.
From Inovesa Require Import Base.FieldKit Model.Driver Model.DynRF Model.DriverRF Gen.Gen_MainLoop
  Proofs.DriverP Proofs.DriverRFP Proofs.DriverMainP.
Import ListNotations.
Local Open Scope Z_scope.

Lemma main_run_records (K : kern) (sig : Z -> bool) (cf : cfg) (s0 : Driver.st K) :
  hdf cf = true -> dynrf cf = true -> rf_of K (file s0) = [] -> Driver.past s0 = [] ->
  (Z.to_nat (laststep cf) <= length (mq s0))%nat ->
  let m := steps_done K sig cf main_prog s0 in
  rf_of K (file (Driver.run sig cf main_prog s0)) = firstn m (mq s0) /\
  Driver.past (Driver.run sig cf main_prog s0) = [] /\
  mq (Driver.run sig cf main_prog s0) = skipn m (mq s0).
Proof. intros Hh Hd Hf Hp Hl. apply (run_records K sig cf main_prog s0 main_rf_checked Hh Hd Hf Hp Hl). Qed.

Lemma main_heads_records (K : kern) (sig : Z -> bool) (cf : cfg) (s0 : Driver.st K) (j : nat) :
  dynrf cf = true -> rf_of K (file s0) = [] -> Driver.past s0 = [] -> (j <= length (mq s0))%nat ->
  rf_of K (file (heads K sig cf main_prog s0 j)) ++ Driver.past (heads K sig cf main_prog s0 j) = firstn j (mq s0) /\
  mq (heads K sig cf main_prog s0 j) = skipn j (mq s0).
Proof. intros Hd Hf Hp Hj. apply (heads_records K sig cf main_prog s0 main_rf_checked Hd Hf Hp j Hj). Qed.

Lemma main_step_uses_its_record (K : kern) (sig : Z -> bool) (cf : cfg) (s0 : Driver.st K) (i : nat) :
  dynrf cf = true -> (i < length (mq s0))%nat ->
  rfo (heads K sig cf main_prog s0 (S i)) =
  k_rfCalc K (rfo (heads K sig cf main_prog s0 i)) (nth i (mq s0) (k_md0 K)).
Proof. intros Hd Hi. apply (step_uses_its_record K sig cf main_prog s0 main_rf_checked Hd i Hi). Qed.

(** with the queue model plugged in: `_offset` after step i = `_calcKick(record i)` written over
    the first `_xsize` entries of what it held before *)
Lemma main_kick_of_step (K0 : kern) (F : Fld) (sin : F -> F) (m : rfmap F)
      (kickmap : list F -> tG K0 -> tG K0)
      (trk : bool -> map -> tW K0 -> list F -> tRng K0 -> tTr K0 -> tTr K0 * tRng K0)
      (sig : Z -> bool) (cf : cfg) (s0 : Driver.st (rfK K0 F sin m kickmap trk)) (i : nat) (e : modn F) :
  dynrf cf = true -> nth_error (mq s0) i = Some e ->
  rfo (heads (rfK K0 F sin m kickmap trk) sig cf main_prog s0 (S i)) =
  write_prefix (calc_kick sin m (fst e) (snd e)) (rfo (heads (rfK K0 F sin m kickmap trk) sig cf main_prog s0 i)).
Proof.
  intros Hd He.
  assert (Hi : (i < length (mq s0))%nat) by (apply nth_error_Some; congruence).
  rewrite (main_step_uses_its_record (rfK K0 F sin m kickmap trk) sig cf s0 i Hd Hi).
  rewrite (nth_error_nth _ _ _ He). reflexivity.
Qed.

Lemma main_run_static (K : kern) (sig : Z -> bool) (cf : cfg) (s0 : Driver.st K) :
  dynrf cf = false -> tot K (Driver.run sig cf main_prog s0) = tot K s0.
Proof. apply run_static. Qed.

Lemma main_run_nofile (K : kern) (sig : Z -> bool) (cf : cfg) (s0 : Driver.st K) :
  dynrf cf = true -> (Z.to_nat (laststep cf) <= length (mq s0))%nat ->
  tot K (Driver.run sig cf main_prog s0) = tot K s0.
Proof. intros Hd Hl. apply (run_records_nofile K sig cf main_prog s0 main_rf_checked Hd Hl). Qed.
