(** Causality clause of C16, the part that is exact algebra in the DFT model of the wake
    (Model/DFT.v, Proofs/DFTP.v): the wake of the half-spectrum convolution is
    [sum_u p(u) kernel Z (j - u)] with
      [kernel Z m = Re Z_0 + 2 sum_{0<k<N/2} (Re Z_k cos(2 pi m k/N) - Im Z_k sin(2 pi m k/N))].
    - the response to a point source at [u0] is [kernel Z (j - u0)];
    - the real part of the impedance makes the even part of the response in the distance [m]
      from the source, the imaginary part the odd part;
    - therefore conjugating the impedance (flipping the sign of Im relative to Re) mirrors the
      response about the source: an impedance that acts on one side only turns into one that
      acts on the other side only; a real impedance acts symmetrically;
    - the response is additive in the impedance (the factory's sums).
    Which side a given power law acts on in the continuum limit is analysis (Fourier transform
    of a one-sided power law) and is NOT proved here; lib/props/C16.py explores it numerically. *)
From Coq Require Import List ZArith Lia Ring Field.
From Inovesa Require Import Base.FieldKit Base.Sums Model.DFT Proofs.DFTP Proofs.DFTThm.
Import ListNotations.

Section Causal.
  Variable K : Fld.
  Add Field KFc : (@Fth K).
  Local Open Scope F_scope.
  Variable N : Z.
  Variables cs sn : Z -> K.
  Hypothesis L : twiddle_laws K cs sn.

  Definition cconj (Zi : Z -> cplx K) : Z -> cplx K := fun k => (fst (Zi k), - snd (Zi k)).
  Definition cplus (A B : Z -> cplx K) : Z -> cplx K :=
    fun k => (fst (A k) + fst (B k), snd (A k) + snd (B k)).

  Notation kernel := (kernel K N cs sn).
  Notation half := (Z.to_nat (N / 2 - 1)).

  (** cosine / sine series of the real / imaginary part over the harmonics the wake uses *)
  Definition re_series (Zi : Z -> cplx K) (m : Z) : K :=
    fst (Zi 0%Z) + two * sumZ 1 half (fun k => fst (Zi k) * cs (m * k)%Z).
  Definition im_series (Zi : Z -> cplx K) (m : Z) : K :=
    two * sumZ 1 half (fun k => snd (Zi k) * sn (m * k)%Z).

  Lemma sumZ_sub lo len (g h : Z -> K) : sumZ lo len (fun i => g i - h i) = sumZ lo len g - sumZ lo len h.
  Proof.
    transitivity (sumZ lo len g + - sumZ lo len h); [|ring].
    rewrite <- (sumZ_opp K), <- (sumZ_add K). apply sumZ_ext. intros i _. ring.
  Qed.

  Lemma kernel_split Zi m : kernel Zi m = re_series Zi m - im_series Zi m.
  Proof.
    unfold DFTP.kernel, re_series, im_series, kern_term. rewrite sumZ_sub. unfold two. ring.
  Qed.

  Lemma re_series_even Zi m : re_series Zi (- m) = re_series Zi m.
  Proof.
    use_laws L. unfold re_series. f_equal. f_equal. apply sumZ_ext. intros k _.
    replace (- m * k)%Z with (- (m * k))%Z by lia. rewrite cn. reflexivity.
  Qed.

  Lemma im_series_odd Zi m : im_series Zi (- m) = - im_series Zi m.
  Proof.
    use_laws L. unfold im_series.
    replace (sumZ 1 half (fun k => snd (Zi k) * sn (- m * k)%Z))
      with (- sumZ 1 half (fun k => snd (Zi k) * sn (m * k)%Z)); [ring|].
    rewrite <- (sumZ_opp K). apply sumZ_ext. intros k _.
    replace (- m * k)%Z with (- (m * k))%Z by lia. rewrite sn'. ring.
  Qed.

  (** Re Z makes the even part of the response, Im Z the odd part *)
  Theorem kernel_even_odd Zi m :
    kernel Zi m + kernel Zi (- m) = two * re_series Zi m /\
    kernel Zi m - kernel Zi (- m) = - (two * im_series Zi m).
  Proof. rewrite !kernel_split, re_series_even, im_series_odd. unfold two. split; ring. Qed.

  (** conjugation mirrors the response about the source *)
  Theorem kernel_mirror Zi m : kernel (cconj Zi) m = kernel Zi (- m).
  Proof.
    rewrite !kernel_split, re_series_even, im_series_odd.
    assert (R : re_series (cconj Zi) m = re_series Zi m) by reflexivity.
    assert (I : im_series (cconj Zi) m = - im_series Zi m).
    { unfold im_series, cconj. cbn [snd].
      replace (sumZ 1 half (fun k => - snd (Zi k) * sn (m * k)%Z))
        with (- sumZ 1 half (fun k => snd (Zi k) * sn (m * k)%Z)); [ring|].
      rewrite <- (sumZ_opp K). apply sumZ_ext. intros k _. ring. }
    rewrite R, I. ring.
  Qed.

  (** an impedance acting on one side only acts, conjugated, on the other side only *)
  Theorem one_sided_flips Zi :
    (forall m, (0 < m)%Z -> kernel Zi (- m) = 0) -> forall m, (0 < m)%Z -> kernel (cconj Zi) m = 0.
  Proof. intros H m Hm. rewrite kernel_mirror. apply H. exact Hm. Qed.

  (** acting on the side [+m] only = the cosine series of Re Z equals minus the sine series of Im Z
      there (the discrete form of the dispersion relation between Re Z and Im Z) *)
  Theorem one_sided_iff Zi m : kernel Zi (- m) = 0 <-> re_series Zi m = - im_series Zi m.
  Proof.
    rewrite kernel_split, re_series_even, im_series_odd. split; intros H.
    - transitivity (re_series Zi m - - im_series Zi m + - im_series Zi m); [ring|]. rewrite H. ring.
    - rewrite H. ring.
  Qed.

  (** a purely resistive impedance (collimator) acts symmetrically *)
  Theorem real_impedance_symmetric Zi m : (forall k, snd (Zi k) = 0) -> kernel Zi (- m) = kernel Zi m.
  Proof.
    intros H. rewrite !kernel_split, re_series_even, im_series_odd.
    assert (I : im_series Zi m = 0).
    { unfold im_series. rewrite (sumZ_zero K); [ring|]. intros k _. rewrite H. ring. }
    rewrite I. ring.
  Qed.

  (** the response is additive in the impedance *)
  Theorem kernel_additive A B m : kernel (cplus A B) m = kernel A m + kernel B m.
  Proof.
    rewrite !kernel_split. unfold re_series, im_series, cplus. cbn [fst snd].
    replace (sumZ 1 half (fun k => (fst (A k) + fst (B k)) * cs (m * k)%Z))
      with (sumZ 1 half (fun k => fst (A k) * cs (m * k)%Z) + sumZ 1 half (fun k => fst (B k) * cs (m * k)%Z))
      by (rewrite <- (sumZ_add K); apply sumZ_ext; intros k _; ring).
    replace (sumZ 1 half (fun k => (snd (A k) + snd (B k)) * sn (m * k)%Z))
      with (sumZ 1 half (fun k => snd (A k) * sn (m * k)%Z) + sumZ 1 half (fun k => snd (B k) * sn (m * k)%Z))
      by (rewrite <- (sumZ_add K); apply sumZ_ext; intros k _; ring).
    unfold two. ring.
  Qed.

  (** *** the same at the level of the model of ElectricField::wakePotential() *)
  Hypothesis N2 : (2 <= N)%Z.
  Notation wake := (wake_padded N cs sn).

  Definition point_source (u0 : Z) : Z -> K := fun u => if (u =? u0)%Z then 1 else 0.

  Lemma sum_point lo len u0 (g : Z -> K) : (lo <= u0 < lo + Z.of_nat len)%Z ->
    sumZ lo len (fun u => point_source u0 u * g u) = g u0.
  Proof.
    revert lo. induction len as [|k IH]; intros lo H; [lia|]. cbn [sumZ]. unfold point_source at 1.
    destruct (Z.eqb_spec lo u0) as [->|NE].
    - rewrite (sumZ_zero K); [ring|]. intros i Hi. unfold point_source.
      destruct (Z.eqb_spec i u0); [lia|ring].
    - rewrite IH by lia. ring.
  Qed.

  Theorem wake_point_source Zi stale u0 j : fresh_top K N stale -> (0 <= u0 < N)%Z ->
    wake Zi stale (point_source u0) j = kernel Zi (j - u0).
  Proof.
    intros Hst Hu. rewrite (t_wake_padded_convolution K N cs sn N2 L) by exact Hst.
    apply (sum_point 0%Z (nN N) u0 (fun u => kernel Zi (j - u))). unfold nN. lia.
  Qed.

  (** the wake of a point source under the conjugate impedance is the mirror image *)
  Theorem wake_mirror Zi stale u0 d : fresh_top K N stale -> (0 <= u0 < N)%Z ->
    wake (cconj Zi) stale (point_source u0) (u0 + d) = wake Zi stale (point_source u0) (u0 - d).
  Proof.
    intros Hst Hu. rewrite !wake_point_source by assumption. rewrite kernel_mirror. f_equal. lia.
  Qed.

  (** the wake of any profile is additive in the impedance *)
  Theorem wake_additive A B stale p j : fresh_top K N stale ->
    wake (cplus A B) stale p j = wake A stale p j + wake B stale p j.
  Proof.
    intros Hst. rewrite !(t_wake_padded_convolution K N cs sn N2 L) by exact Hst.
    rewrite <- (sumZ_add K). apply sumZ_ext. intros u _. rewrite kernel_additive. ring.
  Qed.
End Causal.
