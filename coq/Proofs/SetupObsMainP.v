(** Per-run obligations about the observer-guarded statements of the generated main() (Gen/Gen_MainLoop.v) - C12:
    the set-up (seed F3-I), and the simulation part with `getPastModulation()` counted as what its name does not say
    (it clears the member; the tie to the generated body of the function is C19's, Proofs/ObserversMainP.v). *)
From Coq Require Import List ZArith String Bool.
From Inovesa Require Import Model.Driver Model.Setup Model.Observers Gen.Gen_MainLoop Proofs.SetupObsP Proofs.ObserversP.
Import ListNotations.
Local Open Scope Z_scope.

(** every `if` of the set-up whose condition reads the verbosity has a pure condition and pure branches *)
Lemma main_setup_observers_checked : obs_chk setup_observer_conds setup_pure_opaque main_setup = true.
Proof. vm_compute. reflexivity. Qed.

(** main() does test the verbosity in its set-up (the obligation above is not empty) *)
Lemma main_setup_has_observers : (1 <=? Z.of_nat (obs_count setup_observer_conds main_setup)) = true.
Proof. vm_compute. reflexivity. Qed.

(** `getPastModulation()` taken as a function that clears the member, whatever its body is today *)
Definition clearing_getpast : list pastop := [PCleared].

(** every observer-guarded statement of the simulation part is pure (none may call `getPastModulation()`) *)
Lemma main_loop_observers_checked_c : observers_pure clearing_getpast loop_observers = true.
Proof. vm_compute. reflexivity. Qed.

Section M.
  Variable K : kern.
  Notation st := (Driver.st K).

  Lemma main_setup_observers_pure sig cf (ev1 ev2 : senv K) :
    pure_env setup_pure_opaque ev1 -> pure_env setup_pure_opaque ev2 -> same_but_observers setup_observer_conds ev1 ev2 ->
    forall s : st,
      sexec sig ev1 cf main_setup s = sexec sig ev2 cf main_setup s /\
      full_run sig ev1 cf main_setup main_prog s = full_run sig ev2 cf main_setup main_prog s.
  Proof.
    intros P1 P2 S s. split.
    - apply (observers_do_not_matter K sig cf _ _ ev1 ev2 P1 P2 S main_setup main_setup_observers_checked).
    - apply (observers_do_not_matter_whole_program K sig cf _ _ ev1 ev2 main_setup main_prog P1 P2 S main_setup_observers_checked).
  Qed.

  Lemma main_loop_observers_pure_c sig cf junk unk o (s : st) :
    In o loop_observers -> oexec_stmt sig cf junk clearing_getpast unk o s = s.
  Proof. apply (observers_pure_sound K sig cf junk clearing_getpast unk loop_observers main_loop_observers_checked_c). Qed.
End M.

(** non-vacuity of the hypotheses: the environment in which nothing has an effect is pure, and two such
    environments that answer the verbosity tests differently differ in the observers only *)
Definition idle_env (K : kern) (v : bool) : senv K := mksenv (fun _ s => s) (fun _ => false) (fun n => if zmem n setup_observer_conds then v else false).
Lemma idle_env_pure K v : pure_env setup_pure_opaque (idle_env K v).
Proof. intros n _. split; reflexivity. Qed.
Lemma idle_envs_differ_in_observers K : same_but_observers setup_observer_conds (idle_env K true) (idle_env K false).
Proof.
  split; [reflexivity | split; [reflexivity|]]. intros n Hn. unfold idle_env. cbn [cnd].
  destruct (zmem n setup_observer_conds) eqn:E; auto. apply zmem_In in E. contradiction.
Qed.
