(** * WakePotentialMap::update / KickMap::updateSM over the GENERATED definitions, for the force law (C05).

    The closed forms C05 needs of the generated program of Model/WakeUpdate.v: the offset vector after update()
    is the wake potential on [0, nb*n), the table is [updateSM n it wp] on [0, nb*n*it) - for update() itself and
    for any offset vector run through the generated updateSM loops (the RF kick map) -, the generated geometry of
    a y-kick map, and [min(b,_lastbunch) = b].  These are the statements of Proofs/WakeUpdateP.v (family run,
    C08), proved here again so that the force law of C05 depends only on lemmas closed by [ring]/[lia]/computation
    on the generated functions - a re-associated index expression in KickMap::apply or updateSM survives, a
    changed count, stride, order or block rule does not - and on nothing whose proof script is sensitive to the
    shape of a generated expression. *)
From Coq Require Import List ZArith QArith Qcanon Lia Bool.
From Inovesa Require Import Base.FieldKit Base.Float32 Gen.Gen_Coeffs Model.Kick Model.RunKinds
  Gen.Gen_WakeUpdate Gen.Gen_Identity Gen.Gen_KickIndex Model.Copy Model.WakeUpdate Proofs.WeightsP Proofs.KickP Proofs.KickGridP
  Proofs.CopyP.
Import ListNotations.
Local Open Scope Z_scope.

(** ** the generated geometry of the wake kick map *)
Lemma hg_wk_kd_model n nb : wk_kd n nb = n.
Proof. reflexivity. Qed.
Lemma hg_wk_pd_model n nb : wk_pd n nb = n.
Proof. reflexivity. Qed.
Lemma hg_wk_xsize_model n nb : wk_xsize n nb = n.
Proof. reflexivity. Qed.
Lemma hg_wk_offset_size_model n nb : wk_offset_size n nb = nb * n.
Proof. unfold wk_offset_size. rewrite hg_wk_kd_model, hg_wk_pd_model. unfold km_offset_size. ring. Qed.
Lemma hg_wu_count_model nb n : wu_count nb n = nb * n.
Proof. unfold wu_count. ring. Qed.
Lemma hg_wu_src_model nb n i : wu_src_idx nb n i = i.
Proof. unfold wu_src_idx. ring. Qed.
Lemma hg_wu_dst_model nb n i : wu_dst_idx nb n i = i.
Proof. unfold wu_dst_idx. ring. Qed.
Lemma hg_usm_bound_model size it : usm_bound size it it = size.
Proof. unfold usm_bound. ring. Qed.
Lemma hg_usm_read_model it i : usm_offset_read it it i = i.
Proof. unfold usm_offset_read. ring. Qed.
Lemma hg_usm_write_model it i j1 : usm_hinfo_write it it i j1 = i * it + j1.
Proof. unfold usm_hinfo_write. ring. Qed.
(** the bunch whose table block bunch [b] reads: [_lastbunch] is the last bunch, so every bunch
    reads its own block *)
Lemma hg_km_lastbunch_model nb b : 0 <= b < nb -> Z.min b (km_lastbunch nb) = b.
Proof. intros H. unfold km_lastbunch. lia. Qed.
(** the program order: first the copy, then the table *)
Lemma hg_wu_prog_model : wu_prog = [WUCopy; WUUpdateSM].
Proof. reflexivity. Qed.
(** [_wakepotential] has one row per bunch and one column per position; the read-back loops visit all
    of it; C order *)
Lemma hg_wp_flat_model nb nx b x : wp_flat nb nx b x = b * nx + x.
Proof. unfold wp_flat, wp_row, wp_col, wp_extent1. ring. Qed.
Lemma hg_wp_extents_model nb nx :
  wp_extent0 nb nx = nb /\ wp_extent1 nb nx = nx /\ wp_bound_b nb nx = nb /\ wp_bound_x nb nx = nx.
Proof. unfold wp_extent0, wp_extent1, wp_bound_b, wp_bound_x. repeat split; ring. Qed.

(** ** KickMap::updateSM as loops = [updateSM] of Model/Kick.v on the entries it writes *)
Lemma hg_inner_loop_nat (kd it : Z) (o : Qc) (i : Z) (m : nat) (h : Z -> Z * Qc) k :
  fold_left (fun h' j1 => upd h' (i * it + j1) (sm_entry kd it o j1)) (zrange (Z.of_nat m)) h k =
  if in_rng (Z.of_nat m) (k - i * it) then sm_entry kd it o (k - i * it) else h k.
Proof.
  induction m as [|m IH].
  - cbn. rewrite in_rng_false by lia. reflexivity.
  - rewrite zrange_S, fold_left_app. cbn [fold_left]. unfold upd at 1.
    destruct (Z.eqb_spec k (i * it + Z.of_nat m)) as [->|Ne].
    + rewrite in_rng_true by lia. f_equal. lia.
    + rewrite IH. destruct (in_rng (Z.of_nat m) (k - i * it)) eqn:E.
      * apply in_rng_spec in E. rewrite in_rng_true by lia. reflexivity.
      * destruct (in_rng (Z.of_nat (S m)) (k - i * it)) eqn:E'; [|reflexivity].
        apply in_rng_spec in E'. rewrite in_rng_true in E by lia. discriminate.
Qed.

Lemma hg_inner_loop_Z (kd it : Z) (o : Qc) (i cnt : Z) (h : Z -> Z * Qc) k :
  0 <= cnt ->
  fold_left (fun h' j1 => upd h' (i * it + j1) (sm_entry kd it o j1)) (zrange cnt) h k =
  if in_rng cnt (k - i * it) then sm_entry kd it o (k - i * it) else h k.
Proof. intros Hc. rewrite <- (Z2Nat.id cnt) by exact Hc. apply hg_inner_loop_nat. Qed.

Lemma hg_outer_loop_nat (kd it : Z) (offs : Z -> Qc) (m : nat) (H : Z -> Z * Qc) k :
  0 < it ->
  fold_left (fun h i => fold_left (fun h' j1 => upd h' (i * it + j1) (sm_entry kd it (offs i) j1)) (zrange it) h)
            (zrange (Z.of_nat m)) H k =
  if in_rng (Z.of_nat m * it) k then updateSM kd it offs k else H k.
Proof.
  intros Hit. induction m as [|m IH].
  - cbn. rewrite in_rng_false by lia. reflexivity.
  - rewrite zrange_S, fold_left_app. cbn [fold_left].
    rewrite hg_inner_loop_Z by lia.
    destruct (in_rng it (k - Z.of_nat m * it)) eqn:E.
    + apply in_rng_spec in E. rewrite in_rng_true by nia.
      unfold updateSM. replace k with (Z.of_nat m * it + (k - Z.of_nat m * it)) at 2 3 by ring.
      rewrite div_lin, mod_lin by lia. reflexivity.
    + rewrite IH. destruct (in_rng (Z.of_nat m * it) k) eqn:E1.
      * apply in_rng_spec in E1. rewrite in_rng_true by nia. reflexivity.
      * destruct (in_rng (Z.of_nat (S m) * it) k) eqn:E2; [|reflexivity].
        apply in_rng_spec in E2. exfalso.
        assert (~ (0 <= k < Z.of_nat m * it)) by (intros C; rewrite in_rng_true in E1 by exact C; discriminate).
        assert (~ (0 <= k - Z.of_nat m * it < it)) by (intros C; rewrite in_rng_true in E by exact C; discriminate).
        nia.
Qed.

Theorem hg_updateSM_loop_spec kd it size offs H k :
  0 < it -> 0 <= size ->
  updateSM_loop kd it size offs H k = if in_rng (size * it) k then updateSM kd it offs k else H k.
Proof.
  intros Hit Hs. unfold updateSM_loop. rewrite hg_usm_bound_model.
  rewrite (fold_left_ext _ (fun h i => fold_left (fun h' j1 => upd h' (i * it + j1) (sm_entry kd it (offs i) j1)) (zrange it) h)).
  - rewrite <- (Z2Nat.id size) by exact Hs. apply hg_outer_loop_nat. exact Hit.
  - intros h i. apply fold_left_ext. intros h' j1. rewrite hg_usm_write_model, hg_usm_read_model. reflexivity.
Qed.

(** ** WakePotentialMap::update in closed form *)
Theorem hg_wake_offsets_spec n nb it wp i :
  wake_offsets n nb it wp i = if in_rng (nb * n) i then wp i else 0%Qc.
Proof.
  unfold wake_offsets, wake_update. rewrite hg_wu_prog_model. cbn [fold_left wu_exec km_offset km_init].
  rewrite hg_wk_xsize_model.
  rewrite copy_loop_id by (intros j; first [apply hg_wu_src_model | apply hg_wu_dst_model]).
  rewrite hg_wu_count_model. reflexivity.
Qed.

Theorem hg_wake_table_spec n nb it wp k :
  0 < it -> 0 <= n -> 0 <= nb -> 0 <= k < nb * n * it ->
  wake_table n nb it wp k = updateSM n it wp k.
Proof.
  intros Hit Hn Hnb Hk. unfold wake_table, wake_update. rewrite hg_wu_prog_model.
  cbn [fold_left wu_exec km_offset km_hinfo km_init].
  rewrite hg_wk_kd_model, hg_wk_offset_size_model, hg_wk_xsize_model.
  rewrite hg_updateSM_loop_spec by nia. rewrite in_rng_true by lia.
  unfold updateSM.
  rewrite copy_loop_id by (intros j; first [apply hg_wu_src_model | apply hg_wu_dst_model]).
  rewrite hg_wu_count_model. rewrite in_rng_true; [reflexivity|].
  split; [apply Z.div_pos; lia|]. apply Z.div_lt_upper_bound; lia.
Qed.

