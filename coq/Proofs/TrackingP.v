(** * Particle tracking: the clamp invariant (particles never leave the grid), the lookup of
    appendTracks, and what each map's applyTo computes. *)
From Coq Require Import List ZArith QArith Qcanon Qround Lia Bool Ring Field.
From Inovesa Require Import Base.FieldKit Base.Sums Base.Float32 Gen.Gen_Coeffs Model.Kick
  Model.Tracking Proofs.WeightsP Proofs.KickP Proofs.KickGridP.
Import ListNotations.
Local Open Scope Z_scope.

(** ** order on Qc *)

Lemma Qcltb_true a b : Qcltb a b = true <-> (a < b)%Qc.
Proof.
  unfold Qcltb. rewrite Qclt_alt. destruct (a ?= b)%Qc; split; intros H; congruence.
Qed.

Lemma Qcltb_false a b : Qcltb a b = false <-> (b <= a)%Qc.
Proof.
  split.
  - intros H. apply Qcnot_lt_le. intros L. apply Qcltb_true in L. congruence.
  - intros H. destruct (Qcltb a b) eqn:E; [|reflexivity].
    apply Qcltb_true in E. exfalso. exact (Qcle_not_lt _ _ H E).
Qed.

Lemma Qcz_le a b : a <= b -> (Qcz a <= Qcz b)%Qc.
Proof.
  intros H. unfold Qcz, Qcle, Q2Qc; cbn [this]. rewrite !Qred_correct.
  rewrite <- Zle_Qle. exact H.
Qed.

Lemma Qcz_lt a b : a < b -> (Qcz a < Qcz b)%Qc.
Proof.
  intros H. unfold Qcz, Qclt, Q2Qc; cbn [this]. rewrite !Qred_correct.
  rewrite <- Zlt_Qlt. exact H.
Qed.

Lemma Qcz_0 : Qcz 0 = 0%Qc. Proof. apply Qc_is_canon. reflexivity. Qed.
Lemma Qcz_1 : Qcz 1 = 1%Qc. Proof. apply Qc_is_canon. reflexivity. Qed.

Lemma std_min_le_r a b : (std_min a b <= b)%Qc.
Proof.
  unfold std_min. destruct (Qcltb b a) eqn:E; [apply Qcle_refl|].
  apply Qcltb_false in E. exact E.
Qed.

Lemma std_min_le_l a b : (std_min a b <= a)%Qc.
Proof.
  unfold std_min. destruct (Qcltb b a) eqn:E; [|apply Qcle_refl].
  apply Qcltb_true in E. apply Qclt_le_weak. exact E.
Qed.

Lemma std_min_id a b : (a <= b)%Qc -> std_min a b = a.
Proof. intros H. unfold std_min. apply Qcltb_false in H. rewrite H. reflexivity. Qed.

Lemma std_max_ge_l a b : (a <= std_max a b)%Qc.
Proof.
  unfold std_max. destruct (Qcltb a b) eqn:E; [|apply Qcle_refl].
  apply Qcltb_true in E. apply Qclt_le_weak. exact E.
Qed.

Lemma std_max_le a b c : (a <= c)%Qc -> (b <= c)%Qc -> (std_max a b <= c)%Qc.
Proof. intros Ha Hb. unfold std_max. destruct (Qcltb a b); assumption. Qed.

Lemma std_max_id a b : (a <= b)%Qc -> std_max a b = b.
Proof.
  intros H. unfold std_max. destruct (Qcltb a b) eqn:E; [reflexivity|].
  apply Qcltb_false in E. apply Qcle_antisym; assumption.
Qed.

(** the clamp of KickMap::applyTo / FokkerPlanckMap::applyTo: exact bounds, and identity inside *)
Lemma clamp_grid_bounds n v : 2 <= n -> (1 <= clamp_grid n v)%Qc /\ (clamp_grid n v <= Qcz (n - 1))%Qc.
Proof.
  intros Hn. unfold clamp_grid. split; [apply std_max_ge_l|].
  apply std_max_le; [|apply std_min_le_r].
  rewrite <- Qcz_1. apply Qcz_le. lia.
Qed.

Lemma clamp_grid_id n v : (1 <= v)%Qc -> (v <= Qcz (n - 1))%Qc -> clamp_grid n v = v.
Proof. intros H1 H2. unfold clamp_grid. rewrite std_min_id by exact H2. apply std_max_id. exact H1. Qed.

Lemma Qc01 : (0 <= 1)%Qc. Proof. discriminate. Qed.

Lemma clamp_grid_inside n v : 2 <= n -> (0 <= clamp_grid n v)%Qc /\ (clamp_grid n v <= Qcz (n - 1))%Qc.
Proof.
  intros Hn. destruct (clamp_grid_bounds n v Hn) as [H1 H2]. split; [|exact H2].
  apply Qcle_trans with 1%Qc; [exact Qc01 | exact H1].
Qed.

(** ** truncation of a coordinate inside the grid *)

Lemma Qctrunc_nonneg c : (0 <= c)%Qc -> Qctrunc c = Qcfloor c /\ 0 <= Qctrunc c.
Proof.
  intros H. unfold Qctrunc, Qcfloor, Qfloor. destruct c as [[a d] Hc]. cbn [this Qnum Qden] in *.
  unfold Qcle in H; cbn in H. unfold Qle in H; cbn in H.
  assert (Ha : 0 <= a) by lia.
  rewrite Z.quot_div_nonneg by lia. split; [reflexivity|]. apply Z.div_pos; lia.
Qed.

Lemma Qctrunc_upper c m : (c <= Qcz m)%Qc -> (0 <= c)%Qc -> Qctrunc c <= m.
Proof.
  intros H H0. destruct (Qctrunc_nonneg c H0) as [E _]. rewrite E.
  unfold Qcfloor. unfold Qcle, Qcz, Q2Qc in H; cbn [this] in H. rewrite Qred_correct in H.
  apply Qfloor_resp_le in H. rewrite Qfloor_Z in H. exact H.
Qed.

(** a coordinate the clamp has produced is a valid index of the axis array *)
Lemma index_defined n c :
  (0 <= c)%Qc -> (c <= Qcz (n - 1))%Qc -> 0 <= track_index c < n /\ Qcltb (Qcz (-1)) c = true.
Proof.
  intros H0 H1. unfold track_index. destruct (Qctrunc_nonneg c H0) as [_ P].
  pose proof (Qctrunc_upper c (n - 1) H1 H0). split; [lia|].
  apply Qcltb_true. apply Qclt_le_trans with 0%Qc; [|exact H0]. rewrite <- Qcz_0. apply Qcz_lt. lia.
Qed.

Theorem appendTracks_index_defined n p : inside n p -> lookup_defined n p = true.
Proof.
  intros (X0 & X1 & Y0 & Y1). unfold lookup_defined.
  destruct (index_defined n (px p) X0 X1) as [[A B] C].
  destruct (index_defined n (py p) Y0 Y1) as [[D E] F].
  rewrite C, F.
  repeat (apply andb_true_iff; split); try (apply Z.leb_le; lia); try (apply Z.ltb_lt; lia); reflexivity.
Qed.

(** ** every map keeps a particle inside; the moved coordinate lands in [1, n-1] *)

Definition in_clamp (n : Z) (c : Qc) : Prop := (1 <= c)%Qc /\ (c <= Qcz (n - 1))%Qc.

Lemma in_clamp_inside n c : in_clamp n c -> (0 <= c)%Qc /\ (c <= Qcz (n - 1))%Qc.
Proof. intros [H1 H2]. split; [apply Qcle_trans with 1%Qc; [exact Qc01|exact H1] | exact H2]. Qed.

Lemma kick_coord_bounds n offs kd pd : 2 <= n -> in_clamp n (kick_coord n offs kd pd).
Proof. intros Hn. unfold kick_coord. apply clamp_grid_bounds. exact Hn. Qed.

(** KickMap::applyTo: the coordinate along the kick ends in [1, n-1], the other is untouched *)
Lemma kick_applyTo_bounds dirx n offs p :
  2 <= n ->
  let p' := kick_applyTo dirx n offs p in
  if dirx then in_clamp n (px p') /\ py p' = py p else in_clamp n (py p') /\ px p' = px p.
Proof.
  intros Hn. unfold kick_applyTo. destruct dirx; cbn [px py]; split; try reflexivity;
    apply kick_coord_bounds; exact Hn.
Qed.

Lemma kick_stays_inside dirx n offs p : 2 <= n -> inside n p -> inside n (kick_applyTo dirx n offs p).
Proof.
  intros Hn (X0 & X1 & Y0 & Y1). pose proof (kick_applyTo_bounds dirx n offs p Hn) as B.
  destruct dirx; cbv zeta in B; destruct B as [B E]; apply in_clamp_inside in B; destruct B as [B0 B1];
    unfold inside; rewrite E; repeat split; assumption.
Qed.

Lemma fp_approx1_bounds n ip H p : 2 <= n ->
  in_clamp n (py (fp_approx1 n ip H p)) /\ px (fp_approx1 n ip H p) = px p.
Proof. intros Hn. unfold fp_approx1; cbn [px py]. split; [apply clamp_grid_bounds; exact Hn|reflexivity]. Qed.

Lemma fp_approx2_bounds n ip H D p : 2 <= n ->
  in_clamp n (py (fp_approx2 n ip H D p)) /\ px (fp_approx2 n ip H D p) = px p.
Proof.
  intros Hn. unfold fp_approx2; cbn [px py]. split; [|reflexivity].
  destruct (Qc_eq_dec _ 0).
  - destruct (Qcltb 0 _); unfold in_clamp.
    + split; [rewrite <- Qcz_1; apply Qcz_le; lia | apply Qcle_refl].
    + split; [apply Qcle_refl | rewrite <- Qcz_1; apply Qcz_le; lia].
  - apply clamp_grid_bounds; exact Hn.
Qed.

Lemma fp_stoch_bounds n e1 yc noise p : 2 <= n ->
  in_clamp n (py (fp_stoch n e1 yc noise p)) /\ px (fp_stoch n e1 yc noise p) = px p.
Proof. intros Hn. unfold fp_stoch; cbn [px py]. split; [apply clamp_grid_bounds; exact Hn|reflexivity]. Qed.

Lemma fp_stays_inside n p p' : inside n p -> in_clamp n (py p') /\ px p' = px p -> inside n p'.
Proof.
  intros (X0 & X1 & Y0 & Y1) [B E]. apply in_clamp_inside in B. destruct B as [B0 B1].
  unfold inside. rewrite E. repeat split; assumption.
Qed.

(** one lemma per map, collected: SourceMap::applyTo of every map keeps the particle inside *)
Theorem applyTo_stays_inside n o k p : 2 <= n -> inside n p -> inside n (applyTo n o k p).
Proof.
  intros Hn Hp. destruct o as [dirx offs| | |ip H|ip H D|e1 yc noise]; cbn [applyTo].
  - apply kick_stays_inside; assumption.
  - exact Hp.
  - exact Hp.
  - apply (fp_stays_inside n p); [exact Hp | apply fp_approx1_bounds; exact Hn].
  - apply (fp_stays_inside n p); [exact Hp | apply fp_approx2_bounds; exact Hn].
  - apply (fp_stays_inside n p); [exact Hp | apply fp_stoch_bounds; exact Hn].
Qed.

(** the exact bounds the clamps give, per map: which coordinate is moved and where it lands *)
Definition moved_bounds (n : Z) (o : op) (p p' : pos) : Prop :=
  match o with
  | OpKick true _ => in_clamp n (px p') /\ py p' = py p
  | OpKick false _ => in_clamp n (py p') /\ px p' = px p
  | OpIdent | OpFPNone => p' = p
  | OpFP1 _ _ | OpFP2 _ _ _ | OpFPStoch _ _ _ => in_clamp n (py p') /\ px p' = px p
  end.

Theorem applyTo_moved_bounds n o k p : 2 <= n -> moved_bounds n o p (applyTo n o k p).
Proof.
  intros Hn. destruct o as [dirx offs| | |ip H|ip H D|e1 yc noise]; cbn [applyTo moved_bounds]; try reflexivity.
  - pose proof (kick_applyTo_bounds dirx n offs p Hn) as B. destruct dirx; exact B.
  - apply fp_approx1_bounds; exact Hn.
  - apply fp_approx2_bounds; exact Hn.
  - apply fp_stoch_bounds; exact Hn.
Qed.

(** induction over the list of maps: after every map of every sequence the particle is inside *)
Theorem tracked_stay_inside n ops k p :
  2 <= n -> inside n p -> Forall (inside n) (trajectory n ops k p).
Proof.
  intros Hn. revert p. induction ops as [|o r IH]; intros p Hp; cbn [trajectory]; constructor.
  - apply applyTo_stays_inside; assumption.
  - apply IH. apply applyTo_stays_inside; assumption.
Qed.

Lemma mapi_from_inside n o ps k0 :
  2 <= n -> Forall (inside n) ps -> Forall (inside n) (mapi_from (applyTo n o) k0 ps).
Proof.
  intros Hn H. revert k0. induction H as [|p r Hp Hr IH]; intros k0; cbn [mapi_from]; constructor.
  - apply applyTo_stays_inside; assumption.
  - apply IH.
Qed.

(** the same for SourceMap::applyToAll over the whole vector of tracked particles *)
Theorem tracked_all_stay_inside n ops ps :
  2 <= n -> Forall (inside n) ps -> Forall (Forall (inside n)) (run_all n ops ps).
Proof.
  intros Hn. revert ps. induction ops as [|o r IH]; intros ps Hp; cbn [run_all]; constructor.
  - apply mapi_from_inside; assumption.
  - apply IH. apply mapi_from_inside; assumption.
Qed.

Corollary appendTracks_always_defined n ops ps :
  2 <= n -> Forall (inside n) ps ->
  Forall (Forall (fun p => lookup_defined n p = true)) (run_all n ops ps).
Proof.
  intros Hn Hp. pose proof (tracked_all_stay_inside n ops ps Hn Hp) as H.
  eapply Forall_impl; [|exact H]. intros l Hl. eapply Forall_impl; [|exact Hl].
  intros p. apply appendTracks_index_defined.
Qed.

(** the pinned tree's stochastic statement keeps neither: a particle at y = 1 with e1 = 1/2
    and a drawn number 2 ends at -3/2, and the lookup of appendTracks is undefined there *)
Theorem pinned_stochastic_leaves_grid_refuted :
  exists n e1 noise p, 2 <= n /\ inside n p /\
    ~ inside n (fp_stoch_pinned e1 noise p) /\ lookup_defined n (fp_stoch_pinned e1 noise p) = false.
Proof.
  exists 8, (Q2Qc (1 # 2)), (Qcz 2), (mkpos 1%Qc 1%Qc).
  split; [lia|]. split.
  - unfold inside; cbn [px py]. repeat split; vm_compute; discriminate.
  - split; [|vm_compute; reflexivity].
    intros (_ & _ & Y0 & _). cbn [fp_stoch_pinned py] in Y0. revert Y0. vm_compute. intros H; apply H; reflexivity.
Qed.
