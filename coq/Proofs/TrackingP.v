(** * Particle tracking: the clamp invariant (particles never leave the grid), the lookup of
    appendTracks, and what each map's applyTo computes. *)
From Coq Require Import List ZArith QArith Qcanon Qround Lia Bool Ring Field.
From Inovesa Require Import Base.FieldKit Base.Sums Base.Float32 Gen.Gen_Coeffs Model.Kick
  Model.Tracking Proofs.WeightsP Proofs.KickP Proofs.KickGridP.
Import ListNotations.
Local Open Scope Z_scope.

(** ** order on Qc *)

Lemma Qcltb_true a b : Qcltb a b = true <-> (a < b)%Qc.
Proof.
  unfold Qcltb. rewrite Qclt_alt. destruct (a ?= b)%Qc; split; intros H; congruence.
Qed.

Lemma Qcltb_false a b : Qcltb a b = false <-> (b <= a)%Qc.
Proof.
  split.
  - intros H. apply Qcnot_lt_le. intros L. apply Qcltb_true in L. congruence.
  - intros H. destruct (Qcltb a b) eqn:E; [|reflexivity].
    apply Qcltb_true in E. exfalso. exact (Qcle_not_lt _ _ H E).
Qed.

Lemma Qcz_le a b : a <= b -> (Qcz a <= Qcz b)%Qc.
Proof.
  intros H. unfold Qcz, Qcle, Q2Qc; cbn [this]. rewrite !Qred_correct.
  rewrite <- Zle_Qle. exact H.
Qed.

Lemma Qcz_lt a b : a < b -> (Qcz a < Qcz b)%Qc.
Proof.
  intros H. unfold Qcz, Qclt, Q2Qc; cbn [this]. rewrite !Qred_correct.
  rewrite <- Zlt_Qlt. exact H.
Qed.

Lemma Qcz_0 : Qcz 0 = 0%Qc. Proof. apply Qc_is_canon. reflexivity. Qed.
Lemma Qcz_1 : Qcz 1 = 1%Qc. Proof. apply Qc_is_canon. reflexivity. Qed.

Lemma std_min_le_r a b : (std_min a b <= b)%Qc.
Proof.
  unfold std_min. destruct (Qcltb b a) eqn:E; [apply Qcle_refl|].
  apply Qcltb_false in E. exact E.
Qed.

Lemma std_min_le_l a b : (std_min a b <= a)%Qc.
Proof.
  unfold std_min. destruct (Qcltb b a) eqn:E; [|apply Qcle_refl].
  apply Qcltb_true in E. apply Qclt_le_weak. exact E.
Qed.

Lemma std_min_id a b : (a <= b)%Qc -> std_min a b = a.
Proof. intros H. unfold std_min. apply Qcltb_false in H. rewrite H. reflexivity. Qed.

Lemma std_max_ge_l a b : (a <= std_max a b)%Qc.
Proof.
  unfold std_max. destruct (Qcltb a b) eqn:E; [|apply Qcle_refl].
  apply Qcltb_true in E. apply Qclt_le_weak. exact E.
Qed.

Lemma std_max_le a b c : (a <= c)%Qc -> (b <= c)%Qc -> (std_max a b <= c)%Qc.
Proof. intros Ha Hb. unfold std_max. destruct (Qcltb a b); assumption. Qed.

Lemma std_max_id a b : (a <= b)%Qc -> std_max a b = b.
Proof.
  intros H. unfold std_max. destruct (Qcltb a b) eqn:E; [reflexivity|].
  apply Qcltb_false in E. apply Qcle_antisym; assumption.
Qed.

(** the clamp of KickMap::applyTo / FokkerPlanckMap::applyTo: exact bounds, and identity inside *)
Lemma clamp_grid_bounds n v : 2 <= n -> (1 <= clamp_grid n v)%Qc /\ (clamp_grid n v <= Qcz (n - 1))%Qc.
Proof.
  intros Hn. unfold clamp_grid. split; [apply std_max_ge_l|].
  apply std_max_le; [|apply std_min_le_r].
  rewrite <- Qcz_1. apply Qcz_le. lia.
Qed.

Lemma clamp_grid_id n v : (1 <= v)%Qc -> (v <= Qcz (n - 1))%Qc -> clamp_grid n v = v.
Proof. intros H1 H2. unfold clamp_grid. rewrite std_min_id by exact H2. apply std_max_id. exact H1. Qed.

Lemma Qc01 : (0 <= 1)%Qc. Proof. discriminate. Qed.

Lemma clamp_grid_inside n v : 2 <= n -> (0 <= clamp_grid n v)%Qc /\ (clamp_grid n v <= Qcz (n - 1))%Qc.
Proof.
  intros Hn. destruct (clamp_grid_bounds n v Hn) as [H1 H2]. split; [|exact H2].
  apply Qcle_trans with 1%Qc; [exact Qc01 | exact H1].
Qed.

(** ** truncation of a coordinate inside the grid *)

Lemma Qctrunc_nonneg c : (0 <= c)%Qc -> Qctrunc c = Qcfloor c /\ 0 <= Qctrunc c.
Proof.
  intros H. unfold Qctrunc, Qcfloor, Qfloor. destruct c as [[a d] Hc]. cbn [this Qnum Qden] in *.
  unfold Qcle in H; cbn in H. unfold Qle in H; cbn in H.
  assert (Ha : 0 <= a) by lia.
  rewrite Z.quot_div_nonneg by lia. split; [reflexivity|]. apply Z.div_pos; lia.
Qed.

Lemma Qctrunc_upper c m : (c <= Qcz m)%Qc -> (0 <= c)%Qc -> Qctrunc c <= m.
Proof.
  intros H H0. destruct (Qctrunc_nonneg c H0) as [E _]. rewrite E.
  unfold Qcfloor. unfold Qcle, Qcz, Q2Qc in H; cbn [this] in H. rewrite Qred_correct in H.
  apply Qfloor_resp_le in H. rewrite Qfloor_Z in H. exact H.
Qed.

(** a coordinate the clamp has produced is a valid index of the axis array *)
Lemma index_defined n c :
  (0 <= c)%Qc -> (c <= Qcz (n - 1))%Qc -> 0 <= track_index c < n /\ Qcltb (Qcz (-1)) c = true.
Proof.
  intros H0 H1. unfold track_index. destruct (Qctrunc_nonneg c H0) as [_ P].
  pose proof (Qctrunc_upper c (n - 1) H1 H0). split; [lia|].
  apply Qcltb_true. apply Qclt_le_trans with 0%Qc; [|exact H0]. rewrite <- Qcz_0. apply Qcz_lt. lia.
Qed.

Theorem appendTracks_index_defined n p : inside n p -> lookup_defined n p = true.
Proof.
  intros (X0 & X1 & Y0 & Y1). unfold lookup_defined.
  destruct (index_defined n (px p) X0 X1) as [[A B] C].
  destruct (index_defined n (py p) Y0 Y1) as [[D E] F].
  rewrite C, F.
  repeat (apply andb_true_iff; split); try (apply Z.leb_le; lia); try (apply Z.ltb_lt; lia); reflexivity.
Qed.

(** ** every map keeps a particle inside; the moved coordinate lands in [1, n-1] *)

Definition in_clamp (n : Z) (c : Qc) : Prop := (1 <= c)%Qc /\ (c <= Qcz (n - 1))%Qc.

Lemma in_clamp_inside n c : in_clamp n c -> (0 <= c)%Qc /\ (c <= Qcz (n - 1))%Qc.
Proof. intros [H1 H2]. split; [apply Qcle_trans with 1%Qc; [exact Qc01|exact H1] | exact H2]. Qed.

Lemma kick_coord_bounds n offs kd pd : 2 <= n -> in_clamp n (kick_coord n offs kd pd).
Proof. intros Hn. unfold kick_coord. apply clamp_grid_bounds. exact Hn. Qed.

(** KickMap::applyTo: the coordinate along the kick ends in [1, n-1], the other is untouched *)
Lemma kick_applyTo_bounds dirx n offs p :
  2 <= n ->
  let p' := kick_applyTo dirx n offs p in
  if dirx then in_clamp n (px p') /\ py p' = py p else in_clamp n (py p') /\ px p' = px p.
Proof.
  intros Hn. unfold kick_applyTo. destruct dirx; cbn [px py]; split; try reflexivity;
    apply kick_coord_bounds; exact Hn.
Qed.

Lemma kick_stays_inside dirx n offs p : 2 <= n -> inside n p -> inside n (kick_applyTo dirx n offs p).
Proof.
  intros Hn (X0 & X1 & Y0 & Y1). pose proof (kick_applyTo_bounds dirx n offs p Hn) as B.
  destruct dirx; cbv zeta in B; destruct B as [B E]; apply in_clamp_inside in B; destruct B as [B0 B1];
    unfold inside; rewrite E; repeat split; assumption.
Qed.

Lemma fp_approx1_bounds n ip H p : 2 <= n ->
  in_clamp n (py (fp_approx1 n ip H p)) /\ px (fp_approx1 n ip H p) = px p.
Proof. intros Hn. unfold fp_approx1; cbn [px py]. split; [apply clamp_grid_bounds; exact Hn|reflexivity]. Qed.

Lemma fp_approx2_bounds n ip H D p : 2 <= n ->
  in_clamp n (py (fp_approx2 n ip H D p)) /\ px (fp_approx2 n ip H D p) = px p.
Proof.
  intros Hn. unfold fp_approx2; cbn [px py]. split; [|reflexivity].
  destruct (Qc_eq_dec _ 0).
  - destruct (Qcltb 0 _); unfold in_clamp.
    + split; [rewrite <- Qcz_1; apply Qcz_le; lia | apply Qcle_refl].
    + split; [apply Qcle_refl | rewrite <- Qcz_1; apply Qcz_le; lia].
  - apply clamp_grid_bounds; exact Hn.
Qed.

Lemma fp_stoch_bounds n e1 yc noise p : 2 <= n ->
  in_clamp n (py (fp_stoch n e1 yc noise p)) /\ px (fp_stoch n e1 yc noise p) = px p.
Proof. intros Hn. unfold fp_stoch; cbn [px py]. split; [apply clamp_grid_bounds; exact Hn|reflexivity]. Qed.

Lemma fp_stays_inside n p p' : inside n p -> in_clamp n (py p') /\ px p' = px p -> inside n p'.
Proof.
  intros (X0 & X1 & Y0 & Y1) [B E]. apply in_clamp_inside in B. destruct B as [B0 B1].
  unfold inside. rewrite E. repeat split; assumption.
Qed.

(** one lemma per map, collected: SourceMap::applyTo of every map keeps the particle inside *)
Theorem applyTo_stays_inside n o k p : 2 <= n -> inside n p -> inside n (applyTo n o k p).
Proof.
  intros Hn Hp. destruct o as [dirx offs| | |ip H|ip H D|e1 yc noise]; cbn [applyTo].
  - apply kick_stays_inside; assumption.
  - exact Hp.
  - exact Hp.
  - apply (fp_stays_inside n p); [exact Hp | apply fp_approx1_bounds; exact Hn].
  - apply (fp_stays_inside n p); [exact Hp | apply fp_approx2_bounds; exact Hn].
  - apply (fp_stays_inside n p); [exact Hp | apply fp_stoch_bounds; exact Hn].
Qed.

(** the exact bounds the clamps give, per map: which coordinate is moved and where it lands *)
Definition moved_bounds (n : Z) (o : op) (p p' : pos) : Prop :=
  match o with
  | OpKick true _ => in_clamp n (px p') /\ py p' = py p
  | OpKick false _ => in_clamp n (py p') /\ px p' = px p
  | OpIdent | OpFPNone => p' = p
  | OpFP1 _ _ | OpFP2 _ _ _ | OpFPStoch _ _ _ => in_clamp n (py p') /\ px p' = px p
  end.

Theorem applyTo_moved_bounds n o k p : 2 <= n -> moved_bounds n o p (applyTo n o k p).
Proof.
  intros Hn. destruct o as [dirx offs| | |ip H|ip H D|e1 yc noise]; cbn [applyTo moved_bounds]; try reflexivity.
  - pose proof (kick_applyTo_bounds dirx n offs p Hn) as B. destruct dirx; exact B.
  - apply fp_approx1_bounds; exact Hn.
  - apply fp_approx2_bounds; exact Hn.
  - apply fp_stoch_bounds; exact Hn.
Qed.

(** induction over the list of maps: after every map of every sequence the particle is inside *)
Theorem tracked_stay_inside n ops k p :
  2 <= n -> inside n p -> Forall (inside n) (trajectory n ops k p).
Proof.
  intros Hn. revert p. induction ops as [|o r IH]; intros p Hp; cbn [trajectory]; constructor.
  - apply applyTo_stays_inside; assumption.
  - apply IH. apply applyTo_stays_inside; assumption.
Qed.

Lemma mapi_from_inside n o ps k0 :
  2 <= n -> Forall (inside n) ps -> Forall (inside n) (mapi_from (applyTo n o) k0 ps).
Proof.
  intros Hn H. revert k0. induction H as [|p r Hp Hr IH]; intros k0; cbn [mapi_from]; constructor.
  - apply applyTo_stays_inside; assumption.
  - apply IH.
Qed.

(** the same for SourceMap::applyToAll over the whole vector of tracked particles *)
Theorem tracked_all_stay_inside n ops ps :
  2 <= n -> Forall (inside n) ps -> Forall (Forall (inside n)) (run_all n ops ps).
Proof.
  intros Hn. revert ps. induction ops as [|o r IH]; intros ps Hp; cbn [run_all]; constructor.
  - apply mapi_from_inside; assumption.
  - apply IH. apply mapi_from_inside; assumption.
Qed.

Corollary appendTracks_always_defined n ops ps :
  2 <= n -> Forall (inside n) ps ->
  Forall (Forall (fun p => lookup_defined n p = true)) (run_all n ops ps).
Proof.
  intros Hn Hp. pose proof (tracked_all_stay_inside n ops ps Hn Hp) as H.
  eapply Forall_impl; [|exact H]. intros l Hl. eapply Forall_impl; [|exact Hl].
  intros p. apply appendTracks_index_defined.
Qed.

(** the pinned tree's stochastic statement keeps neither: a particle at y = 1 with e1 = 1/2
    and a drawn number 2 ends at -3/2, and the lookup of appendTracks is undefined there *)
Theorem pinned_stochastic_leaves_grid_refuted :
  exists n e1 noise p, 2 <= n /\ inside n p /\
    ~ inside n (fp_stoch_pinned e1 noise p) /\ lookup_defined n (fp_stoch_pinned e1 noise p) = false.
Proof.
  exists 8, (Q2Qc (1 # 2)), (Qcz 2), (mkpos 1%Qc 1%Qc).
  split; [lia|]. split.
  - unfold inside; cbn [px py]. repeat split; vm_compute; discriminate.
  - split; [|vm_compute; reflexivity].
    intros (_ & _ & Y0 & _). cbn [fp_stoch_pinned py] in Y0. revert Y0. vm_compute. intros H; apply H; reflexivity.
Qed.

(** ** what KickMap::applyTo computes (applyTo_kick_model) *)

Lemma Qcz_trunc_frac c : (Qcz (Qctrunc c) + Qcfrac c)%Qc = c.
Proof. unfold Qcfrac, Qcz. ring. Qed.

Lemma wrap32_coord n c :
  n < 2 ^ 31 -> (0 <= c)%Qc -> (c <= Qcz (n - 1))%Qc ->
  wrap32 (Qctrunc c) = Qcfloor c /\ 0 <= Qcfloor c <= n - 1.
Proof.
  intros Hn H0 H1. destruct (Qctrunc_nonneg c H0) as [E P].
  pose proof (Qctrunc_upper c (n - 1) H1 H0) as Up. rewrite <- E. split; [|lia].
  apply wrap32_small. change (2 ^ 31) with 2147483648 in Hn. change (2 ^ 32) with 4294967296. lia.
Qed.

(** the particle's displacement is the linear interpolation, at its own perpendicular
    coordinate, of the offsets of the two neighbouring rows - inverted - and then the clamp *)
Definition kick_new (offs : Z -> Qc) (kd pd : Qc) : Qc :=
  let i := Qcfloor pd in
  let f := (pd - Qcz i)%Qc in
  (kd - ((1 - f) * offs i + f * offs (i + 1)%Z))%Qc.

Lemma kick_coord_model n offs kd pd :
  2 <= n < 2 ^ 31 -> (0 <= pd)%Qc -> (pd <= Qcz (n - 1))%Qc ->
  kick_coord n offs kd pd =
  clamp_grid n (if Qcfloor pd + 1 <? n then kick_new offs kd pd else kd).
Proof.
  intros Hn H0 H1. destruct (wrap32_coord n pd (proj2 Hn) H0 H1) as [W B].
  unfold kick_coord, kick_displacement, kick_new. cbv zeta. rewrite W.
  rewrite (wrap32_small (Qcfloor pd + 1))
    by (change (2 ^ 31) with 2147483648 in Hn; change (2 ^ 32) with 4294967296; lia).
  destruct (Qcfloor pd + 1 <? n); [|reflexivity].
  f_equal. destruct (Qctrunc_nonneg pd H0) as [E _].
  replace (Qcfrac pd) with (pd - Qcz (Qcfloor pd))%Qc; [reflexivity|].
  rewrite <- E. unfold Qcfrac, Qcz. reflexivity.
Qed.

Theorem applyTo_kick_model dirx n offs p :
  2 <= n < 2 ^ 31 -> inside n p ->
  kick_applyTo dirx n offs p =
  if dirx
  then mkpos (clamp_grid n (if Qcfloor (py p) + 1 <? n then kick_new offs (px p) (py p) else px p)) (py p)
  else mkpos (px p) (clamp_grid n (if Qcfloor (px p) + 1 <? n then kick_new offs (py p) (px p) else py p)).
Proof.
  intros Hn (X0 & X1 & Y0 & Y1). unfold kick_applyTo. destruct dirx; rewrite kick_coord_model by assumption; reflexivity.
Qed.

(** when the new position is on the grid proper the clamp is the identity *)
Corollary applyTo_kick_unclamped (dirx : bool) n offs p :
  2 <= n < 2 ^ 31 -> inside n p ->
  let kd := if dirx then px p else py p in
  let pd := if dirx then py p else px p in
  Qcfloor pd + 1 < n -> in_clamp n (kick_new offs kd pd) ->
  kick_applyTo dirx n offs p =
  if dirx then mkpos (kick_new offs kd pd) pd else mkpos pd (kick_new offs kd pd).
Proof.
  intros Hn Hp kd pd Hrow [C1 C2]. rewrite applyTo_kick_model by assumption.
  subst kd pd. destruct dirx.
  - destruct (Z.ltb_spec (Qcfloor (py p) + 1) n) as [L|G]; [|lia].
    rewrite clamp_grid_id by assumption; reflexivity.
  - destruct (Z.ltb_spec (Qcfloor (px p) + 1) n) as [L|G]; [|lia].
    rewrite clamp_grid_id by assumption; reflexivity.
Qed.

(** ** the deterministic displacement of tracking model 1 is the stencil's first moment *)

Lemma Qcz_sub a b : (Qcz a - Qcz b)%Qc = Qcz (a - b).
Proof.
  apply Qc_is_canon. unfold Qcz, Qcminus, Qcplus, Qcopp, Q2Qc; cbn [this]. rewrite !Qred_correct.
  unfold Qeq, Qplus, Qopp, inject_Z; cbn. lia.
Qed.
Lemma Qcz_m1 : Qcz (-1) = (- (1))%Qc. Proof. apply Qc_is_canon. reflexivity. Qed.
Lemma Qcz_2 : Qcz 2 = (1 + 1)%Qc. Proof. apply Qc_is_canon. reflexivity. Qed.
Lemma Qcz_m2 : Qcz (-2) = (- (1 + 1))%Qc. Proof. apply Qc_is_canon. reflexivity. Qed.
Lemma Qcz_3 : Qcz 3 = (1 + (1 + 1))%Qc. Proof. apply Qc_is_canon. reflexivity. Qed.
Lemma Qcz_m3 : Qcz (-3) = (- (1 + (1 + 1)))%Qc. Proof. apply Qc_is_canon. reflexivity. Qed.
Lemma Qcz_6 : Qcz 6 = ((1 + 1) * (1 + (1 + 1)))%Qc. Proof. apply Qc_is_canon. reflexivity. Qed.
Lemma Qcz_m6 : Qcz (-6) = (- ((1 + 1) * (1 + (1 + 1))))%Qc. Proof. apply Qc_is_canon. reflexivity. Qed.

Lemma Qc_nz6 : ((1 + 1) * (1 + (1 + 1)))%Qc <> 0%Qc. Proof. intro H; discriminate H. Qed.

(** the row of the table approximation1 reads for a particle at [y] *)
Definition fp_row (n : Z) (y : Qc) : Z := Z.min (wrap32 (Qcfloor y)) n.

Lemma fp_row_inside n y :
  n < 2 ^ 31 -> (0 <= y)%Qc -> (y <= Qcz (n - 1))%Qc -> fp_row n y = Qcfloor y /\ 0 <= Qcfloor y <= n - 1.
Proof.
  intros Hn H0 H1. destruct (wrap32_coord n y Hn H0 H1) as [W B]. destruct (Qctrunc_nonneg y H0) as [E _].
  unfold fp_row. rewrite <- E, W. split; lia.
Qed.

Definition drift1 (fptype : Z) (e1 d p : Qc) : Qc := if has_damp fptype then (- (e1 * p / d))%Qc else 0%Qc.

Ltac table_entry yi dt k :=
  replace (yi * dt + k) with (yi * dt + k) by reflexivity;
  rewrite (div_lin yi dt k) by lia; rewrite (mod_lin yi dt k) by lia.

Lemma wrap_idx_small h : 0 <= fst h < 2 ^ 32 -> wrap_idx h = h.
Proof. intros H. unfold wrap_idx. rewrite wrap32_small by exact H. destruct h; reflexivity. Qed.

Ltac qcz_norm :=
  rewrite ?Qcz_sub;
  repeat match goal with
         | |- context [Qcz (?a - ?b)] =>
             let t := eval cbn in (a - b) in
             (first [ replace (a - b) with 0 by lia | replace (a - b) with 1 by lia
                    | replace (a - b) with (-1) by lia | replace (a - b) with 2 by lia
                    | replace (a - b) with (-2) by lia ])
         end;
  rewrite ?Qcz_0, ?Qcz_1, ?Qcz_m1, ?Qcz_2, ?Qcz_m2, ?Qcz_3, ?Qcz_m3, ?Qcz_6, ?Qcz_m6.

(** two-sided (3-point) stencil, interior rows *)
Lemma fp_offset1_three n fptype e1 d yc pj yi :
  n < 2 ^ 31 -> d <> 0%Qc -> 1 <= yi < n - 1 ->
  qsum (map (fun j => let h := fp_table n 3 fptype e1 d yc pj (yi * 3 + j) in
                      ((Qcz yi - Qcz (fst h)) * snd h)%Qc) (zrange 3))
  = drift1 fptype e1 d (pj yi).
Proof.
  intros Hn Hd Hy. change (2 ^ 31) with 2147483648 in Hn.
  change (zrange 3) with [0; 1; 2]. cbn [map qsum fsum]. unfold qsum; cbn [fsum]. unfold fp_table.
  rewrite !(div_lin yi 3) by lia. rewrite !(mod_lin yi 3) by lia. cbn [Z.eqb Pos.eqb].
  assert (E1 : ((1 <=? yi) && (yi <? n - 1))%bool = true)
    by (apply andb_true_iff; split; [apply Z.leb_le|apply Z.ltb_lt]; lia).
  rewrite E1. rewrite !wrap_idx_small by (unfold fp3_entry; cbn [fst]; change (2 ^ 32) with 4294967296; lia).
  unfold fp3_entry, drift1. cbn [fst snd Z.to_nat Z.eqb Pos.eqb].
    change (Pos.to_nat 1) with 1%nat; change (Pos.to_nat 2) with 2%nat; change (Pos.to_nat 3) with 3%nat; cbn [nth].
  qcz_norm. unfold Qc2. rewrite Qcz_2.
  qc_unf. destruct (has_damp fptype), (has_diff fptype); field; repeat split; try assumption; exact Qc_nz2.
Qed.

(** cubic (4-point) stencils: both the lower and the upper variant *)
Lemma fp_offset1_four n fptype e1 d yc pj yi :
  n < 2 ^ 31 -> d <> 0%Qc -> 2 <= yi < n - 2 ->
  qsum (map (fun j => let h := fp_table n 4 fptype e1 d yc pj (yi * 4 + j) in
                      ((Qcz yi - Qcz (fst h)) * snd h)%Qc) (zrange 4))
  = drift1 fptype e1 d (pj yi).
Proof.
  intros Hn Hd Hy. change (2 ^ 31) with 2147483648 in Hn.
  change (zrange 4) with [0; 1; 2; 3]. cbn [map]. unfold qsum; cbn [fsum]. unfold fp_table.
  rewrite !(div_lin yi 4) by lia. rewrite !(mod_lin yi 4) by lia. cbn [Z.eqb Pos.eqb].
  assert (E1 : (n - 2 <=? yi) = false) by (apply Z.leb_gt; lia). rewrite E1.
  assert (E2 : (2 <=? yi) = true) by (apply Z.leb_le; lia). rewrite E2.
  destruct (Qctrunc yc <=? yi).
  - rewrite !wrap_idx_small by (unfold fp4_hi_entry; cbn [fst]; change (2 ^ 32) with 4294967296; lia).
    unfold fp4_hi_entry, drift1. cbn [fst snd Z.to_nat Z.eqb Pos.eqb].
    change (Pos.to_nat 1) with 1%nat; change (Pos.to_nat 2) with 2%nat; change (Pos.to_nat 3) with 3%nat; cbn [nth].
    qcz_norm. unfold Qc2, Qc6. rewrite ?Qcz_2, ?Qcz_6.
    qc_unf. destruct (has_damp fptype), (has_diff fptype); field; repeat split; try assumption;
      try exact Qc_nz2; try exact Qc_nz3; try exact Qc_nz6.
  - rewrite !wrap_idx_small by (unfold fp4_lo_entry; cbn [fst]; change (2 ^ 32) with 4294967296; lia).
    unfold fp4_lo_entry, drift1. cbn [fst snd Z.to_nat Z.eqb Pos.eqb].
    change (Pos.to_nat 1) with 1%nat; change (Pos.to_nat 2) with 2%nat; change (Pos.to_nat 3) with 3%nat; cbn [nth].
    qcz_norm. unfold Qc2, Qc6. rewrite ?Qcz_2, ?Qcz_6.
    qc_unf. destruct (has_damp fptype), (has_diff fptype); field; repeat split; try assumption;
      try exact Qc_nz2; try exact Qc_nz3; try exact Qc_nz6.
Qed.

(** approx_drift_formulae: for a particle on an interior row of the constructor's table the
    displacement of tracking model 1 is -e1 * p(row) / delta cells when the stencil contains
    the damping term and 0 otherwise - the first moment of the Fokker-Planck stencil; the
    diffusion part has no first moment. *)
Theorem approx_drift_formulae n dt fptype e1 d yc pj y :
  (dt = 3 \/ dt = 4) -> n < 2 ^ 31 -> d <> 0%Qc ->
  (0 <= y)%Qc -> (y <= Qcz (n - 1))%Qc ->
  let yi := Qcfloor y in
  dt - 2 <= yi < n - (dt - 2) ->
  fp_offset1 n dt (fp_table n dt fptype e1 d yc pj) y = drift1 fptype e1 d (pj yi).
Proof.
  intros Hdt Hn Hd H0 H1 yi Hin. destruct (fp_row_inside n y Hn H0 H1) as [R B].
  unfold fp_offset1. fold (fp_row n y). rewrite R. fold yi.
  destruct Hdt as [-> | ->].
  - apply fp_offset1_three; try assumption; lia.
  - apply fp_offset1_four; try assumption; lia.
Qed.

(** in cells: with the axis p(j) = (j - yc) * delta the displacement is -e1 * (row - zero bin) *)
Corollary approx_drift_cells n dt fptype e1 d yc y :
  (dt = 3 \/ dt = 4) -> n < 2 ^ 31 -> d <> 0%Qc ->
  (0 <= y)%Qc -> (y <= Qcz (n - 1))%Qc ->
  let yi := Qcfloor y in
  dt - 2 <= yi < n - (dt - 2) -> has_damp fptype = true ->
  fp_offset1 n dt (fp_table n dt fptype e1 d yc (fun j => ((Qcz j - yc) * d)%Qc)) y
  = (- (e1 * (Qcz yi - yc)))%Qc.
Proof.
  intros Hdt Hn Hd H0 H1 yi Hin Hdamp.
  rewrite approx_drift_formulae by assumption. fold yi. unfold drift1. rewrite Hdamp.
  field. exact Hd.
Qed.

(** on the zeroed border rows (two-sided: rows 0 and n-1; cubic: rows 0, 1, n-2, n-1, provided
    the zero-energy bin is not inside the lower border) tracking model 1 does not move the particle *)
Theorem approx_drift_border n dt fptype e1 d yc pj y :
  (dt = 3 \/ (dt = 4 /\ 2 <= Qctrunc yc)) -> n < 2 ^ 31 ->
  (0 <= y)%Qc -> (y <= Qcz (n - 1))%Qc ->
  let yi := Qcfloor y in
  ~ (dt - 2 <= yi < n - (dt - 2)) ->
  fp_offset1 n dt (fp_table n dt fptype e1 d yc pj) y = 0%Qc.
Proof.
  intros Hdt Hn H0 H1 yi Hout. destruct (fp_row_inside n y Hn H0 H1) as [R B].
  unfold fp_offset1. fold (fp_row n y). rewrite R. fold yi. fold yi in B.
  assert (Hd3 : 3 <= dt <= 4) by (destruct Hdt as [->|[-> _]]; lia).
  rewrite qsum_zrange. apply (sumZ_zero QcF). intros j Hj.
  assert (E : fp_table n dt fptype e1 d yc pj (yi * dt + j) = (0, 0%Qc)).
  { unfold fp_table. rewrite (div_lin yi dt j) by lia. rewrite (mod_lin yi dt j) by lia.
    destruct Hdt as [-> | [-> Hyc]]; cbn [Z.eqb Pos.eqb].
    - assert (E : ((1 <=? yi) && (yi <? n - 1))%bool = false).
      { destruct (Z.leb_spec 1 yi); destruct (Z.ltb_spec yi (n - 1)); cbn [andb]; try reflexivity. lia. }
      rewrite E. reflexivity.
    - destruct (Z.leb_spec (n - 2) yi) as [G|L]; [reflexivity|].
      assert (Y2 : yi < 2) by lia.
      destruct (Z.leb_spec (Qctrunc yc) yi) as [G2|L2]; [lia|].
      destruct (Z.leb_spec 2 yi) as [G3|L3]; [lia|]. reflexivity. }
  cbv zeta. rewrite E. cbn [fst snd]. qc_unf. ring.
Qed.

(** ** the stochastic model: moments under an abstract linear expectation

    [E] is any normalised linear functional on random variables over a sample space [Om]
    (linearity, normalisation and extensionality are all that is used).  The step is the one the
    code performs before its clamp, [y' = y - ((y - yc) * e1 + xi)]; [xi] has mean zero, second
    moment [s2] and is uncorrelated with [y]. *)
Section StochasticMoments.
  Variable K : Fld.
  Add Field KFst : (@Fth K).
  Local Open Scope F_scope.

  Definition stoch_lin (e1 yc noise y : K) : K := y - ((y - yc) * e1 + noise).

  Variable Om : Type.
  Variable E : (Om -> K) -> K.
  Hypothesis E_ext : forall X Y, (forall w, X w = Y w) -> E X = E Y.
  Hypothesis E_add : forall X Y, E (fun w => X w + Y w) = E X + E Y.
  Hypothesis E_scale : forall c X, E (fun w => c * X w) = c * E X.
  Hypothesis E_one : E (fun _ => 1) = 1.

  Variables (y xi : Om -> K) (e1 yc s2 : K).
  Hypothesis xi_mean : E xi = 0.
  Hypothesis xi_var : E (fun w => xi w * xi w) = s2.
  Hypothesis xi_uncorrelated : E (fun w => y w * xi w) = E y * E xi.

  Definition y' (w : Om) : K := stoch_lin e1 yc (xi w) (y w).
  Definition Var (X : Om -> K) : K := E (fun w => X w * X w) - E X * E X.

  Lemma E_const c : E (fun _ => c) = c.
  Proof.
    rewrite (E_ext _ (fun w => c * (fun _ => 1) w)) by (intros; ring). rewrite E_scale, E_one. ring.
  Qed.

  Lemma E_y' : E y' = (1 - e1) * E y + e1 * yc.
  Proof.
    unfold y', stoch_lin.
    rewrite (E_ext _ (fun w => (fun w => (1 - e1) * y w) w + (fun w => (fun _ => e1 * yc) w + (fun w => (- (1)) * xi w) w) w))
      by (intros; ring).
    rewrite !E_add, !E_scale, E_const, xi_mean. ring.
  Qed.

  (** the mean relaxes towards the zero-energy bin with the damping decrement *)
  Theorem stochastic_mean : E (fun w => y' w - yc) = (1 - e1) * E (fun w => y w - yc).
  Proof.
    rewrite (E_ext (fun w => y' w - yc) (fun w => y' w + (fun _ => - yc) w)) by (intros; ring).
    rewrite (E_ext (fun w => y w - yc) (fun w => y w + (fun _ => - yc) w)) by (intros; ring).
    rewrite !E_add, !E_const, E_y'. ring.
  Qed.

  Lemma E_y'2 : E (fun w => y' w * y' w) =
    (1 - e1) * (1 - e1) * E (fun w => y w * y w) + (1 + 1) * (1 - e1) * e1 * yc * E y + e1 * yc * (e1 * yc) + s2.
  Proof.
    unfold y', stoch_lin.
    rewrite (E_ext _ (fun w =>
       (fun w => ((1 - e1) * (1 - e1)) * (fun w => y w * y w) w) w +
       (fun w => (fun w => ((1 + 1) * (1 - e1) * e1 * yc) * y w) w +
         (fun w => (fun _ => e1 * yc * (e1 * yc)) w +
           (fun w => (fun w => xi w * xi w) w +
             (fun w => (fun w => (- ((1 + 1) * (1 - e1))) * (fun w => y w * xi w) w) w +
                       (fun w => (- ((1 + 1) * e1 * yc)) * xi w) w) w) w) w) w)) by (intros; ring).
    rewrite !E_add, !E_scale, E_const, xi_var, xi_uncorrelated, xi_mean. ring.
  Qed.

  (** the width: contraction by (1-e1)^2 plus the diffusion per step *)
  Theorem stochastic_variance : Var y' = (1 - e1) * (1 - e1) * Var y + s2.
  Proof. unfold Var. rewrite E_y'2, E_y'. ring. Qed.

  (** with the code's noise scale s2 = 2 e1 / delta^2 the variance recurrence has the fixed point
      1 / (delta^2 (1 - e1/2)): the unit width of the equilibrium (1/delta^2 in cells) up to O(e1) *)
  Theorem stochastic_fixed_point (delta V : K) :
    delta <> 0 -> e1 <> 0 -> (1 + 1) - e1 <> 0 ->
    s2 = (1 + 1) * e1 / (delta * delta) ->
    (V = (1 - e1) * (1 - e1) * V + s2 <-> V = (1 + 1) / (delta * delta * ((1 + 1) - e1))).
  Proof.
    intros Hd He H2 Hs. rewrite Hs. split; intros HV.
    - assert (P : V * (e1 * ((1 + 1) - e1)) = (1 + 1) * e1 / (delta * delta)).
      { transitivity (V - (1 - e1) * (1 - e1) * V); [ring|]. rewrite HV at 1. ring. }
      assert (Q : V = ((1 + 1) * e1 / (delta * delta)) / (e1 * ((1 + 1) - e1))).
      { rewrite <- P. field. split; assumption. }
      rewrite Q. field. repeat split; assumption.
    - rewrite HV. field. repeat split; assumption.
  Qed.

  (** one step from the equilibrium width 1/delta^2 changes the variance by the factor 1 + e1^2 *)
  Theorem stochastic_keeps_equilibrium (delta : K) :
    delta <> 0 -> s2 = (1 + 1) * e1 / (delta * delta) -> Var y = 1 / (delta * delta) ->
    Var y' = (1 + e1 * e1) / (delta * delta).
  Proof. intros Hd Hs Hv. rewrite stochastic_variance, Hv, Hs. field. exact Hd. Qed.

  (** the statement of the pinned tree, [y' = y - (y * e1 + xi)]: the mean relaxes towards grid
      row 0, not towards the zero-energy bin *)
  Definition y'_pinned (w : Om) : K := y w - (y w * e1 + xi w).
  Theorem pinned_stochastic_mean : E (fun w => y'_pinned w - yc) = (1 - e1) * E (fun w => y w - yc) - e1 * yc.
  Proof.
    unfold y'_pinned.
    rewrite (E_ext _ (fun w => (fun w => (1 - e1) * y w) w + (fun w => (fun _ => - yc) w + (fun w => (- (1)) * xi w) w) w))
      by (intros; ring).
    rewrite (E_ext (fun w => y w - yc) (fun w => y w + (fun _ => - yc) w)) by (intros; ring).
    rewrite !E_add, !E_scale, !E_const, xi_mean. ring.
  Qed.
End StochasticMoments.

Arguments stoch_lin {_}.

(** the code's stochastic step (after the fix) is that linear map followed by the clamp, which is
    the identity whenever the new row is on the grid proper *)
Lemma fp_stoch_raw_lin e1 yc noise y : fp_stoch_raw e1 yc noise y = stoch_lin (K:=QcF) e1 yc noise y.
Proof. reflexivity. Qed.

Theorem fp_stoch_is_linear_inside n e1 yc noise p :
  in_clamp n (stoch_lin (K:=QcF) e1 yc noise (py p)) ->
  fp_stoch n e1 yc noise p = mkpos (px p) (stoch_lin (K:=QcF) e1 yc noise (py p)).
Proof.
  intros [C1 C2]. unfold fp_stoch. rewrite fp_stoch_raw_lin. rewrite clamp_grid_id by assumption. reflexivity.
Qed.

(** a two-point sample space on which all hypotheses of the section hold (non-vacuity):
    y constant, xi = +-1 with equal weight, e1 = 1/2, delta = 1, s2 = 2 e1 / delta^2 = 1 *)
Definition E2 (X : bool -> Qc) : Qc := ((X true + X false) / (1 + 1))%Qc.
Example stochastic_hypotheses_satisfiable :
  let y := fun _ : bool => Qcz 5 in
  let xi := fun w : bool => if w then 1%Qc else (- (1))%Qc in
  (forall X Y, (forall w, X w = Y w) -> E2 X = E2 Y) /\
  (forall X Y, E2 (fun w => X w + Y w)%Qc = (E2 X + E2 Y)%Qc) /\
  (forall c X, E2 (fun w => c * X w)%Qc = (c * E2 X)%Qc) /\
  E2 (fun _ => 1%Qc) = 1%Qc /\
  E2 xi = 0%Qc /\ E2 (fun w => xi w * xi w)%Qc = ((1 + 1) * Q2Qc (1 # 2) / (1 * 1))%Qc /\
  E2 (fun w => y w * xi w)%Qc = (E2 y * E2 xi)%Qc.
Proof.
  cbv zeta. repeat split.
  - intros X Y H. unfold E2. rewrite !H. reflexivity.
  - intros X Y. unfold E2. field. exact Qc_nz2.
  - intros c X. unfold E2. field. exact Qc_nz2.
  - apply Qc_is_canon; reflexivity.
  - apply Qc_is_canon; reflexivity.
  - apply Qc_is_canon; reflexivity.
  - apply Qc_is_canon; reflexivity.
Qed.
