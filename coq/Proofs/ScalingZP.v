(** * The integer sizes main() hands to the fields, as generated from the source (Gen/Gen_ScalingZ.v):
    every cell padBunchProfiles writes and wakePotential reads back lies inside the buffers (C17, C06).

    The proofs do not depend on the *shape* of the generated terms more than necessary: conversions are
    destructed wherever they occur, conditionals are split wherever they occur, wrap-arounds are removed innermost
    first under the magnitude bounds; what must be there is the content: the length is at least
    (buckets-1)*spacing + grid size (and its rounded-up power of two). *)
From Coq Require Import List ZArith QArith Qcanon Qround Lia Bool ZifyBool.
From Inovesa Require Import Base.FieldKit Base.Float32 Model.Kick Model.Bounds Model.ScalingOps
  Gen.Gen_ScalingZ Proofs.KickP Proofs.BoundsP.
Import ListNotations.
Local Open Scope Z_scope.

(** upper_power_of_two on all of [1, 2^64): whenever the result is not the wrapped 0 it is >= the argument *)
Lemma upper_power_of_two_nonzero_ge v :
  1 <= v < 2 ^ 64 -> upper_power_of_two v <> 0 -> v <= upper_power_of_two v.
Proof.
  intros Hv Hnz. destruct (Z_le_gt_dec v (2 ^ 63)) as [Le|Gt].
  - pose proof (upper_power_of_two_ge v ltac:(lia)). lia.
  - exfalso. apply Hnz. unfold upper_power_of_two, w64.
    rewrite (Z.mod_small (v - 1)) by lia.
    rewrite smear_spec by lia.
    assert (L : Z.log2 (v - 1) = 63).
    { apply Z.log2_unique; [lia|]. change (2 ^ 63) with 9223372036854775808 in *.
      change (2 ^ Z.succ 63) with 18446744073709551616. change (2 ^ 64) with 18446744073709551616 in *. lia. }
    rewrite L. reflexivity.
Qed.

(** range of every successful conversion in the context *)
Ltac f2u_ranges :=
  repeat match goal with
         | H : f2u ?b ?q = Val ?z |- _ =>
           lazymatch goal with
           | _ : 0 <= z < 2 ^ b |- _ => fail
           | _ => pose proof (proj2 (proj1 (f2u_val b q z) H))
           end
         end.

(** destruct every conversion a hypothesis mentions; the undefined case makes the hypothesis absurd *)
Ltac split_convs H :=
  repeat match type of H with
         | context [conv_bind (f2u ?b ?q) _] =>
           let E := fresh "E" in destruct (f2u b q) eqn:E; cbn [conv_bind] in H; [|discriminate H]
         end.

(** split every conditional a hypothesis mentions *)
Ltac split_ifs H :=
  repeat match type of H with
         | context [if ?c then _ else _] => let C := fresh "C" in destruct c eqn:C
         end.

(** remove wrap-arounds innermost first when the wrapped value is in range *)
Ltac unwrap_in H :=
  unfold w64, wrap32 in H;
  change (2 ^ 64) with 18446744073709551616 in *; change (2 ^ 32) with 4294967296 in *;
  repeat match type of H with
         | context [?a mod ?m] =>
           lazymatch a with
           | context [_ mod _] => fail
           | _ => rewrite (Z.mod_small a m) in H by nia
           end
         end.

Lemma gen_pad_in_bounds LZ LQ LB sp nm b x :
  0 < LZ O_getGridSize < 2 ^ 32 -> 1 < LZ N_getBunchCurrents < 2 ^ 32 ->
  gen_spacing_bins LZ LQ LB = Val sp -> gen_wake_nfreqs LZ LQ LB = Val nm -> 0 < nm ->
  0 <= b < LZ N_getBunchCurrents -> 0 <= x < LZ O_getGridSize ->
  0 <= pad_index sp b x < nm.
Proof.
  set (n := LZ O_getGridSize). set (nb := LZ N_getBunchCurrents).
  intros Hn Hnb Hsp Hnm Hpos Hb Hx.
  unfold gen_spacing_bins in Hsp. unfold gen_wake_nfreqs in Hnm. fold n nb in Hsp, Hnm.
  (* the spacing: one conversion; the same term is shared by the length *)
  match type of Hsp with
  | context [conv_bind (f2u ?bt ?q) _] =>
    destruct (f2u bt q) as [s|] eqn:Es; cbn [conv_bind] in Hsp; [|discriminate Hsp];
    try rewrite Es in Hnm; cbn [conv_bind] in Hnm
  end.
  injection Hsp as ->.
  split_convs Hnm. f2u_ranges.
  assert (P : pad_index sp b x = b * sp + x).
  { unfold pad_index. rewrite pad_start_small64 by lia. reflexivity. }
  rewrite P. clear P.
  split_ifs Hnm; injection Hnm as <-; try lia.
  - (* rounded up to a power of two *)
    match goal with
    | |- _ <= _ < upper_power_of_two ?v =>
      assert (V : (nb - 1) * sp + n <= v < 2 ^ 64);
        [ change (2 ^ 64) with 18446744073709551616 in *; change (2 ^ 32) with 4294967296 in *;
          unfold w64, wrap32;
          repeat match goal with
                 | |- context [?a mod ?m] =>
                   lazymatch a with
                   | context [_ mod _] => fail
                   | _ => rewrite (Z.mod_small a m) by nia
                   end
                 end; nia
        | pose proof (upper_power_of_two_nonzero_ge v ltac:(nia) ltac:(lia)); nia ]
    end.
  - (* not rounded *)
    match goal with
    | |- _ <= _ < ?v =>
      assert (V : (nb - 1) * sp + n <= v);
        [ change (2 ^ 64) with 18446744073709551616 in *; change (2 ^ 32) with 4294967296 in *;
          unfold w64, wrap32;
          repeat match goal with
                 | |- context [?a mod ?m] =>
                   lazymatch a with
                   | context [_ mod _] => fail
                   | _ => rewrite (Z.mod_small a m) by nia
                   end
                 end; nia
        | nia ]
    end.
Qed.
