(** * The hand-written PhaseSpace model (Model/Moments.v) is the code the source has NOW.

    [Gen/Gen_Moments.v] is regenerated from src/PS/PhaseSpace.cpp on every run: closed forms of
    simpsonWeights, updateXProjection, updateYProjection, integrate, normalize, average, variance,
    integrateAndNormalize and of the refresh sequences of the constructor and of operator=.  Here every
    operation of the hand model is proved to *simulate* its generated counterpart: if the generated
    state and the model state agree on the cells of the object ([steq]), they still agree after the
    operation.  Hence every theorem of Properties_C09.v about the model is a theorem about the loop
    bounds, index expressions, weights, axis arguments and divisors the source has on this run: a loop
    that starts at 1, a dropped end weight, [_ws[y]] for [_ws[x]], [getDelta(0)] for [getDelta(axis)],
    a swapped quotient or a division by the total charge changes the generated closed form and one of
    the lemmas below no longer checks. *)
From Coq Require Import List ZArith Ring Field Lia Bool.
From Inovesa Require Import Base.FieldKit Base.Sums Model.Moments Model.MomentsIR Gen.Gen_Moments
  Proofs.MomentsP Proofs.SimpsonP.
Import ListNotations.

Lemma inr_true lo hi i : inr lo hi i = true <-> (lo <= i < hi)%Z.
Proof. unfold inr. rewrite andb_true_iff, Z.leb_le, Z.ltb_lt. tauto. Qed.
Lemma inr_in lo hi i : (lo <= i < hi)%Z -> inr lo hi i = true.
Proof. apply inr_true. Qed.
Lemma inr_out lo hi i : ~ (lo <= i < hi)%Z -> inr lo hi i = false.
Proof. intros H. destruct (inr lo hi i) eqn:E; [|reflexivity]. apply inr_true in E. contradiction. Qed.

Section GenTie.
  Variable K : Fld.
  Variable pos : K -> bool.
  Add Field KFmg : (@Fth K).
  Local Open Scope F_scope.

  Notation geom := (geom K).
  Notation state := (state K).

  (** the constants of an object as the generated code sees them; the weight vector is the one the
      constructor stores: [_ws(simpsonWeights())] *)
  Definition env_w (g : geom) (w : Z -> K) : env K :=
    mkEnv K (gn g) (gn g) (gnb g) (gdelta K g) (gqp K g) (gfs g) w pos.
  Definition env_of (g : geom) : env K := env_w g (ws K g).
  (** ... and the object as it is really constructed: the weights are what the generated
      simpsonWeights computes *)
  Definition env_gen (g : geom) : env K := env_w g (gen_ctor_ws K (env_of g)).
  Lemma gsum_sumn n f : gsum K 0 n f = sumn K n f.
  Proof. unfold gsum, sumn. rewrite Z.sub_0_r. reflexivity. Qed.

  (** [ring] after writing every quotient as a product with the inverse: decides the equalities of the field
      language that do not need a non-zero side condition (re-associated quotients included) *)
  Ltac fring := rewrite ?(Fdiv_def (Fth K)); ring.

  Lemma giter_ext k (F G : K -> K) x : (forall s, F s = G s) -> giter K k F x = giter K k G x.
  Proof.
    intros H. unfold giter. induction (Z.to_nat k) as [|n IH]; [reflexivity|].
    cbn [Nat.iter nat_rect]. change (F (Nat.iter n F x) = G (Nat.iter n G x)). rewrite IH. apply H.
  Qed.

  (** ** simpsonWeights *)
  Lemma giter_neg_succ k (x : K) : (0 <= k)%Z -> giter K (k + 1) (fun s => - s) x = - giter K k (fun s => - s) x.
  Proof.
    intros H. unfold giter. replace (Z.to_nat (k + 1)) with (S (Z.to_nat k)) by lia. reflexivity.
  Qed.

  Lemma iter_succ_r' (n : nat) (f : K -> K) (x : K) : Nat.iter (S n) f x = Nat.iter n f (f x).
  Proof.
    induction n as [|n IH]; [reflexivity|].
    change (f (Nat.iter (S n) f x) = f (Nat.iter n f (f x))). rewrite IH. reflexivity.
  Qed.

  Lemma getl_mid h03 : forall k dc i, (0 <= i < Z.of_nat k)%Z ->
    getl K (simpson_mid K h03 dc k) i = h03 * (three + giter K i (fun s => - s) dc).
  Proof.
    induction k as [|k IH]; intros dc i Hi; [lia|].
    cbn [simpson_mid]. destruct (Z.eq_dec i 0) as [->|Hn].
    - reflexivity.
    - unfold getl in *. destruct (0 <=? i)%Z eqn:E; [|lia].
      replace (Z.to_nat i) with (S (Z.to_nat (i - 1))) by lia. cbn [nth].
      specialize (IH (- dc) (i - 1)%Z). destruct (0 <=? i - 1)%Z eqn:E1; [|lia].
      rewrite IH by lia. f_equal. f_equal.
      replace i with ((i - 1) + 1)%Z at 2 by lia.
      unfold giter. replace (Z.to_nat (i - 1 + 1)) with (S (Z.to_nat (i - 1))) by lia.
      rewrite iter_succ_r'. reflexivity.
  Qed.

  Theorem gen_simpson_weights_is_model (g : geom) i :
    (1 <= gn g)%Z -> (0 <= i < gn g)%Z -> gen_simpsonWeights K (env_of g) i = ws K g i.
  Proof.
    intros Hn Hi. unfold gen_simpsonWeights, ws, simpson_weights. unfold env_of. cbn [e_nx e_delta env_w].
    unfold gdelta. cbn [Z.eqb].
    destruct (gn g <=? 1)%Z eqn:E1.
    - assert (gn g = 1%Z) by lia. assert (i = 0%Z) by lia. subst i.
      replace (0 =? gn g - 1)%Z with true by (symmetry; apply Z.eqb_eq; lia).
      unfold getl. cbn [Z.leb Z.compare Z.to_nat nth]. unfold three. fring.
    - apply Z.leb_gt in E1. destruct (i =? gn g - 1)%Z eqn:E2.
      + apply Z.eqb_eq in E2. unfold getl. destruct (0 <=? i)%Z eqn:E0; [|lia].
        replace (Z.to_nat i) with (S (Z.to_nat (i - 1))) by lia. cbn [nth].
        rewrite app_nth2 by (rewrite mid_length; lia). rewrite mid_length.
        replace (Z.to_nat (i - 1) - Z.to_nat (gn g - 2))%nat with O by lia. cbn [nth]. unfold three. fring.
      + apply Z.eqb_neq in E2. destruct (inr 1 (gn g - 1) i) eqn:E3.
        * apply inr_true in E3. unfold getl. destruct (0 <=? i)%Z eqn:E0; [|lia].
          replace (Z.to_nat i) with (S (Z.to_nat (i - 1))) by lia. cbn [nth].
          rewrite app_nth1 by (rewrite mid_length; lia).
          pose proof (getl_mid (gd0 g / three) (Z.to_nat (gn g - 2)) 1 (i - 1)%Z) as G.
          unfold getl in G. destruct (0 <=? i - 1)%Z eqn:E4; [|lia]. rewrite G by lia.
          match goal with |- context [giter K ?k ?F ?x] =>
            lazymatch F with (fun s => - s) => idtac
            | _ => rewrite (giter_ext k F (fun s => - s) x) by (intros; fring) end end.
          unfold three. fring.
        * assert (i = 0%Z).
          { destruct (Z.eq_dec i 0); [assumption|]. exfalso.
            assert (inr 1 (gn g - 1) i = true) by (apply inr_in; lia). congruence. }
          subst i. unfold getl. cbn [Z.leb Z.eqb Z.compare Z.to_nat nth]. unfold three. fring.
  Qed.

  (** ** agreement of a generated state with a model state on the cells of the object *)
  Definition steq (g : geom) (m : mst K) (s : state) : Prop :=
    (forall b x y, (0 <= b < gnb g)%Z -> (0 <= x < gn g)%Z -> (0 <= y < gn g)%Z -> m_data m b x y = sdata s b x y) /\
    (forall b i, (0 <= b < gnb g)%Z -> (0 <= i < gn g)%Z -> m_proj m 0%Z b i = sprojx s b i) /\
    (forall b i, (0 <= b < gnb g)%Z -> (0 <= i < gn g)%Z -> m_proj m 1%Z b i = sprojy s b i) /\
    (forall b, (0 <= b < gnb g)%Z -> m_fill m b = sfill s b) /\
    m_int m = sint s /\
    (forall a o b, (a = 0 \/ a = 1)%Z -> (o = 0 \/ o = 1)%Z -> (0 <= b < gnb g)%Z -> m_mom m a o b = smom s a o b).

  (** the state a model state corresponds to *)
  Definition to_mst (s : state) : mst K :=
    mkMst K (sdata s) (fun a => if (a =? 0)%Z then sprojx s else sprojy s) (sfill s) (sint s) (smom s).
  Lemma steq_to_mst g s : steq g (to_mst s) s.
  Proof. unfold steq, to_mst. cbn. repeat split; intros; reflexivity. Qed.

  Theorem gen_ctor_ws_is_model (g : geom) i :
    (0 <= i < gn g)%Z -> gen_ctor_ws K (env_of g) i = ws K g i.
  Proof. intros Hi. apply (gen_simpson_weights_is_model g i); lia. Qed.

  (** the simulation holds for every weight vector that agrees with the model's inside the grid - the
      generated operations read the weights nowhere else *)
  Section Sim.
  Variable g : geom.
  Variable w : Z -> K.
  Hypothesis Hw : forall i, (0 <= i < gn g)%Z -> w i = ws K g i.

  Ltac inr_tac :=
    repeat match goal with
    | |- context [inr ?a ?b ?c] => rewrite (inr_in a b c) by lia
    end.

  (** every sum of the goal whose summand is not (syntactically) [h] is rewritten to the sum of [h], the
      summands being equal on the range by [tac] (hypotheses about the cells) followed by [fring] *)
  Ltac to_model h tac :=
    repeat match goal with
    | |- context [sumn K ?n ?f] =>
        lazymatch f with h => fail | _ => idtac end;
        rewrite (sumn_ext K n f h) by (intros; cbv beta; tac; fring)
    end.

  Theorem gen_updateX_sim m s : steq g m s ->
    steq g (gen_updateXProjection K (env_w g w) m) (updateX K g s).
  Proof.
    intros (Hd & Hx & Hy & Hf & Hi & Hm). unfold gen_updateXProjection, updateX, steq.
    cbn [m_data m_proj m_fill m_int m_mom set_proj sdata sprojx sprojy sfill sint smom env_w e_nx e_ny e_nb e_ws].
    repeat split; try assumption.
    intros b i Hb Hi'. cbn [Z.eqb Pos.eqb andb]. inr_tac. cbn [andb].
    rewrite tab2_get by lia. rewrite ?gsum_sumn.
    to_model (fun y => sdata s b i y * ws K g y) ltac:(rewrite ?Hd by lia; rewrite ?Hw by lia). fring.
  Qed.

  Theorem gen_updateY_sim m s : steq g m s ->
    steq g (gen_updateYProjection K (env_w g w) m) (updateY K g s).
  Proof.
    intros (Hd & Hx & Hy & Hf & Hi & Hm). unfold gen_updateYProjection, updateY, steq.
    cbn [m_data m_proj m_fill m_int m_mom set_proj sdata sprojx sprojy sfill sint smom env_w e_nx e_ny e_nb e_ws].
    repeat split; try assumption.
    intros b i Hb Hi'. cbn [Z.eqb Pos.eqb andb]. inr_tac. cbn [andb].
    rewrite tab2_get by lia. rewrite ?gsum_sumn.
    to_model (fun x => sdata s b x i * ws K g x) ltac:(rewrite ?Hd by lia; rewrite ?Hw by lia). fring.
  Qed.

  Theorem gen_integrate_sim m s : steq g m s ->
    steq g (gen_integrate K (env_w g w) m) (integrate K g s).
  Proof.
    intros (Hd & Hx & Hy & Hf & Hi & Hm). unfold gen_integrate, integrate. cbv zeta.
    match goal with |- context [set_fill K ?f m] => set (G' := f) end.
    set (F := tabA 0 (gnb g) (fun b => sumn K (gn g) (fun x => sprojx s b x * ws K g x))).
    assert (HF : forall b, (0 <= b < gnb g)%Z -> G' b = F b).
    { intros b Hb. unfold G', F. cbn [env_w e_nx e_ny e_nb e_ws]. inr_tac. rewrite tabA_get by lia. rewrite ?gsum_sumn.
      to_model (fun x => sprojx s b x * ws K g x) ltac:(rewrite ?Hx by lia; rewrite ?Hw by lia). fring. }
    unfold steq.
    cbn [m_data m_proj m_fill m_int m_mom set_fill set_int sdata sprojx sprojy sfill sint smom env_w e_nx e_ny e_nb e_ws].
    repeat split; try assumption.
    rewrite ?gsum_sumn. to_model F ltac:(rewrite ?HF by lia). fring.
  Qed.

  Theorem gen_normalize_sim m s : steq g m s ->
    steq g (gen_normalize K (env_w g w) m) (normalize K pos g s).
  Proof.
    intros (Hd & Hx & Hy & Hf & Hi & Hm). unfold gen_normalize, normalize, steq.
    cbn [m_data m_proj m_fill m_int m_mom set_data sdata sprojx sprojy sfill sint smom env_w e_nx e_ny e_nb e_fset e_pos].
    repeat split; try assumption.
    intros b x y Hb Hx' Hy'. inr_tac. cbn [andb]. rewrite tab3_get by lia.
    destruct (pos (gfs g b)); rewrite ?Hd, ?Hf by lia; fring.
  Qed.

  Lemma maxi_n axis : (if (axis =? 0)%Z then gn g else gn g) = gn g.
  Proof. destruct (axis =? 0)%Z; reflexivity. Qed.

  Lemma proj_axis m s axis : steq g m s -> (axis = 0 \/ axis = 1)%Z -> forall b i,
    (0 <= b < gnb g)%Z -> (0 <= i < gn g)%Z -> m_proj m axis b i = sproj K s axis b i.
  Proof.
    intros (Hd & Hx & Hy & Hf & Hi & Hm) [-> | ->] b i Hb Hi'; unfold sproj; cbn [Z.eqb]; [apply Hx | apply Hy]; assumption.
  Qed.

  Theorem gen_average_sim m s axis : (axis = 0 \/ axis = 1)%Z -> steq g m s ->
    steq g (gen_average K (env_w g w) axis m) (average K pos g axis s).
  Proof.
    intros Ha H. pose proof H as (Hd & Hx & Hy & Hf & Hi & Hm). pose proof (proj_axis m s axis H Ha) as Hp.
    unfold gen_average, average, steq.
    cbn [m_data m_proj m_fill m_int m_mom MomentsIR.set_mom sdata sprojx sprojy sfill sint smom env_w e_nx e_ny e_nb e_fset e_pos e_qp e_delta].
    repeat split; try assumption.
    intros a o b Ha' Ho Hb. unfold Moments.set_mom.
    destruct ((a =? axis)%Z && (o =? 0)%Z)%bool eqn:E.
    - apply andb_true_iff in E. destruct E as [E1 E2]. apply Z.eqb_eq in E1, E2. subst a o. inr_tac. cbn [andb].
      rewrite tabA_get by lia. unfold avg_val. rewrite ?maxi_n, ?gsum_sumn.
      destruct (pos (gfs g b)); [|fring].
      to_model (fun i => sproj K s axis b i * gqp K g axis i) ltac:(rewrite ?Hp by lia).
      rewrite ?Hf by lia. fring.
    - cbn [andb]. apply Hm; assumption.
  Qed.

  Theorem gen_variance_sim m s axis : (axis = 0 \/ axis = 1)%Z -> steq g m s ->
    steq g (gen_variance K (env_w g w) axis m) (variance K pos g axis s).
  Proof.
    intros Ha H0. pose proof (gen_average_sim m s axis Ha H0) as H.
    unfold gen_variance, variance. cbv zeta.
    set (m1 := gen_average K (env_w g w) axis m) in *. set (s1 := average K pos g axis s) in *.
    pose proof H as (Hd & Hx & Hy & Hf & Hi & Hm). pose proof (proj_axis m1 s1 axis H Ha) as Hp. unfold steq.
    cbn [m_data m_proj m_fill m_int m_mom MomentsIR.set_mom sdata sprojx sprojy sfill sint smom env_w e_nx e_ny e_nb e_fset e_pos e_qp e_delta].
    repeat split; try assumption.
    intros a o b Ha' Ho Hb. unfold Moments.set_mom.
    destruct ((a =? axis)%Z && (o =? 1)%Z)%bool eqn:E.
    - apply andb_true_iff in E. destruct E as [E1 E2]. apply Z.eqb_eq in E1, E2. subst a o. inr_tac. cbn [andb].
      rewrite tabA_get by lia. unfold var_val. rewrite ?maxi_n, ?gsum_sumn.
      pose proof (Hm axis 0%Z b Ha (or_introl eq_refl) Hb) as Hm0.
      destruct (pos (gfs g b)); [|fring].
      to_model (fun i => sproj K s1 axis b i * ((gqp K g axis i - smom s1 axis 0%Z b) * (gqp K g axis i - smom s1 axis 0%Z b)))
               ltac:(rewrite ?Hp by lia; rewrite ?Hm0).
      rewrite ?Hf by lia. fring.
    - cbn [andb]. apply Hm; assumption.
  Qed.

  Theorem gen_integrateAndNormalize_sim m s : steq g m s ->
    steq g (gen_integrateAndNormalize K (env_w g w) m) (normalize K pos g (integrate K g s)).
  Proof. intros H. unfold gen_integrateAndNormalize. cbv zeta. apply gen_normalize_sim, gen_integrate_sim, H. Qed.

  (** the two projections are computed from the data alone and stored in different members: they commute
      (so the source may refresh them in either order before integrate()) *)
  Lemma updateXY_comm s : updateY K g (updateX K g s) = updateX K g (updateY K g s).
  Proof. reflexivity. Qed.

  Ltac refresh_tac H :=
    first [ apply gen_integrate_sim, gen_updateY_sim, gen_updateX_sim, H
          | rewrite updateXY_comm; apply gen_integrate_sim, gen_updateX_sim, gen_updateY_sim, H ].

  (** the refresh sequence of the constructor and of operator= is the model's [refresh] *)
  Theorem gen_ctor_refresh_sim m s : steq g m s ->
    steq g (gen_ctor_refresh K (env_w g w) m) (refresh K g s).
  Proof. intros H. unfold gen_ctor_refresh, refresh. refresh_tac H. Qed.
  Theorem gen_assign_refresh_sim m s : steq g m s ->
    steq g (gen_assign_refresh K (env_w g w) m) (refresh K g s).
  Proof. intros H. unfold gen_assign_refresh, refresh. refresh_tac H. Qed.

  (** ** operation histories: the generated operations simulate [run_ops] *)
  Definition gen_run_op (E : env K) (m : mst K) (op : Z) : mst K :=
    if (op =? 0)%Z then gen_updateXProjection K E m
    else if (op =? 1)%Z then gen_updateYProjection K E m
    else if (op =? 2)%Z then gen_integrate K E m
    else if (op =? 3)%Z then gen_normalize K E m
    else if (op =? 4)%Z then gen_average K E 0%Z m
    else if (op =? 5)%Z then gen_average K E 1%Z m
    else if (op =? 6)%Z then gen_variance K E 0%Z m
    else if (op =? 7)%Z then gen_variance K E 1%Z m
    else if (op =? 8)%Z then gen_integrateAndNormalize K E m
    else m.
  Definition gen_run_ops (E : env K) (m : mst K) (ops : list Z) : mst K := fold_left (gen_run_op E) ops m.

  Lemma gen_run_op_sim m s op : steq g m s -> steq g (gen_run_op (env_w g w) m op) (run_op K pos g s op).
  Proof.
    intros H. unfold gen_run_op, run_op.
    repeat match goal with |- context [(op =? ?k)%Z] => destruct (op =? k)%Z end;
      auto using gen_updateX_sim, gen_updateY_sim, gen_integrate_sim, gen_normalize_sim,
                 gen_average_sim, gen_variance_sim, gen_integrateAndNormalize_sim.
  Qed.

  Theorem gen_run_ops_sim ops : forall m s, steq g m s ->
    steq g (gen_run_ops (env_w g w) m ops) (run_ops K pos g s ops).
  Proof.
    unfold gen_run_ops, run_ops. induction ops as [|op ops IH]; intros m s H; cbn [fold_left]; [exact H|].
    apply IH, gen_run_op_sim, H.
  Qed.

  (** ** the property theorems, stated on the generated operations themselves *)
  Definition of_mst (m : mst K) : state :=
    mkState K (m_data m) (m_proj m 0%Z) (m_proj m 1%Z) (m_fill m) (m_int m) (m_mom m).
  Lemma steq_of_mst m : steq g m (of_mst m).
  Proof. unfold steq, of_mst. cbn. repeat split; intros; reflexivity. Qed.

  Lemma sproj_of_mst m axis : (axis = 0 \/ axis = 1)%Z -> sproj K (of_mst m) axis = m_proj m axis.
  Proof. intros [-> | ->]; reflexivity. Qed.


  Theorem gen_normalize_restores_share (m : mst K) b :
    (0 <= b < gnb g)%Z -> pos (gfs g b) = true ->
    m_fill m b = charge_of K g (m_data m) b -> m_fill m b <> 0 ->
    m_fill (gen_integrate K (env_w g w) (gen_updateXProjection K (env_w g w) (gen_normalize K (env_w g w) m))) b = gfs g b.
  Proof.
    intros Hb Hp Hc Hz.
    pose proof (gen_integrate_sim _ _ (gen_updateX_sim _ _ (gen_normalize_sim _ _ (steq_of_mst m)))) as (_ & _ & _ & Hf & _).
    rewrite (Hf b Hb). apply normalize_restores_share; assumption.
  Qed.

  Theorem gen_normalize_empty_bucket (m : mst K) b :
    (0 <= b < gnb g)%Z -> pos (gfs g b) = false ->
    m_fill (gen_integrate K (env_w g w) (gen_updateXProjection K (env_w g w) (gen_normalize K (env_w g w) m))) b = 0 /\
    (forall x y, (0 <= x < gn g)%Z -> (0 <= y < gn g)%Z -> m_data (gen_normalize K (env_w g w) m) b x y = 0).
  Proof.
    intros Hb Hp.
    pose proof (gen_normalize_sim _ _ (steq_of_mst m)) as Hn.
    pose proof (gen_integrate_sim _ _ (gen_updateX_sim _ _ Hn)) as (_ & _ & _ & Hf & _).
    destruct (normalize_empty_bucket K pos g (of_mst m) b Hb Hp) as [A B]. split.
    - rewrite (Hf b Hb). exact A.
    - intros x y Hx Hy. destruct Hn as (Hd & _). rewrite (Hd b x y Hb Hx Hy). apply B; assumption.
  Qed.

  Theorem gen_average_is_first_moment (m : mst K) axis b :
    (axis = 0 \/ axis = 1)%Z -> (0 <= b < gnb g)%Z -> pos (gfs g b) = true -> m_fill m b <> 0 ->
    m_mom (gen_average K (env_w g w) axis m) axis 0%Z b =
    first_moment K (gn g) (gdelta K g axis) (gqp K g axis) (m_proj m axis b) (m_fill m b).
  Proof.
    intros Ha Hb Hp Hz.
    pose proof (gen_average_sim _ _ axis Ha (steq_of_mst m)) as (_ & _ & _ & _ & _ & Hm).
    rewrite (Hm axis 0%Z b Ha (or_introl eq_refl) Hb).
    rewrite (average_is_first_moment K pos g (of_mst m) axis b Hb Hp Hz), (sproj_of_mst m axis Ha). reflexivity.
  Qed.

  Theorem gen_variance_is_second_central_moment (m : mst K) axis b :
    (axis = 0 \/ axis = 1)%Z -> (0 <= b < gnb g)%Z -> pos (gfs g b) = true -> m_fill m b <> 0 ->
    let m' := gen_variance K (env_w g w) axis m in
    m_mom m' axis 0%Z b =
      first_moment K (gn g) (gdelta K g axis) (gqp K g axis) (m_proj m axis b) (m_fill m b) /\
    m_mom m' axis 1%Z b =
      second_central_moment K (gn g) (gdelta K g axis) (gqp K g axis) (m_proj m axis b) (m_fill m b)
                            (m_mom m' axis 0%Z b).
  Proof.
    intros Ha Hb Hp Hz m'.
    pose proof (gen_variance_sim _ _ axis Ha (steq_of_mst m)) as (_ & _ & _ & _ & _ & Hm).
    fold m' in Hm.
    rewrite (Hm axis 0%Z b Ha (or_introl eq_refl) Hb), (Hm axis 1%Z b Ha (or_intror eq_refl) Hb).
    destruct (variance_is_second_central_moment K pos g (of_mst m) axis b Hb Hp Hz) as [A B].
    rewrite (sproj_of_mst m axis Ha) in A, B. split; assumption.
  Qed.

  Theorem gen_moments_empty_bucket (m : mst K) axis b :
    (axis = 0 \/ axis = 1)%Z -> (0 <= b < gnb g)%Z -> pos (gfs g b) = false ->
    m_mom (gen_variance K (env_w g w) axis m) axis 0%Z b = 0 /\ m_mom (gen_variance K (env_w g w) axis m) axis 1%Z b = 0.
  Proof.
    intros Ha Hb Hp.
    pose proof (gen_variance_sim _ _ axis Ha (steq_of_mst m)) as (_ & _ & _ & _ & _ & Hm).
    rewrite (Hm axis 0%Z b Ha (or_introl eq_refl) Hb), (Hm axis 1%Z b Ha (or_intror eq_refl) Hb).
    apply moments_empty_bucket; assumption.
  Qed.
  End Sim.

  (** the two instances: the model's own weights, and the weights the generated simpsonWeights computes
      (the object as constructed) *)
  Theorem gen_run_ops_sim_of g ops m s : steq g m s ->
    steq g (gen_run_ops (env_of g) m ops) (run_ops K pos g s ops).
  Proof. apply (gen_run_ops_sim g (ws K g)). intros i _. reflexivity. Qed.

  Theorem gen_run_ops_sim_constructed g ops m s : steq g m s ->
    steq g (gen_run_ops (env_gen g) m ops) (run_ops K pos g s ops).
  Proof. apply (gen_run_ops_sim g (gen_ctor_ws K (env_of g))). apply gen_ctor_ws_is_model. Qed.

  Theorem gen_refresh_sim_constructed g m s : steq g m s ->
    steq g (gen_ctor_refresh K (env_gen g) m) (refresh K g s) /\
    steq g (gen_assign_refresh K (env_gen g) m) (refresh K g s).
  Proof.
    intros H. split.
    - apply (gen_ctor_refresh_sim g (gen_ctor_ws K (env_of g)) (gen_ctor_ws_is_model g)). exact H.
    - apply (gen_assign_refresh_sim g (gen_ctor_ws K (env_of g)) (gen_ctor_ws_is_model g)). exact H.
  Qed.

  (** the property theorems on the object as constructed *)
  Theorem gen_normalize_restores_share_c (g : geom) (m : mst K) b :
    (0 <= b < gnb g)%Z -> pos (gfs g b) = true ->
    m_fill m b = charge_of K g (m_data m) b -> m_fill m b <> 0 ->
    m_fill (gen_integrate K (env_gen g) (gen_updateXProjection K (env_gen g) (gen_normalize K (env_gen g) m))) b = gfs g b.
  Proof. exact (gen_normalize_restores_share g _ (gen_ctor_ws_is_model g) m b). Qed.

  Theorem gen_normalize_empty_bucket_c (g : geom) (m : mst K) b :
    (0 <= b < gnb g)%Z -> pos (gfs g b) = false ->
    m_fill (gen_integrate K (env_gen g) (gen_updateXProjection K (env_gen g) (gen_normalize K (env_gen g) m))) b = 0 /\
    (forall x y, (0 <= x < gn g)%Z -> (0 <= y < gn g)%Z -> m_data (gen_normalize K (env_gen g) m) b x y = 0).
  Proof. exact (gen_normalize_empty_bucket g _ (gen_ctor_ws_is_model g) m b). Qed.

  Theorem gen_average_is_first_moment_c (g : geom) (m : mst K) axis b :
    (axis = 0 \/ axis = 1)%Z -> (0 <= b < gnb g)%Z -> pos (gfs g b) = true -> m_fill m b <> 0 ->
    m_mom (gen_average K (env_gen g) axis m) axis 0%Z b =
    first_moment K (gn g) (gdelta K g axis) (gqp K g axis) (m_proj m axis b) (m_fill m b).
  Proof. exact (gen_average_is_first_moment g _ m axis b). Qed.

  Theorem gen_variance_is_second_central_moment_c (g : geom) (m : mst K) axis b :
    (axis = 0 \/ axis = 1)%Z -> (0 <= b < gnb g)%Z -> pos (gfs g b) = true -> m_fill m b <> 0 ->
    let m' := gen_variance K (env_gen g) axis m in
    m_mom m' axis 0%Z b =
      first_moment K (gn g) (gdelta K g axis) (gqp K g axis) (m_proj m axis b) (m_fill m b) /\
    m_mom m' axis 1%Z b =
      second_central_moment K (gn g) (gdelta K g axis) (gqp K g axis) (m_proj m axis b) (m_fill m b)
                            (m_mom m' axis 0%Z b).
  Proof. exact (gen_variance_is_second_central_moment g _ m axis b). Qed.

  Theorem gen_moments_empty_bucket_c (g : geom) (m : mst K) axis b :
    (axis = 0 \/ axis = 1)%Z -> (0 <= b < gnb g)%Z -> pos (gfs g b) = false ->
    m_mom (gen_variance K (env_gen g) axis m) axis 0%Z b = 0 /\ m_mom (gen_variance K (env_gen g) axis m) axis 1%Z b = 0.
  Proof. exact (gen_moments_empty_bucket g _ m axis b). Qed.
End GenTie.
