(** * The C06 / C07 theorems with the twiddle laws bundled (what Props/ states). *)
From Coq Require Import List ZArith Lia QArith Qcanon Reals Lra.
From Inovesa Require Import Base.FieldKit Base.Sums Base.RInst Base.Float32 Model.DFT
  Proofs.DFTP Proofs.CSRP Proofs.DFTInst.
Import ListNotations.

(** the algebraic laws of a twiddle table [cs m = cos(2 pi m/N)], [sn m = sin(2 pi m/N)] *)
Definition twiddle_laws (K : Fld) (cs sn : Z -> K) : Prop :=
  cs 0%Z = f1 /\ sn 0%Z = f0 /\
  (forall a b, cs (a + b)%Z = (cs a * cs b - sn a * sn b)%F) /\
  (forall a b, sn (a + b)%Z = (sn a * cs b + cs a * sn b)%F) /\
  (forall a, cs (- a)%Z = cs a) /\ (forall a, sn (- a)%Z = (- sn a)%F).
Definition twiddle_period (K : Fld) (N : Z) (cs sn : Z -> K) : Prop :=
  (forall a, cs (a + N)%Z = cs a) /\ (forall a, sn (a + N)%Z = sn a).

(** a fresh object: the cell the loop [i < _nmax/2] never writes holds zero *)
Definition fresh_top (K : Fld) (N : Z) (stale : Z -> cplx K) : Prop := stale (N / 2)%Z = czero.

Lemma laws_R N : (0 < N)%Z -> twiddle_laws RF (csR N) (snR N) /\ twiddle_period RF N (csR N) (snR N).
Proof.
  intros H. repeat split.
  - exact (csR_0 N H). - exact (snR_0 N H). - exact (csR_add N H). - exact (snR_add N H).
  - exact (csR_neg N H). - exact (snR_neg N H). - exact (csR_per N H). - exact (snR_per N H).
Qed.
Lemma laws_Qc4 : twiddle_laws QcF cs4 sn4 /\ twiddle_period QcF 4 cs4 sn4.
Proof.
  repeat split.
  - exact cs4_add. - exact sn4_add. - exact cs4_neg. - exact sn4_neg. - exact cs4_per. - exact sn4_per.
Qed.

Ltac use_laws H := destruct H as (c0 & s0 & ca & sa & cn & sn').
Ltac use_per H := destruct H as (cp & sp).

Section Bundled.
  Variable K : Fld.
  Variable N : Z.
  Variables cs sn : Z -> K.
  Hypothesis N2 : (2 <= N)%Z.
  Hypothesis L : twiddle_laws K cs sn.
  Local Open Scope F_scope.

  Theorem t_wake_padded_convolution (Zi stale : Z -> cplx K) (p : Z -> K) j :
    fresh_top K N stale ->
    wake_padded N cs sn Zi stale p j = sumZ 0 (nN N) (fun u => p u * kernel K N cs sn Zi (j - u)).
  Proof. use_laws L. intros. eapply wake_padded_convolution; eassumption. Qed.

  Theorem t_wake_is_convolution (Zi stale : Z -> cplx K) (p : Z -> K) j :
    twiddle_period K N cs sn -> fresh_top K N stale ->
    wake_padded N cs sn Zi stale p j = sumZ 0 (nN N) (fun u => p u * kernel K N cs sn Zi ((j - u) mod N)%Z).
  Proof. use_laws L. intros P; use_per P. intros. eapply wake_is_convolution; eassumption. Qed.

  Theorem t_wake_linear (Zi stale : Z -> cplx K) (p q : Z -> K) (a : K) j :
    fresh_top K N stale ->
    wake_padded N cs sn Zi stale (fun u => a * p u + q u) j
    = a * wake_padded N cs sn Zi stale p j + wake_padded N cs sn Zi stale q j.
  Proof. use_laws L. intros. eapply wake_padded_linear; eassumption. Qed.

  Theorem t_wake_shift (Zi stale : Z -> cplx K) (p : Z -> K) d j :
    twiddle_period K N cs sn -> fresh_top K N stale ->
    wake_padded N cs sn Zi stale (fun u => p ((u - d) mod N)%Z) j = wake_padded N cs sn Zi stale p (j - d)%Z.
  Proof. use_laws L. intros P; use_per P. intros. eapply wake_padded_shift; eassumption. Qed.

  Theorem t_wake_periodic (Zi stale : Z -> cplx K) (p : Z -> K) j t :
    twiddle_period K N cs sn -> fresh_top K N stale ->
    wake_padded N cs sn Zi stale p (j + N * t)%Z = wake_padded N cs sn Zi stale p j.
  Proof. use_laws L. intros P; use_per P. intros. eapply wake_padded_periodic; eassumption. Qed.

  Theorem t_wake_half_spectrum (Zi Zi' stale : Z -> cplx K) (p : Z -> K) j :
    fresh_top K N stale -> fst (Zi 0%Z) = fst (Zi' 0%Z) ->
    (forall k, (0 < k < N / 2)%Z -> Zi k = Zi' k) ->
    wake_padded N cs sn Zi stale p j = wake_padded N cs sn Zi' stale p j.
  Proof. use_laws L. intros. eapply wake_padded_half_spectrum; eassumption. Qed.

  Theorem t_wake_model_train (Zi stale : Z -> cplx K) n s bs scale bk x :
    fresh_top K N stale -> (0 <= n)%Z -> disjoint_wins n s bs -> in_buffer K N n s bs ->
    wake_model N cs sn n s Zi stale (fun _ => 0) bs scale bk x
    = scale * fsum (map (fun b => sumZ 0 (Z.to_nat n)
                                   (fun x' => snd b x' * kernel K N cs sn Zi ((bk - fst b) * s + x - x'))) bs).
  Proof. use_laws L. intros. eapply wake_model_train; eassumption. Qed.

  Theorem t_parseval_wake (Zi stale : Z -> cplx K) (p : Z -> K) :
    fresh_top K N stale ->
    wake_loss K N cs sn Zi stale p / two
    = sumZ 1 (Z.to_nat (N / 2 - 1)) (fun k => fst (Zi k) * cnorm (formfactor N cs sn p k))
      + fst (Zi 0%Z) * cnorm (formfactor N cs sn p 0%Z) / two.
  Proof. use_laws L. intros. eapply parseval_wake; eassumption. Qed.

  Theorem t_csr_power_formula (df dq2 : K) (cut : option (Z -> K)) (Zi : Z -> cplx K) (p : Z -> K) :
    csr_power N cs sn df dq2 cut Zi p
    = df * (csr_renorm dq2 cut 0%Z * fst (Zi 0%Z) * cnorm (r2c N cs sn p 0%Z)
            + sumZ 1 (Z.to_nat (N / 2 - 1)) (fun i => csr_renorm dq2 cut i * fst (Zi i) * cnorm (r2c N cs sn p i))
            + csr_renorm dq2 cut (N / 2)%Z * fst (Zi (N / 2)%Z) * cnorm (r2c N cs sn p (N / 2)%Z)).
  Proof. use_laws L. eapply csr_power_formula; eassumption. Qed.

  Theorem t_csr_equals_wake_loss (df dq2 : K) (Zi stale : Z -> cplx K) (p : Z -> K) :
    fresh_top K N stale -> df <> 0 -> dq2 <> 0 ->
    csr_power N cs sn df dq2 None Zi p / (df * dq2) - wake_loss K N cs sn Zi stale p / two
    = fst (Zi 0%Z) * cnorm (formfactor N cs sn p 0%Z) / two
      + fst (Zi (N / 2)%Z) * cnorm (formfactor N cs sn p (N / 2)%Z).
  Proof. use_laws L. intros. eapply csr_equals_wake_loss; eassumption. Qed.
End Bundled.

(** ** sign statements at the two ordered instances *)
Ltac nn_qc := first [exact nnQc_0 | exact nnQc_1 | exact nnQc_add | exact nnQc_mul | exact nnQc_sq | assumption].
Ltac nn_r := first [exact nnR_0 | exact nnR_1 | exact nnR_add | exact nnR_mul | exact nnR_sq | assumption].

Definition passive (K : Fld) (nn : K -> Prop) (N : Z) (Zi : Z -> cplx K) : Prop :=
  forall i, (0 <= i < N)%Z -> nn (fst (Zi i)).

Theorem csr_spectrum_nonneg_Qc N cs sn dq2 cut (Zi : Z -> cplx QcF) p i :
  nnQc dq2 -> cut_nn QcF nnQc cut -> nnQc (fst (Zi i)) -> nnQc (csr_spectrum (K:=QcF) N cs sn dq2 cut Zi p i).
Proof. intros. apply csr_spectrum_nonneg; nn_qc. Qed.
Theorem csr_spectrum_nonneg_R N cs sn dq2 cut (Zi : Z -> cplx RF) p i :
  nnR dq2 -> cut_nn RF nnR cut -> nnR (fst (Zi i)) -> nnR (csr_spectrum (K:=RF) N cs sn dq2 cut Zi p i).
Proof. intros. apply csr_spectrum_nonneg; nn_r. Qed.

Theorem csr_power_nonneg_Qc N cs sn df dq2 cut (Zi : Z -> cplx QcF) p :
  nnQc df -> nnQc dq2 -> cut_nn QcF nnQc cut -> passive QcF nnQc N Zi ->
  nnQc (csr_power (K:=QcF) N cs sn df dq2 cut Zi p).
Proof. intros. apply csr_power_nonneg; nn_qc. Qed.
Theorem csr_power_nonneg_R N cs sn df dq2 cut (Zi : Z -> cplx RF) p :
  nnR df -> nnR dq2 -> cut_nn RF nnR cut -> passive RF nnR N Zi ->
  nnR (csr_power (K:=RF) N cs sn df dq2 cut Zi p).
Proof. intros. apply csr_power_nonneg; nn_r. Qed.

Theorem csr_cutoff_smaller_Qc N cs sn df dq2 g (Zi : Z -> cplx QcF) p :
  nnQc df -> nnQc dq2 -> (forall i, (0 <= g i <= 1)%Qc) -> passive QcF nnQc N Zi ->
  (0 <= csr_power (K:=QcF) N cs sn df dq2 (Some g) Zi p <= csr_power (K:=QcF) N cs sn df dq2 None Zi p)%Qc.
Proof.
  intros Hf Hd Hg Hz.
  destruct (csr_cutoff_smaller QcF nnQc nnQc_0 nnQc_add nnQc_mul nnQc_sq N cs sn df dq2 g Zi p Hf Hd) as [A B].
  - intros i. apply Hg.
  - intros i. unfold nnQc. destruct (Hg i) as [_ H1].
    apply (proj1 (Qcle_minus_iff (g i) 1%Qc)) in H1. exact H1.
  - exact Hz.
  - split; [exact A|]. apply (proj2 (Qcle_minus_iff _ _)). exact B.
Qed.
Lemma R_between (a b : R) : (0 <= b)%R -> (0 <= a - b)%R -> (0 <= b <= a)%R.
Proof. lra. Qed.
Theorem csr_cutoff_smaller_R N cs sn df dq2 g (Zi : Z -> cplx RF) p :
  nnR df -> nnR dq2 -> (forall i, (0 <= g i <= 1)%R) -> passive RF nnR N Zi ->
  (0 <= csr_power (K:=RF) N cs sn df dq2 (Some g) Zi p <= csr_power (K:=RF) N cs sn df dq2 None Zi p)%R.
Proof.
  intros Hf Hd Hg Hz.
  destruct (csr_cutoff_smaller RF nnR nnR_0 nnR_add nnR_mul nnR_sq N cs sn df dq2 g Zi p Hf Hd) as [A B].
  - intros i. unfold nnR. apply Hg.
  - intros i. change (0 <= 1 - g i)%R. destruct (Hg i). lra.
  - exact Hz.
  - exact (R_between _ _ A B).
Qed.

Theorem wake_loss_nonneg_Qc N cs sn (Zi stale : Z -> cplx QcF) p :
  (2 <= N)%Z -> twiddle_laws QcF cs sn -> fresh_top QcF N stale ->
  (forall i, (0 <= i < N / 2)%Z -> nnQc (fst (Zi i))) -> nnQc (wake_loss QcF N cs sn Zi stale p).
Proof. intros HN L Hst Hz. use_laws L. apply wake_loss_nonneg; nn_qc. Qed.
Theorem wake_loss_nonneg_R N cs sn (Zi stale : Z -> cplx RF) p :
  (2 <= N)%Z -> twiddle_laws RF cs sn -> fresh_top RF N stale ->
  (forall i, (0 <= i < N / 2)%Z -> nnR (fst (Zi i))) -> nnR (wake_loss RF N cs sn Zi stale p).
Proof. intros HN L Hst Hz. use_laws L. apply wake_loss_nonneg; nn_r. Qed.

Section Scaling.
  Variable K : Fld.
  Add Field KFt : (@Fth K).
  Local Open Scope F_scope.
  Theorem t_wake_scaling_formula (N : Z) (Ib dt c sz dE sd E0 : K) :
    sz <> 0 -> dE <> 0 -> sd <> 0 -> E0 <> 0 -> @fz K N <> 0 ->
    wake_scaling N Ib dt c sz dE sd E0 = Ib * dt * c / (sz * (dE * sd * E0)) / fz N.
  Proof. intros H1 H2 H3 H4 H5. unfold wake_scaling. field. repeat split; assumption. Qed.
End Scaling.
