(** * C10: the chain  bending radius -> radiation loss V0 -> effective voltage -> synchrotron frequency -> natural bunch
    length / time step  as main() computes it (Gen/Gen_Scaling.v, regenerated from src/main.cpp on every run), against
    the machine quantities implied by the stored parameters (Model/MachineSpec.v).

    Every link is stated over the GENERATED value of the previous link (the value that reaches a constructor:
    [gen_R_bend] the impedance models, [gen_sinrf_V0] / [gen_sinrf_V_RF] the sinusoidal RF map, [gen_t_sync] the results
    file, [gen_ps_Meter] the "Meter" scale of the grid's position axis, [gen_dt] the wake field); [machine_chain]
    composes them.  Square roots are compared by congruence, their arguments by [field]. *)
From Coq Require Import List ZArith Bool Field.
From Inovesa Require Import Base.FieldKit Model.ScalingOps Model.H5Units Model.MachineSpec Gen.Gen_Scaling Proofs.ScalingTac.
Import ListNotations.
Local Open Scope F_scope.

Section S.
  Variable K : Fld.
  Add Field KFm : (@Fth K).
  Variable O : Ops K.
  Variable L : leaf -> K.
  Variable B : bleaf -> bool.

  Ltac open_machine :=
    unfold gen_ps_Meter, gen_ps_ElectronVolt, radius_in_use, radiation_loss, effective_voltage, sync_freq, steps_per_period,
      a_Meter, a_ElectronVolt, bl, dE, t_sync, dt, revolutionpart, three in *;
    open_gen.
  (** decide every conditional whose condition is a hypothesis; split on the others *)
  Ltac split_conds :=
    repeat match goal with
           | H : ?c = true |- context [if ?c then _ else _] => rewrite H
           | H : ?c = false |- context [if ?c then _ else _] => rewrite H
           | H : ?c = true, H' : context [if ?c then _ else _] |- _ => rewrite H in H'
           | H : ?c = false, H' : context [if ?c then _ else _] |- _ => rewrite H in H'
           | |- context [if ?c then _ else _] => let E := fresh "E" in destruct c eqn:E
           | H' : context [if ?c then _ else _] |- _ => let E := fresh "E" in destruct c eqn:E
           end.
  (** equal up to [field] - or, where a denominator is not known to be non-zero, up to [ring] with every quotient read
      as a product with the inverse - below the square roots *)
  Ltac fring := rewrite ?(Fdiv_def (@Fth K)); ring.
  Ltac congr_field := first [ field_hyps | fring | (progress f_equal; congr_field) ].

  Notation c := (L C_c). Notation tpi := (L C_two_pi). Notation frev := (L O_getRevolutionFrequency).
  Notation E0 := (L O_getBeamEnergy). Notation sE := (L O_getEnergySpread). Notation H := (L O_getHarmonicNumber).
  Notation VRF := (L O_getRFVoltage).

  (** the radius main() hands to the impedance models is the radius in use *)
  Lemma radius_link : gen_R_bend K O L B = radius_in_use K O c tpi frev (L O_getBendingRadius).
  Proof. open_machine. reflexivity || (split_conds; congr_field). Qed.

  (** V0 is the radiation loss for THAT radius (not for another one) *)
  Lemma loss_link :
    L C_me <> 0 -> L C_epsilon0 <> 0 -> c <> 0 -> tpi <> 0 -> frev <> 0 -> gen_R_bend K O L B <> 0 ->
    gen_sinrf_V0 K O L B = radiation_loss K (L C_e) (L C_me) (L C_epsilon0) E0 (gen_R_bend K O L B).
  Proof.
    intros Hme He0 Hc Hpi Hf HR. open_machine. split_conds; field; repeat split; try assumption; apply (@nz3 K).
  Qed.

  Lemma veff_link : gen_sinrf_V_RF K O L B = effective_voltage K O VRF (gen_sinrf_V0 K O L B).
  Proof. open_machine. reflexivity || congr_field. Qed.

  (** the square roots become atoms ([field] compares them syntactically anyway) so that the side conditions stay small *)
  Ltac abs_sqrt :=
    repeat match goal with
           | |- context [o_sqrt O ?a] => let s := fresh "s" in set (s := o_sqrt O a) in *; clearbody s
           | H : context [o_sqrt O ?a] |- _ => let s := fresh "s" in set (s := o_sqrt O a) in *; clearbody s
           end.
  (** a non-zero side condition: a hypothesis, 2 or 3, or a factor of a product that is a hypothesis *)
  Ltac nz1 :=
    first [ assumption | apply (@nz3 K) | apply (@nz2 K)
          | match goal with H : _ <> 0 |- _ <> 0 => let X := fresh "X" in intro X; apply H; rewrite X; ring end ].
  Ltac nz :=
    first [ nz1
          | match goal with H : _ <> 0 |- _ <> 0 =>
              let X := fresh "X" in intro X; apply H; rewrite X; field; repeat split; nz1 end ].
  Ltac fld := first [ reflexivity | field; repeat split; nz ].

  (** t_sync handed to the results file is one period of the synchrotron frequency in use *)
  Lemma fs_link :
    let fs := sync_freq K O tpi frev H E0 (L O_getAlpha0) (gen_sinrf_V_RF K O L B) (L O_getSyncFreq) in
    fs <> 0 -> gen_t_sync K O L B = t_sync K fs.
  Proof. cbv zeta. intros Hfs. open_machine. split_conds; congr_field. Qed.

  (** the "Meter" scale of the position axis is the natural bunch length for that effective voltage and that
      synchrotron frequency; the "ElectronVolt" scale of the energy axis is the absolute energy spread *)
  Lemma meter_link :
    let Veff := gen_sinrf_V_RF K O L B in
    let fs := sync_freq K O tpi frev H E0 (L O_getAlpha0) Veff (L O_getSyncFreq) in
    H <> 0 -> frev <> 0 -> Veff <> 0 ->
    gen_ps_Meter K O L B = a_Meter K c E0 sE H frev Veff fs /\
    gen_ps_ElectronVolt K O L B = a_ElectronVolt K E0 sE.
  Proof.
    cbv zeta. intros HH Hf HV. split; [|open_machine; reflexivity || congr_field].
    revert HV. open_machine. split_conds; intros HV; abs_sqrt; fld.
  Qed.

  (** the time step: one synchrotron period divided into [steps_per_period] steps; every field and RF map receives
      f_rev times it; the record time is the step number over the steps per period *)
  Lemma dt_link :
    let fs := sync_freq K O tpi frev H E0 (L O_getAlpha0) (gen_sinrf_V_RF K O L B) (L O_getSyncFreq) in
    let steps := steps_per_period K O frev fs (L O_getStepsPerTrev) (L O_getStepsPerTsync) in
    fs <> 0 -> steps <> 0 -> frev <> 0 ->
    gen_dt K O L B = dt K fs steps /\
    gen_revolutionpart K O L B = revolutionpart K frev fs steps /\
    gen_rdtn_revolutionpart K O L B = revolutionpart K frev fs steps /\
    gen_dynrf_revolutionpart K O L B = revolutionpart K frev fs steps /\
    gen_sinrf_revolutionpart K O L B = revolutionpart K frev fs steps /\
    gen_h5_time K O L B * steps = L S_simulationstep /\
    gen_h5_f_rev K O L B = frev /\ gen_f_rev K O L B = frev.
  Proof.
    cbv zeta. intros Hfs Hst Hf. revert Hfs Hst. open_machine. split_conds; intros Hfs Hst; abs_sqrt.
    all: repeat split; fld.
  Qed.

  (** ** the chain composed: every quantity in the stored parameters alone *)
  Theorem machine_chain :
    let R := radius_in_use K O c tpi frev (L O_getBendingRadius) in
    let V0 := radiation_loss K (L C_e) (L C_me) (L C_epsilon0) E0 R in
    let Veff := effective_voltage K O VRF V0 in
    let fs := sync_freq K O tpi frev H E0 (L O_getAlpha0) Veff (L O_getSyncFreq) in
    let steps := steps_per_period K O frev fs (L O_getStepsPerTrev) (L O_getStepsPerTsync) in
    L C_me <> 0 -> L C_epsilon0 <> 0 -> c <> 0 -> tpi <> 0 -> frev <> 0 -> H <> 0 ->
    R <> 0 -> Veff <> 0 -> fs <> 0 -> steps <> 0 ->
    gen_R_bend K O L B = R /\ gen_sinrf_V0 K O L B = V0 /\ gen_sinrf_V_RF K O L B = Veff /\
    gen_t_sync K O L B = t_sync K fs /\
    gen_ps_Meter K O L B = a_Meter K c E0 sE H frev Veff fs /\
    gen_ps_ElectronVolt K O L B = a_ElectronVolt K E0 sE /\
    gen_dt K O L B = dt K fs steps /\
    gen_revolutionpart K O L B = revolutionpart K frev fs steps /\
    gen_rdtn_revolutionpart K O L B = revolutionpart K frev fs steps /\
    gen_dynrf_revolutionpart K O L B = revolutionpart K frev fs steps /\
    gen_sinrf_revolutionpart K O L B = revolutionpart K frev fs steps /\
    gen_h5_time K O L B * steps = L S_simulationstep /\
    gen_h5_f_rev K O L B = frev /\ gen_f_rev K O L B = frev.
  Proof.
    cbv zeta. intros Hme He0 Hc Hpi Hf HH HR HV Hfs Hst.
    pose proof radius_link as ER.
    assert (E0' : gen_sinrf_V0 K O L B = radiation_loss K (L C_e) (L C_me) (L C_epsilon0) E0
                                       (radius_in_use K O c tpi frev (L O_getBendingRadius))).
    { rewrite <- ER. apply loss_link; first [ assumption | rewrite ER; exact HR ]. }
    assert (EV : gen_sinrf_V_RF K O L B = effective_voltage K O VRF
                   (radiation_loss K (L C_e) (L C_me) (L C_epsilon0) E0 (radius_in_use K O c tpi frev (L O_getBendingRadius)))).
    { rewrite <- E0'. apply veff_link. }
    rewrite <- EV in *.
    split; [exact ER|]. split; [exact E0'|]. split; [reflexivity|].
    split; [apply fs_link; exact Hfs|].
    destruct (meter_link HH Hf HV) as [EM EE]. split; [exact EM|]. split; [exact EE|].
    apply dt_link; assumption.
  Qed.
End S.
