(** * C05.2 the wake scaling factor (field identities over the generated expression) and
      C05.3 the calculus identity behind the Haissinski equation (real numbers, Coquelicot). *)
From Coq Require Import List ZArith Ring Field Reals Lra.
From Coquelicot Require Import Coquelicot.
From Inovesa Require Import Base.FieldKit Base.RInst Gen.Gen_WakeScale.

(** ** scaling *)
Section Scaling.
  Variable K : Fld.
  Add Field KFh : (@Fth K).
  Local Open Scope F_scope.

  (** the factor applied to the inverse transform: Ib*dt*c / (sigma_z * dE_cell) / N with
      dE_cell = delta_E*sigma_delta*E0 the energy width of one grid cell in eV *)
  Theorem wake_scaling_formula (Ib dt c sz dE sd E0 N : K) :
    sz <> 0 -> dE <> 0 -> sd <> 0 -> E0 <> 0 -> N <> 0 ->
    wake_scaling Ib dt c sz dE sd E0 N = Ib * dt * c / (sz * (dE * sd * E0)) / N.
  Proof. intros. unfold wake_scaling, wakescaling_member, wakescalining_arg. field. repeat split; assumption. Qed.

  (** the documented factorisation: bunch charge Ib/f0, fraction of a revolution dt*f0,
      current from charge density c/sigma_z, grid cells from eV *)
  Theorem wake_scaling_factors (Ib dt c sz dE sd E0 N f0 : K) :
    sz <> 0 -> dE <> 0 -> sd <> 0 -> E0 <> 0 -> N <> 0 -> f0 <> 0 ->
    wake_scaling Ib dt c sz dE sd E0 N =
    (Ib / f0) * (dt * f0) * (c / sz) * (1 / (dE * sd * E0)) * (1 / N).
  Proof. intros. unfold wake_scaling, wakescaling_member, wakescalining_arg. field. repeat split; assumption. Qed.

  (** times the cell width: the kick in natural energy units (sigma_E = sigma_delta*E0) per step *)
  Theorem wake_scaling_natural_units (Ib dt c sz dE sd E0 N : K) :
    sz <> 0 -> dE <> 0 -> sd <> 0 -> E0 <> 0 -> N <> 0 ->
    dE * wake_scaling Ib dt c sz dE sd E0 N = Ib * dt * c / (sz * (sd * E0)) / N.
  Proof. intros. unfold wake_scaling, wakescaling_member, wakescalining_arg. field. repeat split; assumption. Qed.

  (** the force law of ForceP in natural units: with q = dq*(x - xc) and equal cell widths the
      change dp*(t*(x-xc) - W) of the mean energy is t*q - dp*W *)
  Theorem force_natural_units (t x xc W dq dp : K) :
    dq <> 0 -> dp = dq ->
    dp * (t * (x - xc) - W) = t * (dq * (x - xc)) - dp * W.
  Proof. intros H ->. ring. Qed.
End Scaling.

(** ** the stationary Vlasov-Fokker-Planck operator and the Haissinski density *)

Local Open Scope R_scope.

(** Continuum limit of one step (drift: q' = -p; RF kick: p' = +kappa*q; wake kick: p' = -F(q);
    damping and diffusion with rate beta acting on p):
      d/dq (-p f) + d/dp ((kappa q - F(q)) f) = beta d/dp (p f + df/dp) *)
Definition VFP (kappa : R) (F : R -> R) (beta : R) (f : R -> R -> R) (q p : R) : R :=
  - p * Derive (fun q' => f q' p) q
  + (kappa * q - F q) * Derive (fun p' => f q p') p
  - beta * Derive (fun p' => p' * f q p' + Derive (fun p'' => f q p'') p') p.

Section Haissinski.
  Variables (W Iw : R -> R) (dth kappa beta C : R).
  (** [Iw] is an antiderivative of the wake potential [W] (natural units per step) *)
  Hypothesis HI : forall q, is_derive Iw q (W q).
  Hypothesis Hd : dth <> 0.

  Definition rho (q : R) : R := C * exp (- kappa * q ^ 2 / 2 + Iw q / dth).
  Definition psi (q p : R) : R := rho q * exp (- p ^ 2 / 2).

  Lemma rho_derive q : is_derive rho q ((- kappa * q + W q / dth) * rho q).
  Proof.
    unfold rho. auto_derive.
    - eexists; apply HI.
    - replace (Derive (fun x : R => Iw x) q) with (W q) by (symmetry; apply is_derive_unique, HI).
      simpl (q ^ 2). unfold Rdiv. field. exact Hd.
  Qed.

  Lemma psi_dq q p : Derive (fun q' => psi q' p) q = (- kappa * q + W q / dth) * psi q p.
  Proof.
    apply is_derive_unique. unfold psi, rho. auto_derive.
    - eexists; apply HI.
    - replace (Derive (fun x : R => Iw x) q) with (W q) by (symmetry; apply is_derive_unique, HI).
      simpl (q ^ 2). simpl (p ^ 2). unfold Rdiv. field. exact Hd.
  Qed.

  Lemma psi_dp q p : Derive (fun p' => psi q p') p = - p * psi q p.
  Proof.
    apply is_derive_unique. unfold psi. auto_derive; [exact I|].
    simpl (p ^ 2). unfold Rdiv. field.
  Qed.

  (** the density C*exp(-kappa q^2/2 + (1/dtheta) Int W) * exp(-p^2/2) is stationary *)
  Theorem haissinski_stationary_kappa q p :
    VFP kappa (fun q => W q / dth) beta psi q p = 0.
  Proof.
    unfold VFP. rewrite psi_dq, psi_dp.
    rewrite (Derive_ext _ (fun _ => 0)).
    2:{ intros t. rewrite psi_dp. ring. }
    rewrite Derive_const. ring.
  Qed.

  (** one-dimensional form: rho' = (-kappa q + W/dtheta) rho *)
  Theorem haissinski_profile q : Derive rho q = (- kappa * q + W q / dth) * rho q.
  Proof. apply is_derive_unique, rho_derive. Qed.

  (** ... i.e. ln rho + kappa q^2/2 - (1/dtheta) Int W is constant (= ln C) wherever C > 0 *)
  Theorem haissinski_log_form q : 0 < C -> ln (rho q) + kappa * q ^ 2 / 2 - Iw q / dth = ln C.
  Proof.
    intros HC. unfold rho. rewrite ln_mult by (try apply exp_pos; exact HC). rewrite ln_exp. field. exact Hd.
  Qed.
End Haissinski.

(** the forms with unit RF focusing, as the property text states them *)
Theorem haissinski_stationary (W Iw : R -> R) (dth beta C : R) :
  (forall q, is_derive Iw q (W q)) -> dth <> 0 ->
  forall q p, VFP 1 (fun q => W q / dth) beta (psi Iw dth 1 C) q p = 0.
Proof. intros HI Hd. exact (haissinski_stationary_kappa W Iw dth 1 beta C HI Hd). Qed.

Theorem haissinski_log_form_unit (Iw : R -> R) (dth C : R) :
  dth <> 0 -> 0 < C ->
  forall q, ln (rho Iw dth 1 C q) + 1 * q ^ 2 / 2 - Iw q / dth = ln C.
Proof. intros Hd HC q. exact (haissinski_log_form Iw dth 1 C Hd q HC). Qed.

Lemma example_antiderivative : forall q : R, is_derive (fun q => q * q / 2) q q.
Proof. intros q. auto_derive; [exact I|]. field. Qed.

(** ** the converse, in the direction the property is worded: a *stationary* density whose
    energy distribution is the unit Gaussian has a profile that satisfies the Haissinski equation *)
Section Necessary.
  Variables (W Iw rh drh : R -> R) (dth kappa beta : R).
  Hypothesis HI : forall q, is_derive Iw q (W q).
  Hypothesis Hd : dth <> 0.
  Hypothesis Hrho : forall q, is_derive rh q (drh q).
  Hypothesis Hpos : forall q, 0 < rh q.

  Definition psi_of (q p : R) : R := rh q * exp (- p ^ 2 / 2).

  Hypothesis Hstat : forall q p, VFP kappa (fun q => W q / dth) beta psi_of q p = 0.

  Lemma psi_of_dq q p : Derive (fun q' => psi_of q' p) q = drh q * exp (- p ^ 2 / 2).
  Proof.
    apply is_derive_unique. unfold psi_of. auto_derive.
    - eexists; apply Hrho.
    - replace (Derive (fun x : R => rh x) q) with (drh q) by (symmetry; apply is_derive_unique, Hrho).
      simpl (p ^ 2). ring.
  Qed.

  Lemma psi_of_dp q p : Derive (fun p' => psi_of q p') p = - p * psi_of q p.
  Proof.
    apply is_derive_unique. unfold psi_of. auto_derive; [exact I|].
    simpl (p ^ 2). unfold Rdiv. field.
  Qed.

  Lemma profile_equation q : drh q = (- kappa * q + W q / dth) * rh q.
  Proof.
    pose proof (Hstat q 1) as H. unfold VFP in H.
    rewrite psi_of_dq, psi_of_dp in H.
    rewrite (Derive_ext _ (fun _ => 0)) in H by (intros t; rewrite psi_of_dp; ring).
    rewrite Derive_const in H. unfold psi_of in H.
    assert (HE : exp (- 1 ^ 2 / 2) <> 0) by (apply Rgt_not_eq, exp_pos).
    apply (Rmult_eq_reg_r (exp (- 1 ^ 2 / 2))); [|exact HE]. lra.
  Qed.

  Definition Gfun (q : R) : R := ln (rh q) + kappa * q ^ 2 / 2 - Iw q / dth.

  Lemma Gfun_derive q : is_derive Gfun q 0.
  Proof.
    unfold Gfun. auto_derive.
    - repeat split; try (eexists; apply Hrho); try (eexists; apply HI); try apply Hpos.
    - replace (Derive (fun x : R => rh x) q) with (drh q) by (symmetry; apply is_derive_unique, Hrho).
      replace (Derive (fun x : R => Iw x) q) with (W q) by (symmetry; apply is_derive_unique, HI).
      rewrite profile_equation. field. split; [exact Hd | apply Rgt_not_eq, Hpos].
  Qed.

  Theorem haissinski_necessary q : Gfun q = Gfun 0.
  Proof.
    destruct (MVT_gen Gfun 0 q (fun _ => 0)) as (c & _ & Hc).
    - intros x _. apply Gfun_derive.
    - intros x _. apply continuity_pt_filterlim.
      apply (ex_derive_continuous Gfun x). eexists; apply Gfun_derive.
    - lra.
  Qed.
End Necessary.

(** the hypotheses of [haissinski_necessary] are satisfiable: the Haissinski density itself *)
Lemma necessary_hypotheses_satisfiable :
  let W := fun q : R => q in let Iw := fun q : R => q * q / 2 in
  let rh := rho Iw 1 1 1 in
  (forall q, is_derive Iw q (W q)) /\ (forall q, 0 < rh q) /\
  (forall q, is_derive rh q ((- 1 * q + W q / 1) * rh q)) /\
  (forall q p, VFP 1 (fun q => W q / 1) 0 (psi_of rh) q p = 0).
Proof.
  intros W Iw rh.
  assert (HI : forall q, is_derive Iw q (W q)) by exact example_antiderivative.
  split; [|split; [|split]].
  - exact HI.
  - intros q. unfold rh, rho. apply Rmult_lt_0_compat; [lra | apply exp_pos].
  - intros q. apply (rho_derive W Iw 1 1 1 HI). lra.
  - intros q p. apply (haissinski_stationary_kappa W Iw 1 1 0 1 HI). lra.
Qed.
