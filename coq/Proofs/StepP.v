(** * One step up to the Fokker-Planck map, on the whole grid (C05.1, grid level).

    After the wake kick, the RF kick and the drift - the generated step order up to the
    Fokker-Planck map - the energy moment of a bunch has changed by
    - Sum_x (eff_off W(x) + eff_off o_rf(x)) * charge of row x, and the bunch charge is the same:
    the drift moves content along q only, so it keeps every energy column's charge. *)
From Coq Require Import List ZArith QArith Qcanon Lia Bool Ring Field.
From Inovesa Require Import Base.FieldKit Base.Sums Base.Float32 Gen.Gen_Coeffs Model.Kick
  Model.StepKinds Gen.Gen_StepOrder Model.RunKinds Gen.Gen_WakeUpdate Gen.Gen_Identity Gen.Gen_KickIndex
  Model.Copy Model.WakeUpdate Model.Haiss Proofs.WeightsP Proofs.KickP Proofs.KickGridP Proofs.CopyP
  Proofs.HaissGenP Proofs.ForceP.
Import ListNotations.
Local Open Scope Z_scope.

(** energy moment and charge of bunch [b] *)
Definition E1 (n : Z) (D : Z -> Qc) (b : Z) : Qc :=
  sumQ 0 (Z.to_nat n) (fun x => M1 n (rowD n D b x)).
Definition Q0 (n : Z) (D : Z -> Qc) (b : Z) : Qc :=
  sumQ 0 (Z.to_nat n) (fun x => M0 n (rowD n D b x)).

Lemma rowD_gkick_y n nb it (offs D : Z -> Qc) b x y :
  valid_it it -> 0 < n -> 0 < nb -> 0 <= b < nb -> 0 <= x < n ->
  rowD n (gkick_y n nb it offs D) b x y = krow n it (offs (b * n + x)) (rowD n D b x) y.
Proof.
  intros Hv Hn Hnb Hb Hx. unfold rowD at 1.
  destruct (in_range n y) eqn:E.
  - unfold in_range in E. apply andb_prop in E. destruct E as [E1' E2]. apply Z.leb_le in E1'. apply Z.ltb_lt in E2.
    unfold gkick_y. rewrite (didx_in_range n nb b x y) by lia.
    apply apply_y_is_krow; assumption || lia.
  - symmetry. apply krow_out. unfold in_range in E. apply andb_false_iff in E.
    destruct E as [E|E]; [left; apply Z.leb_gt in E | right; apply Z.ltb_ge in E]; lia.
Qed.

Lemma colD_gkick_x n nb it (offs D : Z -> Qc) b y x :
  valid_it it -> 0 < n -> 0 < nb -> 0 <= b < nb -> 0 <= y < n ->
  colD n (gkick_x n nb it offs D) b y x = krow n it (offs y) (colD n D b y) x.
Proof.
  intros Hv Hn Hnb Hb Hy. unfold colD at 1.
  destruct (in_range n x) eqn:E.
  - unfold in_range in E. apply andb_prop in E. destruct E as [E1' E2]. apply Z.leb_le in E1'. apply Z.ltb_lt in E2.
    unfold gkick_x. rewrite (didx_in_range n nb b x y) by lia.
    apply apply_x_is_krow; assumption || lia.
  - symmetry. apply krow_out. unfold in_range in E. apply andb_false_iff in E.
    destruct E as [E|E]; [left; apply Z.leb_gt in E | right; apply Z.ltb_ge in E]; lia.
Qed.

(** moments by energy columns *)
Lemma E1_by_columns n (D : Z -> Qc) b :
  E1 n D b = sumQ 0 (Z.to_nat n) (fun y => (Qcz y * M0 n (colD n D b y))%Qc).
Proof.
  unfold E1, M1, M0.
  rewrite (sumZ_swap QcF).
  apply (sumZ_ext QcF). intros y Hy.
  rewrite <- (sumZ_scale QcF). apply (sumZ_ext QcF). intros x Hx.
  unfold rowD, colD. rewrite !in_range_true by lia. reflexivity.
Qed.

Lemma Q0_by_columns n (D : Z -> Qc) b :
  Q0 n D b = sumQ 0 (Z.to_nat n) (fun y => M0 n (colD n D b y)).
Proof.
  unfold Q0, M0. rewrite (sumZ_swap QcF).
  apply (sumZ_ext QcF). intros y Hy. apply (sumZ_ext QcF). intros x Hx.
  unfold rowD, colD. rewrite !in_range_true by lia. reflexivity.
Qed.

(** The three maps before the Fokker-Planck map, for any grids [D] -> [D2] (after both energy
    kicks) -> [D3] (after the drift) whose rows / columns of bunch [b] are the [krow]s of the
    per-(bunch,row) offsets [wo], [rfo] and of the per-column offsets [dro]. *)
Section Step.
  Variables (n it : Z) (wo rfo dro D D2 D3 : Z -> Qc) (b : Z).
  Hypothesis Hv : valid_it it.
  Hypothesis H2 : 2 <= it.
  Hypothesis Hn : 0 < n < 2 ^ 30.

  Hypothesis Hrow2 : forall x y, 0 <= x < n ->
      rowD n D2 b x y = krow n it (rfo (b * n + x)) (krow n it (wo (b * n + x)) (rowD n D b x)) y.
  Hypothesis Hcol3 : forall y x, 0 <= y < n ->
      colD n D3 b y x = krow n it (dro y) (colD n D2 b y) x.

  (** every row keeps both energy-kick stencils and its support inside the grid *)
  Hypothesis Hrows : forall x, 0 <= x < n -> exists a bb,
      suppQ (rowD n D b x) a bb /\
      row_fits n it (wo (b * n + x)) a bb /\
      row_fits n it (rfo (b * n + x)) (a - shift_hi n it (wo (b * n + x))) (bb - shift_lo n it (wo (b * n + x))).
  (** ... and every energy column of the kicked grid the drift stencil *)
  Hypothesis Hcols : forall y, 0 <= y < n -> exists c d,
      suppQ (colD n D2 b y) c d /\ row_fits n it (dro y) c d.

  Lemma rows_after_kicks x :
    0 <= x < n ->
    M0 n (rowD n D2 b x) = M0 n (rowD n D b x) /\
    M1 n (rowD n D2 b x) =
    (M1 n (rowD n D b x) - (eff_off n (wo (b * n + x)) + eff_off n (rfo (b * n + x))) * M0 n (rowD n D b x))%Qc.
  Proof.
    intros Hx. destruct (Hrows x Hx) as (a & bb & Hs & F1 & F2).
    rewrite (M0_ext n _ _ (fun y => Hrow2 x y Hx)), (M1_ext n _ _ (fun y => Hrow2 x y Hx)).
    exact (two_kicks n it _ _ _ a bb Hv H2 Hn Hs F1 F2).
  Qed.

  Lemma columns_after_drift y :
    0 <= y < n -> M0 n (colD n D3 b y) = M0 n (colD n D2 b y).
  Proof.
    intros Hy. destruct (Hcols y Hy) as (c & d & Hs & F).
    rewrite (M0_ext n _ (krow n it (dro y) (colD n D2 b y))).
    - exact (krow_M0 n it (dro y) _ c d Hv Hn Hs F).
    - intros x. apply Hcol3, Hy.
  Qed.

  Theorem kicks_then_drift_rows :
    E1 n D3 b =
    (E1 n D b - sumQ 0 (Z.to_nat n)
       (fun x => ((eff_off n (wo (b * n + x)) + eff_off n (rfo (b * n + x))) * M0 n (rowD n D b x))%Qc))%Qc
    /\ Q0 n D3 b = Q0 n D b.
  Proof.
    split.
    - rewrite E1_by_columns.
      rewrite (sumZ_ext QcF _ _ _ (fun y => (Qcz y * M0 n (colD n D2 b y))%Qc))
        by (intros y Hy; rewrite columns_after_drift by lia; reflexivity).
      rewrite <- E1_by_columns. unfold E1.
      rewrite (sumZ_ext QcF _ _ _ (fun x => @fadd QcF (M1 n (rowD n D b x))
         (@fmul QcF (- (1))%Qc ((eff_off n (wo (b * n + x)) + eff_off n (rfo (b * n + x))) * M0 n (rowD n D b x))%Qc))).
      2:{ intros x Hx. destruct (rows_after_kicks x ltac:(lia)) as [_ E]. rewrite E. qc_unf. ring. }
      rewrite (sumZ_add QcF), (sumZ_scale QcF). qc_unf. ring.
    - rewrite Q0_by_columns.
      rewrite (sumZ_ext QcF _ _ _ (fun y => M0 n (colD n D2 b y)))
        by (intros y Hy; apply columns_after_drift; lia).
      rewrite <- Q0_by_columns. unfold Q0.
      apply (sumZ_ext QcF). intros x Hx. destruct (rows_after_kicks x ltac:(lia)) as [E _]. exact E.
  Qed.
End Step.

(** (a) offsets given as such, closed-form tables of Model/Kick.v *)
Theorem kicks_then_drift n nb it (wo rfo dro D : Z -> Qc) b :
  valid_it it -> 2 <= it -> 0 < n < 2 ^ 30 -> 0 < nb -> 0 <= b < nb ->
  let D1 := gkick_y n nb it wo D in
  let D2 := gkick_y n nb it rfo D1 in
  let D3 := gkick_x n nb it dro D2 in
  (forall x, 0 <= x < n -> exists a bb,
      suppQ (rowD n D b x) a bb /\
      row_fits n it (wo (b * n + x)) a bb /\
      row_fits n it (rfo (b * n + x)) (a - shift_hi n it (wo (b * n + x))) (bb - shift_lo n it (wo (b * n + x)))) ->
  (forall y, 0 <= y < n -> exists c d,
      suppQ (colD n D2 b y) c d /\ row_fits n it (dro y) c d) ->
  E1 n D3 b =
    (E1 n D b - sumQ 0 (Z.to_nat n)
       (fun x => ((eff_off n (wo (b * n + x)%Z) + eff_off n (rfo (b * n + x)%Z)) * M0 n (rowD n D b x))%Qc))%Qc
  /\ Q0 n D3 b = Q0 n D b.
Proof.
  intros Hv H2 Hn Hnb Hb D1 D2 D3 Hrows Hcols.
  apply (kicks_then_drift_rows n it wo rfo dro D D2 D3 b Hv H2 Hn); try assumption.
  - intros x y Hx. unfold D2. rewrite rowD_gkick_y by (assumption || lia).
    apply krow_ext. intros u. unfold D1. apply rowD_gkick_y; assumption || lia.
  - intros y x Hy. unfold D3. apply colD_gkick_x; assumption || lia.
Qed.

(** (b) the maps as the code applies them: wake kick with the table update() built from the wake
    potentials [wp], RF kick with the table of the RF offsets of every bunch's block, both through the
    generated y branch; for EVERY bunch [b] the offsets are those of its own block *)
Theorem kicks_then_drift_code n nb it (wp : Z -> Qc) (t xc : Qc) (dro D : Z -> Qc) b :
  valid_it it -> 2 <= it -> 0 < n < 2 ^ 30 -> 0 <= b < nb ->
  let rfo := rf_offsets nb n t xc in
  let D1 := gkick_wake n nb it wp D in
  let D2 := gkick_rf n nb it t xc D1 in
  let D3 := gkick_x n nb it dro D2 in
  (forall x, 0 <= x < n -> exists a bb,
      suppQ (rowD n D b x) a bb /\
      row_fits n it (wp (b * n + x)) a bb /\
      row_fits n it (rfo (b * n + x)) (a - shift_hi n it (wp (b * n + x))) (bb - shift_lo n it (wp (b * n + x)))) ->
  (forall y, 0 <= y < n -> exists c d,
      suppQ (colD n D2 b y) c d /\ row_fits n it (dro y) c d) ->
  E1 n D3 b =
    (E1 n D b - sumQ 0 (Z.to_nat n)
       (fun x => ((eff_off n (wp (b * n + x)%Z) + eff_off n (rfo (b * n + x)%Z)) * M0 n (rowD n D b x))%Qc))%Qc
  /\ Q0 n D3 b = Q0 n D b.
Proof.
  intros Hv H2 Hn Hb rfo D1 D2 D3 Hrows Hcols.
  apply (kicks_then_drift_rows n it wp rfo dro D D2 D3 b Hv H2 Hn); try assumption.
  - intros x y Hx. unfold D2. rewrite gkick_rf_rows by (assumption || lia).
    apply krow_ext. intros u. unfold D1. apply gkick_wake_rows; assumption || lia.
  - intros y x Hy. unfold D3. apply colD_gkick_x; assumption || lia.
Qed.

(** ** the list front-end (what the extracted driver runs) computes these grid functions *)

Lemma getQ_map_zrange (f : Z -> Qc) N i :
  getQ (map f (zrange N)) i = if in_range N i then f i else 0%Qc.
Proof.
  unfold getQ, in_range. destruct (Z.leb_spec 0 i) as [P|Ng]; [|reflexivity].
  destruct (Z.ltb_spec i N) as [L|G]; cbn [andb].
  - unfold zrange. rewrite map_map.
    rewrite (nth_indep _ 0%Qc ((fun k => f (Z.of_nat k)) 0%nat))
      by (rewrite map_length, seq_length; lia).
    rewrite (map_nth (fun k => f (Z.of_nat k))). rewrite seq_nth by lia.
    f_equal. lia.
  - apply nth_overflow. unfold zrange. rewrite !map_length, seq_length. lia.
Qed.

Lemma getQ_kick_y_list n nb it offs data i :
  getQ (kick_y_list n nb it offs data) i = gkick_y n nb it (getQ offs) (getQ data) i.
Proof. unfold kick_y_list. rewrite getQ_map_zrange. reflexivity. Qed.

Lemma getQ_kick_x_list n nb it offs data i :
  getQ (kick_x_list n nb it offs data) i = gkick_x n nb it (getQ offs) (getQ data) i.
Proof. unfold kick_x_list. rewrite getQ_map_zrange. reflexivity. Qed.

Lemma gkick_y_ext n nb it offs (D D' : Z -> Qc) i :
  (forall j, D j = D' j) -> gkick_y n nb it offs D i = gkick_y n nb it offs D' i.
Proof.
  intros H. unfold gkick_y. destruct (in_range _ i); [|reflexivity].
  unfold apply_y, apply_y_cell, row_out. f_equal. apply map_ext. intros j. cbv zeta.
  rewrite H. reflexivity.
Qed.

Lemma gkick_x_ext n nb it offs (D D' : Z -> Qc) i :
  (forall j, D j = D' j) -> gkick_x n nb it offs D i = gkick_x n nb it offs D' i.
Proof.
  intros H. unfold gkick_x. destruct (in_range _ i); [|reflexivity].
  unfold apply_x, apply_x_cell, row_out. f_equal. apply map_ext. intros j. cbv zeta.
  rewrite H. reflexivity.
Qed.

Lemma rowD_ext n (D D' : Z -> Qc) b x y : (forall j, D j = D' j) -> rowD n D b x y = rowD n D' b x y.
Proof. intros H. unfold rowD. rewrite H. reflexivity. Qed.
Lemma colD_ext n (D D' : Z -> Qc) b y x : (forall j, D j = D' j) -> colD n D b y x = colD n D' b y x.
Proof. intros H. unfold colD. rewrite H. reflexivity. Qed.
Lemma E1_ext n (D D' : Z -> Qc) b : (forall j, D j = D' j) -> E1 n D b = E1 n D' b.
Proof. intros H. apply (sumZ_ext QcF). intros x _. apply M1_ext. intros y. apply rowD_ext, H. Qed.
Lemma Q0_ext n (D D' : Z -> Qc) b : (forall j, D j = D' j) -> Q0 n D b = Q0 n D' b.
Proof. intros H. apply (sumZ_ext QcF). intros x _. apply M0_ext. intros y. apply rowD_ext, H. Qed.

(** One step of the executable model (a) (offsets given as such) in the generated order, whatever
    the Fokker-Planck map [fp] computes: [g3] is the grid handed to it. *)
Theorem step_model_energy_offsets n nb it (wo rfo dro : list Qc) (fp : list Qc -> list Qc)
        (data g1 g2 g3 g4 : list Qc) b :
  valid_it it -> 2 <= it -> 0 < n < 2 ^ 30 -> 0 < nb -> 0 <= b < nb ->
  run_maps n nb it wo rfo dro fp step_order data = [g1; g2; g3; g4] ->
  (forall x, 0 <= x < n -> exists a bb,
      suppQ (rowD n (getQ data) b x) a bb /\
      row_fits n it (getQ wo (b * n + x)) a bb /\
      row_fits n it (getQ rfo (b * n + x)) (a - shift_hi n it (getQ wo (b * n + x)))
                                            (bb - shift_lo n it (getQ wo (b * n + x)))) ->
  (forall y, 0 <= y < n -> exists c d,
      suppQ (colD n (getQ g2) b y) c d /\ row_fits n it (getQ dro y) c d) ->
  E1 n (getQ g3) b =
    (E1 n (getQ data) b - sumQ 0 (Z.to_nat n)
       (fun x => ((eff_off n (getQ wo (b * n + x)) + eff_off n (getQ rfo (b * n + x)))
                  * M0 n (rowD n (getQ data) b x))%Qc))%Qc
  /\ Q0 n (getQ g3) b = Q0 n (getQ data) b
  /\ g4 = fp g3.
Proof.
  intros Hv H2 Hn Hnb Hb Hrun Hrows Hcols.
  change step_order with [MWake; MRF; MDrift; MFP] in Hrun.
  cbn [run_maps apply_map] in Hrun.
  injection Hrun as E1' E2' E3' E4'.
  set (D := getQ data) in *.
  set (F1 := gkick_y n nb it (getQ wo) D).
  set (F2 := gkick_y n nb it (getQ rfo) F1).
  set (F3 := gkick_x n nb it (getQ dro) F2).
  assert (G1 : forall i, getQ g1 i = F1 i).
  { intros i. rewrite <- E1'. apply getQ_kick_y_list. }
  assert (G2 : forall i, getQ g2 i = F2 i).
  { intros i. rewrite <- E2'. rewrite getQ_kick_y_list. unfold F2. apply gkick_y_ext.
    intros j. apply getQ_kick_y_list. }
  assert (G3 : forall i, getQ g3 i = F3 i).
  { intros i. rewrite <- E3'. rewrite getQ_kick_x_list. unfold F3. apply gkick_x_ext.
    intros j. rewrite E2'. apply G2. }
  assert (Hcols' : forall y, 0 <= y < n -> exists c d,
             suppQ (colD n F2 b y) c d /\ row_fits n it (getQ dro y) c d).
  { intros y Hy. destruct (Hcols y Hy) as (c & d & Hs & Hf). exists c, d. split; [|exact Hf].
    intros x Hx. rewrite <- (colD_ext n _ _ b y x G2). apply Hs, Hx. }
  destruct (kicks_then_drift n nb it (getQ wo) (getQ rfo) (getQ dro) D b Hv H2 Hn Hnb Hb Hrows Hcols')
    as [K1 K2].
  split; [|split].
  - rewrite (E1_ext n _ _ b G3). exact K1.
  - rewrite (Q0_ext n _ _ b G3). exact K2.
  - subst. reflexivity.
Qed.

(** ** the step as the code runs it (list front-end (b)) *)

Lemma getQ_ykick_list n nb it H data i :
  getQ (ykick_list n nb it H data) i = gykick n nb it H (getQ data) i.
Proof.
  unfold ykick_list. rewrite getQ_map_zrange. unfold gykick.
  destruct (in_range (nb * n * n) i); reflexivity.
Qed.

Lemma gykick_ext n nb it H (D D' : Z -> Qc) i :
  (forall j, D j = D' j) -> gykick n nb it H D i = gykick n nb it H D' i.
Proof.
  intros E. unfold gykick. destruct (in_range _ i); [|reflexivity].
  unfold ykick_cell. cbv zeta. apply (f_equal qsum). apply map_ext. intros j.
  rewrite E. reflexivity.
Qed.

(** One step of the executable model in the generated order as the code runs it - the wake kick's
    table from WakePotentialMap::update on the wake potentials [wp], the RF kick's table from the RF
    offsets of every bunch's block, both applied through the generated y branch - whatever the
    Fokker-Planck map [fp] computes; for EVERY bunch [b], with its own wake potential entries
    wp(b*n+x): [g3] is the grid handed to the Fokker-Planck map. *)
Theorem step_model_energy n nb it (wp : list Qc) (t xc : Qc) (dro : list Qc) (fp : list Qc -> list Qc)
        (data g1 g2 g3 g4 : list Qc) b :
  valid_it it -> 2 <= it -> 0 < n < 2 ^ 30 -> 0 <= b < nb ->
  run_maps_code n nb it wp t xc dro fp step_order data = [g1; g2; g3; g4] ->
  (forall x, 0 <= x < n -> exists a bb,
      suppQ (rowD n (getQ data) b x) a bb /\
      row_fits n it (getQ wp (b * n + x)) a bb /\
      row_fits n it (rf_offsets nb n t xc (b * n + x)) (a - shift_hi n it (getQ wp (b * n + x)))
                                                       (bb - shift_lo n it (getQ wp (b * n + x)))) ->
  (forall y, 0 <= y < n -> exists c d,
      suppQ (colD n (getQ g2) b y) c d /\ row_fits n it (getQ dro y) c d) ->
  E1 n (getQ g3) b =
    (E1 n (getQ data) b - sumQ 0 (Z.to_nat n)
       (fun x => ((eff_off n (getQ wp (b * n + x)) + eff_off n (rf_offsets nb n t xc (b * n + x)))
                  * M0 n (rowD n (getQ data) b x))%Qc))%Qc
  /\ Q0 n (getQ g3) b = Q0 n (getQ data) b
  /\ g4 = fp g3.
Proof.
  intros Hv H2 Hn Hb Hrun Hrows Hcols.
  change step_order with [MWake; MRF; MDrift; MFP] in Hrun.
  cbn [run_maps_code apply_map_code] in Hrun. cbv zeta in Hrun.
  injection Hrun as E1' E2' E3' E4'.
  set (D := getQ data) in *.
  set (F1 := gkick_wake n nb it (getQ wp) D).
  set (F2 := gkick_rf n nb it t xc F1).
  set (F3 := gkick_x n nb it (getQ dro) F2).
  assert (G1 : forall i, getQ g1 i = F1 i).
  { intros i. rewrite <- E1'. apply getQ_ykick_list. }
  assert (G2 : forall i, getQ g2 i = F2 i).
  { intros i. rewrite <- E2'. rewrite getQ_ykick_list. unfold F2, gkick_rf. apply gykick_ext.
    intros j. rewrite E1'. apply G1. }
  assert (G3 : forall i, getQ g3 i = F3 i).
  { intros i. rewrite <- E3'. rewrite getQ_kick_x_list. unfold F3. apply gkick_x_ext.
    intros j. rewrite E2'. apply G2. }
  assert (Hcols' : forall y, 0 <= y < n -> exists c d,
             suppQ (colD n F2 b y) c d /\ row_fits n it (getQ dro y) c d).
  { intros y Hy. destruct (Hcols y Hy) as (c & d & Hs & Hf). exists c, d. split; [|exact Hf].
    intros x Hx. rewrite <- (colD_ext n _ _ b y x G2). apply Hs, Hx. }
  destruct (kicks_then_drift_code n nb it (getQ wp) t xc (getQ dro) D b Hv H2 Hn Hb Hrows Hcols')
    as [K1 K2].
  split; [|split].
  - rewrite (E1_ext n _ _ b G3). exact K1.
  - rewrite (Q0_ext n _ _ b G3). exact K2.
  - subst. reflexivity.
Qed.

(** ** the hypotheses of [step_model_energy_offsets] are satisfiable: an 8x8 grid, two-point scheme *)
Definition exs_data : list Qc :=
  map (fun i => if (i =? 3 * 8 + 4) then Qcz 2 else if (i =? 3 * 8 + 5) then Qcz 3 else
                if (i =? 4 * 8 + 4) then Qcz 5 else if (i =? 4 * 8 + 5) then Qcz 1 else 0%Qc) (zrange 64).
Definition exs_wo : list Qc := map (fun _ => Q2Qc (1 # 4)) (zrange 8).
Definition exs_rfo : list Qc := map (fun _ => Q2Qc (1 # 8)) (zrange 8).
Definition exs_dro : list Qc := map (fun _ => Q2Qc (-1 # 4)) (zrange 8).

Ltac cases8 i :=
  let C := fresh "C" in
  assert (C : i = 0 \/ i = 1 \/ i = 2 \/ i = 3 \/ i = 4 \/ i = 5 \/ i = 6 \/ i = 7) by lia;
  repeat (destruct C as [C|C]); subst i.

Lemma in_range_inv n i : in_range n i = true -> 0 <= i < n.
Proof. unfold in_range. intros E. apply andb_prop in E. destruct E as [A B]. apply Z.leb_le in A. apply Z.ltb_lt in B. lia. Qed.

Lemma step_example :
  exists g1 g2 g3 g4,
    run_maps 8 1 2 exs_wo exs_rfo exs_dro (fun d => d) step_order exs_data = [g1; g2; g3; g4] /\
    (forall x, 0 <= x < 8 -> exists a bb,
        suppQ (rowD 8 (getQ exs_data) 0 x) a bb /\
        row_fits 8 2 (getQ exs_wo (0 * 8 + x)) a bb /\
        row_fits 8 2 (getQ exs_rfo (0 * 8 + x)) (a - shift_hi 8 2 (getQ exs_wo (0 * 8 + x)))
                                                 (bb - shift_lo 8 2 (getQ exs_wo (0 * 8 + x)))) /\
    (forall y, 0 <= y < 8 -> exists c d,
        suppQ (colD 8 (getQ g2) 0 y) c d /\ row_fits 8 2 (getQ exs_dro y) c d).
Proof.
  do 4 eexists. split; [vm_compute; reflexivity|]. split.
  - intros x Hx. exists 4, 6. split; [|split].
    + intros i Hi. unfold rowD. destruct (in_range 8 i) eqn:E; [|reflexivity].
      apply in_range_inv in E. cases8 x; cases8 i; try lia; vm_compute; reflexivity.
    + cases8 x; vm_compute; repeat split; try discriminate; reflexivity.
    + cases8 x; vm_compute; repeat split; try discriminate; reflexivity.
  - intros y Hy. exists 3, 5. split.
    + intros i Hi. unfold colD. destruct (in_range 8 i) eqn:E; [|reflexivity].
      apply in_range_inv in E. cases8 y; cases8 i; try lia; vm_compute; reflexivity.
    + cases8 y; vm_compute; repeat split; try discriminate; reflexivity.
Qed.


(** ** the hypotheses of [step_model_energy] are satisfiable for a bunch other than the first: two
    bunches on 8x8 grids, two-point scheme, unequal wakes (1/4 cell in bunch 0, 1/2 cell in bunch 1),
    t = 1/16, xc = 7/2; data in rows 3,4 of both bunches; the statement is instantiated for bunch 1 *)
Definition ex2s_data : list Qc :=
  map (fun i => if (i =? 64 + 3 * 8 + 4) then Qcz 2 else if (i =? 64 + 3 * 8 + 5) then Qcz 3 else
                if (i =? 64 + 4 * 8 + 4) then Qcz 5 else if (i =? 64 + 4 * 8 + 5) then Qcz 1 else
                if (i =? 3 * 8 + 4) then Qcz 1 else if (i =? 4 * 8 + 5) then Qcz 7 else 0%Qc) (zrange 128).
Definition ex2s_wp : list Qc := map (fun i => if i <? 8 then Q2Qc (1 # 4) else Q2Qc (1 # 2)) (zrange 16).
Definition ex2s_t : Qc := Q2Qc (1 # 16).
Definition ex2s_xc : Qc := Q2Qc (7 # 2).

Lemma step_example_two_bunches :
  exists g1 g2 g3 g4,
    run_maps_code 8 2 2 ex2s_wp ex2s_t ex2s_xc exs_dro (fun d => d) step_order ex2s_data = [g1; g2; g3; g4] /\
    (forall x, 0 <= x < 8 -> exists a bb,
        suppQ (rowD 8 (getQ ex2s_data) 1 x) a bb /\
        row_fits 8 2 (getQ ex2s_wp (1 * 8 + x)) a bb /\
        row_fits 8 2 (rf_offsets 2 8 ex2s_t ex2s_xc (1 * 8 + x)) (a - shift_hi 8 2 (getQ ex2s_wp (1 * 8 + x)))
                                                                 (bb - shift_lo 8 2 (getQ ex2s_wp (1 * 8 + x)))) /\
    (forall y, 0 <= y < 8 -> exists c d,
        suppQ (colD 8 (getQ g2) 1 y) c d /\ row_fits 8 2 (getQ exs_dro y) c d) /\
    getQ ex2s_wp (1 * 8 + 3) <> getQ ex2s_wp (0 * 8 + 3).
Proof.
  do 4 eexists. split; [vm_compute; reflexivity|]. split; [|split].
  - intros x Hx. exists 4, 6. split; [|split].
    + intros i Hi. unfold rowD. destruct (in_range 8 i) eqn:E; [|reflexivity].
      apply in_range_inv in E. cases8 x; cases8 i; try lia; vm_compute; reflexivity.
    + cases8 x; vm_compute; repeat split; try discriminate; reflexivity.
    + cases8 x; vm_compute; repeat split; try discriminate; reflexivity.
  - intros y Hy. exists 3, 5. split.
    + intros i Hi. unfold colD. destruct (in_range 8 i) eqn:E; [|reflexivity].
      apply in_range_inv in E. cases8 y; cases8 i; try lia; vm_compute; reflexivity.
    + cases8 y; vm_compute; repeat split; try discriminate; reflexivity.
  - vm_compute. discriminate.
Qed.
