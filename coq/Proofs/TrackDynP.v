(** * Tracked particles under the time-dependent RF map (DynamicRFKickMap)

    main() calls `rfm->apply()` and then `rfm->applyToAll(trackme)`; KickMap::applyTo reads the map's
    `_offset`, which DynamicRFKickMap::apply recomputes in every step from the front entry of its
    modulation queue.  With the statements of apply() in the order of the source (Gen_Track.gen_dyn_apply)
    the particles of step k are kicked with exactly the offsets the grid was kicked with in step k:
    `_calcKick` of queue entry k. *)
From Coq Require Import List ZArith QArith Qcanon Lia Bool.
From Inovesa Require Import Base.FieldKit Base.Float32 Model.Kick Model.Tracking Model.StepKinds
  Model.TrackX Model.DynRF Gen.Gen_Track Model.TrackGen.
Import ListNotations.

Lemma last_cons_indep {A} (l : list A) : forall (a d d' : A), last (a :: l) d = last (a :: l) d'.
Proof.
  induction l as [|b l IH]; intros a d d'; [reflexivity|].
  change (last (a :: b :: l) d) with (last (b :: l) d). change (last (a :: b :: l) d') with (last (b :: l) d').
  apply IH.
Qed.

Section DynP.
  Variable sin : Qc -> Qc.
  Variable G : Type.
  Variable kickmap : list Qc -> G -> G.
  Variable m : rfmap QcF.

  Notation qst := (@st QcF G).

  (** DynamicRFKickMap::apply, statement by statement as generated, is the transition [exec Apply] of
      the queue model of Model/DynRF.v (the model C19's theorems are about) *)
  Lemma gen_dyn_apply_is_exec (s : qst) :
    dyn_apply sin G kickmap m gen_dyn_calckick_args gen_dyn_apply s = exec (K:=QcF) sin kickmap m Apply s.
  Proof.
    unfold dyn_apply, gen_dyn_apply, gen_dyn_calckick_args. cbn [fold_left].
    unfold exec. destruct (ub s) eqn:U.
    - unfold dyn_stmt. rewrite !U. reflexivity.
    - destruct (queue s) as [|e q] eqn:Q; unfold dyn_stmt; cbn; rewrite ?U, ?Q; cbn; rewrite ?Q; reflexivity.
  Qed.

  (** the reference run: in step k the offsets are `_calcKick` of queue entry k (written over the
      previous offsets), and the particles are moved by KickMap::applyTo with these offsets *)
  Fixpoint spec_run (n : Z) (o : list Qc) (q : list (modn QcF)) (ps : list pos) : list (list Qc * list pos) :=
    match q with
    | [] => []
    | e :: r => let o' := write_prefix (calc_kick (K:=QcF) sin m (fst e) (snd e)) o in
                let ps' := applyToAll n (OpKick false (getQ o')) ps in
                (o', ps') :: spec_run n o' r ps'
    end.

  Definition obs (sp : qst * list pos) : list Qc * list pos := (offs (fst sp), snd sp).

  Lemma dyn_track_run_spec n steps : forall (s : qst) ps,
    ub s = false -> (steps <= length (queue s))%nat ->
    map obs (dyn_track_run sin G kickmap m n gen_dyn_calckick_args gen_dyn_apply steps (s, ps))
    = firstn steps (spec_run n (offs s) (queue s) ps)
    /\ forall sp, last (dyn_track_run sin G kickmap m n gen_dyn_calckick_args gen_dyn_apply steps (s, ps)) (s, ps) = sp ->
         kicks (fst sp) = kicks s ++ map fst (firstn steps (spec_run n (offs s) (queue s) ps))
         /\ used (fst sp) = used s ++ firstn steps (queue s) /\ ub (fst sp) = false.
  Proof.
    induction steps as [|k IH]; intros s ps U L.
    - cbn. split; [reflexivity|]. intros sp <-. cbn. rewrite !app_nil_r. auto.
    - destruct (queue s) as [|e q] eqn:Q; [cbn in L; lia|].
      cbn [dyn_track_run].
      assert (Hstep : dyn_track_step sin G kickmap m n gen_dyn_calckick_args gen_dyn_apply (s, ps) =
                      (exec (K:=QcF) sin kickmap m Apply s,
                       applyToAll n (OpKick false (getQ (offs (exec (K:=QcF) sin kickmap m Apply s)))) ps)).
      { unfold dyn_track_step. cbn [fst snd]. rewrite gen_dyn_apply_is_exec. reflexivity. }
      rewrite !Hstep. clear Hstep.
      set (s' := exec (K:=QcF) sin kickmap m Apply s).
      assert (Es : s' = mkSt (write_prefix (calc_kick (K:=QcF) sin m (fst e) (snd e)) (offs s)) q (past s ++ [e])
                          (kickmap (write_prefix (calc_kick (K:=QcF) sin m (fst e) (snd e)) (offs s)) (grid s)) (flushed s)
                          (kicks s ++ [write_prefix (calc_kick (K:=QcF) sin m (fst e) (snd e)) (offs s)]) (used s ++ [e]) false).
      { unfold s', exec. rewrite U, Q. reflexivity. }
      assert (U' : ub s' = false) by (rewrite Es; reflexivity).
      assert (Q' : queue s' = q) by (rewrite Es; reflexivity).
      assert (O' : offs s' = write_prefix (calc_kick (K:=QcF) sin m (fst e) (snd e)) (offs s)) by (rewrite Es; reflexivity).
      assert (L' : (k <= length (queue s'))%nat) by (rewrite Q'; cbn in L; lia).
      destruct (IH s' (applyToAll n (OpKick false (getQ (offs s'))) ps) U' L') as [IH1 IH2].
      rewrite Q' in IH1, IH2.
      cbn [map spec_run firstn]. unfold obs at 1. cbn [fst snd].
      split.
      { apply (f_equal2 cons); [rewrite O'; reflexivity|]. rewrite <- O'. exact IH1. }
      intros sp Hsp.
      assert (Hl : last (dyn_track_run sin G kickmap m n gen_dyn_calckick_args gen_dyn_apply k
                           (s', applyToAll n (OpKick false (getQ (offs s'))) ps))
                        (s', applyToAll n (OpKick false (getQ (offs s'))) ps) = sp).
      { rewrite <- Hsp. clear Hsp IH1 IH2. destruct (dyn_track_run sin G kickmap m n gen_dyn_calckick_args gen_dyn_apply k
                                    (s', applyToAll n (OpKick false (getQ (offs s'))) ps)) as [|a l] eqn:R.
        - reflexivity.
        - change (last (a :: l) (s', applyToAll n (OpKick false (getQ (offs s'))) ps) = last ((s', applyToAll n (OpKick false (getQ (offs s'))) ps) :: a :: l) (s, ps)).
          change (last ((s', applyToAll n (OpKick false (getQ (offs s'))) ps) :: a :: l) (s, ps)) with (last (a :: l) (s, ps)).
          apply last_cons_indep. }
      destruct (IH2 sp Hl) as (K & Us & Ub).
      split; [|split; [|exact Ub]].
      + rewrite K. rewrite <- O'. rewrite Es at 1. cbn [kicks map fst]. rewrite <- app_assoc.
        rewrite <- O'. reflexivity.
      + rewrite Us. rewrite Es. cbn [used]. rewrite <- app_assoc. reflexivity.
  Qed.

  (** the theorem: from the map as constructed (queue [q0]), over [steps] steps of main():
      (1) what applyToAll(trackme) does in step k and the `_offset` it reads are those of the
      reference run - `_calcKick` of entry k; (2) the offsets KickMap::apply kicked the GRID with
      (log [kicks]) are the same vectors, step by step; (3) the entries read are q0's first [steps]. *)
  Theorem dyn_particles_get_the_grids_kick n len q0 (g : G) ps steps :
    (steps <= length q0)%nat ->
    let run := dyn_track_run sin G kickmap m n gen_dyn_calckick_args gen_dyn_apply steps (init (K:=QcF) sin m len q0 g, ps) in
    let ref := firstn steps (spec_run n (static_offsets (K:=QcF) sin m len) q0 ps) in
    map obs run = ref /\
    kicks (fst (last run (init (K:=QcF) sin m len q0 g, ps))) = map fst ref /\
    used (fst (last run (init (K:=QcF) sin m len q0 g, ps))) = firstn steps q0 /\
    ub (fst (last run (init (K:=QcF) sin m len q0 g, ps))) = false.
  Proof.
    intros L run ref.
    destruct (dyn_track_run_spec n steps (init (K:=QcF) sin m len q0 g) ps eq_refl L) as [A B].
    split; [exact A|]. destruct (B _ eq_refl) as (K & Us & Ub).
    split; [exact K|]. split; [exact Us | exact Ub].
  Qed.
End DynP.

(** ** a body that prepares the NEXT step's kick after applying (KickMap::apply first, `_calcKick`
    last) gives the grid the right kicks only if the first kick was prepared elsewhere, and in any
    case hands the particles of step k the offsets of entry k+1: the two runs differ as soon as two
    consecutive entries give different offsets (computed example in Props/Properties_C15.v). *)
Definition late_calc_body : list dynstmt := [DKickApply; DPushPast; DPop; DCalcKickIfMore].
