(** * The Fokker-Planck table of the model reads inside its own energy column ([fp_inside] of
    Model/Run.v is satisfied by [fp_hinfo] on the documented domain [fp_domain]). *)
From Coq Require Import List ZArith QArith Qcanon Lia Bool.
From Inovesa Require Import Base.FieldKit Base.Float32 Gen.Gen_FPStencil Model.FokkerPlanck Proofs.FPGridP
  Model.Kick Model.Run.
Import ListNotations.
Local Open Scope Z_scope.

Lemma nth_zero_row (K : Fld) ip (i : nat) : fst (nth i (zero_row (K:=K) ip) (0, f0)) = 0.
Proof.
  unfold zero_row. generalize (zrange ip). intros l. revert i.
  induction l as [|a l IH]; intros [|i]; cbn; try reflexivity. apply IH.
Qed.

Ltac tonat := match goal with |- context [Z.to_nat ?c] =>
  let t := eval vm_compute in (Z.to_nat c) in change (Z.to_nat c) with t end.

Lemma u32_lt z n : 0 <= z < n -> n < 2 ^ 32 -> u32 z = z.
Proof. intros Hz Hn. apply u32_small. lia. Qed.

Theorem fp_hinfo_inside (K : Fld) (e1 delta : K) (p : Z -> K) dt v n lo_end hi_start k :
  fp_domain dt n lo_end hi_start -> 0 <= k < n * dt ->
  0 <= fst (fp_hinfo e1 delta p dt v n lo_end hi_start k) < n.
Proof.
  intros [Hn32 Hd] Hk. unfold fp_hinfo.
  assert (Hdt : dt = 3 \/ dt = 4) by (destruct Hd as [[? _]|[? _]]; [left | right]; assumption).
  assert (Hdtp : 0 < dt) by lia.
  assert (Hj : 0 <= k / dt < n).
  { split; [apply Z.div_pos; lia|]. apply Z.div_lt_upper_bound; lia. }
  assert (Hi : 0 <= k mod dt < dt) by (apply Z.mod_pos_bound; lia).
  set (j := k / dt) in *. set (i := k mod dt) in *.
  unfold fp_row.
  destruct Hd as [ [-> Hn2] | [-> [Hn4 [Hhs Hle]]] ].
  - (* two-sided *)
    replace (3 =? 3) with true by reflexivity.
    destruct (j =? n - 1) eqn:E1; [rewrite nth_zero_row; lia|].
    destruct ((fp3_first <=? j) && (j <? n - fp3_last_off))%bool eqn:E2; [|rewrite nth_zero_row; lia].
    apply andb_prop in E2. destruct E2 as [A B]. apply Z.leb_le in A. apply Z.ltb_lt in B.
    unfold fp3_first, fp3_last_off in *.
    assert (Ci : i = 0 \/ i = 1 \/ i = 2) by lia.
    destruct Ci as [Ei|[Ei|Ei]]; rewrite Ei; tonat; cbn [nth row3 fst];
      rewrite ?(u32_lt _ n) by (first [assumption | lia]); lia.
  - (* one-sided cubic *)
    replace (4 =? 3) with false by reflexivity.
    destruct ((j =? n - 2) || (j =? n - 1))%bool eqn:E1; [rewrite nth_zero_row; lia|].
    apply orb_false_iff in E1. destruct E1 as [N2 N1]. apply Z.eqb_neq in N2. apply Z.eqb_neq in N1.
    assert (Ci : i = 0 \/ i = 1 \/ i = 2 \/ i = 3) by lia.
    destruct ((hi_start <=? j) && (j <? n - fp4_last_off))%bool eqn:E2.
    + apply andb_prop in E2. destruct E2 as [A B]. apply Z.leb_le in A. apply Z.ltb_lt in B.
      unfold fp4_last_off in *.
      destruct Ci as [Ei|[Ei|[Ei|Ei]]]; rewrite Ei; tonat; cbn [nth row4hi fst];
        rewrite ?(u32_lt _ n) by (first [assumption | lia]); lia.
    + destruct ((fp4_first <=? j) && (j <? lo_end))%bool eqn:E3; [|rewrite nth_zero_row; lia].
      apply andb_prop in E3. destruct E3 as [A B]. apply Z.leb_le in A. apply Z.ltb_lt in B.
      unfold fp4_first, fp4_last_off in *.
      assert (Hlt : j < hi_start \/ n - 2 <= j).
      { apply andb_false_iff in E2. destruct E2 as [E|E]; [left; apply Z.leb_gt in E | right; apply Z.ltb_ge in E]; lia. }
      destruct Ci as [Ei|[Ei|[Ei|Ei]]]; rewrite Ei; tonat; cbn [nth row4lo fst];
        rewrite ?(u32_lt _ n) by (first [assumption | lia]); lia.
Qed.

(** hence a run whose Fokker-Planck slot holds the model's own table satisfies [fp_inside] *)
Corollary fp_inside_model n it rf dr (e1 delta : Qc) (p : Z -> Qc) dt v lo_end hi_start :
  fp_domain dt n lo_end hi_start ->
  fp_inside (mkRunPar n it rf dr (Some (dt, fp_hinfo (K:=QcF) e1 delta p dt v n lo_end hi_start))).
Proof.
  intros Hd. unfold fp_inside. cbn [rp_fp rp_n]. split.
  - destruct Hd as [_ [[-> _]|[-> _]]]; lia.
  - intros k Hk. apply (fp_hinfo_inside QcF e1 delta p dt v n lo_end hi_start k Hd Hk).
Qed.

Lemma fp_inside_identity n it rf dr : fp_inside (mkRunPar n it rf dr None).
Proof. exact I. Qed.
