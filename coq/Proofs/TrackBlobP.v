(** * A tracked particle moves as the centre of charge of a small blob placed on it.

    First-moment transport of one row under the model's updateSM + apply (for it >= 2 the
    interpolation reproduces linear functions, so the first moment of a row moves by exactly the
    displacement the table encodes), then the two rows of a unit hat-blob. *)
From Coq Require Import List ZArith QArith Qcanon Qround Lia Bool Ring Field.
From Inovesa Require Import Base.FieldKit Base.Sums Base.Float32 Gen.Gen_Coeffs Model.Kick
  Model.Tracking Proofs.WeightsP Proofs.KickP Proofs.KickGridP Proofs.TrackingP.
Import ListNotations.
Local Open Scope Z_scope.
Local Opaque Qcz.

(** the displacement (in cells, backward) the table row written for offset [o] encodes:
    [n/2 + o] rounded to float, split, minus [n/2] *)
Definition eff_offset (n : Z) (o : Qc) : Qc :=
  let s := poffs_split n o in (Qcz (sp_int s) + sp_frac s - Qcz (n / 2))%Qc.

Lemma eff_offset_rnd n o : eff_offset n o = (rnd32 (Qcz (n / 2) + o) - Qcz (n / 2))%Qc.
Proof. unfold eff_offset, poffs_split; cbn [sp_int sp_frac]. rewrite Qcz_trunc_frac. reflexivity. Qed.

(** when the float sum [n/2 + o] is exact the table encodes [o] itself *)
Lemma eff_offset_exact n o : rnd32 (Qcz (n / 2) + o) = (Qcz (n / 2) + o)%Qc -> eff_offset n o = o.
Proof. intros H. rewrite eff_offset_rnd, H. ring. Qed.

Lemma weights_first_moment it (f : Qc) :
  valid_it it -> 2 <= it ->
  sumQ 0 (Z.to_nat it) (fun j => (nthQ (coeffs (K:=QcF) it f) j * Qcz (j - centre it))%Qc) = f.
Proof.
  intros Hv H2. destruct Hv as [H|[H|[H|H]]]; subst it; try lia.
  - change (Z.to_nat 2) with 2%nat. cbn [sumZ]. unfold nthQ, coeffs, centre. cbn [Z.eqb Pos.eqb Z.to_nat nth].
    change (0 + 1) with 1. change ((2 - 1) / 2) with 0. change (0 - 0) with 0. change (1 - 0) with 1.
    change (Z.to_nat 1) with 1%nat. cbn [nth]. rewrite Qcz_0, Qcz_1. qc_unf. ring.
  - change (Z.to_nat 3) with 3%nat. cbn [sumZ]. unfold nthQ, coeffs, centre. cbn [Z.eqb Pos.eqb Z.to_nat nth].
    change (0 + 1 + 1) with 2. change (0 + 1) with 1. change ((3 - 1) / 2) with 1.
    change (0 - 1) with (-1). change (1 - 1) with 0. change (2 - 1) with 1.
    change (Z.to_nat 1) with 1%nat. change (Z.to_nat 2) with 2%nat. cbn [nth].
    rewrite Qcz_0, Qcz_1, Qcz_m1. qc_unf. field. exact Qc_nz2.
  - change (Z.to_nat 4) with 4%nat. cbn [sumZ]. unfold nthQ, coeffs, centre. cbn [Z.eqb Pos.eqb Z.to_nat nth].
    change (0 + 1 + 1 + 1) with 3. change (0 + 1 + 1) with 2. change (0 + 1) with 1. change ((4 - 1) / 2) with 1.
    change (0 - 1) with (-1). change (1 - 1) with 0. change (2 - 1) with 1. change (3 - 1) with 2.
    change (Z.to_nat 1) with 1%nat. change (Z.to_nat 2) with 2%nat. change (Z.to_nat 3) with 3%nat. cbn [nth].
    rewrite Qcz_0, Qcz_1, Qcz_m1, Qcz_2. qc_unf. field. repeat split; intro Hx; discriminate Hx.
Qed.

Lemma weights_unity it (f : Qc) :
  valid_it it -> sumQ 0 (Z.to_nat it) (fun j => nthQ (coeffs (K:=QcF) it f) j) = 1%Qc.
Proof.
  intros Hv. rewrite <- qsum_zrange. rewrite nthQ_sum by (apply (coeffs_length QcF); exact Hv).
  exact (coeffs_unity QcF it f Hv).
Qed.

Lemma Qcz_plus a b : Qcz (a + b) = (Qcz a + Qcz b)%Qc.
Proof. symmetry. apply Qcz_add. Qed.

Lemma sum_weight_shift n (r : Z -> Qc) s :
  sumQ 0 n (fun u => (Qcz (u - s) * r u)%Qc) =
  (sumQ 0 n (fun u => (Qcz u * r u)%Qc) - Qcz s * sumQ 0 n r)%Qc.
Proof.
  rewrite (sumZ_ext QcF _ _ _ (fun u => @fadd QcF ((fun u => (Qcz u * r u)%Qc) u)
                                               ((fun u => @fmul QcF (- Qcz s)%Qc (r u)) u))).
  - rewrite sumZ_add, sumZ_scale. qc_unf. ring.
  - intros u _. rewrite <- Qcz_sub. qc_unf. ring.
Qed.

(** first moment of one output row: moved by the encoded displacement *)
Theorem sm_row_first_moment n it o r :
  valid_it it -> 2 <= it -> 0 < n < 2 ^ 30 -> row_ok n it o r ->
  sumQ 0 (Z.to_nat n) (fun x => (Qcz x * row_out n it (sm_entry n it o) r x)%Qc) =
  (sumQ 0 (Z.to_nat n) (fun u => (Qcz u * r u)%Qc) - eff_offset n o * sumQ 0 (Z.to_nat n) r)%Qc.
Proof.
  intros Hv H2 Hn (Hlo & Hhi & a & b & Hs & Ha & Hab & Hb & S1 & S2).
  destruct (valid_it_range it Hv) as [Hi Hc].
  set (jd := sp_int (poffs_split n o)) in *. set (f := sp_frac (poffs_split n o)).
  set (A := sumQ 0 (Z.to_nat n) (fun u => (Qcz u * r u)%Qc)). set (S := sumQ 0 (Z.to_nat n) r).
  assert (HE : forall j, 0 <= j < it ->
             sm_entry n it o j = (jd + j - centre it, nthQ (coeffs (K:=QcF) it f) j)).
  { intros j Hj. apply sm_entry_inrange; assumption || lia. }
  rewrite (sumZ_ext QcF _ _ _ (fun x => sumQ 0 (Z.to_nat it)
      (fun j => @fmul QcF (Qcz x) (termQ n r (snd (sm_entry n it o j)) (fst (sm_entry n it o j) - n / 2) x)))).
  2:{ intros x Hx. rewrite sumZ_scale. unfold fmul at 1; cbn [QcF]. f_equal.
      apply row_out_terms; try lia.
      intros j Hj. rewrite HE by lia. cbn [fst]. lia. }
  rewrite sumZ_swap.
  rewrite (sumZ_ext QcF _ _ _ (fun j => @fadd QcF
        ((fun j => @fmul QcF (A - Qcz (jd - n / 2) * S)%Qc (nthQ (coeffs (K:=QcF) it f) j)) j)
        ((fun j => @fmul QcF (- S)%Qc ((fun j => (nthQ (coeffs (K:=QcF) it f) j * Qcz (j - centre it))%Qc) j)) j))).
  - rewrite sumZ_add, !sumZ_scale. rewrite weights_unity by exact Hv. rewrite weights_first_moment by assumption.
    unfold eff_offset. fold jd f. rewrite <- Qcz_sub. qc_unf. ring.
  - intros j Hj. assert (Hj' : 0 <= j < it) by lia. rewrite HE by exact Hj'. cbn [fst snd].
    rewrite (term_sum_weighted QcF n r _ (jd + j - centre it - n / 2) a b Qcz) by (assumption || lia).
    change (sumZ 0 (Z.to_nat n) (fun u : Z => @fmul QcF (Qcz (u - (jd + j - centre it - n / 2))) (r u)))
      with (sumQ 0 (Z.to_nat n) (fun u => (Qcz (u - (jd + j - centre it - n / 2)) * r u)%Qc)).
    rewrite sum_weight_shift. fold A S.
    replace (jd + j - centre it - n / 2) with ((jd - n / 2) + (j - centre it)) by lia.
    rewrite Qcz_plus. qc_unf. ring.
Qed.

(** ** the hat profile of the blob along one axis *)

Definition inr (n u : Z) : bool := (0 <=? u) && (u <? n).
Definition hat_in (n : Z) (c : Qc) (u : Z) : Qc := if inr n u then hat c u else 0%Qc.

Lemma hat_in_supp n c : suppQ (hat_in n c) (Qctrunc c) (Qctrunc c + 2).
Proof.
  intros i Hi. unfold hat_in, hat. destruct (inr n i); [|reflexivity].
  destruct (Z.eqb_spec i (Qctrunc c)); [lia|]. destruct (Z.eqb_spec i (Qctrunc c + 1)); [lia|]. reflexivity.
Qed.

Lemma hat_in_sums n c :
  0 <= Qctrunc c -> Qctrunc c + 2 <= n ->
  sumQ 0 (Z.to_nat n) (hat_in n c) = 1%Qc /\
  sumQ 0 (Z.to_nat n) (fun u => (Qcz u * hat_in n c u)%Qc) = c.
Proof.
  intros H0 H1. set (ci := Qctrunc c) in *.
  assert (V0 : hat_in n c ci = (1 - Qcfrac c)%Qc).
  { unfold hat_in, hat, inr. fold ci. rewrite Z.eqb_refl.
    replace ((0 <=? ci) && (ci <? n))%bool with true; [reflexivity|].
    symmetry; apply andb_true_iff; split; [apply Z.leb_le|apply Z.ltb_lt]; lia. }
  assert (V1 : hat_in n c (ci + 1) = Qcfrac c).
  { unfold hat_in, hat, inr. fold ci. rewrite Z.eqb_refl.
    replace ((0 <=? ci + 1) && (ci + 1 <? n))%bool with true
      by (symmetry; apply andb_true_iff; split; [apply Z.leb_le|apply Z.ltb_lt]; lia).
    destruct (Z.eqb_spec (ci + 1) ci); [lia|reflexivity]. }
  split.
  - rewrite (sum_window QcF (hat_in n c) ci (ci + 2) 0 (Z.to_nat n)) by (try apply hat_in_supp; lia).
    replace (Z.to_nat (ci + 2 - ci)) with 2%nat by lia. cbn [sumZ]. rewrite V0, V1. qc_unf. ring.
  - assert (Sp : suppQ (fun u => (Qcz u * hat_in n c u)%Qc) ci (ci + 2)).
    { intros i Hi. rewrite (hat_in_supp n c i Hi). apply Qcmult_0_r. }
    rewrite (sum_window QcF _ ci (ci + 2) 0 (Z.to_nat n) Sp) by lia.
    replace (Z.to_nat (ci + 2 - ci)) with 2%nat by lia. cbn [sumZ]. rewrite V0, V1.
    rewrite Qcz_plus, Qcz_1. transitivity (Qcz ci + Qcfrac c)%Qc; [qc_unf; ring | apply Qcz_trunc_frac].
Qed.

(** stencil of the row in the table range, blob clear of the border under every stencil shift *)
Definition blob_row_ok (n it : Z) (o : Qc) (ci : Z) : Prop :=
  let jd := sp_int (poffs_split n o) in
  0 <= jd - centre it /\ jd + (it - 1) - centre it < n /\ 0 <= ci /\ ci + 2 <= n /\
  0 <= ci - (jd + (it - 1) - centre it - n / 2) /\ ci + 2 - (jd - centre it - n / 2) <= n.

Lemma blob_row_ok_row n it o ci r : blob_row_ok n it o ci -> suppQ r ci (ci + 2) -> row_ok n it o r.
Proof.
  intros (A & B & C & D & E & F) Hs. unfold row_ok. split; [exact A|]. split; [exact B|].
  exists ci, (ci + 2). repeat split; try assumption; lia.
Qed.

(** a scaled hat row: sums and first moment after the kick *)
Lemma scaled_hat_row n it o c (h : Qc) :
  valid_it it -> 2 <= it -> 0 < n < 2 ^ 30 -> blob_row_ok n it o (Qctrunc c) ->
  let r := fun u => (hat_in n c u * h)%Qc in
  let out := row_out n it (sm_entry n it o) r in
  sumQ 0 (Z.to_nat n) out = h /\
  sumQ 0 (Z.to_nat n) (fun x => (Qcz x * out x)%Qc) = (h * (c - eff_offset n o))%Qc.
Proof.
  intros Hv H2 Hn Hok r out. destruct Hok as (A & B & C & D & E & F).
  assert (Hs : suppQ r (Qctrunc c) (Qctrunc c + 2)).
  { intros i Hi. unfold r. rewrite (hat_in_supp n c i Hi). apply Qcmult_0_l. }
  assert (Hrow : row_ok n it o r) by (apply (blob_row_ok_row n it o (Qctrunc c)); [repeat split; assumption|exact Hs]).
  destruct (hat_in_sums n c C D) as [S0 S1].
  assert (R0 : sumQ 0 (Z.to_nat n) r = h).
  { unfold r. rewrite sumQ_scale_r, S0. apply Qcmult_1_l. }
  assert (R1 : sumQ 0 (Z.to_nat n) (fun u => (Qcz u * r u)%Qc) = (c * h)%Qc).
  { unfold r. rewrite (sumZ_ext QcF _ _ _ (fun u => ((fun u => (Qcz u * hat_in n c u)%Qc) u * h)%Qc))
      by (intros; cbv beta; qc_unf; ring). rewrite sumQ_scale_r, S1. reflexivity. }
  split.
  - unfold out. rewrite sm_row_conserves by assumption. exact R0.
  - unfold out. rewrite sm_row_first_moment by assumption. rewrite R0, R1. qc_unf; ring.
Qed.

Lemma row_out_zero n it E (r : Z -> Qc) x : (forall u, r u = 0%Qc) -> row_out n it E r x = 0%Qc.
Proof.
  intros Hz. unfold row_out. rewrite qsum_zrange. apply (sumZ_zero QcF). intros j _. cbv zeta.
  destruct (wrap32 _ <? n); [|reflexivity]. rewrite Hz. apply Qcmult_0_l.
Qed.

(** [row_out] reads cells [0, n) only *)
Lemma row_out_trunc n it E (r : Z -> Qc) x :
  row_out n it E r x = row_out n it E (fun u => if inr n u then r u else 0%Qc) x.
Proof.
  unfold row_out. f_equal. apply map_ext. intros j. cbv zeta.
  destruct (Z.ltb_spec (wrap32 (x + fst (E j) - n / 2)) n) as [L|G]; [|reflexivity].
  unfold inr. assert (P : 0 <= wrap32 (x + fst (E j) - n / 2)) by (unfold wrap32; apply Z.mod_pos_bound; reflexivity).
  replace ((0 <=? wrap32 (x + fst (E j) - n / 2)) && (wrap32 (x + fst (E j) - n / 2) <? n))%bool with true; [reflexivity|].
  symmetry; apply andb_true_iff; split; [apply Z.leb_le|apply Z.ltb_lt]; lia.
Qed.

(** ** the blob on the grid *)

Lemma blob_cell n p x y :
  0 < n -> 0 <= x < n -> 0 <= y < n ->
  blob n p ((0 * n + x) * n + y) = (hat (px p) x * hat (py p) y)%Qc.
Proof.
  intros Hn Hx Hy. unfold blob.
  destruct (cell_decode n 0 x y) as (_ & -> & ->); try lia.
  replace ((0 <=? (0 * n + x) * n + y) && ((0 * n + x) * n + y <? n * n))%bool with true; [reflexivity|].
  symmetry; apply andb_true_iff; split; [apply Z.leb_le|apply Z.ltb_lt]; nia.
Qed.

(** first moments and charge of a grid (single bunch) *)
Definition charge (n : Z) (G : Z -> Qc) : Qc := sumQ 0 (Z.to_nat (n * n)) G.
Definition mom_x (n : Z) (G : Z -> Qc) : Qc := sumQ 0 (Z.to_nat (n * n)) (fun i => (Qcz (cell_x n i) * G i)%Qc).
Definition mom_y (n : Z) (G : Z -> Qc) : Qc := sumQ 0 (Z.to_nat (n * n)) (fun i => (Qcz (cell_y n i) * G i)%Qc).

Lemma sum_grid1 n (g : Z -> Qc) :
  0 < n ->
  sumQ 0 (Z.to_nat (n * n)) g =
  sumQ 0 (Z.to_nat n) (fun x => sumQ 0 (Z.to_nat n) (fun y => g ((0 * n + x) * n + y))).
Proof.
  intros Hn. replace (n * n) with (1 * n * n) by ring. rewrite sum_grid by lia.
  change (Z.to_nat 1) with 1%nat. cbn [sumZ]. qc_unf. qc_unf; ring.
Qed.

Lemma sum_two n (g : Z -> Qc) ci :
  0 <= ci -> ci + 2 <= n -> suppQ g ci (ci + 2) ->
  sumQ 0 (Z.to_nat n) g = (g ci + g (ci + 1)%Z)%Qc.
Proof.
  intros H0 H1 Hs. rewrite (sum_window QcF g ci (ci + 2) 0 (Z.to_nat n) Hs) by lia.
  replace (Z.to_nat (ci + 2 - ci)) with 2%nat by lia. cbn [sumZ]. qc_unf. qc_unf; ring.
Qed.

Lemma hat_at_trunc c : hat c (Qctrunc c) = (1 - Qcfrac c)%Qc.
Proof. unfold hat. rewrite Z.eqb_refl. reflexivity. Qed.
Lemma hat_at_next c : hat c (Qctrunc c + 1) = Qcfrac c.
Proof. unfold hat. destruct (Z.eqb_spec (Qctrunc c + 1) (Qctrunc c)); [lia|]. rewrite Z.eqb_refl. reflexivity. Qed.
Lemma hat_off c i : i < Qctrunc c \/ Qctrunc c + 2 <= i -> hat c i = 0%Qc.
Proof.
  intros H. unfold hat. destruct (Z.eqb_spec i (Qctrunc c)); [lia|].
  destruct (Z.eqb_spec i (Qctrunc c + 1)); [lia|reflexivity].
Qed.

Lemma sum_rows_gen n ci (g : Z -> Qc) :
  0 <= ci -> ci + 2 <= n ->
  (forall y, 0 <= y < n -> y < ci \/ ci + 2 <= y -> g y = 0%Qc) ->
  sumQ 0 (Z.to_nat n) g = (g ci + g (ci + 1)%Z)%Qc.
Proof.
  intros Hy0 Hy1 Hz.
  rewrite (sumZ_ext QcF _ _ g (fun y => if inr n y then g y else 0%Qc)).
  2:{ intros y Hy. unfold inr.
      replace ((0 <=? y) && (y <? n))%bool with true; [reflexivity|].
      symmetry; apply andb_true_iff; split; [apply Z.leb_le|apply Z.ltb_lt]; lia. }
  rewrite (sum_two n _ ci Hy0 Hy1).
  - unfold inr.
    replace ((0 <=? ci) && (ci <? n))%bool with true
      by (symmetry; apply andb_true_iff; split; [apply Z.leb_le|apply Z.ltb_lt]; lia).
    replace ((0 <=? ci + 1) && (ci + 1 <? n))%bool with true
      by (symmetry; apply andb_true_iff; split; [apply Z.leb_le|apply Z.ltb_lt]; lia).
    reflexivity.
  - intros y Hy. destruct (inr n y) eqn:Ein; [|reflexivity].
    unfold inr in Ein. apply andb_true_iff in Ein. destruct Ein as [E1 E2].
    apply Z.leb_le in E1. apply Z.ltb_lt in E2. apply Hz; lia.
Qed.

(** *** kick along x (drift): rows are y = const *)
Section BlobX.
  Variables (n it : Z) (offs : Z -> Qc) (p : pos).
  Hypothesis Hv : valid_it it.
  Hypothesis H2 : 2 <= it.
  Hypothesis Hn : 0 < n < 2 ^ 30.
  Let xi := Qctrunc (px p).
  Let yi := Qctrunc (py p).
  Let yf := Qcfrac (py p).
  Hypothesis Hy0 : 0 <= yi.
  Hypothesis Hy1 : yi + 2 <= n.
  Hypothesis Hrow0 : blob_row_ok n it (offs yi) xi.
  Hypothesis Hrow1 : blob_row_ok n it (offs (yi + 1)) xi.
  Let out := apply_x n 1 it (updateSM n it offs) (blob n p).

  (** output row y as the row operator on the truncated blob row *)
  Lemma out_row_x x y :
    0 <= x < n -> 0 <= y < n ->
    out ((0 * n + x) * n + y) =
    row_out n it (sm_entry n it (offs y)) (fun u => (hat_in n (px p) u * hat (py p) y)%Qc) x.
  Proof.
    intros Hx Hy. destruct (valid_it_range it Hv) as [Hi Hc].
    unfold out, apply_x. destruct (cell_decode n 0 x y) as (-> & -> & ->); try lia.
    unfold apply_x_cell. rewrite row_out_trunc.
    transitivity (row_out n it (sm_entry n it (offs y)) (fun u => if inr n u then blob n p (didx n 0 u y) else 0%Qc) x).
    - unfold row_out. f_equal. apply map_ext_in. intros j Hj.
      unfold zrange in Hj. apply in_map_iff in Hj. destruct Hj as (k & <- & Hk). apply in_seq in Hk.
      unfold updateSM, hidx_x.
      rewrite (div_lin y it (Z.of_nat k)) by lia. rewrite (mod_lin y it (Z.of_nat k)) by lia. reflexivity.
    - unfold row_out. f_equal. apply map_ext. intros j. cbv zeta.
      destruct (wrap32 _ <? n); [|reflexivity]. f_equal.
      unfold hat_in. destruct (inr n (wrap32 _)) eqn:Ein; [|symmetry; apply Qcmult_0_l].
      unfold inr in Ein. apply andb_true_iff in Ein. destruct Ein as [E1 E2].
      apply Z.leb_le in E1. apply Z.ltb_lt in E2. rewrite didx_flat. apply blob_cell; lia.
  Qed.

  Let g0 (y : Z) : Qc := sumQ 0 (Z.to_nat n) (fun x => out ((0 * n + x) * n + y)).
  Let g1 (y : Z) : Qc := sumQ 0 (Z.to_nat n) (fun x => (Qcz x * out ((0 * n + x) * n + y))%Qc).

  Lemma g_off y : 0 <= y < n -> y < yi \/ yi + 2 <= y -> g0 y = 0%Qc /\ g1 y = 0%Qc.
  Proof.
    intros Hy Hoff. unfold g0, g1. split; apply (sumZ_zero QcF); intros x Hx;
      rewrite out_row_x by lia; rewrite row_out_zero; try reflexivity; try apply Qcmult_0_r;
      intros u; rewrite (hat_off (py p) y Hoff); apply Qcmult_0_r.
  Qed.

  Lemma g_row y o :
    0 <= y < n -> o = offs y -> blob_row_ok n it o xi ->
    g0 y = hat (py p) y /\ g1 y = (hat (py p) y * (px p - eff_offset n o))%Qc.
  Proof.
    intros Hy -> Hok. unfold g0, g1.
    destruct (scaled_hat_row n it (offs y) (px p) (hat (py p) y) Hv H2 Hn Hok) as [A B].
    split.
    - rewrite <- A. apply (sumZ_ext QcF). intros x Hx. apply out_row_x; lia.
    - rewrite <- B. apply (sumZ_ext QcF). intros x Hx. rewrite out_row_x by lia. reflexivity.
  Qed.

  Theorem blob_moments_x :
    charge n out = 1%Qc /\
    mom_x n out = (px p - ((1 - yf) * eff_offset n (offs yi) + yf * eff_offset n (offs (yi + 1)%Z)))%Qc /\
    mom_y n out = py p.
  Proof.
    destruct (g_row yi (offs yi) ltac:(lia) eq_refl Hrow0) as [A0 B0].
    destruct (g_row (yi + 1) (offs (yi + 1)) ltac:(lia) eq_refl Hrow1) as [A1 B1].
    unfold yi in A0, B0, A1, B1. rewrite hat_at_trunc in A0, B0. rewrite hat_at_next in A1, B1.
    fold yi yf in A0, B0, A1, B1.
    unfold charge, mom_x, mom_y. rewrite !sum_grid1 by lia. repeat split.
    - rewrite sumZ_swap. change (sumQ 0 (Z.to_nat n) g0 = 1%Qc).
      rewrite (sum_rows_gen n yi) by (try assumption; intros y Hy Ho; apply (g_off y Hy Ho)). rewrite A0, A1. qc_unf; ring.
    - rewrite sumZ_swap.
      rewrite (sumZ_ext QcF _ _ _ g1).
      + rewrite (sum_rows_gen n yi) by (try assumption; intros y Hy Ho; apply (g_off y Hy Ho)). rewrite B0, B1. qc_unf; ring.
      + intros y Hy. unfold g1. apply (sumZ_ext QcF). intros x Hx.
        destruct (cell_decode n 0 x y) as (_ & -> & _); try lia. reflexivity.
    - rewrite sumZ_swap.
      rewrite (sumZ_ext QcF _ _ _ (fun y => (Qcz y * g0 y)%Qc)).
      + rewrite (sum_rows_gen n yi); try assumption.
        * rewrite A0, A1. rewrite Qcz_plus, Qcz_1.
          transitivity (Qcz yi + yf)%Qc; [qc_unf; ring | apply Qcz_trunc_frac].
        * intros y Hy Ho. rewrite (proj1 (g_off y Hy Ho)). apply Qcmult_0_r.
      + intros y Hy. unfold g0. etransitivity; [|apply (sumZ_scale QcF)]. apply (sumZ_ext QcF). intros x Hx.
        destruct (cell_decode n 0 x y) as (_ & _ & ->); try lia. reflexivity.
  Qed.
End BlobX.

(** *** kick along y (RF kick, wake kick): rows are x = const *)
Section BlobY.
  Variables (n it : Z) (offs : Z -> Qc) (p : pos).
  Hypothesis Hv : valid_it it.
  Hypothesis H2 : 2 <= it.
  Hypothesis Hn : 0 < n < 2 ^ 30.
  Let xi := Qctrunc (px p).
  Let yi := Qctrunc (py p).
  Let xf := Qcfrac (px p).
  Hypothesis Hx0 : 0 <= xi.
  Hypothesis Hx1 : xi + 2 <= n.
  Hypothesis Hrow0 : blob_row_ok n it (offs xi) yi.
  Hypothesis Hrow1 : blob_row_ok n it (offs (xi + 1)) yi.
  Let out := apply_y n 1 it (updateSM n it offs) (blob n p).

  Lemma out_row_y x y :
    0 <= x < n -> 0 <= y < n ->
    out ((0 * n + x) * n + y) =
    row_out n it (sm_entry n it (offs x)) (fun u => (hat_in n (py p) u * hat (px p) x)%Qc) y.
  Proof.
    intros Hx Hy. destruct (valid_it_range it Hv) as [Hi Hc].
    unfold out, apply_y. destruct (cell_decode n 0 x y) as (-> & -> & ->); try lia.
    unfold apply_y_cell. rewrite row_out_trunc.
    transitivity (row_out n it (sm_entry n it (offs x)) (fun u => if inr n u then blob n p (didx n 0 x u) else 0%Qc) y).
    - unfold row_out. f_equal. apply map_ext_in. intros j Hj.
      unfold zrange in Hj. apply in_map_iff in Hj. destruct Hj as (k & <- & Hk). apply in_seq in Hk.
      unfold updateSM, hidx_y. replace (Z.min 0 (1 - 1)) with 0 by lia.
      rewrite (div_lin (0 * n + x) it (Z.of_nat k)) by lia. rewrite (mod_lin (0 * n + x) it (Z.of_nat k)) by lia.
      replace (0 * n + x) with x by lia. reflexivity.
    - unfold row_out. f_equal. apply map_ext. intros j. cbv zeta.
      destruct (wrap32 _ <? n); [|reflexivity]. f_equal.
      unfold hat_in. destruct (inr n (wrap32 _)) eqn:Ein; [|symmetry; apply Qcmult_0_l].
      unfold inr in Ein. apply andb_true_iff in Ein. destruct Ein as [E1 E2].
      apply Z.leb_le in E1. apply Z.ltb_lt in E2. rewrite didx_flat. rewrite blob_cell by lia. apply Qcmult_comm.
  Qed.

  Let g0 (x : Z) : Qc := sumQ 0 (Z.to_nat n) (fun y => out ((0 * n + x) * n + y)).
  Let g1 (x : Z) : Qc := sumQ 0 (Z.to_nat n) (fun y => (Qcz y * out ((0 * n + x) * n + y))%Qc).

  Lemma gy_off x : 0 <= x < n -> x < xi \/ xi + 2 <= x -> g0 x = 0%Qc /\ g1 x = 0%Qc.
  Proof.
    intros Hx Hoff. unfold g0, g1. split; apply (sumZ_zero QcF); intros y Hy;
      rewrite out_row_y by lia; rewrite row_out_zero; try reflexivity; try apply Qcmult_0_r;
      intros u; rewrite (hat_off (px p) x Hoff); apply Qcmult_0_r.
  Qed.

  Lemma gy_row x o :
    0 <= x < n -> o = offs x -> blob_row_ok n it o yi ->
    g0 x = hat (px p) x /\ g1 x = (hat (px p) x * (py p - eff_offset n o))%Qc.
  Proof.
    intros Hx -> Hok. unfold g0, g1.
    destruct (scaled_hat_row n it (offs x) (py p) (hat (px p) x) Hv H2 Hn Hok) as [A B].
    split.
    - rewrite <- A. apply (sumZ_ext QcF). intros y Hy. apply out_row_y; lia.
    - rewrite <- B. apply (sumZ_ext QcF). intros y Hy. rewrite out_row_y by lia. reflexivity.
  Qed.

  Theorem blob_moments_y :
    charge n out = 1%Qc /\
    mom_x n out = px p /\
    mom_y n out = (py p - ((1 - xf) * eff_offset n (offs xi) + xf * eff_offset n (offs (xi + 1)%Z)))%Qc.
  Proof.
    destruct (gy_row xi (offs xi) ltac:(lia) eq_refl Hrow0) as [A0 B0].
    destruct (gy_row (xi + 1) (offs (xi + 1)) ltac:(lia) eq_refl Hrow1) as [A1 B1].
    unfold xi in A0, B0, A1, B1. rewrite hat_at_trunc in A0, B0. rewrite hat_at_next in A1, B1.
    fold xi xf in A0, B0, A1, B1.
    unfold charge, mom_x, mom_y. rewrite !sum_grid1 by lia. repeat split.
    - change (sumQ 0 (Z.to_nat n) g0 = 1%Qc).
      rewrite (sum_rows_gen n xi) by (try assumption; intros x Hx Ho; apply (gy_off x Hx Ho)). rewrite A0, A1. qc_unf; ring.
    - rewrite (sumZ_ext QcF _ _ _ (fun x => (Qcz x * g0 x)%Qc)).
      + rewrite (sum_rows_gen n xi); try assumption.
        * rewrite A0, A1. rewrite Qcz_plus, Qcz_1.
          transitivity (Qcz xi + xf)%Qc; [qc_unf; ring | apply Qcz_trunc_frac].
        * intros x Hx Ho. rewrite (proj1 (gy_off x Hx Ho)). apply Qcmult_0_r.
      + intros x Hx. unfold g0. etransitivity; [|apply (sumZ_scale QcF)]. apply (sumZ_ext QcF). intros y Hy.
        destruct (cell_decode n 0 x y) as (_ & -> & _); try lia. reflexivity.
    - rewrite (sumZ_ext QcF _ _ _ g1).
      + rewrite (sum_rows_gen n xi) by (try assumption; intros x Hx Ho; apply (gy_off x Hx Ho)). rewrite B0, B1. qc_unf; ring.
      + intros x Hx. unfold g1. apply (sumZ_ext QcF). intros y Hy.
        destruct (cell_decode n 0 x y) as (_ & _ & ->); try lia. reflexivity.
  Qed.
End BlobY.

(** ** particle = centre of charge of the blob *)

Lemma Qcfrac_alt c : Qcfrac c = (c - Qcz (Qctrunc c))%Qc.
Proof. transitivity ((Qcz (Qctrunc c) + Qcfrac c) - Qcz (Qctrunc c))%Qc; [ring | rewrite Qcz_trunc_frac; reflexivity]. Qed.

Lemma Qcdiv_1 a : (a / 1)%Qc = a.
Proof. field. discriminate. Qed.

Lemma kick_new_trunc offs kd pd :
  (0 <= pd)%Qc ->
  kick_new offs kd pd =
  (kd - ((1 - Qcfrac pd) * offs (Qctrunc pd) + Qcfrac pd * offs (Qctrunc pd + 1)%Z))%Qc.
Proof.
  intros H0. destruct (Qctrunc_nonneg pd H0) as [E _]. unfold kick_new. cbv zeta. rewrite <- E.
  rewrite <- Qcfrac_alt. reflexivity.
Qed.

(** the centre of charge of a grid *)
Definition centroid (n : Z) (G : Z -> Qc) : pos := mkpos (mom_x n G / charge n G)%Qc (mom_y n G / charge n G)%Qc.

(** kick along x (DriftMap): for it >= 2, offsets whose stencil stays in the table range and
    whose float sum n/2 + o is exact (in-range, representable offsets), a unit hat-blob centred
    on the particle with support clear of the border, and a new position on the grid proper, the
    particle after KickMap::applyTo is the centre of charge of KickMap::apply(blob) *)
Theorem particle_equals_blob_centroid_x n it offs p :
  valid_it it -> 2 <= it -> 2 <= n < 2 ^ 30 -> inside n p ->
  let xi := Qctrunc (px p) in
  let yi := Qctrunc (py p) in
  yi + 2 <= n ->
  blob_row_ok n it (offs yi) xi -> blob_row_ok n it (offs (yi + 1)) xi ->
  eff_offset n (offs yi) = offs yi -> eff_offset n (offs (yi + 1)) = offs (yi + 1) ->
  in_clamp n (kick_new offs (px p) (py p)) ->
  kick_applyTo true n offs p = centroid n (apply_x n 1 it (updateSM n it offs) (blob n p)).
Proof.
  intros Hv H2 Hn Hp xi yi Hy1 R0 R1 E0 E1 Hc.
  pose proof Hp as (X0 & X1 & Y0 & Y1).
  destruct (Qctrunc_nonneg (py p) Y0) as [Ey Py].
  destruct (blob_moments_x n it offs p Hv H2 ltac:(lia) Py Hy1 R0 R1) as (C & MX & MY).
  unfold centroid. rewrite C, MX, MY, !Qcdiv_1. fold yi. rewrite E0, E1.
  assert (Hn' : 2 <= n < 2 ^ 31) by (change (2 ^ 30) with 1073741824 in Hn; change (2 ^ 31) with 2147483648; lia).
  rewrite (applyTo_kick_unclamped true n offs p Hn' Hp); cbv zeta.
  - rewrite kick_new_trunc by exact Y0. reflexivity.
  - rewrite <- Ey. fold yi. lia.
  - exact Hc.
Qed.

(** kick along y (RFKickMap, WakeKickMap): the same with the roles of the axes exchanged *)
Theorem particle_equals_blob_centroid_y n it offs p :
  valid_it it -> 2 <= it -> 2 <= n < 2 ^ 30 -> inside n p ->
  let xi := Qctrunc (px p) in
  let yi := Qctrunc (py p) in
  xi + 2 <= n ->
  blob_row_ok n it (offs xi) yi -> blob_row_ok n it (offs (xi + 1)) yi ->
  eff_offset n (offs xi) = offs xi -> eff_offset n (offs (xi + 1)) = offs (xi + 1) ->
  in_clamp n (kick_new offs (py p) (px p)) ->
  kick_applyTo false n offs p = centroid n (apply_y n 1 it (updateSM n it offs) (blob n p)).
Proof.
  intros Hv H2 Hn Hp xi yi Hx1 R0 R1 E0 E1 Hc.
  pose proof Hp as (X0 & X1 & Y0 & Y1).
  destruct (Qctrunc_nonneg (px p) X0) as [Ex Px].
  destruct (blob_moments_y n it offs p Hv H2 ltac:(lia) Px Hx1 R0 R1) as (C & MX & MY).
  unfold centroid. rewrite C, MX, MY, !Qcdiv_1. fold xi. rewrite E0, E1.
  assert (Hn' : 2 <= n < 2 ^ 31) by (change (2 ^ 30) with 1073741824 in Hn; change (2 ^ 31) with 2147483648; lia).
  rewrite (applyTo_kick_unclamped false n offs p Hn' Hp); cbv zeta.
  - rewrite kick_new_trunc by exact X0. reflexivity.
  - rewrite <- Ex. fold xi. lia.
  - exact Hc.
Qed.

(** the transport statement without the exactness hypothesis: the centre of charge moves by the
    displacement the table encodes (the float-rounded offsets), whatever the rounding *)
Theorem blob_centroid_transport_x n it offs p :
  valid_it it -> 2 <= it -> 0 < n < 2 ^ 30 ->
  let xi := Qctrunc (px p) in
  let yi := Qctrunc (py p) in
  0 <= yi -> yi + 2 <= n ->
  blob_row_ok n it (offs yi) xi -> blob_row_ok n it (offs (yi + 1)) xi ->
  centroid n (apply_x n 1 it (updateSM n it offs) (blob n p)) =
  mkpos (px p - ((1 - Qcfrac (py p)) * eff_offset n (offs yi) + Qcfrac (py p) * eff_offset n (offs (yi + 1)%Z)))%Qc (py p).
Proof.
  intros Hv H2 Hn xi yi Hy0 Hy1 R0 R1.
  destruct (blob_moments_x n it offs p Hv H2 Hn Hy0 Hy1 R0 R1) as (C & MX & MY).
  unfold centroid. rewrite C, MX, MY, !Qcdiv_1. reflexivity.
Qed.

Theorem blob_centroid_transport_y n it offs p :
  valid_it it -> 2 <= it -> 0 < n < 2 ^ 30 ->
  let xi := Qctrunc (px p) in
  let yi := Qctrunc (py p) in
  0 <= xi -> xi + 2 <= n ->
  blob_row_ok n it (offs xi) yi -> blob_row_ok n it (offs (xi + 1)) yi ->
  centroid n (apply_y n 1 it (updateSM n it offs) (blob n p)) =
  mkpos (px p) (py p - ((1 - Qcfrac (px p)) * eff_offset n (offs xi) + Qcfrac (px p) * eff_offset n (offs (xi + 1)%Z)))%Qc.
Proof.
  intros Hv H2 Hn xi yi Hx0 Hx1 R0 R1.
  destruct (blob_moments_y n it offs p Hv H2 Hn Hx0 Hx1 R0 R1) as (C & MX & MY).
  unfold centroid. rewrite C, MX, MY, !Qcdiv_1. reflexivity.
Qed.
