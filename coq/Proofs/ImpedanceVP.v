(** Soundness of the relational validators of Model/Impedance.v: an accepted vector has the
    shape of the property (exactly n samples, zero above n/2 resp. from n/2 on) and every
    sample satisfies the rational inequality that Proofs/ImpedanceRP.v ([cube_rel_sound],
    [sqrt_rel_sound]) interprets over the reals. *)
From Coq Require Import List ZArith QArith Qcanon Lia Bool ZifyBool.
From Inovesa Require Import Base.FieldKit Base.Float32 Model.Impedance Proofs.ImpedanceP.
Import ListNotations.
Local Open Scope Z_scope.

Lemma cube_ok_spec tol c x v : cube_ok tol c x v = true ->
  (qcabs (v * v * v - c * c * c * x) <= tol * qcabs (c * c * c * x))%Qc /\ (0 <= v * c \/ v = 0)%Qc.
Proof.
  unfold cube_ok. intros H. apply andb_prop in H. destruct H as [H1 H2]. split.
  - destruct (Qclt_le_dec (tol * qcabs (c * c * c * x)) (qcabs (v * v * v - c * c * c * x))); [discriminate|assumption].
  - destruct (Qclt_le_dec (v * c) 0) as [L|G].
    + destruct (Qc_eq_dec v 0); [right; assumption|discriminate].
    + left. exact G.
Qed.

Lemma sqrt_ok_spec tol k x v : sqrt_ok tol k x v = true ->
  (qcabs (v * v - k * x) <= tol * qcabs (k * x))%Qc /\ (0 <= v)%Qc.
Proof.
  unfold sqrt_ok. intros H. apply andb_prop in H. destruct H as [H1 H2]. split.
  - destruct (Qclt_le_dec (tol * qcabs (k * x)) (qcabs (v * v - k * x))); [discriminate|assumption].
  - destruct (Qclt_le_dec v 0); [discriminate|assumption].
Qed.

Lemma eqdec_true (a b : Qc) : (if Qc_eq_dec a b then true else false) = true -> a = b.
Proof. destruct (Qc_eq_dec a b); [auto|discriminate]. Qed.

Lemma pair_zero (s : cq) : fst s = 0%Qc -> snd s = 0%Qc -> s = cq0.
Proof. destruct s as [a b]. cbn. intros -> ->. reflexivity. Qed.

Lemma accept_fs_sound tol cre cim delta n v : accept_fs tol cre cim delta n v = true ->
  zlen v = n /\ zero_above cq cq0 v (n / 2) /\
  forall i, 0 <= i <= n / 2 -> i < n ->
    cube_ok tol cre (Qcz i * delta) (fst (nthz cq0 v i)) = true /\
    cube_ok tol cim (Qcz i * delta) (snd (nthz cq0 v i)) = true.
Proof.
  unfold accept_fs. intros H. apply andb_prop in H. destruct H as [Hl Hf].
  apply Z.eqb_eq in Hl. rewrite forallb_forall in Hf.
  assert (Hn0 : 0 <= n) by (unfold zlen in Hl; lia). split; [exact Hl|]. split.
  - intros i Hi. destruct (Z_lt_ge_dec i n) as [L|G].
    + assert (I : In i (zrange n)) by (apply zrange_in; lia). specialize (Hf i I). cbv zeta in Hf.
      replace (i <=? n / 2) with false in Hf by lia. apply andb_prop in Hf. destruct Hf as [A B].
      apply pair_zero; apply eqdec_true; assumption.
    + apply (nthz_beyond cq cq0 cq_add). lia.
  - intros i Hi Hn. assert (I : In i (zrange n)) by (apply zrange_in; lia). specialize (Hf i I). cbv zeta in Hf.
    replace (i <=? n / 2) with true in Hf by lia. apply andb_prop in Hf. exact Hf.
Qed.

Lemma accept_rw_sound tol k delta n v : accept_rw tol k delta n v = true ->
  zlen v = n /\ zero_above cq cq0 v (n / 2) /\
  forall i, 0 <= i <= n / 2 -> i < n ->
    sqrt_ok tol k (Qcz i * delta) (fst (nthz cq0 v i)) = true /\
    snd (nthz cq0 v i) = (- fst (nthz cq0 v i))%Qc.
Proof.
  unfold accept_rw. intros H. apply andb_prop in H. destruct H as [Hl Hf].
  apply Z.eqb_eq in Hl. rewrite forallb_forall in Hf.
  assert (Hn0 : 0 <= n) by (unfold zlen in Hl; lia). split; [exact Hl|]. split.
  - intros i Hi. destruct (Z_lt_ge_dec i n) as [L|G].
    + assert (I : In i (zrange n)) by (apply zrange_in; lia). specialize (Hf i I). cbv zeta in Hf.
      replace (i <=? n / 2) with false in Hf by lia. apply andb_prop in Hf. destruct Hf as [A B].
      apply pair_zero; apply eqdec_true; assumption.
    + apply (nthz_beyond cq cq0 cq_add). lia.
  - intros i Hi Hn. assert (I : In i (zrange n)) by (apply zrange_in; lia). specialize (Hf i I). cbv zeta in Hf.
    replace (i <=? n / 2) with true in Hf by lia. apply andb_prop in Hf. destruct Hf as [A B].
    split; [exact A|apply eqdec_true; exact B].
Qed.

Lemma accept_const_sound lo hi n v : accept_const lo hi n v = true ->
  zlen v = n /\ zero_above cq cq0 v (n / 2 - 1) /\
  forall i, 0 <= i < n / 2 -> i < n ->
    (lo <= fst (nthz cq0 v i) <= hi)%Qc /\ snd (nthz cq0 v i) = 0%Qc.
Proof.
  unfold accept_const. intros H. apply andb_prop in H. destruct H as [Hl Hf].
  apply Z.eqb_eq in Hl. rewrite forallb_forall in Hf.
  assert (Hn0 : 0 <= n) by (unfold zlen in Hl; lia). split; [exact Hl|]. split.
  - intros i Hi. destruct (Z_lt_ge_dec i n) as [L|G].
    + assert (I : In i (zrange n)) by (apply zrange_in; lia). specialize (Hf i I). cbv zeta in Hf.
      replace (i <? n / 2) with false in Hf by lia. apply andb_prop in Hf. destruct Hf as [A B].
      apply pair_zero; apply eqdec_true; assumption.
    + apply (nthz_beyond cq cq0 cq_add). lia.
  - intros i Hi Hn. assert (I : In i (zrange n)) by (apply zrange_in; lia). specialize (Hf i I). cbv zeta in Hf.
    replace (i <? n / 2) with true in Hf by lia. apply andb_prop in Hf. destruct Hf as [AB Cc].
    apply andb_prop in AB. destruct AB as [A B]. split; [split|apply eqdec_true; exact Cc].
    + destruct (Qclt_le_dec (fst (nthz cq0 v i)) lo); [discriminate|assumption].
    + destruct (Qclt_le_dec hi (fst (nthz cq0 v i))); [discriminate|assumption].
Qed.

(** accepted means: the shape clause of the property holds for the vector *)
Lemma accepted_shape tol cre cim k lo hi delta n v :
  (accept_fs tol cre cim delta n v = true \/ accept_rw tol k delta n v = true -> zlen v = n /\ zero_above cq cq0 v (n / 2)) /\
  (accept_const lo hi n v = true -> zlen v = n /\ zero_above cq cq0 v (n / 2 - 1)).
Proof.
  split.
  - intros [H|H]; [apply accept_fs_sound in H|apply accept_rw_sound in H]; destruct H as (A & B & _); split; assumption.
  - intros H. apply accept_const_sound in H. destruct H as (A & B & _). split; assumption.
Qed.
