(** * Soundness of the rounding-error calculator of Model/FExpr.v.

    [feval f e v]: [v] is a value the machine may compute for the tree [e] at argument [f], each
    operation being rounded AT MOST once in its precision ([rpert]: within the standard model
    [|v - x| <= u|x| + eta] of Proofs/RoundingP.v, and exact when [x] is representable).  The IEEE
    evaluation with every operation rounded to nearest ([fl_eval]) and the evaluation with every
    [a*b +- c] contracted into a fused multiply-add ([fl_eval_fma]) are both instances
    ([fl_eval_feval], [fl_eval_fma_feval]); so is any mixture, and any evaluation in a wider format.

    [bnd_sound]: whenever the calculator answers [Some (l, h, E)] for the argument range [lo, hi],
    then for every [f] in that range the exact value lies in [l, h] and EVERY [feval] value is
    within [E] of it (all in units of 2^-64). *)
From Coq Require Import Reals QArith Qreals ZArith Lra Lia List Bool Psatz.
From Flocq Require Import Core.
From Inovesa Require Import Model.FExpr Proofs.RoundingP.
Import ListNotations.
Local Open Scope R_scope.

Definition uR (p : prec) : R := match p with P32 => u32 | P64 => u64 end.
Definition etaR (p : prec) : R := match p with P32 => eta32 | P64 => eta64 end.
Definition fexpOf (p : prec) : Z -> Z := FLT_exp (prec_emin p) (prec_bits p).
Definition RNp (p : prec) : R -> R := round radix2 (fexpOf p) ZnearestE.
Definition fmt (p : prec) (x : R) : Prop := generic_format radix2 (fexpOf p) x.

Lemma uR_pos p : 0 <= uR p.
Proof. destruct p; cbn [uR]; left; [apply u32_pos | apply u64_pos]. Qed.
Lemma etaR_pos p : 0 <= etaR p.
Proof. destruct p; cbn [etaR]; left; [apply eta32_pos | apply eta64_pos]. Qed.

(** one rounding at most *)
Definition rpert (p : prec) (x v : R) : Prop :=
  pert (uR p) (etaR p) x v /\ (fmt p x -> v = x).

Lemma rpert_refl p x : rpert p x x.
Proof. split; [apply pert_refl; [apply uR_pos | apply etaR_pos] | reflexivity]. Qed.

Lemma RNp_rpert p x : rpert p x (RNp p x).
Proof.
  split.
  - destruct p; [exact (RN32_pert x) | exact (RN64_pert x)].
  - intros F. unfold RNp. apply round_generic; [apply valid_rnd_N | exact F].
Qed.

Definition opR (o : fop) (a b : R) : R :=
  match o with FAdd => a + b | FSub => a - b | FMul => a * b | FDiv => a / b end.

Fixpoint evalR (e : fexpr) (f : R) : R :=
  match e with
  | FVar => f
  | FLit q => Q2R q
  | FNeg a => - evalR a f
  | FOp _ o a b => opR o (evalR a f) (evalR b f)
  | FCast _ a => evalR a f
  end.

Inductive feval (f : R) : fexpr -> R -> Prop :=
| FE_var : feval f FVar f
| FE_lit q : feval f (FLit q) (Q2R q)
| FE_neg a v : feval f a v -> feval f (FNeg a) (- v)
| FE_op p o a b va vb v :
    feval f a va -> feval f b vb -> rpert p (opR o va vb) v -> feval f (FOp p o a b) v
| FE_cast p a va v : feval f a va -> rpert p va v -> feval f (FCast p a) v.

(** ** the two deterministic IEEE evaluations *)
Fixpoint fl_eval (e : fexpr) (f : R) : R :=
  match e with
  | FVar => f
  | FLit q => Q2R q
  | FNeg a => - fl_eval a f
  | FOp p o a b => RNp p (opR o (fl_eval a f) (fl_eval b f))
  | FCast p a => RNp p (fl_eval a f)
  end.

Theorem fl_eval_feval e f : feval f e (fl_eval e f).
Proof.
  induction e as [|q|a IH|p o a IHa b IHb|p a IH]; cbn [fl_eval].
  - constructor.
  - constructor.
  - constructor. exact IH.
  - econstructor; [exact IHa | exact IHb | apply RNp_rpert].
  - econstructor; [exact IH | apply RNp_rpert].
Qed.

(** contraction: ANY subset of the roundings may be skipped.  [sel path] says whether the node reached by
    [path] (from the root; [false] = left or only operand, [true] = right operand, innermost first) is
    rounded.  A fused multiply-add is "the product node is not rounded"; [fl_eval] is [sel = fun _ => true]. *)
Fixpoint fl_eval_sel (sel : list bool -> bool) (path : list bool) (e : fexpr) (f : R) : R :=
  match e with
  | FVar => f
  | FLit q => Q2R q
  | FNeg a => - fl_eval_sel sel (false :: path) a f
  | FOp p o a b =>
      let x := opR o (fl_eval_sel sel (false :: path) a f) (fl_eval_sel sel (true :: path) b f) in
      if sel path then RNp p x else x
  | FCast p a =>
      let x := fl_eval_sel sel (false :: path) a f in
      if sel path then RNp p x else x
  end.

Theorem fl_eval_sel_feval sel e : forall path f, feval f e (fl_eval_sel sel path e f).
Proof.
  induction e as [|q|a IH|p o a IHa b IHb|p a IH]; intros path f; cbn [fl_eval_sel].
  - constructor.
  - constructor.
  - constructor. apply IH.
  - econstructor; [apply IHa | apply IHb |]. destruct (sel path); [apply RNp_rpert | apply rpert_refl].
  - econstructor; [apply IH |]. destruct (sel path); [apply RNp_rpert | apply rpert_refl].
Qed.

Lemma fl_eval_sel_all e : forall path f, fl_eval_sel (fun _ => true) path e f = fl_eval e f.
Proof.
  induction e as [|q|a IH|p o a IHa b IHb|p a IH]; intros path f; cbn [fl_eval_sel fl_eval];
    rewrite ?IH, ?IHa, ?IHb; reflexivity.
Qed.

(** ** fixed-point numbers *)
Definition W : R := IZR one_fx.
Definition fxR (z : Z) : R := IZR z / W.

Lemma W_pos : 0 < W.
Proof. unfold W. apply IZR_lt. reflexivity. Qed.
Lemma W_val : W = bpow radix2 64.
Proof. unfold W. reflexivity. Qed.

Lemma fxR_le a b : (a <= b)%Z -> fxR a <= fxR b.
Proof.
  intros H. unfold fxR. apply Rmult_le_compat_r; [left; apply Rinv_0_lt_compat, W_pos | apply IZR_le; exact H].
Qed.
Lemma fxR_add a b : fxR (a + b) = fxR a + fxR b.
Proof. unfold fxR. rewrite plus_IZR. field. apply Rgt_not_eq, W_pos. Qed.
Lemma fxR_opp a : fxR (- a) = - fxR a.
Proof. unfold fxR. rewrite opp_IZR. field. apply Rgt_not_eq, W_pos. Qed.
Lemma fxR_sub a b : fxR (a - b) = fxR a - fxR b.
Proof. unfold fxR. rewrite minus_IZR. field. apply Rgt_not_eq, W_pos. Qed.
Lemma fxR_0 : fxR 0 = 0.
Proof. unfold fxR. lra. Qed.
Lemma fxR_mul a b : fxR a * fxR b = IZR (a * b) / (W * W).
Proof. unfold fxR. rewrite mult_IZR. field. apply Rgt_not_eq, W_pos. Qed.

(** floor / ceiling by shifts and by division *)
Lemma pow2_IZR k : (0 <= k)%Z -> IZR (2 ^ k) = bpow radix2 k.
Proof. intros H. exact (IZR_Zpower radix2 k H). Qed.

Lemma flo_spec z k : (0 <= k)%Z -> IZR (flo z k) * bpow radix2 k <= IZR z.
Proof.
  intros Hk. unfold flo. rewrite Z.shiftr_div_pow2 by exact Hk.
  rewrite <- pow2_IZR by exact Hk. rewrite <- mult_IZR. apply IZR_le.
  assert (P : (0 < 2 ^ k)%Z) by (apply Z.pow_pos_nonneg; lia).
  rewrite Z.mul_comm. apply Z.mul_div_le. exact P.
Qed.

Lemma cei_spec z k : (0 <= k)%Z -> IZR z <= IZR (cei z k) * bpow radix2 k.
Proof.
  intros Hk. unfold cei. pose proof (flo_spec (- z) k Hk) as F. unfold flo in F.
  rewrite opp_IZR in *. lra.
Qed.

Lemma fdivZ_spec a b : b <> 0%Z -> IZR (fdivZ a b) <= IZR a / IZR b.
Proof.
  intros Hb. unfold fdivZ.
  pose proof (Z.div_mod a b Hb) as E.
  assert (Rb : IZR b <> 0) by (apply not_0_IZR; exact Hb).
  assert (Ea : IZR a = IZR b * IZR (a / b) + IZR (a mod b)) by (rewrite <- mult_IZR, <- plus_IZR; f_equal; exact E).
  replace (IZR a / IZR b) with (IZR (a / b) + IZR (a mod b) / IZR b) by (rewrite Ea; field; exact Rb).
  assert (Q : 0 <= IZR (a mod b) / IZR b).
  { destruct (Z_lt_le_dec 0 b) as [P|N].
    - pose proof (Z.mod_pos_bound a b P) as [M1 M2]. apply IZR_le in M1. apply IZR_lt in P.
      apply Rmult_le_pos; [exact M1 | left; apply Rinv_0_lt_compat; exact P].
    - assert (N' : (b < 0)%Z) by lia. pose proof (Z.mod_neg_bound a b N') as [M1 M2].
      apply IZR_le in M2. apply IZR_lt in N'.
      replace (IZR (a mod b) / IZR b) with ((- IZR (a mod b)) * / (- IZR b)) by (field; exact Rb).
      apply Rmult_le_pos; [lra | left; apply Rinv_0_lt_compat; lra]. }
  lra.
Qed.

Lemma cdivZ_spec a b : b <> 0%Z -> IZR a / IZR b <= IZR (cdivZ a b).
Proof.
  intros Hb. unfold cdivZ. pose proof (fdivZ_spec (- a) b Hb) as F. unfold fdivZ in F.
  rewrite opp_IZR in *. assert (Rb : IZR b <> 0) by (apply not_0_IZR; exact Hb).
  replace (- IZR a / IZR b) with (- (IZR a / IZR b)) in F by (field; exact Rb). lra.
Qed.

(** magnitudes and products of intervals *)
Lemma mag_spec l h x : fxR l <= x <= fxR h -> Rabs x <= fxR (mag l h).
Proof.
  intros [H1 H2]. unfold mag.
  assert (A : fxR (Z.abs l) <= fxR (Z.max (Z.abs l) (Z.abs h))) by (apply fxR_le; lia).
  assert (B : fxR (Z.abs h) <= fxR (Z.max (Z.abs l) (Z.abs h))) by (apply fxR_le; lia).
  assert (C : - fxR (Z.abs l) <= fxR l).
  { rewrite <- fxR_opp. apply fxR_le. lia. }
  assert (D : fxR h <= fxR (Z.abs h)) by (apply fxR_le; lia).
  apply Rabs_le. lra.
Qed.

Lemma mag_nonneg l h : 0 <= fxR (mag l h).
Proof. rewrite <- fxR_0. apply fxR_le. unfold mag. lia. Qed.

Lemma lin_between a b x y : a <= x <= b -> Rmin (a * y) (b * y) <= x * y <= Rmax (a * y) (b * y).
Proof.
  intros [H1 H2]. destruct (Rle_or_lt 0 y) as [P|N].
  - assert (A : a * y <= x * y) by nra. assert (B : x * y <= b * y) by nra.
    split; [eapply Rle_trans; [apply Rmin_l | exact A] | eapply Rle_trans; [exact B | apply Rmax_r]].
  - assert (A : b * y <= x * y) by nra. assert (B : x * y <= a * y) by nra.
    split; [eapply Rle_trans; [apply Rmin_r | exact A] | eapply Rle_trans; [exact B | apply Rmax_l]].
Qed.

Lemma prod_between a b c d x y :
  a <= x <= b -> c <= y <= d ->
  Rmin (Rmin (a * c) (a * d)) (Rmin (b * c) (b * d)) <= x * y <=
  Rmax (Rmax (a * c) (a * d)) (Rmax (b * c) (b * d)).
Proof.
  intros Hx Hy.
  pose proof (lin_between a b x y Hx) as [L1 L2].
  pose proof (lin_between c d y a Hy) as [A1 A2].
  pose proof (lin_between c d y b Hy) as [B1 B2].
  rewrite (Rmult_comm y a), (Rmult_comm c a), (Rmult_comm d a) in *.
  rewrite (Rmult_comm y b), (Rmult_comm c b), (Rmult_comm d b) in *.
  split.
  - eapply Rle_trans; [|exact L1]. apply Rmin_glb.
    + eapply Rle_trans; [apply Rmin_l | exact A1].
    + eapply Rle_trans; [apply Rmin_r | exact B1].
  - eapply Rle_trans; [exact L2|]. apply Rmax_lub.
    + eapply Rle_trans; [exact A2 | apply Rmax_l].
    + eapply Rle_trans; [exact B2 | apply Rmax_r].
Qed.

Lemma IZR_min a b : IZR (Z.min a b) = Rmin (IZR a) (IZR b).
Proof.
  destruct (Z_le_gt_dec a b) as [H|H].
  - rewrite Z.min_l by lia. rewrite Rmin_left; [reflexivity | apply IZR_le; lia].
  - rewrite Z.min_r by lia. rewrite Rmin_right; [reflexivity | apply IZR_le; lia].
Qed.
Lemma IZR_max a b : IZR (Z.max a b) = Rmax (IZR a) (IZR b).
Proof.
  destruct (Z_le_gt_dec a b) as [H|H].
  - rewrite Z.max_r by lia. rewrite Rmax_right; [reflexivity | apply IZR_le; lia].
  - rewrite Z.max_l by lia. rewrite Rmax_left; [reflexivity | apply IZR_le; lia].
Qed.

Lemma Rmin_scale a b c : 0 <= c -> Rmin a b * c = Rmin (a * c) (b * c).
Proof. intros H. unfold Rmin. destruct (Rle_dec a b), (Rle_dec (a * c) (b * c)); nra. Qed.
Lemma Rmax_scale a b c : 0 <= c -> Rmax a b * c = Rmax (a * c) (b * c).
Proof. intros H. unfold Rmax. destruct (Rle_dec a b), (Rle_dec (a * c) (b * c)); nra. Qed.

(** the interval product in fixed point: integer corner products carry the scale W*W *)
Lemma prod_enclosure la ha lb hb x y :
  fxR la <= x <= fxR ha -> fxR lb <= y <= fxR hb ->
  IZR (min4 (la * lb) (la * hb) (ha * lb) (ha * hb)) / (W * W) <= x * y <=
  IZR (max4 (la * lb) (la * hb) (ha * lb) (ha * hb)) / (W * W).
Proof.
  intros Hx Hy. pose proof (prod_between _ _ _ _ _ _ Hx Hy) as [P1 P2].
  rewrite !fxR_mul in P1, P2.
  pose proof W_pos as Wp. assert (WW : 0 < / (W * W)) by (apply Rinv_0_lt_compat; nra).
  unfold min4, max4. rewrite !IZR_min, !IZR_max. unfold Rdiv in *.
  rewrite !Rmin_scale, !Rmax_scale by lra. split; assumption.
Qed.

Lemma flo_fx z : fxR (flo z sc) <= IZR z / (W * W).
Proof.
  pose proof (flo_spec z sc ltac:(unfold sc; lia)) as F. change (bpow radix2 sc) with W in F.
  pose proof W_pos. unfold fxR.
  apply Rmult_le_reg_r with (W * W); [nra|].
  replace (IZR z / (W * W) * (W * W)) with (IZR z) by (field; lra).
  replace (IZR (flo z sc) / W * (W * W)) with (IZR (flo z sc) * W * 1) by (field; lra). nra.
Qed.

Lemma cei_fx z : IZR z / (W * W) <= fxR (cei z sc).
Proof.
  pose proof (cei_spec z sc ltac:(unfold sc; lia)) as F. change (bpow radix2 sc) with W in F.
  pose proof W_pos. unfold fxR.
  apply Rmult_le_reg_r with (W * W); [nra|].
  replace (IZR z / (W * W) * (W * W)) with (IZR z) by (field; lra).
  replace (IZR (cei z sc) / W * (W * W)) with (IZR (cei z sc) * W * 1) by (field; lra). nra.
Qed.

Lemma fx_of_IZR z x : x * W <= IZR z -> x <= fxR z.
Proof.
  intros H. pose proof W_pos. unfold fxR. apply Rmult_le_reg_r with W; [lra|].
  replace (IZR z / W * W) with (IZR z) by (field; lra). exact H.
Qed.

(** product of two non-negative fixed-point bounds, rounded up *)
Lemma mul_up a b x y : 0 <= x <= fxR a -> 0 <= y <= fxR b -> x * y <= fxR (cei (a * b) sc).
Proof.
  intros Hx Hy. eapply Rle_trans; [|apply cei_fx]. rewrite <- fxR_mul. nra.
Qed.

(** one rounding *)
Lemma uR_fx p z : uR p * fxR z <= fxR (cei z (ubits p)).
Proof.
  pose proof (cei_spec z (ubits p) ltac:(destruct p; cbn; lia)) as F.
  pose proof W_pos as Wp. unfold fxR.
  assert (U : uR p = / bpow radix2 (ubits p)).
  { destruct p; cbn [uR ubits]; [unfold u32 | unfold u64]; rewrite <- bpow_opp; reflexivity. }
  rewrite U. pose proof (bpow_gt_0 radix2 (ubits p)) as Bp.
  apply Rmult_le_reg_r with (W * bpow radix2 (ubits p)); [nra|].
  replace (/ bpow radix2 (ubits p) * (IZR z / W) * (W * bpow radix2 (ubits p))) with (IZR z) by (field; lra).
  replace (IZR (cei z (ubits p)) / W * (W * bpow radix2 (ubits p)))
    with (IZR (cei z (ubits p)) * bpow radix2 (ubits p)) by (field; lra).
  exact F.
Qed.

Lemma etaR_fx p : etaR p <= fxR 1.
Proof.
  unfold fxR. rewrite W_val. replace (1 / bpow radix2 64) with (bpow radix2 (-64)).
  2:{ change (-64)%Z with (- (64))%Z. rewrite (bpow_opp radix2 64). field. apply Rgt_not_eq, bpow_gt_0. }
  destruct p; cbn [etaR]; [unfold eta32 | unfold eta64]; apply bpow_le; lia.
Qed.

Lemma rndE_sound p M E0 x0 x v :
  Rabs (x - x0) <= fxR E0 -> Rabs x0 <= fxR M -> rpert p x v ->
  Rabs (v - x0) <= fxR (rndE p M E0).
Proof.
  intros H1 H2 [H3 _].
  pose proof (pert_err (uR p) (etaR p) (uR_pos p) x0 x v _ _ H1 H2 H3) as B.
  unfold rndE. rewrite !fxR_add.
  pose proof (uR_fx p (M + E0)) as U. rewrite fxR_add in U.
  pose proof (etaR_fx p). lra.
Qed.

Lemma rndE_mono p M E0 : (0 <= M)%Z -> (0 <= E0)%Z -> (E0 <= rndE p M E0)%Z.
Proof.
  intros HM HE. unfold rndE, cei.
  assert (Z.shiftr (- (M + E0)) (ubits p) <= 0)%Z.
  { rewrite Z.shiftr_div_pow2 by (destruct p; cbn; lia).
    apply Z.div_le_upper_bound; [apply Z.pow_pos_nonneg; destruct p; cbn; lia | lia]. }
  lia.
Qed.

(** ** representable literals *)
Lemma pow2_log_spec d k : pow2_log d = Some k -> (0 <= k)%Z /\ Zpos d = (2 ^ k)%Z.
Proof.
  unfold pow2_log. cbv zeta. set (g := Z.log2 (Z.pos d)).
  assert (G : (0 <= g)%Z) by apply Z.log2_nonneg.
  destruct (Z.eqb_spec (Zpos d) (2 ^ g)) as [E|E]; [|discriminate].
  intros H. injection H as <-. split; assumption.
Qed.

Lemma repr_fmt p q : repr p q = true -> fmt p (Q2R q).
Proof.
  unfold repr. destruct (pow2_log (Qden q)) as [k|] eqn:L; [|discriminate].
  intros H. apply andb_true_iff in H. destruct H as [H1 H2].
  apply Z.ltb_lt in H1. apply Z.leb_le in H2.
  destruct (pow2_log_spec _ _ L) as [Hk Hd].
  unfold fmt, fexpOf. apply generic_format_FLT.
  apply (FLT_spec radix2 (prec_emin p) (prec_bits p) (Q2R q) (Float radix2 (Qnum q) (- k))).
  - unfold Q2R, F2R. cbn [Fnum Fexp]. rewrite Hd, bpow_opp, pow2_IZR by exact Hk. reflexivity.
  - cbn [Fnum]. exact H1.
  - cbn [Fexp]. exact H2.
Qed.

(** ** soundness *)
Lemma some3_inj {A B C : Type} (a a' : A) (b b' : B) (c c' : C) :
  Some (a, b, c) = Some (a', b', c') -> a' = a /\ b' = b /\ c' = c.
Proof. intros H; inversion H; auto. Qed.
Ltac inj3 H := apply some3_inj in H; destruct H as (-> & -> & ->).

Lemma Q2R_fx_lo q : fxR (fdivZ (Qnum q * one_fx) (Zpos (Qden q))) <= Q2R q.
Proof.
  pose proof (fdivZ_spec (Qnum q * one_fx) (Zpos (Qden q)) ltac:(discriminate)) as F.
  pose proof W_pos as Wp. unfold fxR, Q2R.
  assert (D : 0 < IZR (Zpos (Qden q))) by (apply IZR_lt; reflexivity).
  rewrite mult_IZR in F. fold W in F.
  apply Rmult_le_reg_r with W; [exact Wp|].
  replace (IZR (fdivZ (Qnum q * one_fx) (Z.pos (Qden q))) / W * W)
    with (IZR (fdivZ (Qnum q * one_fx) (Z.pos (Qden q)))) by (field; lra).
  eapply Rle_trans; [exact F|]. right. field. lra.
Qed.

Lemma Q2R_fx_hi q : Q2R q <= fxR (cdivZ (Qnum q * one_fx) (Zpos (Qden q))).
Proof.
  pose proof (cdivZ_spec (Qnum q * one_fx) (Zpos (Qden q)) ltac:(discriminate)) as F.
  pose proof W_pos as Wp. unfold fxR, Q2R.
  assert (D : 0 < IZR (Zpos (Qden q))) by (apply IZR_lt; reflexivity).
  rewrite mult_IZR in F. fold W in F.
  apply Rmult_le_reg_r with W; [exact Wp|].
  replace (IZR (cdivZ (Qnum q * one_fx) (Z.pos (Qden q))) / W * W)
    with (IZR (cdivZ (Qnum q * one_fx) (Z.pos (Qden q)))) by (field; lra).
  eapply Rle_trans; [|exact F]. right. field. lra.
Qed.

Lemma bnd_E_nonneg e lo hi : forall l h E, bnd e lo hi = Some (l, h, E) -> (0 <= E)%Z.
Proof.
  induction e as [|q|a IH|p o a IHa b IHb|p a IH]; intros l h E; cbn [bnd].
  - intros H; inj3 H; lia.
  - intros H; inj3 H; lia.
  - destruct (bnd a lo hi) as [[[l' h'] E']|]; [|discriminate]. intros H; inj3 H. eapply IH; reflexivity.
  - destruct (bnd a lo hi) as [[[la ha] Ea]|]; [|discriminate].
    destruct (bnd b lo hi) as [[[lb hb] Eb]|]; [|discriminate].
    specialize (IHa _ _ _ eq_refl). specialize (IHb _ _ _ eq_refl).
    assert (G : forall M E0, (0 <= M)%Z -> (0 <= E0)%Z -> (0 <= rndE p M E0)%Z).
    { intros M E0 HM HE. pose proof (rndE_mono p M E0 HM HE). lia. }
    assert (Mg : forall x y, (0 <= mag x y)%Z) by (intros; unfold mag; lia).
    assert (Cg : forall z, (0 <= z)%Z -> (0 <= cei z sc)%Z).
    { intros z Hz. unfold cei. assert (Z.shiftr (- z) sc <= 0)%Z; [|lia].
      rewrite Z.shiftr_div_pow2 by (unfold sc; lia).
      apply Z.div_le_upper_bound; [reflexivity | lia]. }
    destruct o.
    + intros H; inj3 H. apply G; [apply Mg | lia].
    + intros H; inj3 H. apply G; [apply Mg | lia].
    + intros H; inj3 H. apply G; [apply Mg|].
      pose proof (Mg la ha). pose proof (Mg lb hb).
      pose proof (Cg (Ea * mag lb hb)%Z ltac:(nia)). pose proof (Cg (Eb * mag la ha)%Z ltac:(nia)).
      pose proof (Cg (Ea * Eb)%Z ltac:(nia)). lia.
    + destruct ((0 <? lb)%Z || (hb <? 0)%Z); [|discriminate].
      destruct (Z.ltb_spec Eb (Z.min (Z.abs lb) (Z.abs hb))) as [Lt|]; [|discriminate].
      intros H; inj3 H. apply G; [apply Mg|].
      set (mb := Z.min (Z.abs lb) (Z.abs hb)) in *.
      assert (C1 : forall a b, (0 <= a)%Z -> (0 < b)%Z -> (0 <= cdivZ a b)%Z).
      { intros x y Hx Hy. unfold cdivZ. assert ((- x) / y <= 0)%Z; [|lia].
        apply Z.div_le_upper_bound; lia. }
      pose proof (Mg la ha).
      pose proof (C1 (Ea * one_fx)%Z (mb - Eb)%Z ltac:(unfold one_fx; nia) ltac:(lia)).
      pose proof (C1 (mag la ha * Eb * one_fx)%Z ((mb - Eb) * mb)%Z ltac:(unfold one_fx; nia) ltac:(nia)).
      lia.
  - destruct (bnd a lo hi) as [[[l' h'] E']|]; [|discriminate]. specialize (IH _ _ _ eq_refl).
    assert (G : (0 <= rndE p (mag l' h') E')%Z).
    { pose proof (rndE_mono p (mag l' h') E' ltac:(unfold mag; lia) IH). lia. }
    destruct (is_lit a) as [q|]; [destruct (repr p q)|]; intros H; inj3 H; assumption.
Qed.

Theorem bnd_sound e lo hi f :
  fxR lo <= f <= fxR hi ->
  forall l h E v, bnd e lo hi = Some (l, h, E) -> feval f e v ->
    fxR l <= evalR e f <= fxR h /\ Rabs (v - evalR e f) <= fxR E.
Proof.
  intros Hf. pose proof W_pos as Wp.
  induction e as [|q|a IH|p o a IHa b IHb|p a IH]; intros l h E v; cbn [bnd evalR].
  - intros H Hv; inj3 H. inversion Hv as [E0| | | |]. subst v. split; [exact Hf|].
    replace (f - f) with 0 by ring. rewrite Rabs_R0, fxR_0. lra.
  - intros H Hv; inj3 H. inversion Hv; subst.
    split; [split; [apply Q2R_fx_lo | apply Q2R_fx_hi]|].
    replace (Q2R q - Q2R q) with 0 by ring. rewrite Rabs_R0, fxR_0. lra.
  - destruct (bnd a lo hi) as [[[l' h'] E']|]; [|discriminate].
    intros H Hv; inj3 H. inversion Hv as [| |a' v0 Fa| |]; subst.
    destruct (IH _ _ _ _ eq_refl Fa) as [[I1 I2] I3]. rewrite !fxR_opp.
    split; [lra|]. replace (- v0 - - evalR a f) with (- (v0 - evalR a f)) by ring. rewrite Rabs_Ropp. exact I3.
  - destruct (bnd a lo hi) as [[[la ha] Ea]|] eqn:Ba; [|discriminate].
    destruct (bnd b lo hi) as [[[lb hb] Eb]|] eqn:Bb; [|discriminate].
    pose proof (bnd_E_nonneg _ _ _ _ _ _ Ba) as PEa. pose proof (bnd_E_nonneg _ _ _ _ _ _ Bb) as PEb.
    intros H Hv. inversion Hv as [| | |p' o' a' b' va vb v' Fa Fb Hp|]; subst.
    destruct (IHa _ _ _ _ eq_refl Fa) as [Ia Ea']. destruct (IHb _ _ _ _ eq_refl Fb) as [Ib Eb'].
    set (xa := evalR a f) in *. set (xb := evalR b f) in *.
    pose proof (mag_spec _ _ _ Ia) as Ma. pose proof (mag_spec _ _ _ Ib) as Mb.
    destruct o; cbn [opR] in *.
    + inj3 H.
      assert (I : fxR (la + lb) <= xa + xb <= fxR (ha + hb)) by (rewrite !fxR_add; lra).
      split; [exact I|].
      apply (rndE_sound p _ _ (xa + xb) (va + vb) v); [|apply mag_spec; exact I | exact Hp].
      rewrite fxR_add. apply add_err; assumption.
    + inj3 H.
      assert (I : fxR (la - hb) <= xa - xb <= fxR (ha - lb)) by (rewrite !fxR_sub; lra).
      split; [exact I|].
      apply (rndE_sound p _ _ (xa - xb) (va - vb) v); [|apply mag_spec; exact I | exact Hp].
      rewrite fxR_add. apply sub_err; assumption.
    + inj3 H.
      pose proof (prod_enclosure _ _ _ _ _ _ Ia Ib) as [P1 P2].
      assert (I : fxR (flo (min4 (la * lb) (la * hb) (ha * lb) (ha * hb)) sc) <= xa * xb <=
                  fxR (cei (max4 (la * lb) (la * hb) (ha * lb) (ha * hb)) sc)).
      { split; [eapply Rle_trans; [apply flo_fx | exact P1] | eapply Rle_trans; [exact P2 | apply cei_fx]]. }
      split; [exact I|].
      apply (rndE_sound p _ _ (xa * xb) (va * vb) v); [|apply mag_spec; exact I | exact Hp].
      eapply Rle_trans; [apply (mul_err xa xb va vb _ _ _ _ Ea' Eb' Ma Mb)|].
      rewrite !fxR_add.
      pose proof (Rabs_pos (va - xa)). pose proof (Rabs_pos (vb - xb)).
      assert (Q1 : 0 <= fxR Ea) by lra. assert (Q2 : 0 <= fxR Eb) by lra.
      pose proof (mag_nonneg la ha) as N1. pose proof (mag_nonneg lb hb) as N2.
      pose proof (mul_up Ea (mag lb hb) (fxR Ea) (fxR (mag lb hb)) ltac:(lra) ltac:(lra)).
      pose proof (mul_up Eb (mag la ha) (fxR Eb) (fxR (mag la ha)) ltac:(lra) ltac:(lra)).
      pose proof (mul_up Ea Eb (fxR Ea) (fxR Eb) ltac:(lra) ltac:(lra)).
      lra.
    + destruct ((0 <? lb)%Z || (hb <? 0)%Z) eqn:Sg; [|discriminate].
      set (mb := Z.min (Z.abs lb) (Z.abs hb)) in *.
      destruct (Z.ltb_spec Eb mb) as [Lt|]; [|discriminate].
      inj3 H.
      assert (Lh : (lb <= hb)%Z).
      { destruct Ib as [I1 I2]. assert (T : fxR lb <= fxR hb) by lra. unfold fxR in T.
        apply le_IZR. apply Rmult_le_reg_r with (/ W); [apply Rinv_0_lt_compat; exact Wp | exact T]. }
      (* the exact denominator is at least mb away from zero *)
      assert (Hmb : fxR mb <= Rabs xb /\ (0 < mb)%Z /\ lb <> 0%Z /\ hb <> 0%Z).
      { apply orb_true_iff in Sg. destruct Sg as [S|S].
        - apply Z.ltb_lt in S. repeat split; try (unfold mb; lia).
          assert (T : fxR mb <= fxR lb) by (apply fxR_le; unfold mb; lia).
          assert (0 < fxR lb) by (rewrite <- fxR_0; unfold fxR; apply Rmult_lt_compat_r;
                                  [apply Rinv_0_lt_compat; exact Wp | apply IZR_lt; exact S]).
          rewrite Rabs_pos_eq by lra. lra.
        - apply Z.ltb_lt in S. repeat split; try (unfold mb; lia).
          assert (T : fxR mb <= - fxR hb) by (rewrite <- fxR_opp; apply fxR_le; unfold mb; lia).
          assert (fxR hb < 0) by (rewrite <- fxR_0; unfold fxR; apply Rmult_lt_compat_r;
                                  [apply Rinv_0_lt_compat; exact Wp | apply IZR_lt; exact S]).
          rewrite Rabs_left by lra. lra. }
      destruct Hmb as (Hmb & Pmb & Nlb & Nhb).
      assert (Pm : 0 < fxR mb) by (rewrite <- fxR_0; unfold fxR; apply Rmult_lt_compat_r;
                                   [apply Rinv_0_lt_compat; exact Wp | apply IZR_lt; exact Pmb]).
      assert (Xb : xb <> 0) by (intro Z0; rewrite Z0, Rabs_R0 in Hmb; lra).
      (* enclosure of the reciprocal *)
      set (il := fdivZ (one_fx * one_fx) hb). set (ih := cdivZ (one_fx * one_fx) lb).
      assert (Ir : fxR il <= / xb <= fxR ih).
      { pose proof (fdivZ_spec (one_fx * one_fx) hb Nhb) as F1.
        pose proof (cdivZ_spec (one_fx * one_fx) lb Nlb) as F2.
        fold il in F1. fold ih in F2. rewrite mult_IZR in F1, F2. fold W in F1, F2.
        assert (R1 : W * W / IZR hb / W = / fxR hb).
        { unfold fxR. field. split; [lra | apply not_0_IZR; exact Nhb]. }
        assert (R2 : W * W / IZR lb / W = / fxR lb).
        { unfold fxR. field. split; [lra | apply not_0_IZR; exact Nlb]. }
        assert (G1 : fxR il <= / fxR hb).
        { rewrite <- R1. unfold fxR. apply Rmult_le_compat_r; [left; apply Rinv_0_lt_compat; exact Wp | exact F1]. }
        assert (G2 : / fxR lb <= fxR ih).
        { rewrite <- R2. unfold fxR. apply Rmult_le_compat_r; [left; apply Rinv_0_lt_compat; exact Wp | exact F2]. }
        apply orb_true_iff in Sg. destruct Sg as [S|S]; apply Z.ltb_lt in S.
        - assert (0 < fxR lb) by (rewrite <- fxR_0; unfold fxR; apply Rmult_lt_compat_r;
                                  [apply Rinv_0_lt_compat; exact Wp | apply IZR_lt; exact S]).
          split.
          + eapply Rle_trans; [exact G1|]. apply Rinv_le_contravar; lra.
          + eapply Rle_trans; [|exact G2]. apply Rinv_le_contravar; lra.
        - assert (fxR hb < 0) by (rewrite <- fxR_0; unfold fxR; apply Rmult_lt_compat_r;
                                  [apply Rinv_0_lt_compat; exact Wp | apply IZR_lt; exact S]).
          assert (N1 : forall s t, s <= t -> t < 0 -> / t <= / s).
          { intros s t Hst Ht. replace (/ t) with (- / (- t)) by (field; lra).
            replace (/ s) with (- / (- s)) by (field; lra).
            apply Ropp_le_contravar. apply Rinv_le_contravar; lra. }
          split.
          + eapply Rle_trans; [exact G1|]. apply N1; lra.
          + eapply Rle_trans; [|exact G2]. apply N1; lra. }
      pose proof (prod_enclosure _ _ _ _ _ _ Ia Ir) as [P1 P2].
      assert (I : fxR (flo (min4 (la * il) (la * ih) (ha * il) (ha * ih)) sc) <= xa / xb <=
                  fxR (cei (max4 (la * il) (la * ih) (ha * il) (ha * ih)) sc)).
      { unfold Rdiv. split; [eapply Rle_trans; [apply flo_fx | exact P1] | eapply Rle_trans; [exact P2 | apply cei_fx]]. }
      split; [exact I|].
      apply (rndE_sound p _ _ (xa / xb) (va / vb) v); [|apply mag_spec; exact I | exact Hp].
      assert (Dn : 0 < fxR mb - fxR Eb).
      { rewrite <- fxR_sub, <- fxR_0. unfold fxR. apply Rmult_lt_compat_r;
          [apply Rinv_0_lt_compat; exact Wp | apply IZR_lt; lia]. }
      eapply Rle_trans; [apply (div_err xa xb va vb (fxR Ea) (fxR Eb) (fxR (mag la ha)) (fxR mb) Ea' Eb' Ma Hmb Dn)|].
      rewrite fxR_add.
      assert (NZ1 : (mb - Eb <> 0)%Z) by lia. assert (NZ2 : ((mb - Eb) * mb <> 0)%Z) by nia.
      pose proof (cdivZ_spec (Ea * one_fx) (mb - Eb) NZ1) as C1.
      pose proof (cdivZ_spec (mag la ha * Eb * one_fx) ((mb - Eb) * mb) NZ2) as C2.
      rewrite ?mult_IZR, ?minus_IZR in C1. rewrite ?mult_IZR, ?minus_IZR in C2. fold W in C1, C2.
      assert (RZ1 : IZR mb - IZR Eb <> 0) by (rewrite <- minus_IZR; apply not_0_IZR; exact NZ1).
      assert (RZ2 : IZR mb <> 0) by (apply not_0_IZR; lia).
      apply Rplus_le_compat.
      * apply fx_of_IZR. eapply Rle_trans; [|exact C1]. right. unfold fxR. field. repeat split; lra.
      * apply fx_of_IZR. eapply Rle_trans; [|exact C2]. right. unfold fxR. field. repeat split; lra.
  - destruct (bnd a lo hi) as [[[l' h'] E']|] eqn:Ba; [|discriminate].
    intros H Hv. inversion Hv as [| | | |p' a' va v' Fa Hp]; subst.
    destruct (IH _ _ _ _ eq_refl Fa) as [I1 I2].
    assert (G : fxR l' <= evalR a f <= fxR h' /\ Rabs (v - evalR a f) <= fxR (rndE p (mag l' h') E')).
    { split; [exact I1|]. apply (rndE_sound p _ _ (evalR a f) va v); [exact I2 | apply mag_spec; exact I1 | exact Hp]. }
    destruct (is_lit a) as [q|] eqn:L.
    + destruct (repr p q) eqn:Rp.
      * inj3 H. split; [exact I1|].
        destruct a; cbn in L; try discriminate. inversion L; subst.
        inversion Fa; subst. destruct Hp as [_ Hex]. rewrite (Hex (repr_fmt _ _ Rp)). exact I2.
      * inj3 H. exact G.
    + inj3 H. exact G.
Qed.
