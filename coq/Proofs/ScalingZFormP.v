(** * Generated integer sizes (Gen/Gen_ScalingZ.v): the closed formulas of the padded lengths (C06).
    Separate from Proofs/ScalingZRP.v so that a change of the *formula* (round -> truncation, ceil -> floor) that keeps
    every access in bounds breaks C06's statements only, not C17's. *)
From Coq Require Import List ZArith QArith Qcanon Qround Lia Bool ZifyBool.
From Inovesa Require Import Base.FieldKit Base.Float32 Model.Kick Model.Bounds Model.ScalingOps
  Gen.Gen_ScalingZ Proofs.KickP Proofs.BoundsP Proofs.ScalingZP.
Import ListNotations.
Local Open Scope Z_scope.

(** ** closed formulas (C06): the values themselves, up to ring identities of the products *)
Lemma gen_spacing_bins_formula LZ LQ LB sp :
  gen_spacing_bins LZ LQ LB = Val sp ->
  sp = Qcround (rnd53 (Qcz (LZ O_getGridSize) * LQ V_spacing_ps)%Qc) /\ 0 <= sp < 2 ^ 32.
Proof.
  intros H. unfold gen_spacing_bins in H. split_convs H. injection H as <-.
  match goal with E : f2u _ _ = Val _ |- _ => apply f2u_Qcz in E; destruct E as [-> R] end.
  split; [|exact R]. do 2 f_equal; try ring.
Qed.

Lemma gen_rdtn_nfreqs_formula LZ LQ LB nm :
  gen_rdtn_nfreqs LZ LQ LB = Val nm ->
  let c := Qcceil (rnd53 (Qcz (LZ O_getGridSize) * Qcmax (LQ O_getPadding) (Qcz 1))%Qc) in
  nm = (if LB O_getRoundPadding then upper_power_of_two c else c) /\ 0 <= c < 2 ^ 64.
Proof.
  intros H c. unfold gen_rdtn_nfreqs in H. split_convs H. injection H as <-.
  match goal with E : f2u _ _ = Val _ |- _ => apply f2u_Qcz in E; destruct E as [-> R] end.
  assert (X : forall a b : Qc, a = b -> Qcceil (rnd53 a) = Qcceil (rnd53 b)) by (intros; subst; reflexivity).
  match goal with
  | |- (if ?r then upper_power_of_two ?d else ?d) = _ /\ _ =>
    assert (E : d = c) by (unfold c; apply X; ring); rewrite E in *; split; [reflexivity | exact R]
  end.
Qed.

Lemma gen_wake_nfreqs_formula LZ LQ LB sp nm :
  0 < LZ O_getGridSize < 2 ^ 32 -> 1 < LZ N_getBunchCurrents < 2 ^ 32 ->
  LZ O_getGridSize * LZ N_getBunchCurrents < 2 ^ 32 ->
  gen_spacing_bins LZ LQ LB = Val sp -> gen_wake_nfreqs LZ LQ LB = Val nm ->
  let n := LZ O_getGridSize in let nb := LZ N_getBunchCurrents in
  let c := Z.max (Qcceil (rnd53 (Qcz (n * nb) * LQ V_spacing_ps)%Qc)) ((nb - 1) * sp + n) in
  nm = (if LB O_getRoundPadding then upper_power_of_two c else c).
Proof.
  intros Hn Hnb Hprod Hsp Hnm n nb c. fold n nb in Hn, Hnb, Hprod.
  unfold gen_spacing_bins in Hsp. unfold gen_wake_nfreqs in Hnm. fold n nb in Hsp, Hnm.
  match type of Hsp with
  | context [conv_bind (f2u ?bt ?q) _] =>
    destruct (f2u bt q) as [s|] eqn:Es; cbn [conv_bind] in Hsp; [|discriminate Hsp];
    try rewrite Es in Hnm; cbn [conv_bind] in Hnm
  end.
  injection Hsp as ->.
  split_convs Hnm. f2u_ranges.
  injection Hnm as <-.
  repeat match goal with E : f2u _ (Qcz _) = Val ?z |- _ => apply f2u_Qcz in E; destruct E as [-> ?] end.
  assert (X : forall (a b : Qc) (u v : Z), a = b -> u = v -> Z.max (Qcceil (rnd53 a)) u = Z.max (Qcceil (rnd53 b)) v)
    by (intros; subst; reflexivity).
  Ltac unwrap_goal :=
    unfold w64, wrap32; change (2 ^ 64) with 18446744073709551616 in *; change (2 ^ 32) with 4294967296 in *;
    repeat match goal with
           | |- context [?a mod ?m] =>
             lazymatch a with context [_ mod _] => fail | _ => rewrite (Z.mod_small a m) by nia end
           end.
  repeat match goal with |- context [if ?cnd then _ else _] => destruct cnd eqn:? end; try lia;
    try (apply (f_equal upper_power_of_two));
    unfold c; (apply X; [ unwrap_goal; first [reflexivity | ring] | unwrap_goal; ring ]).
Qed.
