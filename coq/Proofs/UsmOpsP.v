(** * Facts about the vocabulary of Gen_UpdateSM.v (Model/UsmOps.v) on integer-valued floats.

    Integers below 2^24 in magnitude are binary32 values ([rnd32_Qcz], through the agreement of [rnd32] with Flocq's
    rounding, Proofs/Float32P.v: this is where the axioms of the standard library's reals come in); on them the float
    comparisons are the integer comparisons, [std::modf] and the float -> unsigned conversion are what one expects. *)
From Coq Require Import ZArith QArith Qround Qreals Reals Lra Lia Qcanon Bool.
From Flocq Require Import Core.
From Inovesa Require Import Base.FieldKit Base.Float32 Model.UsmOps Proofs.Float32P.
Local Open Scope Z_scope.

Lemma Qcz_this z : (this (Qcz z) == inject_Z z)%Q.
Proof. unfold Qcz. cbn [this Q2Qc]. apply Qred_correct. Qed.

Lemma Qcz_this_eq z : this (Qcz z) = inject_Z z.
Proof.
  unfold Qcz. cbn [this Q2Qc]. apply Qred_identity. unfold inject_Z; cbn [Qnum Qden]. apply Z.gcd_1_r.
Qed.

Lemma rnd32_Qcz k : - 2 ^ 24 < k < 2 ^ 24 -> rnd32 (Qcz k) = Qcz k.
Proof.
  intros Hk. apply Qc_is_canon. apply eqR_Qeq.
  rewrite rnd32_correct. rewrite Qcz_this_eq, Q2R_inject_Z.
  apply round_generic; [apply valid_rnd_N|].
  apply generic_format_FLT. apply (FLT_spec _ _ _ _ (Float radix2 k 0)).
  - unfold F2R; cbn [Fnum Fexp bpow]. lra.
  - cbn [Fnum]. change (radix2 ^ 24) with (2 ^ 24). lia.
  - cbn [Fexp]. lia.
Qed.

Lemma i2f32_small k : - 2 ^ 24 < k < 2 ^ 24 -> i2f32 k = Qcz k.
Proof. exact (rnd32_Qcz k). Qed.

Lemma fle_Qcz a b : fle (Qcz a) (Qcz b) = (a <=? b).
Proof.
  unfold fle. rewrite !Qcz_this_eq. apply eq_true_iff_eq. rewrite Qle_bool_iff, Z.leb_le, <- Zle_Qle. reflexivity.
Qed.

Lemma flt_Qcz a b : flt (Qcz a) (Qcz b) = (a <? b).
Proof. unfold flt. change (Qle_bool (this (Qcz b)) (this (Qcz a))) with (fle (Qcz b) (Qcz a)). rewrite fle_Qcz. symmetry. apply Z.ltb_antisym. Qed.

Lemma feq_Qcz a b : feq (Qcz a) (Qcz b) = (a =? b).
Proof.
  unfold feq. rewrite !Qcz_this_eq. apply eq_true_iff_eq. rewrite Qeq_bool_iff, Z.eqb_eq. unfold Qeq, inject_Z; cbn [Qnum Qden]. lia.
Qed.

Lemma Qctrunc_of_Qcz z : Qctrunc (Qcz z) = z.
Proof. unfold Qctrunc. rewrite Qcz_this_eq. unfold inject_Z; cbn [Qnum Qden]. apply Z.quot_1_r. Qed.

Lemma modf_int_Qcz p : modf_int p = Qcz (Qctrunc p).
Proof. reflexivity. Qed.

Lemma wrapu_small bits z : 0 <= z < 2 ^ bits -> wrapu bits z = z.
Proof. intros H. unfold wrapu. apply Z.mod_small. exact H. Qed.

Lemma f2u_val_Qcz bits z : 0 <= z < 2 ^ bits -> fcvt_val bits (Qcz z) = z.
Proof. intros H. unfold fcvt_val. rewrite Qctrunc_of_Qcz. apply wrapu_small. exact H. Qed.

Lemma f2u_ok_Qcz bits z : fcvt_ok bits (Qcz z) = ((-1 <? z) && (z <? 2 ^ bits))%bool.
Proof. unfold fcvt_ok. rewrite !flt_Qcz. reflexivity. Qed.
