(** * Lemmas about the PhaseSpace-moments model (Model/Moments.v). *)
From Coq Require Import List ZArith Ring Field Lia Bool QArith Qcanon.
From Inovesa Require Import Base.FieldKit Base.Sums Model.Moments.
Import ListNotations.

Lemma zrange_length n : length (zrange n) = Z.to_nat n.
Proof. unfold zrange. rewrite map_length, seq_length. reflexivity. Qed.

Lemma zrange_nth n i d : (0 <= i < n)%Z -> nth (Z.to_nat i) (zrange n) d = i.
Proof.
  intros H. unfold zrange.
  rewrite nth_indep with (d' := Z.of_nat 0) by (rewrite map_length, seq_length; lia).
  rewrite map_nth, seq_nth by lia. lia.
Qed.

Lemma tabA_get {A} (d : A) n f i : (0 <= i < n)%Z -> tabA d n f i = f i.
Proof.
  intros H. unfold tabA. destruct (0 <=? i)%Z eqn:E; [|lia].
  rewrite nth_indep with (d' := f 0%Z) by (rewrite map_length, zrange_length; lia).
  rewrite map_nth, zrange_nth by exact H. reflexivity.
Qed.

Section MomentsP.
  Variable K : Fld.
  Variable pos : K -> bool.
  Add Field KFm : (@Fth K).
  Local Open Scope F_scope.

  Notation geom := (geom K).
  Notation state := (state K).

  Lemma sumn_ext n (g h : Z -> K) :
    (forall i, (0 <= i < n)%Z -> g i = h i) -> sumn K n g = sumn K n h.
  Proof. intros H. unfold sumn. apply sumZ_ext. intros i Hi. apply H. lia. Qed.

  Lemma sumn_scale n (g : Z -> K) c : sumn K n (fun i => c * g i) = c * sumn K n g.
  Proof. unfold sumn. apply sumZ_scale. Qed.

  Lemma sumn_scale_r n (g : Z -> K) c : sumn K n (fun i => g i * c) = sumn K n g * c.
  Proof.
    rewrite (sumn_ext n _ (fun i => c * g i)) by (intros; ring).
    rewrite sumn_scale. ring.
  Qed.

  Lemma sumn_add n (g h : Z -> K) : sumn K n (fun i => g i + h i) = sumn K n g + sumn K n h.
  Proof. unfold sumn. apply sumZ_add. Qed.

  Lemma sumn_zero n (g : Z -> K) : (forall i, (0 <= i < n)%Z -> g i = 0) -> sumn K n g = 0.
  Proof. intros H. unfold sumn. apply sumZ_zero. intros i Hi. apply H. lia. Qed.

  Lemma tab2_get a b f i j : (0 <= i < a)%Z -> (0 <= j < b)%Z -> tab2 K a b f i j = f i j.
  Proof. intros Hi Hj. unfold tab2. rewrite tabA_get by exact Hi. apply tabA_get. exact Hj. Qed.

  Lemma tab3_get a b c f i j k :
    (0 <= i < a)%Z -> (0 <= j < b)%Z -> (0 <= k < c)%Z -> tab3 K a b c f i j k = f i j k.
  Proof. intros Hi Hj Hk. unfold tab3. rewrite tabA_get by exact Hi. apply tab2_get; assumption. Qed.

  (** ** what the three cache operations compute, cell by cell *)
  Section Ops.
    Variable g : geom.
    Let n := gn g.
    Let nb := gnb g.

    Definition PXf (D : Z -> Z -> Z -> K) (b x : Z) : K := sumn K n (fun y => D b x y * ws K g y).
    Definition PYf (D : Z -> Z -> Z -> K) (b y : Z) : K := sumn K n (fun x => D b x y * ws K g x).

    Lemma updateX_projx s b x : (0 <= b < nb)%Z -> (0 <= x < n)%Z ->
      sprojx (updateX K g s) b x = PXf (sdata s) b x.
    Proof. intros Hb Hx. unfold updateX. cbn [sprojx]. rewrite tab2_get by assumption. reflexivity. Qed.

    Lemma updateY_projy s b y : (0 <= b < nb)%Z -> (0 <= y < n)%Z ->
      sprojy (updateY K g s) b y = PYf (sdata s) b y.
    Proof. intros Hb Hy. unfold updateY. cbn [sprojy]. rewrite tab2_get by assumption. reflexivity. Qed.

    Lemma integrate_fill s b : (0 <= b < nb)%Z ->
      sfill (integrate K g s) b = sumn K n (fun x => sprojx s b x * ws K g x).
    Proof. intros Hb. unfold integrate. cbn [sfill]. rewrite tabA_get by assumption. reflexivity. Qed.

    Lemma integrate_int s : sint (integrate K g s) = sumn K nb (sfill (integrate K g s)).
    Proof. reflexivity. Qed.

    Lemma normalize_data s b x y : (0 <= b < nb)%Z -> (0 <= x < n)%Z -> (0 <= y < n)%Z ->
      sdata (normalize K pos g s) b x y =
      if pos (gfs g b) then sdata s b x y * (gfs g b / sfill s b) else 0.
    Proof. intros Hb Hx Hy. unfold normalize. cbn [sdata]. rewrite tab3_get by assumption. reflexivity. Qed.

    (** the measured (Simpson) charge of bunch b is linear in that bunch's data *)
    Lemma charge_of_scale D c b :
      charge_of K g (fun b x y => D b x y * c) b = charge_of K g D b * c.
    Proof.
      unfold charge_of.
      rewrite <- (sumn_scale_r (gn g) (fun x => sumn K (gn g) (fun y => D b x y * ws K g y) * ws K g x) c).
      apply sumn_ext. intros x Hx.
      rewrite (sumn_ext _ (fun y => D b x y * c * ws K g y) (fun y => D b x y * ws K g y * c))
        by (intros; ring).
      rewrite sumn_scale_r. ring.
    Qed.

    Lemma charge_of_ext D D' b :
      (forall x y, (0 <= x < n)%Z -> (0 <= y < n)%Z -> D b x y = D' b x y) ->
      charge_of K g D b = charge_of K g D' b.
    Proof.
      intros H. unfold charge_of. apply sumn_ext. intros x Hx. f_equal.
      apply sumn_ext. intros y Hy. rewrite H by assumption. reflexivity.
    Qed.

    (** filling measured by updateXProjection; integrate *)
    Lemma measured_fill s b : (0 <= b < nb)%Z ->
      sfill (integrate K g (updateX K g s)) b = charge_of K g (sdata s) b.
    Proof.
      intros Hb. rewrite integrate_fill by assumption. unfold charge_of. apply sumn_ext.
      intros x Hx. rewrite updateX_projx by assumption. reflexivity.
    Qed.

    (** *** normalisation *)
    Theorem normalize_restores_share s b :
      (0 <= b < nb)%Z -> pos (gfs g b) = true ->
      sfill s b = charge_of K g (sdata s) b ->       (* the cached filling is the measured one *)
      sfill s b <> 0 ->
      sfill (integrate K g (updateX K g (normalize K pos g s))) b = gfs g b.
    Proof.
      intros Hb Hp Hfresh Hnz. rewrite measured_fill by assumption.
      rewrite (charge_of_ext _ (fun b x y => sdata s b x y * (gfs g b / sfill s b))).
      2:{ intros x y Hx Hy. rewrite normalize_data by assumption. rewrite Hp. reflexivity. }
      rewrite (charge_of_scale (sdata s) (gfs g b / sfill s b) b) at 1.
      rewrite <- Hfresh. field. exact Hnz.
    Qed.

    Theorem normalize_empty_bucket s b :
      (0 <= b < nb)%Z -> pos (gfs g b) = false ->
      sfill (integrate K g (updateX K g (normalize K pos g s))) b = 0 /\
      (forall x y, (0 <= x < n)%Z -> (0 <= y < n)%Z -> sdata (normalize K pos g s) b x y = 0).
    Proof.
      intros Hb Hp. split.
      - rewrite measured_fill by assumption. unfold charge_of. apply sumn_zero. intros x Hx.
        rewrite (sumn_zero n) ; [ring|]. intros y Hy. rewrite normalize_data by assumption.
        rewrite Hp. ring.
      - intros x y Hx Hy. rewrite normalize_data by assumption. rewrite Hp. reflexivity.
    Qed.

    Theorem normalize_total s :
      (forall b, (0 <= b < nb)%Z -> pos (gfs g b) = true ->
                 sfill s b = charge_of K g (sdata s) b /\ sfill s b <> 0) ->
      sint (integrate K g (updateX K g (normalize K pos g s))) =
      sumn K nb (fun b => if pos (gfs g b) then gfs g b else 0).
    Proof.
      intros H. rewrite integrate_int. apply sumn_ext. intros b Hb.
      destruct (pos (gfs g b)) eqn:Hp.
      - destruct (H b Hb Hp) as [Hf Hnz]. apply normalize_restores_share; assumption.
      - apply normalize_empty_bucket; assumption.
    Qed.

    Corollary normalize_total_one s :
      (forall b, (0 <= b < nb)%Z -> pos (gfs g b) = true ->
                 sfill s b = charge_of K g (sdata s) b /\ sfill s b <> 0) ->
      (forall b, (0 <= b < nb)%Z -> pos (gfs g b) = false -> gfs g b = 0) ->
      sumn K nb (gfs g) = 1 ->
      sint (integrate K g (updateX K g (normalize K pos g s))) = 1.
    Proof.
      intros H Hz H1. rewrite normalize_total by exact H. rewrite <- H1. apply sumn_ext.
      intros b Hb. destruct (pos (gfs g b)) eqn:Hp; [reflexivity|]. symmetry. apply Hz; assumption.
    Qed.
  End Ops.

  (** ** moments are the code's formulas of the bunch's own projection *)
  Section MomentsOps.
    Variable g : geom.
    Let n := gn g.
    Let nb := gnb g.

    Lemma average_mom s axis b : (0 <= b < nb)%Z ->
      smom (average K pos g axis s) axis 0 b = avg_val K pos g s axis b.
    Proof.
      intros Hb. unfold average, set_mom. cbn [smom]. rewrite !Z.eqb_refl. cbn [andb].
      apply tabA_get. exact Hb.
    Qed.

    Lemma average_keeps s axis : 
      sdata (average K pos g axis s) = sdata s /\ sprojx (average K pos g axis s) = sprojx s /\
      sprojy (average K pos g axis s) = sprojy s /\ sfill (average K pos g axis s) = sfill s /\
      sint (average K pos g axis s) = sint s.
    Proof. repeat split; reflexivity. Qed.

    Lemma sproj_average s axis a : sproj K (average K pos g axis s) a = sproj K s a.
    Proof. unfold sproj. destruct (a =? 0)%Z; reflexivity. Qed.

    Lemma variance_mom0 s axis b : (0 <= b < nb)%Z ->
      smom (variance K pos g axis s) axis 0 b = avg_val K pos g s axis b.
    Proof.
      intros Hb. unfold variance, set_mom. cbn [smom].
      rewrite Z.eqb_refl. cbn [andb Z.eqb]. apply average_mom. exact Hb.
    Qed.

    Lemma variance_mom1 s axis b : (0 <= b < nb)%Z ->
      smom (variance K pos g axis s) axis 1 b = var_val K pos g (average K pos g axis s) axis b.
    Proof.
      intros Hb. unfold variance, set_mom. cbn [smom]. rewrite !Z.eqb_refl. cbn [andb].
      apply tabA_get. exact Hb.
    Qed.

    Theorem average_is_first_moment s axis b :
      (0 <= b < nb)%Z -> pos (gfs g b) = true -> sfill s b <> 0 ->
      smom (average K pos g axis s) axis 0 b =
      first_moment K n (gdelta K g axis) (gqp K g axis) (sproj K s axis b) (sfill s b).
    Proof.
      intros Hb Hp Hnz. rewrite average_mom by exact Hb. unfold avg_val, first_moment.
      rewrite Hp. fold n. field. exact Hnz.
    Qed.

    Theorem variance_is_second_central_moment s axis b :
      (0 <= b < nb)%Z -> pos (gfs g b) = true -> sfill s b <> 0 ->
      let s' := variance K pos g axis s in
      smom s' axis 0 b =
        first_moment K n (gdelta K g axis) (gqp K g axis) (sproj K s axis b) (sfill s b) /\
      smom s' axis 1 b =
        second_central_moment K n (gdelta K g axis) (gqp K g axis) (sproj K s axis b) (sfill s b)
                              (smom s' axis 0 b).
    Proof.
      intros Hb Hp Hnz s'. subst s'. split.
      - rewrite variance_mom0 by exact Hb. rewrite <- average_mom by exact Hb.
        apply average_is_first_moment; assumption.
      - rewrite variance_mom1, variance_mom0 by exact Hb. rewrite <- average_mom by exact Hb.
        unfold var_val, second_central_moment. rewrite Hp, sproj_average. fold n.
        cbn [sfill average]. field. exact Hnz.
    Qed.

    Theorem moments_empty_bucket s axis b :
      (0 <= b < nb)%Z -> pos (gfs g b) = false ->
      smom (variance K pos g axis s) axis 0 b = 0 /\ smom (variance K pos g axis s) axis 1 b = 0.
    Proof.
      intros Hb Hp. rewrite variance_mom0, variance_mom1 by exact Hb.
      unfold avg_val, var_val. rewrite Hp. split; reflexivity.
    Qed.
  End MomentsOps.

  (** ** shifting and scaling a profile *)
  Section Profile.
    Variables (n : Z) (delta qmin : K).
    Let q (i : Z) : K := qmin + fz i * delta.

    Lemma q_shift i m : q (i + m) = q i + fz m * delta.
    Proof. unfold q. rewrite fz_add. ring. Qed.

    (** re-indexing a sum against a profile moved by [m] cells inside the grid *)
    Lemma sum_shift_supp (r h : Z -> K) a b m :
      supp r a b -> (0 <= a)%Z -> (b <= n)%Z -> (a <= b)%Z -> (0 <= a + m)%Z -> (b + m <= n)%Z ->
      sumn K n (fun i => r (i - m)%Z * h i) = sumn K n (fun u => r u * h (u + m)%Z).
    Proof.
      intros Hs Ha Hb Hab Ham Hbm. unfold sumn.
      rewrite (sumZ_ext K 0 _ _ (fun i => (fun u => r u * h (u + m)%Z) (i + - m)%Z)).
      2:{ intros i Hi. cbv beta. replace (i + - m + m)%Z with i by lia.
          replace (i + - m)%Z with (i - m)%Z by lia. reflexivity. }
      rewrite (sumZ_shift K 0 (Z.to_nat n) (fun u => r u * h (u + m)%Z) (- m)).
      assert (Hs' : supp (fun u => r u * h (u + m)%Z) a b).
      { intros i Hi. rewrite Hs by exact Hi. ring. }
      rewrite (sum_window K _ a b (0 + - m) (Z.to_nat n)) by (auto; lia).
      rewrite (sum_window K _ a b 0 (Z.to_nat n)) by (auto; lia).
      reflexivity.
    Qed.

    Variables (r : Z -> K) (a b m : Z).
    Hypothesis Hs : supp r a b.
    Hypothesis Ha : (0 <= a)%Z.
    Hypothesis Hb : (b <= n)%Z.
    Hypothesis Hab : (a <= b)%Z.
    Hypothesis Ham : (0 <= a + m)%Z.
    Hypothesis Hbm : (b + m <= n)%Z.
    Let r' (i : Z) : K := r (i - m)%Z.

    (** the general law: charges [c], [c'] are whatever was measured for the two profiles *)
    Theorem translation_law c c' : c <> 0 -> c' <> 0 ->
      first_moment K n delta q r' c' * c' =
      first_moment K n delta q r c * c + fz m * delta * (delta * sumn K n r).
    Proof.
      intros Hc Hc'. unfold first_moment, r'.
      rewrite (sum_shift_supp r q a b m) by assumption.
      rewrite (sumn_ext n (fun u => r u * q (u + m)%Z) (fun u => r u * q u + (fz m * delta) * r u))
        by (intros; rewrite q_shift; ring).
      rewrite sumn_add, sumn_scale. field. split; assumption.
    Qed.

    (** equal measured charge, equal to the rectangle charge of the profile: the mean moves by
        m*delta and the variance does not change *)
    Theorem translation_mean c : c <> 0 -> c = delta * sumn K n r ->
      first_moment K n delta q r' c = first_moment K n delta q r c + fz m * delta.
    Proof.
      intros Hc Hr.
      assert (E := translation_law c c Hc Hc). rewrite <- Hr in E.
      assert (E2 : first_moment K n delta q r' c =
                   (first_moment K n delta q r' c * c) / c) by (field; exact Hc).
      rewrite E2, E. field. exact Hc.
    Qed.

    Theorem translation_variance c mean : c <> 0 ->
      second_central_moment K n delta q r' c (mean + fz m * delta) =
      second_central_moment K n delta q r c mean.
    Proof.
      intros Hc. unfold second_central_moment, r'.
      rewrite (sum_shift_supp r (fun i => (q i - (mean + fz m * delta)) * (q i - (mean + fz m * delta))) a b m)
        by assumption.
      f_equal. f_equal. apply sumn_ext. intros u Hu. rewrite q_shift. ring.
    Qed.
  End Profile.

  Theorem scale_first_moment n delta (q r : Z -> K) c k : c <> 0 -> k <> 0 ->
    first_moment K n delta q (fun i => k * r i) (k * c) = first_moment K n delta q r c.
  Proof.
    intros Hc Hk. unfold first_moment.
    rewrite (sumn_ext n (fun i => k * r i * q i) (fun i => k * (r i * q i))) by (intros; ring).
    rewrite sumn_scale. field. split; assumption.
  Qed.

  Theorem scale_second_moment n delta (q r : Z -> K) c mean k : c <> 0 -> k <> 0 ->
    second_central_moment K n delta q (fun i => k * r i) (k * c) mean =
    second_central_moment K n delta q r c mean.
  Proof.
    intros Hc Hk. unfold second_central_moment.
    rewrite (sumn_ext n (fun i => k * r i * ((q i - mean) * (q i - mean)))
                      (fun i => k * (r i * ((q i - mean) * (q i - mean))))) by (intros; ring).
    rewrite sumn_scale. field. split; assumption.
  Qed.

  (** ** structural independence of the bunches, for every operation history *)
  Section Independence.
    Variable g : geom.
    Let n := gn g.
    Let nb := gnb g.

    (** the arrays of bunch [b] *)
    Definition arr_eq (b : Z) (s s' : state) : Prop :=
      (forall x y, (0 <= x < n)%Z -> (0 <= y < n)%Z -> sdata s b x y = sdata s' b x y) /\
      (forall x, (0 <= x < n)%Z -> sprojx s b x = sprojx s' b x) /\
      (forall y, (0 <= y < n)%Z -> sprojy s b y = sprojy s' b y) /\
      sfill s b = sfill s' b.
    (** ... and its moments *)
    Definition bunch_eq (b : Z) (s s' : state) : Prop :=
      arr_eq b s s' /\ (forall a o, smom s a o b = smom s' a o b).

    Lemma sproj_eq b s s' axis i : arr_eq b s s' -> (0 <= i < n)%Z ->
      sproj K s axis b i = sproj K s' axis b i.
    Proof.
      intros (_ & Hx & Hy & _) Hi. unfold sproj. destruct (axis =? 0)%Z; [apply Hx|apply Hy]; exact Hi.
    Qed.

    Lemma avg_val_eq b s s' axis : arr_eq b s s' -> avg_val K pos g s axis b = avg_val K pos g s' axis b.
    Proof.
      intros H. unfold avg_val. destruct (pos (gfs g b)); [|reflexivity].
      destruct H as (Hd & Hx & Hy & Hf). rewrite Hf. f_equal. apply sumn_ext. intros i Hi.
      rewrite (sproj_eq b s s') by (try exact Hi; repeat split; assumption). reflexivity.
    Qed.

    Lemma var_val_eq b s s' axis : arr_eq b s s' -> smom s axis 0 b = smom s' axis 0 b ->
      var_val K pos g s axis b = var_val K pos g s' axis b.
    Proof.
      intros H Hm. unfold var_val. destruct (pos (gfs g b)); [|reflexivity].
      rewrite Hm. destruct H as (Hd & Hx & Hy & Hf). rewrite Hf. f_equal. apply sumn_ext. intros i Hi.
      rewrite (sproj_eq b s s') by (try exact Hi; repeat split; assumption). reflexivity.
    Qed.

    Lemma updateX_arr b s s' : (0 <= b < nb)%Z ->
      (forall x y, (0 <= x < n)%Z -> (0 <= y < n)%Z -> sdata s b x y = sdata s' b x y) ->
      forall x, (0 <= x < n)%Z -> sprojx (updateX K g s) b x = sprojx (updateX K g s') b x.
    Proof.
      intros Hb Hd x Hx. rewrite !updateX_projx by assumption. apply sumn_ext. intros y Hy.
      rewrite Hd by assumption. reflexivity.
    Qed.

    Lemma updateY_arr b s s' : (0 <= b < nb)%Z ->
      (forall x y, (0 <= x < n)%Z -> (0 <= y < n)%Z -> sdata s b x y = sdata s' b x y) ->
      forall y, (0 <= y < n)%Z -> sprojy (updateY K g s) b y = sprojy (updateY K g s') b y.
    Proof.
      intros Hb Hd y Hy. rewrite !updateY_projy by assumption. apply sumn_ext. intros x Hx.
      rewrite Hd by assumption. reflexivity.
    Qed.

    Lemma integrate_arr b s s' : (0 <= b < nb)%Z ->
      (forall x, (0 <= x < n)%Z -> sprojx s b x = sprojx s' b x) ->
      sfill (integrate K g s) b = sfill (integrate K g s') b.
    Proof.
      intros Hb Hx. rewrite !integrate_fill by assumption. apply sumn_ext. intros x Hxr.
      rewrite Hx by assumption. reflexivity.
    Qed.

    Lemma integrate_bunch_eq b s s' : (0 <= b < nb)%Z ->
      bunch_eq b s s' -> bunch_eq b (integrate K g s) (integrate K g s').
    Proof.
      intros Hb H. pose proof H as ((Hd & Hx & Hy & Hf) & Hm).
      split; [split; [exact Hd|split; [exact Hx|split; [exact Hy|]]]|exact Hm].
      apply integrate_arr; assumption.
    Qed.

    Lemma normalize_bunch_eq b s s' : (0 <= b < nb)%Z ->
      bunch_eq b s s' -> bunch_eq b (normalize K pos g s) (normalize K pos g s').
    Proof.
      intros Hb H. pose proof H as ((Hd & Hx & Hy & Hf) & Hm).
      split; [split; [|split; [exact Hx|split; [exact Hy|exact Hf]]]|exact Hm].
      intros x y Hxr Hyr. rewrite !normalize_data by assumption.
      rewrite Hd by assumption. rewrite Hf. reflexivity.
    Qed.

    Lemma run_op_bunch_eq b s s' op : (0 <= b < nb)%Z ->
      bunch_eq b s s' -> bunch_eq b (run_op K pos g s op) (run_op K pos g s' op).
    Proof.
      intros Hb H. pose proof H as ((Hd & Hx & Hy & Hf) & Hm). unfold run_op.
      destruct (op =? 0)%Z; [|destruct (op =? 1)%Z; [|destruct (op =? 2)%Z; [|destruct (op =? 3)%Z;
        [|destruct (op =? 4)%Z; [|destruct (op =? 5)%Z; [|destruct (op =? 6)%Z; [|destruct (op =? 7)%Z; [|destruct (op =? 8)%Z]]]]]]]].
      - (* updateX *) split; [split; [exact Hd|split; [|split; [exact Hy|exact Hf]]]|exact Hm].
        apply updateX_arr; assumption.
      - (* updateY *) split; [split; [exact Hd|split; [exact Hx|split; [|exact Hf]]]|exact Hm].
        apply updateY_arr; assumption.
      - (* integrate *) split; [split; [exact Hd|split; [exact Hx|split; [exact Hy|]]]|exact Hm].
        apply integrate_arr; assumption.
      - (* normalize *) split; [split; [|split; [exact Hx|split; [exact Hy|exact Hf]]]|exact Hm].
        intros x y Hxr Hyr. rewrite !normalize_data by assumption.
        rewrite Hd by assumption. rewrite Hf. reflexivity.
      - (* average 0 *) split; [exact (proj1 H)|]. intros a o. unfold average, set_mom. cbn [smom].
        destruct ((a =? 0)%Z && (o =? 0)%Z)%bool; [|apply Hm].
        rewrite !tabA_get by exact Hb. apply avg_val_eq. exact (proj1 H).
      - (* average 1 *) split; [exact (proj1 H)|]. intros a o. unfold average, set_mom. cbn [smom].
        destruct ((a =? 1)%Z && (o =? 0)%Z)%bool; [|apply Hm].
        rewrite !tabA_get by exact Hb. apply avg_val_eq. exact (proj1 H).
      - (* variance 0 *) split; [exact (proj1 H)|]. intros a o. unfold variance, set_mom. cbn [smom].
        destruct ((a =? 0)%Z && (o =? 1)%Z)%bool.
        + rewrite !tabA_get by exact Hb. apply var_val_eq; [exact (proj1 H)|].
          rewrite !average_mom by exact Hb. apply avg_val_eq. exact (proj1 H).
        + unfold average, set_mom. cbn [smom].
          destruct ((a =? 0)%Z && (o =? 0)%Z)%bool; [|apply Hm].
          rewrite !tabA_get by exact Hb. apply avg_val_eq. exact (proj1 H).
      - (* variance 1 *) split; [exact (proj1 H)|]. intros a o. unfold variance, set_mom. cbn [smom].
        destruct ((a =? 1)%Z && (o =? 1)%Z)%bool.
        + rewrite !tabA_get by exact Hb. apply var_val_eq; [exact (proj1 H)|].
          rewrite !average_mom by exact Hb. apply avg_val_eq. exact (proj1 H).
        + unfold average, set_mom. cbn [smom].
          destruct ((a =? 1)%Z && (o =? 0)%Z)%bool; [|apply Hm].
          rewrite !tabA_get by exact Hb. apply avg_val_eq. exact (proj1 H).
      - (* integrateAndNormalize *) apply normalize_bunch_eq; [exact Hb|]. apply integrate_bunch_eq; assumption.
      - exact H.
    Qed.

    Lemma run_ops_bunch_eq b ops : (0 <= b < nb)%Z -> forall s s',
      bunch_eq b s s' -> bunch_eq b (run_ops K pos g s ops) (run_ops K pos g s' ops).
    Proof.
      intros Hb. unfold run_ops. induction ops as [|op r IH]; intros s s' H; cbn [fold_left]; [exact H|].
      apply IH. apply run_op_bunch_eq; assumption.
    Qed.

    (** refreshing the caches: bunch b's arrays depend on bunch b's data only *)
    Lemma refresh_arr b s s' : (0 <= b < nb)%Z ->
      (forall x y, (0 <= x < n)%Z -> (0 <= y < n)%Z -> sdata s b x y = sdata s' b x y) ->
      arr_eq b (refresh K g s) (refresh K g s').
    Proof.
      intros Hb Hd. unfold refresh. repeat split.
      - exact Hd.
      - intros x Hx. cbn [integrate sprojx updateY]. apply updateX_arr; assumption.
      - intros y Hy. cbn [integrate sprojy]. apply updateY_arr; assumption.
      - apply integrate_arr; [exact Hb|]. intros x Hx. cbn [updateY sprojx]. apply updateX_arr; assumption.
    Qed.

    Lemma refresh_mom s : smom (refresh K g s) = smom s.
    Proof. reflexivity. Qed.

    Lemma construct_bunch_eq b D D' : (0 <= b < nb)%Z ->
      (forall x y, (0 <= x < n)%Z -> (0 <= y < n)%Z -> D b x y = D' b x y) ->
      bunch_eq b (construct K g D) (construct K g D').
    Proof.
      intros Hb H. unfold construct. split.
      - apply refresh_arr; [exact Hb|]. intros x y Hx Hy. cbn [sdata].
        rewrite !tab3_get by assumption. apply H; assumption.
      - intros a o. reflexivity.
    Qed.

    Theorem bunch_independent b D D' ops : (0 <= b < nb)%Z ->
      (forall x y, (0 <= x < n)%Z -> (0 <= y < n)%Z -> D b x y = D' b x y) ->
      bunch_eq b (run_ops K pos g (construct K g D) ops) (run_ops K pos g (construct K g D') ops).
    Proof. intros Hb H. apply run_ops_bunch_eq; [exact Hb|]. apply construct_bunch_eq; assumption. Qed.

    (** ** copies *)
    Definition obs_eq (s s' : state) : Prop :=
      (forall b, (0 <= b < nb)%Z -> arr_eq b s s') /\ sint s = sint s'.
    (** the caches of [s] are those of its data *)
    Definition fresh (s : state) : Prop := obs_eq (refresh K g s) s.

    Lemma arr_eq_trans b s1 s2 s3 : arr_eq b s1 s2 -> arr_eq b s2 s3 -> arr_eq b s1 s3.
    Proof.
      intros (A1 & A2 & A3 & A4) (B1 & B2 & B3 & B4). repeat split.
      - intros x y Hx Hy. rewrite A1, B1 by assumption. reflexivity.
      - intros x Hx. rewrite A2, B2 by assumption. reflexivity.
      - intros y Hy. rewrite A3, B3 by assumption. reflexivity.
      - rewrite A4, B4. reflexivity.
    Qed.

    Lemma obs_eq_trans s1 s2 s3 : obs_eq s1 s2 -> obs_eq s2 s3 -> obs_eq s1 s3.
    Proof.
      intros (A & Ai) (B & Bi). split.
      - intros b Hb. eapply arr_eq_trans; [apply A|apply B]; exact Hb.
      - rewrite Ai, Bi. reflexivity.
    Qed.

    Lemma refresh_obs s s' :
      (forall b x y, (0 <= b < nb)%Z -> (0 <= x < n)%Z -> (0 <= y < n)%Z -> sdata s b x y = sdata s' b x y) ->
      obs_eq (refresh K g s) (refresh K g s').
    Proof.
      intros H. split.
      - intros b Hb. apply refresh_arr; [exact Hb|]. intros x y Hx Hy. apply H; assumption.
      - unfold refresh. rewrite !integrate_int. apply sumn_ext. intros b Hb.
        apply integrate_arr; [exact Hb|]. intros x Hx. cbn [updateY sprojx].
        apply updateX_arr; [exact Hb| |exact Hx]. intros x' y' Hx' Hy'. apply H; assumption.
    Qed.

    (** the copy constructor always yields the refreshed original ... *)
    Theorem copy_is_refreshed s : obs_eq (copy K g s) (refresh K g s).
    Proof.
      unfold copy, construct. apply refresh_obs. intros b x y Hb Hx Hy. cbn [sdata].
      apply tab3_get; assumption.
    Qed.

    (** ... hence the original itself when its caches are up to date *)
    Theorem copy_same_arrays s : fresh s -> obs_eq (copy K g s) s.
    Proof. intros H. eapply obs_eq_trans; [apply copy_is_refreshed|exact H]. Qed.

    (** equal arrays give equal moments *)
    Lemma variance_obs b s s' axis o : (0 <= b < nb)%Z -> arr_eq b s s' -> (o = 0 \/ o = 1)%Z ->
      smom (variance K pos g axis s) axis o b = smom (variance K pos g axis s') axis o b.
    Proof.
      intros Hb H [Ho|Ho]; subst o.
      - rewrite !variance_mom0 by exact Hb. apply avg_val_eq. exact H.
      - rewrite !variance_mom1 by exact Hb. apply var_val_eq.
        + destruct H as (Hd & Hx & Hy & Hf). repeat split; assumption.
        + rewrite !average_mom by exact Hb. apply avg_val_eq. exact H.
    Qed.

    Theorem copy_same_observables s : fresh s ->
      obs_eq (copy K g s) s /\
      (forall b axis o, (0 <= b < nb)%Z -> (o = 0 \/ o = 1)%Z ->
         smom (variance K pos g axis (copy K g s)) axis o b = smom (variance K pos g axis s) axis o b).
    Proof.
      intros H. pose proof (copy_same_arrays s H) as E. split; [exact E|].
      intros b axis o Hb Ho. apply variance_obs; [exact Hb| |exact Ho]. apply (proj1 E). exact Hb.
    Qed.

    (** operator= : the target (geometry [g]) ends up with the source's data and with caches
        re-derived from them on the target's own geometry; sizes are process-global *)
    Theorem assign_is_refreshed (g' : geom) this other :
      gn g' = n -> gnb g' = nb -> obs_eq (assign K g g' this other) (refresh K g other).
    Proof.
      intros Hn Hnb. unfold assign. apply refresh_obs. intros b x y Hb Hx Hy. cbn [sdata].
      unfold copy, construct, refresh. cbn [integrate updateY updateX sdata].
      apply tab3_get; rewrite ?Hn, ?Hnb; assumption.
    Qed.

    Theorem assign_same_observables this other : fresh other ->
      obs_eq (assign K g g this other) other /\
      (forall b axis o, (0 <= b < nb)%Z -> (o = 0 \/ o = 1)%Z ->
         smom (variance K pos g axis (assign K g g this other)) axis o b =
         smom (variance K pos g axis other) axis o b).
    Proof.
      intros H.
      assert (E : obs_eq (assign K g g this other) other).
      { eapply obs_eq_trans; [apply assign_is_refreshed; reflexivity|exact H]. }
      split; [exact E|]. intros b axis o Hb Ho. apply variance_obs; [exact Hb| |exact Ho].
      apply (proj1 E). exact Hb.
    Qed.

    (** objects built by the constructor, and refreshed ones, have up-to-date caches *)
    Lemma refresh_fresh s : fresh (refresh K g s).
    Proof. unfold fresh. apply refresh_obs. intros; reflexivity. Qed.

    Lemma construct_fresh D : fresh (construct K g D).
    Proof. unfold construct. apply refresh_fresh. Qed.
  End Independence.
End MomentsP.
