(** * Lemmas about the PhaseSpace-moments model (Model/Moments.v). *)
From Coq Require Import List ZArith Ring Field Lia Bool QArith Qcanon.
From Inovesa Require Import Base.FieldKit Base.Sums Model.Moments.
Import ListNotations.

Lemma zrange_length n : length (zrange n) = Z.to_nat n.
Proof. unfold zrange. rewrite map_length, seq_length. reflexivity. Qed.

Lemma zrange_nth n i d : (0 <= i < n)%Z -> nth (Z.to_nat i) (zrange n) d = i.
Proof.
  intros H. unfold zrange.
  rewrite nth_indep with (d' := Z.of_nat 0) by (rewrite map_length, seq_length; lia).
  rewrite map_nth, seq_nth by lia. lia.
Qed.

Lemma tabA_get {A} (d : A) n f i : (0 <= i < n)%Z -> tabA d n f i = f i.
Proof.
  intros H. unfold tabA. destruct (0 <=? i)%Z eqn:E; [|lia].
  rewrite nth_indep with (d' := f 0%Z) by (rewrite map_length, zrange_length; lia).
  rewrite map_nth, zrange_nth by exact H. reflexivity.
Qed.

Section MomentsP.
  Variable K : Fld.
  Variable pos : K -> bool.
  Add Field KFm : (@Fth K).
  Local Open Scope F_scope.

  Notation geom := (geom K).
  Notation state := (state K).

  Lemma sumn_ext n (g h : Z -> K) :
    (forall i, (0 <= i < n)%Z -> g i = h i) -> sumn K n g = sumn K n h.
  Proof. intros H. unfold sumn. apply sumZ_ext. intros i Hi. apply H. lia. Qed.

  Lemma sumn_scale n (g : Z -> K) c : sumn K n (fun i => c * g i) = c * sumn K n g.
  Proof. unfold sumn. apply sumZ_scale. Qed.

  Lemma sumn_scale_r n (g : Z -> K) c : sumn K n (fun i => g i * c) = sumn K n g * c.
  Proof.
    rewrite (sumn_ext n _ (fun i => c * g i)) by (intros; ring).
    rewrite sumn_scale. ring.
  Qed.

  Lemma sumn_add n (g h : Z -> K) : sumn K n (fun i => g i + h i) = sumn K n g + sumn K n h.
  Proof. unfold sumn. apply sumZ_add. Qed.

  Lemma sumn_zero n (g : Z -> K) : (forall i, (0 <= i < n)%Z -> g i = 0) -> sumn K n g = 0.
  Proof. intros H. unfold sumn. apply sumZ_zero. intros i Hi. apply H. lia. Qed.

  Lemma tab2_get a b f i j : (0 <= i < a)%Z -> (0 <= j < b)%Z -> tab2 K a b f i j = f i j.
  Proof. intros Hi Hj. unfold tab2. rewrite tabA_get by exact Hi. apply tabA_get. exact Hj. Qed.

  Lemma tab3_get a b c f i j k :
    (0 <= i < a)%Z -> (0 <= j < b)%Z -> (0 <= k < c)%Z -> tab3 K a b c f i j k = f i j k.
  Proof. intros Hi Hj Hk. unfold tab3. rewrite tabA_get by exact Hi. apply tab2_get; assumption. Qed.

  (** ** what the three cache operations compute, cell by cell *)
  Section Ops.
    Variable g : geom.
    Let n := gn g.
    Let nb := gnb g.

    Definition PXf (D : Z -> Z -> Z -> K) (b x : Z) : K := sumn K n (fun y => D b x y * ws K g y).
    Definition PYf (D : Z -> Z -> Z -> K) (b y : Z) : K := sumn K n (fun x => D b x y * ws K g x).

    Lemma updateX_projx s b x : (0 <= b < nb)%Z -> (0 <= x < n)%Z ->
      sprojx (updateX K g s) b x = PXf (sdata s) b x.
    Proof. intros Hb Hx. unfold updateX. cbn [sprojx]. rewrite tab2_get by assumption. reflexivity. Qed.

    Lemma updateY_projy s b y : (0 <= b < nb)%Z -> (0 <= y < n)%Z ->
      sprojy (updateY K g s) b y = PYf (sdata s) b y.
    Proof. intros Hb Hy. unfold updateY. cbn [sprojy]. rewrite tab2_get by assumption. reflexivity. Qed.

    Lemma integrate_fill s b : (0 <= b < nb)%Z ->
      sfill (integrate K g s) b = sumn K n (fun x => sprojx s b x * ws K g x).
    Proof. intros Hb. unfold integrate. cbn [sfill]. rewrite tabA_get by assumption. reflexivity. Qed.

    Lemma integrate_int s : sint (integrate K g s) = sumn K nb (sfill (integrate K g s)).
    Proof. reflexivity. Qed.

    Lemma normalize_data s b x y : (0 <= b < nb)%Z -> (0 <= x < n)%Z -> (0 <= y < n)%Z ->
      sdata (normalize K pos g s) b x y =
      if pos (gfs g b) then sdata s b x y * (gfs g b / sfill s b) else 0.
    Proof. intros Hb Hx Hy. unfold normalize. cbn [sdata]. rewrite tab3_get by assumption. reflexivity. Qed.

    (** the measured (Simpson) charge of bunch b is linear in that bunch's data *)
    Lemma charge_of_scale D c b :
      charge_of K g (fun b x y => D b x y * c) b = charge_of K g D b * c.
    Proof.
      unfold charge_of.
      rewrite <- (sumn_scale_r (gn g) (fun x => sumn K (gn g) (fun y => D b x y * ws K g y) * ws K g x) c).
      apply sumn_ext. intros x Hx.
      rewrite (sumn_ext _ (fun y => D b x y * c * ws K g y) (fun y => D b x y * ws K g y * c))
        by (intros; ring).
      rewrite sumn_scale_r. ring.
    Qed.

    Lemma charge_of_ext D D' b :
      (forall x y, (0 <= x < n)%Z -> (0 <= y < n)%Z -> D b x y = D' b x y) ->
      charge_of K g D b = charge_of K g D' b.
    Proof.
      intros H. unfold charge_of. apply sumn_ext. intros x Hx. f_equal.
      apply sumn_ext. intros y Hy. rewrite H by assumption. reflexivity.
    Qed.

    (** filling measured by updateXProjection; integrate *)
    Lemma measured_fill s b : (0 <= b < nb)%Z ->
      sfill (integrate K g (updateX K g s)) b = charge_of K g (sdata s) b.
    Proof.
      intros Hb. rewrite integrate_fill by assumption. unfold charge_of. apply sumn_ext.
      intros x Hx. rewrite updateX_projx by assumption. reflexivity.
    Qed.

    (** *** normalisation *)
    Theorem normalize_restores_share s b :
      (0 <= b < nb)%Z -> pos (gfs g b) = true ->
      sfill s b = charge_of K g (sdata s) b ->       (* the cached filling is the measured one *)
      sfill s b <> 0 ->
      sfill (integrate K g (updateX K g (normalize K pos g s))) b = gfs g b.
    Proof.
      intros Hb Hp Hfresh Hnz. rewrite measured_fill by assumption.
      rewrite (charge_of_ext _ (fun b x y => sdata s b x y * (gfs g b / sfill s b))).
      2:{ intros x y Hx Hy. rewrite normalize_data by assumption. rewrite Hp. reflexivity. }
      rewrite (charge_of_scale (sdata s) (gfs g b / sfill s b) b) at 1.
      rewrite <- Hfresh. field. exact Hnz.
    Qed.

    Theorem normalize_empty_bucket s b :
      (0 <= b < nb)%Z -> pos (gfs g b) = false ->
      sfill (integrate K g (updateX K g (normalize K pos g s))) b = 0 /\
      (forall x y, (0 <= x < n)%Z -> (0 <= y < n)%Z -> sdata (normalize K pos g s) b x y = 0).
    Proof.
      intros Hb Hp. split.
      - rewrite measured_fill by assumption. unfold charge_of. apply sumn_zero. intros x Hx.
        rewrite (sumn_zero n) ; [ring|]. intros y Hy. rewrite normalize_data by assumption.
        rewrite Hp. ring.
      - intros x y Hx Hy. rewrite normalize_data by assumption. rewrite Hp. reflexivity.
    Qed.

    Theorem normalize_total s :
      (forall b, (0 <= b < nb)%Z -> pos (gfs g b) = true ->
                 sfill s b = charge_of K g (sdata s) b /\ sfill s b <> 0) ->
      sint (integrate K g (updateX K g (normalize K pos g s))) =
      sumn K nb (fun b => if pos (gfs g b) then gfs g b else 0).
    Proof.
      intros H. rewrite integrate_int. apply sumn_ext. intros b Hb.
      destruct (pos (gfs g b)) eqn:Hp.
      - destruct (H b Hb Hp) as [Hf Hnz]. apply normalize_restores_share; assumption.
      - apply normalize_empty_bucket; assumption.
    Qed.

    Corollary normalize_total_one s :
      (forall b, (0 <= b < nb)%Z -> pos (gfs g b) = true ->
                 sfill s b = charge_of K g (sdata s) b /\ sfill s b <> 0) ->
      (forall b, (0 <= b < nb)%Z -> pos (gfs g b) = false -> gfs g b = 0) ->
      sumn K nb (gfs g) = 1 ->
      sint (integrate K g (updateX K g (normalize K pos g s))) = 1.
    Proof.
      intros H Hz H1. rewrite normalize_total by exact H. rewrite <- H1. apply sumn_ext.
      intros b Hb. destruct (pos (gfs g b)) eqn:Hp; [reflexivity|]. symmetry. apply Hz; assumption.
    Qed.
  End Ops.
End MomentsP.
