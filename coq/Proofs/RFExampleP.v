(** * A concrete instance of the hypotheses of the grid theorems of C03 (non-vacuity):
      8 x 8 grid, one bunch, linear interpolation, t = a = 1/4, zero bins at (7/2, 7/2),
      four non-zero cells around the centre. *)
From Coq Require Import List ZArith QArith Qcanon Lia Bool.
From Inovesa Require Import Base.FieldKit Base.Sums Base.Float32 Gen.Gen_Coeffs Model.Kick Model.RF
  Proofs.WeightsP Proofs.KickP Proofs.KickGridP Proofs.RFP Proofs.RFGridP.
Import ListNotations.
Local Open Scope Z_scope.

Definition ex_t : Qc := Q2Qc (1 # 4).
Definition ex_a : Qc := Q2Qc (1 # 4).
Definition ex_c : Qc := Q2Qc (7 # 2).
Definition ex_orf : Z -> Qc := rf_offsets (K:=QcF) 8 (rf_lin (K:=QcF) ex_t ex_c 0%Qc 1%Qc 1%Qc 1%Qc).
Definition ex_odr : Z -> Qc :=
  drift_offsets (K:=QcF) 8 (fun y => drift_off (K:=QcF) [ex_a] 1%Qc 1%Qc 1%Qc
                                      (ruler_at (K:=QcF) (Q2Qc (-7 # 2)) 1%Qc y)).
Definition ex_D : Z -> Qc :=
  fun i => if i =? 27 then 1%Qc else if i =? 28 then Q2Qc 2 else if i =? 35 then Q2Qc 3
           else if i =? 36 then 1%Qc else 0%Qc.

Ltac cases8 x Hx :=
  let C := fresh in
  assert (C : x = 0 \/ x = 1 \/ x = 2 \/ x = 3 \/ x = 4 \/ x = 5 \/ x = 6 \/ x = 7) by lia;
  destruct C as [->|[->|[->|[->|[->|[->|[->| ->]]]]]]].

Ltac outside i Hi E :=
  apply andb_true_iff in E; destruct E as [E1 E2]; apply Z.leb_le in E1; apply Z.ltb_lt in E2;
  let C := fresh in
  assert (C : i = 0 \/ i = 1 \/ i = 2 \/ i = 5 \/ i = 6 \/ i = 7) by lia;
  destruct C as [->|[->|[->|[->|[->| ->]]]]]; apply Qc_is_canon; vm_compute; reflexivity.

Lemma ex_rf_field b x : 0 <= b < 1 -> 0 <= x < 8 ->
  eff_off 8 (ex_orf (Z.min b (1 - 1) * 8 + x)) = (ex_t * (ex_c - qz x))%Qc.
Proof.
  intros Hb Hx. replace b with 0 by lia. cases8 x Hx; apply Qc_is_canon; vm_compute; reflexivity.
Qed.

Lemma ex_drift_field y : 0 <= y < 8 -> eff_off 8 (ex_odr y) = (ex_a * (qz y - ex_c))%Qc.
Proof. intros Hy. cases8 y Hy; apply Qc_is_canon; vm_compute; reflexivity. Qed.

Lemma ex_row_ok (o : Qc) (r : Z -> Qc) (jd : Z) :
  sp_int (poffs_split 8 o) = jd -> 3 <= jd <= 4 -> suppQ r 3 5 -> row_ok 8 2 o r.
Proof.
  intros J Hj Hs. unfold row_ok. cbv zeta. rewrite J. change (centre 2) with 0. change (8 / 2) with 4.
  split; [lia|]. split; [lia|]. exists 3, 5. repeat split; try lia. exact Hs.
Qed.

Lemma ex_step_ok : step_ok 8 1 2 ex_orf ex_odr ex_D 0.
Proof.
  split.
  - intros x Hx. change (Z.min 0 (1 - 1) * 8 + x) with (0 * 8 + x). rewrite Z.mul_0_l, Z.add_0_l.
    assert (S : suppQ (rowY 8 ex_D 0 x) 3 5).
    { intros i Hi. unfold rowY, clip. destruct ((0 <=? i) && (i <? 8))%bool eqn:E; [|reflexivity].
      cases8 x Hx; outside i Hi E. }
    cases8 x Hx;
      (eapply ex_row_ok; [vm_compute; reflexivity | lia | exact S]).
  - intros y Hy.
    assert (S : suppQ (colX 8 (rf_apply 8 1 2 ex_orf ex_D) 0 y) 3 5).
    { intros i Hi. unfold colX, clip. destruct ((0 <=? i) && (i <? 8))%bool eqn:E; [|reflexivity].
      cases8 y Hy; outside i Hi E. }
    cases8 y Hy;
      (eapply ex_row_ok; [vm_compute; reflexivity | lia | exact S]).
Qed.

Lemma ex_charge : M0 8 ex_D 0 <> 0%Qc.
Proof. intro H. apply (f_equal this) in H. vm_compute in H. discriminate H. Qed.

(** the centre of charge (-1/14, 1/14) moves to M (-1/14, 1/14) *)
Lemma ex_centroid_step :
  centre_of_charge 8 ex_c ex_c (rf_drift_step 8 1 2 ex_orf ex_odr ex_D) 0 =
  mat_apply (K:=QcF) (Mstep (K:=QcF) ex_t ex_a) (centre_of_charge 8 ex_c ex_c ex_D 0).
Proof.
  apply (centroid_step 8 1 2); try lia.
  - right; left; reflexivity.
  - exact ex_rf_field.
  - exact ex_drift_field.
  - exact ex_step_ok.
  - exact ex_charge.
Qed.
