(** * A concrete instance of the hypotheses of the full-step theorem of C04 (non-vacuity):
      8 x 8 grid, one bunch, quadratic interpolation (it = 3), t = a = 1/4, zero bins at (7/2, 7/2),
      energy axis p_j = (j - 7/2)/2, e1 = 1/8, full Fokker-Planck type; two non-zero cells (3,3), (3,4): the quadratic
      stencils of the two kicks spread them over rows and columns 2..5, inside the interior the Fokker-Planck step needs. *)
From Coq Require Import List ZArith QArith Qcanon Lia Bool.
From Inovesa Require Import Base.FieldKit Base.Sums Base.Float32 Gen.Gen_Coeffs Gen.Gen_FPStencil
  Model.Kick Model.RF Model.FokkerPlanck Model.Moments2
  Proofs.WeightsP Proofs.KickP Proofs.KickGridP Proofs.RFP Proofs.RFGridP Proofs.RFExampleP
  Proofs.Moment2RowP Proofs.FPGridP Proofs.FokkerPlanckP Proofs.StepMoments2P.
Import ListNotations.
Local Open Scope Z_scope.

Definition ex_D2 : Z -> Qc := fun i => if i =? 27 then 1%Qc else if i =? 28 then Q2Qc 2 else 0%Qc.
Definition ex_e1 : Qc := Q2Qc (1 # 8).
Definition ex_delta : Qc := Q2Qc (1 # 2).
Definition ex_p (j : Z) : Qc := (ex_delta * (qz j - ex_c))%Qc.

Lemma ex_row_ok3 (o : Qc) (r : Z -> Qc) (jd : Z) :
  sp_int (poffs_split 8 o) = jd -> 3 <= jd <= 4 -> suppQ r 3 5 -> row_ok 8 3 o r.
Proof.
  intros J Hj Hs. unfold row_ok. cbv zeta. rewrite J. change (centre 3) with 1. change (8 / 2) with 4.
  split; [lia|]. split; [lia|]. exists 3, 5. repeat split; try lia. exact Hs.
Qed.

Ltac outside4 i Hi E :=
  apply andb_true_iff in E; destruct E as [E1 E2]; apply Z.leb_le in E1; apply Z.ltb_lt in E2;
  let C := fresh in
  assert (C : i = 0 \/ i = 1 \/ i = 6 \/ i = 7) by lia;
  destruct C as [->|[->|[->| ->]]]; apply Qc_is_canon; vm_compute; reflexivity.

Lemma ex_step_ok3 : step_ok 8 1 3 ex_orf ex_odr ex_D2 0.
Proof.
  split.
  - intros x Hx. change (Z.min 0 (1 - 1) * 8 + x) with (0 * 8 + x). rewrite Z.mul_0_l, Z.add_0_l.
    assert (S : suppQ (rowY 8 ex_D2 0 x) 3 5).
    { intros i Hi. unfold rowY, clip. destruct ((0 <=? i) && (i <? 8))%bool eqn:E; [|reflexivity].
      cases8 x Hx; outside i Hi E. }
    cases8 x Hx;
      (eapply ex_row_ok3; [vm_compute; reflexivity | lia | exact S]).
  - intros y Hy.
    assert (S : suppQ (colX 8 (rf_apply 8 1 3 ex_orf ex_D2) 0 y) 3 5).
    { intros i Hi. unfold colX, clip. destruct ((0 <=? i) && (i <? 8))%bool eqn:E; [|reflexivity].
      cases8 y Hy; outside i Hi E. }
    cases8 y Hy;
      (eapply ex_row_ok3; [vm_compute; reflexivity | lia | exact S]).
Qed.

Lemma ex_fp_ok3 : fp_ok 8 (rf_drift_step 8 1 3 ex_orf ex_odr ex_D2) 0.
Proof.
  intros x Hx i Hi. unfold rowY, clip. destruct ((0 <=? i) && (i <? 8))%bool eqn:E; [|reflexivity].
  cases8 x Hx; outside4 i Hi E.
Qed.

Lemma ex_full_ok : full_ok 8 1 3 ex_orf ex_odr ex_D2 0.
Proof. split; [exact ex_step_ok3 | exact ex_fp_ok3]. Qed.

Lemma ex_p_axis j : ex_p j = (ex_delta * (qz j - ex_c))%Qc.
Proof. reflexivity. Qed.

Lemma ex_delta_nz : ex_delta <> 0%Qc.
Proof. discriminate. Qed.

(** the moment vector of the example moves by the recurrence *)
Lemma ex_full_step :
  gm2_list 8 ex_c ex_c (full_step 8 1 3 ex_orf ex_odr ex_e1 ex_delta ex_p fpt_full 0 0 ex_D2) 0 =
  smq_step fpt_full ex_a ex_t ex_e1 ex_delta (gm2_list 8 ex_c ex_c ex_D2 0).
Proof.
  apply (full_step_moments_list 8 1 3); try lia.
  - right; right; left; reflexivity.
  - exact ex_rf_field.
  - exact ex_drift_field.
  - exact ex_p_axis.
  - exact ex_delta_nz.
  - exact ex_full_ok.
Qed.

(** and its value, computed *)
Lemma ex_full_step_value :
  map this (gm2_list 8 ex_c ex_c (full_step 8 1 3 ex_orf ex_odr ex_e1 ex_delta ex_p fpt_full 0 0 ex_D2) 0) =
  map this (smq_step fpt_full ex_a ex_t ex_e1 ex_delta [Q2Qc (3 # 4); Q2Qc (-1 # 4); Q2Qc (3 # 4); Q2Qc 3]).
Proof. vm_compute. reflexivity. Qed.
