(** Statements of Props/Properties_C10.v assembled from the lemmas of RecordsP/H5UnitsP. *)
From Coq Require Import List ZArith QArith Qcanon Bool.
From Inovesa Require Import Base.FieldKit Model.Records Model.H5Units Gen.Gen_H5Units Proofs.RecordsP Proofs.H5UnitsP Proofs.H5UnitsGenP.
Import ListNotations.
Local Open Scope Z_scope.

Lemma record_counts_agree_c10 :
  forall c stop d, 0 <= stop -> same_as_time c d = true ->
    records d (run c stop) = records DT (run c stop).
Proof. intros c stop d Hs H. rewrite (time_tags c stop d Hs H). symmetry. apply time_tags; [exact Hs|reflexivity]. Qed.

Lemma phase_space_counts_agree_c10 :
  forall c stop, 0 <= stop -> records DPSData (run c stop) = records DPSAxis (run c stop).
Proof. intros c stop Hs. rewrite !ps_tags by (try exact Hs; reflexivity). reflexivity. Qed.

Lemma padded_exactly_two_c10 :
  forall c stop d, 0 <= stop -> d = DPadProfile \/ d = DPadPotential ->
    records d (run c stop) = if haswake c then [0; stop] else [].
Proof. exact padded_tags. Qed.

Lemma no_wake_no_wake_records_c10 :
  forall c stop, 0 <= stop -> haswake c = false -> records DWake (run c stop) = [].
Proof. exact wake_tags_nowake. Qed.

Lemma time_axis_schedule_c10 :
  forall c stop, 0 <= stop ->
    records DT (run c stop) = filter (fun k => (0 <? outstep c) && (k mod outstep c =? 0)) (zrange stop) ++ [stop].
Proof. intros c stop Hs. apply (time_tags c stop DT Hs). reflexivity. Qed.

Lemma ps_axis_schedule_c10 :
  forall c stop, 0 <= stop ->
    records DPSAxis (run c stop) =
    (if save c =? 0 then [0] else []) ++
    filter (fun k => (0 <? outstep c) && (k mod outstep c =? 0) && (0 <? save c)
                     && ((k / outstep c) mod save c =? 0)) (zrange stop) ++ [stop].
Proof.
  intros c stop Hs. rewrite (ps_tags c stop DPSAxis Hs eq_refl), (every_closed c stop Hs). reflexivity.
Qed.

Lemma dataset_rows_are_bunches_c10 :
  forall nb W S, 0 < W <= S -> 0 <= nb ->
    ((forall (file src : list Z) r b i, 0 <= r -> Z.of_nat (length file) = r * nb * W ->
        Z.of_nat (length src) = nb * S -> 0 <= b < nb -> 0 <= i < W ->
        file_elt 0 nb W (append_data [nb; W] file src) r b i = mem_elt 0 S src b i)
     <-> (W = S \/ nb <= 1)).
Proof.
  intros nb W S HW Hnb. split; [apply rows_are_bunches_only_if; assumption|].
  intros H file src r b i Hr Hf _ Hb Hi. apply rows_are_bunches_if; assumption.
Qed.

Lemma all_datasets_rows_ok_c10 :
  forall z d, rows_ok (file_inner z d) (mem_inner z d) = true.
Proof.
  intros z d. destruct d; cbn [rows_ok file_inner mem_inner];
    rewrite ?Z.eqb_refl, ?Bool.orb_true_r; cbn; rewrite ?Z.eqb_refl, ?Bool.orb_true_r; reflexivity.
Qed.

Lemma csr_spectrum_rows_are_bunches_c10 :
  forall (A : Type) (d : A) nb S W (file src : list A) r b i,
    0 <= W <= S -> nb * S <= Z.of_nat (length src) -> 0 <= r ->
    Z.of_nat (length file) = r * nb * W -> 0 <= b < nb -> 0 <= i < W ->
    file_elt d nb W (append_data [nb; W] file (gather_rows nb S W src)) r b i = mem_elt d S src b i.
Proof. intros A. exact (@gathered_rows_are_bunches A). Qed.

Lemma csr_spectrum_direct_append_refuted_c10 :
  exists z (src : list Z) b i,
    rows_ok (file_inner z DCsrSpectrum) (mem_inner_direct z DCsrSpectrum) = false /\
    0 <= b < s_nb z /\ 0 <= i < s_nmax z / 2 /\
    file_elt 0 (s_nb z) (s_nmax z / 2) (append_data (file_inner z DCsrSpectrum) [] src) 0 b i
    <> mem_elt 0 (s_nmax z) src b i.
Proof.
  exists (mkSizes 2 16 4 8 0), [10; 11; 12; 13; 20; 21; 22; 23], 1, 0.
  vm_compute. repeat split; congruence.
Qed.

Lemma axes_are_the_grid_c10 :
  forall (K : Fld) n (pq sx sy : K),
    stored_axis K axis_source n pq sx sy AxZ = grid_axis K n pq sx /\
    stored_axis K axis_source n pq sx sy AxE = grid_axis K n pq sy.
Proof. intros. split; reflexivity. Qed.

Lemma axes_are_the_grid_pinned_refuted_c10 :
  exists n (pq sx sy : QcF),
    stored_axis QcF axis_source_pinned n pq sx sy AxE <> grid_axis QcF n pq sy.
Proof.
  exists 3, (Q2Qc 12), (Q2Qc 3), (Q2Qc (-2)). vm_compute. intros H. discriminate H.
Qed.

Lemma unit_meter_c10 :
  forall (K : Fld) (c E0 sE H frev Veff fs alpha0 tpi : K),
    c <> f0 -> E0 <> f0 -> sE <> f0 -> H <> f0 -> frev <> f0 -> Veff <> f0 -> fs <> f0 -> tpi <> f0 -> alpha0 <> f0 ->
    (fs * fs = frev * frev * (alpha0 * H * Veff / (tpi * E0)))%F ->
    a_Meter K c E0 sE H frev Veff fs = (c * sE * alpha0 / (tpi * fs))%F /\
    a_Meter K c E0 sE H frev Veff fs = (c * sE * E0 * fs / (H * frev * frev * Veff))%F /\
    (a_Second_z K c E0 sE H frev Veff fs * c)%F = a_Meter K c E0 sE H frev Veff fs /\
    (a_Hertz K c E0 sE H frev Veff fs * a_Meter K c E0 sE H frev Veff fs)%F = c.
Proof.
  intros K c E0 sE H frev Veff fs alpha0 tpi c_nz E0_nz sE_nz H_nz frev_nz Veff_nz fs_nz Hp Ha Hfs.
  repeat split.
  - apply meter_is_natural_bunch_length; assumption.
  - apply meter_formula; assumption.
  - apply second_z_formula; assumption.
  - apply hertz_formula; assumption.
Qed.

Lemma unit_time_charge_energy_c10 :
  forall (K : Fld) (E0 sE frev fs Ib : K), frev <> f0 -> fs <> f0 ->
    a_ElectronVolt K E0 sE = (sE * E0)%F /\
    (a_Second_t K fs * fs)%F = f1 /\
    a_Turn K frev fs = (frev / fs)%F /\ a_Turn K frev fs = (a_Second_t K fs * frev)%F /\
    a_Ampere K Ib = Ib /\ (a_Coulomb K frev Ib * frev)%F = a_Ampere K Ib.
Proof.
  intros K E0 sE frev fs Ib Hf Hs.
  split; [reflexivity|]. split; [apply second_t_formula; assumption|].
  split; [apply (proj1 (turn_formula K frev fs Hs))|]. split; [apply (proj2 (turn_formula K frev fs Hs))|].
  split; [reflexivity|]. apply (proj2 (ampere_coulomb K frev Ib Hf)).
Qed.

Lemma unit_volt_watt_c10 :
  forall (K : Fld) (c E0 sE H frev Veff fs steps Ib deltaE ohm : K),
    c <> f0 -> E0 <> f0 -> sE <> f0 -> H <> f0 -> frev <> f0 -> Veff <> f0 -> fs <> f0 -> steps <> f0 ->
    a_Volt K E0 sE frev fs steps deltaE = (deltaE * sE * E0 * fs * steps / frev)%F /\
    (a_Volt K E0 sE frev fs steps deltaE * a_Turn K frev fs)%F = (deltaE * a_ElectronVolt K E0 sE * steps)%F /\
    a_WattPerHertz K frev Ib ohm = (two * ohm * Ib * Ib / frev)%F /\
    a_Watt K c E0 sE H frev Veff fs Ib ohm = (a_WattPerHertz K frev Ib ohm * a_Hertz K c E0 sE H frev Veff fs)%F /\
    (a_Watt K c E0 sE H frev Veff fs Ib ohm * a_Meter K c E0 sE H frev Veff fs * frev)%F = (two * ohm * Ib * Ib * c)%F.
Proof.
  intros K c E0 sE H frev Veff fs steps Ib deltaE ohm c_nz E0_nz sE_nz H_nz frev_nz Veff_nz fs_nz st_nz.
  destruct (volt_formula K E0 sE frev fs steps deltaE frev_nz fs_nz st_nz) as [V1 V2].
  destruct (watt_formula K c E0 sE H frev Veff fs Ib ohm c_nz E0_nz sE_nz H_nz frev_nz Veff_nz fs_nz) as [W1 [W2 W3]].
  repeat split; assumption.
Qed.

Lemma units_match_source_c10 :
  forall (K : Fld) (c E0 sE H frev Veff fs steps Ib deltaE ohm : K),
    c <> f0 -> E0 <> f0 -> sE <> f0 -> H <> f0 -> frev <> f0 -> Veff <> f0 -> fs <> f0 -> steps <> f0 ->
    a_Second_z K c E0 sE H frev Veff fs = gen_Second_z K (a_Meter K c E0 sE H frev Veff fs) c /\
    a_Turn K frev fs = gen_Turn K (t_sync K fs) frev /\
    a_Hertz K c E0 sE H frev Veff fs = gen_Hertz K (a_Meter K c E0 sE H frev Veff fs) c /\
    a_Volt K E0 sE frev fs steps deltaE
      = gen_Volt K deltaE (a_ElectronVolt K E0 sE) (revolutionpart K frev fs steps) /\
    a_WattPerHertz K frev Ib ohm = gen_WattPerHertz K ohm Ib frev /\
    a_Watt K c E0 sE H frev Veff fs Ib ohm = gen_Watt K ohm Ib frev (a_Hertz K c E0 sE H frev Veff fs).
Proof. intros. apply units_match_source; assumption. Qed.
