(** C20: precedence, aliases, ignored options, errors - for every option table and parse program
    accepted by [checker] (proof by reflection: Props only has to evaluate the checker on the
    generated table). *)
From Coq Require Import List String ZArith Bool Lia.
From Inovesa Require Import Model.OptionsTypes Model.Options Proofs.OptionsP.
Import ListNotations.
Local Open Scope list_scope.

Definition is_canon (o : opt) : bool := match o_kind o with KCanon => true | _ => false end.
Definition is_ignored (o : opt) : bool := match o_kind o with KIgnored => true | _ => false end.
Definition has (x : option tok) : bool := match x with Some _ => true | None => false end.

(** the alias list of a parse program of the expected shape *)
Definition prog_aliases (P : prog) : list (string * string) :=
  match p_cfg P with [StoreCfg; FoldAliases al; Notify] => al | _ => [] end.

Definition prog_shape (P : prog) : option (list (string * string)) :=
  match p_cli P, p_cfg P with
  | [StoreCli; Notify], [StoreCfg; FoldAliases al; Notify] => Some al
  | _, _ => None
  end.

Lemma prog_shape_some P al :
  prog_shape P = Some al -> p_cli P = [StoreCli; Notify] /\ p_cfg P = [StoreCfg; FoldAliases al; Notify].
Proof.
  unfold prog_shape.
  destruct (p_cli P) as [|[] [|[] [|]]]; try discriminate;
    destruct (p_cfg P) as [|[] [|[] [|[] [|]]]]; try discriminate.
  intro H. injection H as <-. auto.
Qed.

Section Thm.
  Variable T : list opt.
  Variable wf : cty -> tok -> bool.
  Notation find_opt := (find_opt T).

  (* -------------------------------------------------------------------------------------- *)
  (** * the checker *)
  Definition alias_ok (ac : string * string) : bool :=
    match find_opt (fst ac), find_opt (snd ac) with
    | Some oa, Some oc =>
      negb (o_cli oa) && o_file oa
      && match o_kind oa with KAlias c' => String.eqb c' (snd ac) | _ => false end
      && is_canon oc && o_cli oc && has (o_defcli oc)
      && String.eqb (o_var oa) (o_var oc) && cty_eqb (o_ty oa) (o_ty oc) && typed oa
      && negb (has (o_defcli oa)) && negb (has (o_deffile oa))
      && o_file oc                       (* the current name is accepted where the legacy name is: in the file *)
    | _, _ => false
    end.

  (** every other typed option bound to the member of [o] is a registered alias *)
  Definition owner_ok (al : list (string * string)) (o : opt) : bool :=
    forallb (fun o' => String.eqb (o_name o') (o_name o) || negb (typed o')
                       || negb (String.eqb (o_var o') (o_var o)) || mem (o_name o') (map fst al)) T.

  Definition canon_ok (al : list (string * string)) (o : opt) : bool :=
    negb (is_canon o && typed o)
    || (o_cli o && owner_ok al o && (has (o_defcli o) || negb (has (o_deffile o)))
        && negb (mem (o_name o) (map fst al))).

  (** ignored options: file only, and their members are read by no current option *)
  Definition ignored_ok (o : opt) : bool :=
    negb (is_ignored o)
    || (negb (o_cli o) && forallb (fun o' => is_ignored o' || negb (typed o') || negb (String.eqb (o_var o') (o_var o))) T).

  Definition checker (P : prog) : bool :=
    nodupb (map o_name T) && sorted_names T && p_nopos P &&
    match prog_shape P with
    | Some al =>
      nodupb (map fst al ++ map snd al) && forallb alias_ok al
      && forallb (fun o => match o_kind o with
                           | KAlias c => existsb (fun ac => String.eqb (fst ac) (o_name o) && String.eqb (snd ac) c) al
                           | _ => true end) T
      && forallb (canon_ok al) T && forallb ignored_ok T
    | None => false
    end.

  (* -------------------------------------------------------------------------------------- *)
  (** * the specification: command line > config file (current name, else legacy name) > default *)
  Definition dflt_tokens (o : opt) : option (list tok) := option_map (fun d => [d]) (o_defcli o).

  Definition alias_of (al : list (string * string)) (c : string) : option string :=
    option_map fst (find (fun ac => String.eqb (snd ac) c) al).

  Definition spec_value (al : list (string * string)) (items citems : list item) (o : opt) : option (list tok) :=
    let c := o_name o in
    if occurs c items then Some (collect T true c items)
    else if occurs c citems then Some (collect T false c citems)
    else match alias_of al c with
         | Some a => if occurs a citems then Some (collect T false a citems) else dflt_tokens o
         | None => dflt_tokens o
         end.

  (** the file parse() reads, as a function of the resolved command line *)
  Definition cfg_given (P : prog) (items : list item) : option (list tok) :=
    if occurs (p_cfgopt P) items then Some (collect T true (p_cfgopt P) items)
    else match find_opt (p_cfgopt P) with
         | Some o => if o_cli o then dflt_tokens o else None
         | None => None
         end.

  Definition source (P : prog) (items : list item) (fs : tok -> fsent) (dflt : fsent) : fsent * bool :=
    match cfg_given P items with Some [t] => (fs t, true) | _ => (dflt, false) end.

  Definition loaded (P : prog) (items : list item) (fs : tok -> fsent) (dflt : fsent) : list item :=
    match fst (source P items fs dflt) with FFile ci => ci | _ => [] end.

  (* -------------------------------------------------------------------------------------- *)
  Definition dentry (incli : bool) (n : string) : option entry :=
    match find_opt n with
    | Some o => if in_grp incli o then option_map (fun d => ([d], true)) (def_of incli o) else None
    | None => None
    end.

  Lemma add_defaults_form incli vm n :
    add_defaults T incli vm n = match vm n with Some e => Some e | None => dentry incli n end.
  Proof. reflexivity. Qed.

  Lemma phase1_form items vmA :
    store_items T wf true (fun _ => false) items (fun _ => None) = Some vmA ->
    forall n, add_defaults T true vmA n =
              if occurs n items then Some (collect T true n items, false) else dentry true n.
  Proof.
    intros H n. rewrite add_defaults_form, (store_items_spec T wf _ _ _ _ _ H n).
    cbn [orb expl ovl app]. now destruct (occurs n items).
  Qed.

  Lemma not_cli_not_occurs items a oa :
    NoDup (map o_name T) ->
    (forall n t, In (n, t) items -> cli_name T n) ->
    find_opt a = Some oa -> o_cli oa = false -> occurs a items = false.
  Proof.
    intros ND HC Fa Ca. apply not_true_is_false. intro Oc.
    unfold occurs in Oc. apply existsb_exists in Oc as ([n t] & HI & E).
    cbn in E. apply String.eqb_eq in E. subst n.
    destruct (HC _ _ HI) as (o & Io & Co & No).
    pose proof (find_opt_unique T o ND Io) as F. rewrite No, Fa in F. injection F as ->. congruence.
  Qed.

  Section Good.
    Variable al : list (string * string).
    Hypothesis ND : NoDup (map o_name T).
    Hypothesis NDal : NoDup (map fst al ++ map snd al).
    Hypothesis ALok : forall ac, In ac al -> alias_ok ac = true.
    Hypothesis CANok : forall o, In o T -> canon_ok al o = true.

    Lemma al_disjoint a c : In (a, c) al -> ~ In a (map snd al) /\ ~ In c (map fst al).
    Proof.
      intro HI. split; intro X.
      - apply in_map_iff in X as ([a' c'] & E & HI'). cbn in E. subst c'.
        apply (in_map fst) in HI. cbn in HI. apply (in_map snd) in HI'. cbn in HI'.
        revert NDal HI HI'. generalize (map fst al) (map snd al). intros l1 l2 N I1 I2.
        induction l1 as [|x l1 IH]; [contradiction|].
        cbn in N. inversion N; subst. destruct I1 as [->|I1].
        + apply H1. apply in_or_app. auto.
        + auto.
      - apply in_map_iff in X as ([a' c'] & E & HI'). cbn in E. subst a'.
        apply (in_map snd) in HI. cbn in HI. apply (in_map fst) in HI'. cbn in HI'.
        revert NDal HI HI'. generalize (map fst al) (map snd al). intros l1 l2 N I2 I1.
        induction l1 as [|x l1 IH]; [contradiction|].
        cbn in N. inversion N; subst. destruct I1 as [->|I1].
        + apply H1. apply in_or_app. auto.
        + auto.
    Qed.

    Lemma alias_of_in c a : alias_of al c = Some a -> In (a, c) al.
    Proof.
      unfold alias_of. destruct (find _ al) as [[a' c']|] eqn:F; [|discriminate].
      cbn. intro H. injection H as <-. apply find_some in F as [F1 F2]. cbn in F2.
      apply String.eqb_eq in F2. now subst.
    Qed.

    Lemma alias_of_none c : alias_of al c = None -> ~ In c (map snd al).
    Proof.
      unfold alias_of. destruct (find _ al) eqn:F; [discriminate|]. intros _ X.
      apply in_map_iff in X as ([a' c'] & E & HI). cbn in E. subst c'.
      pose proof (find_none _ _ F _ HI) as Z. cbn in Z. now rewrite String.eqb_refl in Z.
    Qed.

    (** state of the variables map after the command line alone, and after the config file *)
    Section Run.
      Variables (items citems : list item) (vmA vmB : vmap).
      Hypothesis CLI : forall n t, In (n, t) items -> cli_name T n.
      Hypothesis SA : store_items T wf true (fun _ => false) items (fun _ => None) = Some vmA.
      Let vm1 := add_defaults T true vmA.
      Let fin1 := fun n => false || mem n (map fst items).
      Hypothesis SB : store_items T wf false fin1 citems vm1 = Some vmB.
      Let vm2 := add_defaults T false vmB.
      Let vm3 := fold_left fold_alias al vm2.

      Lemma vm1_alias a c : In (a, c) al -> vm1 a = None /\ occurs a items = false.
      Proof.
        intro HI. pose proof (ALok _ HI) as A. unfold alias_ok in A. cbn [fst snd] in A.
        destruct (find_opt a) as [oa|] eqn:Fa; [|discriminate].
        destruct (find_opt c) as [oc|] eqn:Fc; [|discriminate].
        repeat (apply andb_prop in A as [A ?]).
        apply negb_true_iff in A.
        assert (O : occurs a items = false) by (eapply not_cli_not_occurs; eauto).
        split; [|assumption]. unfold vm1. rewrite (phase1_form _ _ SA), O.
        unfold dentry. rewrite Fa. cbn [in_grp]. now rewrite A.
      Qed.

      Lemma vm2_form n :
        vm2 n = if occurs n items then vm1 n
                else if occurs n citems then Some (ovl (expl (vm1 n)) ++ collect T false n citems, false)
                     else match vm1 n with Some e => Some e | None => dentry false n end.
      Proof.
        unfold vm2. rewrite add_defaults_form, (store_items_spec T wf _ _ _ _ _ SB n).
        unfold fin1. cbn [orb]. rewrite mem_occurs.
        destruct (occurs n items) eqn:O1; cbn [orb].
        - unfold vm1. rewrite (phase1_form _ _ SA), O1. reflexivity.
        - destruct (occurs n citems); cbn [negb]; reflexivity.
      Qed.

      Lemma vm2_alias a c : In (a, c) al ->
        vm2 a = if occurs a citems then Some (collect T false a citems, false) else None.
      Proof.
        intro HI. destruct (vm1_alias _ _ HI) as [V O]. rewrite vm2_form, O, V. cbn [expl ovl app].
        destruct (occurs a citems); [reflexivity|].
        pose proof (ALok _ HI) as A. unfold alias_ok in A. cbn [fst snd] in A.
        unfold dentry. destruct (find_opt a) as [oa|] eqn:Fa; [|reflexivity].
        destruct (find_opt c) as [oc|] eqn:Fc; [|discriminate].
        repeat (apply andb_prop in A as [A ?]).
        destruct (in_grp false oa); [|reflexivity]. cbn [def_of].
        destruct (o_deffile oa); [discriminate|reflexivity].
      Qed.

      (** a canonical, typed option *)
      Section Canon.
        Variable o : opt.
        Hypothesis Io : In o T.
        Hypothesis Co : is_canon o = true.
        Hypothesis To : typed o = true.

        Lemma canon_facts :
          o_cli o = true /\ owner_ok al o = true /\ (has (o_defcli o) || negb (has (o_deffile o))) = true
          /\ ~ In (o_name o) (map fst al).
        Proof.
          pose proof (CANok _ Io) as C. unfold canon_ok in C. rewrite Co, To in C. cbn in C.
          repeat (apply andb_prop in C as [C ?]).
          repeat split; try assumption. apply mem_false. now apply negb_true_iff.
        Qed.

        Lemma vm1_canon :
          vm1 (o_name o) = if occurs (o_name o) items then Some (collect T true (o_name o) items, false)
                           else option_map (fun d => ([d], true)) (o_defcli o).
        Proof.
          unfold vm1. rewrite (phase1_form _ _ SA).
          destruct (occurs (o_name o) items); [reflexivity|].
          unfold dentry. rewrite (find_opt_unique T o ND Io). cbn [in_grp def_of].
          destruct canon_facts as (C & _). now rewrite C.
        Qed.

        Lemma vm2_canon :
          vm2 (o_name o) =
          if occurs (o_name o) items then Some (collect T true (o_name o) items, false)
          else if occurs (o_name o) citems then Some (collect T false (o_name o) citems, false)
               else option_map (fun d => ([d], true)) (o_defcli o).
        Proof.
          rewrite vm2_form, vm1_canon.
          destruct (occurs (o_name o) items); [reflexivity|].
          destruct (occurs (o_name o) citems).
          - now destruct (o_defcli o).
          - destruct (o_defcli o) eqn:D; [reflexivity|]. cbn [option_map].
            unfold dentry. rewrite (find_opt_unique T o ND Io).
            destruct canon_facts as (_ & _ & Df & _). rewrite D in Df. cbn in Df.
            apply negb_true_iff in Df. destruct (in_grp false o); [|reflexivity].
            cbn [def_of]. destruct (o_deffile o); [discriminate|reflexivity].
        Qed.

        Lemma vm3_canon :
          option_map fst (vm3 (o_name o)) = spec_value al items citems o.
        Proof.
          unfold spec_value. destruct canon_facts as (_ & _ & _ & NF).
          destruct (alias_of al (o_name o)) as [a|] eqn:AO.
          - apply alias_of_in in AO. unfold vm3. rewrite (fold_alias_snd _ _ _ _ NDal AO).
            unfold alias_result. rewrite (vm2_alias _ _ AO), vm2_canon.
            destruct (occurs (o_name o) items); [now destruct (occurs a citems)|].
            destruct (occurs (o_name o) citems); [now destruct (occurs a citems)|].
            pose proof (ALok _ AO) as A. unfold alias_ok in A. cbn [fst snd] in A.
            destruct (find_opt a) as [oa|]; [|discriminate].
            rewrite (find_opt_unique T o ND Io) in A.
            repeat (apply andb_prop in A as [A ?]).
            unfold dflt_tokens. destruct (o_defcli o); [|discriminate].
            now destruct (occurs a citems).
          - apply alias_of_none in AO. unfold vm3. rewrite (fold_alias_other _ _ _ NF AO), vm2_canon.
            destruct (occurs (o_name o) items); [reflexivity|].
            destruct (occurs (o_name o) citems); [reflexivity|].
            unfold dflt_tokens. now destruct (o_defcli o).
        Qed.

        (** every other typed option bound to the same member is a registered alias *)
        Lemma others_are_aliases o' :
          In o' T -> typed o' = true -> o_var o' = o_var o -> o_name o' <> o_name o -> In (o_name o') (map fst al).
        Proof.
          intros I' T' V' N'. destruct canon_facts as (_ & OW & _).
          unfold owner_ok in OW. rewrite forallb_forall in OW. specialize (OW o' I').
          rewrite T', V', String.eqb_refl in OW. cbn in OW.
          apply String.eqb_neq in N'. rewrite N' in OW. cbn in OW. now apply mem_In.
        Qed.

        Lemma notify_canon vm vs :
          (forall a, In a (map fst al) -> vm a = None) ->
          notify T vm vs (o_var o) = match vm (o_name o) with Some (v, _) => Some v | None => vs (o_var o) end.
        Proof.
          intro HA. unfold notify. rewrite (notify_one vm (o_var o) (o_name o)).
          - assert (E : existsb (fun o0 => String.eqb (o_name o0) (o_name o)) T = true).
            { apply existsb_exists. exists o. split; [assumption | apply String.eqb_refl]. }
            now rewrite E.
          - intros o' I' T' V' N'. apply HA. now apply others_are_aliases.
          - intros o' I' N'. pose proof (find_opt_unique T o' ND I') as F. rewrite N' in F.
            rewrite (find_opt_unique T o ND Io) in F. injection F as <-. auto.
        Qed.

        Lemma vars_after_cli :
          notify T vm1 (fun _ => None) (o_var o) = spec_value al items [] o.
        Proof.
          rewrite notify_canon.
          - rewrite vm1_canon. unfold spec_value. cbn [occurs existsb].
            destruct (occurs (o_name o) items); [reflexivity|].
            unfold dflt_tokens. destruct (alias_of al (o_name o)); now destruct (o_defcli o).
          - intros a Ia. apply in_map_iff in Ia as ([a' c] & E & HI). cbn in E. subst a'.
            now destruct (vm1_alias _ _ HI).
        Qed.

        Lemma vars_after_cfg vs :
          vs (o_var o) = spec_value al items [] o ->
          notify T vm3 vs (o_var o) = spec_value al items citems o.
        Proof.
          intro Hvs. rewrite notify_canon.
          - rewrite <- vm3_canon. destruct (vm3 (o_name o)) as [[v d]|] eqn:V3; [reflexivity|].
            cbn [option_map]. rewrite Hvs.
            (* no entry at all: no default, nothing given anywhere *)
            pose proof vm3_canon as S. rewrite V3 in S. cbn [option_map] in S.
            unfold spec_value in *. cbn [occurs existsb].
            destruct (occurs (o_name o) items); [discriminate|].
            destruct (occurs (o_name o) citems); [discriminate|].
            destruct (alias_of al (o_name o)) as [a|]; [|symmetry; assumption].
            destruct (occurs a citems); [discriminate|symmetry; assumption].
          - intros a Ia. unfold vm3. apply fold_alias_fst; [assumption|].
            apply in_map_iff in Ia as ([a' c] & E & HI). cbn in E. subst a'.
            now destruct (al_disjoint _ _ HI).
        Qed.
      End Canon.
    End Run.
  End Good.

  (* -------------------------------------------------------------------------------------- *)
  (** * what the checker gives *)
  Lemma checker_facts P : checker P = true ->
    exists al, prog_shape P = Some al /\ NoDup (map o_name T) /\ NoDup (map fst al ++ map snd al)
      /\ (forall ac, In ac al -> alias_ok ac = true) /\ (forall o, In o T -> canon_ok al o = true)
      /\ (forall o, In o T -> ignored_ok o = true).
  Proof.
    unfold checker. intro H. apply andb_prop in H as [H0 H]. apply andb_prop in H0 as [H0 _]. apply andb_prop in H0 as [H0 _].
    destruct (prog_shape P) as [al|]; [|discriminate]. exists al.
    repeat (apply andb_prop in H as [H ?]).
    repeat split; try (apply nodupb_NoDup; assumption).
    - intros ac I. rewrite forallb_forall in *. auto.
    - intros o I. rewrite forallb_forall in *. auto.
    - intros o I. rewrite forallb_forall in *. auto.
  Qed.

  Lemma checker_nopos P : checker P = true -> p_nopos P = true.
  Proof.
    unfold checker. intro H. apply andb_prop in H as [H0 _]. now apply andb_prop in H0 as [_ H0].
  Qed.

  Lemma parse_unfold P cli fs dflt : checker P = true ->
    parse T wf P cli fs dflt =
    match resolve_all T cli with
    | None => Fail
    | Some items =>
      match exec_list T wf items [] (p_cli P) st0 with
      | None => Fail
      | Some s1 =>
        if existsb (fun f => match s_vm s1 f with Some _ => true | None => false end) (p_flags P) then Stop else
        match cfg_source P s1 fs dflt with
        | (FDevNull, _) => Run s1
        | (FNoFile, true) => Stop
        | (FNoFile, false) => Run s1
        | (FFile citems, _) =>
          if forallb (known_file T) citems then
            match exec_list T wf items citems (p_cfg P) s1 with
            | Some s2 => Run s2
            | None => Fail
            end
          else Fail
        end
      end
    end.
  Proof. intro CK. unfold parse. now rewrite (words_nopos P cli (checker_nopos P CK)). Qed.

  Lemma source_eq P items vmA fs dflt :
    store_items T wf true (fun _ => false) items (fun _ => None) = Some vmA ->
    forall fin vs, cfg_source P (mkSt (add_defaults T true vmA) fin vs) fs dflt = source P items fs dflt.
  Proof.
    intros SA fin vs. unfold cfg_source, source, cfg_given. cbn [s_vm].
    rewrite (phase1_form _ _ SA). destruct (occurs (p_cfgopt P) items).
    - destruct (collect T true (p_cfgopt P) items) as [|t [|]]; reflexivity.
    - unfold dentry. destruct (find_opt (p_cfgopt P)) as [o|]; [|reflexivity]. cbn [in_grp def_of].
      destruct (o_cli o); [|reflexivity]. unfold dflt_tokens. destruct (o_defcli o); reflexivity.
  Qed.

  (** * C20.1 precedence *)
  Theorem precedence_thm P cli fs dflt s :
    checker P = true -> parse T wf P cli fs dflt = Run s ->
    exists items, resolve_all T cli = Some items /\
      forall o, In o T -> is_canon o = true -> typed o = true ->
        s_vars s (o_var o) = spec_value (prog_aliases P) items (loaded P items fs dflt) o.
  Proof.
    intros CK H. destruct (checker_facts P CK) as (al & SH & ND & NDal & ALok & CANok & _).
    destruct (prog_shape_some _ _ SH) as [PC PF].
    unfold prog_aliases. rewrite PF.
    rewrite (parse_unfold P cli fs dflt CK) in H. destruct (resolve_all T cli) as [items|] eqn:RA; [|discriminate].
    exists items. split; [reflexivity|].
    pose proof (resolve_all_cli T cli items RA) as CLI.
    rewrite PC in H. cbn [exec_list exec st0 s_fin s_vm s_vars] in H.
    destruct (store_items T wf true (fun _ => false) items (fun _ => None)) as [vmA|] eqn:SA; [|discriminate].
    destruct (existsb _ (p_flags P)); [discriminate|].
    rewrite (source_eq P items vmA fs dflt SA) in H.
    unfold loaded. destruct (source P items fs dflt) as [[| |ci] b]; cbn [fst].
    - destruct b; [discriminate|]. injection H as <-. cbn [s_vars]. intros o Io Co To.
      eapply vars_after_cli; eauto.
    - injection H as <-. cbn [s_vars]. intros o Io Co To. eapply vars_after_cli; eauto.
    - destruct (forallb (known_file T) ci); [|discriminate].
      rewrite PF in H. cbn [exec_list exec s_fin s_vm s_vars] in H.
      destruct (store_items T wf false _ ci _) as [vmB|] eqn:SB; [|discriminate].
      injection H as <-. cbn [s_vars]. intros o Io Co To.
      eapply vars_after_cfg; eauto. eapply vars_after_cli; eauto.
  Qed.
  (** the variables-map entry of a current option holds what its member holds *)
  Theorem vm_thm P cli fs dflt s :
    checker P = true -> parse T wf P cli fs dflt = Run s ->
    exists items, resolve_all T cli = Some items /\
      forall o, In o T -> is_canon o = true -> typed o = true ->
        option_map fst (s_vm s (o_name o)) = spec_value (prog_aliases P) items (loaded P items fs dflt) o.
  Proof.
    intros CK H. destruct (checker_facts P CK) as (al & SH & ND & NDal & ALok & CANok & _).
    destruct (prog_shape_some _ _ SH) as [PC PF].
    unfold prog_aliases. rewrite PF.
    rewrite (parse_unfold P cli fs dflt CK) in H. destruct (resolve_all T cli) as [items|] eqn:RA; [|discriminate].
    exists items. split; [reflexivity|].
    pose proof (resolve_all_cli T cli items RA) as CLI.
    rewrite PC in H. cbn [exec_list exec st0 s_fin s_vm s_vars] in H.
    destruct (store_items T wf true (fun _ => false) items (fun _ => None)) as [vmA|] eqn:SA; [|discriminate].
    destruct (existsb _ (p_flags P)); [discriminate|].
    rewrite (source_eq P items vmA fs dflt SA) in H.
    assert (V1 : forall o, In o T -> is_canon o = true -> typed o = true ->
                 option_map fst (add_defaults T true vmA (o_name o)) = spec_value al items [] o).
    { intros o Io Co To. rewrite (vm1_canon al ND CANok items vmA SA o Io Co To).
      unfold spec_value. cbn [occurs existsb].
      destruct (occurs (o_name o) items); [reflexivity|].
      unfold dflt_tokens. destruct (alias_of al (o_name o)); now destruct (o_defcli o). }
    unfold loaded. destruct (source P items fs dflt) as [[| |ci] b]; cbn [fst].
    - destruct b; [discriminate|]. injection H as <-. cbn [s_vm]. assumption.
    - injection H as <-. cbn [s_vm]. assumption.
    - destruct (forallb (known_file T) ci); [|discriminate].
      rewrite PF in H. cbn [exec_list exec s_fin s_vm s_vars] in H.
      destruct (store_items T wf false _ ci _) as [vmB|] eqn:SB; [|discriminate].
      injection H as <-. cbn [s_vm]. intros o Io Co To.
      eapply vm3_canon; eauto.
  Qed.

  (** * C20.2 errors stop the program *)
  Theorem unknown_cli_fails P cli fs dflt c t :
    checker P = true ->
    In (c, t) cli -> resolve T c = None -> parse T wf P cli fs dflt = Fail.
  Proof. intros CK HI R. rewrite (parse_unfold P cli fs dflt CK). now rewrite (resolve_all_unknown T cli c t HI R). Qed.

  Theorem malformed_cli_fails P cli fs dflt items n toks o t :
    checker P = true -> resolve_all T cli = Some items ->
    In (n, toks) items -> find_opt n = Some o -> typed o = true -> In t toks -> wf (o_ty o) t = false ->
    parse T wf P cli fs dflt = Fail.
  Proof.
    intros CK RA HI Fo To Ht Hw. destruct (checker_facts P CK) as (al & SH & _).
    destruct (prog_shape_some _ _ SH) as [PC PF].
    rewrite (parse_unfold P cli fs dflt CK). rewrite RA, PC. cbn [exec_list exec st0 s_fin s_vm s_vars].
    rewrite (store_items_malformed T wf true (fun _ => false) items (fun _ => None) n toks o t); auto.
    unfold typed in To. destruct (o_ty o); congruence.
  Qed.

  Theorem repeated_cli_fails P cli fs dflt i1 i2 i3 n t1 t2 o :
    checker P = true -> resolve_all T cli = Some (i1 ++ (n, t1) :: i2 ++ (n, t2) :: i3) ->
    find_opt n = Some o -> o_ty o <> TVecFloat ->
    parse T wf P cli fs dflt = Fail.
  Proof.
    intros CK RA Fo Ty. destruct (checker_facts P CK) as (al & SH & _).
    destruct (prog_shape_some _ _ SH) as [PC PF].
    rewrite (parse_unfold P cli fs dflt CK). rewrite RA, PC. cbn [exec_list exec st0 s_fin s_vm s_vars].
    now rewrite (store_items_repeated T wf true (fun _ => false) i1 i2 i3 (fun _ => None) n t1 t2 o).
  Qed.

  (** errors in the config file that parse() reads: unknown name; malformed token or repeated
      scalar of an option that the command line does not override *)
  Theorem bad_config_never_runs P cli fs dflt items ci b :
    checker P = true -> resolve_all T cli = Some items -> source P items fs dflt = (FFile ci, b) ->
    (exists it, In it ci /\ known_file T it = false)
    \/ (exists n toks o t, In (n, toks) ci /\ occurs n items = false /\ find_opt n = Some o /\ typed o = true
                          /\ In t toks /\ wf (o_ty o) t = false)
    \/ (exists i1 i2 i3 n t1 t2 o, ci = i1 ++ (n, t1) :: i2 ++ (n, t2) :: i3 /\ occurs n items = false
                                  /\ find_opt n = Some o /\ o_ty o <> TVecFloat) ->
    forall s, parse T wf P cli fs dflt <> Run s.
  Proof.
    intros CK RA SRC BAD s. destruct (checker_facts P CK) as (al & SH & _).
    destruct (prog_shape_some _ _ SH) as [PC PF].
    rewrite (parse_unfold P cli fs dflt CK). rewrite RA, PC. cbn [exec_list exec st0 s_fin s_vm s_vars].
    destruct (store_items T wf true (fun _ => false) items (fun _ => None)) as [vmA|] eqn:SA; [|discriminate].
    destruct (existsb _ (p_flags P)); [discriminate|].
    rewrite (source_eq P items vmA fs dflt SA), SRC.
    destruct (forallb (known_file T) ci) eqn:KF.
    - rewrite PF. cbn [exec_list exec s_fin s_vm s_vars].
      destruct BAD as [(it & HI & K) | [(n & toks & o & t & HI & Oc & Fo & To & Ht & Hw) | (i1 & i2 & i3 & n & t1 & t2 & o & -> & Oc & Fo & Ty)]].
      + rewrite forallb_forall in KF. rewrite (KF it HI) in K. discriminate.
      + rewrite (store_items_malformed T wf false _ ci _ n toks o t); auto; try discriminate.
        * cbn [orb]. now rewrite mem_occurs.
        * unfold typed in To. destruct (o_ty o); congruence.
      + rewrite (store_items_repeated T wf false _ i1 i2 i3 _ n t1 t2 o); auto; try discriminate.
        cbn [orb]. now rewrite mem_occurs.
    - discriminate.
  Qed.

  (** * C20.2 a config file that was asked for and does not exist stops the program *)
  Theorem missing_config_thm P cli fs dflt items t :
    checker P = true -> resolve_all T cli = Some items -> cfg_given P items = Some [t] -> fs t = FNoFile ->
    parse T wf P cli fs dflt = Stop \/ parse T wf P cli fs dflt = Fail.
  Proof.
    intros CK RA CG FS. destruct (checker_facts P CK) as (al & SH & _).
    destruct (prog_shape_some _ _ SH) as [PC PF].
    rewrite (parse_unfold P cli fs dflt CK). rewrite RA, PC. cbn [exec_list exec st0 s_fin s_vm s_vars].
    destruct (store_items T wf true (fun _ => false) items (fun _ => None)) as [vmA|] eqn:SA; [|auto].
    destruct (existsb _ (p_flags P)); [auto|].
    rewrite (source_eq P items vmA fs dflt SA). unfold source. rewrite CG, FS. auto.
  Qed.
  (** * C20.2 ignored options are inert; legacy names are honoured *)
  Definition ignored_name (n : string) : bool :=
    match find_opt n with Some o => is_ignored o | None => false end.
  Definition drop_ignored (ci : list item) : list item := filter (fun it => negb (ignored_name (fst it))) ci.

  Lemma occurs_filter keep n (ci : list item) :
    (forall it, In it ci -> fst it = n -> keep it = true) -> occurs n (filter keep ci) = occurs n ci.
  Proof.
    unfold occurs. induction ci as [|it r IH]; intro H; [reflexivity|]. cbn [filter existsb].
    destruct (keep it) eqn:K.
    - cbn [existsb]. rewrite IH; [reflexivity|]. intros; apply H; cbn; auto.
    - rewrite IH by (intros; apply H; cbn; auto).
      destruct (String.eqb (fst it) n) eqn:E; [|reflexivity].
      apply String.eqb_eq in E. rewrite (H it (or_introl eq_refl) E) in K. discriminate.
  Qed.

  Lemma collect_filter keep incli n (ci : list item) :
    (forall it, In it ci -> fst it = n -> keep it = true) -> collect T incli n (filter keep ci) = collect T incli n ci.
  Proof.
    unfold collect. destruct (find_opt n) as [o|]; [|reflexivity].
    induction ci as [|it r IH]; intro H; [reflexivity|]. cbn [filter flat_map].
    destruct (keep it) eqn:K.
    - cbn [flat_map]. rewrite IH; [reflexivity|]. intros; apply H; cbn; auto.
    - rewrite IH by (intros; apply H; cbn; auto).
      destruct (String.eqb (fst it) n) eqn:E; [|reflexivity].
      apply String.eqb_eq in E. rewrite (H it (or_introl eq_refl) E) in K. discriminate.
  Qed.

  Theorem ignored_inert_thm P items ci o :
    checker P = true -> In o T -> is_canon o = true ->
    spec_value (prog_aliases P) items (drop_ignored ci) o = spec_value (prog_aliases P) items ci o.
  Proof.
    intros CK Io Co. destruct (checker_facts P CK) as (al & SH & ND & NDal & ALok & _).
    destruct (prog_shape_some _ _ SH) as [PC PF]. unfold prog_aliases. rewrite PF.
    assert (KC : forall it, In it ci -> fst it = o_name o -> negb (ignored_name (fst it)) = true).
    { intros it _ E. rewrite E. unfold ignored_name. rewrite (find_opt_unique T o ND Io).
      unfold is_canon in Co. unfold is_ignored. now destruct (o_kind o). }
    assert (E1 : occurs (o_name o) (drop_ignored ci) = occurs (o_name o) ci) by (apply occurs_filter; exact KC).
    assert (E2 : collect T false (o_name o) (drop_ignored ci) = collect T false (o_name o) ci)
      by (apply collect_filter; exact KC).
    unfold spec_value. cbv zeta. rewrite E1, E2.
    destruct (alias_of al (o_name o)) as [a|] eqn:AO; [|reflexivity].
    apply alias_of_in in AO. pose proof (ALok _ AO) as A. unfold alias_ok in A. cbn [fst snd] in A.
    destruct (find_opt a) as [oa|] eqn:Fa; [|discriminate].
    destruct (find_opt (o_name o)); [|discriminate].
    repeat (apply andb_prop in A as [A ?]).
    assert (KA : forall it, In it ci -> fst it = a -> negb (ignored_name (fst it)) = true).
    { intros it _ E. rewrite E. unfold ignored_name. rewrite Fa. unfold is_ignored. now destruct (o_kind oa). }
    assert (E3 : occurs a (drop_ignored ci) = occurs a ci) by (apply occurs_filter; exact KA).
    assert (E4 : collect T false a (drop_ignored ci) = collect T false a ci) by (apply collect_filter; exact KA).
    now rewrite E3, E4.
  Qed.

  (** tokens of a file are taken as they stand, whatever the name they are given under *)
  Lemma collect_file_raw n o (ci : list item) :
    find_opt n = Some o ->
    collect T false n ci = flat_map (fun it => if String.eqb (fst it) n then snd it else []) ci.
  Proof.
    intro F. unfold collect. rewrite F. induction ci as [|it r IH]; [reflexivity|].
    cbn [flat_map]. rewrite IH. f_equal. destruct (String.eqb (fst it) n); [|reflexivity].
    unfold ntoks. cbn [andb]. destruct (o_ty o); try reflexivity; now destruct (snd it).
  Qed.
End Thm.

(** * The pinned tree (before the fix: commits): parse program and writer rules as they were.
    Kept as constants so that the refutations that motivated the fixes stay checked. *)
Local Open Scope string_scope.
Definition pinned_prog : prog := mkProg
  [StoreCli; Notify] ["help"; "copyright"; "version"; "buildinfo"] "config"
  [StoreCfg; Notify; CopyIfPresent "SyncFreq" "SynchrotronFrequency"; Notify] false.
Definition pinned_aliases : list (string * string) :=
  [("RFVoltage", "AcceleratingVoltage"); ("SyncFreq", "SynchrotronFrequency"); ("steps", "StepsPerTs")].
Definition pinned_wrules : wrules := mkW
  ["HaissinskiIterations"; "InitialDistParam"; "RotationType"; "SyncFreq"; "steps"; "RFVoltage"; "run_anyway"; "SaveSourceMap"]
  "alpha0" "f_s" true [TFloat; TDouble; TI32; TU32; TI64; TBool] false ["config"].

(** the default token of an option of a table (to name "zero" without fixing token numbers) *)
Definition default_of (T : list opt) (n : string) : tok :=
  match Options.find_opt T n with Some o => match o_defcli o with Some d => d | None => 0%Z end | None => 0%Z end.
