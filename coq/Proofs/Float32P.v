(** * [rnd32] is IEEE-754 binary32 round-to-nearest-even, as Flocq defines it.

    [Q2R (rnd32Q q) = round radix2 (FLT_exp (-149) 24) ZnearestE (Q2R q)] for every rational [q]
    (no overflow handling on either side: Flocq's FLT format is unbounded above).  This removes
    the computable rounding function of Base/Float32.v from the trusted base: it is the
    standard model of single-precision rounding.  Axioms: the standard library's real numbers. *)
From Coq Require Import ZArith QArith Qround Qreals Reals Lra Lia Qcanon.
From Flocq Require Import Core.
From Inovesa Require Import Base.Float32.
Local Open Scope R_scope.

Notation fexp32 := (FLT_exp (-149) 24).
Notation round32 := (round radix2 fexp32 ZnearestE).

Lemma Q2R_inject_Z z : Q2R (inject_Z z) = IZR z.
Proof. unfold Q2R, inject_Z; cbn. field. Qed.

Lemma Q2R_Qpow2 e : Q2R (Qpow2 e) = bpow radix2 e.
Proof.
  unfold Qpow2. destruct (Z.leb_spec 0 e) as [P|N].
  - rewrite Q2R_inject_Z. exact (IZR_Zpower radix2 e P).
  - unfold Q2R; cbn [Qnum Qden].
    assert (H : (0 < 2 ^ (- e))%Z) by (apply Z.pow_pos_nonneg; lia).
    rewrite Z2Pos.id by exact H.
    change (2 ^ (- e))%Z with (radix2 ^ (- e))%Z. rewrite (IZR_Zpower radix2) by lia.
    rewrite bpow_opp, Rinv_inv. lra.
Qed.

Lemma Zfloor_Q2R x : Zfloor (Q2R x) = Qfloor x.
Proof.
  apply Zfloor_imp. split.
  - rewrite <- Q2R_inject_Z. apply Qle_Rle. apply Qfloor_le.
  - rewrite <- Q2R_inject_Z. apply Qlt_Rlt. apply Qlt_floor.
Qed.

Lemma Qrne_spec x : Qrne x = ZnearestE (Q2R x).
Proof.
  unfold Qrne, Znearest. rewrite Zfloor_Q2R.
  set (f := Qfloor x).
  assert (E : Q2R x - IZR f = Q2R (x - inject_Z f)).
  { rewrite Q2R_minus, Q2R_inject_Z. reflexivity. }
  rewrite E.
  assert (Hh : Q2R (1 # 2) = / 2) by (unfold Q2R; cbn; lra).
  destruct (Qcompare_spec (x - inject_Z f) (1 # 2)) as [H|H|H].
  - rewrite Rcompare_Eq by (rewrite <- Hh; apply Qeq_eqR; exact H).
    destruct (Z.even f); cbn [negb]; [reflexivity|].
    assert (N : IZR (Zfloor (Q2R x)) <> Q2R x).
    { rewrite Zfloor_Q2R. fold f. apply Qeq_eqR in H. rewrite <- E, Hh in H. lra. }
    rewrite (Zceil_floor_neq _ N), Zfloor_Q2R. reflexivity.
  - rewrite Rcompare_Lt by (rewrite <- Hh; apply Qlt_Rlt; exact H). reflexivity.
  - rewrite Rcompare_Gt by (rewrite <- Hh; apply Qlt_Rlt; exact H).
    assert (N : IZR (Zfloor (Q2R x)) <> Q2R x).
    { rewrite Zfloor_Q2R. fold f. apply Qlt_Rlt in H. rewrite <- E, Hh in H. lra. }
    rewrite (Zceil_floor_neq _ N), Zfloor_Q2R. reflexivity.
Qed.

(** floor of the binary logarithm *)
Lemma Qlog2_spec a : (0 < a)%Q ->
  bpow radix2 (Qlog2 a) <= Q2R a < bpow radix2 (Qlog2 a + 1).
Proof.
  intros Ha. destruct a as [n d]. unfold Qlt in Ha; cbn in Ha. assert (Hn : (0 < n)%Z) by lia.
  unfold Qlog2. cbn [Qnum Qden].
  set (ln := Z.log2 n). set (ld := Z.log2 (Z.pos d)).
  pose proof (Z.log2_spec n Hn) as [N1 N2]. fold ln in N1, N2.
  pose proof (Z.log2_spec (Z.pos d) ltac:(lia)) as [D1 D2]. fold ld in D1, D2.
  assert (Ln : (0 <= ln)%Z) by apply Z.log2_nonneg.
  assert (Ld : (0 <= ld)%Z) by apply Z.log2_nonneg.
  apply IZR_le in N1, D1. apply IZR_lt in N2, D2.
  change 2%Z with (radix_val radix2) in N1, N2, D1, D2.
  rewrite (IZR_Zpower radix2) in N1, N2, D1, D2 by lia.
  set (N := IZR n) in *. set (D := IZR (Z.pos d)) in *.
  assert (HD : 0 < D) by (apply IZR_lt; lia).
  assert (Q : Q2R (n # d) = N / D) by reflexivity.
  (* strict two-sided estimate *)
  assert (Lo : bpow radix2 (ln - ld - 1) < N / D).
  { apply Rmult_lt_reg_r with D; [exact HD|]. unfold Rdiv. rewrite Rmult_assoc, Rinv_l, Rmult_1_r by lra.
    apply Rlt_le_trans with (bpow radix2 (ln - ld - 1) * bpow radix2 (Z.succ ld)).
    - apply Rmult_lt_compat_l; [apply bpow_gt_0 | exact D2].
    - rewrite <- bpow_plus. replace (ln - ld - 1 + Z.succ ld)%Z with ln by lia. exact N1. }
  assert (Hi : N / D < bpow radix2 (ln - ld + 1)).
  { apply Rmult_lt_reg_r with D; [exact HD|]. unfold Rdiv. rewrite Rmult_assoc, Rinv_l, Rmult_1_r by lra.
    apply Rlt_le_trans with (bpow radix2 (Z.succ ln)); [exact N2|].
    replace (Z.succ ln) with (ln - ld + 1 + ld)%Z by lia. rewrite bpow_plus.
    apply Rmult_le_compat_l; [apply Rlt_le, bpow_gt_0 | exact D1]. }
  destruct (Qle_bool (Qpow2 (ln - ld)) (n # d)) eqn:T.
  - apply Qle_bool_iff in T. apply Qle_Rle in T. rewrite Q2R_Qpow2, Q in T. rewrite Q. split; [exact T|exact Hi].
  - assert (T' : ~ (Qpow2 (ln - ld) <= n # d)%Q) by (intro X; apply Qle_bool_iff in X; congruence).
    apply Qnot_le_lt in T'. apply Qlt_Rlt in T'. rewrite Q2R_Qpow2, Q in T'. rewrite Q.
    replace (ln - ld - 1 + 1)%Z with (ln - ld)%Z by lia. split; [apply Rlt_le; exact Lo | exact T'].
Qed.

Lemma rnd32Q_pos a : (0 < a)%Q ->
  let e := Z.max (Qlog2 a) (-126) in
  Q2R (inject_Z (Qrne (a * Qpow2 (23 - e))) * Qpow2 (e - 23)) = round32 (Q2R a).
Proof.
  intros Ha e. pose proof (Qlog2_spec a Ha) as L.
  assert (M : mag radix2 (Q2R a) = (Qlog2 a + 1)%Z :> Z).
  { apply mag_unique_pos. replace (Qlog2 a + 1 - 1)%Z with (Qlog2 a) by lia. exact L. }
  unfold round, F2R, scaled_mantissa, cexp. cbn [Fnum Fexp]. rewrite M.
  assert (C : fexp32 (Qlog2 a + 1) = (e - 23)%Z) by (unfold FLT_exp, e; lia).
  rewrite C. rewrite Q2R_mult, Q2R_inject_Z, Q2R_Qpow2, Qrne_spec, Q2R_mult, Q2R_Qpow2.
  replace (- (e - 23))%Z with (23 - e)%Z by lia. reflexivity.
Qed.

Theorem rnd32Q_correct q : Q2R (rnd32Q q) = round32 (Q2R q).
Proof.
  unfold rnd32Q. destruct (Qeq_bool q 0) eqn:Z0.
  - apply Qeq_bool_iff in Z0. apply Qeq_eqR in Z0. rewrite Z0. unfold Q2R at 1 2; cbn.
    rewrite Rmult_0_l. symmetry. apply round_0. apply valid_rnd_N.
  - assert (NZ : ~ q == 0) by (intro X; apply Qeq_bool_iff in X; congruence).
    unfold Qabs'. destruct (Qle_bool 0 q) eqn:S.
    + apply Qle_bool_iff in S. assert (P : (0 < q)%Q).
      { apply Qle_lteq in S. destruct S as [S|S]; [exact S|]. exfalso; apply NZ; symmetry; exact S. }
      exact (rnd32Q_pos q P).
    + assert (Ng : (q < 0)%Q).
      { apply Qnot_le_lt. intro X. apply Qle_bool_iff in X. congruence. }
      assert (P : (0 < - q)%Q) by (apply Qlt_minus_iff in Ng; rewrite Qplus_0_l in Ng; exact Ng).
      rewrite Q2R_opp. rewrite (rnd32Q_pos (- q) P). rewrite Q2R_opp, round_NE_opp. lra.
Qed.

(** the [Qc] wrapper used by the models *)
Corollary rnd32_correct (q : Qc) : Q2R (this (rnd32 q)) = round32 (Q2R (this q)).
Proof.
  unfold rnd32. cbn [this Q2Qc]. rewrite (Qeq_eqR _ _ (Qred_correct _)). apply rnd32Q_correct.
Qed.
