(** * Kick maps: charge conservation and whole-cell shifts, for the executable model. *)
From Coq Require Import List ZArith QArith Qcanon Lia Bool Ring Field.
From Inovesa Require Import Base.FieldKit Base.Sums Base.Float32 Gen.Gen_Coeffs Model.Kick
  Proofs.WeightsP.
Import ListNotations.
Local Open Scope Z_scope.

Add Field QcFld : Qcft.

Notation sumQ := (@sumZ QcF).
Notation termQ := (@term QcF).
Notation suppQ := (@supp QcF).
Ltac qc_unf := cbv [fmul fadd fsub fopp fdiv finv f0 f1 car QcF] in *.

(** ** arithmetic helpers *)

Lemma wrap32_small z : 0 <= z < 2 ^ 32 -> wrap32 z = z.
Proof. intros H. unfold wrap32. apply Z.mod_small. exact H. Qed.

Lemma wrap32_neg z : - 2 ^ 32 <= z < 0 -> wrap32 z = z + 2 ^ 32.
Proof.
  intros H. unfold wrap32. symmetry. apply (Z.mod_unique _ _ (-1)); lia.
Qed.

Lemma in_grid_spec n z :
  0 < n <= 2 ^ 31 -> - 2 ^ 31 <= z < 2 ^ 31 ->
  (wrap32 z <? n) = ((0 <=? z) && (z <? n))%bool.
Proof.
  intros Hn Hz. change (2 ^ 31) with 2147483648 in *.
  destruct (Z.leb_spec 0 z) as [P|N].
  - rewrite wrap32_small by (change (2 ^ 32) with 4294967296; lia). reflexivity.
  - rewrite wrap32_neg by (change (2 ^ 32) with 4294967296; lia).
    change (2 ^ 32) with 4294967296. cbn [andb]. apply Z.ltb_ge. lia.
Qed.

Lemma qsum_zrange (g : Z -> Qc) it :
  qsum (map g (zrange it)) = sumQ 0 (Z.to_nat it) g.
Proof.
  unfold qsum, zrange. rewrite sumZ_fsum_map. reflexivity.
Qed.

Lemma sumQ_scale_r lo len (g : Z -> Qc) (c : Qc) :
  sumQ lo len (fun i => (g i * c)%Qc) = (sumQ lo len g * c)%Qc.
Proof.
  rewrite (sumZ_ext QcF _ _ _ (fun i => @fmul QcF c (g i))) by (intros; qc_unf; ring).
  rewrite sumZ_scale. qc_unf; ring.
Qed.

(** flattening a sum over a product range *)
Lemma sumQ_flatten (A B : nat) (g : Z -> Qc) :
  sumQ 0 (A * B) g = sumQ 0 A (fun i => sumQ 0 B (fun j => g (i * Z.of_nat B + j))).
Proof.
  assert (G : forall lo, sumQ (lo * Z.of_nat B) (A * B) g =
                         sumQ lo A (fun i => sumQ 0 B (fun j => g (i * Z.of_nat B + j)))).
  { induction A as [|a IH]; intros lo; cbn [Nat.mul sumZ]; [reflexivity|].
    rewrite sumZ_app. f_equal.
    - replace (lo * Z.of_nat B) with (0 + lo * Z.of_nat B) at 1 by lia.
      rewrite <- (sumZ_shift QcF 0 B g (lo * Z.of_nat B)). apply (sumZ_ext QcF). intros i _. f_equal. lia.
    - replace (lo * Z.of_nat B + Z.of_nat B) with ((lo + 1) * Z.of_nat B) by lia. apply IH. }
  exact (G 0).
Qed.


(** ** rows of the flat array

    [row_out] reads its row only at cells that passed the unsigned range test, so the row
    may be replaced by its restriction to [0,n): this is what makes "the row" of a flat
    bunch-major array (whose index function runs on into the next row) a well-defined object. *)
Definition rtrunc (n : Z) (r : Z -> Qc) (u : Z) : Qc :=
  if ((0 <=? u) && (u <? n))%bool then r u else 0%Qc.

Lemma row_out_trunc n it E r y : row_out n it E r y = row_out n it E (rtrunc n r) y.
Proof.
  unfold row_out. f_equal. apply map_ext. intros j. cbv zeta.
  destruct (wrap32 (y + fst (E j) - n / 2) <? n) eqn:T; [|reflexivity].
  unfold rtrunc. rewrite T.
  assert (P : 0 <= wrap32 (y + fst (E j) - n / 2)) by (unfold wrap32; apply Z.mod_pos_bound; reflexivity).
  apply Z.leb_le in P. rewrite P. reflexivity.
Qed.

Lemma sum_rtrunc n r : 0 <= n -> sumQ 0 (Z.to_nat n) (rtrunc n r) = sumQ 0 (Z.to_nat n) r.
Proof.
  intros Hn. apply (sumZ_ext QcF). intros i Hi. unfold rtrunc.
  assert (A : (0 <=? i) = true) by (apply Z.leb_le; lia).
  assert (B : (i <? n) = true) by (apply Z.ltb_lt; lia). rewrite A, B. reflexivity.
Qed.

(** ** one row *)

Section Row.
  Variables (n it : Z) (E : Z -> Z * Qc) (r : Z -> Qc).
  Hypothesis Hn : 0 < n < 2 ^ 30.
  Hypothesis Hit : 0 <= it.
  (** every stencil index lies inside the table range *)
  Hypothesis Hidx : forall j, 0 <= j < it -> 0 <= fst (E j) < n.

  Lemma row_out_terms y :
    0 <= y < n ->
    row_out n it E r y = sumQ 0 (Z.to_nat it) (fun j => termQ n r (snd (E j)) (fst (E j) - n / 2) y).
  Proof.
    intros Hy. unfold row_out. rewrite qsum_zrange. apply (sumZ_ext QcF). intros j Hj.
    assert (Hj' : 0 <= j < it) by lia. specialize (Hidx j Hj').
    assert (Hh : 0 <= n / 2 <= n) by (split; [apply Z.div_pos; lia | apply Z.div_le_upper_bound; lia]).
    unfold term. cbv zeta.
    change (2 ^ 30) with 1073741824 in Hn.
    rewrite in_grid_spec by (change (2 ^ 31) with 2147483648; lia).
    replace (y + (fst (E j) - n / 2)) with (y + fst (E j) - n / 2) by lia.
    set (z := y + fst (E j) - n / 2).
    destruct (Z.leb_spec 0 z) as [P|N]; destruct (Z.ltb_spec z n) as [L|G]; cbn [andb];
      try reflexivity.
    rewrite wrap32_small by (change (2 ^ 32) with 4294967296; lia). qc_unf; ring.
  Qed.

  Variables (a b : Z).
  Hypothesis Hsupp : suppQ r a b.
  Hypothesis Hab : 0 <= a /\ a <= b /\ b <= n.
  (** the support stays inside the grid under every stencil shift *)
  Hypothesis Hshift : forall j, 0 <= j < it ->
      0 <= a - (fst (E j) - n / 2) /\ b - (fst (E j) - n / 2) <= n.
  Hypothesis Hunity : qsum (map (fun j => snd (E j)) (zrange it)) = 1%Qc.

  Theorem row_conserves :
    sumQ 0 (Z.to_nat n) (row_out n it E r) = sumQ 0 (Z.to_nat n) r.
  Proof.
    rewrite (sumZ_ext QcF _ _ _ (fun y => sumQ 0 (Z.to_nat it)
               (fun j => termQ n r (snd (E j)) (fst (E j) - n / 2) y)))
      by (intros y Hy; apply row_out_terms; lia).
    rewrite sumZ_swap.
    rewrite (sumZ_ext QcF _ _ _ (fun j => (snd (E j) * sumQ 0 (Z.to_nat n) r)%Qc)).
    2:{ intros j Hj. assert (Hj' : 0 <= j < it) by lia.
        destruct (Hshift j Hj') as [S1 S2].
        apply (term_sum QcF n r (snd (E j)) (fst (E j) - n / 2) a b); lia || assumption. }
    rewrite sumQ_scale_r. rewrite <- qsum_zrange, Hunity. apply Qcmult_1_l.
  Qed.
End Row.

(** ** the table row written by updateSM, when the whole stencil is in range *)

Lemma valid_it_range it : valid_it it -> 1 <= it <= 4 /\ 0 <= centre it <= it - 1.
Proof. intros [H|[H|[H|H]]]; subst; unfold centre; cbn; lia. Qed.

Lemma sm_entry_inrange n it o j1 :
  valid_it it -> 0 < n < 2 ^ 30 ->
  let s := poffs_split n o in
  0 <= sp_int s - centre it -> sp_int s + (it - 1) - centre it < n -> 0 <= j1 < it ->
  sm_entry n it o j1 = (sp_int s + j1 - centre it, nthQ (coeffs (K:=QcF) it (sp_frac s)) j1).
Proof.
  intros Hv Hn s Hlo Hhi Hj. destruct (valid_it_range it Hv) as [Hi Hc].
  unfold sm_entry. fold s. change (2 ^ 30) with 1073741824 in Hn.
  assert (E0 : (0 <=? sp_int s) = true) by (apply Z.leb_le; lia).
  assert (E1 : (sp_int s <? n) = true) by (apply Z.ltb_lt; lia). rewrite E0, E1. cbn [andb].
  rewrite wrap32_small by (change (2 ^ 32) with 4294967296; lia).
  assert (E2 : (sp_int s + j1 - centre it <? n) = true) by (apply Z.ltb_lt; lia). rewrite E2.
  reflexivity.
Qed.

Lemma nthQ_sum it (l : list Qc) :
  Z.of_nat (length l) = it -> qsum (map (nthQ l) (zrange it)) = qsum l.
Proof.
  intros <-. unfold zrange, nthQ. rewrite Nat2Z.id, map_map.
  rewrite (map_ext _ (fun k => nth k l 0%Qc)) by (intros; rewrite Nat2Z.id; reflexivity).
  f_equal. clear. induction l as [|x l IH]; [reflexivity|].
  cbn [length seq map nth]. f_equal. rewrite <- seq_shift, map_map. exact IH.
Qed.

(** Conservation for the row the model's updateSM writes: hypotheses are exactly
    "stencil inside the table range" and "support clear of the border under every shift". *)
Definition row_ok (n it : Z) (o : Qc) (r : Z -> Qc) : Prop :=
  let jd := sp_int (poffs_split n o) in
  0 <= jd - centre it /\ jd + (it - 1) - centre it < n /\
  exists a b, suppQ r a b /\ 0 <= a /\ a <= b /\ b <= n /\
              0 <= a - (jd + (it - 1) - centre it - n / 2) /\ b - (jd - centre it - n / 2) <= n.

Theorem sm_row_conserves n it o r :
  valid_it it -> 0 < n < 2 ^ 30 -> row_ok n it o r ->
  sumQ 0 (Z.to_nat n) (row_out n it (sm_entry n it o) r) = sumQ 0 (Z.to_nat n) r.
Proof.
  intros Hv Hn (Hlo & Hhi & a & b & Hs & Ha & Hab & Hb & S1 & S2).
  destruct (valid_it_range it Hv) as [Hi Hc].
  apply row_conserves with (a := a) (b := b); try assumption; try lia.
  - intros j Hj. rewrite sm_entry_inrange by (assumption || lia). cbn [fst]. lia.
  - intros j Hj. rewrite sm_entry_inrange by (assumption || lia). cbn [fst]. lia.
  - rewrite (map_ext_in _ (nthQ (coeffs (K:=QcF) it (sp_frac (poffs_split n o))))).
    + rewrite nthQ_sum by (apply (coeffs_length QcF); exact Hv).
      exact (coeffs_unity QcF it _ Hv).
    + intros j Hj. unfold zrange in Hj. apply in_map_iff in Hj. destruct Hj as (k & <- & Hk).
      apply in_seq in Hk. rewrite sm_entry_inrange by (assumption || lia). reflexivity.
Qed.

(** the same for a row given as a function that is meaningful on [0,n) only *)
Theorem sm_row_conserves_trunc n it o r :
  valid_it it -> 0 < n < 2 ^ 30 -> row_ok n it o (rtrunc n r) ->
  sumQ 0 (Z.to_nat n) (row_out n it (sm_entry n it o) r) = sumQ 0 (Z.to_nat n) r.
Proof.
  intros Hv Hn Hr.
  rewrite (sumZ_ext QcF _ _ _ (row_out n it (sm_entry n it o) (rtrunc n r)))
    by (intros; apply row_out_trunc).
  rewrite sm_row_conserves by assumption. apply sum_rtrunc. lia.
Qed.
