(** Lemmas about Model/EField.v: footprints, the invariant of operation histories, history
    independence under hypotheses (A) and (B), computed witnesses of history dependence. *)
From Coq Require Import List ZArith Bool Lia.
From Inovesa Require Import Model.EField.
Import ListNotations.
Local Open Scope Z_scope.

(** * lists and stores *)
Lemma inr_true a len i : inr a len i = true <-> a <= i < a + len.
Proof. unfold inr. rewrite andb_true_iff, Z.leb_le, Z.ltb_lt. tauto. Qed.
Lemma inr_false a len i : inr a len i = false <-> ~ (a <= i < a + len).
Proof. rewrite <- inr_true. destruct (inr a len i); split; congruence. Qed.

Ltac inr_cases :=
  repeat match goal with
  | H : inr _ _ _ = true |- _ => apply inr_true in H
  | H : inr _ _ _ = false |- _ => apply inr_false in H
  end.

Lemma in_cells k i : In i (cells k) <-> 0 <= i < k.
Proof.
  unfold cells. rewrite in_map_iff. split.
  - intros (j & <- & Hj). apply in_seq in Hj. lia.
  - intros Hi. exists (Z.to_nat i). split; [lia|]. apply in_seq. lia.
Qed.

Lemma sample_ext {A} (f g : Z -> A) k :
  (forall i, 0 <= i < k -> f i = g i) -> sample f k = sample g k.
Proof. intros H. unfold sample. apply map_ext_in. intros i Hi. apply H, in_cells, Hi. Qed.

Lemma nthZ_sample {A} (f : Z -> A) k d i : 0 <= i < k -> nthZ (sample f k) d i = f i.
Proof.
  intros Hi. unfold nthZ, sample, cells.
  destruct (i <? 0) eqn:Hn; [apply Z.ltb_lt in Hn; lia|].
  rewrite map_map.
  rewrite (nth_indep _ d ((fun x => f (Z.of_nat x)) 0%nat)) by (rewrite map_length, seq_length; lia).
  rewrite (map_nth (fun x => f (Z.of_nat x))). rewrite seq_nth by lia.
  simpl. f_equal. lia.
Qed.

Lemma store_in {A} (buf : Z -> A) a len src i : a <= i < a + len -> store buf a len src i = src (i - a).
Proof. intros H. unfold store. apply inr_true in H. now rewrite H. Qed.
Lemma store_out {A} (buf : Z -> A) a len src i : ~ (a <= i < a + len) -> store buf a len src i = buf i.
Proof. intros H. unfold store. apply inr_false in H. now rewrite H. Qed.

Section Proofs.
  Context {T C : Type} (E : env T C).
  Notation N := (nmax E).
  Notation n := (nx E).
  Notation hf := (half E).

  (** * the loops, cell by cell *)
  Lemma clear_agree buf1 buf2 i :
    (buf1 i = buf2 i \/ (rz E && inr 0 N i) = true) -> clear E buf1 i = clear E buf2 i.
  Proof.
    unfold clear, store. destruct (rz E); simpl.
    - destruct (inr 0 N i); intuition congruence.
    - intuition congruence.
  Qed.

  Lemma clear_out buf i : (rz E && inr 0 N i) = false -> clear E buf i = buf i.
  Proof. unfold clear, store. destruct (rz E); simpl; [intros ->|]; reflexivity. Qed.

  Lemma pad_loop_agree bks : forall b p buf1 buf2 i,
    (buf1 i = buf2 i \/ existsb (fun bk => inr (bk * spc E) n i) bks = true) ->
    pad_loop E bks b p buf1 i = pad_loop E bks b p buf2 i.
  Proof.
    induction bks as [|bk r IH]; intros b p buf1 buf2 i H; simpl in *.
    - destruct H; [assumption|discriminate].
    - apply IH. unfold store. destruct (inr (bk * spc E) n i); simpl in H; [now left|exact H].
  Qed.

  Lemma pad_loop_out bks : forall b p buf i,
    existsb (fun bk => inr (bk * spc E) n i) bks = false -> pad_loop E bks b p buf i = buf i.
  Proof.
    induction bks as [|bk r IH]; intros b p buf i H; simpl in *; [reflexivity|].
    apply orb_false_iff in H. destruct H as [H1 H2]. rewrite IH by assumption.
    unfold store. now rewrite H1.
  Qed.

  Lemma rb_loop_agree w1 w2 (Hw : forall j, w1 j = w2 j) bks : forall b buf1 buf2 i,
    (buf1 i = buf2 i \/ b * n <= i < (b + Z.of_nat (length bks)) * n) ->
    rb_loop E bks b w1 buf1 i = rb_loop E bks b w2 buf2 i.
  Proof.
    induction bks as [|bk r IH]; intros b buf1 buf2 i H; simpl length in *; simpl rb_loop.
    - destruct H; [assumption|lia].
    - apply IH. unfold store. destruct (inr (b * n) n i) eqn:Hr.
      + left. now rewrite Hw.
      + inr_cases. destruct H as [H|H]; [now left|right]. nia.
  Qed.

  Lemma rb_loop_out w bks : forall b buf i, 0 <= b ->
    ~ (0 <= i < (b + Z.of_nat (length bks)) * n) -> rb_loop E bks b w buf i = buf i.
  Proof.
    induction bks as [|bk r IH]; intros b buf i Hb H; simpl length in *; simpl rb_loop; [reflexivity|].
    rewrite IH; [|lia|nia]. apply store_out. nia.
  Qed.

  (** * footprints: an operation changes only the cells [writes_*] names *)
  Lemma csr_loop_other cut p k : forall b s,
    wl (csr_loop E cut p k b s) = wl s /\ wp (csr_loop E cut p k b s) = wp s /\
    wake (csr_loop E cut p k b s) = wake s.
  Proof. induction k as [|k IH]; intros b s; simpl; [auto|]. destruct (IH (b + 1) (csr_body E cut p b s)) as (-> & -> & ->). auto. Qed.

  Lemma csr_loop_bp_out cut p k : forall b s i,
    ((rz E && inr 0 N i) || inr 0 n i) = false -> bp (csr_loop E cut p k b s) i = bp s i.
  Proof.
    induction k as [|k IH]; intros b s i H; simpl; [reflexivity|]. rewrite IH by assumption.
    apply orb_false_iff in H. destruct H as [H1 H2]. simpl. unfold store at 1. rewrite H2.
    now apply clear_out.
  Qed.

  Lemma csr_loop_ff_out cut p k : forall b s i,
    inr 0 (hf + 1) i = false -> ff (csr_loop E cut p k b s) i = ff s i.
  Proof.
    induction k as [|k IH]; intros b s i H; simpl; [reflexivity|]. rewrite IH by assumption.
    simpl. unfold fwd, store. now rewrite H.
  Qed.

  Lemma csr_loop_csr_out cut p k : forall b s i, 0 <= b ->
    ~ (0 <= i < (b + Z.of_nat k) * N) -> csr (csr_loop E cut p k b s) i = csr s i.
  Proof.
    induction k as [|k IH]; intros b s i Hb H; simpl csr_loop; [reflexivity|].
    rewrite IH; [|lia|nia]. simpl. apply store_out. nia.
  Qed.

  Lemma csr_loop_csri_out cut p k : forall b s i, 0 <= b ->
    ~ (0 <= i < b + Z.of_nat k) -> csri (csr_loop E cut p k b s) i = csri s i.
  Proof.
    induction k as [|k IH]; intros b s i Hb H; simpl csr_loop; [reflexivity|].
    rewrite IH; [|lia|lia]. simpl. apply store_out. lia.
  Qed.

  Lemma has_bunch_false : has_bunch E = false -> buckets E = [].
  Proof. unfold has_bunch. destruct (buckets E); [reflexivity|discriminate]. Qed.

  Theorem footprint_sound (o : op T) (s : state T C) (i : Z) :
    (writes_bp E o i = false -> bp (step E o s) i = bp s i) /\
    (writes_ff E o i = false -> ff (step E o s) i = ff s i) /\
    (writes_wl E o i = false -> wl (step E o s) i = wl s i) /\
    (writes_wp E o i = false -> wp (step E o s) i = wp s i) /\
    (writes_wake E o i = false -> wake (step E o s) i = wake s i) /\
    (writes_csr E o i = false -> csr (step E o s) i = csr s i) /\
    (writes_csri E o i = false -> csri (step E o s) i = csri s i).
  Proof.
    destruct o as [p|p|cut p]; simpl.
    - (* Wake *)
      repeat split; intros H; try reflexivity.
      + apply orb_false_iff in H. destruct H as [H1 H2]. unfold pad_bp.
        rewrite pad_loop_out by exact H2. now apply clear_out.
      + unfold fwd, store. now rewrite H.
      + unfold store at 1. rewrite H. inr_cases. apply store_out. lia.
      + unfold store. now rewrite H.
      + inr_cases. apply rb_loop_out; [lia|]. exact H.
    - (* Pad *)
      repeat split; intros H; try reflexivity.
      apply orb_false_iff in H. destruct H as [H1 H2]. unfold pad_bp.
      rewrite pad_loop_out by exact H2. now apply clear_out.
    - (* CSR *)
      unfold do_csr. destruct (csr_loop_other cut p (length (buckets E)) 0 s) as (Hwl & Hwp & Hwk).
      rewrite Hwl, Hwp, Hwk.
      repeat split; intros H; try reflexivity.
      + destruct (has_bunch E) eqn:Hb; simpl in H.
        * now apply csr_loop_bp_out.
        * rewrite (has_bunch_false Hb). reflexivity.
      + destruct (has_bunch E) eqn:Hb; simpl in H.
        * now apply csr_loop_ff_out.
        * rewrite (has_bunch_false Hb). reflexivity.
      + inr_cases. apply csr_loop_csr_out; [lia|]. exact H.
      + inr_cases. apply csr_loop_csri_out; [lia|]. exact H.
  Qed.

  (** * the invariant of every history started from a fresh object *)
  Definition Inv (s : state T C) : Prop :=
    (forall i, hf < i -> ff s i = c0 E) /\ wl s hf = c0 E /\
    (forall i, ~ (0 <= i < N) -> wp s i = t0 E).

  Lemma inv_fresh : Inv (fresh E).
  Proof. repeat split. Qed.

  Lemma csr_loop_ff_upper cut p k : forall b s,
    (forall i, hf < i -> ff s i = c0 E) -> forall i, hf < i -> ff (csr_loop E cut p k b s) i = c0 E.
  Proof.
    intros b s H i Hi. rewrite csr_loop_ff_out; [now apply H|]. apply inr_false. lia.
  Qed.

  Lemma inv_step (HB : hypB E) (HN : 0 <= N) o s : Inv s -> Inv (step E o s).
  Proof.
    assert (Hh : 0 <= hf) by (unfold half; apply Z.div_pos; lia).
    intros (Hff & Hwl & Hwp). destruct o as [p|p|cut p]; simpl.
    - repeat split; simpl.
      + intros i Hi. unfold fwd. rewrite store_out by lia. now apply Hff.
      + rewrite store_in by lia. rewrite Z.sub_0_r. apply HB. fold (half E).
        rewrite nthZ_sample by lia. rewrite store_out by lia. exact Hwl.
      + intros i Hi. rewrite store_out by lia. now apply Hwp.
    - repeat split; assumption.
    - unfold do_csr. destruct (csr_loop_other cut p (length (buckets E)) 0 s) as (Hwl' & Hwp' & _).
      repeat split.
      + now apply csr_loop_ff_upper.
      + now rewrite Hwl'.
      + rewrite Hwp'. exact Hwp.
  Qed.

  Lemma inv_run (HB : hypB E) (HN : 0 <= N) h : forall s, Inv s -> Inv (run E h s).
  Proof. induction h as [|o h IH]; intros s Hs; simpl; [assumption|]. apply IH. now apply inv_step. Qed.

  (** * two states that agree where the next operation does not rewrite [bp] give the same results *)
  Definition bp_ok (o : op T) (s1 s2 : state T C) : Prop :=
    forall i, 0 <= i < N -> writes_bp E o i = false -> bp s1 i = bp s2 i.

  Lemma pad_bp_agree p buf1 buf2 i :
    (((rz E && inr 0 N i) || in_bucket E i) = false -> buf1 i = buf2 i) ->
    pad_bp E p buf1 i = pad_bp E p buf2 i.
  Proof.
    intros H. unfold pad_bp. apply pad_loop_agree. fold (in_bucket E i).
    destruct (in_bucket E i); [now right|left]. apply clear_agree.
    destruct (rz E && inr 0 N i); [now right|left]. now apply H.
  Qed.

  Lemma fwd_agree bp1 bp2 ff1 ff2 :
    (forall i, 0 <= i < N -> bp1 i = bp2 i) ->
    (forall i, hf < i -> ff1 i = c0 E) -> (forall i, hf < i -> ff2 i = c0 E) ->
    forall i, 0 <= i -> fwd E bp1 ff1 i = fwd E bp2 ff2 i.
  Proof.
    intros Hbp H1 H2 i Hi. unfold fwd. rewrite (sample_ext bp1 bp2 N Hbp).
    unfold store. destruct (inr 0 (hf + 1) i) eqn:Hr; [reflexivity|].
    inr_cases. rewrite H1, H2 by lia. reflexivity.
  Qed.

  Lemma csr_loop_agree cut p k :
    forall b s1 s2,
    (forall i, 0 <= i < N -> ((rz E && inr 0 N i) || inr 0 n i) = false -> bp s1 i = bp s2 i) ->
    (forall i, hf < i -> ff s1 i = c0 E) -> (forall i, hf < i -> ff s2 i = c0 E) ->
    forall i,
    ((csr s1 i = csr s2 i \/ b * N <= i < (b + Z.of_nat k) * N) ->
     csr (csr_loop E cut p k b s1) i = csr (csr_loop E cut p k b s2) i) /\
    ((csri s1 i = csri s2 i \/ b <= i < b + Z.of_nat k) ->
     csri (csr_loop E cut p k b s1) i = csri (csr_loop E cut p k b s2) i).
  Proof.
    induction k as [|k IH]; intros b s1 s2 Hbp H1 H2 i.
    - simpl. split; intros [H|H]; (assumption || lia).
    - simpl csr_loop.
      (* the new padded profiles agree on [0,N) *)
      assert (Hbp1 : forall j, 0 <= j < N -> bp (csr_body E cut p b s1) j = bp (csr_body E cut p b s2) j).
      { intros j Hj. cbn [csr_body bp]. unfold store. destruct (inr 0 n j) eqn:Hr; [reflexivity|].
        apply clear_agree. destruct (rz E && inr 0 N j) eqn:Hz; [now right|left].
        apply Hbp; [assumption|]. rewrite Hz, Hr. reflexivity. }
      assert (Hff1 : forall j, 0 <= j -> ff (csr_body E cut p b s1) j = ff (csr_body E cut p b s2) j).
      { intros j Hj. cbn [csr_body ff]. apply fwd_agree; assumption. }
      assert (Hrow : forall j, 0 <= j < N ->
                 csrcell E cut j (ff (csr_body E cut p b s1) j) = csrcell E cut j (ff (csr_body E cut p b s2) j)).
      { intros j Hj. rewrite Hff1 by lia. reflexivity. }
      specialize (IH (b + 1) (csr_body E cut p b s1) (csr_body E cut p b s2)).
      destruct (IH) with (i := i) as [IHc IHi].
      + intros j Hj Hw. exact (Hbp1 j Hj).
      + intros j Hj. simpl. unfold fwd. rewrite store_out by lia. now apply H1.
      + intros j Hj. simpl. unfold fwd. rewrite store_out by lia. now apply H2.
      + split; intros H.
        * apply IHc. simpl. unfold store. destruct (inr (b * N) N i) eqn:Hr.
          -- left. inr_cases. apply Hrow. lia.
          -- inr_cases. destruct H as [H|H]; [now left|right]. nia.
        * apply IHi. simpl. unfold store. destruct (inr b 1 i) eqn:Hr.
          -- left. f_equal. apply sample_ext. intros j Hj. now apply Hrow.
          -- inr_cases. destruct H as [H|H]; [now left|right]. lia.
  Qed.

  Lemma obs_agree o s1 s2 : Inv s1 -> Inv s2 -> bp_ok o s1 s2 ->
    observe E o (step E o s1) = observe E o (step E o s2).
  Proof.
    intros (Hff1 & Hwl1 & Hwp1) (Hff2 & Hwl2 & Hwp2) Hbp.
    destruct o as [p|p|cut p]; simpl.
    - (* Wake *)
      assert (Hb : forall i, 0 <= i < N -> pad_bp E p (bp s1) i = pad_bp E p (bp s2) i).
      { intros i Hi. apply pad_bp_agree. intros Hw. now apply Hbp. }
      assert (Hf : forall i, 0 <= i -> fwd E (pad_bp E p (bp s1)) (ff s1) i = fwd E (pad_bp E p (bp s2)) (ff s2) i).
      { apply fwd_agree; assumption. }
      assert (Hin : sample (store (wl s1) 0 hf (fun i => zmul E i (fwd E (pad_bp E p (bp s1)) (ff s1) i))) (hf + 1) =
                    sample (store (wl s2) 0 hf (fun i => zmul E i (fwd E (pad_bp E p (bp s2)) (ff s2) i))) (hf + 1)).
      { apply sample_ext. intros i Hi. unfold store. destruct (inr 0 hf i) eqn:Hr.
        - inr_cases. rewrite Hf by lia. reflexivity.
        - inr_cases. assert (i = hf) by lia. subst i. now rewrite Hwl1, Hwl2. }
      rewrite Hin.
      set (w1 := store (wp s1) 0 N _). set (w2 := store (wp s2) 0 N _).
      assert (Hw : forall j, w1 j = w2 j).
      { intros j. unfold w1, w2, store. destruct (inr 0 N j) eqn:Hr; [reflexivity|].
        inr_cases. rewrite Hwp1, Hwp2 by lia. reflexivity. }
      f_equal; [|f_equal; [|f_equal]].
      + apply sample_ext. intros i Hi. apply rb_loop_agree; [exact Hw|]. right. unfold nbun in Hi. lia.
      + apply sample_ext. intros i Hi. apply Hw.
      + apply sample_ext. exact Hb.
    - (* Pad *)
      f_equal. apply sample_ext. intros i Hi. apply pad_bp_agree. intros Hw. now apply Hbp.
    - (* CSR *)
      unfold do_csr, nbun. destruct (buckets E) as [|bk0 bks] eqn:Hbk.
      + reflexivity.
      + assert (Hbp' : forall i, 0 <= i < N -> ((rz E && inr 0 N i) || inr 0 n i) = false -> bp s1 i = bp s2 i).
        { intros i Hi Hw. apply Hbp; [assumption|]. simpl. unfold has_bunch. rewrite Hbk. simpl. exact Hw. }
        pose proof (csr_loop_agree cut p (length (bk0 :: bks)) 0 s1 s2 Hbp' Hff1 Hff2) as HL.
        f_equal; [|f_equal].
        * apply sample_ext. intros i Hi. apply (HL i). right. lia.
        * apply sample_ext. intros i Hi. apply (HL i). right. lia.
  Qed.

  (** * history independence under (A) and (B) *)
  (** (A) for a history [h] followed by [o]: no operation of [h] writes a cell of the padded
      buffer that [o] does not rewrite ("bp is zero outside the cells the next operation rewrites") *)
  Definition hypA (h : list (op T)) (o : op T) : Prop :=
    forall o', In o' h -> forall i, 0 <= i < N -> writes_bp E o' i = true -> writes_bp E o i = true.

  Lemma bp_zero_run o h : hypA h o -> forall s,
    (forall i, 0 <= i < N -> writes_bp E o i = false -> bp s i = t0 E) ->
    forall i, 0 <= i < N -> writes_bp E o i = false -> bp (run E h s) i = t0 E.
  Proof.
    induction h as [|o' h IH]; intros HA s Hs i Hi Hw; simpl; [now apply Hs|].
    apply IH; try assumption.
    - intros o'' Hin. apply HA. now right.
    - intros j Hj Hwj. destruct (footprint_sound o' s j) as [Hfp _]. rewrite Hfp; [now apply Hs|].
      destruct (writes_bp E o' j) eqn:Hw'; [|reflexivity].
      rewrite (HA o' (or_introl eq_refl) j Hj Hw') in Hwj. discriminate.
  Qed.

  Theorem history_independence_general (HB : hypB E) (HN : 0 <= N) h o :
    hypA h o ->
    observe E o (run E (h ++ [o]) (fresh E)) = observe E o (run E [o] (fresh E)).
  Proof.
    intros HA. unfold run at 1. rewrite fold_left_app. simpl. fold (run E h (fresh E)).
    apply obs_agree.
    - apply inv_run; [assumption|assumption|apply inv_fresh].
    - apply inv_fresh.
    - intros i Hi Hw. rewrite (bp_zero_run o h HA (fresh E)); try assumption; reflexivity.
  Qed.

  (** the fixed tree satisfies (A) for every history *)
  Theorem history_independence (HZ : rz E = true) (HB : hypB E) (HN : 0 <= N) h o :
    observe E o (run E (h ++ [o]) (fresh E)) = observe E o (run E [o] (fresh E)).
  Proof.
    destruct (buckets E) as [|bk0 bks] eqn:Hbk.
    - (* no bunch: nothing is observed of a CSR call; Wake/Pad rewrite all of bp *)
      destruct o as [p|p|cut p].
      + apply history_independence_general; try assumption.
        intros o' _ i Hi _. simpl. rewrite HZ. simpl. apply orb_true_iff. left. apply inr_true. lia.
      + apply history_independence_general; try assumption.
        intros o' _ i Hi _. simpl. rewrite HZ. simpl. apply orb_true_iff. left. apply inr_true. lia.
      + simpl. unfold nbun. rewrite Hbk. reflexivity.
    - apply history_independence_general; try assumption.
      intros o' _ i Hi _.
      assert (Hr : inr 0 N i = true) by (apply inr_true; lia).
      destruct o as [p|p|cut p]; simpl; unfold has_bunch; rewrite ?Hbk, HZ, Hr; reflexivity.
  Qed.

  (** the pinned tree (no clearing) satisfies (A) in three situations *)
  Definition is_csr (o : op T) : bool := match o with CSR _ _ => true | _ => false end.

  Lemma writes_bp_same_kind o1 o2 i : is_csr o1 = is_csr o2 -> writes_bp E o1 i = writes_bp E o2 i.
  Proof. destruct o1, o2; simpl; intros H; try discriminate; reflexivity. Qed.

  (** histories of one kind: wake/padding only (the program's wake field) or CSR only (the
      program's radiation field) *)
  Theorem history_independence_one_kind (HB : hypB E) (HN : 0 <= N) h o :
    (forall o', In o' h -> is_csr o' = is_csr o) ->
    observe E o (run E (h ++ [o]) (fresh E)) = observe E o (run E [o] (fresh E)).
  Proof.
    intros HK. apply history_independence_general; try assumption.
    intros o' Hin i Hi Hw. rewrite <- (writes_bp_same_kind o' o i (HK o' Hin)). exact Hw.
  Qed.

  (** a single bunch whose bucket starts at cell 0 of the padded buffer *)
  Theorem history_independence_single_bunch_origin (HB : hypB E) (HN : 0 <= N) bk h o :
    buckets E = [bk] -> bk * spc E = 0 ->
    observe E o (run E (h ++ [o]) (fresh E)) = observe E o (run E [o] (fresh E)).
  Proof.
    intros Hbk H0. apply history_independence_general; try assumption.
    intros o' _ i Hi Hw.
    assert (Hall : forall o'' : op T, writes_bp E o'' i = (rz E && inr 0 N i) || inr 0 n i).
    { intros o''. destruct o''; simpl; unfold in_bucket, has_bunch; rewrite Hbk; simpl; rewrite ?H0, ?orb_false_r; reflexivity. }
    rewrite Hall in *. exact Hw.
  Qed.

  Lemma hypB_strong_hypB : hypB_strong E -> hypB E.
  Proof. intros H l Hl. now rewrite H. Qed.
End Proofs.

(** * computed witnesses (small integer instance, transforms that mix all cells) *)
Definition idc (l : list (Z * Z)) := l.
Definition bumpc (l : list (Z * Z)) := map (fun c => (fst c + 1, snd c)) l.

(** pinned tree: updateCSR leaves the profile at offset 0, wakePotential with the first bucket
    at offset 3 does not clear it: ghost bunch *)
Definition E_ghost := toyE 2 8 3 [1] false idc.
Definition p_ghost : Z -> Z := lfun 0 [1; 2].

Lemma ghost_witness :
  observe E_ghost (Wake p_ghost) (run E_ghost ([CSR 0 p_ghost] ++ [Wake p_ghost]) (fresh E_ghost))
  <> observe E_ghost (Wake p_ghost) (run E_ghost [Wake p_ghost] (fresh E_ghost)).
Proof. vm_compute. discriminate. Qed.

(** pinned tree: two bunches, padBunchProfiles then updateCSR: the spectrum of bunch 0 is
    computed from a buffer that still holds bunch 1 at offset 3 *)
Definition E_stale := toyE 2 8 3 [0; 1] false idc.
Definition p_stale : Z -> Z := lfun 0 [1; 2; 3; 4].

Lemma stale_witness :
  observe E_stale (CSR 0 p_stale) (run E_stale ([Pad p_stale] ++ [CSR 0 p_stale]) (fresh E_stale))
  <> observe E_stale (CSR 0 p_stale) (run E_stale [CSR 0 p_stale] (fresh E_stale)).
Proof. vm_compute. discriminate. Qed.

Lemma idc_strong n N sp bks fx : hypB_strong (toyE n N sp bks fx idc).
Proof. intros l. reflexivity. Qed.

Theorem pinned_history_dependence :
  exists (E : env Z (Z * Z)) (h : list (op Z)) (o : op Z),
    rz E = false /\ hypB_strong E /\ 0 <= nmax E /\
    observe E o (run E (h ++ [o]) (fresh E)) <> observe E o (run E [o] (fresh E)).
Proof.
  exists E_ghost, [CSR 0 p_ghost], (Wake p_ghost).
  split; [reflexivity|]. split; [apply idc_strong|]. split; [vm_compute; discriminate|]. exact ghost_witness.
Qed.

Theorem pinned_history_dependence_csr :
  exists (E : env Z (Z * Z)) (h : list (op Z)) (o : op Z),
    rz E = false /\ hypB_strong E /\ 0 <= nmax E /\
    observe E o (run E (h ++ [o]) (fresh E)) <> observe E o (run E [o] (fresh E)).
Proof.
  exists E_stale, [Pad p_stale], (CSR 0 p_stale).
  split; [reflexivity|]. split; [apply idc_strong|]. split; [vm_compute; discriminate|]. exact stale_witness.
Qed.

(** hypothesis (B) cannot be dropped: an inverse transform that changes cell N/2 of its input
    makes the second of two identical calls differ from the first, even in the fixed tree *)
Definition E_clob := toyE 2 8 3 [1] true bumpc.

Theorem hypothesis_B_needed :
  exists (E : env Z (Z * Z)) (h : list (op Z)) (o : op Z),
    rz E = true /\ 0 <= nmax E /\ ~ hypB E /\
    observe E o (run E (h ++ [o]) (fresh E)) <> observe E o (run E [o] (fresh E)).
Proof.
  exists E_clob, [Wake p_ghost], (Wake p_ghost).
  split; [reflexivity|]. split; [vm_compute; discriminate|]. split.
  - intros H. specialize (H [(0,0);(0,0);(0,0);(0,0);(0,0)] eq_refl). vm_compute in H. discriminate.
  - vm_compute. discriminate.
Qed.

(** the hypotheses of the main theorem are satisfiable, and an instance computed *)
Definition E_fixed := toyE 2 8 3 [1] true idc.
Lemma fixed_hyps : rz E_fixed = true /\ hypB E_fixed /\ 0 <= nmax E_fixed.
Proof. split; [reflexivity|]. split; [apply hypB_strong_hypB, idc_strong|]. vm_compute. discriminate. Qed.

Lemma fixed_ghost_gone :
  observe E_fixed (Wake p_ghost) (run E_fixed ([CSR 0 p_ghost] ++ [Wake p_ghost]) (fresh E_fixed))
  = observe E_fixed (Wake p_ghost) (run E_fixed [Wake p_ghost] (fresh E_fixed)).
Proof. vm_compute. reflexivity. Qed.

Lemma pinned_hypA_example : hypA E_ghost [Wake p_ghost; Pad p_ghost] (Wake p_ghost).
Proof. intros o' Hin i Hi Hw. destruct Hin as [<-|[<-|[]]]; exact Hw. Qed.
