(** * First-moment transport of the energy kicks and the force law of one step (C05.1).

    A kick row written by updateSM for the stored offset [o] moves the row's first moment by
    minus the effective offset [eff_off n o] times the row's charge (content moves against the
    backward-mapping offset) and keeps the charge; two such kicks add up.  The wake kick and the
    RF kick are the two energy kicks at the head of the generated step order. *)
From Coq Require Import List ZArith QArith Qcanon Lia Bool Ring Field.
From Inovesa Require Import Base.FieldKit Base.Sums Base.Float32 Gen.Gen_Coeffs Model.Kick
  Model.StepKinds Gen.Gen_StepOrder Model.RunKinds Gen.Gen_WakeUpdate Gen.Gen_Identity Gen.Gen_KickIndex
  Model.Copy Model.WakeUpdate Model.Haiss Proofs.WeightsP Proofs.KickP Proofs.KickGridP Proofs.CopyP
  Proofs.HaissGenP.
Import ListNotations.
Local Open Scope Z_scope.

Definition M0 (n : Z) (r : Z -> Qc) : Qc := sumQ 0 (Z.to_nat n) r.
Definition M1 (n : Z) (r : Z -> Qc) : Qc := sumQ 0 (Z.to_nat n) (fun y => (Qcz y * r y)%Qc).

(** ** integers in Qc *)

Lemma Qcz_0 : Qcz 0 = 0%Qc.  Proof. reflexivity. Qed.
Lemma Qcz_1 : Qcz 1 = 1%Qc.  Proof. apply Qc_is_canon. reflexivity. Qed.

Lemma Qcz_sub a b : Qcz (a - b) = (Qcz a - Qcz b)%Qc.
Proof.
  assert (E : (Qcz (a - b) + Qcz b)%Qc = Qcz a) by (rewrite Qcz_add; f_equal; lia).
  rewrite <- E. ring.
Qed.

Lemma fposQ p : @fpos QcF p = Qcz (Zpos p).
Proof.
  induction p as [q IH|q IH|]; cbn [fpos].
  - rewrite IH. unfold two. qc_unf.
    replace (Zpos q~1) with (1 + (Zpos q + Zpos q)) by lia.
    rewrite <- !Qcz_add, Qcz_1. ring.
  - rewrite IH. unfold two. qc_unf.
    replace (Zpos q~0) with (Zpos q + Zpos q) by lia.
    rewrite <- !Qcz_add. ring.
  - qc_unf. symmetry. exact Qcz_1.
Qed.

Lemma fzQ z : @fz QcF z = Qcz z.
Proof.
  destruct z as [|p|p]; cbn [fz].
  - reflexivity.
  - apply fposQ.
  - rewrite fposQ. qc_unf.
    assert (E : (Qcz (Zpos p) + Qcz (Zneg p))%Qc = 0%Qc).
    { rewrite Qcz_add. replace (Z.pos p + Z.neg p) with 0 by lia. reflexivity. }
    assert (E2 : Qcz (Z.neg p) = (0 - Qcz (Z.pos p))%Qc) by (rewrite <- E; ring).
    rewrite E2. ring.
Qed.

(** [trunc + frac] gives the number back *)
Lemma split_sum n o :
  (Qcz (sp_int (poffs_split n o)) + sp_frac (poffs_split n o))%Qc = rnd32 (Qcz (n / 2) + o)%Qc.
Proof. unfold poffs_split; cbn [sp_int sp_frac]. unfold Qcfrac, Qcz. ring. Qed.

(** dot product with the stencil positions, as an indexed sum *)
Lemma fdot_nth (l : list Qc) (g : Z -> Qc) :
  @fdot QcF l (map g (zrange (Z.of_nat (length l)))) =
  sumQ 0 (length l) (fun j => (nthQ l j * g j)%Qc).
Proof.
  unfold zrange. rewrite Nat2Z.id. revert g.
  induction l as [|x l IH]; intros g; [reflexivity|].
  cbn [length seq map fdot sumZ]. rewrite <- seq_shift, !map_map.
  rewrite (map_ext _ (fun k => g (Z.of_nat k + 1))) by (intros k; f_equal; lia).
  rewrite <- (map_map Z.of_nat (fun z => g (z + 1))).
  rewrite (IH (fun z => g (z + 1))).
  rewrite <- (sumZ_shift QcF 0 (length l) (fun j => (nthQ (x :: l) j * g j)%Qc) 1).
  f_equal.
  apply (sumZ_ext QcF). intros j Hj. unfold nthQ.
  replace (Z.to_nat (j + 1)) with (S (Z.to_nat j)) by lia. reflexivity.
Qed.

(** ** one table row: first moment *)

Section RowMoment.
  Variables (n it : Z) (E : Z -> Z * Qc) (r : Z -> Qc).
  Hypothesis Hn : 0 < n < 2 ^ 30.
  Hypothesis Hidx : forall j, 0 <= j < it -> 0 <= fst (E j) < n.
  Variables (a b : Z).
  Hypothesis Hsupp : suppQ r a b.
  Hypothesis Hab : 0 <= a /\ a <= b /\ b <= n.
  Hypothesis Hshift : forall j, 0 <= j < it ->
      0 <= a - (fst (E j) - n / 2) /\ b - (fst (E j) - n / 2) <= n.

  Lemma shifted_moment s :
    sumQ 0 (Z.to_nat n) (fun u => (Qcz (u - s) * r u)%Qc) = (M1 n r - Qcz s * M0 n r)%Qc.
  Proof.
    unfold M1, M0.
    rewrite (sumZ_ext QcF _ _ _ (fun u => @fadd QcF (Qcz u * r u)%Qc (@fmul QcF (- Qcz s)%Qc (r u)))).
    2:{ intros u _. rewrite Qcz_sub. qc_unf. ring. }
    rewrite (sumZ_add QcF), (sumZ_scale QcF). qc_unf. ring.
  Qed.

  Lemma row_first_moment :
    sumQ 0 (Z.to_nat n) (fun y => (Qcz y * row_out n it E r y)%Qc) =
    sumQ 0 (Z.to_nat it)
         (fun j => (snd (E j) * (M1 n r - Qcz (fst (E j) - n / 2) * M0 n r))%Qc).
  Proof.
    rewrite (sumZ_ext QcF _ _ _ (fun y => sumQ 0 (Z.to_nat it)
               (fun j => @fmul QcF (Qcz y) (termQ n r (snd (E j)) (fst (E j) - n / 2) y)))).
    2:{ intros y Hy. rewrite (row_out_terms n it E r Hn Hidx y) by lia.
        symmetry. apply (sumZ_scale QcF). }
    rewrite (sumZ_swap QcF).
    apply (sumZ_ext QcF). intros j Hj. assert (Hj' : 0 <= j < it) by lia.
    destruct (Hshift j Hj') as [S1 S2].
    rewrite (term_sum_weighted QcF n r (snd (E j)) (fst (E j) - n / 2) a b Qcz)
      by (lia || assumption).
    rewrite shifted_moment. reflexivity.
  Qed.
End RowMoment.

(** ** the row written by updateSM for the offset [o] *)

Definition shift_lo (n it : Z) (o : Qc) : Z := sp_int (poffs_split n o) - centre it - n / 2.
Definition shift_hi (n it : Z) (o : Qc) : Z := sp_int (poffs_split n o) + (it - 1) - centre it - n / 2.

(** the whole stencil is inside the table range and the support [a,b) stays inside the grid
    under every stencil shift *)
Definition row_fits (n it : Z) (o : Qc) (a b : Z) : Prop :=
  let jd := sp_int (poffs_split n o) in
  0 <= jd - centre it /\ jd + (it - 1) - centre it < n /\
  0 <= a /\ a <= b /\ b <= n /\ 0 <= a - shift_hi n it o /\ b - shift_lo n it o <= n.

Lemma row_fits_ok n it o r a b : suppQ r a b -> row_fits n it o a b -> row_ok n it o r.
Proof.
  intros Hs (H1 & H2 & H3 & H4 & H5 & H6 & H7). unfold row_ok, shift_hi, shift_lo in *.
  repeat split; try assumption. exists a, b. repeat split; assumption || lia.
Qed.

Lemma krow_in n it o r y : 0 <= y < n -> krow n it o r y = row_out n it (sm_entry n it o) r y.
Proof.
  intros Hy. unfold krow.
  destruct (Z.leb_spec 0 y); destruct (Z.ltb_spec y n); cbn [andb]; try lia. reflexivity.
Qed.

Theorem krow_M0 n it o r a b :
  valid_it it -> 0 < n < 2 ^ 30 -> suppQ r a b -> row_fits n it o a b ->
  M0 n (krow n it o r) = M0 n r.
Proof.
  intros Hv Hn Hs Hf. unfold M0.
  rewrite (sumZ_ext QcF _ _ _ (row_out n it (sm_entry n it o) r))
    by (intros y Hy; apply krow_in; lia).
  apply sm_row_conserves; try assumption. exact (row_fits_ok n it o r a b Hs Hf).
Qed.

Lemma weights_sum it (f : Qc) :
  valid_it it -> sumQ 0 (Z.to_nat it) (fun j => nthQ (coeffs (K:=QcF) it f) j) = 1%Qc.
Proof.
  intros Hv. rewrite <- qsum_zrange.
  rewrite nthQ_sum by (apply (coeffs_length QcF); exact Hv).
  exact (coeffs_unity QcF it f Hv).
Qed.

Lemma weights_first_moment it (f : Qc) :
  valid_it it -> 2 <= it ->
  sumQ 0 (Z.to_nat it) (fun j => (nthQ (coeffs (K:=QcF) it f) j * Qcz (j - centre it))%Qc) = f.
Proof.
  intros Hv H2.
  pose (l := (coeffs (K:=QcF) it f : list Qc)).
  assert (L : Z.of_nat (length l) = it) by exact (coeffs_length QcF it f Hv).
  pose proof (fdot_nth l (fun j => Qcz (j - centre it))) as D.
  rewrite L in D. cbv beta in D.
  change (sumQ 0 (Z.to_nat it) (fun j => (nthQ l j * Qcz (j - centre it))%Qc) = f).
  replace (Z.to_nat it) with (length l) by lia.
  rewrite <- D.
  rewrite (map_ext _ (fun j => @fz QcF (j - centre it))) by (intros; symmetry; apply fzQ).
  exact (coeffs_first_moment QcF it f Hv H2).
Qed.

Theorem krow_M1 n it o r a b :
  valid_it it -> 2 <= it -> 0 < n < 2 ^ 30 -> suppQ r a b -> row_fits n it o a b ->
  M1 n (krow n it o r) = (M1 n r - eff_off n o * M0 n r)%Qc.
Proof.
  intros Hv H2 Hn Hs (F1 & F2 & F3 & F4 & F5 & F6 & F7).
  destruct (valid_it_range it Hv) as [Hi Hc]. unfold shift_hi, shift_lo in *.
  set (s := poffs_split n o) in *. set (jd := sp_int s) in *.
  assert (HE : forall j, 0 <= j < it ->
             sm_entry n it o j = (jd + j - centre it, nthQ (coeffs (K:=QcF) it (sp_frac s)) j)).
  { intros j Hj. apply sm_entry_inrange; assumption || lia. }
  unfold M1 at 1.
  rewrite (sumZ_ext QcF _ _ _ (fun y => (Qcz y * row_out n it (sm_entry n it o) r y)%Qc))
    by (intros y Hy; rewrite krow_in by lia; reflexivity).
  rewrite (row_first_moment n it (sm_entry n it o) r Hn) with (a := a) (b := b);
    try assumption; try lia.
  2:{ intros j Hj. rewrite HE by lia. cbn [fst]. lia. }
  2:{ intros j Hj. rewrite HE by lia. cbn [fst]. lia. }
  set (A := M1 n r). set (M := M0 n r). set (w := nthQ (coeffs (K:=QcF) it (sp_frac s))).
  rewrite (sumZ_ext QcF _ _ _ (fun j =>
     @fadd QcF (@fmul QcF (A - Qcz (jd - n / 2) * M)%Qc (w j))
               (@fmul QcF (- M)%Qc (w j * Qcz (j - centre it))%Qc))).
  2:{ intros j Hj. rewrite HE by lia. cbn [fst snd]. fold w.
      replace (jd + j - centre it - n / 2) with ((jd - n / 2) + (j - centre it)) by lia.
      rewrite <- Qcz_add. qc_unf. ring. }
  rewrite (sumZ_add QcF), !(sumZ_scale QcF). unfold w.
  rewrite weights_sum by assumption. rewrite weights_first_moment by assumption.
  unfold eff_off. rewrite <- split_sum. fold s. fold jd. rewrite Qcz_sub. qc_unf. ring.
Qed.

(** support of the kicked row *)
Lemma krow_supp n it o r a b :
  valid_it it -> 0 < n < 2 ^ 30 -> suppQ r a b -> row_fits n it o a b ->
  suppQ (krow n it o r) (a - shift_hi n it o) (b - shift_lo n it o).
Proof.
  intros Hv Hn Hs (F1 & F2 & F3 & F4 & F5 & F6 & F7) y Hy.
  destruct (valid_it_range it Hv) as [Hi Hc]. unfold shift_hi, shift_lo in *.
  set (jd := sp_int (poffs_split n o)) in *.
  unfold krow. destruct ((0 <=? y) && (y <? n))%bool eqn:Ein; [|reflexivity].
  apply andb_prop in Ein. destruct Ein as [E1 E2]. apply Z.leb_le in E1. apply Z.ltb_lt in E2.
  assert (HE : forall j, 0 <= j < it -> fst (sm_entry n it o j) = jd + j - centre it).
  { intros j Hj. rewrite sm_entry_inrange by (assumption || lia). reflexivity. }
  rewrite (row_out_terms n it (sm_entry n it o) r Hn); [|intros j Hj; rewrite HE by lia; lia|lia].
  apply (sumZ_zero QcF). intros j Hj. unfold term.
  destruct ((0 <=? _) && (_ <? n))%bool; [|reflexivity].
  rewrite HE by lia. rewrite Hs by lia. qc_unf. ring.
Qed.

(** ** two energy kicks in a row *)

Theorem two_kicks n it o1 o2 r a b :
  valid_it it -> 2 <= it -> 0 < n < 2 ^ 30 -> suppQ r a b ->
  row_fits n it o1 a b ->
  row_fits n it o2 (a - shift_hi n it o1) (b - shift_lo n it o1) ->
  M0 n (krow n it o2 (krow n it o1 r)) = M0 n r /\
  M1 n (krow n it o2 (krow n it o1 r)) = (M1 n r - (eff_off n o1 + eff_off n o2) * M0 n r)%Qc.
Proof.
  intros Hv H2 Hn Hs F1 F2.
  pose proof (krow_supp n it o1 r a b Hv Hn Hs F1) as Hs1.
  split.
  - rewrite (krow_M0 n it o2 _ _ _ Hv Hn Hs1 F2). exact (krow_M0 n it o1 r a b Hv Hn Hs F1).
  - rewrite (krow_M1 n it o2 _ _ _ Hv H2 Hn Hs1 F2).
    rewrite (krow_M1 n it o1 r a b Hv H2 Hn Hs F1), (krow_M0 n it o1 r a b Hv Hn Hs F1). ring.
Qed.

(** ** the generated step order *)

Definition kick_off (ow orf : Qc) (m : smap) : Qc :=
  match m with MWake => ow | MRF => orf | _ => 0%Qc end.

Theorem step_order_checked : step_order = [MWake; MRF; MDrift; MFP].
Proof. reflexivity. Qed.

(** the wake update precedes the maps, the projection is refreshed after them *)
Theorem step_events_checked :
  step_events = [EUpdate; EApply MWake; EApply MRF; EApply MDrift; EApply MFP; EXProj].
Proof. reflexivity. Qed.

Theorem force_law_row n it ow orf r a b :
  valid_it it -> 2 <= it -> 0 < n < 2 ^ 30 -> suppQ r a b ->
  row_fits n it ow a b ->
  row_fits n it orf (a - shift_hi n it ow) (b - shift_lo n it ow) ->
  let r' := row_kicks n it (kick_off ow orf) (ykick_prefix step_order) r in
  M0 n r' = M0 n r /\
  M1 n r' = (M1 n r - (eff_off n ow + eff_off n orf) * M0 n r)%Qc.
Proof.
  intros Hv H2 Hn Hs F1 F2.
  change (ykick_prefix step_order) with [MWake; MRF].
  cbn [row_kicks fold_left kick_off].
  exact (two_kicks n it ow orf r a b Hv H2 Hn Hs F1 F2).
Qed.

(** ** the rows of the grid-level kick are [krow]s of the stored offsets *)

Lemma in_range_true n i : 0 <= i < n -> in_range n i = true.
Proof. intros H. unfold in_range. destruct (Z.leb_spec 0 i); destruct (Z.ltb_spec i n); cbn [andb]; lia || reflexivity. Qed.
Lemma in_range_false n i : i < 0 \/ n <= i -> in_range n i = false.
Proof. intros H. unfold in_range. destruct (Z.leb_spec 0 i); destruct (Z.ltb_spec i n); cbn [andb]; lia || reflexivity. Qed.

(** a table row reads its input at cells 0 <= ys < n only *)
Lemma row_out_restrict n it E (r : Z -> Qc) y :
  0 < n -> row_out n it E r y = row_out n it E (fun ys => if in_range n ys then r ys else 0%Qc) y.
Proof.
  intros Hn. unfold row_out. f_equal. apply map_ext. intros j. cbv zeta.
  set (ys := wrap32 _). destruct (Z.ltb_spec ys n) as [L|G]; [|reflexivity].
  assert (0 <= ys) by (unfold ys, wrap32; apply Z.mod_pos_bound; reflexivity).
  rewrite in_range_true by lia. reflexivity.
Qed.

Lemma krow_ext n it o (r r' : Z -> Qc) y : (forall u, r u = r' u) -> krow n it o r y = krow n it o r' y.
Proof.
  intros H. unfold krow. destruct (_ && _)%bool; [|reflexivity].
  unfold row_out. f_equal. apply map_ext. intros j. cbv zeta. rewrite H. reflexivity.
Qed.

Lemma apply_y_is_krow n nb it (offs D : Z -> Qc) b x y :
  valid_it it -> 0 < n -> 0 < nb -> 0 <= b < nb -> 0 <= x < n -> 0 <= y < n ->
  apply_y n nb it (updateSM n it offs) D (didx n b x y) =
  krow n it (offs (b * n + x)) (rowD n D b x) y.
Proof.
  intros Hv Hn Hnb Hb Hx Hy. destruct (valid_it_range it Hv) as [Hi Hc].
  rewrite krow_in by lia. unfold rowD.
  rewrite <- (row_out_restrict n it _ (fun ys => D (didx n b x ys)) y Hn).
  unfold apply_y. rewrite didx_flat.
  destruct (cell_decode n b x y) as (-> & -> & ->); try lia.
  unfold apply_y_cell, row_out. f_equal. apply map_ext_in. intros j Hj.
  unfold zrange in Hj. apply in_map_iff in Hj. destruct Hj as (k & <- & Hk). apply in_seq in Hk.
  unfold updateSM, hidx_y. replace (Z.min b (nb - 1)) with b by lia.
  rewrite (div_lin (b * n + x) it (Z.of_nat k)) by lia.
  rewrite (mod_lin (b * n + x) it (Z.of_nat k)) by lia.
  reflexivity.
Qed.

(** the same for a kick along x (drift): the columns are [krow]s of the per-energy offsets *)
Lemma apply_x_is_krow n nb it (offs D : Z -> Qc) b x y :
  valid_it it -> 0 < n -> 0 < nb -> 0 <= b < nb -> 0 <= x < n -> 0 <= y < n ->
  apply_x n nb it (updateSM n it offs) D (didx n b x y) =
  krow n it (offs y) (colD n D b y) x.
Proof.
  intros Hv Hn Hnb Hb Hx Hy. destruct (valid_it_range it Hv) as [Hi Hc].
  rewrite krow_in by lia. unfold colD.
  rewrite <- (row_out_restrict n it _ (fun xs => D (didx n b xs y)) x Hn).
  unfold apply_x. rewrite didx_flat.
  destruct (cell_decode n b x y) as (-> & -> & ->); try lia.
  unfold apply_x_cell, row_out. f_equal. apply map_ext_in. intros j Hj.
  unfold zrange in Hj. apply in_map_iff in Hj. destruct Hj as (k & <- & Hk). apply in_seq in Hk.
  unfold updateSM, hidx_x.
  rewrite (div_lin y it (Z.of_nat k)) by lia.
  rewrite (mod_lin y it (Z.of_nat k)) by lia.
  reflexivity.
Qed.

(** ** the y-kick as the source has it (generated indices, generated [_lastbunch]) *)

Lemma M0_ext n (r r' : Z -> Qc) : (forall y, r y = r' y) -> M0 n r = M0 n r'.
Proof. intros H. apply (sumZ_ext QcF). intros y _. apply H. Qed.
Lemma M1_ext n (r r' : Z -> Qc) : (forall y, r y = r' y) -> M1 n r = M1 n r'.
Proof. intros H. apply (sumZ_ext QcF). intros y _. rewrite H. reflexivity. Qed.

Lemma didx_in_range n nb b x y :
  0 < n -> 0 <= b < nb -> 0 <= x < n -> 0 <= y < n -> in_range (nb * n * n) (didx n b x y) = true.
Proof. intros Hn Hb Hx Hy. apply in_range_true. unfold didx. nia. Qed.

Lemma krow_out n it o r y : y < 0 \/ n <= y -> krow n it o r y = 0%Qc.
Proof. intros H. unfold krow. change ((0 <=? y) && (y <? n))%bool with (in_range n y). rewrite in_range_false by exact H. reflexivity. Qed.

Lemma in_zrange j m : In j (zrange m) -> 0 <= j < m.
Proof.
  intros Hj. unfold zrange in Hj. apply in_map_iff in Hj. destruct Hj as (k & <- & Hk).
  apply in_seq in Hk. lia.
Qed.

(** the generated index expressions of the y branch, for any [_lastbunch]: proved by [ring] only,
    so a re-associated product survives and a changed stride or a dropped bunch offset does not *)
Lemma ky_src_gen kd pd ip lb b x y j h : ky_src kd pd ip lb b x y j h = y + h - kd / 2.
Proof. unfold ky_src. ring. Qed.
Lemma ky_bound_gen kd pd ip lb b x y j : ky_bound kd pd ip lb b x y j = pd.
Proof. reflexivity. Qed.
Lemma ky_read_gen n ip lb b x y j s : ky_read n n ip lb b x y j s = didx n b x s.
Proof. unfold ky_read, didx. ring. Qed.

(** the table entry the y branch reads for (bunch b, row x, stencil point j) lies in bunch b's OWN
    block: [min(b,_lastbunch) = b] with the generated [_lastbunch] *)
Lemma ky_hinfo_own n nb it b x y j :
  0 <= b < nb ->
  ky_hinfo (wk_kd n nb) (wk_pd n nb) it (km_lastbunch nb) b x y j = (b * n + x) * it + j.
Proof.
  intros Hb. unfold ky_hinfo.
  first [ rewrite hg_km_lastbunch_model by exact Hb
        | rewrite (Z.min_comm (km_lastbunch nb) b), hg_km_lastbunch_model by exact Hb ].
  rewrite hg_wk_pd_model. ring.
Qed.

(** one output cell: if the table holds, where the y branch looks for (b,x), the row built from
    the offset [o], the cell is the [krow] of [o] on the bunch's own row *)
Lemma ykick_cell_is_krow n nb it (H : Z -> Z * Qc) (D : Z -> Qc) o b x y :
  0 < n -> 0 <= b < nb -> 0 <= x < n -> 0 <= y < n ->
  (forall j, 0 <= j < it ->
     H (ky_hinfo (wk_kd n nb) (wk_pd n nb) it (km_lastbunch nb) b x y j) = sm_entry n it o j) ->
  ykick_cell n nb it H D b x y = krow n it o (rowD n D b x) y.
Proof.
  intros Hn Hb Hx Hy HH. rewrite krow_in by lia. unfold rowD.
  rewrite <- (row_out_restrict n it _ (fun ys => D (didx n b x ys)) y Hn).
  unfold ykick_cell, row_out. cbv zeta. apply (f_equal qsum). apply map_ext_in. intros j Hj.
  apply in_zrange in Hj. rewrite HH by exact Hj.
  rewrite hg_wk_kd_model, hg_wk_pd_model, ky_src_gen, ky_bound_gen, ky_read_gen. reflexivity.
Qed.

Lemma rowD_gykick n nb it (H : Z -> Z * Qc) (D : Z -> Qc) o b x y :
  0 < n -> 0 <= b < nb -> 0 <= x < n ->
  (forall y' j, 0 <= y' < n -> 0 <= j < it ->
     H (ky_hinfo (wk_kd n nb) (wk_pd n nb) it (km_lastbunch nb) b x y' j) = sm_entry n it o j) ->
  rowD n (gykick n nb it H D) b x y = krow n it o (rowD n D b x) y.
Proof.
  intros Hn Hb Hx HH. unfold rowD at 1.
  destruct (in_range n y) eqn:E.
  - unfold in_range in E. apply andb_prop in E. destruct E as [E1' E2]. apply Z.leb_le in E1'. apply Z.ltb_lt in E2.
    unfold gykick. rewrite (didx_in_range n nb b x y) by lia. rewrite didx_flat.
    destruct (cell_decode n b x y) as (-> & -> & ->); try lia.
    apply ykick_cell_is_krow; try lia. intros j Hj. apply HH; lia.
  - symmetry. apply krow_out. unfold in_range in E. apply andb_false_iff in E.
    destruct E as [E|E]; [left; apply Z.leb_gt in E | right; apply Z.ltb_ge in E]; lia.
Qed.

(** what the two tables hold where the y branch looks for bunch [b]: the row built from bunch b's
    own wake potential entry (WakePotentialMap::update, generated program; Proofs/HaissGenP.v) and
    from the RF offset of bunch b's block (KickMap::updateSM, generated loops) *)
Lemma wake_table_own n nb it wp b x y j :
  valid_it it -> 0 < n -> 0 <= b < nb -> 0 <= x < n -> 0 <= j < it ->
  wake_table n nb it wp (ky_hinfo (wk_kd n nb) (wk_pd n nb) it (km_lastbunch nb) b x y j) =
  sm_entry n it (wp (b * n + x)) j.
Proof.
  intros Hv Hn Hb Hx Hj. destruct (valid_it_range it Hv) as [Hi _].
  rewrite ky_hinfo_own by exact Hb.
  assert (Hr : 0 <= b * n + x < nb * n) by nia.
  assert (Hk : 0 <= (b * n + x) * it + j < nb * n * it) by nia.
  rewrite hg_wake_table_spec by (try exact Hk; lia).
  unfold updateSM. rewrite div_lin, mod_lin by lia. reflexivity.
Qed.

(** the offset-vector entry of bunch b's own block after update() (what /WakePotential/data records) *)
Lemma wake_offsets_own n nb it wp b x :
  0 < n -> 0 <= b < nb -> 0 <= x < n ->
  wake_offsets n nb it wp (Z.min b (km_lastbunch nb) * wk_pd n nb + x) = wp (b * n + x).
Proof.
  intros Hn Hb Hx. rewrite hg_km_lastbunch_model by exact Hb. rewrite hg_wk_pd_model.
  rewrite hg_wake_offsets_spec. rewrite in_rng_true by nia. reflexivity.
Qed.

Lemma rf_table_own n nb it t xc b x y j :
  valid_it it -> 0 < n -> 0 <= b < nb -> 0 <= x < n -> 0 <= j < it ->
  rf_table n nb it t xc (ky_hinfo (wk_kd n nb) (wk_pd n nb) it (km_lastbunch nb) b x y j) =
  sm_entry n it (rf_offsets nb n t xc (b * n + x)) j.
Proof.
  intros Hv Hn Hb Hx Hj. destruct (valid_it_range it Hv) as [Hi _].
  rewrite ky_hinfo_own by exact Hb.
  unfold rf_table. rewrite hg_wk_kd_model, hg_wk_offset_size_model.
  assert (Hr : 0 <= b * n + x < nb * n) by nia.
  assert (Hsz : 0 <= nb * n) by lia.
  assert (Hk : 0 <= (b * n + x) * it + j < nb * n * it) by nia.
  rewrite hg_updateSM_loop_spec by lia.
  rewrite in_rng_true by exact Hk. unfold updateSM. rewrite div_lin, mod_lin by lia. reflexivity.
Qed.

(** the rows of the two energy kicks of the grid, for EVERY bunch *)
Theorem gkick_wake_rows n nb it wp (D : Z -> Qc) b x y :
  valid_it it -> 0 < n -> 0 <= b < nb -> 0 <= x < n ->
  rowD n (gkick_wake n nb it wp D) b x y = krow n it (wp (b * n + x)) (rowD n D b x) y.
Proof.
  intros Hv Hn Hb Hx. unfold gkick_wake. apply rowD_gykick; try assumption.
  intros y' j Hy Hj. apply wake_table_own; assumption.
Qed.

Theorem gkick_rf_rows n nb it t xc (D : Z -> Qc) b x y :
  valid_it it -> 0 < n -> 0 <= b < nb -> 0 <= x < n ->
  rowD n (gkick_rf n nb it t xc D) b x y = krow n it (rf_offsets nb n t xc (b * n + x)) (rowD n D b x) y.
Proof.
  intros Hv Hn Hb Hx. unfold gkick_rf. apply rowD_gykick; try assumption.
  intros y' j Hy Hj. apply rf_table_own; assumption.
Qed.

Lemma rf_offsets_in nb n t xc b x :
  0 < n -> 0 <= b < nb -> 0 <= x < n ->
  rf_offsets nb n t xc (b * n + x) = rnd32 (t * rnd32 (xc - Qcz x))%Qc.
Proof.
  intros Hn Hb Hx. unfold rf_offsets.
  assert (Hi : 0 <= b * n + x < nb * n) by nia.
  destruct (Z.leb_spec 0 (b * n + x)); destruct (Z.ltb_spec (b * n + x) (nb * n)); cbn [andb]; try lia.
  rewrite mod_lin by lia. reflexivity.
Qed.

Theorem gkick_rf_rows_offsets n nb it t xc (D : Z -> Qc) b x y :
  valid_it it -> 0 < n -> 0 <= b < nb -> 0 <= x < n ->
  rowD n (gkick_rf n nb it t xc D) b x y = krow n it (rf_offsets nb n t xc (b * n + x)) (rowD n D b x) y /\
  rf_offsets nb n t xc (b * n + x) = rnd32 (t * rnd32 (xc - Qcz x))%Qc.
Proof.
  intros Hv Hn Hb Hx. split; [apply gkick_rf_rows; assumption | apply rf_offsets_in; assumption].
Qed.

(** ** force law with the offsets the code stores (C05.1), for every bunch *)

(** row (b,x) of the grid after the energy kicks at the head of the generated step order, applied
    as the code applies them ([energy_kicks]): charge kept, first moment moved by minus the sum of
    the effective offsets of bunch b's OWN wake potential entry and of the RF offset *)
Theorem wake_kick_force_law_eff n nb it (wp : Z -> Qc) (t xc : Qc) (D : Z -> Qc) b x a bb :
  valid_it it -> 2 <= it -> 0 < n < 2 ^ 30 -> 0 <= b < nb -> 0 <= x < n ->
  let i := b * n + x in
  let W := wp i in
  let orf := rf_offsets nb n t xc i in
  let r := rowD n D b x in
  suppQ r a bb ->
  row_fits n it W a bb ->
  row_fits n it orf (a - shift_hi n it W) (bb - shift_lo n it W) ->
  let r' := rowD n (energy_kicks n nb it wp t xc (ykick_prefix step_order) D) b x in
  wp_flat nb n b x = i /\
  wake_offsets n nb it wp (Z.min b (km_lastbunch nb) * wk_pd n nb + x) = W /\
  M0 n r' = M0 n r /\
  M1 n r' = (M1 n r - (eff_off n W + eff_off n orf) * M0 n r)%Qc.
Proof.
  intros Hv H2 Hn Hb Hx i W orf r Hs F1 F2 r'.
  split; [apply hg_wp_flat_model|]. split.
  { apply wake_offsets_own; assumption || lia. }
  assert (E : forall y, r' y = krow n it orf (krow n it W r) y).
  { intros y. unfold r'. change (ykick_prefix step_order) with [MWake; MRF].
    cbn [energy_kicks fold_left energy_kick].
    rewrite gkick_rf_rows by (assumption || lia). apply krow_ext. intros u.
    apply gkick_wake_rows; assumption || lia. }
  rewrite (M0_ext n _ _ E), (M1_ext n _ _ E).
  exact (two_kicks n it W orf r a bb Hv H2 Hn Hs F1 F2).
Qed.

(** ... and in the literal form of the property, for every bunch, when the float operations
    involved are exact on the stored values: the row-wise mean energy index of row x of bunch b
    changes by t*(x - xc) - W_b(x) cells, W_b(x) = wp(b*n+x) bunch b's own wake potential *)
Theorem wake_kick_force_law n nb it (wp : Z -> Qc) (t xc : Qc) (D : Z -> Qc) b x a bb :
  valid_it it -> 2 <= it -> 0 < n < 2 ^ 30 -> 0 <= b < nb -> 0 <= x < n ->
  let W := wp (b * n + x) in
  let orf := rf_offsets nb n t xc (b * n + x) in
  let r := rowD n D b x in
  suppQ r a bb ->
  row_fits n it W a bb ->
  row_fits n it orf (a - shift_hi n it W) (bb - shift_lo n it W) ->
  rnd32 (xc - Qcz x)%Qc = (xc - Qcz x)%Qc ->
  rnd32 (t * (xc - Qcz x))%Qc = (t * (xc - Qcz x))%Qc ->
  rnd32 (Qcz (n / 2) + W)%Qc = (Qcz (n / 2) + W)%Qc ->
  rnd32 (Qcz (n / 2) + t * (xc - Qcz x))%Qc = (Qcz (n / 2) + t * (xc - Qcz x))%Qc ->
  let r' := rowD n (energy_kicks n nb it wp t xc (ykick_prefix step_order) D) b x in
  M0 n r' = M0 n r /\
  M1 n r' = (M1 n r + (t * (Qcz x - xc) - W) * M0 n r)%Qc.
Proof.
  intros Hv H2 Hn Hb Hx W orf r Hs F1 F2 R0 R1 R2 R3 r'.
  destruct (wake_kick_force_law_eff n nb it wp t xc D b x a bb Hv H2 Hn Hb Hx Hs F1 F2)
    as (_ & _ & C0 & C1).
  split; [exact C0|].
  unfold r', r. rewrite C1. fold W.
  rewrite rf_offsets_in by (assumption || lia). rewrite R0, R1.
  unfold eff_off. rewrite R2, R3. ring.
Qed.

(** ** example data for the non-vacuity examples of Props/Properties_C05.v *)
Definition ex_wp : Z -> Qc := fun _ => Q2Qc (1 # 4).
Definition ex_t : Qc := Q2Qc (1 # 8).
Definition ex_xc : Qc := Q2Qc (11 # 2).
Definition ex_D : Z -> Qc := fun i => if (i =? 4 * 12 + 5) then Qcz 3 else if (i =? 4 * 12 + 6) then Qcz 5 else 0%Qc.
(** two bunches with unequal wakes: 1/4 cell everywhere in bunch 0, 1/2 cell in bunch 1; data 3,5 in
    cells 5,6 of row 4 of bunch 1 (and 2,1 in the same cells of bunch 0) *)
Definition ex2_wp : Z -> Qc := fun i => if i <? 12 then Q2Qc (1 # 4) else Q2Qc (1 # 2).
Definition ex2_D : Z -> Qc := fun i =>
  if (i =? 144 + 4 * 12 + 5) then Qcz 3 else if (i =? 144 + 4 * 12 + 6) then Qcz 5 else
  if (i =? 4 * 12 + 5) then Qcz 2 else if (i =? 4 * 12 + 6) then Qcz 1 else 0%Qc.

Lemma ex_D_supp : suppQ (rowD 12 ex_D 0 4) 5 7.
Proof.
  intros y Hy. unfold rowD. destruct (in_range 12 y) eqn:E; [|reflexivity].
  unfold ex_D, didx.
  destruct (Z.eqb_spec (0 * 12 * 12 + 4 * 12 + y) (4 * 12 + 5)); [lia|].
  destruct (Z.eqb_spec (0 * 12 * 12 + 4 * 12 + y) (4 * 12 + 6)); [lia|]. reflexivity.
Qed.

Lemma ex2_D_supp : suppQ (rowD 12 ex2_D 1 4) 5 7.
Proof.
  intros y Hy. unfold rowD. destruct (in_range 12 y) eqn:E; [|reflexivity].
  apply andb_prop in E. destruct E as [E1 E2]. apply Z.leb_le in E1. apply Z.ltb_lt in E2.
  unfold ex2_D, didx.
  destruct (Z.eqb_spec (1 * 12 * 12 + 4 * 12 + y) (144 + 4 * 12 + 5)); [lia|].
  destruct (Z.eqb_spec (1 * 12 * 12 + 4 * 12 + y) (144 + 4 * 12 + 6)); [lia|].
  destruct (Z.eqb_spec (1 * 12 * 12 + 4 * 12 + y) (4 * 12 + 5)); [lia|].
  destruct (Z.eqb_spec (1 * 12 * 12 + 4 * 12 + y) (4 * 12 + 6)); [lia|]. reflexivity.
Qed.

Lemma force_law_example_hypotheses :
  let W := ex_wp (0 * 12 + 4) in
  let orf := rf_offsets 1 12 ex_t ex_xc (0 * 12 + 4) in
  suppQ (rowD 12 ex_D 0 4) 5 7 /\
  row_fits 12 4 W 5 7 /\
  row_fits 12 4 orf (5 - shift_hi 12 4 W) (7 - shift_lo 12 4 W) /\
  rnd32 (ex_xc - Qcz 4)%Qc = (ex_xc - Qcz 4)%Qc /\
  rnd32 (ex_t * (ex_xc - Qcz 4))%Qc = (ex_t * (ex_xc - Qcz 4))%Qc /\
  rnd32 (Qcz (12 / 2) + W)%Qc = (Qcz (12 / 2) + W)%Qc /\
  rnd32 (Qcz (12 / 2) + ex_t * (ex_xc - Qcz 4))%Qc = (Qcz (12 / 2) + ex_t * (ex_xc - Qcz 4))%Qc.
Proof.
  cbv zeta. split; [exact ex_D_supp|].
  repeat split; try (apply Qc_is_canon; vm_compute; reflexivity);
    vm_compute; try discriminate; reflexivity.
Qed.

Lemma force_law_example2_hypotheses :
  let W := ex2_wp (1 * 12 + 4) in
  let orf := rf_offsets 2 12 ex_t ex_xc (1 * 12 + 4) in
  suppQ (rowD 12 ex2_D 1 4) 5 7 /\
  row_fits 12 4 W 5 7 /\
  row_fits 12 4 orf (5 - shift_hi 12 4 W) (7 - shift_lo 12 4 W) /\
  rnd32 (ex_xc - Qcz 4)%Qc = (ex_xc - Qcz 4)%Qc /\
  rnd32 (ex_t * (ex_xc - Qcz 4))%Qc = (ex_t * (ex_xc - Qcz 4))%Qc /\
  rnd32 (Qcz (12 / 2) + W)%Qc = (Qcz (12 / 2) + W)%Qc /\
  rnd32 (Qcz (12 / 2) + ex_t * (ex_xc - Qcz 4))%Qc = (Qcz (12 / 2) + ex_t * (ex_xc - Qcz 4))%Qc /\
  ex2_wp (1 * 12 + 4) <> ex2_wp (0 * 12 + 4).
Proof.
  cbv zeta. split; [exact ex2_D_supp|].
  repeat split; try (apply Qc_is_canon; vm_compute; reflexivity);
    vm_compute; try discriminate; reflexivity.
Qed.
