(** Lemmas about Model/Restart.v: induction over the second leg (DESIGN 5/C11.2-4). *)
From Coq Require Import List ZArith Bool Lia.
From Inovesa Require Import Model.Restart.
Import ListNotations.
Local Open Scope Z_scope.

Section RestartP.
  Variables G P F : Type.
  Variable projX : G -> P.
  Variable integ : P -> F.
  Variable normW : F -> G -> G.
  Variable maps : P -> G -> G.

  Notation pst := (pst G P F).
  Notation body := (body G P F projX integ normW maps).
  Notation iter := (iter G P F projX integ normW maps).
  Notation head := (head G P F integ normW).
  Notation prepare := (prepare G P F projX integ normW).
  Notation stored := (stored G P F integ normW).
  Notation single := (single G P F projX integ normW maps).
  Notation continued := (continued G P F projX integ normW maps).
  Notation run_from := (run_from G P F projX integ normW maps).
  Notation loaded := (loaded G P F).
  Notation norm := (norm G P F projX integ normW).
  Notation snorm := (snorm G F normW).

  (** the dynamic part of the object: grid and cached x-projection ([fill] is recomputed by the
      loop head before it is read) *)
  Definition sim (a b : pst) : Prop := grid _ _ _ a = grid _ _ _ b /\ xproj _ _ _ a = xproj _ _ _ b.
  (** the cached x-projection is the projection of the grid *)
  Definition Inv (s : pst) : Prop := xproj _ _ _ s = projX (grid _ _ _ s).

  Lemma sim_refl a : sim a a.  Proof. split; reflexivity. Qed.
  Lemma sim_trans a b c : sim a b -> sim b c -> sim a c.
  Proof. intros [A1 A2] [B1 B2]. split; congruence. Qed.

  Lemma head_sim r k a b : sim a b -> head r k a = head r k b.
  Proof.
    intros [Hg Hp]. unfold Restart.head, normalize, integrate. destruct a, b; cbn in *. subst.
    destruct (renorm_at r k); reflexivity.
  Qed.

  Lemma body_sim r k a b : sim a b -> body r k a = body r k b.
  Proof.
    intros H. unfold Restart.body. rewrite (head_sim r k a b H). destruct H as [_ Hp]. rewrite Hp. reflexivity.
  Qed.

  Lemma iter_sim r m : forall k a b, sim a b -> sim (iter r m k a) (iter r m k b).
  Proof.
    induction m as [|m IH]; intros k a b H; cbn [Restart.iter]; [exact H|].
    rewrite (body_sim r k a b H). apply sim_refl.
  Qed.

  Lemma stored_sim r k a b : sim a b -> stored r k a = stored r k b.
  Proof. intros H. unfold Restart.stored. rewrite (head_sim r k a b H). reflexivity. Qed.

  Lemma iter_split r a : forall b k s, iter r (a + b) k s = iter r b (k + Z.of_nat a) (iter r a k s).
  Proof.
    induction a as [|a IH]; intros b k s; cbn [Restart.iter plus].
    - f_equal. lia.
    - rewrite IH. f_equal. lia.
  Qed.

  Lemma renorm_at_shift r K k : (r | K) -> renorm_at r (K + k) = renorm_at r k.
  Proof.
    intros [q ->]. unfold renorm_at. destruct (0 <? r) eqn:E; [|reflexivity]. cbn [andb].
    rewrite Z.add_comm, Z.mod_add by lia. reflexivity.
  Qed.
  Lemma renorm_at_nonpos r k : r <= 0 -> renorm_at r k = false.
  Proof. intros H. unfold renorm_at. replace (0 <? r) with false by lia. reflexivity. Qed.

  (** the schedule only sees the step counter modulo [r] *)
  Definition sched_eq (r K : Z) : Prop := forall k, renorm_at r (K + k) = renorm_at r k.

  Lemma head_shift r K k s : sched_eq r K -> head r (K + k) s = head r k s.
  Proof. intros H. unfold Restart.head. rewrite H. reflexivity. Qed.

  Lemma iter_shift r K m : sched_eq r K -> forall k s, iter r m (K + k) s = iter r m k s.
  Proof.
    intros H. induction m as [|m IH]; intros k s; cbn [Restart.iter]; [reflexivity|].
    replace (K + k + 1) with (K + (k + 1)) by lia. rewrite IH. f_equal.
    unfold Restart.body. rewrite head_shift by exact H. reflexivity.
  Qed.

  Lemma body_inv r k s : Inv (body r k s).
  Proof. unfold Inv, Restart.body, updateX. reflexivity. Qed.

  Lemma prepare_inv r s : Inv (prepare r s) /\ fill _ _ _ (prepare r s) = integ (projX (grid _ _ _ (prepare r s))).
  Proof. unfold Inv, Restart.prepare, integrate, updateX. cbn. split; reflexivity. Qed.

  Lemma iter_inv r m : forall k s, Inv s -> Inv (iter r m k s).
  Proof.
    induction m as [|m IH]; intros k s H; cbn [Restart.iter]; [exact H|]. apply IH, body_inv.
  Qed.

  Lemma prepare_grid r s :
    grid _ _ _ (prepare r s) = if 0 <=? r then snorm (fill _ _ _ s) (grid _ _ _ s) else grid _ _ _ s.
  Proof. unfold Restart.prepare, Restart.snorm, integrate, updateX, normalize. destruct (0 <=? r); reflexivity. Qed.

  (** state of the single run at step [n1], and the run split there *)
  Lemma single_split r n1 n2 s0 : 0 <= n1 -> 0 <= n2 -> sched_eq r n1 ->
    single r (n1 + n2) s0 = stored r n2 (iter r (Z.to_nat n2) 0 (run_from r n1 s0)).
  Proof.
    intros H1 H2 Hs. unfold Restart.single, Restart.run_from.
    replace (Z.to_nat (n1 + n2)) with (Z.to_nat n1 + Z.to_nat n2)%nat by lia.
    rewrite iter_split. replace (0 + Z.of_nat (Z.to_nat n1)) with (n1 + 0) by lia.
    rewrite iter_shift by exact Hs. unfold Restart.stored. rewrite head_shift by exact Hs. reflexivity.
  Qed.

  (** *** renormalize < 0: exact, no hypothesis on the kernels *)
  Lemma continuation_noren r n1 n2 s0 p0 f0 : r < 0 -> 0 <= n1 -> 0 <= n2 ->
    continued r n1 n2 s0 p0 f0 = single r (n1 + n2) s0.
  Proof.
    intros Hr H1 H2.
    assert (Hs : sched_eq r n1) by (intros k; rewrite !renorm_at_nonpos by lia; reflexivity).
    rewrite single_split by assumption. unfold Restart.continued.
    unfold Restart.single at 1. unfold Restart.run_from at 1.
    set (sK := run_from r n1 s0).
    assert (IK : Inv sK) by (apply iter_inv, prepare_inv).
    apply stored_sim, iter_sim.
    unfold Restart.single, Restart.stored, Restart.head. fold sK. rewrite renorm_at_nonpos by lia.
    unfold Restart.prepare, Restart.loaded. replace (0 <=? r) with false by lia.
    unfold sim, integrate, updateX. cbn. split; [reflexivity|]. symmetry. exact IK.
  Qed.

  (** *** renormalize > 0 dividing the split point *)
  Section Renorm.
    Variable f0 : F.
    Hypothesis norm_idem : forall g, norm (norm g) = norm g.
    Hypothesis norm_snorm : forall g, norm (snorm f0 g) = norm g.
    (** the maps see the wake-source projection only up to the two (re)normalisations *)
    Hypothesis wake_snorm : forall g x, maps (projX (snorm f0 g)) x = maps (projX g) x.
    Hypothesis wake_norm : forall g x, maps (projX (norm g)) x = maps (projX g) x.

    Lemma continuation_renorm r n1 n2 s0 p0 : 0 < r -> (r | n1) -> 0 <= n1 -> 0 <= n2 ->
      continued r n1 n2 s0 p0 f0 = single r (n1 + n2) s0.
    Proof.
      intros Hr Hd H1 H2.
      assert (Hs : sched_eq r n1) by (intros k; apply renorm_at_shift; exact Hd).
      rewrite single_split by assumption. unfold Restart.continued.
      unfold Restart.single at 1. unfold Restart.run_from at 1.
      set (sK := run_from r n1 s0).
      assert (IK : Inv sK) by (apply iter_inv, prepare_inv).
      assert (R0 : renorm_at r 0 = true) by (unfold renorm_at; replace (0 <? r) with true by lia; reflexivity).
      assert (RK : renorm_at r n1 = true) by (rewrite <- (Z.add_0_r n1), (Hs 0); exact R0).
      (* the record the continued run starts from *)
      assert (EN : single r n1 s0 = norm (grid _ _ _ sK)).
      { unfold Restart.single, Restart.stored, Restart.head. fold sK. rewrite RK.
        unfold normalize, integrate, Restart.norm. cbn. rewrite IK. reflexivity. }
      rewrite EN. set (gK := grid _ _ _ sK) in *.
      set (sL := prepare r (loaded (norm gK) p0 f0)).
      assert (GL : grid _ _ _ sL = snorm f0 (norm gK)).
      { unfold sL. rewrite prepare_grid. replace (0 <=? r) with true by lia. reflexivity. }
      assert (IL : Inv sL) by apply prepare_inv.
      destruct (Z.to_nat n2) as [|m] eqn:En2.
      - (* no further step: both final blocks normalise *)
        assert (n2 = 0) by lia. subst n2.
        cbn [Restart.iter]. unfold Restart.stored, Restart.head. rewrite R0.
        unfold normalize, integrate. cbn [grid xproj fill]. unfold Inv in IL, IK. rewrite IL, IK, GL. fold gK.
        change (norm (snorm f0 (norm gK)) = norm gK). rewrite norm_snorm. apply norm_idem.
      - cbn [Restart.iter]. apply stored_sim, iter_sim.
        unfold Restart.body, Restart.head. rewrite R0. unfold sim, updateX, normalize, integrate. cbn [grid xproj fill].
        unfold Inv in IL, IK. rewrite IL, IK, GL. fold gK.
        change (maps (projX (snorm f0 (norm gK))) (norm (snorm f0 (norm gK))) = maps (projX gK) (norm gK)
                /\ projX (maps (projX (snorm f0 (norm gK))) (norm (snorm f0 (norm gK)))) = projX (maps (projX gK) (norm gK))).
        rewrite norm_snorm, norm_idem, wake_snorm, wake_norm. split; reflexivity.
    Qed.
  End Renorm.

  (** *** renormalize = 0: exactly one stale normalisation at the joint *)
  Lemma continuation_renorm0 n1 n2 s0 p0 f0 : 0 <= n1 -> 0 <= n2 ->
    let gK := grid _ _ _ (run_from 0 n1 s0) in
    single 0 (n1 + n2) s0 = grid _ _ _ (iter 0 (Z.to_nat n2) 0 (mkPst _ _ _ gK (projX gK) (integ (projX gK)))) /\
    continued 0 n1 n2 s0 p0 f0 =
      grid _ _ _ (iter 0 (Z.to_nat n2) 0 (mkPst _ _ _ (snorm f0 gK) (projX (snorm f0 gK)) (integ (projX (snorm f0 gK))))).
  Proof.
    intros H1 H2 gK.
    assert (Hs : sched_eq 0 n1) by (intros k; rewrite !renorm_at_nonpos by lia; reflexivity).
    assert (ST : forall k s, stored 0 k s = grid _ _ _ s).
    { intros k s. unfold Restart.stored, Restart.head. rewrite renorm_at_nonpos by lia. reflexivity. }
    set (sK := run_from 0 n1 s0). assert (IK : Inv sK) by (apply iter_inv, prepare_inv).
    split.
    - rewrite single_split by assumption. rewrite ST. apply iter_sim. fold sK.
      split; [reflexivity|]. exact IK.
    - unfold Restart.continued. unfold Restart.single at 1. rewrite ST. unfold Restart.run_from at 1.
      apply iter_sim. unfold Restart.single. rewrite ST. fold sK. fold gK.
      unfold Restart.prepare, Restart.loaded, Restart.snorm, normalize, integrate, updateX. cbn.
      split; reflexivity.
  Qed.

  (** if the stale integral happens to be a fixed point of the stored grid the runs coincide *)
  Lemma continuation_renorm0_fix n1 n2 s0 p0 f0 : 0 <= n1 -> 0 <= n2 ->
    snorm f0 (grid _ _ _ (run_from 0 n1 s0)) = grid _ _ _ (run_from 0 n1 s0) ->
    continued 0 n1 n2 s0 p0 f0 = single 0 (n1 + n2) s0.
  Proof.
    intros H1 H2 E. destruct (continuation_renorm0 n1 n2 s0 p0 f0 H1 H2) as [A B].
    rewrite A, B, E. reflexivity.
  Qed.

  (** start state and caches (C11.1b, C11.2) *)
  Lemma start_state r g p0 f0 :
    grid _ _ _ (prepare r (loaded g p0 f0)) = if 0 <=? r then snorm f0 g else g.
  Proof. apply prepare_grid. Qed.
End RestartP.
