(** C11 re-targeted to the program generated from main() (Gen/Gen_MainLoop.v): the control flow
    that Model/Restart.v writes down by hand - the refresh of the caches before the first step,
    the initial renormalisation of the set-up, the loop head, the final block that repeats the loop
    head before the last record, one loop iteration - is what the generated statements do to the
    PhaseSpace object (grid, cached x-projection, cached integral).

    [K] is any kernel record; Restart's kernels are K's: projX = k_projX, integ = k_integ,
    normW f g = k_norm g f.  [pst_of s] is the PhaseSpace part of a driver state.  Proofs by
    evaluation of the generated blocks on an arbitrary state (re-checked on every run). *)
From Coq Require Import List ZArith Bool Lia.
From Inovesa Require Import Model.Driver Model.Setup Model.Restart Gen.Gen_MainLoop
  Proofs.DriverP Proofs.DriverMainP Proofs.RestartP Proofs.C11P.
Import ListNotations.
Local Open Scope Z_scope.

Ltac split_ifs :=
  repeat (cbn; match goal with |- context [if ?b then _ else _] => destruct b eqn:? end); cbn.

(** the initial renormalisation of the set-up: the first `if (renormalize >= 0)` of the skeleton,
    as a block of the driver language *)
Fixpoint calls_of (b : sblk) : option blk :=
  match b with
  | SDone => Some Done
  | SCall c r => match calls_of r with Some x => Some (Seq c x) | None => None end
  | _ => None
  end.
Fixpoint setup_norm_of (b : sblk) : option blk :=
  match b with
  | SDone | SReturn _ => None
  | SCall _ r | SSetAbort r | SOpq _ r => setup_norm_of r
  | SIf (CGuard GRenorm0) t e r =>
      match calls_of t, calls_of e with
      | Some t', Some e' => Some (Cond GRenorm0 t' e' Done)
      | _, _ => None
      end
  | SIf _ _ _ r | STry _ _ r => setup_norm_of r
  end.
Definition main_setup_norm : blk := match setup_norm_of main_setup with Some b => b | None => Done end.
Lemma main_setup_norm_found : setup_norm_of main_setup = Some main_setup_norm.
Proof. vm_compute. reflexivity. Qed.

(** * A small projection of the driver state that is closed under the calls (no signal): what the
    PhaseSpace object, the maps and the guards read.  Evaluating the generated blocks on it is
    cheap; [E_blk] and [ps_emit] transfer the result to the full state, for every program. *)
Section Proj.
  Variable K : kern.
  Record est := mkE { e_k : Z; e_onr : Z; e_abort : bool; e_g1 : tG K; e_g2 : tG K; e_g3 : tG K;
                      e_xp : tP K; e_fl : tFl K; e_wf : tWf K; e_wk : tW K; e_rfo : tRf K; e_mq : list (tMd K) }.
  Definition E (s : st K) : est :=
    mkE (k s) (onr s) (abort s) (g1 s) (g2 s) (g3 s) (xp s) (fl s) (wf s) (wk s) (rfo s) (mq s).

  Definition eexec (cf : cfg) (c : call) (e : est) : est :=
    match e with mkE k onr ab g1 g2 g3 xp fl wf wk rfo mq =>
    match c with
    | UpdateXProj => mkE k onr ab g1 g2 g3 (k_projX K g1) fl wf wk rfo mq
    | Integrate => mkE k onr ab g1 g2 g3 xp (k_integ K xp) wf wk rfo mq
    | IntegrateAndNormalize => mkE k onr ab (k_norm K g1 (k_integ K xp)) g2 g3 xp (k_integ K xp) wf wk rfo mq
    | Normalize => mkE k onr ab (k_norm K g1 fl) g2 g3 xp fl wf wk rfo mq
    | WakePotential => mkE k onr ab g1 g2 g3 xp fl (k_wakeOf K wf xp) wk rfo mq
    | WkmUpdate => mkE k onr ab g1 g2 g3 xp fl (k_wakeOf K wf xp) (k_offsOf K wk (k_wakeOf K wf xp)) rfo mq
    | Apply MWake => mkE k onr ab g1 ((if wake cf then k_kWake K wk else k_idmap K) g1) g3 xp fl wf wk rfo mq
    | Apply MRF =>
        if dynrf cf then
          let r := k_rfCalc K rfo (hd (k_md0 K) mq) in mkE k onr ab (k_kRF K r g2) g2 g3 xp fl wf wk r (tl mq)
        else mkE k onr ab (k_kRF K rfo g2) g2 g3 xp fl wf wk rfo mq
    | Apply MDrift => mkE k onr ab g1 g2 (k_kDrift K g1) xp fl wf wk rfo mq
    | Apply MFP => mkE k onr ab (k_kFP K g3) g2 g3 xp fl wf wk rfo mq
    | IncOutNr => mkE k (onr + 1) ab g1 g2 g3 xp fl wf wk rfo mq
    | IncStep => mkE (k + 1) onr ab g1 g2 g3 xp fl wf wk rfo mq
    | _ => e
    end end.

  Lemma E_exec cf c (s : st K) : E (exec nosig cf c s) = eexec cf c (E s).
  Proof.
    destruct c as [| | |ax| | | | |a|m|m| | |m| |l| |o]; try (destruct s; reflexivity);
      try (destruct ax; destruct s; reflexivity); try (destruct a; destruct s; reflexivity).
    - destruct m; try (destruct s; reflexivity). unfold exec, E; cbn. destruct (dynrf cf); destruct s; reflexivity.
    - destruct s; unfold E, nosig; cbn. rewrite orb_false_r. reflexivity.
  Qed.

  (** the integer tests of the guards, as parameters (so that evaluation leaves them alone) *)
  Record gfun := mkgf { f_every : Z -> Z -> bool;      (* 0 < n && k mod n == 0 *)
                        f_zero : Z -> bool;            (* n == 0 *)
                        f_nonneg : Z -> bool }.        (* 0 <= n *)
  Definition std_gf : gfun := mkgf (fun n k => (0 <? n) && (k mod n =? 0)) (fun n => n =? 0) (fun n => 0 <=? n).
  Variable gf : gfun.

  Definition egval (cf : cfg) (e : est) (g : guard) : bool :=
    match g with
    | GRenorm => f_every gf (renorm cf) (e_k e)
    | GOut => f_every gf (outstep cf) (e_k e)
    | GSave0 => f_zero gf (h5save cf)
    | GHdf => hdf cf
    | GWake => wake cf
    | GDynRF => dynrf cf
    | GAbort => e_abort e
    | GRenorm0 => f_nonneg gf (renorm cf)
    end.

  Fixpoint eblk (cf : cfg) (b : blk) (e : est) : est :=
    match b with
    | Done => e
    | Seq c r => eblk cf r (eexec cf c e)
    | Cond g t el r => eblk cf r (if egval cf e g then eblk cf t e else eblk cf el e)
    end.

  (** the phase-space records a block writes: (step, grid) *)
  Fixpoint ps_recs (l : list (rec K)) : list (Z * tG K) :=
    match l with
    | [] => []
    | r :: t => match rdata r with RPS g => (rstep r, g) :: ps_recs t | _ => ps_recs t end
    end.
  Lemma ps_recs_app a b : ps_recs (a ++ b) = ps_recs a ++ ps_recs b.
  Proof. induction a as [|r t IH]; cbn; auto. destruct (rdata r); cbn; rewrite ?IH; reflexivity. Qed.

  Definition eps_call (cf : cfg) (c : call) (e : est) : list (Z * tG K) :=
    match c with
    | Append (AGrid a) =>
        let ps := match a with
                  | AtAll | AtPS => true
                  | AtDefaults => false
                  | AtIfSave => f_every gf (h5save cf) (e_onr e)
                  end in
        if ps then [(e_k e, e_g1 e)] else []
    | _ => []
    end.
  Fixpoint eps (cf : cfg) (b : blk) (e : est) : list (Z * tG K) :=
    match b with
    | Done => []
    | Seq c r => eps_call cf c e ++ eps cf r (eexec cf c e)
    | Cond g t el r =>
        if egval cf e g then eps cf t e ++ eps cf r (eblk cf t e) else eps cf el e ++ eps cf r (eblk cf el e)
    end.
  (** continuations pushed into the branches: every conditional ends its block, so that evaluating
      on a symbolic state yields a tree of conditions with fully evaluated leaves *)
  Fixpoint flatk (b kk : blk) : blk :=
    match b with
    | Done => kk
    | Seq c r => Seq c (flatk r kk)
    | Cond g t el r => let k' := flatk r kk in Cond g (flatk t k') (flatk el k') Done
    end.
  Lemma eblk_flatk cf b : forall kk e, eblk cf (flatk b kk) e = eblk cf kk (eblk cf b e).
  Proof.
    induction b as [|c r IH|g t IHt el IHe r IHr]; cbn [flatk eblk]; intros kk e; auto.
    destruct (egval cf e g); [rewrite IHt | rewrite IHe]; rewrite IHr; reflexivity.
  Qed.
  Lemma eps_flatk cf b : forall kk e, eps cf (flatk b kk) e = eps cf b e ++ eps cf kk (eblk cf b e).
  Proof.
    induction b as [|c r IH|g t IHt el IHe r IHr]; cbn [flatk eblk eps]; intros kk e; auto.
    - rewrite IH, app_assoc. reflexivity.
    - destruct (egval cf e g); [rewrite IHt | rewrite IHe]; rewrite IHr, app_nil_r, app_assoc; reflexivity.
  Qed.
  Lemma eblk_flat cf b e : eblk cf b e = eblk cf (flatk b Done) e.
  Proof. rewrite eblk_flatk. reflexivity. Qed.
  Lemma eps_flat cf b e : eps cf b e = eps cf (flatk b Done) e.
  Proof. rewrite eps_flatk. cbn. rewrite app_nil_r. reflexivity. Qed.
End Proj.
Arguments mkE {K}. Arguments E {K}. Arguments eblk {K}. Arguments eps {K}. Arguments ps_recs {K}.

(** with the standard tests the projected evaluators follow the driver semantics *)
Section ProjSound.
  Variable K : kern.
  Lemma E_gval cf g (s : st K) : gval cf s g = egval K std_gf cf (E s) g.
  Proof. destruct g; reflexivity. Qed.
  Lemma E_blk cf b : forall (s : st K), E (exec_blk nosig cf b s) = eblk std_gf cf b (E s).
  Proof.
    induction b as [|c r IH|g t IHt el IHe r IHr]; cbn; intros s; auto.
    - rewrite IH, E_exec. reflexivity.
    - rewrite IHr, E_gval. destruct (egval K std_gf cf (E s) g); [rewrite IHt | rewrite IHe]; reflexivity.
  Qed.
  Lemma ps_call cf c (s : st K) :
    ps_recs (match c with Append x => recs cf x s | _ => [] end) = eps_call K std_gf cf c (E s).
  Proof.
    destruct c as [| | |ax| | | | |a|m|m| | |m| |l| |o]; try reflexivity.
    destruct a as [[| | |]| | | | |]; try reflexivity.
    cbn. destruct ((0 <? h5save cf) && (onr s mod h5save cf =? 0)); reflexivity.
  Qed.
  Lemma ps_emit cf b : forall (s : st K), ps_recs (emit nosig cf b s) = eps std_gf cf b (E s).
  Proof.
    induction b as [|c r IH|g t IHt el IHe r IHr]; cbn [emit eps]; intros s; auto.
    - rewrite ps_recs_app, ps_call, IH, E_exec. reflexivity.
    - rewrite E_gval. destruct (egval K std_gf cf (E s) g); rewrite ps_recs_app, IHr, E_blk; [rewrite IHt | rewrite IHe]; reflexivity.
  Qed.
End ProjSound.

(** evaluate a projected block on a symbolic state: all tests abstract, conditionals resolved one by one *)
Ltac vm_ifs := repeat (vm_compute; match goal with |- context [if ?b then _ else _] => destruct b eqn:? end); vm_compute.
Ltac symbolic gfv cfv ev :=
  generalize std_gf; intros gfv; destruct gfv as [fe fz fn]; destruct cfv as [c_last c_out c_h5 c_rn c_hdf c_wake c_dyn];
  destruct ev as [v_k v_onr v_ab v_g1 v_g2 v_g3 v_xp v_fl v_wf v_wk v_rfo v_mq].
Arguments e_k {K}. Arguments e_onr {K}. Arguments e_abort {K}. Arguments e_g1 {K}. Arguments e_g2 {K}. Arguments e_g3 {K}. Arguments e_xp {K}. Arguments e_fl {K}. Arguments e_wf {K}. Arguments e_wk {K}. Arguments e_rfo {K}. Arguments e_mq {K}. Arguments eexec {K}. Arguments egval {K}. Arguments eps_call {K}.

Section RG.
  Variable K : kern.
  Notation G := (tG K).
  Notation P := (tP K).
  Notation F := (tFl K).
  Definition normW (f : F) (g : G) : G := k_norm K g f.
  Definition pst_of (s : st K) : pst G P F := mkPst G P F (g1 s) (xp s) (fl s).
  Definition pst_e (e : est K) : pst G P F := mkPst G P F (e_g1 e) (e_xp e) (e_fl e).
  Lemma pst_E (s : st K) : pst_of s = pst_e (E s).
  Proof. reflexivity. Qed.

  Notation r_updateX := (updateX G P F (k_projX K)).
  Notation r_integrate := (integrate G P F (k_integ K)).
  Notation r_prepare := (prepare G P F (k_projX K) (k_integ K) normW).

  (** main.cpp "1) the integral": whatever the caches held, after the prologue the cached
      projection and integral are those of the grid, and the grid is untouched *)
  Lemma pre_refreshes cf (s : st K) :
    pst_of (exec_blk nosig cf main_pre s) = r_integrate (r_updateX (pst_of s)).
  Proof.
    rewrite !pst_E, E_blk, eblk_flat. generalize (E s). intros e. symbolic gf cf e.
    vm_ifs; reflexivity.
  Qed.

  Lemma pre_refreshes_fields cf (s : st K) :
    let s' := exec_blk nosig cf main_pre s in
    xp s' = k_projX K (g1 s') /\ fl s' = k_integ K (k_projX K (g1 s')) /\ g1 s' = g1 s.
  Proof.
    pose proof (pre_refreshes cf s) as H. cbn zeta. generalize dependent (exec_blk nosig cf main_pre s). intros s' H.
    unfold pst_of, Restart.integrate, Restart.updateX in H. cbn [grid xproj fill] in H.
    inversion H as [[Hg Hx Hf]]. rewrite Hg. auto.
  Qed.

  (** set-up renormalisation followed by the prologue = Restart.prepare (evaluated as one block: what
      the set-up leaves in the projection cache is irrelevant, the prologue refreshes it) *)
  Lemma prepare_is_generated cf (s : st K) :
    pst_of (exec_blk nosig cf main_pre (exec_blk nosig cf main_setup_norm s)) = r_prepare (renorm cf) (pst_of s).
  Proof.
    rewrite <- (exec_blk_bapp K nosig cf main_setup_norm main_pre s).
    rewrite !pst_E, E_blk, eblk_flat. generalize (E s). intros e.
    unfold Restart.prepare. change (0 <=? renorm cf) with (f_nonneg std_gf (renorm cf)).
    symbolic gf cf e.
    vm_ifs; reflexivity.
  Qed.

  (** final_block_matches_loop_head: with a results file the final block writes exactly one
      phase-space record, tagged with the step counter, and its grid is the loop head's
      ([Restart.stored]): the statements before the append are the loop head's *)
  Lemma final_block_stores_head cf (s : st K) : hdf cf = true ->
    ps_recs (emit nosig cf main_post s) =
    [(k s, stored G P F (k_integ K) normW (renorm cf) (k s) (pst_of s))].
  Proof.
    intros Hh. rewrite ps_emit, eps_flat, pst_E. change (k s) with (e_k (E s)). generalize (E s). intros e.
    unfold stored, Restart.head, renorm_at. change ((0 <? renorm cf) && (e_k e mod renorm cf =? 0)) with (f_every std_gf (renorm cf) (e_k e)).
    revert Hh. symbolic gf cf e. cbn [hdf]. intros ->.
    vm_ifs; reflexivity.
  Qed.

  (** the same for the output block of the loop (entered at a loop head): whatever phase-space
      record it writes is the loop head's grid, tagged with the step counter *)
  Lemma out_block_stores_head cf (s : st K) :
    let '(hd, ob, _, _) := main_split in
    Forall (fun x => x = (k s, stored G P F (k_integ K) normW (renorm cf) (k s) (pst_of s)))
           (ps_recs (emit nosig cf (bapp hd ob) s)).
  Proof.
    unfold main_split. cbn [split_out main_body bapp].
    rewrite ps_emit, eps_flat, pst_E. change (k s) with (e_k (E s)). generalize (E s). intros e.
    unfold stored, Restart.head, renorm_at. change ((0 <? renorm cf) && (e_k e mod renorm cf =? 0)) with (f_every std_gf (renorm cf) (e_k e)).
    symbolic gf cf e.
    vm_ifs; repeat constructor.
  Qed.

  (** ** one loop iteration *)
  (** the four maps of one step as a function of the x-projection the wake map was updated from
      and of the grid; [wf0], [wk0] stand for the buffers of the field and of the wake map (their
      previous contents do not matter: hypotheses of [body_is_generated]), [rf0] for the RF table *)
  Definition maps_of (cf : cfg) (wf0 : tWf K) (wk0 : tW K) (rf0 : tRf K) (p : P) (g : G) : G :=
    k_kFP K (k_kDrift K (k_kRF K rf0 ((if wake cf then k_kWake K (k_offsOf K wk0 (k_wakeOf K wf0 p)) else k_idmap K) g))).

  (** history independence of the wake objects (C18's statement about ElectricField; for the map:
      updateSM overwrites its table) *)
  Definition wake_history_free : Prop :=
    (forall (w w' : tWf K) (p : P), k_wakeOf K w p = k_wakeOf K w' p) /\
    (forall (o o' : tW K) (w : tWf K), k_offsOf K o w = k_offsOf K o' w).

  Notation r_body cf wf0 wk0 rf0 := (Restart.body G P F (k_projX K) (k_integ K) normW (maps_of cf wf0 wk0 rf0)).
  Notation r_iter cf wf0 wk0 rf0 := (Restart.iter G P F (k_projX K) (k_integ K) normW (maps_of cf wf0 wk0 rf0)).

  (** the body of the generated loop does to the PhaseSpace object what [Restart.body] says (static
      RF map: the step does not depend on the step number); it leaves the RF table alone and
      counts one step *)
  Lemma body_is_generated cf wf0 wk0 (s : st K) : dynrf cf = false -> wake_history_free ->
    pst_of (exec_blk nosig cf main_body s) = r_body cf wf0 wk0 (rfo s) (renorm cf) (k s) (pst_of s) /\
    rfo (exec_blk nosig cf main_body s) = rfo s /\ k (exec_blk nosig cf main_body s) = k s + 1.
  Proof.
    intros Hd [Hw1 Hw2].
    change (rfo (exec_blk nosig cf main_body s)) with (e_rfo (E (exec_blk nosig cf main_body s))).
    change (k (exec_blk nosig cf main_body s)) with (e_k (E (exec_blk nosig cf main_body s))).
    change (rfo s) with (e_rfo (E s)). change (k s) with (e_k (E s)).
    rewrite !pst_E, E_blk, eblk_flat. generalize (E s). intros e.
    unfold Restart.body, Restart.head, renorm_at, maps_of.
    change ((0 <? renorm cf) && (e_k e mod renorm cf =? 0)) with (f_every std_gf (renorm cf) (e_k e)).
    revert Hd. symbolic gf cf e. cbn [dynrf wake renorm]. intros ->.
    assert (A : forall p, k_offsOf K v_wk (k_wakeOf K v_wf p) = k_offsOf K wk0 (k_wakeOf K wf0 p))
      by (intros p; rewrite (Hw1 v_wf wf0), (Hw2 v_wk wk0); reflexivity).
    vm_ifs; rewrite ?A; repeat split; reflexivity.
  Qed.

  Lemma iter_is_generated cf wf0 wk0 : dynrf cf = false -> wake_history_free -> forall n (s : st K),
    pst_of (Driver.iter nosig cf main_body n s) = r_iter cf wf0 wk0 (rfo s) (renorm cf) n (k s) (pst_of s) /\
    rfo (Driver.iter nosig cf main_body n s) = rfo s /\ k (Driver.iter nosig cf main_body n s) = k s + Z.of_nat n.
  Proof.
    intros Hd Hw. induction n; intros s; cbn [Driver.iter Restart.iter].
    - repeat split; auto. lia.
    - destruct (body_is_generated cf wf0 wk0 s Hd Hw) as (A & B & C).
      destruct (IHn (exec_blk nosig cf main_body s)) as (A' & B' & C').
      rewrite A', B', C', A, B, C. repeat split; auto. lia.
  Qed.

  (** ** the record the generated program writes after n undisturbed steps *)
  (** set-up renormalisation, prologue, n iterations of the loop body, final block: the phase-space
      records of the final block *)
  Definition gen_final (cf : cfg) (n : nat) (s0 : st K) : list (Z * G) :=
    ps_recs (emit nosig cf main_post
               (Driver.iter nosig cf main_body n (exec_blk nosig cf main_pre (exec_blk nosig cf main_setup_norm s0)))).

  Lemma k_rfo_pre cf (s : st K) :
    k (exec_blk nosig cf main_pre (exec_blk nosig cf main_setup_norm s)) = k s /\
    rfo (exec_blk nosig cf main_pre (exec_blk nosig cf main_setup_norm s)) = rfo s.
  Proof.
    rewrite <- (exec_blk_bapp K nosig cf main_setup_norm main_pre s).
    change (k (exec_blk nosig cf (bapp main_setup_norm main_pre) s)) with
           (e_k (E (exec_blk nosig cf (bapp main_setup_norm main_pre) s))).
    change (rfo (exec_blk nosig cf (bapp main_setup_norm main_pre) s)) with
           (e_rfo (E (exec_blk nosig cf (bapp main_setup_norm main_pre) s))).
    change (rfo s) with (e_rfo (E s)). change (k s) with (e_k (E s)).
    rewrite E_blk, eblk_flat. generalize (E s). intros e. symbolic gf cf e.
    vm_ifs; split; reflexivity.
  Qed.

  (** the generated program's final record after n steps = [Restart.single] *)
  Theorem gen_final_is_single cf wf0 wk0 n (s0 : st K) :
    hdf cf = true -> dynrf cf = false -> wake_history_free -> k s0 = 0 ->
    gen_final cf n s0 =
    [(Z.of_nat n, single G P F (k_projX K) (k_integ K) normW (maps_of cf wf0 wk0 (rfo s0)) (renorm cf) (Z.of_nat n) (pst_of s0))].
  Proof.
    intros Hh Hd Hw H0. unfold gen_final. rewrite final_block_stores_head by exact Hh.
    destruct (k_rfo_pre cf s0) as [Kp Rp].
    destruct (iter_is_generated cf wf0 wk0 Hd Hw n (exec_blk nosig cf main_pre (exec_blk nosig cf main_setup_norm s0))) as (A & B & C).
    rewrite C, Kp, H0, A, Kp, Rp, H0, prepare_is_generated. unfold single, run_from. rewrite Nat2Z.id. reflexivity.
  Qed.

  (** C11 (4) for the generated program: the state [sL] loaded from record n1 of a first run (grid =
      that record, caches = whatever the fresh object held, same RF table), continued for n2 steps,
      ends in the record the uninterrupted run writes after n1+n2 steps - under the hypotheses of
      [C11_continuation_equiv] on the normalisation kernels *)
  Theorem gen_continuation cf wf0 wk0 (n1 n2 : nat) (s0 sL : st K) :
    hdf cf = true -> dynrf cf = false -> wake_history_free -> k s0 = 0 -> k sL = 0 -> rfo sL = rfo s0 ->
    gen_final cf n1 s0 = [(Z.of_nat n1, g1 sL)] ->
    let maps := maps_of cf wf0 wk0 (rfo s0) in
    let r := renorm cf in
    (r < 0 \/
     (0 < r /\ (r | Z.of_nat n1) /\
      (forall g, norm G P F (k_projX K) (k_integ K) normW (norm G P F (k_projX K) (k_integ K) normW g) = norm G P F (k_projX K) (k_integ K) normW g) /\
      (forall g, norm G P F (k_projX K) (k_integ K) normW (snorm G F normW (fl sL) g) = norm G P F (k_projX K) (k_integ K) normW g) /\
      (forall g x, maps (k_projX K (snorm G F normW (fl sL) g)) x = maps (k_projX K g) x) /\
      (forall g x, maps (k_projX K (norm G P F (k_projX K) (k_integ K) normW g)) x = maps (k_projX K g) x))) ->
    exists g, gen_final cf n2 sL = [(Z.of_nat n2, g)] /\ gen_final cf (n1 + n2) s0 = [(Z.of_nat (n1 + n2), g)].
  Proof.
    intros Hh Hd Hw H0 HL HR Hrec maps r Hyp.
    rewrite (gen_final_is_single cf wf0 wk0 n1 s0 Hh Hd Hw H0) in Hrec. inversion Hrec as [Hg]. clear Hrec.
    rewrite (gen_final_is_single cf wf0 wk0 n2 sL Hh Hd Hw HL), (gen_final_is_single cf wf0 wk0 (n1 + n2) s0 Hh Hd Hw H0).
    rewrite HR. eexists. split; [reflexivity|]. f_equal. f_equal.
    assert (E1 : pst_of sL = loaded G P F (single G P F (k_projX K) (k_integ K) normW maps r (Z.of_nat n1) (pst_of s0)) (xp sL) (fl sL)).
    { unfold maps, r. rewrite Hg. reflexivity. }
    rewrite E1. rewrite Nat2Z.inj_add.
    symmetry. apply (Proofs.C11P.continuation_equiv_c11 G P F (k_projX K) (k_integ K) normW maps r (Z.of_nat n1) (Z.of_nat n2) (pst_of s0) (xp sL) (fl sL)); try lia.
    exact Hyp.
  Qed.
End RG.
