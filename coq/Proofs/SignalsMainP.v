(** Per-run obligation of the signal-disposition checker (Model/Signals.v) on the list generated from the sources of
    this run (Gen/Gen_Signals.v), and the consequences for that list (Proofs/SignalsP.v). *)
From Coq Require Import List ZArith String Bool.
From Inovesa Require Import Model.Signals Gen.Gen_Signals Proofs.SignalsP.
Import ListNotations.

Lemma main_signals_checked : sig_ok signal_sites main_first_point_stmt sigint_handler_body = true.
Proof. vm_compute. reflexivity. Qed.

Definition main_install : sigsite :=
  match filter (installs_before main_first_point_stmt) signal_sites with s :: _ => s | [] => mksite "" 0 "" false [] SElsewhere end.

Lemma main_install_in : In main_install signal_sites /\ is_install main_install = true.
Proof. vm_compute. split; [tauto|reflexivity]. Qed.
