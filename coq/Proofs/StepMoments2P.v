(** * The second-moment recurrence of ONE FULL STEP on the grid (C04.3): RF kick, drift, 3-point Fokker-Planck.

    For every bunch [b] of a bunch-major grid, every data (signed included), grid size, position of the
    zero bins and interpolation type [it >= 2], as long as every row/column keeps stencil and support clear
    of the border ([step_ok]) and every energy column of the drifted grid has interior support ([fp_ok]):
    the raw second moments about the zero bins, in cells,

        Muu = sum (x-xc)^2 f,  Muv = sum (x-xc)(y-yc) f,  Mvv = sum (y-yc)^2 f,  M0 = sum f

    after the step are

        sm_fp (sm_drift a (sm_rf t m + (0,0,Nrf,0)) + (Ndr,0,0,0))

    where [Nrf = sum_x kappa it f_x * (charge of row x)], [Ndr = sum_y kappa it f_y * (charge of column y)]
    and [kappa 2 f = f(1-f)], [kappa 3 = kappa 4 = 0].  Hence for [it >= 3] the moment vector moves exactly
    by [sm_step] (Model/Moments2.v, the function the correspondence iterates), and for linear interpolation
    the only difference is the variance inflation [f(1-f)] per row, between 0 and 1/4 cell^2.

    The moments are the *raw* ones about the zero bins: these obey a closed recurrence.  (The moments about
    the moving centroid do not: their Fokker-Planck step carries an extra -d^2 M1^2/M0.) *)
From Coq Require Import List ZArith QArith Qcanon Lia Bool Ring Field.
From Inovesa Require Import Base.FieldKit Base.Sums Base.Float32 Gen.Gen_Coeffs Gen.Gen_FPStencil
  Model.Kick Model.RF Model.FokkerPlanck Model.Moments2
  Proofs.WeightsP Proofs.KickP Proofs.KickGridP Proofs.RFP Proofs.RFGridP Proofs.Moment2RowP
  Proofs.FPGridP Proofs.FokkerPlanckP Proofs.FPMomentsP.
Import ListNotations.
Local Open Scope Z_scope.

(** ** small facts about Qc *)
Lemma Qc_cancel_l (c x y : Qc) : c <> 0%Qc -> (c * x = c * y)%Qc -> x = y.
Proof.
  intros Hc H. transitivity ((/ c) * (c * x))%Qc; [field; exact Hc|]. rewrite H. field. exact Hc.
Qed.
Lemma Qc_mul_nonneg (a b : Qc) : (0 <= a)%Qc -> (0 <= b)%Qc -> (0 <= a * b)%Qc.
Proof.
  intros Ha Hb. apply (Qcle_trans _ (0 * b)%Qc); [rewrite Qcmult_0_l; apply Qcle_refl|]. apply Qcmult_le_compat_r; assumption.
Qed.

(** ** linear combinations of sums *)
Lemma lin2 lo len (g h0 h1 : Z -> Qc) (c0 c1 : Qc) :
  (forall i, lo <= i < lo + Z.of_nat len -> g i = (c0 * h0 i + c1 * h1 i)%Qc) ->
  sumQ lo len g = (c0 * sumQ lo len h0 + c1 * sumQ lo len h1)%Qc.
Proof.
  intros H. rewrite (sumZ_ext QcF _ _ _ (fun i => @fadd QcF (@fmul QcF c0 (h0 i)) (@fmul QcF c1 (h1 i)))) by exact H.
  rewrite (sumZ_add QcF), !(sumZ_scale QcF). reflexivity.
Qed.

Lemma lin3 lo len (g h0 h1 h2 : Z -> Qc) (c0 c1 c2 : Qc) :
  (forall i, lo <= i < lo + Z.of_nat len -> g i = (c0 * h0 i + c1 * h1 i + c2 * h2 i)%Qc) ->
  sumQ lo len g = (c0 * sumQ lo len h0 + c1 * sumQ lo len h1 + c2 * sumQ lo len h2)%Qc.
Proof.
  intros H. rewrite (sumZ_ext QcF _ _ _ (fun i => @fadd QcF (@fadd QcF (@fmul QcF c0 (h0 i)) (@fmul QcF c1 (h1 i))) (@fmul QcF c2 (h2 i)))) by exact H.
  rewrite !(sumZ_add QcF), !(sumZ_scale QcF). reflexivity.
Qed.

Lemma lin4 lo len (g h0 h1 h2 h3 : Z -> Qc) (c0 c1 c2 c3 : Qc) :
  (forall i, lo <= i < lo + Z.of_nat len -> g i = (c0 * h0 i + c1 * h1 i + c2 * h2 i + c3 * h3 i)%Qc) ->
  sumQ lo len g = (c0 * sumQ lo len h0 + c1 * sumQ lo len h1 + c2 * sumQ lo len h2 + c3 * sumQ lo len h3)%Qc.
Proof.
  intros H. rewrite (sumZ_ext QcF _ _ _ (fun i => @fadd QcF (@fadd QcF (@fadd QcF (@fmul QcF c0 (h0 i)) (@fmul QcF c1 (h1 i))) (@fmul QcF c2 (h2 i))) (@fmul QcF c3 (h3 i)))) by exact H.
  rewrite !(sumZ_add QcF), !(sumZ_scale QcF). reflexivity.
Qed.

(** ** raw second moments of bunch [b] about the zero bins (xc, yc), in cells *)
Definition MUU (n : Z) (xc : Qc) (G : Z -> Qc) (b : Z) : Qc :=
  sumQ 0 (Z.to_nat n) (fun x => sumQ 0 (Z.to_nat n) (fun y => ((qz x - xc) * (qz x - xc) * G (didx n b x y))%Qc)).
Definition MUV (n : Z) (xc yc : Qc) (G : Z -> Qc) (b : Z) : Qc :=
  sumQ 0 (Z.to_nat n) (fun x => sumQ 0 (Z.to_nat n) (fun y => ((qz x - xc) * (qz y - yc) * G (didx n b x y))%Qc)).
Definition MVV (n : Z) (yc : Qc) (G : Z -> Qc) (b : Z) : Qc :=
  sumQ 0 (Z.to_nat n) (fun x => sumQ 0 (Z.to_nat n) (fun y => ((qz y - yc) * (qz y - yc) * G (didx n b x y))%Qc)).

(** sums along one row x (over y), centred at yc; and along one column y (over x), centred at xc *)
Definition A0 (n : Z) (G : Z -> Qc) (b x : Z) : Qc := sumQ 0 (Z.to_nat n) (fun y => G (didx n b x y)).
Definition A1 (n : Z) (yc : Qc) (G : Z -> Qc) (b x : Z) : Qc :=
  sumQ 0 (Z.to_nat n) (fun y => ((qz y - yc) * G (didx n b x y))%Qc).
Definition A2 (n : Z) (yc : Qc) (G : Z -> Qc) (b x : Z) : Qc :=
  sumQ 0 (Z.to_nat n) (fun y => ((qz y - yc) * (qz y - yc) * G (didx n b x y))%Qc).
Definition B0 (n : Z) (G : Z -> Qc) (b y : Z) : Qc := sumQ 0 (Z.to_nat n) (fun x => G (didx n b x y)).
Definition B1 (n : Z) (xc : Qc) (G : Z -> Qc) (b y : Z) : Qc :=
  sumQ 0 (Z.to_nat n) (fun x => ((qz x - xc) * G (didx n b x y))%Qc).
Definition B2 (n : Z) (xc : Qc) (G : Z -> Qc) (b y : Z) : Qc :=
  sumQ 0 (Z.to_nat n) (fun x => ((qz x - xc) * (qz x - xc) * G (didx n b x y))%Qc).

Section Forms.
  Variables (n : Z) (xc yc : Qc) (G : Z -> Qc) (b : Z).

  Lemma M0_rows : M0 n G b = sumQ 0 (Z.to_nat n) (fun x => A0 n G b x).
  Proof. reflexivity. Qed.
  Lemma MUU_rows : MUU n xc G b = sumQ 0 (Z.to_nat n) (fun x => ((qz x - xc) * (qz x - xc) * A0 n G b x)%Qc).
  Proof.
    unfold MUU, A0. apply (sumZ_ext QcF). intros x Hx.
    rewrite <- (sumZ_scale QcF). apply (sumZ_ext QcF). intros y Hy. reflexivity.
  Qed.
  Lemma MUV_rows : MUV n xc yc G b = sumQ 0 (Z.to_nat n) (fun x => ((qz x - xc) * A1 n yc G b x)%Qc).
  Proof.
    unfold MUV, A1. apply (sumZ_ext QcF). intros x Hx.
    rewrite <- (sumZ_scale QcF). apply (sumZ_ext QcF). intros y Hy. qc_unf. ring.
  Qed.
  Lemma MVV_rows : MVV n yc G b = sumQ 0 (Z.to_nat n) (fun x => A2 n yc G b x).
  Proof. reflexivity. Qed.

  Lemma M0_cols : M0 n G b = sumQ 0 (Z.to_nat n) (fun y => B0 n G b y).
  Proof. unfold B0. apply M0_swap. Qed.
  Lemma MUU_cols : MUU n xc G b = sumQ 0 (Z.to_nat n) (fun y => B2 n xc G b y).
  Proof.
    unfold MUU, B2.
    apply (sumZ_swap QcF 0 (Z.to_nat n) 0 (Z.to_nat n) (fun x y => ((qz x - xc) * (qz x - xc) * G (didx n b x y))%Qc)).
  Qed.
  Lemma MUV_cols : MUV n xc yc G b = sumQ 0 (Z.to_nat n) (fun y => ((qz y - yc) * B1 n xc G b y)%Qc).
  Proof.
    unfold MUV, B1.
    rewrite (sumZ_swap QcF 0 (Z.to_nat n) 0 (Z.to_nat n) (fun x y => ((qz x - xc) * (qz y - yc) * G (didx n b x y))%Qc)).
    apply (sumZ_ext QcF). intros y Hy.
    rewrite <- (sumZ_scale QcF). apply (sumZ_ext QcF). intros x Hx. qc_unf. ring.
  Qed.
  Lemma MVV_cols : MVV n yc G b = sumQ 0 (Z.to_nat n) (fun y => ((qz y - yc) * (qz y - yc) * B0 n G b y)%Qc).
  Proof.
    unfold MVV, B0.
    rewrite (sumZ_swap QcF 0 (Z.to_nat n) 0 (Z.to_nat n) (fun x y => ((qz y - yc) * (qz y - yc) * G (didx n b x y))%Qc)).
    apply (sumZ_ext QcF). intros y Hy.
    rewrite <- (sumZ_scale QcF). apply (sumZ_ext QcF). intros x Hx. reflexivity.
  Qed.
End Forms.

(** the variance the interpolation adds: per row of the RF kick, per column of the drift *)
Definition infl_y (n nb it : Z) (offs G : Z -> Qc) (b : Z) : Qc :=
  sumQ 0 (Z.to_nat n) (fun x =>
    (kapQ it (sp_frac (poffs_split n (offs (Z.min b (nb - 1) * n + x)%Z))) * A0 n G b x)%Qc).
Definition infl_x (n it : Z) (offs G : Z -> Qc) (b : Z) : Qc :=
  sumQ 0 (Z.to_nat n) (fun y => (kapQ it (sp_frac (poffs_split n (offs y))) * B0 n G b y)%Qc).

Lemma kappa_ge3 it (f : Qc) : 3 <= it -> kapQ it f = 0%Qc.
Proof. intros H. unfold kappa. replace (it =? 2) with false by (symmetry; apply Z.eqb_neq; lia). reflexivity. Qed.

Lemma infl_y_ge3 n nb it offs G b : 3 <= it -> infl_y n nb it offs G b = 0%Qc.
Proof.
  intros H. unfold infl_y. apply (sumZ_zero QcF). intros x Hx. rewrite kappa_ge3 by exact H. qc_unf. ring.
Qed.
Lemma infl_x_ge3 n it offs G b : 3 <= it -> infl_x n it offs G b = 0%Qc.
Proof.
  intros H. unfold infl_x. apply (sumZ_zero QcF). intros y Hy. rewrite kappa_ge3 by exact H. qc_unf. ring.
Qed.

Section GridKicks2.
  Variables (n nb it : Z).
  Hypothesis Hv : valid_it it.
  Hypothesis H2 : 2 <= it.
  Hypothesis Hn : 0 < n < 2 ^ 30.
  Hypothesis Hnb : 0 < nb.
  Variables (xc yc : Qc).

  (** *** kick along y: the three centred sums of one row *)
  Lemma kick_y_rows2 (offs D : Z -> Qc) b x :
    0 <= b < nb -> 0 <= x < n -> rows_ok_y n nb it offs D b ->
    let D' := apply_y n nb it (updateSM n it offs) D in
    let o := eff_off n (offs (Z.min b (nb - 1) * n + x)%Z) in
    let kp := kapQ it (sp_frac (poffs_split n (offs (Z.min b (nb - 1) * n + x)%Z))) in
    A0 n D' b x = A0 n D b x /\
    A1 n yc D' b x = (A1 n yc D b x - o * A0 n D b x)%Qc /\
    A2 n yc D' b x = (A2 n yc D b x - (1 + 1) * o * A1 n yc D b x + (o * o + kp) * A0 n D b x)%Qc.
  Proof.
    intros Hb Hx Hok D' o kp. pose proof (Hok x Hx) as Hr.
    assert (Eo : forall y, 0 <= y < 0 + Z.of_nat (Z.to_nat n) ->
              D' (didx n b x y) = row_out n it (sm_entry n it (offs (Z.min b (nb - 1) * n + x)%Z)) (rowY n D b x) y).
    { intros y Hy. unfold D'. apply apply_y_row; lia || assumption. }
    repeat split.
    - apply (kick_y_rows n nb it Hv H2 Hn Hnb offs D b x Hb Hx Hok).
    - unfold A1.
      rewrite (sumZ_ext QcF _ _ _ (fun y => ((qz y - yc) *
          row_out n it (sm_entry n it (offs (Z.min b (nb - 1) * n + x)%Z)) (rowY n D b x) y)%Qc))
        by (intros y Hy; rewrite Eo by exact Hy; reflexivity).
      rewrite sm_row_first_moment_c by assumption. fold o. unfold rowY.
      rewrite (sum_clip n (fun y => (qz y - o - yc)%Qc)) by lia.
      rewrite (lin2 0 (Z.to_nat n) _ (fun y => ((qz y - yc) * D (didx n b x y))%Qc) (fun y => D (didx n b x y)) 1%Qc (- o)%Qc)
        by (intros; ring).
      unfold A0. ring.
    - unfold A2.
      rewrite (sumZ_ext QcF _ _ _ (fun y => ((qz y - yc) * (qz y - yc) *
          row_out n it (sm_entry n it (offs (Z.min b (nb - 1) * n + x)%Z)) (rowY n D b x) y)%Qc))
        by (intros y Hy; rewrite Eo by exact Hy; reflexivity).
      rewrite sm_row_second_moment_c by assumption. fold o; fold kp. unfold rowY.
      rewrite (sum_clip n (fun y => ((qz y - o - yc) * (qz y - o - yc) + kp)%Qc)) by lia.
      rewrite (lin3 0 (Z.to_nat n) _ (fun y => ((qz y - yc) * (qz y - yc) * D (didx n b x y))%Qc)
                 (fun y => ((qz y - yc) * D (didx n b x y))%Qc) (fun y => D (didx n b x y))
                 1%Qc (- ((1 + 1) * o))%Qc (o * o + kp)%Qc) by (intros; ring).
      unfold A0, A1. ring.
  Qed.

  (** *** kick along x: the three centred sums of one column *)
  Lemma kick_x_cols2 (offs D : Z -> Qc) b y :
    0 <= b < nb -> 0 <= y < n -> cols_ok_x n it offs D b ->
    let D' := apply_x n nb it (updateSM n it offs) D in
    let o := eff_off n (offs y) in
    let kp := kapQ it (sp_frac (poffs_split n (offs y))) in
    B0 n D' b y = B0 n D b y /\
    B1 n xc D' b y = (B1 n xc D b y - o * B0 n D b y)%Qc /\
    B2 n xc D' b y = (B2 n xc D b y - (1 + 1) * o * B1 n xc D b y + (o * o + kp) * B0 n D b y)%Qc.
  Proof.
    intros Hb Hy Hok D' o kp. pose proof (Hok y Hy) as Hr.
    assert (Eo : forall x, 0 <= x < 0 + Z.of_nat (Z.to_nat n) ->
              D' (didx n b x y) = row_out n it (sm_entry n it (offs y)) (colX n D b y) x).
    { intros x Hx. unfold D'. apply apply_x_row; lia || assumption. }
    repeat split.
    - apply (kick_x_cols n nb it Hv H2 Hn Hnb offs D b y Hb Hy Hok).
    - unfold B1.
      rewrite (sumZ_ext QcF _ _ _ (fun x => ((qz x - xc) * row_out n it (sm_entry n it (offs y)) (colX n D b y) x)%Qc))
        by (intros x Hx; rewrite Eo by exact Hx; reflexivity).
      rewrite sm_row_first_moment_c by assumption. fold o. unfold colX.
      rewrite (sum_clip n (fun x => (qz x - o - xc)%Qc)) by lia.
      rewrite (lin2 0 (Z.to_nat n) _ (fun x => ((qz x - xc) * D (didx n b x y))%Qc) (fun x => D (didx n b x y)) 1%Qc (- o)%Qc)
        by (intros; ring).
      unfold B0. ring.
    - unfold B2.
      rewrite (sumZ_ext QcF _ _ _ (fun x => ((qz x - xc) * (qz x - xc) *
          row_out n it (sm_entry n it (offs y)) (colX n D b y) x)%Qc))
        by (intros x Hx; rewrite Eo by exact Hx; reflexivity).
      rewrite sm_row_second_moment_c by assumption. fold o; fold kp. unfold colX.
      rewrite (sum_clip n (fun x => ((qz x - o - xc) * (qz x - o - xc) + kp)%Qc)) by lia.
      rewrite (lin3 0 (Z.to_nat n) _ (fun x => ((qz x - xc) * (qz x - xc) * D (didx n b x y))%Qc)
                 (fun x => ((qz x - xc) * D (didx n b x y))%Qc) (fun x => D (didx n b x y))
                 1%Qc (- ((1 + 1) * o))%Qc (o * o + kp)%Qc) by (intros; ring).
      unfold B0, B1. ring.
  Qed.

  (** *** the RF kick: o_x = t*(xc - x), i.e. v += t*u *)
  Theorem rf_kick_moments2 (offs D : Z -> Qc) (t : Qc) b :
    0 <= b < nb -> rows_ok_y n nb it offs D b ->
    (forall x, 0 <= x < n -> eff_off n (offs (Z.min b (nb - 1) * n + x)%Z) = (t * (xc - qz x))%Qc) ->
    let D' := apply_y n nb it (updateSM n it offs) D in
    MUU n xc D' b = MUU n xc D b /\
    MUV n xc yc D' b = (MUV n xc yc D b + t * MUU n xc D b)%Qc /\
    MVV n yc D' b = (MVV n yc D b + (1 + 1) * t * MUV n xc yc D b + t * t * MUU n xc D b
                     + infl_y n nb it offs D b)%Qc.
  Proof.
    intros Hb Hok Hoff D'.
    assert (R : forall x, 0 <= x < 0 + Z.of_nat (Z.to_nat n) ->
       A0 n D' b x = A0 n D b x /\
       A1 n yc D' b x = (A1 n yc D b x + t * (qz x - xc) * A0 n D b x)%Qc /\
       A2 n yc D' b x = (A2 n yc D b x + (1 + 1) * t * (qz x - xc) * A1 n yc D b x
                          + (t * t * ((qz x - xc) * (qz x - xc))
                             + kapQ it (sp_frac (poffs_split n (offs (Z.min b (nb - 1) * n + x)%Z)))) * A0 n D b x)%Qc).
    { intros x Hx. assert (Hx' : 0 <= x < n) by lia.
      destruct (kick_y_rows2 offs D b x Hb Hx' Hok) as (E0 & E1 & E2). fold D' in E0, E1, E2.
      rewrite (Hoff x Hx') in E1, E2. rewrite E0, E1, E2. repeat split; ring. }
    rewrite !MUU_rows, !MUV_rows, !MVV_rows. unfold infl_y. repeat split.
    - apply (sumZ_ext QcF). intros x Hx. destruct (R x Hx) as (E0 & _ & _). rewrite E0. reflexivity.
    - rewrite (lin2 0 (Z.to_nat n) _ (fun x => ((qz x - xc) * A1 n yc D b x)%Qc)
                 (fun x => ((qz x - xc) * (qz x - xc) * A0 n D b x)%Qc) 1%Qc t); [ring|].
      intros x Hx. destruct (R x Hx) as (_ & E1 & _). rewrite E1. ring.
    - rewrite (lin4 0 (Z.to_nat n) _ (fun x => A2 n yc D b x) (fun x => ((qz x - xc) * A1 n yc D b x)%Qc)
                 (fun x => ((qz x - xc) * (qz x - xc) * A0 n D b x)%Qc)
                 (fun x => (kapQ it (sp_frac (poffs_split n (offs (Z.min b (nb - 1) * n + x)%Z))) * A0 n D b x)%Qc)
                 1%Qc ((1 + 1) * t)%Qc (t * t)%Qc 1%Qc); [ring|].
      intros x Hx. destruct (R x Hx) as (_ & _ & E2). rewrite E2. ring.
  Qed.

  (** *** the drift: o_y = a*(y - yc), i.e. u -= a*v *)
  Theorem drift_kick_moments2 (offs D : Z -> Qc) (a : Qc) b :
    0 <= b < nb -> cols_ok_x n it offs D b ->
    (forall y, 0 <= y < n -> eff_off n (offs y) = (a * (qz y - yc))%Qc) ->
    let D' := apply_x n nb it (updateSM n it offs) D in
    MUU n xc D' b = (MUU n xc D b - (1 + 1) * a * MUV n xc yc D b + a * a * MVV n yc D b
                     + infl_x n it offs D b)%Qc /\
    MUV n xc yc D' b = (MUV n xc yc D b - a * MVV n yc D b)%Qc /\
    MVV n yc D' b = MVV n yc D b.
  Proof.
    intros Hb Hok Hoff D'.
    assert (R : forall y, 0 <= y < 0 + Z.of_nat (Z.to_nat n) ->
       B0 n D' b y = B0 n D b y /\
       B1 n xc D' b y = (B1 n xc D b y - a * (qz y - yc) * B0 n D b y)%Qc /\
       B2 n xc D' b y = (B2 n xc D b y - (1 + 1) * a * (qz y - yc) * B1 n xc D b y
                          + (a * a * ((qz y - yc) * (qz y - yc))
                             + kapQ it (sp_frac (poffs_split n (offs y)))) * B0 n D b y)%Qc).
    { intros y Hy. assert (Hy' : 0 <= y < n) by lia.
      destruct (kick_x_cols2 offs D b y Hb Hy' Hok) as (E0 & E1 & E2). fold D' in E0, E1, E2.
      rewrite (Hoff y Hy') in E1, E2. rewrite E0, E1, E2. repeat split; ring. }
    rewrite !MUU_cols, !MUV_cols, !MVV_cols. unfold infl_x. repeat split.
    - rewrite (lin4 0 (Z.to_nat n) _ (fun y => B2 n xc D b y) (fun y => ((qz y - yc) * B1 n xc D b y)%Qc)
                 (fun y => ((qz y - yc) * (qz y - yc) * B0 n D b y)%Qc)
                 (fun y => (kapQ it (sp_frac (poffs_split n (offs y))) * B0 n D b y)%Qc)
                 1%Qc (- ((1 + 1) * a))%Qc (a * a)%Qc 1%Qc); [ring|].
      intros y Hy. destruct (R y Hy) as (_ & _ & E2). rewrite E2. ring.
    - rewrite (lin2 0 (Z.to_nat n) _ (fun y => ((qz y - yc) * B1 n xc D b y)%Qc)
                 (fun y => ((qz y - yc) * (qz y - yc) * B0 n D b y)%Qc) 1%Qc (- a)%Qc); [ring|].
      intros y Hy. destruct (R y Hy) as (_ & E1 & _). rewrite E1. ring.
    - apply (sumZ_ext QcF). intros y Hy. destruct (R y Hy) as (E0 & _ & _). rewrite E0. reflexivity.
  Qed.
End GridKicks2.

(** ** the Fokker-Planck step on the grid: every energy column of bunch [b] *)
Section GridFP.
  Variables (n : Z) (e1 delta : Qc) (p : Z -> Qc) (v le m : Z).
  Hypothesis Hn : 2 <= n < 2 ^ 30.
  Variables (xc yc : Qc).
  (** the energy axis is delta*(y - zerobin) (Ruler::at with the zero bin of C03_zerobin_correct) *)
  Hypothesis Hp : forall j, p j = (delta * (qz j - yc))%Qc.
  Hypothesis Hd : delta <> 0%Qc.

  Notation H3q := (H3 QcF e1 delta p v n le m).
  Notation dd := (opt (K:=QcF) (has_damp v) e1).
  Notation ff := (opt (K:=QcF) (has_diff v) e1).

  Definition fp_grid (D : Z -> Qc) : Z -> Qc := fp_apply (K:=QcF) n n 3 H3q D.

  (** every energy column of bunch [b], read inside the array only, vanishes in rows 0, 1, n-2, n-1 *)
  Definition fp_ok (D : Z -> Qc) (b : Z) : Prop := forall x, 0 <= x < n -> suppQ (rowY n D b x) 2 (n - 2).

  Lemma uniform_p : uniform QcF delta p.
  Proof.
    intros j. rewrite !Hp. rewrite (fz_add QcF). change (fz (K:=QcF) 1) with 1%Qc. qc_unf. ring.
  Qed.

  Lemma fp_col_clip (r : Z -> Qc) y : 0 <= y < n -> fp_col_out 3 H3q r y = fp_col_out 3 H3q (clip n r) y.
  Proof.
    intros Hy. unfold fp_col_out. f_equal. apply map_ext_in. intros j Hj. cbv zeta.
    unfold zrange in Hj. apply in_map_iff in Hj. destruct Hj as (k & <- & Hk). apply in_seq in Hk.
    change (Z.to_nat 3) with 3%nat in Hk.
    assert (R : 0 <= fst (H3q (y * 3 + Z.of_nat k)) < n).
    { change (2 ^ 30) with 1073741824 in Hn. apply H3_index_range; change (2 ^ 32) with 4294967296; lia. }
    rewrite clip_in by exact R. reflexivity.
  Qed.

  Lemma fp_grid_cell D b x y : 0 <= x < n -> 0 <= y < n ->
    fp_grid D (didx n b x y) = fp_col_out 3 H3q (rowY n D b x) y.
  Proof.
    intros Hx Hy. unfold fp_grid. rewrite didx_flat. rewrite fp_apply_cell by lia.
    rewrite fp_col_clip by exact Hy. unfold rowY. apply (fp_col_out_ext QcF). intros s.
    unfold clip. destruct ((0 <=? s) && (s <? n))%bool; [|reflexivity]. rewrite didx_flat. reflexivity.
  Qed.

  Lemma fp_rows (D : Z -> Qc) b x : 0 <= x < n -> fp_ok D b ->
    A0 n (fp_grid D) b x = A0 n D b x /\
    A1 n yc (fp_grid D) b x = ((1 - dd) * A1 n yc D b x)%Qc /\
    A2 n yc (fp_grid D) b x =
      ((1 - (1 + 1) * dd) * A2 n yc D b x + ((1 + 1) * ff / (delta * delta) - dd) * A0 n D b x)%Qc.
  Proof.
    intros Hx Hok. pose proof (Hok x Hx) as Hs. pose proof uniform_p as Hax.
    assert (Hn' : 2 <= n < 2 ^ 32) by (change (2 ^ 30) with 1073741824 in Hn; change (2 ^ 32) with 4294967296; lia).
    set (r := rowY n D b x) in *.
    pose proof (fp3_moment0 QcF e1 delta p v n le m r Hn' Hs Hax Hd) as E0.
    pose proof (fp3_moment1 QcF e1 delta p v n le m r Hn' Hs Hax Hd) as E1.
    pose proof (fp3_moment2 QcF e1 delta p v n le m r Hn' Hs Hax Hd) as E2.
    unfold S0, S1, S2 in E0, E1, E2.
    (* sums of the clipped column are the sums of the column *)
    assert (C0 : sumQ 0 (Z.to_nat n) r = A0 n D b x) by (unfold r, rowY, A0; apply sum_clip1; lia).
    assert (C1 : sumQ 0 (Z.to_nat n) (fun y => @fmul QcF (p y) (r y)) = (delta * A1 n yc D b x)%Qc).
    { unfold A1. rewrite <- (sumZ_scale QcF). apply (sumZ_ext QcF). intros y Hy.
      unfold r, rowY. rewrite clip_in by lia. rewrite Hp. qc_unf. ring. }
    assert (C2 : sumQ 0 (Z.to_nat n) (fun y => @fmul QcF (@fmul QcF (p y) (p y)) (r y)) = (delta * delta * A2 n yc D b x)%Qc).
    { unfold A2. rewrite <- (sumZ_scale QcF). apply (sumZ_ext QcF). intros y Hy.
      unfold r, rowY. rewrite clip_in by lia. rewrite Hp. qc_unf. ring. }
    assert (G0 : sumQ 0 (Z.to_nat n) (fp_col_out 3 H3q r) = A0 n (fp_grid D) b x).
    { unfold A0. apply (sumZ_ext QcF). intros y Hy. rewrite fp_grid_cell by lia. reflexivity. }
    assert (G1 : sumQ 0 (Z.to_nat n) (fun y => @fmul QcF (p y) (fp_col_out 3 H3q r y)) = (delta * A1 n yc (fp_grid D) b x)%Qc).
    { unfold A1. rewrite <- (sumZ_scale QcF). apply (sumZ_ext QcF). intros y Hy.
      rewrite fp_grid_cell by lia. fold r. rewrite Hp. qc_unf. ring. }
    assert (G2 : sumQ 0 (Z.to_nat n) (fun y => @fmul QcF (@fmul QcF (p y) (p y)) (fp_col_out 3 H3q r y)) =
                 (delta * delta * A2 n yc (fp_grid D) b x)%Qc).
    { unfold A2. rewrite <- (sumZ_scale QcF). apply (sumZ_ext QcF). intros y Hy.
      rewrite fp_grid_cell by lia. fold r. rewrite Hp. qc_unf. ring. }
    rewrite G0, C0 in E0. rewrite G1, C1 in E1. rewrite G2, C2, C0 in E2.
    repeat split.
    - exact E0.
    - qc_unf. apply (Qc_cancel_l delta); [exact Hd|].  (* cancel delta *)
      rewrite E1. ring.
    - qc_unf. apply (Qc_cancel_l (delta * delta)%Qc); [intro Z; apply Qcmult_integral in Z; destruct Z; contradiction|].
      rewrite E2. unfold two. destruct (has_damp v), (has_diff v); cbn [opt]; qc_unf; field; exact Hd.
  Qed.

  Theorem fp_grid_moments2 (D : Z -> Qc) b : fp_ok D b ->
    M0 n (fp_grid D) b = M0 n D b /\
    MUU n xc (fp_grid D) b = MUU n xc D b /\
    MUV n xc yc (fp_grid D) b = ((1 - dd) * MUV n xc yc D b)%Qc /\
    MVV n yc (fp_grid D) b =
      ((1 - (1 + 1) * dd) * MVV n yc D b + ((1 + 1) * ff / (delta * delta) - dd) * M0 n D b)%Qc.
  Proof.
    intros Hok. rewrite !M0_rows, !MUU_rows, !MUV_rows, !MVV_rows.
    assert (R : forall x, 0 <= x < 0 + Z.of_nat (Z.to_nat n) -> _) by (intros x Hx; exact (fp_rows D b x ltac:(lia) Hok)).
    repeat split.
    - apply (sumZ_ext QcF). intros x Hx. apply (R x Hx).
    - apply (sumZ_ext QcF). intros x Hx. destruct (R x Hx) as (E0 & _ & _). rewrite E0. reflexivity.
    - rewrite <- (sumZ_scale QcF). apply (sumZ_ext QcF). intros x Hx. destruct (R x Hx) as (_ & E1 & _). rewrite E1.
      qc_unf. ring.
    - rewrite (lin2 0 (Z.to_nat n) _ (fun x => A2 n yc D b x) (fun x => A0 n D b x)
                 (1 - (1 + 1) * dd)%Qc ((1 + 1) * ff / (delta * delta) - dd)%Qc); [reflexivity|].
      intros x Hx. destruct (R x Hx) as (_ & _ & E2). exact E2.
  Qed.
End GridFP.

(** ** one full step *)
Section FullStep.
  Variables (n nb it : Z).
  Hypothesis Hv : valid_it it.
  Hypothesis H2 : 2 <= it.
  Hypothesis Hn : 2 <= n < 2 ^ 30.
  Hypothesis Hnb : 0 < nb.
  Variables (xc yc t a : Qc).
  Variables (orf odr : Z -> Qc).
  Variables (e1 delta : Qc) (p : Z -> Qc) (v le m : Z).
  Hypothesis Hrf : forall b x, 0 <= b < nb -> 0 <= x < n ->
      eff_off n (orf (Z.min b (nb - 1) * n + x)%Z) = (t * (xc - qz x))%Qc.
  Hypothesis Hdr : forall y, 0 <= y < n -> eff_off n (odr y) = (a * (qz y - yc))%Qc.
  Hypothesis Hp : forall j, p j = (delta * (qz j - yc))%Qc.
  Hypothesis Hd : delta <> 0%Qc.

  (** RFKickMap::apply, DriftMap::apply, FokkerPlanckMap::apply, in the order of the main loop *)
  Definition full_step (D : Z -> Qc) : Z -> Qc :=
    fp_grid n e1 delta p v le m (rf_drift_step n nb it orf odr D).
  Fixpoint iter_full (k : nat) (D : Z -> Qc) : Z -> Qc :=
    match k with O => D | S j => full_step (iter_full j D) end.

  Definition full_ok (D : Z -> Qc) (b : Z) : Prop :=
    step_ok n nb it orf odr D b /\ fp_ok n (rf_drift_step n nb it orf odr D) b.

  (** the moment vector of bunch [b] *)
  Definition gm2 (D : Z -> Qc) (b : Z) : mom2 QcF :=
    mkMom2 (K:=QcF) (MUU n xc D b) (MUV n xc yc D b) (MVV n yc D b) (M0 n D b).

  Definition bump_vv (x : Qc) (mm : mom2 QcF) : mom2 QcF := mkMom2 (K:=QcF) (muu mm) (muv mm) (mvv mm + x)%Qc (m0 mm).
  Definition bump_uu (x : Qc) (mm : mom2 QcF) : mom2 QcF := mkMom2 (K:=QcF) (muu mm + x)%Qc (muv mm) (mvv mm) (m0 mm).

  (** the exact law for every interpolation type with at least two points *)
  Theorem full_step_moments_general D b :
    0 <= b < nb -> full_ok D b ->
    gm2 (full_step D) b =
    sm_fp (K:=QcF) v e1 delta
      (bump_uu (infl_x n it odr (rf_apply n nb it orf D) b)
         (sm_drift (K:=QcF) a (bump_vv (infl_y n nb it orf D b) (sm_rf (K:=QcF) t (gm2 D b))))).
  Proof.
    intros Hb [[Ok1 Ok2] Ok3].
    assert (Hn1 : 0 < n < 2 ^ 30) by lia.
    destruct (rf_kick_moments n nb it Hv H2 Hn1 Hnb xc yc orf D t b Hb Ok1 (fun x Hx => Hrf b x Hb Hx)) as (A0' & _ & _).
    destruct (rf_kick_moments2 n nb it Hv H2 Hn1 Hnb xc yc orf D t b Hb Ok1 (fun x Hx => Hrf b x Hb Hx)) as (AUU & AUV & AVV).
    destruct (drift_kick_moments n nb it Hv H2 Hn1 Hnb xc yc odr (rf_apply n nb it orf D) a b Hb Ok2 Hdr) as (B0' & _ & _).
    destruct (drift_kick_moments2 n nb it Hv H2 Hn1 Hnb xc yc odr (rf_apply n nb it orf D) a b Hb Ok2 Hdr) as (BUU & BUV & BVV).
    fold (rf_apply n nb it orf D) in A0', AUU, AUV, AVV.
    fold (rf_drift_step n nb it orf odr D) in B0', BUU, BUV, BVV.
    destruct (fp_grid_moments2 n e1 delta p v le m Hn xc yc Hp Hd (rf_drift_step n nb it orf odr D) b Ok3)
      as (F0 & FUU & FUV & FVV).
    unfold gm2, full_step, sm_fp, sm_drift, sm_rf, bump_uu, bump_vv. cbn [muu muv mvv m0].
    rewrite F0, FUU, FUV, FVV, B0', BUU, BUV, BVV, A0', AUU, AUV, AVV.
    unfold two. qc_unf. f_equal; ring.
  Qed.

  (** from three points on the interpolation adds nothing: the vector moves exactly by [sm_step] *)
  Theorem full_step_moments D b :
    3 <= it -> 0 <= b < nb -> full_ok D b ->
    gm2 (full_step D) b = sm_step (K:=QcF) v a t e1 delta (gm2 D b).
  Proof.
    intros H3' Hb Hok. rewrite (full_step_moments_general D b Hb Hok).
    rewrite infl_y_ge3, infl_x_ge3 by exact H3'.
    unfold sm_step, bump_uu, bump_vv, sm_drift, sm_rf, sm_fp, gm2. cbn [muu muv mvv m0].
    qc_unf. f_equal; ring.
  Qed.

  (** the same, through the function the extracted driver iterates *)
  Definition gm2_list (D : Z -> Qc) (b : Z) : list Qc := [MUU n xc D b; MUV n xc yc D b; MVV n yc D b; M0 n D b].

  Corollary full_step_moments_list D b :
    3 <= it -> 0 <= b < nb -> full_ok D b ->
    gm2_list (full_step D) b = smq_step v a t e1 delta (gm2_list D b).
  Proof.
    intros H3' Hb Hok. pose proof (full_step_moments D b H3' Hb Hok) as E.
    unfold gm2_list, smq_step. fold (gm2 D b). rewrite <- E. reflexivity.
  Qed.

  (** k steps: the recurrence iterated, as long as the distribution stays inside *)
  Theorem iter_full_moments D b (k : nat) :
    3 <= it -> 0 <= b < nb -> (forall j, (j < k)%nat -> full_ok (iter_full j D) b) ->
    gm2 (iter_full k D) b = sm_iter (K:=QcF) k v a t e1 delta (gm2 D b).
  Proof.
    intros H3' Hb. revert D. induction k as [|k IH]; intros D Hok; [reflexivity|].
    assert (G : forall j D0, gm2 (iter_full j (full_step D0)) b = gm2 (iter_full (S j) D0) b).
    { intros j D0. f_equal. induction j as [|j IHj]; [reflexivity|]. cbn [iter_full]. rewrite IHj. reflexivity. }
    rewrite <- G. cbn [sm_iter].
    rewrite <- (full_step_moments D b H3' Hb (Hok O ltac:(lia))).
    apply IH. intros j Hj.
    assert (Ej : iter_full j (full_step D) = iter_full (S j) D).
    { clear. induction j as [|j IHj]; [reflexivity|]. cbn [iter_full]. rewrite IHj. reflexivity. }
    rewrite Ej. apply Hok. lia.
  Qed.

  (** linear interpolation (it = 2): the only departure from [sm_step] is the variance inflation of the two kicks *)
  Corollary full_step_moments_linear D b :
    it = 2 -> 0 <= b < nb -> full_ok D b ->
    let Nrf := infl_y n nb it orf D b in
    let Ndr := infl_x n it odr (rf_apply n nb it orf D) b in
    let s := sm_step (K:=QcF) v a t e1 delta (gm2 D b) in
    let dd := opt (K:=QcF) (has_damp v) e1 in
    gm2 (full_step D) b =
    mkMom2 (K:=QcF) (muu s + (Ndr + a * a * Nrf))%Qc (muv s - (1 - dd) * a * Nrf)%Qc
                    (mvv s + (1 - (1 + 1) * dd) * Nrf)%Qc (m0 s).
  Proof.
    intros _ Hb Hok Nrf Ndr s dd. rewrite (full_step_moments_general D b Hb Hok).
    unfold s, sm_step, bump_uu, bump_vv, sm_drift, sm_rf, sm_fp, gm2. cbn [muu muv mvv m0].
    fold Nrf; fold Ndr; fold dd. unfold two. qc_unf. f_equal; ring.
  Qed.
End FullStep.

(** the inflation is between 0 and a quarter of the charge for non-negative data *)
Lemma sumQ_nonneg lo len (g : Z -> Qc) :
  (forall i, lo <= i < lo + Z.of_nat len -> (0 <= g i)%Qc) -> (0 <= sumQ lo len g)%Qc.
Proof.
  revert lo. induction len as [|k IH]; intros lo H; cbn [sumZ]; [apply Qcle_refl|].
  qc_unf. apply (Qcle_trans _ (0 + 0)%Qc); [rewrite Qcplus_0_l; apply Qcle_refl|].
  apply Qcplus_le_compat; [apply H; lia | apply IH; intros i Hi; apply H; lia].
Qed.
Lemma sumQ_le lo len (g h : Z -> Qc) :
  (forall i, lo <= i < lo + Z.of_nat len -> (g i <= h i)%Qc) -> (sumQ lo len g <= sumQ lo len h)%Qc.
Proof.
  revert lo. induction len as [|k IH]; intros lo H; cbn [sumZ]; [apply Qcle_refl|].
  qc_unf. apply Qcplus_le_compat; [apply H; lia | apply IH; intros i Hi; apply H; lia].
Qed.

Theorem infl_y_bounds n nb it offs G b :
  (forall x, 0 <= x < n -> (0 <= sp_frac (poffs_split n (offs (Z.min b (nb - 1) * n + x)%Z)) <= 1)%Qc) ->
  (forall x, 0 <= x < n -> (0 <= A0 n G b x)%Qc) ->
  (0 <= infl_y n nb it offs G b)%Qc /\ (infl_y n nb it offs G b <= Q2Qc (1 # 4) * M0 n G b)%Qc.
Proof.
  intros Hf Hpos. unfold infl_y. split.
  - apply sumQ_nonneg. intros x Hx. assert (Hx' : 0 <= x < n) by lia.
    destruct (Hf x Hx') as [F0 F1]. destruct (kappa_bounds it _ F0 F1) as [K0 _].
    apply Qc_mul_nonneg; [exact K0 | apply Hpos; exact Hx'].
  - rewrite M0_rows. change (Q2Qc (1 # 4) * sumQ 0 (Z.to_nat n) (fun x => A0 n G b x))%Qc
      with (@fmul QcF (Q2Qc (1 # 4)) (sumQ 0 (Z.to_nat n) (fun x => A0 n G b x))).
    rewrite <- (sumZ_scale QcF). apply sumQ_le. intros x Hx. assert (Hx' : 0 <= x < n) by lia.
    destruct (Hf x Hx') as [F0 F1]. destruct (kappa_bounds it _ F0 F1) as [_ K1].
    qc_unf. apply Qcmult_le_compat_r; [exact K1 | apply Hpos; exact Hx'].
Qed.
