(** * Lemmas about the Fokker-Planck stencil model: transposition (column weights), the
    3-point and 4-point column weights for an arbitrary row multiplier (summation by parts) and
    conservation (C01).  The layout lemmas of apply are in FPGridP.v (C08), the first and second
    moments in FPMomentsP.v (C04): a change of the code that breaks one of them leaves the others checked. *)
From Coq Require Import List ZArith Lia Bool Ring Field.
From Inovesa Require Import Base.FieldKit Base.Sums Gen.Gen_FPStencil Model.FokkerPlanck Proofs.FPGridP.
Import ListNotations.
Local Open Scope Z_scope.

Section FPP.
  Variable K : Fld.
  Add Field KFfp : (@Fth K).
  Local Open Scope F_scope.

  Lemma fsum_zrange (g : Z -> K) ip : fsum (map g (zrange ip)) = sumZ 0 (Z.to_nat ip) g.
  Proof.
    rewrite sumZ_fsum_map. unfold zrange. rewrite !map_map. f_equal.
  Qed.

  Lemma sumZ_delta lo len a (g : Z -> K) :
    (lo <= a < lo + Z.of_nat len)%Z ->
    sumZ lo len (fun k => if (a =? k)%Z then g k else 0) = g a.
  Proof.
    revert lo; induction len as [|m IH]; intros lo H; cbn [sumZ]; [lia|].
    destruct (a =? lo)%Z eqn:E.
    - apply Z.eqb_eq in E; subst a. rewrite sumZ_zero; [ring|].
      intros i Hi. replace (lo =? i)%Z with false by (symmetry; apply Z.eqb_neq; lia). reflexivity.
    - apply Z.eqb_neq in E. rewrite IH by lia. ring.
  Qed.

  Lemma sum3 a (g : Z -> K) : sumZ a 3 g = g a + g (a + 1)%Z + g (a + 2)%Z.
  Proof. cbn [sumZ]. replace (a + 1 + 1)%Z with (a + 2)%Z by lia. ring. Qed.
  Lemma sum4 a (g : Z -> K) : sumZ a 4 g = g a + g (a + 1)%Z + g (a + 2)%Z + g (a + 3)%Z.
  Proof.
    cbn [sumZ]. replace (a + 1 + 1)%Z with (a + 2)%Z by lia.
    replace (a + 2 + 1)%Z with (a + 3)%Z by lia. ring.
  Qed.

  Lemma nth_zero_row ip i : nth i (zero_row (K:=K) ip) (0%Z, 0) = (0%Z, 0).
  Proof.
    unfold zero_row. generalize (zrange ip) as l. intros l. revert i.
    induction l as [|a l IH]; intros [|i]; cbn [map nth]; auto.
  Qed.

  (** ** Transposition: the weight with which input cell [k] of a column enters
      [sum_y mlt(y) * out(y)] *)
  Definition colw (ip : Z) (H : Z -> Z * K) (mlt : Z -> K) (n k : Z) : K :=
    sumZ 0 (Z.to_nat n) (fun y => sumZ 0 (Z.to_nat ip) (fun j =>
      if (fst (H (y * ip + j)%Z) =? k)%Z then mlt y * snd (H (y * ip + j)%Z) else 0)).

  Lemma col_transpose ip H (r mlt : Z -> K) n :
    (0 <= n)%Z -> (0 <= ip)%Z ->
    (forall y j, (0 <= y < n)%Z -> (0 <= j < ip)%Z -> (0 <= fst (H (y * ip + j)%Z) < n)%Z) ->
    sumZ 0 (Z.to_nat n) (fun y => mlt y * fp_col_out ip H r y) =
    sumZ 0 (Z.to_nat n) (fun k => r k * colw ip H mlt n k).
  Proof.
    intros Hn Hip Hidx. unfold colw.
    transitivity (sumZ 0 (Z.to_nat n) (fun y => sumZ 0 (Z.to_nat ip) (fun j =>
       sumZ 0 (Z.to_nat n) (fun k => r k *
          (if (fst (H (y * ip + j)%Z) =? k)%Z then mlt y * snd (H (y * ip + j)%Z) else 0))))).
    - apply sumZ_ext; intros y Hy. unfold fp_col_out. rewrite fsum_zrange, <- sumZ_scale.
      apply sumZ_ext; intros j Hj. cbv zeta.
      rewrite (sumZ_ext K _ _ _ (fun k => if (fst (H (y * ip + j)%Z) =? k)%Z
                                        then r k * (mlt y * snd (H (y * ip + j)%Z)) else 0)).
      2:{ intros k Hk. destruct (_ =? _)%Z; ring. }
      rewrite sumZ_delta by (specialize (Hidx y j); lia). ring.
    - symmetry.
      rewrite (sumZ_ext K _ _ _ (fun k => sumZ 0 (Z.to_nat n) (fun y => sumZ 0 (Z.to_nat ip) (fun j =>
         r k * (if (fst (H (y * ip + j)%Z) =? k)%Z then mlt y * snd (H (y * ip + j)%Z) else 0))))).
      2:{ intros k Hk. rewrite <- sumZ_scale. apply sumZ_ext; intros y Hy.
          rewrite <- sumZ_scale. reflexivity. }
      rewrite sumZ_swap. apply sumZ_ext; intros y Hy. rewrite sumZ_swap. reflexivity.
  Qed.

  (** ** The table of the model *)
  Variables (e1 delta : K) (p : Z -> K).
  Variables (v n lo_end m : Z).     (* m = hi_start *)
  Let dmp := has_damp v.
  Let dif := has_diff v.

  Definition H3 := fp_hinfo e1 delta p 3 v n lo_end m.
  Definition H4 := fp_hinfo e1 delta p 4 v n lo_end m.

  Lemma hinfo_at dt y j : (0 <= j < dt)%Z ->
    fp_hinfo e1 delta p dt v n lo_end m (y * dt + j)%Z =
    nth (Z.to_nat j) (fp_row e1 delta p dt v n lo_end m y) (0%Z, 0).
  Proof. intros Hj. unfold fp_hinfo. rewrite flat_div, flat_mod by lia. reflexivity. Qed.

  (** weights of the three kinds of rows *)
  Definition w3 (i : nat) (j : Z) : K := snd (nth i (row3 e1 delta dmp dif j (p j)) (0%Z, 0)).
  Definition wlo (i : nat) (j : Z) : K := snd (nth i (row4lo e1 delta dmp dif j (p j)) (0%Z, 0)).
  Definition whi (i : nat) (j : Z) : K := snd (nth i (row4hi e1 delta dmp dif j (p j)) (0%Z, 0)).

  Definition optb (b : bool) (x : K) : K := if b then x else 0.

  (** *** 3-point *)
  Definition is3 (y : Z) : bool := ((1 <=? y) && (y <? n - 1))%Z.

  Definition G (ip : Z) (H : Z -> Z * K) (mlt : Z -> K) (k y : Z) : K :=
    sumZ 0 (Z.to_nat ip) (fun j =>
      if (fst (H (y * ip + j)%Z) =? k)%Z then mlt y * snd (H (y * ip + j)%Z) else 0).

  Lemma G3_row mlt k y : (n < 2 ^ 32)%Z -> (k <> 0)%Z ->
    G 3 H3 mlt k y =
    optb (is3 y) (optb (y - 1 =? k)%Z (mlt y * w3 0 y) + optb (y =? k)%Z (mlt y * w3 1 y)
                  + optb (y + 1 =? k)%Z (mlt y * w3 2 y)).
  Proof.
    intros Hn Hk. unfold G. change (Z.to_nat 3) with 3%nat. rewrite sum3.
    change (0 + 1)%Z with 1%Z. change (0 + 2)%Z with 2%Z. unfold H3.
    rewrite !hinfo_at by lia.
    change (Z.to_nat 0) with 0%nat. change (Z.to_nat 1) with 1%nat. change (Z.to_nat 2) with 2%nat.
    unfold fp_row, is3, fp3_first, fp3_last_off. change (3 =? 3)%Z with true. cbv iota.
    destruct (y =? n - 1)%Z eqn:E1.
    - apply Z.eqb_eq in E1. replace (y <? n - 1)%Z with false by (symmetry; apply Z.ltb_ge; lia).
      rewrite andb_false_r. rewrite !nth_zero_row. cbn [fst snd optb].
      replace (0 =? k)%Z with false by (symmetry; apply Z.eqb_neq; lia). ring.
    - destruct ((1 <=? y)%Z && (y <? n - 1)%Z)%bool eqn:E2.
      + apply andb_true_iff in E2. destruct E2 as [E2 E3].
        apply Z.leb_le in E2. apply Z.ltb_lt in E3.
        unfold w3, row3. cbn [nth fst snd optb]. rewrite u32_small by lia. reflexivity.
      + rewrite !nth_zero_row. cbn [fst snd optb].
        replace (0 =? k)%Z with false by (symmetry; apply Z.eqb_neq; lia). ring.
  Qed.

  Lemma colw3_eval mlt k : (n < 2 ^ 32)%Z -> (2 <= k <= n - 3)%Z ->
    colw 3 H3 mlt n k = mlt (k + 1)%Z * w3 0 (k + 1) + mlt k * w3 1 k + mlt (k - 1)%Z * w3 2 (k - 1).
  Proof.
    intros Hn Hk. unfold colw. fold (G 3 H3 mlt k).
    rewrite (sum_window K (G 3 H3 mlt k) (k - 1) (k + 2) 0 (Z.to_nat n)); try lia.
    2:{ intros y Hy. rewrite G3_row by lia. unfold is3.
        destruct ((1 <=? y)%Z && (y <? n - 1)%Z)%bool; [|reflexivity]. cbn [optb].
        zb. cbn [optb]. ring. }
    replace (Z.to_nat (k + 2 - (k - 1))) with 3%nat by lia. rewrite sum3.
    rewrite !G3_row by lia. unfold is3. zb. cbn [optb].
    replace (k - 1 + 1)%Z with k by lia. replace (k - 1 + 2)%Z with (k + 1)%Z by lia.
    zb. cbn [optb]. ring.
  Qed.

  Lemma H3_index_range y j : (2 <= n < 2 ^ 32)%Z -> (0 <= y < n)%Z -> (0 <= j < 3)%Z ->
    (0 <= fst (H3 (y * 3 + j)%Z) < n)%Z.
  Proof.
    intros Hn Hy Hj. unfold H3. rewrite hinfo_at by lia.
    unfold fp_row, fp3_first, fp3_last_off. change (3 =? 3)%Z with true. cbv iota.
    destruct (y =? n - 1)%Z eqn:E1; [rewrite nth_zero_row; cbn [fst]; lia|].
    destruct ((1 <=? y)%Z && (y <? n - 1)%Z)%bool eqn:E2; [|rewrite nth_zero_row; cbn [fst]; lia].
    apply andb_true_iff in E2. destruct E2 as [E2 E3]. apply Z.leb_le in E2. apply Z.ltb_lt in E3.
    assert (j = 0 \/ j = 1 \/ j = 2)%Z as [ -> | [ -> | -> ] ] by lia; unfold row3;
      [change (Z.to_nat 0) with 0%nat | change (Z.to_nat 1) with 1%nat | change (Z.to_nat 2) with 2%nat];
      cbn [nth fst]; rewrite ?u32_small by lia; lia.
  Qed.

  (** the weight of input cell [k] in [sum_y mlt(y) out(y)], 3-point stencil *)
  Definition cw3 (mlt : Z -> K) (k : Z) : K :=
    mlt (k + 1)%Z * w3 0 (k + 1) + mlt k * w3 1 k + mlt (k - 1)%Z * w3 2 (k - 1).

  (** summation by parts for the 3-point operator, any multiplier *)
  Lemma fp3_weighted (r mlt : Z -> K) : (2 <= n < 2 ^ 32)%Z -> supp r 2 (n - 2) ->
    sumZ 0 (Z.to_nat n) (fun y => mlt y * fp_col_out 3 H3 r y) =
    sumZ 0 (Z.to_nat n) (fun k => r k * cw3 mlt k).
  Proof.
    intros Hn Hs. rewrite col_transpose; [|lia|lia|intros; apply H3_index_range; lia].
    apply sumZ_ext; intros k Hk.
    destruct (Z_le_dec 2 k) as [H2|H2]; [destruct (Z_le_dec k (n - 3)) as [H3'|H3']|].
    - rewrite colw3_eval by lia. reflexivity.
    - rewrite Hs by lia. ring.
    - rewrite Hs by lia. ring.
  Qed.

  (** uniform energy axis *)
  Definition uniform : Prop := forall j : Z, p (j + 1)%Z = p j + delta.

  Lemma p_pred : uniform -> forall k, p (k - 1)%Z = p k - delta.
  Proof. intros Hax k. specialize (Hax (k - 1)%Z). replace (k - 1 + 1)%Z with k in Hax by lia. rewrite Hax. ring. Qed.

  Lemma cw3_one k : uniform -> delta <> 0 -> cw3 (fun _ => 1) k = 1.
  Proof.
    intros Hax Hd. unfold cw3, w3, row3. cbn [nth snd]. rewrite (Hax k), (p_pred Hax k).
    unfold dmp, dif, opt, e1_2d, e1_d2. destruct (has_damp v), (has_diff v); field; repeat split; (exact Hd || fld_nz1 K).
  Qed.

  (** moments of a column along the energy axis *)
  Definition S0 (f : Z -> K) : K := sumZ 0 (Z.to_nat n) f.
  Definition S1 (f : Z -> K) : K := sumZ 0 (Z.to_nat n) (fun y => p y * f y).
  Definition S2 (f : Z -> K) : K := sumZ 0 (Z.to_nat n) (fun y => p y * p y * f y).

  Lemma fp3_moment0 (r : Z -> K) : (2 <= n < 2 ^ 32)%Z -> supp r 2 (n - 2) -> uniform -> delta <> 0 ->
    S0 (fp_col_out 3 H3 r) = S0 r.
  Proof.
    intros Hn Hs Hax Hd. unfold S0.
    rewrite (sumZ_ext K _ _ _ (fun y => (fun _ => 1) y * fp_col_out 3 H3 r y)) by (intros; ring).
    rewrite fp3_weighted by assumption. apply sumZ_ext; intros k Hk. rewrite cw3_one by assumption. ring.
  Qed.

  (** the operator spreads the support by one cell per application *)
  Lemma fp3_supp (r : Z -> K) a b : (2 <= n < 2 ^ 32)%Z -> (1 <= a)%Z -> (b <= n - 1)%Z -> supp r a b ->
    supp (fun y => if ((0 <=? y) && (y <? n))%Z then fp_col_out 3 H3 r y else 0) (a - 1) (b + 1).
  Proof.
    intros Hn Ha Hb Hs y Hy.
    destruct ((0 <=? y)%Z && (y <? n)%Z)%bool eqn:E; [|reflexivity].
    apply andb_true_iff in E. destruct E as [E1 E2]. apply Z.leb_le in E1. apply Z.ltb_lt in E2.
    unfold fp_col_out. rewrite fsum_zrange. change (Z.to_nat 3) with 3%nat. rewrite sum3.
    change (0 + 1)%Z with 1%Z. change (0 + 2)%Z with 2%Z. cbv zeta. unfold H3. rewrite !hinfo_at by lia.
    change (Z.to_nat 0) with 0%nat. change (Z.to_nat 1) with 1%nat. change (Z.to_nat 2) with 2%nat.
    unfold fp_row, fp3_first, fp3_last_off. change (3 =? 3)%Z with true. cbv iota.
    destruct (y =? n - 1)%Z eqn:E3; [rewrite !nth_zero_row; cbn [fst snd]; ring|].
    destruct ((1 <=? y)%Z && (y <? n - 1)%Z)%bool eqn:E4; [|rewrite !nth_zero_row; cbn [fst snd]; ring].
    apply andb_true_iff in E4. destruct E4 as [E4 E5]. apply Z.leb_le in E4. apply Z.ltb_lt in E5.
    unfold row3. cbn [nth fst snd]. rewrite u32_small by lia.
    rewrite (Hs (y - 1)%Z), (Hs y), (Hs (y + 1)%Z) by lia. ring.
  Qed.

  (** ** a column of the bunch-major array, restricted to its own [n] cells (the flat array goes on
      with the next column: a support hypothesis on the unrestricted function [s => D (c*n+s)] would
      force the neighbouring columns to vanish) *)
  Definition colclip (r : Z -> K) (s : Z) : K := if ((0 <=? s) && (s <? n))%Z then r s else 0.

  Lemma colclip_in r s : (0 <= s < n)%Z -> colclip r s = r s.
  Proof. intros Hs. unfold colclip. destruct (Z.leb_spec 0 s); destruct (Z.ltb_spec s n); cbn [andb]; try lia. reflexivity. Qed.

  Lemma S0_colclip r : S0 (colclip r) = S0 r.
  Proof. unfold S0. apply sumZ_ext. intros i Hi. apply colclip_in. lia. Qed.

  Lemma fp_col_out_colclip ip H (r : Z -> K) y :
    (0 <= ip)%Z -> (forall j, (0 <= j < ip)%Z -> (0 <= fst (H (y * ip + j)%Z) < n)%Z) ->
    fp_col_out ip H (colclip r) y = fp_col_out ip H r y.
  Proof.
    intros Hip Hidx. unfold fp_col_out. f_equal. apply map_ext_in. intros j Hj.
    unfold zrange in Hj. apply in_map_iff in Hj. destruct Hj as (k & <- & Hk). apply in_seq in Hk.
    cbv zeta. rewrite colclip_in; [reflexivity|]. apply Hidx. lia.
  Qed.

  Lemma S0_fp_col_out_colclip ip H (r : Z -> K) :
    (0 <= ip)%Z -> (forall y j, (0 <= y < n)%Z -> (0 <= j < ip)%Z -> (0 <= fst (H (y * ip + j)%Z) < n)%Z) ->
    S0 (fp_col_out ip H (colclip r)) = S0 (fp_col_out ip H r).
  Proof.
    intros Hip Hidx. unfold S0. apply sumZ_ext. intros y Hy. apply fp_col_out_colclip; [exact Hip|].
    intros j Hj. apply Hidx; lia.
  Qed.

  (** C01, 3-point stencil, the whole array: every column's own cells are clear of the border rows *)
  Lemma fp3_conserves_grid_cols xs nb (D : Z -> K) :
    (2 <= n < 2 ^ 32)%Z -> (0 < xs)%Z -> (0 <= nb)%Z -> uniform -> delta <> 0 ->
    (forall c, (0 <= c < nb * xs)%Z -> supp (colclip (fun s => D (c * n + s)%Z)) 2 (n - 2)) ->
    sumZ 0 (Z.to_nat (nb * xs * n)) (fp_apply n xs 3 H3 D) = sumZ 0 (Z.to_nat (nb * xs * n)) D.
  Proof.
    intros Hn Hxs Hnb Hax Hd Hs.
    rewrite (sumZ_ext K _ _ _ (fun i => 1 * fp_apply n xs 3 H3 D i)) by (intros; ring).
    pose proof (fp_grid_sum K n xs nb 3 H3 D (fun _ => 1)) as W. cbv beta in W. rewrite W by lia. clear W.
    rewrite plain_grid_sum by nia.
    apply sumZ_ext. intros c Hc.
    rewrite (sumZ_ext K _ _ _ (fp_col_out 3 H3 (fun s => D (c * n + s)%Z))) by (intros; ring).
    change (S0 (fp_col_out 3 H3 (fun s => D (c * n + s)%Z)) = S0 (fun s => D (c * n + s)%Z)).
    rewrite <- S0_fp_col_out_colclip by (try lia; intros; apply H3_index_range; lia).
    rewrite <- (S0_colclip (fun s => D (c * n + s)%Z)).
    apply fp3_moment0; auto. apply Hs. lia.
  Qed.

  (** C01, 3-point stencil, the whole array, single-column form (the support hypothesis on the unrestricted
      column function forces every other column to vanish; kept for reference, see [fp3_conserves_grid_cols]) *)
  Lemma fp3_conserves_grid xs nb (D : Z -> K) :
    (2 <= n < 2 ^ 32)%Z -> (0 < xs)%Z -> (0 <= nb)%Z -> uniform -> delta <> 0 ->
    (forall c, (0 <= c < nb * xs)%Z -> supp (fun s => D (c * n + s)%Z) 2 (n - 2)) ->
    sumZ 0 (Z.to_nat (nb * xs * n)) (fp_apply n xs 3 H3 D) = sumZ 0 (Z.to_nat (nb * xs * n)) D.
  Proof.
    intros Hn Hxs Hnb Hax Hd Hs.
    rewrite (sumZ_ext K _ _ _ (fun i => 1 * fp_apply n xs 3 H3 D i)) by (intros; ring).
    pose proof (fp_grid_sum K n xs nb 3 H3 D (fun _ => 1)) as W. cbv beta in W. rewrite W by lia. clear W.
    rewrite plain_grid_sum by nia.
    apply sumZ_ext. intros c Hc.
    rewrite (sumZ_ext K _ _ _ (fp_col_out 3 H3 (fun s => D (c * n + s)%Z))) by (intros; ring).
    apply (fp3_moment0 (fun s => D (c * n + s)%Z)); auto. apply Hs. lia.
  Qed.

  (** *** 4-point one-sided stencil, switching sides at row [m] *)
  Definition ind (b : bool) : K := if b then 1 else 0.
  Definition is_lo (y : Z) : bool := ((2 <=? y) && (y <? m))%Z.
  Definition is_hi (y : Z) : bool := ((m <=? y) && (y <? n - 2))%Z.

  Definition dom4 : Prop := (n < 2 ^ 32 /\ 2 <= m <= n - 2 /\ m <= lo_end <= m + 1)%Z.

  Lemma sum5 a (g : Z -> K) : sumZ a 5 g = g a + g (a + 1)%Z + g (a + 2)%Z + g (a + 3)%Z + g (a + 4)%Z.
  Proof.
    cbn [sumZ]. replace (a + 1 + 1)%Z with (a + 2)%Z by lia.
    replace (a + 2 + 1)%Z with (a + 3)%Z by lia. replace (a + 3 + 1)%Z with (a + 4)%Z by lia. ring.
  Qed.

  Lemma fp_row4 y : dom4 ->
    fp_row e1 delta p 4 v n lo_end m y =
    if is_lo y then row4lo e1 delta dmp dif y (p y)
    else if is_hi y then row4hi e1 delta dmp dif y (p y) else zero_row 4.
  Proof.
    intros (Hn & Hm & Hle). unfold fp_row, is_lo, is_hi, fp4_first, fp4_last_off.
    change (4 =? 3)%Z with false. cbv iota.
    destruct (Z_lt_dec y 2); destruct (Z_lt_dec y m); destruct (Z_lt_dec y (n - 2)); zb; try reflexivity; try lia.
    destruct (Z.eq_dec y (n - 2)); [zb; reflexivity|]. destruct (Z.eq_dec y (n - 1)); zb; reflexivity.
  Qed.

  Lemma G4_row mlt k y : dom4 -> (k <> 0)%Z ->
    G 4 H4 mlt k y =
    ind (is_lo y) * (ind (y - 2 =? k)%Z * (mlt y * wlo 0 y) + ind (y - 1 =? k)%Z * (mlt y * wlo 1 y)
                     + ind (y =? k)%Z * (mlt y * wlo 2 y) + ind (y + 1 =? k)%Z * (mlt y * wlo 3 y))
    + ind (is_hi y) * (ind (y - 1 =? k)%Z * (mlt y * whi 0 y) + ind (y =? k)%Z * (mlt y * whi 1 y)
                       + ind (y + 1 =? k)%Z * (mlt y * whi 2 y) + ind (y + 2 =? k)%Z * (mlt y * whi 3 y)).
  Proof.
    intros Hd Hk. pose proof Hd as (Hn & Hm & Hle).
    unfold G. change (Z.to_nat 4) with 4%nat. rewrite sum4.
    change (0 + 1)%Z with 1%Z. change (0 + 2)%Z with 2%Z. change (0 + 3)%Z with 3%Z. unfold H4.
    rewrite !hinfo_at by lia. rewrite fp_row4 by exact Hd.
    change (Z.to_nat 0) with 0%nat. change (Z.to_nat 1) with 1%nat. change (Z.to_nat 2) with 2%nat.
    change (Z.to_nat 3) with 3%nat.
    destruct (is_lo y) eqn:E1; [|destruct (is_hi y) eqn:E2].
    - assert (E2 : is_hi y = false).
      { unfold is_lo, is_hi in *. apply andb_true_iff in E1. destruct E1 as [A B]. apply Z.ltb_lt in B.
        replace (m <=? y)%Z with false by (symmetry; apply Z.leb_gt; lia). reflexivity. }
      rewrite E2. unfold is_lo in E1. apply andb_true_iff in E1. destruct E1 as [A B].
      apply Z.leb_le in A. apply Z.ltb_lt in B.
      unfold wlo, row4lo. cbn [nth fst snd ind]. rewrite !u32_small by lia.
      destruct (y - 2 =? k)%Z, (y - 1 =? k)%Z, (y =? k)%Z, (y + 1 =? k)%Z; cbn [ind]; ring.
    - unfold is_hi in E2. apply andb_true_iff in E2. destruct E2 as [A B].
      apply Z.leb_le in A. apply Z.ltb_lt in B.
      unfold whi, row4hi. cbn [nth fst snd ind]. rewrite !u32_small by lia.
      destruct (y - 1 =? k)%Z, (y =? k)%Z, (y + 1 =? k)%Z, (y + 2 =? k)%Z; cbn [ind]; ring.
    - rewrite !nth_zero_row. cbn [fst snd ind].
      replace (0 =? k)%Z with false by (symmetry; apply Z.eqb_neq; lia). ring.
  Qed.

  Lemma H4_index_range y j : dom4 -> (0 <= y < n)%Z -> (0 <= j < 4)%Z ->
    (0 <= fst (H4 (y * 4 + j)%Z) < n)%Z.
  Proof.
    intros Hd Hy Hj. pose proof Hd as (Hn & Hm & Hle). unfold H4. rewrite hinfo_at by lia.
    rewrite fp_row4 by exact Hd.
    destruct (is_lo y) eqn:E1; [|destruct (is_hi y) eqn:E2].
    - unfold is_lo in E1. apply andb_true_iff in E1. destruct E1 as [A B].
      apply Z.leb_le in A. apply Z.ltb_lt in B.
      assert (j = 0 \/ j = 1 \/ j = 2 \/ j = 3)%Z as [ -> | [ -> | [ -> | -> ] ] ] by lia; unfold row4lo;
        [change (Z.to_nat 0) with 0%nat | change (Z.to_nat 1) with 1%nat | change (Z.to_nat 2) with 2%nat
         | change (Z.to_nat 3) with 3%nat]; cbn [nth fst]; rewrite ?u32_small by lia; lia.
    - unfold is_hi in E2. apply andb_true_iff in E2. destruct E2 as [A B].
      apply Z.leb_le in A. apply Z.ltb_lt in B.
      assert (j = 0 \/ j = 1 \/ j = 2 \/ j = 3)%Z as [ -> | [ -> | [ -> | -> ] ] ] by lia; unfold row4hi;
        [change (Z.to_nat 0) with 0%nat | change (Z.to_nat 1) with 1%nat | change (Z.to_nat 2) with 2%nat
         | change (Z.to_nat 3) with 3%nat]; cbn [nth fst]; rewrite ?u32_small by lia; lia.
    - rewrite nth_zero_row. cbn [fst]. lia.
  Qed.

  (** weight of input cell [k] in [sum_y mlt(y) out(y)], 4-point stencil: four rows of each kind can
      reach [k]; which of them exist depends on where [k] lies relative to [m] and to the border *)
  Definition cw4 (mlt : Z -> K) (k : Z) : K :=
    ind (is_lo (k + 2)) * (mlt (k + 2)%Z * wlo 0 (k + 2)) + ind (is_lo (k + 1)) * (mlt (k + 1)%Z * wlo 1 (k + 1))
    + ind (is_lo k) * (mlt k * wlo 2 k) + ind (is_lo (k - 1)) * (mlt (k - 1)%Z * wlo 3 (k - 1))
    + ind (is_hi (k + 1)) * (mlt (k + 1)%Z * whi 0 (k + 1)) + ind (is_hi k) * (mlt k * whi 1 k)
    + ind (is_hi (k - 1)) * (mlt (k - 1)%Z * whi 2 (k - 1)) + ind (is_hi (k - 2)) * (mlt (k - 2)%Z * whi 3 (k - 2)).

  Lemma colw4_eval mlt k : dom4 -> (2 <= k <= n - 3)%Z -> colw 4 H4 mlt n k = cw4 mlt k.
  Proof.
    intros Hd Hk. pose proof Hd as (Hn & Hm & Hle). unfold colw. fold (G 4 H4 mlt k).
    rewrite (sum_window K (G 4 H4 mlt k) (k - 2) (k + 3) 0 (Z.to_nat n)); try lia.
    2:{ intros y Hy. rewrite G4_row by (assumption || lia). zb. cbn [ind]. ring. }
    replace (Z.to_nat (k + 3 - (k - 2))) with 5%nat by lia. rewrite sum5.
    rewrite !G4_row by (assumption || lia).
    replace (k - 2 + 1)%Z with (k - 1)%Z by lia. replace (k - 2 + 2)%Z with k by lia.
    replace (k - 2 + 3)%Z with (k + 1)%Z by lia. replace (k - 2 + 4)%Z with (k + 2)%Z by lia.
    unfold cw4.
    generalize (is_lo (k - 2)), (is_lo (k - 1)), (is_lo k), (is_lo (k + 1)), (is_lo (k + 2)),
               (is_hi (k - 2)), (is_hi (k - 1)), (is_hi k), (is_hi (k + 1)), (is_hi (k + 2)).
    intros b1 b2 b3 b4 b5 c1 c2 c3 c4 c5.
    zb. cbn [ind]. ring.
  Qed.

  Lemma fp4_weighted (r mlt : Z -> K) : dom4 -> (4 <= n)%Z -> supp r 2 (n - 2) ->
    sumZ 0 (Z.to_nat n) (fun y => mlt y * fp_col_out 4 H4 r y) =
    sumZ 0 (Z.to_nat n) (fun k => r k * cw4 mlt k).
  Proof.
    intros Hd Hn4 Hs. pose proof Hd as (Hn & Hm & Hle).
    rewrite col_transpose; [|lia|lia|intros; apply H4_index_range; (assumption || lia)].
    apply sumZ_ext; intros k Hk.
    destruct (Z_le_dec 2 k) as [H2|H2]; [destruct (Z_le_dec k (n - 3)) as [H3'|H3']|].
    - rewrite colw4_eval by (assumption || lia). reflexivity.
    - rewrite Hs by lia. ring.
    - rewrite Hs by lia. ring.
  Qed.

  (** column sums of the 4-point operator: the defect coefficient of row [k] (times [e1] with damping) *)
  Definition six : K := two * three.
  Definition c4 (k : Z) : K :=
    if (k =? m - 2)%Z then - (p m) / (six * delta)
    else if (k =? m - 1)%Z then (three * p m - delta) / (six * delta)
    else if (k =? m)%Z then - (three * p m - two * delta) / (six * delta)
    else if (k =? m + 1)%Z then (p m - delta) / (six * delta)
    else 0.

  Lemma p_add2 : uniform -> forall k, p (k + 2)%Z = p k + delta + delta.
  Proof. intros Hax k. replace (k + 2)%Z with (k + 1 + 1)%Z by lia. rewrite !Hax. ring. Qed.
  Lemma p_sub2 : uniform -> forall k, p (k - 2)%Z = p k - delta - delta.
  Proof. intros Hax k. replace (k - 2)%Z with (k - 1 - 1)%Z by lia. rewrite !(p_pred Hax). ring. Qed.

  Ltac fp4_field Hax Hd k :=
    unfold cw4, is_lo, is_hi; zb; cbn [ind]; unfold wlo, whi, row4lo, row4hi; cbn [nth snd];
    rewrite ?(Hax k), ?(p_pred Hax k), ?(p_add2 Hax k), ?(p_sub2 Hax k);
    unfold dmp, dif, opt, e1_6d, e1_d2, six, two, three; destruct (has_damp v), (has_diff v);
    field; repeat split; (exact Hd || fld_nz1 K).

  Lemma cw4_one_lo k : dom4 -> uniform -> delta <> 0 -> (3 <= k <= m - 3)%Z -> cw4 (fun _ => 1) k = 1.
  Proof. intros (Hn & Hm & Hle) Hax Hd Hk. fp4_field Hax Hd k. Qed.

  Lemma cw4_one_hi k : dom4 -> uniform -> delta <> 0 -> (m + 2 <= k <= n - 4)%Z -> cw4 (fun _ => 1) k = 1.
  Proof. intros (Hn & Hm & Hle) Hax Hd Hk. fp4_field Hax Hd k. Qed.

  Lemma cw4_one_sw k : dom4 -> uniform -> delta <> 0 -> (5 <= m <= n - 5)%Z -> (m - 2 <= k <= m + 1)%Z ->
    cw4 (fun _ => 1) k = 1 + opt dmp e1 * c4 k.
  Proof.
    intros (Hn & Hm & Hle) Hax Hd Hm5 Hk.
    assert (k = m - 2 \/ k = m - 1 \/ k = m \/ k = m + 1)%Z as [E|[E|[E|E]]] by lia.
    - assert (Epm : p m = p k + delta + delta) by (replace m with (k + 2)%Z by lia; apply p_add2; exact Hax).
      unfold c4. zb. rewrite Epm. fp4_field Hax Hd k.
    - assert (Epm : p m = p k + delta) by (replace m with (k + 1)%Z by lia; apply Hax).
      unfold c4. zb. rewrite Epm. fp4_field Hax Hd k.
    - assert (Epm : p m = p k) by (f_equal; lia).
      unfold c4. zb. rewrite Epm. fp4_field Hax Hd k.
    - assert (Epm : p m = p k - delta) by (replace m with (k - 1)%Z by lia; apply p_pred; exact Hax).
      unfold c4. zb. rewrite Epm. fp4_field Hax Hd k.
  Qed.

  (** every interior column sum of the 4-point operator *)
  Lemma fp4_column_sum k : dom4 -> uniform -> delta <> 0 -> (5 <= m <= n - 5)%Z -> (3 <= k <= n - 4)%Z ->
    colw 4 H4 (fun _ => 1) n k = 1 + opt dmp e1 * c4 k.
  Proof.
    intros Hdm Hax Hd Hm5 Hk. rewrite colw4_eval by (assumption || lia).
    destruct (Z_lt_dec k (m - 2)); [|destruct (Z_lt_dec (m + 1) k)].
    - rewrite cw4_one_lo by (assumption || lia). unfold c4. zb. ring.
    - rewrite cw4_one_hi by (assumption || lia). unfold c4. zb. ring.
    - apply cw4_one_sw; (assumption || lia).
  Qed.

  (** C01.5: the charge defect of the 4-point step is e1 times a combination of the four switch rows *)
  Lemma fp4_defect (r : Z -> K) : dom4 -> uniform -> delta <> 0 -> (5 <= m <= n - 5)%Z -> supp r 3 (n - 3) ->
    S0 (fp_col_out 4 H4 r) =
    S0 r + opt dmp e1 * (r (m - 2)%Z * c4 (m - 2) + r (m - 1)%Z * c4 (m - 1) + r m * c4 m + r (m + 1)%Z * c4 (m + 1)).
  Proof.
    intros Hdm Hax Hd Hm5 Hs. pose proof Hdm as (Hn & Hm & Hle). unfold S0.
    rewrite (sumZ_ext K _ _ _ (fun y => 1 * fp_col_out 4 H4 r y)) by (intros; ring).
    pose proof (fp4_weighted r (fun _ => 1) Hdm) as W. cbv beta in W. rewrite W; [|lia|intros i Hi; apply Hs; lia].
    clear W.
    rewrite (sumZ_ext K _ _ _ (fun k => r k + opt dmp e1 * (r k * c4 k))).
    2:{ intros k Hk. destruct (Z_le_dec 3 k); [destruct (Z_le_dec k (n - 4))|].
        - rewrite <- colw4_eval by (assumption || lia). rewrite fp4_column_sum by (assumption || lia). ring.
        - rewrite Hs by lia. ring.
        - rewrite Hs by lia. ring. }
    rewrite sumZ_add, sumZ_scale. f_equal. f_equal.
    rewrite (sum_window K (fun k => r k * c4 k) (m - 2) (m + 2) 0 (Z.to_nat n)); try lia.
    2:{ intros k Hk. unfold c4. zb. ring. }
    replace (Z.to_nat (m + 2 - (m - 2))) with 4%nat by lia. rewrite sum4.
    replace (m - 2 + 1)%Z with (m - 1)%Z by lia. replace (m - 2 + 2)%Z with m by lia.
    replace (m - 2 + 3)%Z with (m + 1)%Z by lia. ring.
  Qed.

  (** without damping the 4-point step conserves exactly *)
  Lemma fp4_conserves_nodamp (r : Z -> K) : dom4 -> uniform -> delta <> 0 -> (5 <= m <= n - 5)%Z ->
    supp r 3 (n - 3) -> has_damp v = false -> S0 (fp_col_out 4 H4 r) = S0 r.
  Proof. intros Hdm Hax Hd Hm5 Hs Hv. rewrite fp4_defect by assumption. unfold dmp. rewrite Hv. unfold opt. ring. Qed.

  (** the four defect coefficients cancel: a locally constant distribution does not leak *)
  Lemma c4_sum : delta <> 0 -> (c4 (m - 2) + c4 (m - 1) + c4 m + c4 (m + 1)) = 0.
  Proof. intros Hd. unfold c4. zb. unfold six, two, three. field. repeat split; (exact Hd || fld_nz1 K). Qed.

  Lemma fp3_column_sums k : (n < 2 ^ 32)%Z -> (2 <= k <= n - 3)%Z -> uniform -> delta <> 0 ->
    colw 3 H3 (fun _ => 1) n k = 1.
  Proof. intros Hn Hk Hax Hd. rewrite colw3_eval by assumption. apply cw3_one; assumption. Qed.

  Lemma c4_outside k : (k < m - 2 \/ m + 1 < k)%Z -> c4 k = 0.
  Proof. intros Hk. unfold c4. zb. reflexivity. Qed.

  Definition sw4 (r : Z -> K) : K :=
    r (m - 2)%Z * c4 (m - 2) + r (m - 1)%Z * c4 (m - 1) + r m * c4 m + r (m + 1)%Z * c4 (m + 1).

  Lemma fp4_defect_grid xs nb (D : Z -> K) :
    dom4 -> uniform -> delta <> 0 -> (5 <= m <= n - 5)%Z -> (0 < xs)%Z -> (0 <= nb)%Z ->
    (forall c, (0 <= c < nb * xs)%Z -> supp (fun s => D (c * n + s)%Z) 3 (n - 3)) ->
    sumZ 0 (Z.to_nat (nb * xs * n)) (fp_apply n xs 4 H4 D) =
    sumZ 0 (Z.to_nat (nb * xs * n)) D +
    opt dmp e1 * sumZ 0 (Z.to_nat (nb * xs)) (fun c => sw4 (fun s => D (c * n + s)%Z)).
  Proof.
    intros Hdm Hax Hd Hm5 Hxs Hnb Hs. pose proof Hdm as (Hn & Hm & Hle).
    rewrite (sumZ_ext K _ _ _ (fun i => 1 * fp_apply n xs 4 H4 D i)) by (intros; ring).
    pose proof (fp_grid_sum K n xs nb 4 H4 D (fun _ => 1)) as W. cbv beta in W. rewrite W by lia. clear W.
    rewrite plain_grid_sum by nia. rewrite <- sumZ_scale, <- sumZ_add.
    apply sumZ_ext. intros c Hc.
    rewrite (sumZ_ext K _ _ _ (fp_col_out 4 H4 (fun s => D (c * n + s)%Z))) by (intros; ring).
    apply (fp4_defect (fun s => D (c * n + s)%Z)); auto. apply Hs. lia.
  Qed.
  Lemma sw4_colclip (r : Z -> K) : (5 <= m <= n - 5)%Z -> sw4 (colclip r) = sw4 r.
  Proof. intros Hm. unfold sw4. rewrite !colclip_in by lia. reflexivity. Qed.

  Lemma fp4_defect_grid_cols xs nb (D : Z -> K) :
    dom4 -> uniform -> delta <> 0 -> (5 <= m <= n - 5)%Z -> (0 < xs)%Z -> (0 <= nb)%Z ->
    (forall c, (0 <= c < nb * xs)%Z -> supp (colclip (fun s => D (c * n + s)%Z)) 3 (n - 3)) ->
    sumZ 0 (Z.to_nat (nb * xs * n)) (fp_apply n xs 4 H4 D) =
    sumZ 0 (Z.to_nat (nb * xs * n)) D +
    opt dmp e1 * sumZ 0 (Z.to_nat (nb * xs)) (fun c => sw4 (fun s => D (c * n + s)%Z)).
  Proof.
    intros Hdm Hax Hd Hm5 Hxs Hnb Hs. pose proof Hdm as (Hn & Hm & Hle).
    rewrite (sumZ_ext K _ _ _ (fun i => 1 * fp_apply n xs 4 H4 D i)) by (intros; ring).
    pose proof (fp_grid_sum K n xs nb 4 H4 D (fun _ => 1)) as W. cbv beta in W. rewrite W by lia. clear W.
    rewrite plain_grid_sum by nia. rewrite <- sumZ_scale, <- sumZ_add.
    apply sumZ_ext. intros c Hc.
    rewrite (sumZ_ext K _ _ _ (fp_col_out 4 H4 (fun s => D (c * n + s)%Z))) by (intros; ring).
    change (S0 (fp_col_out 4 H4 (fun s => D (c * n + s)%Z)) =
            S0 (fun s => D (c * n + s)%Z) + opt dmp e1 * sw4 (fun s => D (c * n + s)%Z)).
    rewrite <- S0_fp_col_out_colclip by (try lia; intros; apply H4_index_range; (assumption || lia)).
    rewrite <- (S0_colclip (fun s => D (c * n + s)%Z)), <- (sw4_colclip (fun s => D (c * n + s)%Z)) by exact Hm5.
    apply fp4_defect; auto. apply Hs. lia.
  Qed.
End FPP.
