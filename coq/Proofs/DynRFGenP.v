(** Per-run obligations on the generated constructor table (proof by reflection, DESIGN 2.2),
    and the real-number reading of the sinusoidal modulation. *)
From Coq Require Import List ZArith String Reals Lra Lia.
From Inovesa Require Import Base.FieldKit Base.RInst Model.Ctors Gen.Gen_Ctors Model.DynRF
  Proofs.CtorsP Proofs.DynRFP.
Import ListNotations.

Lemma linear_forwarding_checked :
  fwd_check rfkick_ctors dyn_linear true linear_names linear_want = true.
Proof. vm_compute. reflexivity. Qed.

Lemma sinusoidal_forwarding_checked :
  fwd_check rfkick_ctors dyn_sinusoidal false sinusoidal_names sinusoidal_want = true.
Proof. vm_compute. reflexivity. Qed.

Lemma ctor_forwarding_linear :
  forwarding_spec rfkick_ctors dyn_linear true linear_names linear_want.
Proof. apply fwd_check_sound. exact linear_forwarding_checked. Qed.

Lemma ctor_forwarding_sinusoidal :
  forwarding_spec rfkick_ctors dyn_sinusoidal false sinusoidal_names sinusoidal_want.
Proof. apply fwd_check_sound. exact sinusoidal_forwarding_checked. Qed.

(** integers of the generic kit are the real integers in the instance [RF] *)
Lemma fpos_RF p : @fpos RF p = IZR (Zpos p).
Proof.
  induction p as [q IH|q IH|]; cbn [fpos].
  - rewrite Pos2Z.inj_xI, plus_IZR, mult_IZR, <- IH. unfold two, fadd, fmul, f1, RF; cbn. lra.
  - rewrite Pos2Z.inj_xO, mult_IZR, <- IH. unfold two, fadd, fmul, f1, RF; cbn. lra.
  - reflexivity.
Qed.

Lemma fz_RF z : @fz RF z = IZR z.
Proof.
  destruct z; cbn [fz]; [reflexivity|apply fpos_RF|].
  rewrite fpos_RF. unfold fopp, RF; cbn. rewrite <- opp_IZR. reflexivity.
Qed.

Lemma fz_RF_nat k : @fz RF (Z.of_nat k) = INR k.
Proof. rewrite fz_RF. symmetry. apply INR_IZR_INZ. Qed.

(** C19 (4) over the reals: with both noise spreads zero the phase recorded for step k is
    syncphase + A sin(2 pi (f dt) k) and the amplitude is 1, where A and f dt are the constructor
    arguments `modampl` and `modtimeincrement` (for either RF model) *)
Lemma sinusoidal_modulation_R (lin : bool) (fsqrt : R -> R) (sync : R) (env : string -> R)
      (noise : nat -> R) (steps k : nat) :
  env "phasespread"%string = 0%R -> env "amplspread"%string = 0%R -> (k < steps)%nat ->
  let d := if lin then dyncfg_linear RF fsqrt (2 * PI)%R env
           else dyncfg_sinusoidal RF fsqrt (2 * PI)%R env in
  nth_error (calc_modulation (K:=RF) sin sync d noise steps) k =
  Some ((sync + env "modampl"%string * sin (2 * PI * env "modtimeincrement"%string * INR k))%R, 1%R).
Proof.
  intros H1 H2 Hk d.
  pose proof (sinusoidal_modulation_args RF sin fsqrt (2 * PI)%R lin sync env noise steps k H1 H2 Hk) as X.
  cbn zeta in X. fold d in X. rewrite X. rewrite fz_RF_nat. reflexivity.
Qed.
