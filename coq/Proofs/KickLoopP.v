(** * The loop nests of KickMap::apply (Gen/Gen_KickLoop.v, Model/KickLoop.v) write EVERY cell of EVERY column of EVERY
    bunch with the guarded stencil sum over the input data, and nothing else.

    [kick_y_loops] / [kick_x_loops] run the nests as the source has them now (ranges and index expressions generated on
    every run; the translator refuses any statement that is not part of the idiom, in particular any conditional but the
    source-cell guard, [continue], [break] and calls).  The theorems: after the nest the output array holds [apply_y] /
    [apply_x] of Model/Kick.v - the functions every kick theorem of C01, C02, C03, C08 is about and the ones the extracted
    model ([kick_y_list], [kick_x_list]) maps over the grid - at every index [0 <= i < nb*n*n], WHATEVER IT HELD BEFORE,
    and is untouched elsewhere; the value of cell (b, x, y) is a function of the table and of the input row along the
    kick alone (no cached profile, no filling pattern, no clamp flag, no other bunch's data).  A changed loop range, a
    skipped bunch or column, a stride or index slip breaks these proofs. *)
From Coq Require Import List ZArith QArith Qcanon Lia String.
From Inovesa Require Import Base.FieldKit Gen.Gen_KickLoop Model.Kick Model.KickLoop.
Import ListNotations.
Local Open Scope Z_scope.

(** ** loops *)
Lemma kfor_nat {St : Type} (P : Z -> St -> Prop) lo (body : Z -> St -> St) :
  forall (m : nat) s,
    P lo s ->
    (forall k t, lo <= k < lo + Z.of_nat m -> P k t -> P (k + 1) (body k t)) ->
    P (lo + Z.of_nat m) (fold_left (fun t k => body k t) (map (fun k => lo + k) (map Z.of_nat (seq 0 m))) s).
Proof.
  induction m as [|m IH]; intros s H0 Hstep.
  - cbn. replace (lo + 0) with lo by lia. exact H0.
  - rewrite seq_S, !map_app, fold_left_app. cbn [map fold_left seq Nat.add].
    replace (lo + Z.of_nat (S m)) with (lo + Z.of_nat m + 1) by lia.
    apply Hstep; [lia|]. apply IH; [exact H0|]. intros k t Hk. apply Hstep. lia.
Qed.

Lemma kfor_inv {St : Type} (P : Z -> St -> Prop) lo hi (body : Z -> St -> St) s :
  lo <= hi -> P lo s ->
  (forall k t, lo <= k < hi -> P k t -> P (k + 1) (body k t)) ->
  P hi (kfor lo hi body s).
Proof.
  intros Hle H0 Hstep. unfold kfor, zrange.
  replace hi with (lo + Z.of_nat (Z.to_nat (hi - lo))) at 1 by lia.
  apply kfor_nat; [exact H0|]. intros k t Hk. apply Hstep. lia.
Qed.

Lemma qsum_nil : qsum [] = 0%Qc. Proof. reflexivity. Qed.
Lemma qsum_cons x r : qsum (x :: r) = (x + qsum r)%Qc. Proof. reflexivity. Qed.

(** the guarded accumulation [if g j then value += f j] from [value = a] is [a] plus the sum of the guarded terms *)
Lemma fold_guard_qsum (g : Z -> bool) (f : Z -> Qc) (l : list Z) (a : Qc) :
  fold_left (fun v j => if g j then (v + f j)%Qc else v) l a =
  (a + qsum (map (fun j => if g j then f j else 0%Qc) l))%Qc.
Proof.
  revert a. induction l as [|j l IH]; intros a; cbn [fold_left map].
  - rewrite qsum_nil. ring.
  - rewrite IH, qsum_cons. destruct (g j); ring.
Qed.

(** ** the generated ranges and index expressions on the square grid ([kd = pd = n], [_lastbunch = nb - 1]) in canonical
    form ([ring] absorbs re-associated products, hoisted sub-expressions and renamed locals of the source) *)
Lemma kyl_ranges nb n it b x y :
  kyl_b_lo nb n n it (nb - 1) = 0 /\ kyl_b_hi nb n n it (nb - 1) = nb /\
  kyl_x_lo nb n n it (nb - 1) b = 0 /\ kyl_x_hi nb n n it (nb - 1) b = n /\
  kyl_y_lo nb n n it (nb - 1) b x = 0 /\ kyl_y_hi nb n n it (nb - 1) b x = n /\
  kyl_j_lo nb n n it (nb - 1) b x y = 0 /\ kyl_j_hi nb n n it (nb - 1) b x y = it.
Proof.
  unfold kyl_b_lo, kyl_b_hi, kyl_x_lo, kyl_x_hi, kyl_y_lo, kyl_y_hi, kyl_j_lo, kyl_j_hi. repeat split; ring.
Qed.
Lemma kxl_ranges nb n it b x y :
  kxl_b_lo nb n n it (nb - 1) = 0 /\ kxl_b_hi nb n n it (nb - 1) = nb /\
  kxl_x_lo nb n n it (nb - 1) b = 0 /\ kxl_x_hi nb n n it (nb - 1) b = n /\
  kxl_y_lo nb n n it (nb - 1) b x = 0 /\ kxl_y_hi nb n n it (nb - 1) b x = n /\
  kxl_j_lo nb n n it (nb - 1) b x y = 0 /\ kxl_j_hi nb n n it (nb - 1) b x y = it.
Proof.
  unfold kxl_b_lo, kxl_b_hi, kxl_x_lo, kxl_x_hi, kxl_y_lo, kxl_y_hi, kxl_j_lo, kxl_j_hi. repeat split; ring.
Qed.
Lemma kyl_hinfo_eq nb n it b x y j : kyl_hinfo nb n n it (nb - 1) b x y j = hidx_y n nb it b x j.
Proof. unfold kyl_hinfo, hidx_y. ring. Qed.
Lemma kxl_hinfo_eq nb n it b x y j : kxl_hinfo nb n n it (nb - 1) b x y j = hidx_x n nb it b y j.
Proof. unfold kxl_hinfo, hidx_x. ring. Qed.
Lemma kyl_src_eq nb n it b x y j h : kyl_src nb n n it (nb - 1) b x y j h = y + h - n / 2.
Proof. unfold kyl_src. ring. Qed.
Lemma kxl_src_eq nb n it b x y j h : kxl_src nb n n it (nb - 1) b x y j h = x + h - n / 2.
Proof. unfold kxl_src. ring. Qed.
Lemma kyl_bound_eq nb n it b x y j : kyl_bound nb n n it (nb - 1) b x y j = n.
Proof. unfold kyl_bound. ring. Qed.
Lemma kxl_bound_eq nb n it b x y j : kxl_bound nb n n it (nb - 1) b x y j = n.
Proof. unfold kxl_bound. ring. Qed.
Lemma kyl_read_eq nb n it b x y j s : kyl_read nb n n it (nb - 1) b x y j s = didx n b x s.
Proof. unfold kyl_read, didx. ring. Qed.
Lemma kxl_read_eq nb n it b x y j s : kxl_read nb n n it (nb - 1) b x y j s = didx n b s y.
Proof. unfold kxl_read, didx. ring. Qed.
Lemma kyl_write_eq nb n it b x y : kyl_write nb n n it (nb - 1) b x y = b * n * n + x * n + y.
Proof. unfold kyl_write. ring. Qed.
Lemma kxl_write_eq nb n it b x y : kxl_write nb n n it (nb - 1) b x y = b * n * n + x * n + y.
Proof. unfold kxl_write. ring. Qed.

Lemma zrange_shift0 it : map (fun k : Z => 0 + k) (zrange (it - 0)) = zrange it.
Proof.
  replace (it - 0) with it by lia. rewrite map_ext with (g := fun k : Z => k) by (intros; lia). apply map_id.
Qed.

(** the accumulator of cell (b, x, y) is the model's cell function: the generated j range is [0, it), the guard is the
    source-cell guard, the terms read the input row along the kick at the converted source cells *)
Lemma kyl_value_is_model n nb it H D b x y :
  kyl_value nb n n it (nb - 1) H D b x y = apply_y_cell n nb it H D b x y.
Proof.
  destruct (kyl_ranges nb n it b x y) as (_ & _ & _ & _ & _ & _ & Ejl & Ejh).
  unfold kyl_value, kfor. rewrite Ejl, Ejh, zrange_shift0. cbv zeta.
  rewrite (fold_guard_qsum
             (fun j => wrap32 (kyl_src nb n n it (nb - 1) b x y j (fst (H (kyl_hinfo nb n n it (nb - 1) b x y j)))) <?
                       kyl_bound nb n n it (nb - 1) b x y j)
             (fun j => (D (kyl_read nb n n it (nb - 1) b x y j
                         (wrap32 (kyl_src nb n n it (nb - 1) b x y j (fst (H (kyl_hinfo nb n n it (nb - 1) b x y j)))))) *
                        snd (H (kyl_hinfo nb n n it (nb - 1) b x y j)))%Qc)).
  unfold apply_y_cell, row_out. cbv zeta.
  rewrite (map_ext _ (fun j : Z =>
     if wrap32 (y + fst (H (hidx_y n nb it b x j)) - n / 2) <? n
     then (D (didx n b x (wrap32 (y + fst (H (hidx_y n nb it b x j)) - n / 2))) * snd (H (hidx_y n nb it b x j)))%Qc else 0%Qc)).
  - ring.
  - intros j. rewrite kyl_hinfo_eq, kyl_src_eq, kyl_bound_eq, kyl_read_eq. reflexivity.
Qed.

Lemma kxl_value_is_model n nb it H D b x y :
  kxl_value nb n n it (nb - 1) H D b x y = apply_x_cell n nb it H D b x y.
Proof.
  destruct (kxl_ranges nb n it b x y) as (_ & _ & _ & _ & _ & _ & Ejl & Ejh).
  unfold kxl_value, kfor. rewrite Ejl, Ejh, zrange_shift0. cbv zeta.
  rewrite (fold_guard_qsum
             (fun j => wrap32 (kxl_src nb n n it (nb - 1) b x y j (fst (H (kxl_hinfo nb n n it (nb - 1) b x y j)))) <?
                       kxl_bound nb n n it (nb - 1) b x y j)
             (fun j => (D (kxl_read nb n n it (nb - 1) b x y j
                         (wrap32 (kxl_src nb n n it (nb - 1) b x y j (fst (H (kxl_hinfo nb n n it (nb - 1) b x y j)))))) *
                        snd (H (kxl_hinfo nb n n it (nb - 1) b x y j)))%Qc)).
  unfold apply_x_cell, row_out. cbv zeta.
  rewrite (map_ext _ (fun j : Z =>
     if wrap32 (x + fst (H (hidx_x n nb it b y j)) - n / 2) <? n
     then (D (didx n b (wrap32 (x + fst (H (hidx_x n nb it b y j)) - n / 2)) y) * snd (H (hidx_x n nb it b y j)))%Qc else 0%Qc)).
  - ring.
  - intros j. rewrite kxl_hinfo_eq, kxl_src_eq, kxl_bound_eq, kxl_read_eq. reflexivity.
Qed.

(** ** the sweep: the nests walk the output array in index order *)
Definition sweptq (F : Z -> Qc) (out0 : Z -> Qc) (pos : Z) (out : Z -> Qc) : Prop :=
  forall i, out i = if ((0 <=? i) && (i <? pos))%bool then F i else out0 i.

Lemma sweptq_step F out0 pos out v :
  0 <= pos -> sweptq F out0 pos out -> v = F pos -> sweptq F out0 (pos + 1) (updq out pos v).
Proof.
  intros Hp Hs Hv i. unfold updq. destruct (Z.eqb_spec i pos) as [->|Hne].
  - rewrite Hv. replace ((0 <=? pos) && (pos <? pos + 1))%bool with true; [reflexivity|].
    symmetry. apply andb_true_intro. split; [apply Z.leb_le | apply Z.ltb_lt]; lia.
  - rewrite Hs. replace (i <? pos + 1) with (i <? pos); [reflexivity|].
    destruct (Z.ltb_spec i pos), (Z.ltb_spec i (pos + 1)); try reflexivity; lia.
Qed.

Lemma nest_sweep (F : Z -> Qc) nb n out0
      (blo bhi : Z) (xlo xhi : Z -> Z) (ylo yhi : Z -> Z -> Z) (wr : Z -> Z -> Z -> Z) (val : Z -> Z -> Z -> Qc) :
  0 < n -> 0 <= nb ->
  blo = 0 -> bhi = nb -> (forall b, xlo b = 0) -> (forall b, xhi b = n) ->
  (forall b x, ylo b x = 0) -> (forall b x, yhi b x = n) ->
  (forall b x y, wr b x y = b * n * n + x * n + y) ->
  (forall b x y, 0 <= b < nb -> 0 <= x < n -> 0 <= y < n -> val b x y = F (b * n * n + x * n + y)) ->
  sweptq F out0 (nb * n * n)
         (kfor blo bhi (fun b => kfor (xlo b) (xhi b) (fun x => kfor (ylo b x) (yhi b x) (fun y out =>
            updq out (wr b x y) (val b x y)))) out0).
Proof.
  intros Hn Hnb Ebl Ebh Exl Exh Eyl Eyh Ew Hval. subst blo bhi.
  apply (kfor_inv (fun b out => sweptq F out0 (b * n * n) out) 0 nb); cbv beta.
  - lia.
  - intros i. replace (0 * n * n) with 0 by ring.
    replace ((0 <=? i) && (i <? 0))%bool with false; [reflexivity|].
    destruct (Z.leb_spec 0 i), (Z.ltb_spec i 0); try reflexivity; lia.
  - intros b out Hb Hout. rewrite Exl, Exh.
    replace ((b + 1) * n * n) with (b * n * n + n * n) by ring.
    apply (kfor_inv (fun x o => sweptq F out0 (b * n * n + x * n) o) 0 n); cbv beta.
    + lia.
    + replace (b * n * n + 0 * n) with (b * n * n) by ring. exact Hout.
    + intros x o Hx Ho. rewrite Eyl, Eyh.
      replace (b * n * n + (x + 1) * n) with (b * n * n + x * n + n) by ring.
      apply (kfor_inv (fun y q => sweptq F out0 (b * n * n + x * n + y) q) 0 n); cbv beta.
      * lia.
      * replace (b * n * n + x * n + 0) with (b * n * n + x * n) by ring. exact Ho.
      * intros y q Hy Hq.
        replace (b * n * n + x * n + (y + 1)) with (b * n * n + x * n + y + 1) by ring.
        rewrite Ew. apply sweptq_step; [nia | exact Hq | apply Hval; lia].
Qed.

(** flat index <-> (bunch, column, row) on the square grid *)
Lemma cell_of_didx n b x y :
  0 < n -> 0 <= b -> 0 <= x < n -> 0 <= y < n ->
  cell_b n (b * n * n + x * n + y) = b /\ cell_x n (b * n * n + x * n + y) = x /\ cell_y n (b * n * n + x * n + y) = y.
Proof.
  intros Hn Hb Hx Hy. unfold cell_b, cell_x, cell_y.
  set (i := b * n * n + x * n + y).
  assert (Ei : i = (b * n + x) * n + y) by (unfold i; ring).
  assert (E1 : i / n = b * n + x).
  { rewrite Ei. rewrite Z.add_comm, Z.div_add by lia. rewrite Z.div_small by lia. lia. }
  assert (E2 : i mod n = y).
  { rewrite Ei. rewrite Z.add_comm, Z.mod_add by lia. apply Z.mod_small; lia. }
  assert (E3 : i / (n * n) = b).
  { rewrite <- Z.div_div by lia. rewrite E1. rewrite Z.add_comm, Z.div_add by lia. rewrite Z.div_small by lia. lia. }
  assert (E4 : (i / n) mod n = x).
  { rewrite E1. rewrite Z.add_comm, Z.mod_add by lia. apply Z.mod_small; lia. }
  repeat split; assumption.
Qed.

Theorem kick_y_loops_sweep nb n it H D out0 :
  0 < n -> 0 <= nb ->
  sweptq (apply_y n nb it H D) out0 (nb * n * n) (kick_y_loops nb n n it (nb - 1) H D out0).
Proof.
  intros Hn Hnb. unfold kick_y_loops.
  apply (nest_sweep (apply_y n nb it H D) nb n out0); try assumption.
  - apply (kyl_ranges nb n it 0 0 0).
  - apply (kyl_ranges nb n it 0 0 0).
  - intros b. apply (kyl_ranges nb n it b 0 0).
  - intros b. apply (kyl_ranges nb n it b 0 0).
  - intros b x. apply (kyl_ranges nb n it b x 0).
  - intros b x. apply (kyl_ranges nb n it b x 0).
  - intros b x y. apply kyl_write_eq.
  - intros b x y Hb Hx Hy. rewrite kyl_value_is_model. unfold apply_y.
    destruct (cell_of_didx n b x y Hn (proj1 Hb) Hx Hy) as (-> & -> & ->). reflexivity.
Qed.

Theorem kick_x_loops_sweep nb n it H D out0 :
  0 < n -> 0 <= nb ->
  sweptq (apply_x n nb it H D) out0 (nb * n * n) (kick_x_loops nb n n it (nb - 1) H D out0).
Proof.
  intros Hn Hnb. unfold kick_x_loops.
  apply (nest_sweep (apply_x n nb it H D) nb n out0); try assumption.
  - apply (kxl_ranges nb n it 0 0 0).
  - apply (kxl_ranges nb n it 0 0 0).
  - intros b. apply (kxl_ranges nb n it b 0 0).
  - intros b. apply (kxl_ranges nb n it b 0 0).
  - intros b x. apply (kxl_ranges nb n it b x 0).
  - intros b x. apply (kxl_ranges nb n it b x 0).
  - intros b x y. apply kxl_write_eq.
  - intros b x y Hb Hx Hy. rewrite kxl_value_is_model. unfold apply_x.
    destruct (cell_of_didx n b x y Hn (proj1 Hb) Hx Hy) as (-> & -> & ->). reflexivity.
Qed.

Lemma in_range_true i m : 0 <= i < m -> ((0 <=? i) && (i <? m))%bool = true.
Proof. intros Hi. apply andb_true_intro. split; [apply Z.leb_le | apply Z.ltb_lt]; lia. Qed.
Lemma in_range_false i m : ~ (0 <= i < m) -> ((0 <=? i) && (i <? m))%bool = false.
Proof. intros Hi. destruct (Z.leb_spec 0 i), (Z.ltb_spec i m); try reflexivity; lia. Qed.

Lemma didx_range n nb b x y : 0 < n -> 0 <= b < nb -> 0 <= x < n -> 0 <= y < n -> 0 <= b * n * n + x * n + y < nb * n * n.
Proof.
  intros Hn Hb Hx Hy.
  assert (A1 : 0 <= b * n) by (apply Z.mul_nonneg_nonneg; lia).
  assert (A2 : b * n + x + 1 <= nb * n) by (replace (nb * n) with (b * n + (nb - b) * n) by ring; nia).
  replace (b * n * n + x * n + y) with ((b * n + x) * n + y) by ring.
  replace (nb * n * n) with ((nb * n) * n) by ring.
  assert (A3 : (b * n + x + 1) * n <= nb * n * n) by (apply Z.mul_le_mono_nonneg_r; lia).
  assert (A4 : 0 <= (b * n + x) * n) by (apply Z.mul_nonneg_nonneg; lia).
  replace ((b * n + x + 1) * n) with ((b * n + x) * n + n) in A3 by ring. lia.
Qed.

(** EVERY CELL of EVERY BUNCH of the output is written, with the model's cell function of the table and the input row
    along the kick - whatever the target grid held before *)
Theorem kick_apply_every_cell nb n it H D out0 b x y :
  0 < n -> 0 <= b < nb -> 0 <= x < n -> 0 <= y < n ->
  kick_y_loops nb n n it (nb - 1) H D out0 (didx n b x y) = apply_y_cell n nb it H D b x y /\
  kick_x_loops nb n n it (nb - 1) H D out0 (didx n b x y) = apply_x_cell n nb it H D b x y.
Proof.
  intros Hn Hb Hx Hy. unfold didx.
  pose proof (didx_range n nb b x y Hn Hb Hx Hy) as Hr.
  assert (Hnb : 0 <= nb) by lia.
  split.
  - rewrite (kick_y_loops_sweep nb n it H D out0 Hn Hnb _), in_range_true by exact Hr. unfold apply_y.
    destruct (cell_of_didx n b x y Hn (proj1 Hb) Hx Hy) as (-> & -> & ->). reflexivity.
  - rewrite (kick_x_loops_sweep nb n it H D out0 Hn Hnb _), in_range_true by exact Hr. unfold apply_x.
    destruct (cell_of_didx n b x y Hn (proj1 Hb) Hx Hy) as (-> & -> & ->). reflexivity.
Qed.

(** ... and nothing outside the grid is written *)
Theorem kick_apply_elsewhere nb n it H D out0 i :
  0 < n -> 0 <= nb -> ~ (0 <= i < nb * n * n) ->
  kick_y_loops nb n n it (nb - 1) H D out0 i = out0 i /\ kick_x_loops nb n n it (nb - 1) H D out0 i = out0 i.
Proof.
  intros Hn Hnb Hi. split.
  - rewrite (kick_y_loops_sweep nb n it H D out0 Hn Hnb i), in_range_false by exact Hi. reflexivity.
  - rewrite (kick_x_loops_sweep nb n it H D out0 Hn Hnb i), in_range_false by exact Hi. reflexivity.
Qed.

(** the output is a function of the input DATA and the TABLE alone: two runs on the same data and table - with different
    earlier contents of the target grid (and, there being no other input, with whatever else the grids cache: bunch
    profiles, integral, filling pattern) - agree in every cell of every bunch *)
Theorem kick_apply_target_independent nb n it H D out0 out0' i :
  0 < n -> 0 <= nb -> 0 <= i < nb * n * n ->
  kick_y_loops nb n n it (nb - 1) H D out0 i = kick_y_loops nb n n it (nb - 1) H D out0' i /\
  kick_x_loops nb n n it (nb - 1) H D out0 i = kick_x_loops nb n n it (nb - 1) H D out0' i.
Proof.
  intros Hn Hnb Hi. split.
  - rewrite (kick_y_loops_sweep nb n it H D out0 Hn Hnb i), (kick_y_loops_sweep nb n it H D out0' Hn Hnb i),
      in_range_true by exact Hi. reflexivity.
  - rewrite (kick_x_loops_sweep nb n it H D out0 Hn Hnb i), (kick_x_loops_sweep nb n it H D out0' Hn Hnb i),
      in_range_true by exact Hi. reflexivity.
Qed.

(** locality: the kick along y of column (b, x) reads that column only (every bunch is transformed as on its own);
    the kick along x of row y of bunch b reads that row only *)
Theorem kick_apply_row_local nb n it H D D' out0 out0' b x y :
  0 < n -> 0 <= b < nb -> 0 <= x < n -> 0 <= y < n ->
  ((forall s, D (didx n b x s) = D' (didx n b x s)) ->
   kick_y_loops nb n n it (nb - 1) H D out0 (didx n b x y) = kick_y_loops nb n n it (nb - 1) H D' out0' (didx n b x y)) /\
  ((forall s, D (didx n b s y) = D' (didx n b s y)) ->
   kick_x_loops nb n n it (nb - 1) H D out0 (didx n b x y) = kick_x_loops nb n n it (nb - 1) H D' out0' (didx n b x y)).
Proof.
  intros Hn Hb Hx Hy. split; intros Hrow.
  - rewrite (proj1 (kick_apply_every_cell nb n it H D out0 b x y Hn Hb Hx Hy)),
      (proj1 (kick_apply_every_cell nb n it H D' out0' b x y Hn Hb Hx Hy)).
    unfold apply_y_cell, row_out. apply (f_equal qsum). apply map_ext. intros j. cbv zeta. rewrite Hrow. reflexivity.
  - rewrite (proj2 (kick_apply_every_cell nb n it H D out0 b x y Hn Hb Hx Hy)),
      (proj2 (kick_apply_every_cell nb n it H D' out0' b x y Hn Hb Hx Hy)).
    unfold apply_x_cell, row_out. apply (f_equal qsum). apply map_ext. intros j. cbv zeta. rewrite Hrow. reflexivity.
Qed.

(** ** the executable model the correspondence runs ([kick_y_list], [kick_x_list], extracted) is the loop nest *)
Theorem kick_list_is_loops n nb it (offs data : list Qc) (out0 : Z -> Qc) :
  0 < n -> 0 <= nb ->
  kick_y_list n nb it offs data =
    map (kick_y_loops nb n n it (nb - 1) (updateSM n it (getQ offs)) (getQ data) out0) (zrange (nb * n * n)) /\
  kick_x_list n nb it offs data =
    map (kick_x_loops nb n n it (nb - 1) (updateSM n it (getQ offs)) (getQ data) out0) (zrange (nb * n * n)).
Proof.
  intros Hn Hnb. unfold kick_y_list, kick_x_list. cbv zeta.
  split; apply map_ext_in; intros i Hi; unfold zrange in Hi; apply in_map_iff in Hi;
    destruct Hi as (k & <- & Hk); apply in_seq in Hk.
  - rewrite (kick_y_loops_sweep nb n it _ _ out0 Hn Hnb _), in_range_true by lia. reflexivity.
  - rewrite (kick_x_loops_sweep nb n it _ _ out0 Hn Hnb _), in_range_true by lia. reflexivity.
Qed.

(** ** what the function reads: the members of the map that KickMap::apply mentions (generated list) are the two grids,
    the direction, the mesh sizes, the stencil width, the table and the last table block - no clamp flag, no offsets *)
Theorem kick_apply_members :
  forall m, In m kl_members ->
            In m ["PhaseSpace::nb"; "_hinfo"; "_in"; "_ip"; "_kickdirection"; "_lastbunch"; "_meshsize_kd"; "_meshsize_pd"; "_out"]%string.
Proof.
  intros m Hm. unfold kl_members in Hm. cbn [In] in *.
  repeat (destruct Hm as [<-|Hm]; [cbn; tauto|]). contradiction.
Qed.

Theorem kick_apply_reads_no_clamp : ~ In "_clamp"%string kl_members.
Proof.
  intros Hm. apply kick_apply_members in Hm. cbn [In] in Hm.
  repeat (destruct Hm as [Hm|Hm]; [discriminate Hm|]). contradiction.
Qed.
