(** Analytic laws of the impedance sample functions over R (DESIGN 5/C16 item 3). *)
From Coq Require Import Reals Lra Lia List ZArith Psatz.
From Interval Require Import Tactic.
From Inovesa Require Import Base.FieldKit Model.Impedance Model.ImpedanceR Proofs.ImpedanceP.
Local Open Scope R_scope.

(** ** cube root *)
Lemma cbrt_0 : cbrt 0 = 0.
Proof. unfold cbrt, rpow. destruct (Rle_dec 0 0); [reflexivity|lra]. Qed.

Lemma cbrt_pos x : 0 < x -> 0 < cbrt x.
Proof. intros H. unfold cbrt, rpow. destruct (Rle_dec x 0); [lra|]. unfold Rpower. apply exp_pos. Qed.

Lemma cbrt_nonneg x : 0 <= cbrt x.
Proof.
  unfold cbrt, rpow. destruct (Rle_dec x 0); [lra|]. unfold Rpower. left. apply exp_pos.
Qed.

Lemma cbrt_cube x : 0 <= x -> cbrt x ^ 3 = x.
Proof.
  intros H. unfold cbrt, rpow. destruct (Rle_dec x 0) as [L|G].
  - assert (x = 0) by lra. subst. ring.
  - assert (Hx : 0 < x) by lra.
    rewrite <- (Rpower_pow 3) by (unfold Rpower; apply exp_pos).
    rewrite Rpower_mult. replace (/ 3 * INR 3) with 1 by (simpl; field).
    apply Rpower_1. exact Hx.
Qed.

Lemma cube_lt v w : 0 <= v -> v < w -> v ^ 3 < w ^ 3.
Proof.
  intros Hv L. assert (H : 0 < (w - v) * (w * w + w * v + v * v)) by (apply Rmult_lt_0_compat; nra).
  replace (w ^ 3) with (v ^ 3 + (w - v) * (w * w + w * v + v * v)) by ring. lra.
Qed.

Lemma cube_inj v w : 0 <= v -> 0 <= w -> v ^ 3 = w ^ 3 -> v = w.
Proof.
  intros Hv Hw E. destruct (Rtotal_order v w) as [L|[Eq|G]]; [exfalso|exact Eq|exfalso].
  - pose proof (cube_lt v w Hv L). lra.
  - pose proof (cube_lt w v Hw G). lra.
Qed.

Lemma cube_le_inv v w : 0 <= v -> 0 <= w -> v ^ 3 <= w ^ 3 -> v <= w.
Proof.
  intros Hv Hw E. destruct (Rle_lt_dec v w) as [L|G]; [exact L|exfalso].
  pose proof (cube_lt w v Hw G). lra.
Qed.

Lemma cbrt_unique x v : 0 <= v -> v ^ 3 = x -> v = cbrt x.
Proof.
  intros Hv E. assert (Hx : 0 <= x) by (rewrite <- E; apply pow_le; exact Hv).
  apply cube_inj; [exact Hv|apply cbrt_nonneg|]. rewrite cbrt_cube by exact Hx. exact E.
Qed.

Lemma cbrt_le a b : 0 <= a -> a <= b -> cbrt a <= cbrt b.
Proof.
  intros Ha Hab. apply cube_le_inv; try apply cbrt_nonneg. rewrite !cbrt_cube by lra. exact Hab.
Qed.

Lemma cbrt_scale8 x : 0 <= x -> cbrt (8 * x) = 2 * cbrt x.
Proof.
  intros H. symmetry. apply cbrt_unique.
  - pose proof (cbrt_nonneg x). lra.
  - replace ((2 * cbrt x) ^ 3) with (8 * cbrt x ^ 3) by ring. rewrite cbrt_cube by exact H. reflexivity.
Qed.

(** ** free space *)
Lemma fs_cube x : 0 <= x ->
  fst (fs_sample x) ^ 3 = fs_re ^ 3 * x /\ snd (fs_sample x) ^ 3 = fs_im ^ 3 * x.
Proof.
  intros H. unfold fs_sample. cbn [fst snd]. rewrite !Rpow_mult_distr, cbrt_cube by exact H. split; reflexivity.
Qed.

Lemma fs_passive x : passive (fs_sample x).
Proof.
  unfold passive, fs_sample, fs_re. cbn [fst]. apply Rmult_le_pos; [lra|apply cbrt_nonneg].
Qed.

Lemma fs_scale x : 0 <= x -> fs_sample (8 * x) = cr_scale 2 (fs_sample x).
Proof.
  intros H. unfold fs_sample, cr_scale. cbn [fst snd]. rewrite cbrt_scale8 by exact H. f_equal; ring.
Qed.

Lemma fs_zero : fs_sample 0 = cr0.
Proof. unfold fs_sample, cr0. rewrite cbrt_0. f_equal; ring. Qed.

(** the prefactor (306.3, 176.9): its argument is pi/6 to three decimals (0.5237 vs 0.5236) *)
Lemma fs_arg : 14 / 100000 <= atan (fs_im / fs_re) - PI / 6 <= 15 / 100000.
Proof. unfold fs_im, fs_re. split; interval with (i_prec 60). Qed.

(** ** resistive wall *)
Lemma rw_Z1_nonneg Z0 mu_r f0 s c L b : 0 <= L -> 0 < b -> 0 <= rw_Z1 Z0 mu_r f0 s c L b.
Proof.
  intros HL Hb. unfold rw_Z1. pose proof (sqrt_pos (Z0 * mu_r * f0 / s / PI / c)) as Hs.
  apply Rmult_le_pos; [|left; apply Rinv_0_lt_compat; exact Hb].
  apply Rmult_le_pos; [|lra]. apply Rmult_le_pos; assumption.
Qed.

Lemma rw_passive Z1 x : 0 <= Z1 -> passive (rw_sample Z1 x).
Proof. intros H. unfold passive, rw_sample. cbn [fst]. apply Rmult_le_pos; [exact H|apply sqrt_pos]. Qed.

Lemma rw_square Z1 x : 0 <= x -> fst (rw_sample Z1 x) ^ 2 = Z1 ^ 2 * x /\ snd (rw_sample Z1 x) = - fst (rw_sample Z1 x).
Proof.
  intros H. unfold rw_sample. cbn [fst snd]. split; [|reflexivity].
  replace ((Z1 * sqrt x) ^ 2) with (Z1 ^ 2 * (sqrt x * sqrt x)) by ring. rewrite sqrt_sqrt by exact H. reflexivity.
Qed.

Lemma sqrt_scale4 x : 0 <= x -> sqrt (4 * x) = 2 * sqrt x.
Proof.
  intros H. rewrite sqrt_mult by lra. replace 4 with (2 * 2) by ring. rewrite sqrt_square by lra. reflexivity.
Qed.

Lemma rw_scale Z1 x : 0 <= x -> rw_sample Z1 (4 * x) = cr_scale 2 (rw_sample Z1 x).
Proof.
  intros H. unfold rw_sample, cr_scale. cbn [fst snd]. rewrite sqrt_scale4 by exact H. f_equal; ring.
Qed.

(** ** collimator: a positive constant resistance *)
Lemma coll_positive Z0 ro ri : 0 < Z0 -> 0 < ri -> ri < ro ->
  0 < fst (coll_sample Z0 ro ri) /\ snd (coll_sample Z0 ro ri) = 0.
Proof.
  intros HZ Hi Hio. unfold coll_sample. cbn [fst snd]. split; [|reflexivity].
  apply Rmult_lt_0_compat.
  - apply Rdiv_lt_0_compat; [exact HZ|apply PI_RGT_0].
  - rewrite <- ln_1. apply ln_increasing; [lra|].
    apply (Rmult_lt_reg_r ri); [exact Hi|]. unfold Rdiv. rewrite Rmult_assoc, Rinv_l by lra. lra.
Qed.

(** ** what the relational validators accept (DESIGN 3): a non-negative [v] whose cube
    (square) is within [t*x] of [x] lies between the roots of [(1-t)x] and [(1+t)x] *)
Lemma Rabs_between a b : Rabs a <= b -> - b <= a <= b.
Proof. unfold Rabs. destruct (Rcase_abs a); lra. Qed.

Lemma cube_rel_sound t x v : 0 <= t < 1 -> 0 < x -> 0 <= v -> Rabs (v ^ 3 - x) <= t * x ->
  cbrt ((1 - t) * x) <= v <= cbrt ((1 + t) * x).
Proof.
  intros Ht Hx Hv H. apply Rabs_between in H.
  assert (Ev : v = cbrt (v ^ 3)) by (apply cbrt_unique; [exact Hv|reflexivity]).
  split.
  - rewrite Ev at 1. apply cbrt_le; nra.
  - rewrite Ev at 1. apply cbrt_le; [apply pow_le; exact Hv|nra].
Qed.

Lemma sqrt_rel_sound t x v : 0 <= t < 1 -> 0 < x -> 0 <= v -> Rabs (v ^ 2 - x) <= t * x ->
  sqrt ((1 - t) * x) <= v <= sqrt ((1 + t) * x).
Proof.
  intros Ht Hx Hv H. apply Rabs_between in H.
  assert (Ev : v = sqrt (v ^ 2)) by (rewrite <- Rsqr_pow2, sqrt_Rsqr by exact Hv; reflexivity).
  split.
  - rewrite Ev at 1. apply sqrt_le_1_alt. nra.
  - rewrite Ev at 1. apply sqrt_le_1_alt. nra.
Qed.

(** ** passivity of the vectors and of the factory's result *)
Lemma passive0 : passive cr0.
Proof. unfold passive, cr0. cbn [fst]. lra. Qed.

Lemma passive_add a b : passive a -> passive b -> passive (cr_add a b).
Proof. unfold passive, cr_add. cbn [fst]. lra. Qed.

Lemma fs_vec_passive n delta : Forall passive (fs_vec n delta).
Proof. apply (push_loop_P creal cr0 cr_add passive passive0 passive_add). intros i _. apply fs_passive. Qed.

Lemma rw_vec_passive n Z1 delta : 0 <= Z1 -> Forall passive (rw_vec n Z1 delta).
Proof. intros H. apply (push_loop_P creal cr0 cr_add passive passive0 passive_add). intros i _. apply rw_passive. exact H. Qed.

Lemma coll_vec_passive n Z0 ro ri : 0 < Z0 -> 0 < ri -> ri < ro -> Forall passive (coll_vec n Z0 ro ri).
Proof.
  intros HZ Hi Hio. apply (const_vec_P creal cr0 passive passive0).
  unfold passive. left. apply coll_positive; assumption.
Qed.

Lemma factory_R_passive pp dfs Z1 drw Z0 ro ri n gap use_csr s xi rc file v :
  (0 <= n)%Z -> (forall i, (1 <= i <= n / 2)%Z -> passive (pp i)) ->
  0 <= Z1 -> 0 < Z0 -> 0 < ri -> ri < ro ->
  (forall d, file = Some d -> Forall passive d) ->
  factory_R pp dfs Z1 drw Z0 ro ri n gap use_csr s xi rc file = Some v -> Forall passive v.
Proof.
  intros Hn Hpp HZ1 HZ0 Hi Hio Hf E. unfold factory_R in E.
  eapply (factory_P creal cr0 cr_add passive passive0 passive_add); try exact E; try assumption.
  - intros i _. apply fs_passive.
  - intros i _. apply rw_passive. exact HZ1.
  - unfold passive. left. apply coll_positive; assumption.
Qed.

(** certified values of ln at a few radius ratios (used by the collimator oracle) *)
Lemma ln_bounds :
  693147180 / 1000000000 <= ln (2 / 1) <= 693147181 / 1000000000 /\
  405465108 / 1000000000 <= ln (3 / 2) <= 405465109 / 1000000000 /\
  1386294361 / 1000000000 <= ln (4 / 1) <= 1386294362 / 1000000000 /\
  2302585092 / 1000000000 <= ln (10 / 1) <= 2302585093 / 1000000000 /\
  223143551 / 1000000000 <= ln (5 / 4) <= 223143552 / 1000000000.
Proof. repeat split; interval with (i_prec 80). Qed.
